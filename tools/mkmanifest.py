#!/usr/bin/env python3
"""Regenerate /verif/MANIFEST.json from the table below (keeps it schema-valid at all times)."""
import json
import os
import subprocess

VERIF = os.path.dirname(os.path.dirname(os.path.abspath(__file__)))

TRUST = ("Trusted: Lean 4.33 kernel (axioms propext/Classical.choice/Quot.sound only, audited per theorem on every run; "
         "no sorry/native_decide/own axioms); tools/extract.py (translator of the literal tables into CG/Generated.lean); "
         "the hand-written model of code-shaped logic, tied to /repo only by the differential correspondence run; "
         "CPython, networkx and the SAT solver (pysat is absent: a shim stands in) are modelled, not verified.")

# property id -> (claimed?, technique, level text, level note, design_ref)   | or reason when not claimed
CLAIMED = {
    "C20": dict(
        technique="Lean 4 theorem (lint_iff: ValueError <-> documented rule list, all orders/flags) on a model whose "
                  "type tables are regenerated from utils.py/circuit.py each run + differential correspondence + rule-oracle search",
        text="Proof: `lint_iff`, `lint_ok_or_valueError`, `lint_order_irrelevant` hold for every graph (well- or ill-formed), "
             "all 16 flag combinations and every set-iteration order, about a line-by-line model of utils.lint whose type lists "
             "are extracted from the sources on every run (`tables_lint`, `tables_supported` by `decide`). The model is tied to "
             "the code by running both on generated well-formed and deliberately ill-formed graphs. Second half: "
             "`lint_accepts` / `lintClean_of_lint_ok` link the specification-level `LintClean` (what the transform theorems "
             "establish) with the linter (`lint_misses_bb_input_fanout`: the one clause lint does not look at), and "
             "`limit_fanin_passes_lint`, `limit_fanout_passes_lint`, `logic_blocks_pass_lint` (all widths), "
             "`roundtrip_passes_lint`, `writable_passes_lint`, `acyclic_unroll_passes_lint` prove it for those producers; "
             "`miter_may_fail_lint` exhibits the exception the property names (untied startpoints). Props/C20Producers.lean adds "
             "`ternary_passes_lint`, `remove_unloaded_passes_lint`, `unroll_passes_lint`, `insert_registers_passes_lint`, "
             "`sensitization_passes_lint`, `sensitivity_transform_passes_lint`, `miter_tied_passes_lint` (every startpoint tied) "
             "and, for strip_blackboxes, the exact characterisation `strip_blackboxes_passes_lint_iff` (the stripped circuit "
             "passes lint iff every dotted node is a pin and no ignored output pin is loaded; the unconditional statement is "
             "refuted by `strip_blackboxes_passes_lint_false`, whose first counterexample replays on the real code: known "
             "finding K47); further `sequential_unroll_passes_lint` (flop outputs other than q unloaded: K41), "
             "`add_subcircuit_passes_lint(_general)` (every child input driven), `fill_blackbox_passes_lint_iff` (exactly when "
             "the dotted nodes named after the instance are its pins and no other instance shares them; the plain statement "
             "is refuted), `bench_build_passes_lint`, `bench_roundtrip_passes_lint`, `verilog_readers_pass_lint` (both Verilog "
             "readers on restricted netlists without floating wires / open input pins). Every producer is also run and linted "
             "by the search on every run.",
        note=TRUST + " `Violates` (the documented rule list) is my reading of the docstring/property text.",
        ref="§4 C20"),
    "C16": dict(
        technique="Lean 4 theorems (worklist invariant, confluence) about a line-by-line model of Circuit.remove_unloaded "
                  "+ exact differential correspondence (removed list and resulting graph) + reachability-oracle search",
        text="Proof: `remove_unloaded_exact` (for every acyclic legally wired circuit, both values of `inputs` and every "
             "set-iteration order the worklist terminates and deletes exactly the nodes from which no output/blackbox-input "
             "pin is reachable and that the flag allows; the returned list is that set), `survivors_untouched`, "
             "`consistent_preserved`, `inputs_false_keeps_inputs`, `idempotent`, `order_irrelevant` — unbounded, by a loop "
             "invariant. The model's type lists are regenerated from circuit.py each run; the model is tied to the code by "
             "comparing the removal order and the resulting graph on generated circuits under controlled set orders. Cyclic circuits (Props/C16Cyclic.lean): `remove_unloaded_exact_cyclic` — on every legally wired circuit, cyclic or not, the call deletes exactly the complement of the greatest self-sustaining set (a node survives iff it is an output, a protected kind or drives a survivor); `kept_iff_live_of_acyclic` (agrees with the property on acyclic circuits); `dead_cycle_kept` (the K42 witness).",
        note=TRUST + " Hypothesis `Good`: acyclic, no fan-in on inputs/blackbox outputs, no fan-out from blackbox inputs.",
        ref="§4 C16"),
    "C01": dict(
        technique="Lean 4 theorems (Tseitin soundness/completeness for every arity and order, xor-chain invariant, solver "
                  "contract) about a model of sat.cnf whose clause templates are regenerated from sat.py each run + exact "
                  "clause/numbering correspondence + brute-force search on solve()",
        text="Proof: `cnf_sound`, `cnf_complete`, `cnf_projection` (models of cnf(c) restricted to nodes = consistent "
             "valuations), `cnf_aux_determined`, `cnf_ok`, `solve_spec` (for any sound+complete solver: False iff no consistent "
             "valuation agrees with the assumptions, else a consistent one), `solve_rejects_unknown`, `numbering_injective`, "
             "`acyclic_unique`, `acyclic_exists` — for every clean circuit (all gate types, every fan-in, cyclic or not, "
             "blackbox pins, any node names) and every set-iteration order. Clause templates, demotion table and the xor helper "
             "are extracted from sat.py on every run (`tables_cnf` by decide); the chain loop is hand-modelled and compared "
             "clause-by-clause (with IDPool numbering) against the real encoder.",
        note=TRUST + " The SAT solver is an abstract parameter with an assumed sound-and-complete contract (pysat is absent; "
             "the shim's answers are re-checked per case). Hypothesis `Clean`: typed, no `x`, single-input types have exactly one "
             "driver, multi-input types at least one.",
        ref="§4 C01"),
    "C05": dict(
        technique="Lean 4 theorems (gatemap_assoc over the extracted gate map, loop invariants with Refines) about line-by-line "
                  "models of limit_fanin/limit_fanout + exact structural correspondence + exhaustive-simulation search "
                  "(also for insert_registers and acyclic_unroll)",
        text="Proof: `limit_fanin_spec` / `limit_fanout_spec`: for every lint-clean circuit (cyclic or not), every k>=2 and every "
             "set-iteration order the call succeeds (incl. termination of uid), bounds hold for every node, inputs/outputs/"
             "attributes of original nodes are unchanged, the result is lint-clean and `Refines` the original on every original "
             "node; `gatemap_assoc` is proved over the table extracted from tx.py (the pre-fix `xnor->xnor` entry fails it); "
             "`gateFn_perm`, `limit_rejects_small_k`; `insert_registers_sem` (any circuit without blackboxes, any number of "
             "stages for which the call succeeds: original nodes keep type and output mark, outputs unchanged, the only new "
             "input is the clock, every instance is the `ff` flop, and with every inserted flop passing d to q the result "
             "and the original have the same consistent valuations on the original nodes, both directions); "
             "`acyclic_unroll_of_acyclic` (same inputs/outputs and the same function at every output). Total correctness (Props/C05Ok.lean): `insert_registers_ok_fixed` / `_ok_acyclic` (the call succeeds when a stage boundary exists, no node is typed bb_input and the flop pin names are free), `insert_registers_depths_ok`; the first formulation is refuted (`insert_registers_ok_false`).",
        note=TRUST + " Hypothesis `hname`: nodes that must be split have names `add` accepts (not digit-leading) — the code raises "
             "ValueError otherwise (witness in the Lean file).",
        ref="§4 C05"),
    "C07": dict(
        technique="Lean 4 invariant proof by induction over operation histories (Inv preserved by every call, successful or "
                  "raising) about the step function the driver executes + op-sequence differential correspondence + invariant "
                  "oracle on the real graph",
        text="Proof: `inv_step` for all eight operations with arbitrary arguments, `inv_reachable` for every finite history, "
             "`reject_class`, `connect_reject_unchanged`, `reject_no_edge_partial` (the enumerated non-atomic calls K12a-c are "
             "excluded and witnessed), `add_uid_fresh`. The type lists guarding add/connect are extracted from circuit.py each "
             "run. Proof-forced hypotheses (each replayed on the real code and recorded as known findings K22/K24): the child "
             "given to fill_blackbox has no blackbox pin marked output; a filled instance's present pins still have their pin "
             "type and are not shared with another instance (FillOK/RunOK).",
        note=TRUST + " State and exception class compared with the real Circuit after every call of random histories.",
        ref="§4 C07"),
    "C08": dict(
        technique="Lean 4 theorems (blocking-clause loop invariant over an abstract sound+complete solver, built on the C01 "
                  "encoder theorems) + byte-for-byte correspondence of the DIMACS text + brute-force counting search",
        text="Proof: `model_count_exact` (the loop terminates and returns exactly the number of startpoint valuations that "
             "extend to a consistent valuation satisfying the assumptions; any assumption set, zero startpoints included), "
             "`model_count_order_irrelevant`, `dimacs_projection` (the formula handed to the external counter, projected on "
             "its sampling set, has exactly those valuations as models), `signal_probability_exact`. The DIMACS text itself "
             "(header, numbering, clause lines) is modelled and compared byte-for-byte with what the real code writes "
             "(captured by a stand-in approxmc). use_xor_clauses=True is outside the statement and not modelled.",
        note=TRUST + " Solver and approxmc are abstract/stand-ins. signal_probability's cone extraction (tx.subcircuit) is tied "
             "by correspondence and brute-force search, the theorem is about the count on the extracted cone.",
        ref="§4 C08"),
    "C06": dict(
        technique="Lean 4 theorems (exact node/edge/registry structure of add_subcircuit and fill_blackbox, and their "
                  "semantic consequences) + exact structural correspondence after every call + simulation search",
        text="Proof: `add_subcircuit_struct` (parent nodes untouched and in order, child nodes appended under injective prefixed "
             "names with io stripped, wires = parent's + child's + exactly the requested connections, sub-blackboxes carried over), "
             "`add_subcircuit_io`, `add_subcircuit_sem` (spliced nodes satisfy the child's gate equations, connected inputs are "
             "buffers of their nets, untouched parent nodes keep their equations), `add_subcircuit_disjoint`, `pref_injective`, "
             "`fill_blackbox_struct`, `fill_blackbox_sem` — for all parents, children, names and connection maps; "
             "`strip_blackboxes_spec` (every kept input pin becomes an output buffer `inst_pin` driven as the pin was, every "
             "kept output pin a primary input `inst_pin`, ignored pins are gone, all other nodes and the wiring between "
             "surviving nodes unchanged, consistent valuations correspond on all surviving nodes, for every ignore list and "
             "order), `strip_blackboxes_rejects_overlap` (colliding exposed names are an error, never a merge). Total correctness (Props/C06Ok.lean): `strip_blackboxes_ok_iff` — the call succeeds exactly when no exposed pin name is taken and no two kept pins share one.",
        note=TRUST + " Proof-forced hypothesis `hfb` (machine-checked counterexample in CG/Proofs/C06Cex.lean): an output "
             "connection must not feed back into a non-input node of the spliced child itself.",
        ref="§4 C06"),
    "C12": dict(
        technique="Lean 4 theorems (BFS closure = reachability, Kahn order, longest-path characterisation of levelize and of "
                  "the recursive depth visit incl. completeness, k-cut separation) + differential correspondence of every query "
                  "+ brute-force graph-definition search",
        text="Proof: `fanin_fanout_spec`, `transitive_spec`, `startpoints_endpoints_spec`, `topo_valid`, `is_cyclic_iff`, "
             "`levelize_spec`, `reconvergent_iff`, `depth_rejects_cyclic`, `depth_sound`, `depth_complete` (the recursive visit "
             "returns exactly the longest path length, for every iteration order), `kcuts_sep` — all unbounded. networkx "
             "primitives (ancestors/descendants, DAG test, topological order) are re-implemented from their documented meaning "
             "and tied by running every query against the real code on generated DAGs and cyclic graphs.",
        note=TRUST + " `kcuts_sep` needs 0 < k (k = 0 is known finding K26). fanin/fanout_depth(maximum=False) is covered by "
             "correspondence only.",
        ref="§4 C12"),
    "C10": dict(
        technique="Lean 4 theorems (per-gate Kleene algebra for every arity, name-disjointness of companion and helper names, "
                  "loop invariant of the encoder) about a line-by-line model of tx.ternary + exact structural correspondence "
                  "+ exhaustive 3^k search",
        text="Proof: `ternary_ok` (the encoder succeeds on every good circuit, every order), `ternary_contains_c`, "
             "`ternary_kleene` (for every consistent valuation of the encoded circuit, mapping[n] is 1 exactly when gate-by-gate "
             "Kleene evaluation gives X at n, otherwise n carries the Kleene value), `kleene_definite`, `ternary_definite` (then "
             "n equals its value under every completion of the X inputs), `ternary_rejects_blackboxes` — all circuits, arities, "
             "names and orders; the type->branch table is extracted from tx.py on every run.",
        note=TRUST + " Hypothesis `Good`: lint-clean, blackbox-free, no `x`, acyclic, names that `add` accepts.",
        ref="§4 C10"),
    "C04": dict(
        technique="Lean 4 theorems (exact node/edge view of the miter, built on the add_subcircuit theorems; solver corollary "
                  "from the C01 encoder theorems) + exact structural correspondence + exhaustive comparison search",
        text="Proof: `miter_sem` (for every consistent valuation the two prefixed copies carry consistent valuations of c0 and "
             "c1, tied startpoints feed both, `sat` = 1 iff some compared endpoint differs; inputs are exactly the tied "
             "startpoints), `miter_complete` (untied startpoints are independent: every agreeing pair of valuations arises), "
             "`miter_unsat_iff_equiv` (with any sound+complete solver, solve(m,{sat:1}) is False iff the circuits agree on every "
             "compared endpoint), `miter_self`, `miter_defaults`, `miter_rejects_blackboxes`, `miter_ok` — all circuit pairs, "
             "all startpoint/endpoint subsets, all orders.",
        note=TRUST + " `miter_ok` (no ValueError) needs the synthesised names not to collide and endpoints that are not "
             "blackbox pins (machine-checked counterexamples in CG/Proofs/MiterCex.lean).",
        ref="§4 C04"),
    "C09": dict(
        technique="Lean 4 theorems (loop invariant with exact node list and fan-in lists of the unrolled circuit, built on the "
                  "add_subcircuit theorems) + exact structural correspondence (unroll and sequential_unroll incl. io_map) + "
                  "iterated-simulation search",
        text="Proof: `unroll_sem` (the per-step copies of any consistent valuation of the unrolled circuit form an execution of "
             "c: each consistent, state inputs at t+1 = paired state outputs at t, io_map names carry the step values), "
             "`unroll_complete` (every execution is realised), `unroll_inputs` (free inputs = step-0 state inputs + per-step "
             "copies of the other inputs; outputs), `unroll_rejects`, `sequential_unroll_reduces` (sequential_unroll = unroll of "
             "the blackbox-stripped circuit with the flops' d/q pins as state pairing, flop outputs marked exactly when "
             "requested, string initial values become constants) — every n, pairing, order; `sequential_unroll_sem` / "
             "`sequential_unroll_complete` (cycle-accurate semantics: the consistent valuations of the unrolled circuit are "
             "exactly the runs of the sequential circuit — one consistent valuation per cycle, q(t+1) = d(t), a string "
             "initial value fixes q(0) — shown at the io map's nodes for the outputs and the exposed flop data nodes; every "
             "add_flop_outputs / ignore_pins / remove_unloaded choice and order); `sequential_unroll_dict_sem` / "
             "`sequential_unroll_dict_complete` / `sequential_unroll_dict_ok` (the same for a per-flop initial-value dict: "
             "the listed flops start at their values, the others are free; the call succeeds whenever it does without "
             "initial values). Total correctness (Props/C09Ok.lean): `unroll_ok_iff` — under Good, Pairing and n >= 1 the call "
             "succeeds EXACTLY when no output is a stray pin-typed node and the per-step io names (as `uid` really makes them) "
             "are pairwise distinct and differ from every `unrolled_<k>_<node>`; `unroll_ok_fresh`, `unroll_ioName`, and "
             "counterexample theorems for each condition.",
        note=TRUST + " The hypothesis the proof of `unroll_inputs` had forced (no state output is itself an input) was a genuine "
             "defect, repaired in /repo (K33); the theorem now holds without it (regression example CG/Proofs/UnrollCex.lean). "
             "`sequential_unroll_*` assume `SeqGood` (one flop type, pins present, no pin marked as output), data pins not "
             "ignored and no node named like an exposed pin — each shown necessary by a counterexample theorem in "
             "CG/Proofs/UnrollSeqSemCex.lean.",
        ref="§4 C09"),
    "C18": dict(
        technique="Lean 4 theorems (soundness of the feedback-arc heuristic for any ordering, chained-copies invariant, "
                  "uniqueness of the valuation of the cut circuit) + exact structural correspondence incl. the heuristic's "
                  "choice + brute-force stable-state search",
        text="Proof: `fas_cuts_all_cycles` (deleting the returned feedback edges always leaves an acyclic graph), "
             "`fas_only_cycle_edges`, `acyclic_unroll_shape` (acyclic, lint-clean, same outputs, inputs = original inputs + one "
             "auxiliary input per feedback node), `stable_state_preserved` (for every stable state, setting the auxiliary inputs "
             "to the stable values makes every output equal its stable value), `stable_state_realised`, "
             "`acyclic_unroll_rejects_blackboxes` — all circuits without self-loops, all orders. Total correctness (Props/C18Ok.lean): `acyclic_unroll_ok_io` — the call succeeds for every good circuit with addable, dot-free names, no `bb_output`-typed node, no `bb_input`-typed output and no input/output named like a synthesised name; each hypothesis is shown necessary by a closed counterexample (`acyclic_unroll_ok_needs_*`).",
        note=TRUST + " `stable_state_preserved` needs no `x` constants. The proof exposed a collision introduced by an earlier "
             "repair (output named like a copy node), since repaired again (see KNOWN_FINDINGS).",
        ref="§4 C18"),
    "C13": dict(
        technique="Lean 4 theorems by induction on the width (ripple-carry invariant, select-line decoding, popcount queue "
                  "invariant) about line-by-line models of the generators + exact correspondence of the generated circuits + "
                  "exhaustive/random simulation search",
        text="Proof: `adder_correct` (every width, both carry options: lint-clean, outputs a+b+cin mod 2^w and the carry-out), "
             "`mux_correct` (every width >= 1), `popcount_correct` (every width >= 1), `half_adder_correct`, `full_adder_correct`, "
             "`clog2_spec`, `clog2_rejects_zero`, `bin_roundtrip`, `bin_roundtrip_any` — no bound on the width. The generated "
             "circuits are compared node-for-node (in order) with what logic.py builds for widths 0..12 (quick) / 0..40.",
        note=TRUST,
        ref="§4 C13"),
    "C15": dict(
        technique="Lean 4 theorems at the statement level of the bench dialect (reader's API calls, writer's emitted statements) "
                  "and at the character level (a Lean backtracking regex engine running the regular expressions extracted from "
                  "io.py on the writer's text), engine differential-tested against CPython re + exact reader/writer "
                  "correspondence + simulation search",
        text="Proof: `build_sem` (for every well-formed netlist, in any line order: exactly the declared inputs/outputs, every "
             "gate net computes its gate function of the nets it names, every DFF is a dff blackbox between its D and Q nets), "
             "`roundtrip` (reading back what the writer emits refines the original on every node, constants included), "
             "`roundtrip_exact`, `write_rejects`. Character level: `parse_write` (for every writable circuit whose node names "
             "are identifiers of the dialect: the comment stripping and the four regular-expression passes of the reader, run "
             "by the regex engine on the text the writer emits, extract exactly the writer's statements — every iteration "
             "order), `roundtrip_text` (hence reading back the TEXT gives the same inputs/outputs and a circuit that refines "
             "the original), `parse_canonical` (a well-formed netlist written one statement per line in canonical layout, "
             "lines in any order, DFF lines included, is parsed into exactly its statements), `parse_free` (the same for free "
             "layout: per statement upper- or lower-case keywords, buf/buff, any white space incl. CR/LF/tab at every gap the "
             "patterns allow, wrapped operand lists). These are theorems about "
             "CG/Regex.lean running the patterns extracted from io.py (`tables_regex` by rfl; the pattern parser is total and "
             "kernel-evaluated). PARTIAL: several statements per line, leading/trailing blanks of a line "
             "and the engine-vs-CPython-`re` tie are differential: engine and reader/writer are compared with `re` and "
             "with bench_to_circuit/circuit_to_bench on generated texts every run.",
        note=TRUST + " CPython `re` is modelled by CG/Regex.lean.",
        ref="§4 C15"),
    "C17": dict(
        technique="Lean 4 theorems about an executable model of the tx.supergates algorithm (dominator theory over the "
                  "bidirected cone: every topological listing of its result satisfies the whole statement) + a verified checker "
                  "(`supergatesOK` sound AND complete w.r.t. the statement) evaluated on the implementation's actual output + "
                  "algorithm-model vs implementation correspondence + independent Python oracle and super-circuit simulation",
        text="Proof: `run_spec` — the whole function (limit_fanin(c, 2), then the algorithm) on every lint-clean, blackbox-free, "
             "acyclic circuit of ANY fan-in succeeds, works on an io-identical refinement of the argument, and every topological "
             "listing of its result satisfies the statement; `topo_exists_iff` — the dependency-graph cycle test is exact "
             "(no NetworkXUnfeasible iff a topological listing exists); `super_fill_equiv_fixed` — construct_supercircuit=True "
             "(modelled in CG/SuperCircuit.lean, compared with the real function every run): for single-output circuits "
             "filling every supergate blackbox with the supergate of the returned map succeeds and gives a circuit with the "
             "same io and the same consistent valuations on inputs and output, under the exact freshness condition "
             "`SuperNamesOK` (the weaker guess is refuted by three closed counterexamples, one of them known finding K53). "
             "`algo_spec_fixed` — for every lint-clean, blackbox-free, acyclic circuit with fan-in <= 2 (what "
             "limit_fanin(c, 2) returns) without stray `bb_output`-typed nodes in the output cones, whenever the minimal "
             "supergates have distinct heads, EVERY topological listing of what the modelled algorithm returns satisfies the "
             "statement: single-output sub-circuits with exactly the circuit's wiring, inputs with pairwise disjoint transitive "
             "fan-in, topological order, cover of every gate in the output cones; clause-wise `algo_single`, `algo_induced`, "
             "`algo_independent`, `algo_cover_fixed`; `algo_spec_hbo_necessary` and two counterexample theorems show the added "
             "hypothesis is exactly what was missing. `supergatesOK_sound` / `supergatesOK_complete`: the decidable checker "
             "accepts exactly the lists satisfying the statement; each run validates the real tx.supergates output with it and "
             "checks the filled super-circuit by exhaustive simulation. The algorithm model (immediate dominators from their "
             "definition) is compared with the real function on every generated circuit (same set of supergates and heads, "
             "same NetworkXUnfeasible verdict). PARTIAL: the order among independent supergates depends on id()-hashed sets "
             "and is quantified over (every topological listing), not reproduced; networkx's immediate_dominators is trusted "
             "to implement its definition.",
        note=TRUST + " Known finding K28 (NetworkXUnfeasible on some multi-output circuits: no topological listing exists, "
             "so `algo_spec_fixed` is vacuous there and says so) and K53 (spliced names `sg_<h>_<n>` can collide when filling "
             "the super-circuit back).",
        ref="§4 C17"),
    "C19": dict(
        technique="Lean 4 theorems (soundness of a flow-sensitive ownership/alias analysis w.r.t. a cell-and-version heap "
                  "semantics with exceptions at every point; the analysis accepts all 69 public function skeletons, by "
                  "kernel evaluation) about skeletons regenerated from the Python function bodies on every run by "
                  "tools/extract_own.py + dynamic snapshot/id()-sharing/edit-script search on the real objects",
        text="Proof: `summary_sound` / `wellOwned_sound` (for every skeleton, every callee-summary table, every entry heap and "
             "every execution — normal, early return or exception at any statement — a function the analysis accepts leaves "
             "the version of every cell reachable from its circuit parameters unchanged and returns no cell shared with "
             "them), `all_public_wellOwned` (the analysis accepts every public function of tx, props, sat, io writers, "
             "utils and the read-only Circuit methods as transliterated from the current sources, each against the summaries "
             "of the functions it calls, `summaries_prefix`), `skeleton_count`. Partial in one respect: the translator's "
             "statement classification tables (which methods mutate, which expressions copy) are trusted; they are "
             "validated on every run by deep snapshots, id()-level sharing tests and random edit scripts on the real objects.",
        note=TRUST + " Additional trusted base for C19: tools/extract_own.py's classification tables (MUTATING method names, "
             "FRESH constructors); calls are interpreted by their summaries (compositional), so mutual recursion is not modelled "
             "(the library has none among the listed functions).",
        ref="§4 C19"),
    "C02": dict(
        technique="Lean 4 theorems (precedence-climbing parser = grammar precedence for every expression; transformer "
                  "semantics for every module of continuous assignments incl. use-before-definition and the four-gate mux; "
                  "port-list rejection; lexer white-space invariance) about a model of verilog.lark/verilog.py whose grammar "
                  "text, regexes and gate tables are regenerated from the sources each run + exact differential "
                  "correspondence (text -> circuit) + valuation-oracle search on generated netlists",
        text="Proof: `parse_print`, `parse_parens` (the parser returns exactly the expression whose canonical rendering it "
             "reads: ~ ! > & > ^ ~^ > | > ?:, left-associative, any nesting), `transform_assign_sem` (every module of "
             "continuous assignments of the subset, any order of assignments, repeated sub-expressions: the transformer "
             "succeeds, inputs/outputs are exactly the declared ports and in every consistent valuation each assigned net "
             "has the value Verilog semantics gives its right-hand side), `ports_checked` (every disagreement between port "
             "list and declarations is an error), `lex_ws_irrelevant`, `tables_grammar/regex_module/primitive` (static tie). "
             "`transform_struct_sem` (structural netlists — named primitive instances of any type and arity with net or "
             "constant operands, repeated operands, assigns of a net or constant, named-port blackbox instances with "
             "connected / unconnected / omitted pins, in ANY statement order: the parser succeeds, io = the declared ports, "
             "every gate output and assigned net has its Verilog value in every consistent valuation, every instance is "
             "registered with each pin attached to exactly the named net). Partial: expression operands inside instance "
             "port lists are covered by correspondence and search only; lark's LALR tables and lexer versus the hand-written "
             "parser/lexer are tied by the differential run only.",
        note=TRUST + " `transform_assign_sem` assumes no declared net is named like a synthetic name (NoCapture): that the real "
             "parser mis-handles such names is known finding K8a-c; `LexConsts` restricts constants to those the lexer can "
             "produce (counterexample theorem `transform_assign_sem_needs_consts`).",
        ref="§4 C02"),
    "C03": dict(
        technique="Lean 4 theorems (writer followed by reader is the identity on the graph, for every emission order and "
                  "every reader order; with constants: same interface and refinement) about models of io.circuit_to_verilog "
                  "and the verilog.py transformer + exact differential correspondence on both (statement list, rendered "
                  "text, parsed circuit) + round-trip valuation search through to_file/from_file",
        text="Proof: `roundtrip_struct` (every writable circuit without constant nodes — any gate mix and arity, cyclic or "
             "not, outputs that are inputs, blackbox instances with connected or unconnected pins — written in gate-primitive "
             "form and read back gives the same name, nodes, types, output marks, edges and registry), `roundtrip_consts` "
             "(with constants: same name/inputs/outputs/registry and every consistent valuation of the result restricts to "
             "one of the original), `write_decls` (both styles: declared inputs/outputs/wires are exactly the circuit's), "
             "`dispatch_table`, `roundtrip_behavioral` (assign style, blackbox-free circuits without `x` constants whose "
             "node names do not look like the reader's synthetic gate names: same name/inputs/outputs and the read-back "
             "circuit refines the original in both directions, any gate mix and arity, cyclic circuits included). "
             "Text level inside the model: `render_parse` (for every writable circuit with identifier-like names, both "
             "styles, blackboxes included: the model's lexer accepts the rendered text and its parser returns exactly the "
             "statement list the writer produced) and `roundtrip_text` (`parseNetlist (write c)` returns the same graph); "
             "their two extra hypotheses (at least one port; no pin-less blackbox) are shown necessary by closed "
             "counterexamples — the writer emits `module m ();` / `ff u ();`, which the grammar rejects. "
             "`roundtrip_behavioral_bb` extends the assign-style theorem to circuits WITH blackbox instances (same registry, "
             "every pin node present with its type, fan-in and fan-out, refinement in both directions). "
             "Partial: escaped identifiers are covered by the correspondence/search only; the tie between the model's lexer/parser and lark, and the module-extraction "
             "regular expression, are differential.",
        note=TRUST + " `Writable`: lint-clean, plain identifiers not colliding with tie_0/tie_1/tie_x, registry and pin nodes agree.",
        ref="§4 C03"),
    "C11": dict(
        technique="Lean 4 theorems (semantics of both sensitivity transforms for every circuit and node; sensitize and the "
                  "descending sensitivity search correct with any sound and complete solver) about line-by-line models of "
                  "tx.sensitization_transform / tx.sensitivity_transform / props.sensitize / props.sensitivity + exact "
                  "structural correspondence + brute-force definition search (incl. influence / avg_sensitivity)",
        text="Proof: `sensitization_sem` + `sensitization_complete` (every consistent valuation of the result is a pair "
             "(valuation of c, valuation of c with n inverted) on tied startpoints with `sat` = some output differs, and "
             "every such pair arises), `sensitize_spec` (None iff no sensitising valuation exists, otherwise the returned "
             "one sensitises), `sensitivity_transform_sem` (dif_out_s = flipping s flips n; sen_out bits = their number), "
             "`sensitivity_spec` (returned value = maximum over all valuations, for every cone size incl. powers of two), "
             "`sensitivity_startpoint`, `sensitization_endpoints_sem` + `sensitization_endpoints_complete` (selected "
             "endpoints: the transform works on the cone of the endpoints, `sat` = some selected endpoint differs), "
             "`influence_spec` (exact mode: one entry per startpoint, count = number of startpoint valuations under which "
             "flipping it flips n, divisor 2^|startpoints|), `influence_ok` (never fails, under the name hypotheses its "
             "three counterexample theorems show necessary), `avg_sensitivity_spec` (sum of the counts = sum over all "
             "valuations of the size of the flip set). The results of all five analyses are additionally compared with the "
             "models run on the proved DPLL solver. Not modelled: approx mode and the supergates mode of influence. Total correctness (Props/C11Ok.lean): `sensitization_transform_ok`, `sensitivity_transform_ok'` (the calls succeed under explicit name-freshness hypotheses on the startpoints, each clause refuted without it by a closed counterexample).",
        note=TRUST + " `Good`: lint-clean, blackbox-free, no `x` constants; `sensitivity_spec` and `avg_sensitivity_spec` "
             "additionally acyclic; float division/summation of the Python results is outside the model (counts are exact).",
        ref="§4 C11"),
    "C14": dict(
        technique="Lean 4 theorem (graph assembly of the fast parser = transformer of the full parser, up to the names of "
                  "the constant nodes, for every netlist of the documented subset, every statement order and set order) "
                  "about models of fast_verilog.py (regular expressions regenerated from the source each run) and "
                  "verilog.py + exact differential correspondence (fast parser vs model; regex engine vs CPython re) + "
                  "fast-vs-full search on generated and bundled netlists",
        text="Proof: `fast_agrees_full` (for every netlist of the restricted subset — any gate mix and arity, constants as "
             "gate operands / in assigns / on blackbox input pins, unconnected pins, use before definition, repeated "
             "operands — both parsers succeed and return the same name, nodes, types, output marks, edges and registry up to "
             "tie0/tie1 vs tie_0/tie_1), `fast_same_io` (same inputs/outputs = the declared ones; consistent valuations "
             "transfer), `fast_lint_clean`, `tables_regex_fast`, `tables_primitive`. Partial: the theorem is at statement "
             "level (`RMod.toFParsed` = what the regular expressions deliver, `RMod.toModule` = what the grammar delivers); "
             "that the real regexes / lark deliver exactly these for every legal layout is tied by the differential run "
             "(regex engine vs CPython `re` on the extracted patterns, text -> circuit exact) only. Text level (Props/C14Text.lean): `read_written_text` — on the text circuit_to_verilog emits, the module-extraction regular expression of the full reader (run by the regex engine) returns the whole module, so `read` is `parseNetlist` of that text; Character level for the fast parser (Props/C14FastText.lean): `extract_text'` — on the text of a restricted netlist in the writer's layout the seven regular-expression passes of fast_verilog.py deliver exactly the statements (names: identifiers other than six keywords), and `fast_text_agrees_full` — the fast parser run on that TEXT and the full parser's assembly return the same circuit up to the constants' names; other layouts remain differential.",
        note=TRUST + " `Restricted`: every net an input or driven at most once (floating wires allowed since the K38 "
             "repair), declared outputs driven, unary gates have one operand, named ports of a known blackbox, names not "
             "colliding with either parser's constant nodes.",
        ref="§4 C14"),
}

NOT_YET = "check not built yet in this round (see DESIGN.md §4 for the plan); will be claimed when its Lean model and harness exist"


def main():
    props = [json.loads(l)["id"] for l in open(os.path.join(VERIF, "properties.jsonl"))]
    checks, na = [], []
    for pid in props:
        if pid in CLAIMED:
            e = CLAIMED[pid]
            checks.append({
                "property_id": pid,
                "quick_cmd": f"./check {pid} --tier quick",
                "thorough_cmd": f"./check {pid} --tier thorough",
                "evidence_file": f"/verif/evidence/{pid}.json",
                "replay_cmd_template": f"./check {pid} --replay {{path}}",
                "engine": "lean-proof+correspondence",
                "level_claimed": {"category": "proof", "text": e["text"], "design_ref": e["ref"]},
                "level_note": e["note"],
                "technique": e["technique"],
            })
        else:
            na.append({"property_id": pid, "reason": NOT_YET})
    fix_commits = subprocess.run(["git", "-C", "/repo", "log", "--format=%h %s", "--grep=^fix:"],
                                 stdout=subprocess.PIPE, text=True).stdout.strip().splitlines()
    m = {
        "version": 1,
        "setup_cmd": "./check --setup",
        "hooks": {
            "guard": "CIRCUITGRAPH_VERIF",
            "enable": "no source hooks are needed: set-iteration orders are controlled by wrapping Circuit/BlackBox "
                      "methods inside the harness process only (harness/common.py), the pysat shim lives in harness/shims",
            "baseline_off_cmd": "cd /repo && /venv/bin/python -m pytest -ra -q -p no:cacheprovider --timeout=900 "
                                "--continue-on-collection-errors",
            "source_commits": [],
            "add_only": True,
        },
        "engines": [{
            "name": "lean-proof+correspondence", "path": "/verif/check",
            "serves_properties": [c["property_id"] for c in checks],
            "kind_free_text": "Lean 4 theorems about an executable model (lean/CG), translator tools/extract.py, compiled "
                              "Lean driver + Python differential harness (harness/), failing-input search on the real code",
        }],
        "checks": checks,
        "not_applicable": na,
        "notes": "fix: commits in /repo (unguarded repairs of genuine defects): " + "; ".join(fix_commits),
    }
    with open(os.path.join(VERIF, "MANIFEST.json"), "w") as f:
        json.dump(m, f, indent=1)
    print(f"MANIFEST.json: {len(checks)} checks, {len(na)} not claimed")


if __name__ == "__main__":
    main()
