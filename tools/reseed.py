#!/usr/bin/env python3
"""Re-run the checks against every stored seeded change (regression test of the machinery itself).

usage: tools/reseed.py [Cxx_A ...]     (default: all of /verif/seeded)
For each: `git -C /repo apply patch.diff`, ./check <prop> --tier quick, `git -C /repo checkout -- .` straight afterwards;
meta.json's checks_run / caught_by are refreshed.  /repo must be clean before and is clean after.  Run
tools/runall.sh afterwards so that the committed evidence files describe the unchanged tree again.
"""
import json
import os
import re
import subprocess
import sys

VERIF = os.path.dirname(os.path.dirname(os.path.abspath(__file__)))


def sh(cmd, cwd=None, timeout=3000):
    p = subprocess.run(cmd, cwd=cwd, stdout=subprocess.PIPE, stderr=subprocess.STDOUT, text=True, timeout=timeout)
    return p.returncode, p.stdout


def main():
    names = sys.argv[1:] or sorted(os.listdir(os.path.join(VERIF, "seeded")))
    rc, out = sh(["git", "-C", "/repo", "status", "--porcelain"])
    assert out.strip() == "", "/repo is not clean"
    missed = []
    for name in names:
        d = os.path.join(VERIF, "seeded", name)
        patch = os.path.join(d, "patch.diff")
        if not os.path.exists(patch):
            continue
        pid = name.split("_")[0]
        meta = json.load(open(os.path.join(d, "meta.json")))
        props = list(meta.get("checks_run", {pid: 0}).keys()) or [pid]
        rc, out = sh(["git", "-C", "/repo", "apply", patch])
        if rc != 0:
            print(f"{name}: patch does not apply: {out[-200:]}")
            missed.append(name)
            continue
        runs = {}
        try:
            for p in props:
                rc, out = sh([os.path.join(VERIF, "check"), p, "--tier", "quick"], cwd=VERIF)
                viol = [l[:300] for l in out.splitlines() if l.startswith("VIOLATION")]
                summ = [l for l in out.splitlines() if re.match(r"^C\d\d (quick|thorough):", l)]
                runs[p] = {"exit": rc, "violations": viol[:3], "summary": summ[-1] if summ else out[-200:]}
        finally:
            sh(["git", "-C", "/repo", "checkout", "--", "."])
        caught = [p for p, r in runs.items() if r["exit"] == 1 and r["violations"]]
        meta["checks_run"] = runs
        meta["caught_by"] = caught
        json.dump(meta, open(os.path.join(d, "meta.json"), "w"), indent=1)
        concrete = any("no-failing-input-found" not in v for r in runs.values() for v in r["violations"])
        print(f"{name}: caught_by={caught} concrete_input={concrete}")
        if not caught:
            missed.append(name)
    print("MISSED:", missed)
    return 1 if missed else 0


if __name__ == "__main__":
    sys.exit(main())
