#!/usr/bin/env python3
"""Fast regression run of the harnesses against every stored seeded change, in parallel.

usage: tools/reseed_fast.py [-j N] [Cxx_A ...]     (default: all of /verif/seeded, 8 workers)

Unlike tools/reseed.py this does NOT touch /repo and does NOT run the static tie (translator + lake build): each worker owns
a scratch git worktree of /repo (under /tmp, removed at the end), applies one patch there and runs the property's harness
(correspondence + failing-input search, quick tier) with CG_REPO pointing at that worktree.  A mutant counts as caught here
only when the harness itself reports a violation — a stricter criterion than ./check, which additionally reports a broken
proof obligation.  Mutants that only the static tie catches are listed separately (run tools/reseed.py on those).
meta.json files are not modified.
"""
import json
import os
import subprocess
import sys
from concurrent.futures import ThreadPoolExecutor

VERIF = os.path.dirname(os.path.dirname(os.path.abspath(__file__)))
PY = "/venv/bin/python"


def sh(cmd, cwd=None, env=None, timeout=1800):
    p = subprocess.run(cmd, cwd=cwd, env=env, stdout=subprocess.PIPE, stderr=subprocess.STDOUT, text=True, timeout=timeout)
    return p.returncode, p.stdout


def run_one(args):
    name, wt = args
    d = os.path.join(VERIF, "seeded", name)
    pid = name.split("_")[0]
    meta = json.load(open(os.path.join(d, "meta.json")))
    props = list(meta.get("checks_run", {pid: 0}).keys()) or [pid]
    sh(["git", "-C", wt, "checkout", "--", "."])
    rc, out = sh(["git", "-C", wt, "apply", os.path.join(d, "patch.diff")])
    if rc != 0:
        return name, "patch-does-not-apply", []
    caught, notes = [], []
    try:
        for p in props:
            env = dict(os.environ, CG_REPO=wt, VERIF_SEED=os.environ.get("VERIF_SEED", "0"), VERIF_TIER="quick", PYTHONHASHSEED="0")
            rc, out = sh([PY, os.path.join(VERIF, "harness", f"p{p}.py"), "--tier", "quick", "--proof-status", "ok"],
                         cwd=VERIF, env=env)
            res = None
            for line in out.splitlines():
                if line.startswith("RESULT "):
                    res = json.loads(line[7:])
            if res is None:
                notes.append(f"{p}: no RESULT")
                continue
            if res.get("violations"):
                concrete = any(not v.get("nofail") for v in res["violations"])
                caught.append(p + ("" if concrete else "(correspondence only)"))
            elif res.get("fault"):
                notes.append(f"{p}: fault {res['fault'].strip().splitlines()[-1][:120]}")
    finally:
        sh(["git", "-C", wt, "checkout", "--", "."])
    return name, caught, notes


def main():
    argv = sys.argv[1:]
    jobs = 8
    if argv[:1] == ["-j"]:
        jobs = int(argv[1])
        argv = argv[2:]
    names = argv or sorted(n for n in os.listdir(os.path.join(VERIF, "seeded"))
                           if os.path.exists(os.path.join(VERIF, "seeded", n, "patch.diff")))
    wts = []
    for i in range(jobs):
        wt = f"/tmp/reseedwt_{i}"
        sh(["git", "-C", "/repo", "worktree", "remove", "--force", wt])
        rc, out = sh(["git", "-C", "/repo", "worktree", "add", "--detach", wt, "HEAD"])
        assert rc == 0, out
        wts.append(wt)
    missed = []
    try:
        import queue
        free = queue.Queue()
        for w in wts:
            free.put(w)

        def task(n):
            w = free.get()
            try:
                return run_one((n, w))
            finally:
                free.put(w)
        with ThreadPoolExecutor(max_workers=jobs) as ex:
            for name, caught, notes in ex.map(task, names):
                print(f"{name}: caught_by_harness={caught} {' '.join(notes)}", flush=True)
                if not caught:
                    missed.append(name)
    finally:
        for w in wts:
            sh(["git", "-C", "/repo", "worktree", "remove", "--force", w])
    print("NOT CAUGHT BY THE HARNESS ALONE:", missed)
    return 0


if __name__ == "__main__":
    sys.exit(main())
