#!/usr/bin/env python3
"""Translator: /repo sources  ->  lean/CG/Generated.lean   (run on every check).

Reads the Python sources with `ast` (never imports them), pattern-matches the literal
tables on which the semantics hinges and emits them as Lean data.  A table whose pattern is
not found is emitted as `none` (the model then falls back to the hand-written `Expected`
table and the evidence records `static_tie: lost(<item>)`).
"""
import ast
import hashlib
import json
import os
import sys

REPO = os.environ.get("CG_REPO", "/repo")
SRC = os.path.join(REPO, "circuitgraph")
OUT = os.path.join(os.path.dirname(os.path.abspath(__file__)), "..", "lean", "CG", "Generated.lean")


def lstr(s):
    return json.dumps(s)


def llist(xs, f=lstr):
    return "[" + ", ".join(f(x) for x in xs) + "]"


def lopt(x, f):
    return "none" if x is None else "(some " + f(x) + ")"


def parse(fn):
    with open(os.path.join(SRC, fn)) as f:
        return ast.parse(f.read())


def find_func(tree, name, cls=None):
    for node in ast.walk(tree):
        if cls and isinstance(node, ast.ClassDef) and node.name == cls:
            for sub in node.body:
                if isinstance(sub, ast.FunctionDef) and sub.name == name:
                    _MODULE_OF[id(sub)] = tree
                    return sub
        if not cls and isinstance(node, ast.FunctionDef) and node.name == name:
            _MODULE_OF[id(node)] = tree
            return node
    return None


def const_list(node):
    """['a','b'] / ('a','b') / 'a' -> list of str, else None"""
    if isinstance(node, (ast.List, ast.Tuple, ast.Set)):
        out = []
        for e in node.elts:
            if isinstance(e, ast.Constant) and isinstance(e.value, str):
                out.append(e.value)
            else:
                return None
        return out
    return None


def module_list(tree, name, env):
    """module-level  name = [..] (+ other_name)"""
    for node in tree.body:
        if isinstance(node, ast.Assign) and len(node.targets) == 1 and isinstance(node.targets[0], ast.Name) \
                and node.targets[0].id == name:
            return eval_list(node.value, env)
    return None


def eval_list(node, env):
    if isinstance(node, ast.BinOp) and isinstance(node.op, ast.Add):
        a, b = eval_list(node.left, env), eval_list(node.right, env)
        if a is None or b is None:
            return None
        return a + b
    if isinstance(node, ast.Name):
        return env.get(node.id)
    return const_list(node)


_MODULE_OF = {}     # id(function node) -> module tree (filled by find_func) so that names can be resolved


def const_env(func):
    """constant containers a comparator may name instead of spelling them out: module-level and function-local
    `NAME = [..] / (..) / {..}` (also `A + B` of such), as a tidy-up would introduce them.  A name that is assigned
    more than once, or to anything else, is not resolved."""
    env, seen = {}, {}
    tree = _MODULE_OF.get(id(func))
    scopes = ([tree.body] if tree is not None else []) + [[n for n in ast.walk(func) if isinstance(n, ast.Assign)]]
    for body in scopes:
        for node in body:
            if isinstance(node, ast.Assign) and len(node.targets) == 1 and isinstance(node.targets[0], ast.Name):
                nm = node.targets[0].id
                seen[nm] = seen.get(nm, 0) + 1
                val = eval_list(node.value, env)
                if val is not None:
                    env[nm] = val
    return {k: v for k, v in env.items() if seen.get(k) == 1}


def in_lists(func, n=None, resolve=None):
    """all `x in [..consts..]` / `x not in [...]` comparator lists in source order.  Comparators given by the NAME of a
    constant container are looked at only when the literal ones alone do not give the expected number `n` of lists (the
    original code also tests membership in module-level lists such as `addable_types`, which are extracted separately)."""
    if func is None:
        return None
    if resolve is None:
        plain = in_lists(func, n, False)
        if n is None or (plain is not None and len(plain) == n):
            return plain
        return in_lists(func, n, True)
    out = []
    env = const_env(func) if resolve else {}

    def clist(node):        # the comparator, spelled out or given by the name of a constant container
        if isinstance(node, ast.Name) and node.id in env:
            return list(env[node.id])
        return const_list(node)

    class V(ast.NodeVisitor):
        def visit_Compare(self, node):
            for op, comp in zip(node.ops, node.comparators):
                if isinstance(op, (ast.In, ast.NotIn)):
                    cl = clist(comp)
                    if cl is not None:
                        out.append(cl)
            self.generic_visit(node)

    # source order
    nodes = sorted((n for n in ast.walk(func) if isinstance(n, ast.Compare)), key=lambda n: (n.lineno, n.col_offset))
    for n in nodes:
        for op, comp in zip(n.ops, n.comparators):
            if isinstance(op, (ast.In, ast.NotIn)):
                cl = clist(comp)
                if cl is not None:
                    out.append(cl)
    return out


def local_assign_lists(func, names):
    res = {}
    if func is None:
        return None
    for node in ast.walk(func):
        if isinstance(node, ast.Assign) and len(node.targets) == 1 and isinstance(node.targets[0], ast.Name):
            if node.targets[0].id in names:
                cl = const_list(node.value)
                if cl is not None:
                    res[node.targets[0].id] = cl
    if set(res) != set(names):
        return None
    return [res[n] for n in names]


def dict_pairs(node):
    if not isinstance(node, ast.Dict):
        return None
    out = []
    for k, v in zip(node.keys, node.values):
        if isinstance(k, ast.Constant) and isinstance(v, ast.Constant):
            out.append((k.value, v.value))
        else:
            return None
    return out


def used_dict(func):
    """the single constant str->str dict a function looks things up in, when it is not the local `name = {...}` the
    original spells: a local under another name, or a module-level constant"""
    if func is None:
        return None
    tree = _MODULE_OF.get(id(func))
    cands = {}
    for node in ast.walk(func):
        if isinstance(node, ast.Assign) and len(node.targets) == 1 and isinstance(node.targets[0], ast.Name):
            d = dict_pairs(node.value)
            if d is not None:
                cands[node.targets[0].id] = d
    if tree is not None:
        for node in tree.body:
            if isinstance(node, ast.Assign) and len(node.targets) == 1 and isinstance(node.targets[0], ast.Name):
                d = dict_pairs(node.value)
                if d is not None and node.targets[0].id not in cands:
                    cands[node.targets[0].id] = d
    used = set()
    for node in ast.walk(func):
        if isinstance(node, ast.Subscript) and isinstance(node.value, ast.Name) and node.value.id in cands:
            used.add(node.value.id)
    return cands[used.pop()] if len(used) == 1 else None


def local_dict(func, name):
    if func is None:
        return None
    for node in ast.walk(func):
        if isinstance(node, ast.Assign) and len(node.targets) == 1 and isinstance(node.targets[0], ast.Name) \
                and node.targets[0].id == name and isinstance(node.value, ast.Dict):
            out = []
            for k, v in zip(node.value.keys, node.value.values):
                if isinstance(k, ast.Constant) and isinstance(v, ast.Constant):
                    out.append((k.value, v.value))
                else:
                    return None
            return out
    return None


# ---------------------------------------------------------------- sat.cnf clause templates

_ID_ALIAS = {}      # local name -> template variable, for `n_var = variables.id(n)` hoisted out of the clauses


def lit_of(node, varmap):
    """variables.id(X) / -variables.id(X)  ->  (pos, var)"""
    pos = True
    if isinstance(node, ast.UnaryOp) and isinstance(node.op, ast.USub):
        pos = False
        node = node.operand
    if isinstance(node, ast.Name) and node.id in _ID_ALIAS and node.id not in varmap:
        return (pos, _ID_ALIAS[node.id])
    if isinstance(node, ast.Call) and isinstance(node.func, ast.Attribute) and node.func.attr == "id" \
            and len(node.args) == 1:
        a = node.args[0]
        if isinstance(a, ast.Name) and a.id in varmap:
            return (pos, varmap[a.id])
        if isinstance(a, ast.Tuple) and len(a.elts) == 2 and isinstance(a.elts[0], ast.Constant) \
                and a.elts[0].value == "xor_inv" and isinstance(a.elts[1], ast.Name) and a.elts[1].id == "n":
            return (pos, "inv")   # the tuple key ("xor_inv", n)
    return None


def clause_of(node, varmap):
    """list expr -> list of items: ('lit',pos,var) | ('allF',pos)"""
    if isinstance(node, ast.BinOp) and isinstance(node.op, ast.Add):
        a, b = clause_of(node.left, varmap), clause_of(node.right, varmap)
        if a is None or b is None:
            return None
        return a + b
    if isinstance(node, ast.List):
        out = []
        for e in node.elts:
            l = lit_of(e, varmap)
            if l is None:
                return None
            out.append(("lit",) + l)
        return out
    if isinstance(node, ast.ListComp) and len(node.generators) == 1:
        g = node.generators[0]
        if isinstance(g.target, ast.Name) and is_fanin_call(g.iter):
            l = lit_of(node.elt, {g.target.id: "f"})
            if l is not None and l[1] == "f":
                return [("allF", l[0])]
    return None


def is_fanin_call(node):
    return isinstance(node, ast.Call) and isinstance(node.func, ast.Attribute) and node.func.attr == "fanin"


def is_append(stmt):
    return isinstance(stmt, ast.Expr) and isinstance(stmt.value, ast.Call) and \
        isinstance(stmt.value.func, ast.Attribute) and stmt.value.func.attr == "append" and len(stmt.value.args) == 1


def stmts_of(body, varmap):
    """statement list of one n_type branch -> [('each'|'one'|'guard', clause)] or None"""
    out = []
    for st in body:
        if is_append(st):
            cl = clause_of(st.value.args[0], varmap)
            if cl is None:
                return None
            out.append(("one", cl))
        elif isinstance(st, ast.For) and isinstance(st.target, ast.Name) and is_fanin_call(st.iter):
            vm = dict(varmap)
            vm[st.target.id] = "f"
            for s2 in st.body:
                if not is_append(s2):
                    return None
                cl = clause_of(s2.value.args[0], vm)
                if cl is None:
                    return None
                out.append(("each", cl))
        elif isinstance(st, ast.If) and is_fanin_call(st.test):
            # if c.fanin(n): f = c.fanin(n).pop(); append...; append...
            vm = dict(varmap)
            for s2 in st.body:
                if isinstance(s2, ast.Assign) and isinstance(s2.targets[0], ast.Name):
                    vm[s2.targets[0].id] = "f"
                elif is_append(s2):
                    cl = clause_of(s2.value.args[0], vm)
                    if cl is None:
                        return None
                    out.append(("guard", cl))
                else:
                    return None
            for s2 in st.orelse:   # else: the undriven case
                if not is_append(s2):
                    return None
                cl = clause_of(s2.value.args[0], varmap)
                if cl is None:
                    return None
                out.append(("orElse", cl))
        else:
            return None
    return out


def branch_types(test):
    """n_type == "and"  /  n_type in [..]  -> list of types"""
    if isinstance(test, ast.Compare) and isinstance(test.left, ast.Name) and test.left.id == "n_type" \
            and len(test.ops) == 1:
        if isinstance(test.ops[0], ast.Eq) and isinstance(test.comparators[0], ast.Constant):
            return [test.comparators[0].value]
        if isinstance(test.ops[0], ast.In):
            return const_list(test.comparators[0])
    return None


def extract_cnf(tree):
    f = find_func(tree, "cnf")
    if f is None:
        return None
    loop = None
    for st in f.body:
        if isinstance(st, ast.For) and isinstance(st.target, ast.Name) and st.target.id == "n":
            loop = st
    if loop is None:
        return None
    demote, gates, xor = [], [], None
    _ID_ALIAS.clear()
    for st in loop.body:
        # `n_var = variables.id(n)` at the top of the loop body (the original evaluates `variables.id(n)` there for its
        # numbering side effect only): later clauses may name the variable instead of looking it up again
        if isinstance(st, ast.Assign) and len(st.targets) == 1 and isinstance(st.targets[0], ast.Name):
            v = st.value
            if isinstance(v, ast.Call) and isinstance(v.func, ast.Attribute) and v.func.attr == "id" and len(v.args) == 1 \
                    and isinstance(v.args[0], ast.Name) and v.args[0].id == "n":
                _ID_ALIAS[st.targets[0].id] = "n"
    for st in loop.body:
        if not isinstance(st, ast.If):
            continue
        t0 = st.test
        # demotion chain: `n_type in [...] and len(c.fanin(n)) == 1`
        if isinstance(t0, ast.BoolOp) and isinstance(t0.op, ast.And):
            cur = st
            while True:
                tt = cur.test
                if not (isinstance(tt, ast.BoolOp) and len(tt.values) == 2):
                    return None
                types = branch_types(tt.values[0])
                cmpn = tt.values[1]
                if types is None or not (isinstance(cmpn, ast.Compare) and isinstance(cmpn.ops[0], ast.Eq)
                                         and isinstance(cmpn.comparators[0], ast.Constant)
                                         and cmpn.comparators[0].value == 1):
                    return None
                if not (len(cur.body) == 1 and isinstance(cur.body[0], ast.Assign)
                        and isinstance(cur.body[0].value, ast.Constant)):
                    return None
                demote.append((types, cur.body[0].value.value))
                if len(cur.orelse) == 1 and isinstance(cur.orelse[0], ast.If):
                    cur = cur.orelse[0]
                elif not cur.orelse:
                    break
                else:
                    return None
            continue
        # the gate-type chain
        cur = st
        while True:
            types = branch_types(cur.test)
            if types is None:
                return None
            if any(isinstance(s, ast.While) for s in cur.body):
                x = extract_xor(cur.body)
                if x is None:
                    return None
                xor = (types,) + x
            else:
                sts = stmts_of(cur.body, {"n": "n"})
                if sts is None:
                    return None
                gates.append((types, sts))
            if len(cur.orelse) == 1 and isinstance(cur.orelse[0], ast.If):
                cur = cur.orelse[0]
            else:
                # final else must raise
                if not (len(cur.orelse) == 1 and isinstance(cur.orelse[0], ast.Raise)):
                    return None
                break
    if xor is None:
        return None
    return demote, gates, xor


def extract_xor(body):
    """the parity branch: helper def xor_clauses(a,b,c) with 4 appends; final if n_type == 'xor' ... else inv"""
    helper = None
    final = None
    for st in body:
        if isinstance(st, ast.FunctionDef) and st.name == "xor_clauses":
            args = [a.arg for a in st.args.args]
            if len(args) != 3:
                return None
            vm = {args[0]: "a", args[1]: "b", args[2]: "c"}
            cls = []
            for s2 in st.body:
                if not is_append(s2):
                    return None
                cl = clause_of(s2.value.args[0], vm)
                if cl is None:
                    return None
                cls.append(cl)
            helper = cls
        if isinstance(st, ast.If) and branch_types(st.test) is not None:
            direct = branch_types(st.test)
            inv = []
            for s2 in st.orelse:
                if is_append(s2):
                    cl = clause_of(s2.value.args[0], {"n": "n"})
                    if cl is None:
                        return None
                    inv.append(cl)
            final = (direct, inv)
    if helper is None or final is None:
        return None
    return helper, final[0], final[1]


def lean_item(it):
    if it[0] == "lit":
        return f"TItem.lit {'true' if it[1] else 'false'} TVar.{it[2]}"
    return f"TItem.allF {'true' if it[1] else 'false'}"


def lean_clause(cl):
    return llist(cl, lean_item)


def lean_stmt(st):
    return f"TStmt.{st[0]} {lean_clause(st[1])}"


PROBE = r"""
import json, re, sys
sys.path.insert(0, sys.argv[1])
calls = []
def wrap(name):
    orig = getattr(re, name)
    def f(pattern, string, flags=0, *a, **k):
        if CUR[0] is not None:
            calls.append([CUR[0], name, pattern if isinstance(pattern, str) else pattern.pattern, int(flags)])
        return orig(pattern, string, flags, *a, **k)
    setattr(re, name, f)
CUR = [None]
for n in ("findall", "search"):
    wrap(n)
import circuitgraph as cg
from circuitgraph import io as cgio
from circuitgraph.parsing import fast_verilog
def run(tag, fn):
    CUR[0] = tag
    try:
        fn()
    except Exception as e:
        pass
    CUR[0] = None
run("bench", lambda: cgio.bench_to_circuit("INPUT(a)\nOUTPUT(o)\no = NOT(a)\n", "m"))
run("fast", lambda: fast_verilog.fast_parse_verilog_netlist("module m (a, o);\n input a;\n output o;\n ff u (.d(a), .q(o));\n not g (o, a);\n assign o = a;\nendmodule\n", [cg.BlackBox("ff", ["d"], ["q"])]))
run("module", lambda: cgio.verilog_to_circuit("module NAME (a);\n input a;\nendmodule\n", "NAME"))
print(json.dumps(calls))
"""


def capture_regexes():
    """the regular expressions exactly as the `re` module receives them (needs the repo's runtime: /venv/bin/python)"""
    import subprocess
    py = "/venv/bin/python" if os.path.exists("/venv/bin/python") else sys.executable
    try:
        p = subprocess.run([py, "-c", PROBE, REPO], stdout=subprocess.PIPE, stderr=subprocess.PIPE, text=True, timeout=120)
        if p.returncode != 0:
            return None
        calls = json.loads(p.stdout.strip().splitlines()[-1])
    except Exception:  # noqa: BLE001
        return None
    out = {}
    for tag, api, pat, flags in calls:
        lst = out.setdefault(tag, [])
        entry = (api, pat, bool(flags & 16))
        if tag == "module" and "module" not in pat:
            continue   # lark's own use of re while parsing
        if entry not in lst:
            lst.append(entry)
    return out


def main():
    status = {}
    out = []
    out.append("/- GENERATED by tools/extract.py from /repo sources on every run. DO NOT EDIT. -/")
    out.append("import CG.Tables")
    out.append("namespace CG.Generated")
    out.append("")

    hashes = {}
    for fn in sorted(os.listdir(SRC)):
        if fn.endswith(".py"):
            with open(os.path.join(SRC, fn), "rb") as f:
                hashes[fn] = hashlib.sha256(f.read()).hexdigest()

    def emit_opt_lists(name, val, n=None):
        ok = val is not None and (n is None or len(val) == n)
        status[name] = "ok" if ok else "lost"
        if ok:
            out.append(f"def {name} : Option (List (List String)) := some {llist(val, llist)}")
        else:
            out.append(f"def {name} : Option (List (List String)) := none")

    def emit_opt_list(name, val):
        status[name] = "ok" if val is not None else "lost"
        out.append(f"def {name} : Option (List String) := {lopt(val, llist)}")

    # ---- circuit.py
    try:
        ct = parse("circuit.py")
        env = {}
        for nm in ["primitive_gates", "addable_types", "supported_types"]:
            env[nm] = module_list(ct, nm, env)
            emit_opt_list(nm, env[nm])
        emit_opt_lists("add_lists", in_lists(find_func(ct, "add", "Circuit"), 2), 2)
        emit_opt_lists("connect_lists", in_lists(find_func(ct, "connect", "Circuit"), 4), 4)
        emit_opt_lists("remove_unloaded_lists", in_lists(find_func(ct, "remove_unloaded", "Circuit"), 3), 3)
        emit_opt_lists("set_type_lists", None if find_func(ct, "set_type", "Circuit") is None else [], 0)
    except SyntaxError:
        for nm in ["primitive_gates", "addable_types", "supported_types"]:
            emit_opt_list(nm, None)
        for nm in ["add_lists", "connect_lists", "remove_unloaded_lists", "set_type_lists"]:
            emit_opt_lists(nm, None)

    # ---- utils.py lint
    try:
        ut = parse("utils.py")
        emit_opt_lists("lint_lists", local_assign_lists(find_func(ut, "lint"),
                                                        ["zero_input_types", "single_input_types", "multi_input_types"]), 3)
    except SyntaxError:
        emit_opt_lists("lint_lists", None)

    # ---- tx.py
    try:
        tt = parse("tx.py")
        gm = local_dict(find_func(tt, "limit_fanin"), "gatemap")
        if gm is None:
            gm = used_dict(find_func(tt, "limit_fanin"))
        status["gatemap"] = "ok" if gm is not None else "lost"
        out.append("def gatemap : Option (List (String × String)) := " +
                   lopt(gm, lambda g: llist(g, lambda kv: f"({lstr(kv[0])}, {lstr(kv[1])})")))
        emit_opt_lists("ternary_lists", in_lists(find_func(tt, "ternary"), 6), 6)
        emit_opt_lists("subcircuit_lists", in_lists(find_func(tt, "subcircuit"), 2), 2)
    except SyntaxError:
        out.append("def gatemap : Option (List (String × String)) := none")
        emit_opt_lists("ternary_lists", None)
        emit_opt_lists("subcircuit_lists", None)

    # ---- sat.py cnf
    cnf = None
    try:
        cnf = extract_cnf(parse("sat.py"))
    except SyntaxError:
        pass
    status["cnf"] = "ok" if cnf is not None else "lost"
    if cnf is None:
        out.append("def cnf : Option CnfTables := none")
    else:
        demote, gates, xor = cnf
        out.append("def cnf : Option CnfTables := some {")
        out.append("  demote := " + llist(demote, lambda d: f"({llist(d[0])}, {lstr(d[1])})") + ",")
        out.append("  gates := [")
        out.append(",\n".join("    (" + llist(g[0]) + ", " + llist(g[1], lean_stmt) + ")" for g in gates))
        out.append("  ],")
        out.append("  xorTypes := " + llist(xor[0]) + ",")
        out.append("  xorClauses := " + llist(xor[1], lean_clause) + ",")
        out.append("  xorDirect := " + llist(xor[2]) + ",")
        out.append("  invClauses := " + llist(xor[3], lean_clause) + " }")

    # ---- the Verilog grammar file: every rule / terminal with its whitespace-normalised right-hand side
    gram = None
    try:
        rules = []
        with open(os.path.join(SRC, "parsing", "verilog.lark")) as f:
            cur = None
            for line in f:
                line = line.split("//")[0].rstrip() if not line.lstrip().startswith("COMMENT") and "/\\/" not in line else line.rstrip()
                if not line.strip() or line.lstrip().startswith("%"):
                    continue
                if line[0] not in " \t|" and ":" in line:
                    name, rhs = line.split(":", 1)
                    cur = [name.strip(), rhs.strip()]
                    rules.append(cur)
                elif cur is not None:
                    cur[1] += " " + line.strip()
        gram = [(n, " ".join(r.split())) for n, r in rules]
    except OSError:
        gram = None
    status["grammar"] = "ok" if gram else "lost"
    out.append("def grammar : Option (List (String × String)) := " +
               lopt(gram, lambda g: llist(g, lambda kv: f"({lstr(kv[0])}, {lstr(kv[1])})")))

    # ---- regular expressions of the readers, as `re` receives them
    rx = capture_regexes()
    for tag, n in (("bench", 4), ("fast", 7), ("module", 1)):
        lst = rx.get(tag) if rx else None
        ok = lst is not None and len(lst) == n
        status["regex_" + tag] = "ok" if ok else "lost"
        if ok:
            out.append(f"def regex_{tag} : Option (List (String × String × Bool)) := some " +
                       llist(lst, lambda e: f"({lstr(e[0])}, {lstr(e[1])}, {'true' if e[2] else 'false'})"))
        else:
            out.append(f"def regex_{tag} : Option (List (String × String × Bool)) := none")

    out.append("")
    out.append("end CG.Generated")
    text = "\n".join(out) + "\n"
    outp = os.path.normpath(OUT)
    old = None
    if os.path.exists(outp):
        with open(outp) as f:
            old = f.read()
    if old != text:
        with open(outp, "w") as f:
            f.write(text)
    json.dump({"status": status, "sha256": hashes, "changed": old != text}, sys.stdout)
    print()


if __name__ == "__main__":
    main()
