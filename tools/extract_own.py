#!/usr/bin/env python3
"""Translator for C19: Python function bodies -> ownership skeletons (lean/CG/GeneratedOwn.lean).

Deliberately dumb and syntax-directed: it decides only *what kind of thing* each statement is (alias, fresh copy,
mutating call, library call, return); all reasoning (flow sensitivity, joins, loops, summaries) happens in Lean
(CG/Own.lean).  The classification tables below are part of the trusted base and are validated dynamically by
harness/pC19.py (deep snapshots + id()-sharing tests on the real objects).
"""
import ast
import json
import os
import sys

REPO = os.environ.get("CG_REPO", "/repo")
SRC = os.path.join(REPO, "circuitgraph")
OUT = os.path.join(os.path.dirname(os.path.abspath(__file__)), "..", "lean", "CG", "GeneratedOwn.lean")

# names under which a circuit (or its graph) is passed
CIRCUIT_PARAMS = {"c", "c0", "c1", "sc", "self", "circuit", "sub_c", "g", "subc", "cs"}
# methods that write to the object they are called on
MUTATORS = {
    # Circuit
    "add", "remove", "connect", "disconnect", "relabel", "set_type", "set_output", "add_subcircuit", "add_blackbox",
    "fill_blackbox", "remove_unloaded",
    # networkx graph
    "add_node", "add_nodes_from", "add_edge", "add_edges_from", "remove_node", "remove_nodes_from", "remove_edge",
    "remove_edges_from", "update", "clear",
    # dict
    "pop", "popitem", "setdefault",
}
# attribute steps that stay inside the same object
SHARED_ATTRS = {"graph", "blackboxes", "nodes", "edges", "_node", "_adj", "_pred", "_succ", "input_set", "output_set"}
# calls that return a new object not sharing state with the receiver
FRESH_METHODS = {"copy"}
FRESH_FUNCS = {"relabel_nodes", "DiGraph", "Circuit", "BlackBox", "subgraph"}

READ_ONLY_METHODS = ["__contains__", "__len__", "__iter__", "copy", "type", "filter_type", "nodes", "edges", "fanin", "fanout",
                     "transitive_fanin", "transitive_fanout", "fanout_depth", "fanin_depth", "paths", "inputs", "is_output",
                     "outputs", "io", "startpoints", "endpoints", "reconvergent_fanout_nodes", "has_reconvergent_fanout",
                     "is_cyclic", "uid", "kcuts", "topo_sort"]

# (file, [functions]) in dependency order
PLAN = [
    ("circuit.py", [("Circuit", m) for m in READ_ONLY_METHODS]),
    ("utils.py", ["clog2", "int_to_bin", "bin_to_int", "lint"]),
    ("logic.py", ["half_adder", "full_adder", "adder", "mux", "popcount"]),
    ("tx.py", ["strip_io", "strip_outputs", "strip_inputs", "strip_blackboxes", "relabel", "subcircuit", "limit_fanin",
               "limit_fanout", "miter", "unroll", "sequential_unroll", "ternary", "sensitization_transform",
               "sensitivity_transform", "acyclic_unroll", "supergates", "insert_registers"]),
    ("sat.py", ["add_assumptions", "remap", "cnf", "construct_solver", "solve", "model_count", "approx_model_count"]),
    ("props.py", ["signal_probability", "sensitize", "sensitivity", "influence", "avg_sensitivity", "levelize"]),
    ("io.py", ["circuit_to_verilog", "circuit_to_bench", "to_file"]),
]


def lstr(s):
    return json.dumps(s)


def llist(xs):
    return "[" + ", ".join(xs) + "]"


def root_name(node):
    """Name at the bottom of an attribute/subscript chain that stays inside the object, else None"""
    while True:
        if isinstance(node, ast.Name):
            return node.id
        if isinstance(node, ast.Attribute):
            node = node.value
        elif isinstance(node, ast.Subscript):
            node = node.value
        else:
            return None


def shared_root(node):
    """root of `y`, `y.graph`, `y.blackboxes`, `y.graph.nodes` … (aliases y's cells), else None"""
    if isinstance(node, ast.Name):
        return node.id
    if isinstance(node, ast.Attribute) and node.attr in SHARED_ATTRS:
        return shared_root(node.value)
    if isinstance(node, ast.Subscript):
        if isinstance(node.slice, ast.Constant) and isinstance(node.slice.value, str):
            return None          # `…["type"]` / `…["output"]`: an immutable attribute value, not the container
        return shared_root(node.value)
    return None


class Tr:
    def __init__(self, known):
        self.known = known      # library functions already translated (callable by summary)

    def call_name(self, f):
        if isinstance(f, ast.Name):
            return f.id
        if isinstance(f, ast.Attribute):
            return f.attr
        return None

    def arg_vars(self, call):
        out = []
        for a in list(call.args) + [k.value for k in call.keywords]:
            r = shared_root(a)
            if r is not None:
                out.append(r)
        return out

    def effects(self, node, skip=None):
        """statements for every mutating / library call inside an expression (except `skip`)"""
        out = []
        for sub in ast.walk(node):
            if sub is skip or not isinstance(sub, ast.Call):
                continue
            f = sub.func
            name = self.call_name(f)
            if isinstance(f, ast.Attribute) and name in MUTATORS:
                r = shared_root(f.value)
                if r is not None:
                    out.append(f"Stmt.mutate {lstr(r)}")
                    continue
            if name == "relabel_nodes" and any(k.arg == "copy" and isinstance(k.value, ast.Constant) and k.value.value is False
                                               for k in sub.keywords):
                r = shared_root(sub.args[0]) if sub.args else None
                if r is not None:
                    out.append(f"Stmt.mutate {lstr(r)}")
                continue
            if name in self.known and not (isinstance(f, ast.Attribute) and isinstance(f.value, ast.Name) and f.value.id == "self"):
                out.append(f"Stmt.exec {lstr(name)} {llist([lstr(v) for v in self.arg_vars(sub)])}")
        return out

    def rhs(self, node):
        """(Rhs term, the Call node it consumed or None)"""
        r = shared_root(node)
        if r is not None:
            return f"Rhs.alias {lstr(r)}", None
        if isinstance(node, ast.Call):
            f = node.func
            name = self.call_name(f)
            if isinstance(f, ast.Attribute) and name in FRESH_METHODS:
                return "Rhs.fresh", None
            if name == "Circuit":
                parts = []
                for k in node.keywords:
                    if k.arg in ("graph", "blackboxes"):
                        rr = shared_root(k.value)
                        if rr is not None:
                            parts.append(rr)
                for a in node.args[1:]:
                    rr = shared_root(a)
                    if rr is not None:
                        parts.append(rr)
                return (f"Rhs.build {llist([lstr(p) for p in parts])}" if parts else "Rhs.fresh"), None
            if name == "relabel_nodes":
                if any(k.arg == "copy" and isinstance(k.value, ast.Constant) and k.value.value is False for k in node.keywords):
                    rr = shared_root(node.args[0]) if node.args else None
                    return (f"Rhs.alias {lstr(rr)}" if rr else "Rhs.pure"), None
                return "Rhs.fresh", None
            if name in FRESH_FUNCS:
                return "Rhs.fresh", None
            if name in self.known and not (isinstance(f, ast.Attribute) and isinstance(f.value, ast.Name) and f.value.id == "self"):
                return f"Rhs.call {lstr(name)} {llist([lstr(v) for v in self.arg_vars(node)])}", node
        return "Rhs.pure", None

    def leaves(self, node):
        """the sub-expressions whose value may flow into `node`: both arms of a conditional expression, the operands of
        `a or b`, the elements of a tuple/list/set/dict display"""
        if isinstance(node, ast.IfExp):
            return self.leaves(node.body) + self.leaves(node.orelse)
        if isinstance(node, ast.BoolOp):
            return [l for v in node.values for l in self.leaves(v)]
        if isinstance(node, (ast.Tuple, ast.List, ast.Set)):
            return [l for v in node.elts for l in self.leaves(v)]
        if isinstance(node, ast.Dict):
            return [l for v in node.values if v is not None for l in self.leaves(v)]
        if isinstance(node, ast.Starred):
            return self.leaves(node.value)
        if isinstance(node, ast.NamedExpr):
            return self.leaves(node.value)
        return [node]

    def rhs_multi(self, value):
        """-> (pre-statements, Rhs term, consumed Call nodes) for an expression that may combine several sources"""
        ls = self.leaves(value)
        if len(ls) == 1 and ls[0] is value:
            r, consumed = self.rhs(value)
            return [], r, [consumed] if consumed is not None else []
        pre, parts, consumed = [], [], []
        for l in ls:
            r, c = self.rhs(l)
            if c is not None:
                consumed.append(c)
            if r in ("Rhs.pure", "Rhs.fresh"):
                continue
            self.tmp = getattr(self, "tmp", 0) + 1
            t = f"_t{self.tmp}"
            pre.append(f"Stmt.assign {lstr(t)} ({r})")
            parts.append(t)
        return pre, (f"Rhs.build {llist([lstr(p) for p in parts])}" if parts else "Rhs.fresh"), consumed

    def effects_skip(self, node, consumed):
        out = []
        for e in self.effects(node):
            out.append(e)
        if not consumed:
            return out
        # drop the exec statements of calls already represented as Rhs.call
        drop = set()
        for c in consumed:
            name = self.call_name(c.func)
            drop.add(f"Stmt.exec {lstr(name)} {llist([lstr(v) for v in self.arg_vars(c)])}")
        res = []
        for e in out:
            if e in drop:
                drop.discard(e)
                continue
            res.append(e)
        return res

    def seq(self, stmts):
        stmts = [s for s in stmts if s != "Stmt.skip"]
        if not stmts:
            return "Stmt.skip"
        out = stmts[-1]
        for s in reversed(stmts[:-1]):
            out = f"Stmt.seq ({s}) ({out})"
        return out

    def block(self, body):
        return self.seq([self.stmt(s) for s in body])

    def stmt(self, st):
        if isinstance(st, ast.Expr):
            return self.seq(self.effects(st.value))
        if isinstance(st, (ast.Assign, ast.AnnAssign, ast.AugAssign)):
            targets = st.targets if isinstance(st, ast.Assign) else [st.target]
            value = st.value
            out = []
            pre, r, consumed = self.rhs_multi(value) if value is not None else ([], "Rhs.pure", [])
            if value is not None:
                out += self.effects_skip(value, consumed) + pre
            for t in targets:
                names = [t] if not isinstance(t, (ast.Tuple, ast.List)) else list(t.elts)
                for n in names:
                    if isinstance(n, ast.Name):
                        if isinstance(st, ast.AugAssign):
                            continue            # x += … keeps x's cells
                        out.append(f"Stmt.assign {lstr(n.id)} ({r})")
                    else:
                        rr = root_name(n) if shared_root(n) is None and isinstance(n, ast.Subscript) else shared_root(n)
                        if isinstance(n, ast.Attribute):
                            rr = root_name(n)
                        if rr is not None:
                            out.append(f"Stmt.mutate {lstr(rr)}")   # item / attribute assignment
            return self.seq(out)
        if isinstance(st, (ast.For, ast.AsyncFor)):
            pre = self.effects(st.iter)
            return self.seq(pre + [f"Stmt.loop ({self.block(st.body + st.orelse)})"])
        if isinstance(st, ast.While):
            return self.seq([f"Stmt.loop ({self.seq(self.effects(st.test) + [self.block(st.body)])})"])
        if isinstance(st, ast.If):
            return self.seq(self.effects(st.test) + [f"Stmt.ite ({self.block(st.body)}) ({self.block(st.orelse)})"])
        if isinstance(st, ast.Try):
            hs = [self.block(h.body) for h in st.handlers]
            body = self.block(st.body + st.orelse)
            alt = body
            for h in hs:
                alt = f"Stmt.ite ({alt}) (Stmt.seq ({body}) ({h}))"
            return self.seq([alt, self.block(st.finalbody)])
        if isinstance(st, ast.With):
            pre = []
            for it in st.items:
                pre += self.effects(it.context_expr)
            return self.seq(pre + [self.block(st.body)])
        if isinstance(st, ast.Return):
            if st.value is None:
                return "Stmt.ret (Rhs.pure)"
            pre, r, consumed = self.rhs_multi(st.value)
            return self.seq(self.effects_skip(st.value, consumed) + pre + [f"Stmt.ret ({r})"])
        if isinstance(st, ast.Raise):
            return "Stmt.raise"
        if isinstance(st, ast.FunctionDef):
            # a local helper: may run any number of times; its circuit-named parameters are conservatively tainted
            # by aliasing them to a parameter of the enclosing function with the same role when one exists
            return f"Stmt.loop ({self.block(st.body)})"
        return "Stmt.skip"


def translate():
    fns = []
    status = {}
    known = set()
    for fn, items in PLAN:
        try:
            with open(os.path.join(SRC, fn)) as f:
                tree = ast.parse(f.read())
        except (OSError, SyntaxError):
            status[fn] = "lost"
            continue
        for item in items:
            cls, name = item if isinstance(item, tuple) else (None, item)
            node = None
            for n in ast.walk(tree):
                if cls and isinstance(n, ast.ClassDef) and n.name == cls:
                    for sub in n.body:
                        if isinstance(sub, ast.FunctionDef) and sub.name == name:
                            node = sub
                elif not cls and isinstance(n, ast.FunctionDef) and n.name == name and n in tree.body:
                    node = n
            key = f"{cls}.{name}" if cls else name
            if node is None:
                status[key] = "lost"
                continue
            params = [a.arg for a in node.args.args if a.arg in CIRCUIT_PARAMS]
            # local helper parameters with circuit-like names are tainted too (declared as extra params)
            for sub in ast.walk(node):
                if isinstance(sub, ast.FunctionDef) and sub is not node:
                    params += [a.arg for a in sub.args.args if a.arg in CIRCUIT_PARAMS and a.arg not in params]
            tr = Tr(known)
            body = tr.block(node.body)
            fns.append((key, params, body))
            if not cls:
                known.add(name)
            status[key] = "ok"
    return fns, status


def main():
    fns, status = translate()
    out = ["/- GENERATED by tools/extract_own.py from /repo sources on every run. DO NOT EDIT. -/", "import CG.Own",
           "namespace CG.GeneratedOwn", "open CG.Own", ""]
    out.append("def skeletons : List Fn := [")
    out.append(",\n".join(f"  {{ name := {lstr(k)}, params := {llist([lstr(p) for p in ps])},\n    body := {b} }}" for k, ps, b in fns))
    out.append("]")
    out.append("")
    out.append("end CG.GeneratedOwn")
    text = "\n".join(out) + "\n"
    outp = os.path.normpath(OUT)
    old = open(outp).read() if os.path.exists(outp) else None
    if old != text:
        with open(outp, "w") as f:
            f.write(text)
    print(json.dumps({"status": status, "changed": old != text, "functions": len(fns)}))


if __name__ == "__main__":
    main()
