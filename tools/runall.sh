#!/bin/sh
# run every claimed check once on the current tree (refreshes all evidence files); usage: tools/runall.sh [quick|thorough]
cd "$(dirname "$0")/.." || exit 2
tier=${1:-quick}
bad=0
for p in $(python3 -c "import json;print(' '.join(c['property_id'] for c in json.load(open('MANIFEST.json'))['checks']))"); do
  out=$(./check "$p" --tier "$tier" 2>&1); rc=$?
  echo "$out" | grep -E "^(VIOLATION|C[0-9][0-9] )" | cut -c1-260
  [ $rc -ne 0 ] && { echo "  -> $p exit $rc"; bad=1; }
done
exit $bad
