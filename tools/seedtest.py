#!/usr/bin/env python3
"""Confirm a seeded change and run the checks against it.

usage: tools/seedtest.py <Cxx> <outdir> [--tier quick] [--props C01,C08]
  <outdir> contains patch_A.diff / patch_B.diff, demo_A.py / demo_B.py (+ pysat/), meta.json (written by a sub-agent
  that never saw /verif).  For each mutant:
    1. in a scratch worktree of /repo (outside /repo and /verif): demo exits 0 pristine; with the patch the 42 baseline
       tests still pass and the demo exits 1;
    2. apply the patch to /repo, run ./check for the property (and any extra ones), record exit code and VIOLATION
       lines, and undo it straight afterwards (git checkout -- .);
    3. keep it under /verif/seeded/<Cxx>_<A|B>/ (patch.diff, demo, meta.json with what was run and what caught it).
"""
import json
import os
import shutil
import subprocess
import sys

VERIF = os.path.dirname(os.path.dirname(os.path.abspath(__file__)))
BASE = json.load(open("/root/.vp/BASELINE.json"))["stable_pass"]


def sh(cmd, cwd=None, env=None, timeout=3000):
    p = subprocess.run(cmd, cwd=cwd, env=env, stdout=subprocess.PIPE, stderr=subprocess.STDOUT, text=True, timeout=timeout,
                       shell=isinstance(cmd, str))
    return p.returncode, p.stdout


def run_tests(tree):
    env = dict(os.environ, PYTHONPATH=tree)
    junit = os.path.join(tree, ".junit.xml")
    sh(["/venv/bin/python", "-m", "pytest", "-q", "-p", "no:cacheprovider", "--timeout=900", "--continue-on-collection-errors",
        f"--junitxml={junit}"], cwd=tree, env=env)
    import xml.etree.ElementTree as ET
    passed = set()
    for tc in ET.parse(junit).getroot().iter("testcase"):
        if not list(tc):
            passed.add(f"{tc.get('classname')}::{tc.get('name')}")
    os.unlink(junit)
    return [t for t in BASE if t not in passed]


def run_demo(outdir, demo, tree):
    env = dict(os.environ, CG_TREE=tree, PYTHONPATH=tree)
    return sh(["/venv/bin/python", os.path.join(outdir, demo)], cwd=outdir, env=env, timeout=600)


def main():
    pid, outdir = sys.argv[1], sys.argv[2]
    tier = "quick"
    props = [pid]
    for i, a in enumerate(sys.argv):
        if a == "--tier":
            tier = sys.argv[i + 1]
        if a == "--props":
            props = sys.argv[i + 1].split(",")
    meta_in = {}
    try:
        meta_in = json.load(open(os.path.join(outdir, "meta.json")))
    except Exception:  # noqa: BLE001
        pass
    wt = f"/tmp/seedwt_{pid}"
    sh(["git", "-C", "/repo", "worktree", "remove", "--force", wt])
    rc, out = sh(["git", "-C", "/repo", "worktree", "add", "--detach", wt, "HEAD"])
    assert rc == 0, out
    results = {}
    try:
        for m in ("A", "B", "C", "D", "E", "F", "G", "H", "I", "J", "K", "L", "M", "N"):
            patch = os.path.join(outdir, f"patch_{m}.diff")
            demo = f"demo_{m}.py"
            if not os.path.exists(patch):
                continue
            r = {"mutant": m}
            rc0, o0 = run_demo(outdir, demo, wt)
            r["demo_pristine_exit"] = rc0
            rc, out = sh(["git", "-C", wt, "apply", patch])
            if rc != 0:
                r["error"] = "patch does not apply to current HEAD: " + out[-300:]
                results[m] = r
                continue
            broken = run_tests(wt)
            r["baseline_tests_broken"] = broken
            rc1, o1 = run_demo(outdir, demo, wt)
            r["demo_mutant_exit"] = rc1
            r["demo_mutant_output"] = o1[-400:]
            sh(["git", "-C", wt, "checkout", "--", "."])
            r["confirmed"] = (rc0 == 0 and rc1 == 1 and not broken)
            # now the checks, against /repo itself
            rc, out = sh(["git", "-C", "/repo", "apply", patch])
            assert rc == 0, out
            try:
                r["checks"] = {}
                for p in props:
                    rc, out = sh([os.path.join(VERIF, "check"), p, "--tier", tier], cwd=VERIF)
                    viol = [l for l in out.splitlines() if l.startswith("VIOLATION")]
                    r["checks"][p] = {"exit": rc, "violations": viol[:3], "summary": out.strip().splitlines()[-1] if out.strip() else ""}
            finally:
                sh(["git", "-C", "/repo", "checkout", "--", "."])
            r["caught_by"] = [p for p, x in r["checks"].items() if x["exit"] == 1]
            results[m] = r
            # keep it
            dst = os.path.join(VERIF, "seeded", f"{pid}_{m}")
            os.makedirs(dst, exist_ok=True)
            shutil.copyfile(patch, os.path.join(dst, "patch.diff"))
            shutil.copyfile(os.path.join(outdir, demo), os.path.join(dst, "demo.py"))
            if os.path.isdir(os.path.join(outdir, "pysat")) and not os.path.isdir(os.path.join(dst, "pysat")):
                shutil.copytree(os.path.join(outdir, "pysat"), os.path.join(dst, "pysat"))
            mi = meta_in.get(m, {})
            json.dump({"property": pid, "summary": mi.get("summary"), "needs": mi.get("needs"),
                       "author": "fresh sub-agent given only the property text and a scratch worktree",
                       "confirmed_by_me": {"demo_pristine_exit": rc0, "demo_mutant_exit": rc1, "baseline_tests_broken": broken,
                                           "how": "tools/seedtest.py in a scratch worktree of /repo"},
                       "checks_run": r["checks"], "caught_by": r["caught_by"]}, open(os.path.join(dst, "meta.json"), "w"), indent=1)
    finally:
        sh(["git", "-C", "/repo", "worktree", "remove", "--force", wt])
        sh(["git", "-C", "/repo", "checkout", "--", "."])
    print(json.dumps(results, indent=1))


if __name__ == "__main__":
    main()
