"""C08 — model counting and signal probability are exact."""
import os
import tempfile
from fractions import Fraction

import gen
from common import (cg, c_to_json, c_from_json, call, ordered, all_consistent, is_consistent, all_assignments)
from framework import Prop, run_main


def brute_count(c, A, sp):
    """number of valuations of sp that extend to a consistent valuation agreeing with A"""
    cons = [v for v in all_consistent(c, 16) if all(v[k] == bool(b) for k, b in A.items())]
    return len({tuple(v[s] for s in sp) for v in cons})


class P(Prop):
    pid = "C08"
    rule = ("random lint-clean circuits with 0-5 startpoints (inputs and blackbox outputs), constants, parity gates, cyclic "
            "variants; random assumption sets incl. contradictory ones and ones on internal nodes; model_count and "
            "signal_probability compared with brute-force enumeration; the DIMACS text handed to the external counter is "
            "captured by a stand-in `approxmc` and compared byte-for-byte with the Lean model's text, and its projected count "
            "with brute force; non-trivial = >=1 startpoint and >=1 gate")
    assumptions = ["pysat absent: shim DPLL; approxmc absent: exact stand-in (harness/bin/approxmc)",
                   "set-iteration order inside the patched run is the model's ordBy(seed) family"]
    budget = {"quick": (80, 100), "thorough": (1500, 2000)}

    def gen_case(self, big_ok=False):
        rng = self.rng
        if big_ok and rng.random() < 0.08:
            # many startpoints (the sampling-set line of the DIMACS file gets long), few gates
            c = gen.circuit(rng, n_in=(11, 13), n_gates=(1, 2), max_arity=4, consts=0.0)
            return c, ({rng.choice(sorted(c.graph.nodes)): True} if rng.random() < 0.5 else {})
        c = gen.circuit(rng, n_in=(0 if rng.random() < 0.1 else 1, 5), n_gates=(1, 7), max_arity=4, consts=0.25,
                        cyclic=rng.random() < 0.25, adversarial=rng.choice([0, 0.3, 0.3]))
        if rng.random() < 0.25 and len(c.graph.nodes) < 9:
            gen.add_flops(rng, c, n_flops=(1, 1))
        nodes = sorted(c.graph.nodes)
        A = {}
        if rng.random() < 0.7:
            for x in rng.sample(nodes, rng.randint(1, min(3, len(nodes)))):
                A[x] = rng.random() < 0.5
        return c, A

    def correspond(self, n):
        """the DIMACS instance of approx_model_count vs the model's text"""
        drv = self.driver()
        for i in range(n):
            c, A = self.gen_case(big_ok=True)
            if len(c.graph.nodes) > 16:
                continue
            cj = c_to_json(c)
            seed = self.rng.randint(0, 5)
            with tempfile.TemporaryDirectory(prefix="cgverif_") as td:
                dump = os.path.join(td, "dump.cnf")
                os.environ["CG_APPROXMC_DUMP"] = dump
                try:
                    with ordered(seed):
                        o, r = call(cg.sat.approx_model_count, c, A)
                finally:
                    os.environ.pop("CG_APPROXMC_DUMP", None)
                text = open(dump).read() if os.path.exists(dump) else None
            m = drv.ask({"op": "dimacs", "c": cj, "assumptions": [[k, bool(v)] for k, v in A.items()], "seed": seed})
            self.corr_cases += 1
            self.stats.case([cj, A], nontrivial=bool(c.startpoints()), sample={"c": cj, "assumptions": A} if i < 1 else None)
            d = ""
            if o != "ok" and text is None:
                if m["outcome"] != o:
                    d = f"outcome impl={o} model={m['outcome']}"
            elif m["outcome"] != "ok":
                d = f"outcome impl=ok model={m['outcome']}"
            elif text != m["text"]:
                d = f"DIMACS text differs:\nimpl={text!r}\nmodel={m['text']!r}"
            if d:
                self.fail("corr", "dimacs", d, {"c": cj, "assumptions": A, "seed": seed})
            if o == "ok":
                # the count a projected counter reports for the instance the code emitted, whatever its text looks like
                want = brute_count(c, A, sorted(c.startpoints()))
                if r != want:
                    self.fail("search", "dimacs-projected-count", f"projected count of the emitted instance {r} != {want}",
                              {"c": cj, "assumptions": A, "fn": "approx"})
            # sat.model_count against the model's blocking-clause loop run with the DPLL instance of the solver contract
            if len(c.startpoints()) <= 6:
                o, r = call(cg.sat.model_count, c, A)
                m = drv.ask({"op": "model_count", "c": cj, "assumptions": [[k, bool(v)] for k, v in A.items()], "seed": seed})
                self.corr_cases += 1
                if m["outcome"] != o or (o == "ok" and m["r"] != r):
                    self.fail("corr", "model_count", f"model_count: impl={o},{r} model={m}", {"c": cj, "assumptions": A, "seed": seed})
            if self.too_many():
                break

    def oracle(self, c, A):
        cj = c_to_json(c)
        if len(c.graph.nodes) > 14:
            return
        sp = sorted(c.startpoints())
        case = {"c": cj, "assumptions": A, "fn": "model_count"}
        want = brute_count(c, A, sp)
        o, r = call(cg.sat.model_count, c, A)
        self.search_cases += 1
        self.stats.bump(f"sp={len(sp)}")
        if o != "ok" or r != want:
            self.fail("search", "model_count" + (":no-startpoints" if not sp else ""),
                      f"model_count = {r if o == 'ok' else o}, brute force = {want}", case)
            return
        # signal probability of a random node (acyclic, blackbox-free cones only)
        if not c.is_cyclic():
            for n in self.rng.sample(sorted(c.graph.nodes), min(3, len(c.graph.nodes))):
                cone = {n} | c.transitive_fanin(n)
                if any(c.type(x) in ("bb_input", "bb_output") for x in cone):
                    continue
                sub_sp = sorted(x for x in cone if c.type(x) == "input")
                o, r = call(cg.props.signal_probability, c, n, False)
                self.search_cases += 1
                sub = cg.tx.subcircuit(c, cone)
                ones = brute_count(sub, {n: True}, sub_sp)
                wantp = Fraction(ones, 2 ** len(sub_sp))
                if o != "ok" or Fraction(r).limit_denominator(2 ** 20) != wantp:
                    self.fail("search", "signal_probability", f"signal_probability({n}) = {r if o == 'ok' else o}, exact = {wantp}",
                              {"c": cj, "node": n, "fn": "signal_probability"})
                    return

    def search(self, n):
        for i in range(n):
            c, A = self.gen_case()
            self.oracle(c, A)
            if i % 3 == 0 and not c.blackboxes:
                self.again_after_edit(c, lambda: self.oracle(c, A), p=0.5, exclude=("relabel",))
                # the same Circuit object again after in-place edits (a type change, a new startpoint): the count must
                # describe the circuit as it is now
                gates = [g for g in c.graph.nodes if c.type(g) in gen.MULTI]
                if gates:
                    g = self.rng.choice(gates)
                    c.set_type(g, self.rng.choice([t for t in gen.MULTI if t != c.type(g)]))
                    self.oracle(c, {k: v for k, v in A.items() if k in c.graph.nodes})
                    if len(c.startpoints()) < 5 and self.rng.random() < 0.5:
                        c.add("zz_late", "input", fanout=[g], uid=True)
                        self.oracle(c, {k: v for k, v in A.items() if k in c.graph.nodes})
            if self.too_many():
                break

    def replay(self, case):
        self.oracle(c_from_json(case["c"]), case.get("assumptions", {}))


if __name__ == "__main__":
    run_main(P)
