"""C04 — the miter output is 1 exactly when the compared circuits differ."""
import gen
from common import (cg, c_to_json, c_from_json, canon, canon_c, cdiff, call, ordered, simulate, free_nodes,
                    all_assignments)
from framework import Prop, run_main


class P(Prop):
    pid = "C04"
    rule = ("pairs (c0, c1) of random lint-clean blackbox-free acyclic circuits: c1 omitted (self-miter), an identical copy, "
            "an equivalent restructuring (limit_fanin k=2), a one-gate mutant, or an unrelated circuit over the same input "
            "names; startpoints/endpoints defaulted or random non-empty subsets of the shared ones (incl. a single endpoint); "
            "structure compared exactly with the Lean model, `sat` compared with a direct comparison of the two circuits "
            "over all valuations; non-trivial = >=1 shared endpoint and >=1 gate")
    assumptions = ["set-iteration order inside the patched run is the model's ordBy(seed) family"]
    budget = {"quick": (600, 600), "thorough": (3000, 3000)}

    def gen_pair(self):
        rng = self.rng
        adv = rng.choice([0.0, 0.0, 0.2])
        c0 = gen.circuit(rng, n_in=(1, 4), n_gates=(1, 7), max_arity=4, adversarial=adv, dead=False, consts=0.15,
                         out_inputs=0.1)
        kind = rng.choice(["self", "copy", "restructured", "mutant", "mutant", "other"])
        if kind == "self":
            c1 = None
        elif kind == "copy":
            c1 = c0.copy()
        elif kind == "restructured":
            c1 = cg.tx.limit_fanin(c0, 2)
        elif kind == "mutant":
            c1 = c0.copy()
            gates = [n for n in c1.graph.nodes if c1.type(n) in gen.MULTI]
            if gates:
                g = rng.choice(gates)
                c1.graph.nodes[g]["type"] = rng.choice([t for t in gen.MULTI if t != c1.type(g)])
        else:
            c1 = gen.circuit(rng, n_in=(1, 4), n_gates=(1, 6), in_names=sorted(c0.inputs()), dead=False)
            # give it the same output names where possible
            outs0 = sorted(c0.outputs())
            cand = [n for n in c1.graph.nodes if c1.type(n) in gen.GATES]
            mp = {}
            for a, b in zip(cand[::-1], outs0):
                if b not in c1.graph.nodes and c0.type(b) in gen.GATES:
                    mp[a] = b
            c1 = cg.tx.relabel(c1, mp)
            for b in mp.values():
                c1.set_output(b)
        if c1 is not None and rng.random() < 0.15:
            # an input of c0 that is an internal gate of c1 (computed there from two fresh inputs): not a shared
            # startpoint, so it must stay an independent free signal of copy 0
            ins1 = [i for i in sorted(c1.inputs()) if c1.fanout(i)]
            if ins1:
                a = rng.choice(ins1)
                try:
                    c1 = c1.copy()
                    c1.add("zp", "input")
                    c1.add("zq", "input")
                    c1.set_type(a, rng.choice(["or", "and", "xor"]))
                    c1.connect(["zp", "zq"], a)
                    kind = kind + "+input-as-gate"
                except Exception:  # noqa: BLE001
                    pass
        cc1 = c1 if c1 is not None else c0
        sp_all = sorted(c0.startpoints() & cc1.startpoints())
        ep_all = sorted(c0.endpoints() & cc1.endpoints())
        sp = None
        ep = None
        if sp_all and rng.random() < 0.4:
            sp = rng.sample(sp_all, rng.randint(1, len(sp_all)))
        if ep_all and rng.random() < 0.5:
            ep = rng.sample(ep_all, rng.randint(1, len(ep_all)))
        # an explicitly EMPTY choice is a choice (tie nothing / compare nothing), not a request for the default (K51)
        if rng.random() < 0.08:
            sp = []
            kind += "+sp-empty"
        if rng.random() < 0.05:
            ep = []
            kind += "+ep-empty"
        return c0, c1, sp, ep, kind

    def correspond(self, n):
        drv = self.driver()
        for i in range(n):
            c0, c1, sp, ep, kind = self.gen_pair()
            j0, j1 = c_to_json(c0), (c_to_json(c1) if c1 is not None else None)
            seed = self.rng.randint(0, 5)
            with ordered(seed):
                o, r = call(cg.tx.miter, c0, c1, sp, ep)
            m = drv.ask({"op": "miter", "c0": j0, "c1": j1, "startpoints": sp, "endpoints": ep, "seed": seed})
            self.corr_cases += 1
            self.stats.case([j0, j1, sp, ep], nontrivial=o == "ok", sample={"c0": j0, "c1": j1, "sp": sp, "ep": ep} if i < 1 else None)
            self.stats.bump(f"pair:{kind}:{o}")
            d = ""
            if m["outcome"] != o:
                d = f"outcome impl={o} model={m['outcome']}"
            elif o == "ok":
                d = cdiff(canon_c(r), canon(m["c"]))
            if d:
                self.fail("corr", "miter", d, {"c0": j0, "c1": j1, "startpoints": sp, "endpoints": ep, "seed": seed})
            if self.too_many():
                break

    def oracle(self, c0, c1, sp, ep, kind=""):
        j0, j1 = c_to_json(c0), (c_to_json(c1) if c1 is not None else None)
        case = {"c0": j0, "c1": j1, "startpoints": sp, "endpoints": ep}
        cc1 = c1 if c1 is not None else c0
        o, m = call(cg.tx.miter, c0, c1, sp, ep)
        self.search_cases += 1
        sp_eff = list(sp) if sp is not None else sorted(c0.startpoints() & cc1.startpoints())
        ep_eff = list(ep) if ep is not None else sorted(c0.endpoints() & cc1.endpoints())
        if o != "ok":
            # legitimate rejections: a name clash the code checks for
            clash = any(n in ("sat",) or n.startswith(("c0_", "c1_", "dif_")) for n in sp_eff)
            self.stats.bump("miter-raised:" + o)
            if o == "ValueError" and clash:
                return
            self.fail("search", f"miter-raised-{o}", f"miter raised {o}", case)
            return
        if not ep_eff:
            self.stats.bump("no-endpoints")
            if m.inputs() != set(sp_eff):
                self.fail("search", "miter-inputs", f"inputs {sorted(m.inputs())} != tied startpoints {sorted(sp_eff)}", case)
                return
            o2, res = call(cg.sat.solve, m, {"sat": True})
            if "sat" in free_nodes(m) or o2 != "ok" or res is not False:
                self.fail("search", "miter-no-endpoints-sat-free",
                          "no shared endpoint: `sat` is not forced to 0, so solve(m, {sat: True}) is satisfiable", case)
            return
        if m.inputs() != set(sp_eff):
            self.fail("search", "miter-inputs", f"inputs {sorted(m.inputs())} != tied startpoints {sorted(sp_eff)}", case)
            return
        fr = free_nodes(m)
        if len(fr) > 9:
            return
        st0, st1 = sorted(c0.startpoints()), sorted(cc1.startpoints())
        differ_somewhere = False
        for a in all_assignments(fr):
            v = simulate(m, a)
            a0 = {s: (a[s] if s in sp_eff else a["c0_" + s]) for s in st0}
            a1 = {s: (a[s] if s in sp_eff else a["c1_" + s]) for s in st1}
            v0, v1 = simulate(c0, {**{n: False for n in free_nodes(c0)}, **a0}), \
                simulate(cc1, {**{n: False for n in free_nodes(cc1)}, **a1})
            want = any(v0[e] != v1[e] for e in ep_eff)
            differ_somewhere |= want
            if v["sat"] != want:
                self.fail("search", "miter-sat-wrong", f"sat={v['sat']} but endpoints differ={want} under {a}", case)
                return
            for s in st0:
                if v["c0_" + s] != a0[s]:
                    self.fail("search", "miter-copy-input", f"copy c0 sees {s}={v['c0_' + s]} != {a0[s]}", case)
                    return
        o2, res = call(cg.sat.solve, m, {"sat": True})
        if o2 != "ok" or (res is False) != (not differ_somewhere):
            self.fail("search", "miter-solve", f"solve(m,{{sat:1}}) = {res if o2 == 'ok' else o2} but circuits differ somewhere = {differ_somewhere}", case)

    def corpus(self):
        # K14: no shared endpoint
        c0 = cg.Circuit()
        c0.add("a", "input")
        c0.add("o", "not", fanin="a", output=True)
        c1 = cg.Circuit()
        c1.add("a", "input")
        c1.add("p", "not", fanin="a", output=True)
        self.oracle(c0, c1, None, None, "K14")

    def search(self, n):
        for i in range(n):
            c0, c1, sp, ep, kind = self.gen_pair()
            self.oracle(c0, c1, sp, ep, kind)
            self.again_after_edit(c0, lambda: self.oracle(c0, c1, sp, ep, kind), p=0.25, exclude=("relabel", "output"))
            if self.too_many():
                break

    def replay(self, case):
        self.oracle(c_from_json(case["c0"]), c_from_json(case["c1"]) if case["c1"] else None,
                    case["startpoints"], case["endpoints"])


if __name__ == "__main__":
    run_main(P)
