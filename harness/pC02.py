"""C02 — the Verilog parser yields the circuit the netlist denotes."""
import gen
import vgen
from common import (cg, c_to_json, c_from_json, canon, canon_c, cdiff, call, ordered, simulate, free_nodes,
                    all_assignments)
from framework import Prop, run_main


import contextlib


@contextlib.contextmanager
def synthetic_names():
    """records (in this process only) the names the real transformer gives its expression gates"""
    T = cg.parsing.verilog._VerilogCircuitGraphTransformer
    orig = T.add_node
    made = []

    def add_node(self, n, node_type, fanin=None, fanout=None, uid=False):
        r = orig(self, n, node_type, fanin=fanin, fanout=fanout, uid=uid)
        if uid:
            made.append(str(r))
        return r
    T.add_node = add_node
    try:
        yield made
    finally:
        T.add_node = orig


class P(Prop):
    pid = "C02"
    rule = ("random one-module netlists of the supported subset: input/output/wire declarations (grouped at random), named "
            "primitive instances with expression operands, continuous assigns over ~ ! & | ^ ~^ ^~ ?: parentheses and 1-bit "
            "constants at nesting depth <= 3, named-port blackbox instances with connected / unconnected `.p()` / omitted "
            "pins, escaped identifiers, names resembling the parser's synthetic names, comments and random whitespace, "
            "statement order shuffled (use before definition); the parsed circuit is compared exactly with the Lean model "
            "(lexer + parser + transformer) and every declared net with a direct interpretation of the netlist for all "
            "valuations of inputs and blackbox outputs; port-list/declaration mismatches must be rejected; non-trivial = "
            ">=2 statements")
    assumptions = ["lark's lexer/LALR engine are modelled by CG/Verilog.lean (differential-tested here)",
                   "set-iteration order inside the patched run is the model's ordBy(seed) family"]
    budget = {"quick": (150, 300), "thorough": (3000, 3000)}

    def gen_case(self):
        rng = self.rng
        plant = [n for n in sorted(getattr(self, "made", ())) if n.isidentifier()][:8]
        if plant and rng.random() < 0.2:
            m = vgen.Module(rng, adversarial=0.6, plant=plant)
        else:
            m = vgen.Module(rng, blackboxes=rng.choice([vgen.FLOPS, vgen.FLOPS_ALT]) if rng.random() < 0.55 else (),
                            adversarial=rng.choice([0, 0, 0.25]))
        text = m.render(comments=True)
        mut = None
        r = rng.random()
        if r < 0.12:
            # port list / declaration mismatch
            mut = rng.choice(["drop-port", "extra-port", "undeclared"])
            if mut == "drop-port" and len(m.inputs) > 1:
                text = text.replace("(", "(", 1)
                victim = m.inputs[-1]
                head_end = text.index(");")
                head = text[:head_end]
                head = head.replace("," + head.split(",")[-1], "", 1) if "," in head else head
                text = head + text[head_end:]
            elif mut == "extra-port":
                text = text.replace(");", ", zz_extra);", 1)
            else:
                text = text.replace("endmodule", "input zz_undeclared_in_ports;\nendmodule", 1)
        return m, text, mut

    def correspond(self, n):
        drv = self.driver()
        for i in range(n):
            m, text, mut = self.gen_case()
            seed = self.rng.randint(0, 5)
            flops = list(m.bbs) or list(vgen.FLOPS)
            bbj = [[b.name, sorted(b.input_set), sorted(b.output_set)] for b in flops]
            with ordered(seed), synthetic_names() as made:
                o, r = call(cg.io.verilog_to_circuit, text, m.name, False, flops)
            self.made = set(made)
            mm = drv.ask({"op": "verilog_read", "text": text, "name": m.name, "bbs": bbj, "seed": seed})
            self.corr_cases += 1
            self.stats.case(text, nontrivial=len(m.stmts) >= 2, sample={"text": text} if i < 2 else None)
            self.stats.bump(f"read:{o}")
            d = f"outcome impl={o} model={mm['outcome']}" if mm["outcome"] != o else (cdiff(canon_c(r), canon(mm["c"])) if o == "ok" else "")
            if d:
                self.fail("corr", "verilog-read", d, {"text": text, "name": m.name, "seed": seed})
            if self.too_many():
                break

    def oracle(self, m, text, mut):
        case = {"text": text, "name": m.name}
        if self.rng.random() < 0.3:
            # call history: an earlier result of the very same call, edited in place by its owner
            o0, c0 = call(cg.io.verilog_to_circuit, text, m.name, False, list(m.bbs) or list(vgen.FLOPS))
            if o0 == "ok":
                gen.poison_result(self.rng, c0)
                self.stats.bump("history:earlier-result-edited")
        with synthetic_names() as made:
            o, c = call(cg.io.verilog_to_circuit, text, m.name, False, list(m.bbs) or list(vgen.FLOPS))
        self.made = set(made)
        self.search_cases += 1
        if mut:
            if o == "ok":
                self.fail("search", "port-mismatch-accepted", f"port list / declarations disagree ({mut}) but the netlist was accepted", case)
            return
        unconn = any(net is None for st in m.stmts if st[0] == "bb" for net in st[3].values())
        tie_names = {"tie_0", "tie_1", "tie_x"} & (set(m.inputs) | set(m.defs))
        if o != "ok":
            sig = f"verilog-read-raised-{o}"
            sig += self.synth_clash(m) or (":unconnected-pin" if unconn else "")
            # K49 (narrow): the word `endmodule` inside a comment, before the real end of the module
            import re as _re
            body = text[: text.rfind("endmodule")]
            if sig == f"verilog-read-raised-{o}" and o in ("other:UnexpectedToken", "other:UnexpectedCharacters", "other:UnexpectedEOF") and \
                    _re.search(r"(//[^\n]*endmodule|/\*(?:(?!\*/).)*endmodule)", body, _re.S):
                sig += ":endmodule-in-comment"
            self.fail("search", sig, f"verilog_to_circuit raised {o}", case)
            return
        if c.inputs() != set(m.inputs) or c.outputs() != set(m.outputs):
            self.fail("search", "verilog-io" + self.synth_clash(m),
                      f"inputs {sorted(c.inputs())} vs {m.inputs}; outputs {sorted(c.outputs())} vs {m.outputs}", case)
            return
        for inst, bb, pins in m.bb_insts:
            if inst not in c.blackboxes or c.blackboxes[inst].name != bb.name:
                self.fail("search", "verilog-bb-missing" + self.synth_clash(m), f"instance {inst} missing", case)
                return
            for pin, net in pins.items():
                node = f"{inst}.{pin}"
                if node not in c.graph.nodes:
                    self.fail("search", "verilog-bb-pin-missing" + self.synth_clash(m), f"pin {node} missing", case)
                    return
                nb = set(c.graph.predecessors(node)) if pin in bb.input_set else set(c.graph.successors(node))
                want = set() if net in (None, "__omit__") else {net}
                if nb != want:
                    # the net named on THIS pin is one of the reader's reserved constant names: K8d, whatever else the
                    # module contains
                    tag = ":net-named-tie" if net in ("tie_0", "tie_1", "tie_x") else self.synth_clash(m)
                    self.fail("search", "verilog-bb-pin" + tag, f"pin {node} attached to {sorted(nb)}, netlist says {sorted(want)}", case)
                    return
        free = m.free_names()
        if len(free) > 7 or c.is_cyclic():
            return
        fr = set(free_nodes(c))
        synth = self.synth_clash(m)
        for a in all_assignments(free):
            want = m.evaluate(a)
            ca = {x: a.get(x, False) for x in fr}
            v = simulate(c, ca)
            for net in list(m.inputs) + list(m.defs):
                if net not in v:
                    self.fail("search", "verilog-net-missing" + synth, f"declared net {net} is not in the circuit", case)
                    return
                if v[net] != want[net]:
                    sig = "verilog-value" + synth
                    self.fail("search", sig, f"net {net} = {v[net]} but the netlist denotes {want[net]} under {a}", case)
                    return

    def synth_clash(self, m):
        names = set(m.inputs) | set(m.defs)
        if names & self.made:
            # a net of the netlist has exactly the name the transformer gave one of its expression gates
            return ":net-captures-synthetic"
        if names & {"tie_0", "tie_1", "tie_x"}:
            return ":net-named-tie"
        return ""

    def corpus(self):
        rng = self.rng
        # K27: a ^ a
        m = vgen.Module(rng)
        m.inputs, m.stmts, m.bb_insts = ["a"], [("assign", "o", vgen.Expr("^", [vgen.Expr("id", name="a"), vgen.Expr("id", name="a")]))], []
        m.defs = {"o": m.stmts[0][2]}
        m.outputs, m.wires, m.name = ["o"], [], "m"
        self.oracle(m, "module m(a, o);\n input a;\n output o;\n assign o = a ^ a;\nendmodule\n", None)
        # K9: unconnected pin
        m = vgen.Module(rng, blackboxes=vgen.FLOPS)
        bb = vgen.FLOPS[0]
        m.inputs, m.name = ["a"], "m"
        pins = {"clk": None, "d": "a", "q": "o"}
        m.stmts, m.bb_insts, m.defs, m.outputs, m.wires = [("bb", "ff", "u", pins)], [("u", bb, pins)], {"o": ("bbout", "u", "q")}, ["o"], []
        self.oracle(m, "module m(a, o);\n input a;\n output o;\n ff u (.clk(), .d(a), .q(o));\nendmodule\n", None)

        # K49 (known): the word `endmodule` in a comment cuts the module text short
        m = vgen.Module(rng)
        m.inputs, m.stmts, m.bb_insts = ["a"], [("assign", "o", vgen.Expr("id", name="a"))], []
        m.defs = {"o": m.stmts[0][2]}
        m.outputs, m.wires, m.name = ["o"], [], "m"
        self.oracle(m, "module m(a, o);\n input a; // up to endmodule\n output o;\n assign o = a;\nendmodule\n", None)

    def search(self, n):
        for i in range(n):
            self.oracle(*self.gen_case())
            if self.too_many():
                break

    def replay(self, case):
        self.search(30)


if __name__ == "__main__":
    run_main(P)
