"""Structured generators (one PRNG) shared by all property harnesses."""
from common import cg

GATES = ["and", "nand", "or", "nor", "xor", "xnor", "buf", "not"]
MULTI = ["and", "nand", "or", "nor", "xor", "xnor"]

ADVERSARIAL = [
    "xor_a_b", "xor_b_a", "xor_b_c", "xor_a_c", "xor_c_b", "xor_inv_g0", "xor_inv_o", "a_X", "b_X", "g0_X",
    "a_x_in_fi", "g0_x_in_fi", "g0_0_not_in_fi", "a_is_0", "a_is_1", "a_not_x", "c0_a", "c1_a", "sat", "dif_a",
    "dif_o", "tie_0", "tie_1", "tie0", "not_a", "and_a_b", "or_a_b", "g_0", "g_1", "g0_limit_fanin_0",
    "g0_limit_fanout_0", "a_limit_fanout_0", "aux_in_a", "aux_in_g0", "a_cg_unroll_0", "o_cg_unroll_0",
    "pc_in_0", "pc_out_0", "orig_a", "inv_a_a", "sen_out_0", "dif_out_a", "unrolled_0_a", "a_0", "a_1", "g0_0",
]


def mangling_twins(rng, c, p=0.15, prefer=None):
    """rename two nodes of `c` (in place) to names that differ only in punctuation a sanitiser might flatten — bus style
    `d[3]` next to `d_3`, `d[3]` next to `d3`, upper/lower case twins — so that any helper which normalises names
    before looking for a free one makes two different nodes share a derived name.  Returns c."""
    if rng.random() >= p:
        return c
    nodes = sorted(n for n in c.graph.nodes if "." not in n)
    if len(nodes) < 2:
        return c
    pref = sorted(n for n in (prefer or []) if n in nodes)
    a, b = rng.sample(pref, 2) if len(pref) >= 2 else rng.sample(nodes, 2)
    stem = rng.choice(["d", "bus", "q"])
    k = rng.randint(0, 3)
    tw = rng.choice([(f"{stem}[{k}]", f"{stem}_{k}"), (f"{stem}_{k}", f"{stem}[{k}]"), (f"{stem}[{k}]", f"{stem}{k}"),
                     (f"{stem}{k}", f"{stem.upper()}{k}")])
    if tw[0] in c.graph.nodes or tw[1] in c.graph.nodes:
        return c
    c.relabel({a: tw[0], b: tw[1]})
    return c


def names(rng, n, prefix, adversarial=0.0, taken=()):
    out = []
    taken = set(taken)
    i = 0
    while len(out) < n:
        if rng.random() < adversarial:
            cand = rng.choice(ADVERSARIAL)
        else:
            cand = f"{prefix}{i}"
            i += 1
        if cand not in taken:
            taken.add(cand)
            out.append(cand)
    return out


def circuit(rng, n_in=(1, 5), n_gates=(1, 10), types=GATES, max_arity=4, consts=0.15, p_out=0.3,
            adversarial=0.0, cyclic=False, allow_x=False, name=None, unary_multi=0.12, dead=True,
            out_inputs=0.08, in_names=None, selfloops=0.0):
    """random lint-clean (undriven=True) blackbox-free circuit.
    dead=False: every non-output node gets a load eventually (best effort: sinks are marked outputs)."""
    c = cg.Circuit(name=name or rng.choice(["c", "top", "circ"]))
    ni = rng.randint(*n_in)
    ng = rng.randint(*n_gates)
    ins = in_names if in_names is not None else names(rng, ni, rng.choice(["a", "i", "in_"]), adversarial)
    for n in ins:
        c.add(n, "input")
    pool = list(ins)
    if rng.random() < consts or not pool:
        k = rng.choice(["0", "1"] + (["x"] if allow_x else []))
        nm = [x for x in names(rng, 1, "k", adversarial, taken=c.nodes())][0]
        c.add(nm, k)
        pool.append(nm)
    gnames = names(rng, ng, rng.choice(["g", "n", "w"]), adversarial, taken=c.nodes())
    for gname in gnames:
        t = rng.choice(types)
        if t in ("buf", "not"):
            k = 1
        elif rng.random() < unary_multi:
            k = 1
        else:
            k = rng.randint(2, max(2, min(max_arity, len(pool))))
        k = min(k, len(pool))
        fi = rng.sample(pool, k)
        c.add(gname, t, fanin=fi)
        pool.append(gname)
    gates = [n for n in c.graph.nodes if c.type(n) in GATES]
    if cyclic and gates:
        # add a few back edges into multi-input gates (keeps lint-clean)
        for _ in range(rng.randint(1, 3)):
            tgt = rng.choice(gates)
            if c.type(tgt) in ("buf", "not"):
                continue
            src = rng.choice(gates)
            if src != tgt:
                c.graph.add_edge(src, tgt)
    if cyclic and pool and rng.random() < 0.5:
        # a loop that has a stable state only for some input values: lp = op(x, inv(lp)) — with x at the non-controlling
        # value the loop is an odd ring (no consistent valuation), otherwise it is forced
        x = rng.choice(pool)
        lp, nl = [n for n in names(rng, 2, "lp", adversarial, taken=c.nodes())][:2]
        c.add(lp, rng.choice(["and", "nand", "or", "nor", "xor", "xnor"]), fanin=[x])
        c.add(nl, rng.choice(["not", "not", "buf"]), fanin=[lp])
        c.connect(nl, lp)
        if gates and rng.random() < 0.5:
            tgt = [g for g in gates if c.type(g) in MULTI]
            if tgt:
                c.connect(lp, rng.choice(tgt))
        gates = gates + [lp, nl]
    if selfloops and gates and rng.random() < selfloops:
        # a gate in its own fan-in (`c.connect(g, g)` is legal and lint-clean for multi-input gates)
        multi = [g for g in gates if c.type(g) in MULTI]
        if multi:
            g = rng.choice(multi)
            c.connect(g, g)
    if adversarial and rng.random() < 0.8:
        # names an encoder could pick for its auxiliary nets around a parity gate: `xor_inv_<g>`, `<g>_xor_inv`,
        # `xor_<u>_<v>`, `<g>_xor_<k>` — as free inputs wired into some gate, so a shared variable changes the function
        par = [g for g in gates if c.type(g) in ("xor", "xnor")]
        if par:
            g = rng.choice(par)
            fi = sorted(c.graph.predecessors(g))
            cands = [f"xor_inv_{g}", f"xor_inv_{g}", f"{g}_xor_inv", f"xnor_inv_{g}"]
            if len(fi) >= 2:
                u, v = rng.sample(fi, 2)
                cands += [f"xor_{u}_{v}", f"xor_{v}_{u}", f"xor_{u}_{v}", f"xor_{v}_{u}", f"xnor_{u}_{v}", f"{g}_xor_{len(fi)}",
                          f"{g}_xor_3"]
            nm = rng.choice(cands)
            if nm not in c.graph.nodes:
                c.add(nm, "input")
                tgt = [x for x in gates if c.type(x) in MULTI and x != g]
                if tgt:
                    c.connect(nm, rng.choice(tgt))
                else:
                    c.add(f"zz_{len(c.graph)}", "and", fanin=[nm, g], output=True)
    # outputs
    for n in list(c.graph.nodes):
        t = c.type(n)
        if t in GATES and rng.random() < p_out:
            c.set_output(n)
        elif t in ("input", "0", "1") and rng.random() < out_inputs:
            c.set_output(n)
    if not dead:
        for n in list(c.graph.nodes):
            if not c.fanout(n) and c.type(n) in GATES:
                c.set_output(n)
    if not c.outputs() and gates:
        c.set_output(gates[-1])
    return c


def add_flops(rng, c, n_flops=(1, 2), bb=None, connect_all=True, inst="ff", inst_names=None):
    """splice flip-flop blackboxes (ff: clk,d -> q) into a blackbox-free circuit: each flop's d is driven
    by an existing node and its q drives a fresh buf that feeds a new gate or is an output"""
    bb = bb or cg.BlackBox("ff", ["clk", "d"], ["q"])
    if "clk" not in c:
        c.add("clk", "input")
    for i in range(rng.randint(*n_flops)):
        drivers = [n for n in c.graph.nodes if c.type(n) not in ("bb_input", "bb_output")]
        d = rng.choice(drivers)
        q = c.add(f"q{i}", "buf", output=rng.random() < 0.5, uid=True)
        conns = {"d": d, "q": q}
        if connect_all or rng.random() < 0.5:
            conns["clk"] = "clk"
        c.add_blackbox(bb, inst_names[i] if inst_names and i < len(inst_names) else f"{inst}{i}", conns)
        # let q feed something
        gates = [n for n in c.graph.nodes if c.type(n) in MULTI and n != d and q not in c.transitive_fanin(n)
                 and n not in c.transitive_fanin(d)]
        if gates and rng.random() < 0.7:
            c.connect(q, rng.choice(gates))
        elif not c.is_output(q):
            c.set_output(q)
    return c


def inplace_edit(rng, c, exclude=()):
    """one in-place edit of a (lint-clean) circuit object that keeps it lint-clean and keeps the NUMBER of nodes and
    edges (and the registry keys) — the kind of change a memo keyed on a coarse fingerprint of the object would not
    notice: a gate type change, a constant flip, one operand moved to another driver, an output mark toggled, a node
    renamed.  Returns the edit as a dict (replayable with `apply_edit`), or None when nothing applicable was found."""
    g = c.graph
    nodes = list(g.nodes)
    multi = [n for n in nodes if c.type(n) in MULTI]
    unary = [n for n in nodes if c.type(n) in ("buf", "not") and not any(c.type(p) == "bb_output" for p in g.predecessors(n))]
    consts = [n for n in nodes if c.type(n) in ("0", "1")]
    kinds = ["set_type"] * 3 + ["rewire"] * 3 + ["output"] * 2 + ["relabel"] + ["add_edge"] * 2 + ["add_sub"] * 2 + ["fill"]
    kinds = [k for k in kinds if k not in exclude]
    rng.shuffle(kinds)
    for kind in kinds:
        if kind == "set_type":
            pool = multi + unary + consts
            if not pool:
                continue
            n = rng.choice(pool)
            t = c.type(n)
            if t in MULTI:
                nt = rng.choice([x for x in MULTI if x != t])
            elif t in ("buf", "not"):
                nt = "not" if t == "buf" else "buf"
            else:
                nt = "1" if t == "0" else "0"
            return apply_edit(c, {"op": "set_type", "n": n, "t": nt})
        if kind == "rewire":
            cand = [n for n in multi + unary if g.in_degree(n) >= 1]
            rng.shuffle(cand)
            for n in cand:
                fi = sorted(g.predecessors(n))
                old = rng.choice(fi)
                banned = set(fi) | {n} | set(__import__("networkx").descendants(g, n))
                new = [m for m in nodes if m not in banned and c.type(m) not in ("bb_input", "bb_output")]
                if not new:
                    continue
                m = rng.choice(sorted(new))
                return apply_edit(c, {"op": "rewire", "n": n, "old": old, "new": m})
            continue
        if kind == "add_sub":
            # an independent island with its own input and output, merged by add_subcircuit(strip_io=False): the graph
            # grows without add()/connect() being called
            if any(n.startswith("zz_isl") for n in nodes):
                continue
            return apply_edit(c, {"op": "add_sub", "t": rng.choice(["not", "buf"])})
        if kind == "fill":
            # a buffer block spliced behind a gate by add_blackbox + fill_blackbox
            if not multi or any(n.startswith("zz_fw") for n in nodes):
                continue
            loads = [n for n in multi if g.out_degree(n) >= 1]
            if not loads:
                continue
            n = rng.choice(sorted(loads))
            return apply_edit(c, {"op": "fill", "n": n, "load": rng.choice(sorted(g.successors(n)))})
        if kind == "add_edge":
            # one more operand on a multi-input gate: the node count stays, the edge count grows
            cand = list(multi)
            rng.shuffle(cand)
            for n in cand:
                banned = set(g.predecessors(n)) | {n} | set(__import__("networkx").descendants(g, n))
                new = [m for m in nodes if m not in banned and c.type(m) not in ("bb_input", "bb_output")]
                if new:
                    return apply_edit(c, {"op": "add_edge", "n": n, "new": rng.choice(sorted(new))})
            continue
        if kind == "output":
            cand = [n for n in nodes if c.type(n) in GATES + ["input", "0", "1"]]
            outs = [n for n in cand if c.is_output(n)]
            non = [n for n in cand if not c.is_output(n)]
            if non and (len(outs) < 2 or rng.random() < 0.6):
                n = rng.choice(non)
                return apply_edit(c, {"op": "set_output", "n": n, "v": True})
            if len(outs) >= 2:
                n = rng.choice(outs)
                return apply_edit(c, {"op": "set_output", "n": n, "v": False})
            continue
        if kind == "relabel":
            cand = [n for n in nodes if "." not in n]
            if not cand:
                continue
            n = rng.choice(cand)
            new = n + "_rn"
            if new in g:
                continue
            return apply_edit(c, {"op": "relabel", "n": n, "new": new})
    return None


def apply_edit(c, op):
    """perform one edit produced by `inplace_edit` on the object `c` (through the public API); returns `op`"""
    k = op["op"]
    if k == "set_type":
        c.set_type(op["n"], op["t"])
    elif k == "rewire":
        c.disconnect(op["old"], op["n"])
        c.connect(op["new"], op["n"])
    elif k == "add_edge":
        c.connect(op["new"], op["n"])
    elif k == "add_sub":
        isl = cg.Circuit("isl")
        isl.add("i", "input")
        isl.add("o", op["t"], fanin="i", output=True)
        c.add_subcircuit(isl, "zz_isl", strip_io=False)
    elif k == "fill":
        # n -> load becomes n -> [block: buf] -> zz_fw -> load
        n, load = op["n"], op["load"]
        w = c.add("zz_fw", "buf")
        c.disconnect(n, load)
        c.connect(w, load)
        c.add_blackbox(cg.BlackBox("zb", ["i"], ["o"]), "zz_fu", {"i": n, "o": w})
        blk = cg.Circuit("blk")
        blk.add("i", "input")
        blk.add("o", "buf", fanin="i", output=True)
        c.fill_blackbox("zz_fu", blk)
    elif k == "set_output":
        c.set_output(op["n"], op["v"])
    elif k == "relabel":
        c.relabel({op["n"]: op["new"]})
    else:
        raise ValueError(k)
    return op


def poison_generators(rng, widths=(1, 2, 3, 4, 5)):
    """call history for the logic generators: obtain every block once and edit the returned object in place, the way a
    caller who owns it may (change a gate, add an undriven buffer, rename a port).  If a generator hands out a shared or
    memoised object, every later call - direct or through adder/popcount/sensitivity_transform - sees the damage."""
    blocks = []

    def get(f, *a):
        # a generator that raises is reported by the search that calls it directly, not here
        try:
            blocks.append(f(*a))
        except Exception:  # noqa: BLE001
            pass
    get(cg.logic.half_adder)
    get(cg.logic.full_adder)
    for w in widths:
        get(cg.logic.adder, w)
        get(cg.logic.adder, w, True, True)
        get(cg.logic.adder, w, False, True)
        get(cg.logic.mux, w)
        get(cg.logic.popcount, w)
    for b in blocks:
        gates = [g for g in b.graph.nodes if b.type(g) in ("and", "or", "xor")]
        if gates:
            g = rng.choice(sorted(gates))
            b.set_type(g, {"and": "nor", "or": "nand", "xor": "xnor"}[b.type(g)])
        b.add("zz_en", "buf", uid=True)
        outs = sorted(b.outputs())
        if outs:
            b.set_output(outs[0], False)
    return len(blocks)


def splice_block(rng, c, blk, inst="zz_u"):
    """composition history: a one-input one-output block `blk` (typically the result of an earlier transform call, so it
    carries whatever that call left on the object) is spliced into a copy of `c` behind a random gate by add_blackbox +
    fill_blackbox (a merge that does not go through connect()).  Returns the new parent, or None."""
    gates = [n for n in c.graph.nodes if c.type(n) in MULTI]
    ins, outs = sorted(blk.inputs()), sorted(blk.outputs())
    if not gates or len(ins) != 1 or len(outs) != 1:
        return None
    p = c.copy()
    gname = rng.choice(sorted(gates))
    w = p.add("zz_w", "buf", uid=True, output=True)
    p.add_blackbox(cg.BlackBox("zb", ins, outs), inst, {ins[0]: gname, outs[0]: w})
    p.fill_blackbox(inst, blk)
    return p


def poison_result(rng, r):
    """the caller owns what a library call returned and edits it in place (retypes gates, toggles outputs, deletes a node,
    adds one): a later identical call must not be affected"""
    cs = [r] if isinstance(r, cg.Circuit) else [x for x in (r if isinstance(r, (tuple, list)) else []) if isinstance(x, cg.Circuit)]
    for c in cs:
        g = c.graph
        for n in list(g.nodes):
            t = g.nodes[n].get("type")
            if t in MULTI and rng.random() < 0.6:
                c.set_type(n, rng.choice([x for x in MULTI if x != t]))
            elif t in ("buf", "not") and rng.random() < 0.5:
                c.set_type(n, "not" if t == "buf" else "buf")
            elif t in ("0", "1"):
                c.set_type(n, "1" if t == "0" else "0")
            if t in GATES + ["input"] and rng.random() < 0.3:
                c.set_output(n, not c.is_output(n))
        plain = [n for n in g.nodes if g.nodes[n].get("type") in GATES]
        if plain and rng.random() < 0.7:
            c.remove(rng.choice(sorted(plain)))
        try:
            c.add("zz_extra", "input", uid=True)
        except Exception:  # noqa: BLE001
            pass
    return len(cs)


def process_history(rng, blackboxes=()):
    """calls a long-lived process may have made before the one under test: rarely used argument forms and rejected calls
    whose only legitimate effect is an exception.  Anything they leave behind (a mutable default, a module-level set edited in
    place, a shared BlackBox description changed on an error path) must not influence later calls.  Every call here is legal
    API use; exceptions are expected and swallowed."""
    def quiet(f, *a, **k):
        try:
            return f(*a, **k)
        except Exception:  # noqa: BLE001
            return None
    # lint collecting all problems of an ill-formed circuit
    bad = cg.Circuit("zz_bad")
    bad.add("a", "input")
    bad.add("b", "buf")                       # undriven
    bad.add("n", "not", fanin=["a"])
    bad.graph.add_edge("b", "a")              # fan-in on an input
    bad.graph.add_node("t", output=False)     # untyped
    quiet(cg.lint, bad, fail_fast=False)
    quiet(cg.lint, bad, True, True, True, True)
    # rejected add_blackbox calls (unknown pin, illegal connection) on description objects that are used again later
    for bb in list(blackboxes) + [cg.BlackBox("zz_ff", ["clk", "d"], ["q"])]:
        c = cg.Circuit("zz_h")
        c.add("x", "input")
        c.add("y", "input")
        quiet(c.add_blackbox, bb, "zz_u", {"zz_nope": "x"})
        for pin in sorted(bb.outputs()):
            quiet(c.add_blackbox, bb, "zz_v", {pin: "y"})      # an output pin may not drive an input
    # flag forms of remove_unloaded, strip_blackboxes, sequential_unroll on a scratch sequential circuit
    sc = cg.Circuit("zz_s")
    sc.add("a", "input")
    sc.add("clk", "input")
    sc.add("dead", "not", fanin=["a"])
    sc.add("g", "xor", fanin=["a"])
    sc.add("q", "buf", output=True)
    ff = cg.BlackBox("zz_ffq", ["clk", "d"], ["q", "qn"])
    sc.add_blackbox(ff, "zz_r", {"clk": "clk", "d": "g", "q": "q"})
    sc.connect("q", "g")
    quiet(lambda: sc.copy().remove_unloaded(inputs=True))
    quiet(lambda: sc.copy().remove_unloaded())
    for ign in ("clk", ["clk", "qn"], "qn", None):
        quiet(cg.tx.strip_blackboxes, sc, ign)
        quiet(cg.tx.sequential_unroll, sc, 2, "d", "q", ign)
    # writers on a circuit with an escaped name; readers on a rejected text
    ec = cg.Circuit("zz_e")
    ec.add("\\a[0]", "input")
    ec.add("o", "not", fanin=["\\a[0]"], output=True)
    quiet(cg.io.circuit_to_verilog, ec)
    quiet(cg.io.circuit_to_verilog, ec, True)
    quiet(cg.io.circuit_to_bench, ec)
    quiet(cg.io.verilog_to_circuit, "module zz_m(a, o); input a; output o; zz_ffq u (.zz(a), .q(o)); endmodule", "zz_m", False, [ff])
    quiet(cg.io.verilog_to_circuit, "module zz_m(a, o); input a; output o; zz_ffq u (.zz(a), .q(o)); endmodule", "zz_m", True, [ff])
    quiet(cg.io.bench_to_circuit, "INPUT(a)\nOUTPUT(o)\no = NOT(a, a)\n", "zz_b")
    # rejected construction calls on a scratch circuit
    k = cg.Circuit("zz_k")
    k.add("a", "input")
    quiet(k.add, "a", "and")
    quiet(k.add, "g", "mux")
    quiet(k.connect, "a", "a")
    quiet(k.add_subcircuit, k, "a")
