"""Structured generators (one PRNG) shared by all property harnesses."""
from common import cg

GATES = ["and", "nand", "or", "nor", "xor", "xnor", "buf", "not"]
MULTI = ["and", "nand", "or", "nor", "xor", "xnor"]

ADVERSARIAL = [
    "xor_a_b", "xor_b_a", "xor_b_c", "xor_a_c", "xor_c_b", "xor_inv_g0", "xor_inv_o", "a_X", "b_X", "g0_X",
    "a_x_in_fi", "g0_x_in_fi", "g0_0_not_in_fi", "a_is_0", "a_is_1", "a_not_x", "c0_a", "c1_a", "sat", "dif_a",
    "dif_o", "tie_0", "tie_1", "tie0", "not_a", "and_a_b", "or_a_b", "g_0", "g_1", "g0_limit_fanin_0",
    "g0_limit_fanout_0", "a_limit_fanout_0", "aux_in_a", "aux_in_g0", "a_cg_unroll_0", "o_cg_unroll_0",
    "pc_in_0", "pc_out_0", "orig_a", "inv_a_a", "sen_out_0", "dif_out_a", "unrolled_0_a", "a_0", "a_1", "g0_0",
]


def names(rng, n, prefix, adversarial=0.0, taken=()):
    out = []
    taken = set(taken)
    i = 0
    while len(out) < n:
        if rng.random() < adversarial:
            cand = rng.choice(ADVERSARIAL)
        else:
            cand = f"{prefix}{i}"
            i += 1
        if cand not in taken:
            taken.add(cand)
            out.append(cand)
    return out


def circuit(rng, n_in=(1, 5), n_gates=(1, 10), types=GATES, max_arity=4, consts=0.15, p_out=0.3,
            adversarial=0.0, cyclic=False, allow_x=False, name=None, unary_multi=0.12, dead=True,
            out_inputs=0.08, in_names=None):
    """random lint-clean (undriven=True) blackbox-free circuit.
    dead=False: every non-output node gets a load eventually (best effort: sinks are marked outputs)."""
    c = cg.Circuit(name=name or rng.choice(["c", "top", "circ"]))
    ni = rng.randint(*n_in)
    ng = rng.randint(*n_gates)
    ins = in_names if in_names is not None else names(rng, ni, rng.choice(["a", "i", "in_"]), adversarial)
    for n in ins:
        c.add(n, "input")
    pool = list(ins)
    if rng.random() < consts or not pool:
        k = rng.choice(["0", "1"] + (["x"] if allow_x else []))
        nm = [x for x in names(rng, 1, "k", adversarial, taken=c.nodes())][0]
        c.add(nm, k)
        pool.append(nm)
    gnames = names(rng, ng, rng.choice(["g", "n", "w"]), adversarial, taken=c.nodes())
    for gname in gnames:
        t = rng.choice(types)
        if t in ("buf", "not"):
            k = 1
        elif rng.random() < unary_multi:
            k = 1
        else:
            k = rng.randint(2, max(2, min(max_arity, len(pool))))
        k = min(k, len(pool))
        fi = rng.sample(pool, k)
        c.add(gname, t, fanin=fi)
        pool.append(gname)
    gates = [n for n in c.graph.nodes if c.type(n) in GATES]
    if cyclic and gates:
        # add a few back edges into multi-input gates (keeps lint-clean)
        for _ in range(rng.randint(1, 3)):
            tgt = rng.choice(gates)
            if c.type(tgt) in ("buf", "not"):
                continue
            src = rng.choice(gates)
            if src != tgt:
                c.graph.add_edge(src, tgt)
    # outputs
    for n in list(c.graph.nodes):
        t = c.type(n)
        if t in GATES and rng.random() < p_out:
            c.set_output(n)
        elif t in ("input", "0", "1") and rng.random() < out_inputs:
            c.set_output(n)
    if not dead:
        for n in list(c.graph.nodes):
            if not c.fanout(n) and c.type(n) in GATES:
                c.set_output(n)
    if not c.outputs() and gates:
        c.set_output(gates[-1])
    return c


def add_flops(rng, c, n_flops=(1, 2), bb=None, connect_all=True, inst="ff"):
    """splice flip-flop blackboxes (ff: clk,d -> q) into a blackbox-free circuit: each flop's d is driven
    by an existing node and its q drives a fresh buf that feeds a new gate or is an output"""
    bb = bb or cg.BlackBox("ff", ["clk", "d"], ["q"])
    if "clk" not in c:
        c.add("clk", "input")
    for i in range(rng.randint(*n_flops)):
        drivers = [n for n in c.graph.nodes if c.type(n) not in ("bb_input", "bb_output")]
        d = rng.choice(drivers)
        q = c.add(f"q{i}", "buf", output=rng.random() < 0.5, uid=True)
        conns = {"d": d, "q": q}
        if connect_all or rng.random() < 0.5:
            conns["clk"] = "clk"
        c.add_blackbox(bb, f"{inst}{i}", conns)
        # let q feed something
        gates = [n for n in c.graph.nodes if c.type(n) in MULTI and n != d and q not in c.transitive_fanin(n)
                 and n not in c.transitive_fanin(d)]
        if gates and rng.random() < 0.7:
            c.connect(q, rng.choice(gates))
        elif not c.is_output(q):
            c.set_output(q)
    return c
