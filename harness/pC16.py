"""C16 — remove_unloaded deletes exactly the dead logic."""
import networkx as nx

import gen
from common import cg, c_to_json, c_from_json, canon, canon_c, cdiff, call, ordered
from framework import Prop, run_main


def live_set(c):
    """nodes from which an output or a blackbox input pin is reachable (including those themselves)"""
    g = c.graph
    sinks = [n for n in g.nodes if g.nodes[n].get("output") or g.nodes[n].get("type") == "bb_input"]
    live = set(sinks)
    for s in sinks:
        live |= nx.ancestors(g, s)
    return live


class P(Prop):
    pid = "C16"
    rule = ("random circuits, one in five with combinational loops and dead rings (1-5 inputs, 1-12 gates, constants, optional flop blackboxes with connected or "
            "unconnected pins) with outputs unmarked at random so that dead gates, dead chains, unloaded inputs and inputs "
            "loaded only by dead logic occur; both values of `inputs`; non-trivial = at least one node is dead")
    assumptions = ["set-iteration order inside the patched run is the model's ordBy(seed) family"]
    budget = {"quick": (600, 800), "thorough": (5000, 6000)}

    def gen_case(self):
        rng = self.rng
        cyc = rng.random() < 0.2
        c = gen.circuit(rng, n_in=(1, 5), n_gates=(1, 12), p_out=rng.choice([0.1, 0.2, 0.4]), consts=0.25,
                        out_inputs=0.05, cyclic=cyc)
        if cyc and rng.random() < 0.6:
            # a dead ring (no output reachable from it), possibly with a dead tail hanging off it and dead logic feeding it
            src = rng.choice(sorted(c.graph.nodes))
            r1 = c.add("zz_r1", rng.choice(["and", "or", "xor"]), fanin=[src], uid=True)
            r2 = c.add("zz_r2", rng.choice(["buf", "not", "nand"]), fanin=[r1], uid=True)
            c.connect(r2, r1)
            if rng.random() < 0.5:
                c.add("zz_tail", "not", fanin=[r2], uid=True)
            if rng.random() < 0.3:
                s1 = c.add("zz_self", "or", fanin=[src], uid=True)
                c.connect(s1, s1)
        bb = False
        if rng.random() < 0.35:
            gen.add_flops(rng, c, connect_all=rng.random() < 0.5)
            bb = True
            # sometimes make a q buffer dead
            for n in list(c.graph.nodes):
                if c.type(n) == "buf" and c.is_output(n) and rng.random() < 0.4:
                    c.set_output(n, False)
            if rng.random() < 0.3:
                # a dead node that is NOT a pin but is named after an instance (`ff0.tap`): lint accepts it (its prefix
                # names a recorded instance); sweeping it must not touch the instance's pins
                inst = rng.choice(sorted(c.blackboxes))
                src = rng.choice([x for x in sorted(c.graph.nodes) if c.type(x) not in ("bb_input", "bb_output")])
                c.add(f"{inst}.{rng.choice(['tap', 'dbg', 'q_n'])}", rng.choice(["not", "buf"]), fanin=[src])
        # knock out outputs to create dead logic
        for o in list(c.outputs()):
            if rng.random() < 0.3:
                c.set_output(o, False)
        inputs = (not bb) and rng.random() < 0.5
        return c, inputs

    def correspond(self, n):
        drv = self.driver()
        for i in range(n):
            c, inputs = self.gen_case()
            cj = c_to_json(c)
            seed = self.rng.randint(0, 5)
            c2 = c.copy()
            with ordered(seed):
                o, removed = call(c2.remove_unloaded, inputs=inputs)
            r = drv.ask({"op": "apply", "c": cj, "ops": [{"op": "remove_unloaded", "inputs": inputs}], "seed": seed,
                         "trace": False})
            st = r["steps"][0]
            self.corr_cases += 1
            self.stats.case([cj, inputs], nontrivial=bool(removed),
                            sample={"c": cj, "inputs": inputs, "removed": removed} if i < 2 else None)
            self.stats.bump("removed:%d" % min(len(removed or []), 5))
            d = ""
            if st["outcome"] != o:
                d = f"outcome impl={o} model={st['outcome']}"
            elif o == "ok":
                if list(removed) != st["ret"]:
                    d = f"removed list impl={removed} model={st['ret']}"
                else:
                    d = cdiff(canon_c(c2), canon(r["c"]))
            if d:
                self.fail("corr", "remove_unloaded", d, {"c": cj, "inputs": inputs, "seed": seed})
            if self.too_many():
                break

    def oracle(self, c, inputs, tag=""):
        cj = c_to_json(c)
        live = live_set(c)
        before = {n: (dict(c.graph.nodes[n]), sorted(c.graph.predecessors(n))) for n in c.graph.nodes}
        c2 = c.copy()
        o, removed = call(c2.remove_unloaded, inputs=inputs)
        self.search_cases += 1
        case = {"c": cj, "inputs": inputs}
        if o != "ok":
            self.fail("search", "raised", f"remove_unloaded raised {o}", case)
            return
        removed_set = set(removed)
        # K42: the worklist never reaches a dead cycle (its members keep each other loaded) nor dead logic feeding one
        g0 = c.graph
        on_cycle = set()
        for comp in nx.strongly_connected_components(g0):
            if len(comp) > 1:
                on_cycle |= comp
        on_cycle |= {n for n in g0.nodes if g0.has_edge(n, n)}

        def feeds_cycle(n):
            return n in on_cycle or bool(nx.descendants(g0, n) & on_cycle)
        gone = set(before) - set(c2.graph.nodes)
        if removed_set != gone or len(removed) != len(removed_set):
            self.fail("search", "returned-list", f"returned {removed} but deleted {sorted(gone)}", case)
            return
        for n in sorted(before):
            t = before[n][0].get("type")
            dead = n not in live
            if t in ("input", "bb_output", "bb_input"):
                if not inputs and n in gone:
                    kind = "input" if t == "input" else "pin"
                    initially = not list(c.graph.successors(n))
                    self.fail("search", f"deleted-{kind}-inputs-false" + (":initially-unloaded" if initially else ""),
                              f"inputs=False but {t} {n!r} was deleted", case)
                    return
                if inputs and t == "input" and dead != (n in gone):
                    k42 = ":dead-cycle-kept" if dead and n not in gone and feeds_cycle(n) else ""
                    self.fail("search", "inputs-true-input" + k42, f"inputs=True: input {n!r} dead={dead} deleted={n in gone}", case)
                    if k42:
                        continue
                    return
            else:
                if dead != (n in gone):
                    k42 = ":dead-cycle-kept" if dead and n not in gone and feeds_cycle(n) else ""
                    self.fail("search", "dead-mismatch" + k42, f"{t} {n!r}: dead={dead} deleted={n in gone}", case)
                    if k42:
                        continue
                    return
        for n in c2.graph.nodes:
            now = (dict(c2.graph.nodes[n]), sorted(c2.graph.predecessors(n)))
            if now != before[n]:
                self.fail("search", "survivor-changed", f"surviving node {n!r} changed: {before[n]} -> {now}", case)
                return
        # idempotent
        c3 = c2.copy()
        o2, removed2 = call(c3.remove_unloaded, inputs=inputs)
        if o2 != "ok" or removed2 or canon_c(c3) != canon_c(c2):
            self.fail("search", "not-idempotent", f"second application removed {removed2}", case)

    def corpus(self):
        # K3: an input that is unloaded from the start, inputs=False
        c = cg.Circuit()
        c.add("a", "input")
        c.add("b", "input")
        c.add("o", "buf", fanin="a", output=True)
        self.oracle(c, False, "K3")
        c = cg.Circuit()
        c.add("a", "input")
        c.add("o", "buf", fanin="a", output=True)
        c.add_blackbox(cg.BlackBox("ff", ["d"], ["q", "qn"]), "u", {"d": "a"})
        self.oracle(c, False, "K3-pin")
        # K42: a dead ring g1 <-> g2 and a dead self-loop are never removed
        c = cg.Circuit()
        c.add("a", "input")
        c.add("o", "buf", fanin="a", output=True)
        c.add("b", "input")
        c.add("g1", "and", fanin=["b"])
        c.add("g2", "buf", fanin="g1")
        c.connect("g2", "g1")
        c.add("s", "or", fanin=["a"])
        c.connect("s", "s")
        self.oracle(c, False, "K42")
        self.oracle(c, True, "K42")

    def search(self, n):
        for i in range(n):
            c, inputs = self.gen_case()
            self.oracle(c, inputs)
            if self.too_many():
                break

    def replay(self, case):
        self.oracle(c_from_json(case["c"]), case["inputs"])


if __name__ == "__main__":
    run_main(P)
