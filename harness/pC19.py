"""C19 — transforms, queries and writers never modify or alias their argument."""
import copy
import os
import tempfile

import gen
from common import cg, c_to_json, c_from_json, call, nx
from framework import Prop, run_main


def snapshot(c):
    """everything observable about a circuit object, by value"""
    g = c.graph
    return {
        "name": c.name,
        "nodes": [(n, sorted(g.nodes[n].items())) for n in g.nodes],
        "edges": list(g.edges),
        "bbs": [(k, v.name, sorted(v.input_set), sorted(v.output_set)) for k, v in c.blackboxes.items()],
        "graph_attrs": sorted(g.graph.items()),
    }


def mutable_ids(c):
    """identities of every mutable container reachable from a circuit"""
    g = c.graph
    ids = {id(c.graph), id(c.blackboxes), id(g._node), id(g._adj), id(g._pred), id(g._succ), id(g.graph)}
    for n in g._node:
        ids.add(id(g._node[n]))
        ids.add(id(g._adj[n]))
        ids.add(id(g._pred[n]))
    for u in g._adj:
        for v in g._adj[u]:
            ids.add(id(g._adj[u][v]))
    return ids


def circuits_in(result):
    """all Circuit objects inside a return value"""
    out = []
    if isinstance(result, cg.Circuit):
        out.append(result)
    elif isinstance(result, (tuple, list)):
        for x in result:
            out += circuits_in(x)
    elif isinstance(result, dict):
        for x in result.values():
            out += circuits_in(x)
    return out


def edit_script(rng, c):
    """random edits through the public API and directly on the containers"""
    for _ in range(rng.randint(2, 5)):
        nodes = list(c.graph.nodes)
        k = rng.choice(["add", "remove", "relabel", "set_type", "set_output", "bb", "edge", "attr", "name"])
        try:
            if k == "add":
                c.add("zz_new", "input", uid=True)
            elif k == "remove" and nodes:
                c.remove(rng.choice(nodes))
            elif k == "relabel" and nodes:
                c.relabel({rng.choice(nodes): "zz_renamed"})
            elif k == "set_type" and nodes:
                c.graph.nodes[rng.choice(nodes)]["type"] = rng.choice(["buf", "and", "input"])
            elif k == "set_output" and nodes:
                n = rng.choice(nodes)
                c.set_output(n, not c.is_output(n))
            elif k == "bb":
                c.blackboxes["zz_inst"] = cg.BlackBox("zz", ["a"], ["b"])
            elif k == "edge" and len(nodes) > 1:
                c.graph.add_edge(rng.choice(nodes), rng.choice(nodes))
            elif k == "attr" and nodes:
                c.graph.nodes[rng.choice(nodes)]["zz"] = 1
            elif k == "name":
                c.name = c.name + "_zz"
        except Exception:  # noqa: BLE001
            pass


class P(Prop):
    pid = "C19"
    rule = ("every public function of tx, props (exact mode), sat, io writers, utils.lint and every read-only Circuit method x "
            "random lint-clean circuits with and without flop blackboxes (arguments that make the function raise included): "
            "deep value snapshot of every argument before/after the call; id()-level sharing test between every mutable "
            "container of the result and of the arguments; then a random edit script on the result followed by a re-snapshot "
            "of the argument, and vice versa; non-trivial = call returned a circuit or raised")
    assumptions = ["the static side (ownership skeletons + Lean analysis) is tied to the code by tools/extract_own.py; this "
                   "harness validates its classification tables dynamically"]
    budget = {"quick": (100, 100), "thorough": (400, 400)}

    def functions(self, c, other):
        rng = self.rng
        nodes = sorted(c.graph.nodes)
        n = rng.choice(nodes)
        ins = sorted(c.inputs())
        outs = sorted(c.outputs())
        st = {}
        if outs and ins:
            k = rng.choice(outs)
            v = rng.choice(ins)
            if k != v:
                st = {k: v}
        fns = [
            ("copy", lambda: c.copy()), ("strip_io", lambda: cg.tx.strip_io(c)), ("strip_outputs", lambda: cg.tx.strip_outputs(c)),
            ("strip_inputs", lambda: cg.tx.strip_inputs(c)), ("strip_blackboxes", lambda: cg.tx.strip_blackboxes(c, rng.choice([None, "clk"]))),
            ("relabel", lambda: cg.tx.relabel(c, {n: n + "_r"})),
            ("subcircuit", lambda: cg.tx.subcircuit(c, {n} | c.transitive_fanin(n), rng.random() < 0.5)),
            ("ternary", lambda: cg.tx.ternary(c)), ("miter", lambda: cg.tx.miter(c, other if rng.random() < 0.5 else None)),
            ("sequential_unroll", lambda: cg.tx.sequential_unroll(c, 2, "d", "q", ["clk"])),
            ("unroll", lambda: cg.tx.unroll(c, 2, st)),
            ("sensitization_transform", lambda: cg.tx.sensitization_transform(c, n, rng.choice([None, outs[:1] or None]))),
            ("sensitization_transform_cone", lambda: cg.tx.sensitization_transform(
                c, n, max(c.transitive_fanout(n) | {n}, key=lambda e: (len(c.transitive_fanin(e)), e)))),
            ("sensitivity_transform", lambda: cg.tx.sensitivity_transform(c, n)),
            ("limit_fanin", lambda: cg.tx.limit_fanin(c, 2)), ("limit_fanout", lambda: cg.tx.limit_fanout(c, 2)),
            ("acyclic_unroll", lambda: cg.tx.acyclic_unroll(c)), ("supergates", lambda: cg.tx.supergates(c)),
            ("supergates_super", lambda: cg.tx.supergates(c, True)), ("insert_registers", lambda: cg.tx.insert_registers(c, 2)),
            ("cnf", lambda: cg.sat.cnf(c)), ("solve", lambda: cg.sat.solve(c, {n: True})),
            ("model_count", lambda: cg.sat.model_count(c) if len(c.startpoints()) <= 5 else None),
            ("signal_probability", lambda: cg.props.signal_probability(c, n, approx=False) if len(c.startpoints(n)) <= 5 else None),
            ("sensitize", lambda: cg.props.sensitize(c, n)),
            ("sensitivity", lambda: cg.props.sensitivity(c, n) if len(c.startpoints(n)) <= 4 else None),
            ("influence", lambda: cg.props.influence(c, n, approx=False) if len(c.startpoints(n)) <= 4 else None),
            ("avg_sensitivity", lambda: cg.props.avg_sensitivity(c, n, approx=False) if len(c.startpoints(n)) <= 4 else None),
            ("levelize", lambda: cg.props.levelize(c)),
            ("circuit_to_verilog", lambda: cg.io.circuit_to_verilog(c, rng.random() < 0.5)),
            ("circuit_to_bench", lambda: cg.io.circuit_to_bench(c)),
            ("to_file", lambda: self.to_file(c)),
            ("lint", lambda: cg.lint(c, fail_fast=rng.random() < 0.5, unloaded=rng.random() < 0.5)),
            # read-only Circuit methods
            ("type", lambda: c.type(nodes)), ("filter_type", lambda: c.filter_type(["and", "input"])), ("nodes", lambda: c.nodes()),
            ("edges", lambda: c.edges()), ("fanin", lambda: c.fanin(nodes)), ("fanout", lambda: c.fanout(nodes)),
            ("transitive_fanin", lambda: c.transitive_fanin(n)), ("transitive_fanout", lambda: c.transitive_fanout(n)),
            ("fanout_depth", lambda: c.fanout_depth(n)), ("fanin_depth", lambda: c.fanin_depth(n)),
            ("paths", lambda: list(c.paths(rng.choice(nodes), n))), ("inputs", lambda: c.inputs()), ("outputs", lambda: c.outputs()),
            ("io", lambda: c.io()), ("startpoints", lambda: c.startpoints(n)), ("endpoints", lambda: c.endpoints(n)),
            ("reconvergent_fanout_nodes", lambda: list(c.reconvergent_fanout_nodes())),
            ("has_reconvergent_fanout", lambda: c.has_reconvergent_fanout()), ("is_cyclic", lambda: c.is_cyclic()),
            ("uid", lambda: c.uid(n)), ("kcuts", lambda: c.kcuts(n, 3)), ("topo_sort", lambda: list(c.topo_sort())),
            ("is_output", lambda: c.is_output(n)), ("contains", lambda: n in c), ("len", lambda: len(c)), ("iter", lambda: list(c)),
        ]
        return fns

    def to_file(self, c):
        with tempfile.TemporaryDirectory(prefix="cgverif_") as td:
            cg.to_file(c, os.path.join(td, c.name + ".v"))

    def gen_case(self):
        rng = self.rng
        c = gen.circuit(rng, n_in=(1, 4), n_gates=(1, 7), max_arity=3, consts=0.15, dead=False, cyclic=rng.random() < 0.1, selfloops=0.05)
        if rng.random() < 0.4:
            gen.add_flops(rng, c)
        if rng.random() < 0.3:
            # Verilog escaped identifiers: the writer sanitises them by renaming, which must happen on its own copy
            n = rng.choice(sorted(c.graph.nodes))
            if c.type(n) not in ("bb_input", "bb_output"):
                c.relabel({n: "\\" + n + "[0]"})
        if rng.random() < 0.3:
            # nodes without an "output" attribute at all, as the fast Verilog reader leaves its inputs and tie cells and as
            # `Circuit(graph=...)` accepts them: a getter that fills in the default writes to its argument
            for n in list(c.graph.nodes):
                if not c.graph.nodes[n].get("output", False) and rng.random() < 0.5:
                    c.graph.nodes[n].pop("output", None)
            self.stats.bump("shape:nodes-without-output-attribute")
        other = gen.circuit(rng, n_in=(1, 3), n_gates=(1, 4), in_names=sorted(c.inputs()))
        return c, other

    def correspond(self, n):
        """nothing to compare with a model here: the static tie is the translator + Lean analysis"""
        self.corr_cases = 0

    def check(self, c, other):
        rng = self.rng
        snap0 = (snapshot(c), snapshot(other))
        fns = self.functions(c, other)
        if (snapshot(c), snapshot(other)) != snap0:
            # building the call list only runs read-only queries (inputs(), outputs(), transitive_fanin/fanout ...)
            self.fail("search", "argument-modified:read-only-queries", "inputs()/outputs()/transitive_fanin() changed the circuit",
                      {"fn": "queries", "c": c_to_json(c)})
            return
        for name, f in fns:
            before = (snapshot(c), snapshot(other))
            ids_before = mutable_ids(c) | mutable_ids(other)
            o, r = call(f)
            self.search_cases += 1
            self.stats.bump(f"{name}:{'ok' if o == 'ok' else 'raised'}")
            case = {"fn": name, "c": c_to_json(c)}
            self.stats.case([name, case["c"]], nontrivial=bool(circuits_in(r)) or o != "ok",
                            sample={"fn": name, "outcome": o} if self.search_cases <= 3 else None)
            if (snapshot(c), snapshot(other)) != before:
                self.fail("search", f"argument-modified:{name}" + ("" if o == "ok" else ":raising"),
                          f"{name} changed its argument ({o})", case)
                return
            for rc in circuits_in(r) if o == "ok" else []:
                shared = mutable_ids(rc) & ids_before
                if rc is c or rc is other or shared:
                    self.fail("search", f"result-aliases-argument:{name}", f"{name}: the result shares {len(shared)} mutable "
                              "container(s) with an argument", case)
                    return
                # editing the result must not change the argument, and vice versa
                rc_snap = snapshot(rc)
                edit_script(rng, rc)
                if (snapshot(c), snapshot(other)) != before:
                    self.fail("search", f"edit-of-result-changes-argument:{name}", f"{name}: editing the result changed the argument", case)
                    return
                c2 = copy.deepcopy(c)
                rc2_before = snapshot(rc)
                edit_script(rng, c)
                if snapshot(rc) != rc2_before:
                    self.fail("search", f"edit-of-argument-changes-result:{name}", f"{name}: editing the argument changed the result", case)
                    return
                # restore the argument for the next function
                c.graph, c.blackboxes, c.name = c2.graph, c2.blackboxes, c2.name
                before = (snapshot(c), snapshot(other))
                ids_before = mutable_ids(c) | mutable_ids(other)

    def search(self, n):
        for i in range(n):
            c, other = self.gen_case()
            self.check(c, other)
            if self.too_many():
                break

    def replay(self, case):
        self.search(10)


if __name__ == "__main__":
    run_main(P)
