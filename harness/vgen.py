"""Random structural-Verilog modules (as ASTs with their intended meaning) and their rendering with random layout."""
from common import cg

OPS2 = ["&", "|", "^", "~^", "^~"]
PRIMS = ["and", "nand", "or", "nor", "xor", "xnor", "buf", "not"]
KEYWORDS = {"module", "endmodule", "input", "output", "wire", "assign"}


class Expr:
    def __init__(self, op, args=(), name=None):
        self.op, self.args, self.name = op, list(args), name   # op: id, const, not, &, |, ^, xnor, mux

    def eval(self, env):
        if self.op == "id":
            return env[self.name]
        if self.op == "const":
            return self.name == "1"
        a = [x.eval(env) for x in self.args]
        if self.op == "not":
            return not a[0]
        if self.op == "&":
            return a[0] and a[1]
        if self.op == "|":
            return a[0] or a[1]
        if self.op == "^":
            return a[0] != a[1]
        if self.op == "xnor":
            return a[0] == a[1]
        if self.op == "mux":
            return a[1] if a[0] else a[2]
        raise ValueError(self.op)

    def ids(self):
        if self.op == "id":
            return {self.name}
        out = set()
        for x in self.args:
            out |= x.ids()
        return out

    # precedence: mux 0 < | 1 < ^ 2 < & 3 < unary 4 < primary 5
    def prec(self):
        return {"mux": 0, "|": 1, "^": 2, "xnor": 2, "&": 3, "not": 4}.get(self.op, 5)

    def render(self, rng, ctx=0):
        """ctx = minimal precedence allowed without parentheses; the grammar: ternary only at top level (never nested
        or parenthesised), unary applies to a primary only"""
        def sp():
            return rng.choice(["", " ", " ", "  "])
        if self.op == "id":
            return self.name
        if self.op == "const":
            return rng.choice({"0": ["1'b0", "1'h0"], "1": ["1'b1", "1'h1"], "x": ["1'bx", "1'hx"]}[self.name])
        if self.op == "not":
            s = rng.choice("~!") + self.args[0].render(rng, 5)
        elif self.op == "mux":
            s = f"{self.args[0].render(rng, 1)}{sp()}?{sp()}{self.args[1].render(rng, 1)}{sp()}:{sp()}{self.args[2].render(rng, 1)}"
        else:
            p = self.prec()
            tok = self.op if self.op != "xnor" else rng.choice(["~^", "^~"])
            # left-assoc: right operand needs strictly higher precedence
            rhs = self.args[1].render(rng, p + 1)
            gap = sp()
            if tok == "^" and rhs.startswith("~") and gap == "":
                gap = " "     # `a^~b` would lex as the xnor token
            s = f"{self.args[0].render(rng, p)}{sp()}{tok}{gap}{rhs}"
        if self.prec() < ctx or (rng.random() < 0.15 and self.op not in ("mux",)):
            return "(" + sp() + s + sp() + ")"
        return s


def synth_name(e):
    """the name verilog.py's transformer gives the gate of an expression (before uniquification)"""
    if e.op == "id":
        return e.name
    if e.op == "const":
        return "tie_" + e.name
    pre = {"not": "not", "&": "and", "|": "or", "^": "xor", "xnor": "xnor", "mux": "mux_o"}[e.op]
    return pre + "_" + "_".join(synth_name(a) for a in e.args)


def subexprs(e):
    out = [e] if e.op not in ("id", "const") else []
    for a in e.args:
        out += subexprs(a)
    return out


def rand_expr(rng, leaves, depth, allow_mux=True, top=True):
    if depth >= 2 and rng.random() < 0.08:
        # a left-associated chain with repeated operands: a ^ b ^ a, a & b & a ...
        op = rng.choice(["^", "^", "xnor", "&", "|"])
        pool = [rng.choice(leaves) for _ in range(2)]
        terms = [Expr("id", name=rng.choice(pool)) if rng.random() < 0.85 else Expr("const", name=rng.choice("01"))
                 for _ in range(rng.randint(3, 4))]
        e = terms[0]
        for t in terms[1:]:
            e = Expr(op, [e, t])
        return e
    if depth <= 0 or rng.random() < 0.25:
        if rng.random() < 0.1:
            return Expr("const", name=rng.choice("01"))
        return Expr("id", name=rng.choice(leaves))
    k = rng.random()
    if top and allow_mux and k < 0.12:
        return Expr("mux", [rand_expr(rng, leaves, depth - 1, False, False) for _ in range(3)])
    if k < 0.3:
        return Expr("not", [rand_expr(rng, leaves, depth - 1, False, False)])
    op = rng.choice(["&", "|", "^", "xnor"])
    return Expr(op, [rand_expr(rng, leaves, depth - 1, False, False), rand_expr(rng, leaves, depth - 1, False, False)])


class Module:
    """statements: ('assign', lhs, Expr) | ('gate', type, inst, out, [Expr operands]) | ('bb', bbname, inst, {pin: net or None})"""

    def __init__(self, rng, blackboxes=(), adversarial=0.0, exprs_in_ports=True, restricted=False, plant=()):
        self.rng = rng
        self.name = rng.choice(["top", "m", "circ_1"])
        ni = rng.randint(1, 4)
        pools = ["a", "b", "c", "d", "in_0", "in_1", "\\esc.a", "\\1x"] if not restricted else ["a", "b", "c", "d", "in_0", "in_1"]
        if not restricted and rng.random() < 0.12:
            # operand names that alias when joined with "_" (and_s_s_s_s_s is both (s, s_s_s_s) and (s_s, s_s_s))
            pools = rng.choice([["s", "s_s", "s_s_s", "s_s_s_s"], ["x", "x_y", "y", "y_z", "z"]])
            ni = min(max(ni, 3), len(pools))
        adv = ["not_a", "and_a_b", "or_a_b", "xor_a_b", "tie_0", "tie_1", "mux_o_a_b_c", "not_b", "g_0", "and_a_b_0", "w_input",
               "x_output", "assign_q"]
        if plant:
            # names left behind by earlier parses in this process: every parse must be independent of them
            adv = list(plant)
        names = []
        while len(names) < ni:
            cand = rng.choice(adv) if rng.random() < adversarial else rng.choice(pools)
            if cand not in names:
                names.append(cand)
        self.inputs = names
        self.stmts = []
        self.defs = {}           # net -> Expr over earlier nets (for evaluation), or ('bbout',)
        self.bbs = list(blackboxes)
        self.bb_insts = []
        self.floating = []
        nets = list(self.inputs)
        ng = rng.randint(1, 7)
        for i in range(ng):
            base = rng.choice(["w", "n", "g", "_n"]) + str(i)       # `_n3`: identifiers may start with an underscore
            net = rng.choice(adv) if rng.random() < adversarial else base
            if adversarial and rng.random() < 0.15:
                # a net named exactly like one of the gates the transformer synthesises for an earlier expression
                subs = [synth_name(x) for st in self.stmts if st[0] == "assign" for x in subexprs(st[2])
                        if "\\" not in synth_name(x)]
                if subs:
                    net = rng.choice(subs)
            if net in nets:
                net = base
            kind = rng.random()
            if self.bbs and kind < 0.3:
                bb = rng.choice(self.bbs)
                pins = {}
                for p in sorted(bb.input_set):
                    r = rng.random()
                    pins[p] = rng.choice(nets) if r < 0.75 else (None if r < 0.9 else "__omit__")
                outs = sorted(bb.output_set)
                pins[outs[0]] = net
                for p in outs[1:]:
                    pins[p] = None if rng.random() < 0.5 else "__omit__"
                inst = f"u{i}"
                self.stmts.append(("bb", bb.name, inst, pins))
                self.bb_insts.append((inst, bb, pins))
                self.defs[net] = ("bbout", inst, outs[0])
            elif kind < 0.55 and not restricted:
                e = rand_expr(rng, nets, rng.randint(1, 3))
                self.stmts.append(("assign", net, e))
                self.defs[net] = e
            elif restricted and kind < 0.35:
                e = Expr("id", name=rng.choice(nets)) if rng.random() < 0.7 else Expr("const", name=rng.choice("01"))
                self.stmts.append(("assign", net, e))
                self.defs[net] = e
            else:
                t = rng.choice(PRIMS)
                k = 1 if t in ("buf", "not") else rng.randint(1, min(4, len(nets)))
                if exprs_in_ports and not restricted and rng.random() < 0.25:
                    ops = [rand_expr(rng, nets, 1, False, False) for _ in range(k)]
                elif restricted and rng.random() < 0.2:
                    ops = [Expr("id", name=x) for x in rng.sample(nets, k)]
                    ops[rng.randrange(k)] = Expr("const", name=rng.choice("01"))
                else:
                    ops = [Expr("id", name=x) for x in rng.sample(nets, k)]
                if t not in ("buf", "not") and rng.random() < 0.12:
                    # an operand given twice (cancels in xor/xnor, harmless elsewhere); fan-in sets would collapse it
                    dup = rng.choice(ops)
                    for _ in range(rng.randint(1, 3)):       # given 2, 3 or 4 times
                        ops.insert(rng.randrange(len(ops) + 1), dup)
                if rng.random() < 0.06 and all(o.op == "id" for o in ops):
                    # a floating wire: read here, declared, never driven (an undriven buffer for both parsers, K38)
                    fl = f"fl{i}"
                    self.floating.append(fl)
                    ops[rng.randrange(len(ops))] = Expr("id", name=fl)
                self.stmts.append(("gate", t, rng.choice([f"g_{i}", f"g_{i}", f"g_{i}", f"U{i}", f"_{i}_"]), net, ops))
                self.defs[net] = ("gate", t, ops)
            nets.append(net)
        cands = [n for n in nets if n not in self.inputs]
        self.outputs = rng.sample(cands, rng.randint(1, min(3, len(cands))))
        if rng.random() < 0.1:
            self.outputs.append(rng.choice(self.inputs))
        self.wires = [n for n in cands if n not in self.outputs] + list(self.floating)

    # ---- meaning
    def free_names(self):
        return list(self.inputs) + list(self.floating) + \
            [f"{inst}.{pin}" for inst, bb, pins in self.bb_insts for pin in sorted(bb.output_set)]

    def evaluate(self, assign):
        """value of every net given inputs and blackbox output pins (by instance.pin)"""
        env = dict((k, v) for k, v in assign.items() if "." not in k or k.startswith("\\"))
        for i in list(self.inputs) + list(self.floating):
            env[i] = assign[i]
        for net, d in self.defs.items():
            if isinstance(d, Expr):
                env[net] = d.eval(env)
            elif d[0] == "bbout":
                env[net] = assign[f"{d[1]}.{d[2]}"]
            else:
                from common import gate_fn
                t, ops = d[1], d[2]
                vals = [o.eval(env) for o in ops]
                if len(vals) == 1 and t in ("and", "or", "xor"):
                    t = "buf"
                elif len(vals) == 1 and t in ("nand", "nor", "xnor"):
                    t = "not"
                env[net] = bool(gate_fn(t, vals))
        return env

    # ---- rendering
    def ident(self, n):
        return n + " " if n.startswith("\\") else n

    def render(self, layout="random", comments=True, order_shuffle=True):
        rng = self.rng
        rnd = layout == "random"

        def sp():
            return rng.choice(["", " ", "  ", "\t", "\n  "]) if rnd else ""

        def nl():
            return rng.choice(["\n", "\n\n", " ", "\n  "]) if rnd else "\n"

        def cm():
            if comments and rnd and rng.random() < 0.15:
                return rng.choice([" // note\n", " /* x */ ", "// input a;\n", " // see /* below\n", " /* a // b */ ",
                                   " // */ x\n"])
            return ""
        ports = [self.ident(p) for p in self.inputs + [o for o in self.outputs if o not in self.inputs]]
        head = f"module{rng.choice([' ', '  ', chr(10)]) if rnd else ' '}{self.name}{sp()}({sp()}{(',' + sp()).join(ports)}{sp()});"
        decls = []
        for grp, kw in ((self.inputs, "input"), (self.outputs, "output"), (self.wires, "wire")):
            grp = list(grp)
            if kw == "output":
                grp = [o for o in grp]
            while grp:
                k = rng.randint(1, len(grp)) if rnd else 1
                decls.append(f"{kw} {(',' + sp()).join(self.ident(x) for x in grp[:k])}{sp()};")
                grp = grp[k:]
        body = []
        for st in self.stmts:
            if st[0] == "assign":
                body.append(f"assign {self.ident(st[1])}{sp()}={sp()}{self.rexpr(st[2])}{sp()};")
            elif st[0] == "gate":
                ops = (',' + (sp() or ' ')).join(self.rexpr(o) for o in st[4])
                body.append(f"{st[1]} {st[2]}{sp()}({sp()}{self.ident(st[3])},{sp() or ' '}{ops}{sp()});")
            else:
                conns = []
                for pin, net in st[3].items():
                    if net == "__omit__":
                        continue
                    conns.append(f".{pin}({self.ident(net) if net else ''})")
                body.append(f"{st[1]} {st[2]}{sp() or ' '}({sp()}{(',' + (sp() or ' ')).join(conns)}{sp()});")
        items = decls + body
        if order_shuffle and rnd and rng.random() < 0.5:
            # use before definition is legal; keep input declarations anywhere
            rng.shuffle(items)
        text = head + nl() + "".join(x + cm() + nl() for x in items) + "endmodule" + (nl() if rnd else "\n")
        return text

    def rexpr(self, e):
        s = e.render(self.rng)
        # escaped identifiers need their trailing blank
        for n in sorted(e.ids(), key=len, reverse=True):
            if n.startswith("\\"):
                s = s.replace(n, n + " ")
        return s


FLOPS = [cg.BlackBox("ff", ["clk", "d"], ["q"]), cg.BlackBox("dffr", ["CK", "D", "R"], ["Q", "QN"])]
# the same module names with other pin sets (as in two cell libraries): each call uses the definitions it was given
FLOPS_ALT = [cg.BlackBox("ff", ["CK", "D"], ["Q"]), cg.BlackBox("dffr", ["clk", "d", "rst", "en"], ["q"])]
