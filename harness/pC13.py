"""C13 — generated arithmetic blocks compute the arithmetic they name; bit helpers."""
import itertools

import gen

from common import cg, c_to_json, canon, canon_c, cdiff, call, free_nodes
from common import simulate as _simulate


class Unsimulable(Exception):
    pass


def simulate(c, asg):
    """a generated block must be a function of its declared inputs: a free node outside `asg` is a violation"""
    try:
        return _simulate(c, asg)
    except KeyError as e:
        raise Unsimulable(str(e)) from None

from framework import Prop, run_main


def bits(x, w):
    return [(x >> i) & 1 == 1 for i in range(w)]


class P(Prop):
    pid = "C13"
    rule = ("adder(w, cin, cout) for w in 1..W x 4 carry options, mux(w), popcount(w), half/full adder: generated circuit "
            "compared exactly with the Lean model; outputs compared with integer arithmetic exhaustively for small w and on "
            "random vectors for larger w (up to 64 in thorough); clog2/int_to_bin/bin_to_int compared with the model and with "
            "their specifications on all i < 2^w for small w and random big values; non-trivial = every case (w>=1)")
    assumptions = []
    budget = {"quick": (12, 10), "thorough": (40, 64)}

    def correspond(self, n):
        drv = self.driver()
        gens = [("half_adder", {}), ("full_adder", {})]
        for w in range(0, n + 1):
            for ci in (False, True):
                for co in (False, True):
                    gens.append(("adder", {"w": w, "carry_in": ci, "carry_out": co}))
            gens.append(("mux", {"w": w}))
            gens.append(("popcount", {"w": w}))
        for fn, args in gens:
            if fn == "adder":
                o, r = call(cg.logic.adder, args["w"], args["carry_in"], args["carry_out"])
            elif fn in ("mux", "popcount"):
                o, r = call(getattr(cg.logic, fn), args["w"])
            else:
                o, r = call(getattr(cg.logic, fn))
            m = drv.ask({"op": "logic", "fn": fn, **args})
            self.corr_cases += 1
            self.stats.case([fn, args], sample={"fn": fn, **args} if self.corr_cases <= 2 else None)
            self.stats.bump("gen:" + fn)
            d = ""
            if m["outcome"] != o:
                d = f"outcome impl={o} model={m['outcome']}"
            elif o == "ok":
                d = cdiff(canon(c_to_json(r), node_order=True), canon(m["c"], node_order=True))
            if d:
                self.fail("corr", "logic:" + fn, f"{fn}{args}: {d}", {"fn": fn, **args})
        # helpers
        rng = self.rng
        edges = [2 ** k + d for k in range(1, 130, 3) for d in (-1, 0, 1)]     # exact integer arithmetic at every size
        for num in list(range(0, 70)) + [rng.randint(1, 2 ** 40) for _ in range(20)] + edges + \
                [rng.randint(2 ** 40, 2 ** 200) for _ in range(10)]:
            o, r = call(cg.utils.clog2, num)
            m = drv.ask({"op": "clog2", "n": num})
            self.corr_cases += 1
            if m["outcome"] != o or (o == "ok" and m["r"] != r):
                self.fail("corr", "clog2", f"clog2({num}): impl={o},{r} model={m}", {"fn": "clog2", "n": num})
        for i, w in [(i, w) for w in range(0, 7) for i in range(0, 2 ** w + 3)] + \
                    [(rng.randint(0, 2 ** 50), rng.randint(0, 60)) for _ in range(30)]:
            for lend in (False, True):
                r = list(cg.utils.int_to_bin(i, w, lend))
                m = drv.ask({"op": "int_to_bin", "i": i, "w": w, "lend": lend})
                self.corr_cases += 1
                if m["r"] != r:
                    self.fail("corr", "int_to_bin", f"int_to_bin({i},{w},{lend}): impl={r} model={m['r']}",
                              {"fn": "int_to_bin", "i": i, "w": w, "lend": lend})
                if r:
                    r2 = cg.utils.bin_to_int(tuple(r), lend)
                    m2 = drv.ask({"op": "bin_to_int", "b": r, "lend": lend})
                    if str(r2) != m2["r"]:
                        self.fail("corr", "bin_to_int", f"bin_to_int({r},{lend}): impl={r2} model={m2['r']}",
                                  {"fn": "bin_to_int", "b": r, "lend": lend})

    # ------------------------------------------------------------------ arithmetic oracles
    def vectors(self, nbits, exhaustive_upto=10, nrand=40):
        if nbits <= exhaustive_upto:
            for x in range(2 ** nbits):
                yield x
        else:
            for _ in range(nrand):
                yield self.rng.getrandbits(nbits)
            yield 0
            yield 2 ** nbits - 1

    def check_lint(self, c, case):
        o, _ = call(cg.lint, c)
        if o != "ok":
            self.fail("search", "generated-not-lint-clean:" + case["fn"], f"{case} is not lint-clean", case)

    def check_adder(self, w, ci, co):
        case = {"fn": "adder", "w": w, "carry_in": ci, "carry_out": co}
        o_, c = call(cg.logic.adder, w, ci, co)
        if o_ != "ok":
            self.fail("search", "adder-raised-" + o_, f"logic.adder({(w, ci, co,)}) raised {o_}", case)
            return
        self.check_lint(c, case)
        nb = 2 * w + (1 if ci else 0)
        for x in self.vectors(nb):
            a, b, cin = x & (2 ** w - 1), (x >> w) & (2 ** w - 1), (x >> (2 * w)) & 1
            asg = {f"a_{i}": bool((a >> i) & 1) for i in range(w)}
            asg.update({f"b_{i}": bool((b >> i) & 1) for i in range(w)})
            if ci:
                asg["cin"] = bool(cin)
            v = simulate(c, asg)
            self.search_cases += 1
            tot = a + b + cin
            got = sum(1 << i for i in range(w) if v[f"out_{i}"])
            if got != tot % (2 ** w) or (co and v["cout"] != bool(tot >> w)):
                self.fail("search", "adder-wrong", f"adder({w},{ci},{co}): {a}+{b}+{cin} gave {got}" +
                          (f" cout={v['cout']}" if co else ""), case)
                return
        if set(c.outputs()) != {f"out_{i}" for i in range(w)} | ({"cout"} if co else set()):
            self.fail("search", "adder-outputs", f"outputs {sorted(c.outputs())}", case)

    def check_mux(self, w):
        case = {"fn": "mux", "w": w}
        o_, c = call(cg.logic.mux, w)
        if o_ != "ok":
            self.fail("search", "mux-raised-" + o_, f"logic.mux({(w,)}) raised {o_}", case)
            return
        self.check_lint(c, case)
        k = cg.utils.clog2(w)
        for x in self.vectors(w + k):
            data, sel = x & (2 ** w - 1), x >> w
            asg = {f"in_{i}": bool((data >> i) & 1) for i in range(w)}
            asg.update({f"sel_{i}": bool((sel >> i) & 1) for i in range(k)})
            v = simulate(c, asg)
            self.search_cases += 1
            want = bool((data >> sel) & 1) if sel < w else False
            if v["out"] != want:
                self.fail("search", "mux-wrong", f"mux({w}): data={data:b} sel={sel} gave {v['out']}", case)
                return

    def check_mux_wide(self, w):
        """widths past a digit boundary of the select-line count (w = 1025 needs sel_10): pairing the product terms with the
        select lines by name order instead of by index would go wrong exactly there"""
        case = {"fn": "mux", "w": w, "wide": True}
        o_, c = call(cg.logic.mux, w)
        if o_ != "ok":
            self.fail("search", "mux-raised-" + o_, f"logic.mux({(w,)}) raised {o_}", case)
            return
        k = cg.utils.clog2(w)
        if set(c.inputs()) != {f"in_{i}" for i in range(w)} | {f"sel_{i}" for i in range(k)} or c.outputs() != {"out"}:
            self.fail("search", "mux-io", f"mux({w}): unexpected interface", case)
            return
        rng = self.rng
        sels = sorted({x for x in [0, 1, 2, 4, 9, 10, 11, 100, 512, 1023, 1024, w - 1, w, 2 ** k - 1] if x < 2 ** k}) + \
            [rng.randrange(2 ** k) for _ in range(12)]
        for sel in sels:
            for polarity in (True, False):
                # only in_sel carries `polarity`, every other data line the opposite
                asg = {f"in_{i}": (not polarity) for i in range(w)}
                if sel < w:
                    asg[f"in_{sel}"] = polarity
                asg.update({f"sel_{i}": bool((sel >> i) & 1) for i in range(k)})
                v = simulate(c, asg)
                self.search_cases += 1
                want = polarity if sel < w else False
                if v["out"] != want:
                    self.fail("search", "mux-wrong", f"mux({w}): sel={sel}, in_sel={polarity}, others={not polarity} gave {v['out']}", case)
                    return

    def check_popcount(self, w):
        case = {"fn": "popcount", "w": w}
        o_, c = call(cg.logic.popcount, w)
        if o_ != "ok":
            self.fail("search", "popcount-raised-" + o_, f"logic.popcount({(w,)}) raised {o_}", case)
            return
        self.check_lint(c, case)
        nout = len(c.outputs())
        for x in self.vectors(w, exhaustive_upto=11):
            asg = {f"in_{i}": bool((x >> i) & 1) for i in range(w)}
            v = simulate(c, asg)
            self.search_cases += 1
            got = sum(1 << i for i in range(nout) if v[f"out_{i}"])
            if got != bin(x).count("1"):
                self.fail("search", "popcount-wrong", f"popcount({w}): {x:b} gave {got}", case)
                return

    def search(self, n):
        try:
            self.search_(n)
        except Unsimulable as e:
            self.fail("search", "generated-block-has-free-node", f"a generated block has the undriven node {e}: its outputs are not a function of its inputs", {"fn": "history"})

    def search_(self, n):
        c = cg.logic.half_adder()
        self.check_lint(c, {"fn": "half_adder"})
        for x, y in itertools.product([False, True], repeat=2):
            v = simulate(c, {"x": x, "y": y})
            if v["s"] != (x != y) or v["c"] != (x and y):
                self.fail("search", "half_adder-wrong", f"{x},{y}", {"fn": "half_adder"})
        c = cg.logic.full_adder()
        self.check_lint(c, {"fn": "full_adder"})
        for x, y, z in itertools.product([False, True], repeat=3):
            v = simulate(c, {"x": x, "y": y, "cin": z})
            if (v["s"], v["cout"]) != ((x + y + z) % 2 == 1, x + y + z >= 2):
                self.fail("search", "full_adder-wrong", f"{x},{y},{z}", {"fn": "full_adder"})
        ws = list(range(1, min(n, 8) + 1)) + [w for w in (13, 16, 23, 32, 47, 64) if w <= n]
        for w in ws:
            for ci in (False, True):
                for co in (False, True):
                    self.check_adder(w, ci, co)
            if w <= 24:
                self.check_mux(w)
            self.check_popcount(w)
        for w in (129, 1025):
            self.check_mux_wide(w)
        # call history: a circuit obtained earlier and edited by the caller must not leak into later calls
        gen.poison_generators(self.rng)
        self.stats.bump("history:poisoned-generator-results")
        self.check_lint(cg.logic.half_adder(), {"fn": "half_adder"})
        ha = cg.logic.half_adder()
        fa = cg.logic.full_adder()
        self.check_lint(fa, {"fn": "full_adder"})
        if ha.inputs() != {"x", "y"} or ha.outputs() != {"c", "s"} or fa.inputs() != {"x", "y", "cin"} or fa.outputs() != {"cout", "s"}:
            self.fail("search", "adder-cell-io", "half/full adder io changed after an earlier result was edited", {"fn": "full_adder"})
        else:
            for x, y in itertools.product([False, True], repeat=2):
                v = simulate(ha, {"x": x, "y": y})
                if (v["s"], v["c"]) != (x != y, x and y):
                    self.fail("search", "half_adder-wrong", f"{x},{y} after an earlier result was edited", {"fn": "half_adder"})
            for x, y, z in itertools.product([False, True], repeat=3):
                v = simulate(fa, {"x": x, "y": y, "cin": z})
                if (v["s"], v["cout"]) != ((x + y + z) % 2 == 1, x + y + z >= 2):
                    self.fail("search", "full_adder-wrong", f"{x},{y},{z} after an earlier result was edited", {"fn": "full_adder"})
        for w in (1, 2, 3):
            for f, args, chk in ((cg.logic.adder, (w, False, True), lambda: self.check_adder(w, False, True)),
                                 (cg.logic.adder, (w, True, False), lambda: self.check_adder(w, True, False)),
                                 (cg.logic.mux, (w,), lambda: self.check_mux(w)),
                                 (cg.logic.popcount, (w,), lambda: self.check_popcount(w))):
                o_, first = call(f, *args)
                if o_ != "ok":
                    chk()       # reports the exception with its own signature
                    continue
                victims = [g for g in first.graph.nodes if first.type(g) in ("and", "or", "xor")]
                if victims:
                    g = victims[0]
                    first.set_type(g, {"and": "or", "or": "and", "xor": "xnor"}[first.type(g)])
                o_, second = call(f, *args)
                self.search_cases += 1
                if o_ != "ok":
                    chk()
                    continue
                if second is first:
                    self.fail("search", "generator-returns-same-object", f"{f.__name__}{args} returned the object of an earlier call",
                              {"fn": f.__name__, "w": w})
                    return
                chk()
        for w in (4, 5, 6, 7):
            self.check_popcount(w)
        # helper specifications
        big = [2 ** k + d for k in range(1, 200) for d in (-1, 0, 1) if 2 ** k + d >= 1]
        for num in list(range(1, 3000)) + big:
            k = cg.utils.clog2(num)
            self.search_cases += 1
            if not (2 ** k >= num and (k == 0 or 2 ** (k - 1) < num)):
                self.fail("search", "clog2-wrong", f"clog2({num})={k}", {"fn": "clog2", "n": num})
                break
        for w in range(0, 11):
            for i in range(2 ** w):
                for lend in (False, True):
                    self.search_cases += 1
                    b = cg.utils.int_to_bin(i, w, lend)
                    if len(b) != max(w, 1 if i == 0 and w == 0 else w) and not (w == 0):
                        self.fail("search", "int_to_bin-width", f"int_to_bin({i},{w},{lend}) has length {len(b)}",
                                  {"fn": "int_to_bin", "i": i, "w": w, "lend": lend})
                        return
                    if cg.utils.bin_to_int(b, lend) != i:
                        self.fail("search", "bin-roundtrip", f"bin_to_int(int_to_bin({i},{w},{lend})) != {i}",
                                  {"fn": "int_to_bin", "i": i, "w": w, "lend": lend})
                        return

    def replay(self, case):
        fn = case["fn"]
        if fn == "adder":
            self.check_adder(case["w"], case["carry_in"], case["carry_out"])
        elif fn == "mux":
            self.check_mux(case["w"])
        elif fn == "popcount":
            self.check_popcount(case["w"])
        else:
            self.search(4)


if __name__ == "__main__":
    run_main(P)
