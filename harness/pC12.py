"""C12 — graph queries agree with their graph-theoretic definitions."""
import itertools

import gen
from common import cg, c_to_json, c_from_json, call, ordered, nx
from framework import Prop, run_main


# ---- brute-force definitions, independent of networkx helpers and of circuit.py
def succs(c, n):
    return {v for u, v in c.graph.edges if u == n}


def preds(c, n):
    return {u for u, v in c.graph.edges if v == n}


def reach_plus(c, n, fwd=True):
    """nodes reachable by a path of length >= 1"""
    nxt = succs if fwd else preds
    seen, todo = set(), list(nxt(c, n))
    while todo:
        x = todo.pop()
        if x not in seen:
            seen.add(x)
            todo.extend(nxt(c, x))
    return seen


def has_cycle(c):
    return any(n in reach_plus(c, n) for n in c.graph.nodes)


def longest_from(c, ns, fwd=True, memo=None):
    """longest path length starting in ns (DAG)"""
    nxt = succs if fwd else preds
    memo = {} if memo is None else memo

    def lp(n):
        if n not in memo:
            memo[n] = max([1 + lp(m) for m in nxt(c, n)], default=0)
        return memo[n]
    return max(lp(n) for n in ns)


def shortest_to_sink(c, ns, fwd=True):
    nxt = succs if fwd else preds
    # minimum over all maximal paths = BFS distance to the nearest node without successors
    dist = {n: 0 for n in ns}
    frontier = list(ns)
    best = None
    while frontier:
        new = []
        for n in frontier:
            if not nxt(c, n):
                best = dist[n] if best is None else min(best, dist[n])
            for m in nxt(c, n):
                if m not in dist:
                    dist[m] = dist[n] + 1
                    new.append(m)
        frontier = new
    return best


class P(Prop):
    pid = "C12"
    rule = ("random circuits-as-graphs: DAGs (chains, trees, reconvergent, wide fan-out, several components), cyclic graphs, "
            "with and without flop blackboxes; every query on single nodes and on node lists, compared with the Lean model and "
            "with brute-force graph-theoretic definitions; non-trivial = graph with >=3 edges")
    assumptions = ["set-iteration order inside the patched run is the model's ordBy(seed) family"]
    budget = {"quick": (120, 150), "thorough": (2500, 3000)}

    def gen_case(self):
        rng = self.rng
        c = gen.circuit(rng, n_in=(1, 5), n_gates=(1, 10), max_arity=4, cyclic=rng.random() < 0.2, consts=0.2,
                        p_out=0.3, selfloops=0.12)
        if rng.random() < 0.25:
            gen.add_flops(rng, c)
        if rng.random() < 0.3:  # second component
            c2 = gen.circuit(rng, n_in=(1, 2), n_gates=(1, 3))
            c.add_subcircuit(c2, "z", strip_io=False)
        return c

    def node_args(self, c):
        rng = self.rng
        nodes = sorted(c.graph.nodes)
        args = [[rng.choice(nodes)] for _ in range(3)]
        args.append(rng.sample(nodes, min(len(nodes), rng.randint(2, 3))))
        return args

    def correspond(self, n):
        drv = self.driver()
        for i in range(n):
            c = self.gen_case()
            cj = c_to_json(c)
            seed = self.rng.randint(0, 5)
            self.stats.case(cj, nontrivial=len(cj["edges"]) >= 3, sample={"c": cj} if i < 1 else None)

            def cmp(q, impl_o, impl_r, extra=None, as_set=True, conv=None):
                req = {"op": "query", "q": q, "c": cj, "seed": seed}
                req.update(extra or {})
                m = drv.ask(req)
                self.corr_cases += 1
                self.stats.bump("query:" + q)
                d = ""
                mo = m["outcome"]
                if mo.startswith("other:NetworkXUnfeasible"):
                    mo = "other:NetworkXUnfeasible"
                if mo != impl_o:
                    d = f"outcome impl={impl_o} model={mo}"
                elif impl_o == "ok":
                    a, b = impl_r, m["r"]
                    if conv:
                        a, b = conv(a), conv(b)
                    elif as_set:
                        a, b = sorted(a), sorted(b)
                    if a != b:
                        d = f"impl={a} model={b}"
                if d:
                    self.fail("corr", "query:" + q, f"{q}({extra}): {d}", {"c": cj, "q": q, "extra": extra, "seed": seed})

            with ordered(seed):
                for ns in self.node_args(c):
                    arg = ns[0] if len(ns) == 1 and self.rng.random() < 0.5 else ns
                    for q in ("fanin", "fanout", "transitive_fanin", "transitive_fanout", "startpoints", "endpoints"):
                        o, r = call(getattr(c, q), arg)
                        cmp(q, o, r, {"ns": ns})
                    for q in ("fanout_depth", "fanin_depth"):
                        for mx in (True, False):
                            o, r = call(getattr(c, q), arg, mx)
                            cmp(q, o, r, {"ns": ns, "maximum": mx}, as_set=False)
                # None selects every start-/endpoint of the circuit, an EMPTY collection selects nothing (K52)
                for arg in ([], None, set()):
                    for q in ("startpoints", "endpoints"):
                        o, r = call(getattr(c, q), arg)
                        cmp(q, o, r, {"ns": None if arg is None else []})
                o, r = call(c.is_cyclic)
                cmp("is_cyclic", o, r, as_set=False)
                o, r = call(lambda: list(c.topo_sort()))
                if o == "ok":
                    # any valid order is fine: compare validity, not identity
                    m = drv.ask({"op": "query", "q": "topo_sort", "c": cj})
                    self.corr_cases += 1
                    if m["outcome"] != "ok" or sorted(m["r"]) != sorted(r):
                        self.fail("corr", "query:topo_sort", f"impl sorted, model says {m['outcome']}", {"c": cj, "q": "topo_sort"})
                else:
                    cmp("topo_sort", o, r)
                o, r = call(cg.props.levelize, c)
                cmp("levelize", o, r, conv=lambda x: sorted(map(list, x.items())) if isinstance(x, dict) else sorted(map(list, x)))
                o, r = call(lambda: list(c.reconvergent_fanout_nodes()))
                cmp("reconvergent_fanout_nodes", o, r)
                if not c.is_cyclic():
                    nd = self.rng.choice(sorted(c.graph.nodes))
                    k = self.rng.randint(1, 4)
                    if c.graph.subgraph(c.transitive_fanin(nd) | {nd}).number_of_edges() <= 18:
                        o, r = call(c.kcuts, nd, k)
                        cmp("kcuts", o, r, {"n": nd, "k": k}, conv=lambda x: sorted(sorted(s) for s in x))
            if self.too_many():
                break

    # ------------------------------------------------------------------ oracle
    def oracle(self, c):
        cj = c_to_json(c)
        nodes = sorted(c.graph.nodes)
        cyc = has_cycle(c)

        def bad(sig, msg, extra=None):
            self.fail("search", sig, msg, {"c": cj, "extra": extra})

        self.search_cases += 1
        if c.is_cyclic() != cyc:
            return bad("is_cyclic", f"is_cyclic={c.is_cyclic()} but cycle exists={cyc}")
        sp_all = {n for n in nodes if c.type(n) in ("input", "bb_output")}
        ep_all = {n for n in nodes if c.is_output(n) or c.type(n) == "bb_input"}
        for ns in self.node_args(c):
            self.search_cases += 1
            if c.fanin(ns) != set().union(*[preds(c, n) for n in ns]) or c.fanout(ns) != set().union(*[succs(c, n) for n in ns]):
                return bad("fanin-fanout", f"fanin/fanout of {ns}")
            tfi = set().union(*[reach_plus(c, n, False) - {n} for n in ns])
            tfo = set().union(*[reach_plus(c, n, True) - {n} for n in ns])
            if c.transitive_fanin(ns) != tfi or c.transitive_fanout(ns) != tfo:
                return bad("transitive", f"transitive fanin/fanout of {ns}: {sorted(c.transitive_fanin(ns))} vs {sorted(tfi)}")
            if c.startpoints(ns) != (set(ns) | tfi) & sp_all or c.endpoints(ns) != (set(ns) | tfo) & ep_all:
                return bad("startpoints-endpoints", f"startpoints/endpoints of {ns}")
            for fwd, q in ((True, c.fanout_depth), (False, c.fanin_depth)):
                o, r = call(q, ns, True)
                if cyc:
                    if o != "ValueError":
                        return bad("depth-cyclic", f"depth on a cyclic circuit gave {o}")
                    continue
                want = longest_from(c, ns, fwd)
                if o != "ok" or r != want:
                    return bad("depth-max" + (":fwd" if fwd else ":bwd"),
                               f"{'fanout' if fwd else 'fanin'}_depth({ns}) = {r if o == 'ok' else o}, longest path = {want}", {"ns": ns})
        if c.startpoints() != sp_all or c.endpoints() != ep_all:
            return bad("startpoints-endpoints-all", "startpoints()/endpoints()")
        if c.startpoints([]) != set() or c.endpoints(set()) != set():
            return bad("startpoints-endpoints-empty", "startpoints([]) / endpoints(set()): the start-/endpoints among NO nodes "
                       f"are {sorted(c.startpoints([]))[:4]} / {sorted(c.endpoints(set()))[:4]}")
        if not cyc:
            order = list(c.topo_sort())
            pos = {n: i for i, n in enumerate(order)}
            if sorted(order) != nodes or any(pos[u] >= pos[v] for u, v in c.graph.edges):
                return bad("topo_sort", f"invalid topological order {order}")
            o, lv = call(cg.props.levelize, c)
            undriven = [n for n in nodes if not preds(c, n) and c.type(n) not in ("input", "0", "1", "x")]
            if o != "ok":
                return bad("levelize-raised-" + o + (":source-not-input" if undriven else ""),
                           f"levelize raised {o} (fan-in-free non-input nodes: {undriven})")
            for n in nodes:
                if lv[n] != longest_from(c, [n], False):
                    return bad("levelize", f"level of {n} = {lv[n]} != longest path to a source {longest_from(c, [n], False)}")
            # kcuts: every cut other than {n} has <= k nodes and separates n from all sources
            nd = self.rng.choice(nodes)
            k = self.kcut_k if getattr(self, "kcut_k", None) is not None else self.rng.randint(1, 4)
            cone = c.transitive_fanin(nd) | {nd}
            if c.graph.subgraph(cone).number_of_edges() > 18:
                cuts, o = [], "ok"      # cut enumeration is exponential on dense cones (lists of cuts keep duplicates): not the property
            else:
                o, cuts = call(c.kcuts, nd, k)
            if o != "ok":
                return bad("kcuts-raised", f"kcuts raised {o}")
            sources = [s for s in nodes if not preds(c, s)]
            for cut in cuts:
                if cut == {nd}:
                    continue
                if len(cut) > k:
                    return bad("kcuts-size" + (":k=0" if k == 0 else ""), f"cut {sorted(cut)} larger than {k}")
                g2 = c.graph.copy()
                g2.remove_nodes_from(cut)
                for s in sources:
                    if s in g2 and nd in g2 and nx.has_path(g2, s, nd):
                        return bad("kcuts-not-separating", f"cut {sorted(cut)} of {nd} leaves a path from source {s}")
        # reconvergent fanout
        want = set()
        for n in nodes:
            fo = sorted(succs(c, n))
            for a, b in itertools.combinations(fo, 2):
                if ({a} | reach_plus(c, a)) & ({b} | reach_plus(c, b)):
                    want.add(n)
        got = set(c.reconvergent_fanout_nodes())
        if got != want:
            missed = want - got
            sig = "reconvergent"
            if missed and not (got - want):
                sig = "reconvergent-missed:branch-is-meeting-point"
            return bad(sig, f"reconvergent_fanout_nodes = {sorted(got)}, definition gives {sorted(want)}")

    def corpus(self):
        # K6: n -> a, n -> b, b -> a
        c = cg.Circuit()
        c.add("n", "input")
        c.add("b", "buf", fanin="n")
        c.add("a", "and", fanin=["n", "b"], output=True)
        self.oracle(c)
        # K26: kcuts with k = 0 (single-fan-in nodes pass their fan-in's cuts through unfiltered)
        c = cg.Circuit()
        c.add("a", "input")
        c.add("b", "buf", fanin="a", output=True)
        self.kcut_k = 0
        for _ in range(4):
            self.oracle(c)
        self.kcut_k = None
        # K6b: levelize with a blackbox output
        c = cg.Circuit()
        c.add("o", "buf", output=True)
        c.add_blackbox(cg.BlackBox("ff", [], ["q"]), "u", {"q": "o"})
        self.oracle(c)

    def search(self, n):
        for i in range(n):
            c = self.gen_case()
            self.oracle(c)
            self.again_after_edit(c, lambda: self.oracle(c), p=0.2)
            if i % 4 == 0:
                self.requery_after_edit(c)
            if self.too_many():
                break

    def requery_after_edit(self, c):
        """the same Circuit object is queried again after its wiring changed through APIs other than connect/disconnect:
        every answer must describe the graph as it is now (no stale cache)"""
        rng = self.rng
        gates = [g for g in c.graph.nodes if c.type(g) in gen.MULTI]
        if not gates:
            return
        kind = rng.choice(["fill", "subcircuit", "relabel", "graph"])
        try:
            if kind == "fill":
                # a blackbox in a feedback path, filled with a buffer: closes a loop
                g = rng.choice(gates)
                bb = cg.BlackBox("zb", ["i"], ["o"])
                w = c.add("zz_w", "buf", uid=True)
                c.add_blackbox(bb, "zz_u", {"i": g, "o": w})
                c.connect(w, g)
                child = cg.Circuit("buf1")
                child.add("i", "input")
                child.add("o", "buf", fanin="i", output=True)
                c.fill_blackbox("zz_u", child)
            elif kind == "subcircuit":
                ring = cg.Circuit("ring")
                ring.add("p", "not")
                ring.add("q", "not", fanin="p")
                ring.connect("q", "p")
                c.add_subcircuit(ring, "zz_r", strip_io=False)
            elif kind == "relabel":
                # merge a gate into one of its descendants' names (relabel onto an existing node)
                g = rng.choice(gates)
                desc = sorted(c.transitive_fanout(g) & set(gates))
                if desc:
                    c.relabel({g: rng.choice(desc)})
            else:
                g, h = rng.choice(gates), rng.choice(gates)
                if g != h:
                    c.graph.add_edge(g, h)
        except Exception:  # noqa: BLE001
            return
        self.oracle(c)

    def replay(self, case):
        self.oracle(c_from_json(case["c"]))


if __name__ == "__main__":
    run_main(P)
