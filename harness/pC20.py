"""C20 — lint decides well-formedness; library outputs pass it."""
import itertools

import gen
from common import cg, c_to_json, call, ordered
from framework import Prop, run_main

SUPPORTED = ["buf", "and", "or", "xor", "not", "nand", "nor", "xnor", "0", "1", "x", "input", "bb_input", "bb_output"]
FLAGS = [dict(fail_fast=ff, unloaded=u, undriven=d, single_input_gates=s)
         for ff, u, d, s in itertools.product([True, False], repeat=4)]


def violates(c, fl):
    """the documented rule list, written independently of utils.lint (order-free)"""
    g = c.graph
    for n in g.nodes:
        t = g.nodes[n].get("type")
        if t is None or t not in SUPPORTED:
            return f"node {n} without supported type"
        fi = list(g.predecessors(n))
        fo = list(g.successors(n))
        if "." in n and n.split(".")[0] not in c.blackboxes:
            return f"dotted name {n} without instance"
        if t in ("input", "0", "1", "x", "bb_output") and fi:
            return f"fan-in on {t} {n}"
        if t in ("buf", "not", "bb_input") and len(fi) > 1:
            return f">1 fan-in on {t} {n}"
        if t == "bb_output":
            if len(fo) > 1:
                return f"bb_output {n} with >1 load"
            if any(g.nodes[f].get("type") != "buf" for f in fo):
                return f"bb_output {n} with non-buf load"
        if fl["undriven"] and t in ("buf", "not", "bb_input", "and", "nand", "or", "nor", "xor", "xnor") and not fi:
            return f"undriven {n}"
        if fl["single_input_gates"] and t in ("and", "nand", "or", "nor", "xor", "xnor") and len(fi) < 2:
            return f"single-input {n}"
        if fl["unloaded"] and not g.nodes[n].get("output", False) and not fo:
            return f"unloaded {n}"
    for inst, bb in c.blackboxes.items():
        for p in bb.inputs():
            pin = f"{inst}.{p}"
            if pin not in g.nodes or g.nodes[pin].get("type") != "bb_input":
                return f"pin {pin} missing/mistyped"
        for p in bb.outputs():
            pin = f"{inst}.{p}"
            if pin not in g.nodes or g.nodes[pin].get("type") != "bb_output":
                return f"pin {pin} missing/mistyped"
    return None


def malform(rng, c):
    """apply 0-2 random ill-formed edits directly on the graph; returns list of edit tags"""
    g = c.graph
    tags = []
    for _ in range(rng.choice([0, 1, 1, 2])):
        nodes = list(g.nodes)
        if not nodes:
            break
        k = rng.choice(["notype", "badtype", "edge", "edge", "edge", "dot", "rmpin", "retype_pin", "rmedge",
                        "noout", "retype", "swap_pin", "swap_pin", "inout_pin"])
        n = rng.choice(nodes)
        if k == "notype":
            g.nodes[n].pop("type", None)
        elif k == "badtype":
            g.nodes[n]["type"] = rng.choice(["mux", "", "AND", "bb_ouptut"])
        elif k == "edge":
            m = rng.choice(nodes)
            g.add_edge(m, n)
        elif k == "dot":
            g.add_node(rng.choice(["u9.p", "zz.q", "a.b.c"]), type=rng.choice(["buf", "bb_input", "input"]), output=False)
        elif k == "rmpin":
            pins = [x for x in nodes if "." in x]
            if pins:
                g.remove_node(rng.choice(pins))
        elif k == "retype_pin":
            pins = [x for x in nodes if "." in x]
            if pins:
                g.nodes[rng.choice(pins)]["type"] = rng.choice(["buf", "bb_input", "bb_output", "input"])
        elif k == "swap_pin":
            # a pin node that carries the OTHER pin type and is otherwise legally wired for it (no wires at all): the only
            # rule it breaks is "missing or mistyped blackbox pins"
            pins = [x for x in nodes if g.nodes[x].get("type") in ("bb_input", "bb_output")]
            if pins:
                x = rng.choice(pins)
                g.nodes[x]["type"] = "bb_output" if g.nodes[x]["type"] == "bb_input" else "bb_input"
                for e in list(g.in_edges(x)) + list(g.out_edges(x)):
                    g.remove_edge(*e)
        elif k == "inout_pin":
            # a description that lists one pin name in BOTH roles (an inout pad): whatever type the pin node has, it is
            # mistyped for one of the two roles
            insts = [i for i, b in c.blackboxes.items() if b.inputs()]
            if insts:
                i = rng.choice(sorted(insts))
                b = c.blackboxes[i]
                p = rng.choice(sorted(b.inputs()))
                c.blackboxes[i] = cg.BlackBox(b.name, sorted(b.inputs()), sorted(b.outputs() | {p}))
                if rng.random() < 0.3 and f"{i}.{p}" in g.nodes:
                    g.nodes[f"{i}.{p}"]["type"] = "bb_output"
                    for e in list(g.in_edges(f"{i}.{p}")):
                        g.remove_edge(*e)
        elif k == "rmedge":
            es = list(g.edges)
            if es:
                g.remove_edge(*rng.choice(es))
        elif k == "noout":
            g.nodes[n].pop("output", None)
        elif k == "retype":
            g.nodes[n]["type"] = rng.choice(SUPPORTED)
        tags.append(k)
    return tags


class P(Prop):
    pid = "C20"
    rule = ("random circuits (1-5 inputs, 1-10 gates, all gate types/arity, constants incl. x, optional flop "
            "blackboxes) with 0-2 ill-formed edits made directly on the networkx graph (missing/unsupported type, "
            "illegal edge, dotted name, removed/mistyped pin), each under all 16 flag combinations; a case is "
            "non-trivial when it has >=1 gate; distinct = distinct canonical (graph, flags)")
    assumptions = ["set-iteration order in the patched run is the model's ordBy(seed) family",
                   "oracle `violates` re-implements the documented rule list independently of utils.lint"]
    budget = {"quick": (300, 300), "thorough": (2500, 2500)}

    def gen_case(self):
        rng = self.rng
        c = gen.circuit(rng, allow_x=True, consts=0.3, adversarial=0.1, selfloops=0.08)
        if rng.random() < 0.4:
            gen.add_flops(rng, c, connect_all=rng.random() < 0.6)
        if rng.random() < 0.35:
            # a source-only blackbox (tie cell / ROM): no input pins, one output pin driving a buf
            b = c.add("srcbuf", "buf", output=rng.random() < 0.7, uid=True)
            c.add_blackbox(cg.BlackBox("src", [], ["y"]), "src0", {"y": b})
            if rng.random() < 0.5:
                for n in list(c.graph.nodes):
                    if c.type(n) == "bb_input":
                        c.set_output(n)
        if rng.random() < 0.3:
            # make everything loaded, so that `unloaded=True` can come out clean
            for n in list(c.graph.nodes):
                if not c.fanout(n) and c.type(n) != "bb_input":
                    c.set_output(n)
        tags = malform(rng, c) if rng.random() < 0.75 else []
        return c, tags

    def corpus(self):
        # K19 witnesses: fan-in on bb_output / x; type-less node with fail_fast=False
        c = cg.Circuit()
        c.add("a", "input")
        c.add("k", "x")
        c.graph.add_edge("a", "k")
        self.oracle(c, FLAGS[0], ["corpus-x-fanin"])
        c = cg.Circuit()
        c.add("a", "input")
        c.add("o", "buf", output=True)
        c.add_blackbox(cg.BlackBox("ff", ["d"], ["q"]), "u", {"d": "a", "q": "o"})
        c.graph.add_edge("a", "u.q")
        self.oracle(c, FLAGS[0], ["corpus-bbout-fanin"])
        c = cg.Circuit()
        c.graph.add_node("n")
        for fl in FLAGS:
            self.oracle(c, fl, ["corpus-notype"])

    def correspond(self, n):
        drv = self.driver()
        for i in range(n):
            c, tags = self.gen_case()
            cj = c_to_json(c)
            seed = self.rng.randint(0, 5)
            for fl in FLAGS:
                with ordered(seed):
                    o_impl, _ = call(cg.lint, c, **fl)
                r = drv.ask({"op": "lint", "c": cj, "seed": seed, **fl})
                self.corr_cases += 1
                self.stats.case([cj, fl], nontrivial=len(cj["nodes"]) > 1,
                                sample={"circuit": cj, "flags": fl, "edits": tags, "impl": o_impl} if i < 2 and fl == FLAGS[0] else None)
                for t in tags or ["wellformed"]:
                    self.stats.bump("edit:" + t)
                self.stats.bump("outcome:" + o_impl)
                if r["outcome"] != o_impl:
                    self.fail("corr", "lint-outcome", f"lint outcome impl={o_impl} model={r['outcome']} flags={fl}",
                              {"c": cj, "flags": fl, "seed": seed, "impl": o_impl, "model": r["outcome"]})
            if self.too_many():
                break

    def oracle(self, c, fl, tags):
        cj = c_to_json(c)
        want = violates(c, fl)
        o, _ = call(cg.lint, c, **fl)
        self.search_cases += 1
        self.stats.bump("search:" + ("violating" if want else "clean"))
        if (o == "ValueError") != (want is not None) or o not in ("ok", "ValueError"):
            if o == "KeyError":
                sig = "lint-keyerror"
            elif want and o == "ok":
                sig = "lint-missed:" + want.split(" ")[0]
            else:
                sig = "lint-spurious"
            self.fail("search", sig, f"lint -> {o}, documented rules say: {want or 'clean'}; flags={fl}",
                      {"c": cj, "flags": fl, "impl": o, "expected": want, "edits": tags})

    def search(self, n):
        for i in range(n):
            c, tags = self.gen_case()
            for fl in self.rng.sample(FLAGS, 4):
                self.oracle(c, fl, tags)
            if self.too_many():
                break
        self.library_outputs(max(10, n // 5))

    def library_outputs(self, n):
        """second half of the statement: what the library builds from lint-clean arguments is lint-clean"""
        rng = self.rng
        for w in range(1, 6):
            for name, c in [("adder", cg.logic.adder(w)), ("adder_cio", cg.logic.adder(w, True, True)),
                            ("mux", cg.logic.mux(w)), ("popcount", cg.logic.popcount(w))]:
                self.lib_check(name, c, {"w": w})
        self.lib_check("half_adder", cg.logic.half_adder(), {})
        self.lib_check("full_adder", cg.logic.full_adder(), {})
        # call history: the caller edits blocks it obtained earlier (in place, as their owner may); what the generators
        # build afterwards must still be lint-clean
        gen.poison_generators(rng)
        self.stats.bump("history:poisoned-generator-results")
        for w in range(1, 5):
            for name, c in [("adder", cg.logic.adder(w)), ("adder_cio", cg.logic.adder(w, True, True)),
                            ("mux", cg.logic.mux(w)), ("popcount", cg.logic.popcount(w))]:
                self.lib_check(name, c, {"w": w, "history": "after earlier results were edited"})
        self.lib_check("half_adder", cg.logic.half_adder(), {"history": "after an earlier result was edited"})
        self.lib_check("full_adder", cg.logic.full_adder(), {"history": "after an earlier result was edited"})
        # K47 (known): a dotted node that is not a pin, next to a recorded instance of that prefix, survives strip_blackboxes
        k47 = cg.Circuit("k47")
        k47.add("a", "input")
        k47.add("o", "buf", output=True)
        k47.add_blackbox(cg.BlackBox("ff", ["d"], ["q"]), "u", {"d": "a", "q": "o"})
        k47.add("u.x", "input")
        k47.add("p", "buf", fanin="u.x", output=True)
        if call(cg.lint, k47)[0] == "ok":
            o, r = call(cg.tx.strip_blackboxes, k47)
            if o == "ok":
                pins = {f"{i}.{p}" for i, b in k47.blackboxes.items() for p in b.inputs() | b.outputs()}
                dotted = [x for x in r.graph.nodes if "." in x]
                self.lib_check("strip_blackboxes", r, {"arg": c_to_json(k47)},
                               tag=":dotted-non-pin" if dotted and not set(dotted) & pins else "")
        for i in range(n):
            c = gen.circuit(rng, dead=True, out_inputs=0.3 if i % 2 else 0.08)
            cj = c_to_json(c)
            outs, ins, nodes = sorted(c.outputs()), sorted(c.inputs()), sorted(c.graph.nodes)
            st = {}
            if outs and ins and rng.random() < 0.7:
                k, v = rng.choice(outs), rng.choice(ins)
                if k != v:
                    st = {k: v}
            nd = rng.choice(nodes)
            seq = gen.circuit(rng, n_in=(1, 3), n_gates=(1, 5), dead=False, out_inputs=0.2)
            if rng.random() < 0.25:
                # a flop type with a second output whose net is loaded (K41)
                gen.add_flops(rng, seq, bb=cg.BlackBox("ffq", ["clk", "d"], ["q", "qn"]))
                for inst in list(seq.blackboxes):
                    g = [x for x in seq.graph.nodes if seq.type(x) in gen.MULTI]
                    if g:
                        w = seq.add("zz_qn", "buf", uid=True)
                        seq.connect(f"{inst}.qn", w)
                        seq.connect(w, rng.choice(g))
            else:
                gen.add_flops(rng, seq)
            extra_loaded = any(seq.fanout(f"{i}.qn") for i, b in seq.blackboxes.items() if "qn" in b.output_set)
            cyc = gen.circuit(rng, n_in=(1, 3), n_gates=(2, 6), dead=False, cyclic=True)
            def compose():
                """fully connected composition: every child input fed from a parent net, every child output drives a buffer"""
                child = gen.circuit(rng, n_in=(1, 3), n_gates=(1, 4), dead=False, out_inputs=0.4)
                p = c.copy()
                conns = {}
                nets = sorted(p.graph.nodes)
                for pin in sorted(child.inputs()):
                    conns[pin] = rng.choice(nets)
                for pin in sorted(child.outputs() - child.inputs()):
                    conns[pin] = p.add(f"zz_from_{pin}", "buf", uid=True, output=True)
                p.add_subcircuit(child, "zz_u", conns)
                return p

            def ru():
                d = c.copy()
                d.remove_unloaded(inputs=False)
                return d

            def fill():
                """add_blackbox + fill_blackbox, fully connected"""
                child = gen.circuit(rng, n_in=(1, 3), n_gates=(1, 4), dead=False)
                if child.inputs() & child.outputs():
                    return c.copy()
                p = c.copy()
                bb = cg.BlackBox("zz_t", sorted(child.inputs()), sorted(child.outputs()))
                conns = {pin: rng.choice(sorted(p.graph.nodes)) for pin in sorted(child.inputs())}
                conns.update({pin: p.add(f"zz_f_{pin}", "buf", uid=True, output=True) for pin in sorted(child.outputs())})
                p.add_blackbox(bb, "zz_b", conns)
                p.fill_blackbox("zz_b", child)
                return p

            def ru_seq():
                d = seq.copy()
                inst = sorted(d.blackboxes)[0]
                qb = d.add("zz_qd", "buf", uid=True)
                if not d.fanout(f"{inst}.q"):
                    d.connect(f"{inst}.q", qb)
                else:
                    # a second flop whose q pin feeds only dead logic
                    d.add_blackbox(d.blackboxes[inst], "zz_ffd", {"d": sorted(d.inputs())[0], "clk": "clk", "q": qb})
                d.add("zz_dead", "not", fanin=[qb], uid=True)
                d.remove_unloaded()
                return d

            for name, f in [("add_subcircuit", compose),
                            ("fill_blackbox", fill),
                            ("remove_unloaded", ru),
                            ("remove_unloaded_seq", ru_seq),
                            ("strip_blackboxes", lambda: cg.tx.strip_blackboxes(seq, rng.choice([None, "clk", ["clk"]]))),
                            ("limit_fanin", lambda: cg.tx.limit_fanin(c, rng.choice([2, 3]))),
                            ("limit_fanout", lambda: cg.tx.limit_fanout(c, rng.choice([2, 3]))),
                            ("miter", lambda: cg.tx.miter(c)),
                            ("ternary", lambda: cg.tx.ternary(c)[0]),
                            ("copy", lambda: c.copy()),
                            ("relabel", lambda: cg.tx.relabel(c, {nd: nd + "_r"})),
                            ("unroll", lambda: cg.tx.unroll(c, rng.randint(1, 3), st)[0]),
                            ("sequential_unroll", lambda: cg.tx.sequential_unroll(seq, rng.randint(1, 2), "d", "q", ["clk"],
                                                                                   rng.random() < 0.5)[0]),
                            ("acyclic_unroll", lambda: cg.tx.acyclic_unroll(cyc)),
                            ("insert_registers", lambda: cg.tx.insert_registers(c, rng.randint(1, 2))),
                            ("sensitization_transform", lambda: cg.tx.sensitization_transform(c, nd)),
                            ("sensitivity_transform", lambda: cg.tx.sensitivity_transform(c, nd)),
                            ("verilog_roundtrip", lambda: cg.io.verilog_to_circuit(cg.io.circuit_to_verilog(c), c.name)),
                            ("verilog_roundtrip_fast", lambda: cg.io.verilog_to_circuit(cg.io.circuit_to_verilog(c), c.name, fast=True)),
                            ("bench_roundtrip", lambda: cg.io.bench_to_circuit(cg.io.circuit_to_bench(c), c.name))]:
                o, r = call(f)
                if o == "ok":
                    self.lib_check(name, r, {"arg": cj if name != "sequential_unroll" else c_to_json(seq)},
                                   tag=":loaded-extra-output" if name == "sequential_unroll" and extra_loaded else "")

    def lib_check(self, name, c, arg, tag=""):
        self.search_cases += 1
        self.stats.bump("lib:" + name)
        o, _ = call(cg.lint, c)
        if o != "ok":
            self.fail("search", "lib-not-lint-clean:" + name + tag, f"{name} produced a circuit that lint rejects ({o})",
                      {"fn": name, "arg": arg, "result": c_to_json(c)})

    def replay(self, case):
        from common import c_from_json
        if "flags" in case:
            self.oracle(c_from_json(case["c"]), case["flags"], ["replay"])


if __name__ == "__main__":
    run_main(P)
