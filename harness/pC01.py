"""C01 — Tseitin CNF / solve() is exact for circuit semantics."""
import itertools

import gen
from common import (cg, c_to_json, c_from_json, call, ordered, is_consistent, all_consistent, free_nodes, simulate,
                    all_assignments)
from framework import Prop, run_main


def key_json(k):
    if isinstance(k, tuple):
        return [key_json(x) for x in k]
    return k


def brute_sat(clauses, nv, limit=22):
    if nv > limit:
        return None
    for bits in itertools.product([False, True], repeat=nv):
        if all(any(bits[abs(l) - 1] == (l > 0) for l in cl) for cl in clauses):
            return True
    return False


class P(Prop):
    pid = "C01"
    rule = ("random lint-clean circuits (1-5 inputs, 1-9 gates, all eight gate types, 1-input multi-input gates, 3-5 input "
            "parity gates forced often, constants, flop blackboxes, cyclic variants, adversarial names that look like the "
            "encoder's auxiliaries); correspondence compares the emitted clause list and IDPool numbering exactly; the "
            "search compares solve() under random partial assumptions with brute-force enumeration of consistent "
            "valuations; non-trivial = circuit with a >=2-input gate; distinct = distinct (circuit, assumptions)")
    assumptions = ["pysat is absent: harness/shims/pysat stands in (IDPool/CNF/DPLL); every SAT model is re-checked against "
                   "the clauses, every UNSAT answer by brute force when nv<=22",
                   "set-iteration order inside the patched run is the model's ordBy(seed) family"]
    budget = {"quick": (400, 300), "thorough": (3000, 2500)}

    def gen_case(self, cyclic_ok=True):
        rng = self.rng
        types = gen.GATES if rng.random() < 0.6 else ["xor", "xnor", "and", "nor", "buf", "not"]
        adv = rng.choice([0.0, 0.0, 0.3, 0.6])
        c = gen.circuit(rng, n_in=(1, 5), n_gates=(1, 9), types=types, max_arity=5, adversarial=adv,
                        cyclic=cyclic_ok and rng.random() < 0.2, consts=0.2,
                        selfloops=0.12 if cyclic_ok else 0.0)
        if rng.random() < 0.25:
            gen.add_flops(rng, c, connect_all=True)
        return c

    # ---------------------------------------------------------------- correspondence: clause list + numbering
    def correspond(self, n):
        drv = self.driver()
        for i in range(n):
            c = self.gen_case()
            cj = c_to_json(c)
            seed = self.rng.randint(0, 7)
            with ordered(seed):
                o, r = call(cg.sat.cnf, c)
            m = drv.ask({"op": "cnf", "c": cj, "seed": seed})
            self.corr_cases += 1
            self.stats.case(cj, nontrivial=any(len(list(c.graph.predecessors(x))) >= 2 for x in c.graph.nodes),
                            sample={"c": cj, "seed": seed} if i < 2 else None)
            for x in c.graph.nodes:
                self.stats.bump(f"gate:{c.type(x)}/{min(c.graph.in_degree(x), 4)}")
            d = ""
            if m["outcome"] != o:
                d = f"outcome impl={o} model={m['outcome']}"
            elif o == "ok":
                formula, variables = r
                pool = [key_json(variables.id2obj[k]) for k in sorted(variables.id2obj)]
                obj = {k: key_json(v) for k, v in variables.id2obj.items()}
                impl_cl = [[[l > 0, obj[abs(l)]] for l in cl] for cl in formula.clauses]
                if pool != m["pool"]:
                    d = f"IDPool numbering differs: impl={pool} model={m['pool']}"
                elif impl_cl != m["clauses"]:
                    k = next(j for j in range(max(len(impl_cl), len(m["clauses"])))
                             if j >= len(impl_cl) or j >= len(m["clauses"]) or impl_cl[j] != m["clauses"][j])
                    d = (f"clause {k} differs: impl={impl_cl[k] if k < len(impl_cl) else None} "
                         f"model={m['clauses'][k] if k < len(m['clauses']) else None}")
            if d:
                self.fail("corr", "cnf", d, {"c": cj, "seed": seed})
            # sat.solve against the model run with the proved-complete DPLL instance of the solver contract
            nodes = sorted(c.graph.nodes)
            for _ in range(2):
                k = self.rng.randint(0, min(3, len(nodes)))
                asm = {x: self.rng.random() < 0.5 for x in self.rng.sample(nodes, k)}
                if self.rng.random() < 0.1:
                    asm["zz_missing"] = True
                o, r = call(cg.sat.solve, c, asm)
                m = drv.ask({"op": "solve", "c": cj, "assumptions": [[a, b] for a, b in asm.items()], "seed": seed})
                self.corr_cases += 1
                d = ""
                if m["outcome"] != o:
                    d = f"outcome impl={o} model={m['outcome']}"
                elif o == "ok" and bool(r) != m["sat"]:
                    d = f"impl {'SAT' if r else 'UNSAT'}, model {'SAT' if m['sat'] else 'UNSAT'}"
                elif o == "ok" and m["sat"] and not m["consistent"]:
                    d = "the model's solution is not a consistent valuation"
                if d:
                    self.fail("corr", "solve", f"solve under {asm}: {d}", {"c": cj, "seed": seed, "assumptions": asm})
            if self.too_many():
                break

    # ---------------------------------------------------------------- search: solve vs brute force
    def oracle(self, c, assumptions_list=None, tag=""):
        cj = c_to_json(c)
        nodes = list(c.graph.nodes)
        if len(nodes) > 15:
            return
        cons = all_consistent(c, 15)
        rng = self.rng
        if assumptions_list is None:
            assumptions_list = [{}]
            for _ in range(5):
                k = rng.randint(1, min(4, len(nodes)))
                assumptions_list.append({x: rng.random() < 0.5 for x in rng.sample(nodes, k)})
            # every single-input assignment pattern for small input counts: catches "half the inputs UNSAT"
            sp = sorted(c.startpoints())
            if len(sp) <= 4:
                assumptions_list += list(all_assignments(sp))
        for A in assumptions_list:
            self.search_cases += 1
            o, res = call(cg.sat.solve, c, A)
            case = {"c": cj, "assumptions": A}
            agree = [v for v in cons if all(v[k] == bool(b) for k, b in A.items())]
            if o != "ok":
                self.fail("search", f"solve-raised-{o}", f"solve raised {o} on a lint-clean circuit", case)
                return
            if res is False:
                if agree:
                    self.fail("search", "solve-false-but-consistent-exists" + self.alias_tag(c),
                              f"solve returned False but {len(agree)} consistent valuation(s) agree with A, e.g. {agree[0]}",
                              case)
                    return
            else:
                if set(res) != set(nodes):
                    self.fail("search", "solve-keys", f"result keys {sorted(res)} != nodes", case)
                    return
                if any(res[k] != bool(b) for k, b in A.items()):
                    self.fail("search", "solve-ignores-assumption", f"result {res} disagrees with A", case)
                    return
                if not is_consistent(c, res):
                    self.fail("search", "solve-inconsistent" + self.alias_tag(c), f"returned valuation is not consistent: {res}", case)
                    return
        # acyclic: each startpoint assignment extends to exactly one consistent valuation
        if not c.is_cyclic():
            fr = free_nodes(c)
            if len(fr) <= 6:
                for a in all_assignments(fr):
                    self.search_cases += 1
                    o, res = call(cg.sat.solve, c, a)
                    want = simulate(c, a)
                    if o != "ok" or res is False or res != want:
                        self.fail("search", "acyclic-extension" + self.alias_tag(c),
                                  f"solve under {a} gave {res if o == 'ok' else o}, simulation gives {want}",
                                  {"c": cj, "assumptions": a})
                        return

    @staticmethod
    def alias_tag(c):
        """does a node name coincide with a string the pre-fix encoder would use for an auxiliary?"""
        names = set(c.graph.nodes)
        for n in c.graph.nodes:
            if c.type(n) in ("xor", "xnor"):
                if f"xor_inv_{n}" in names:
                    return ":aux-alias"
                fi = list(c.graph.predecessors(n))
                for a in fi:
                    for b in fi:
                        if a != b and f"xor_{a}_{b}" in names:
                            return ":aux-alias"
        return ""

    def corpus(self):
        # K1: 3-input xor over a,b,c plus inputs named like every auxiliary the chain may create
        c = cg.Circuit()
        for n in ["a", "b", "c", "xor_b_c", "xor_a_c", "xor_a_b", "xor_c_b", "xor_c_a", "xor_b_a"]:
            c.add(n, "input")
        c.add("g", "xor", fanin=["a", "b", "c"], output=True)
        self.oracle(c, [{"a": a, "b": b, "c": cc, "xor_b_c": False, "xor_a_c": False, "xor_a_b": False, "xor_c_b": False,
                         "xor_c_a": False, "xor_b_a": False}
                        for a in (0, 1) for b in (0, 1) for cc in (0, 1)], "K1")
        c = cg.Circuit()
        c.add("a", "input")
        c.add("b", "input")
        c.add("xor_inv_o", "input")
        c.add("o", "xnor", fanin=["a", "b"], output=True)
        self.oracle(c, None, "K1-inv")

    def search(self, n):
        for i in range(n):
            c = self.gen_case()
            if len(c.graph.nodes) > 13:
                continue
            self.oracle(c)
            self.again_after_edit(c, lambda: self.oracle(c, tag=":after-edit"), p=0.25)
            if i % 3 == 0:
                # the same Circuit object again after an in-place edit that keeps nodes and edges (a type change):
                # every query must describe the circuit as it is now
                gates = [g for g in c.graph.nodes if c.type(g) in gen.MULTI]
                consts = [g for g in c.graph.nodes if c.type(g) in ("0", "1")]
                if gates and self.rng.random() < 0.7:
                    g = self.rng.choice(gates)
                    c.set_type(g, self.rng.choice([t for t in gen.MULTI if t != c.type(g)]))
                    self.oracle(c, tag=":after-set_type")
                elif consts:
                    k = self.rng.choice(consts)
                    c.set_type(k, "1" if c.type(k) == "0" else "0")
                    self.oracle(c, tag=":after-set_type")
            if self.too_many():
                break

    def replay(self, case):
        self.oracle(c_from_json(case["c"]), [case["assumptions"]])


if __name__ == "__main__":
    run_main(P)
