"""Minimal stand-in for python-sat (absent from this sandbox): only what circuitgraph.sat uses.

formula.IDPool : first-come numbering from 1, keyed by any hashable object (id / obj / top)
formula.CNF    : append / clauses / nv
solvers.Cadical153 : bootstrap_with, solve, get_model (length = highest variable the solver has
                     seen, as pysat's cadical binding), add_clause, delete
The solver is a plain DPLL with unit propagation.  It is NOT what is verified; the harness
re-checks every model against the clauses and every UNSAT answer by brute force.
"""
