import sys


class _DPLL:
    def __init__(self, bootstrap_with=None, **kwargs):
        self.clauses = []
        self.nv = 0
        self.model = None
        if bootstrap_with is not None:
            for c in bootstrap_with:
                self.add_clause(c)

    def add_clause(self, clause):
        clause = list(clause)
        self.clauses.append(clause)
        for l in clause:
            if abs(l) > self.nv:
                self.nv = abs(l)

    def solve(self, assumptions=()):
        sys.setrecursionlimit(max(sys.getrecursionlimit(), 10000))
        clauses = [list(c) for c in self.clauses] + [[a] for a in assumptions]
        assign = {}
        res = self._dpll(clauses, assign)
        if res is None:
            self.model = None
            return False
        self.model = [v if res.get(v, False) else -v for v in range(1, self.nv + 1)]
        return True

    def _simplify(self, clauses, assign):
        """unit propagation; returns simplified clause list or None on conflict"""
        changed = True
        while changed:
            changed = False
            new = []
            for c in clauses:
                sat = False
                rest = []
                for l in c:
                    v = abs(l)
                    if v in assign:
                        if assign[v] == (l > 0):
                            sat = True
                            break
                    else:
                        rest.append(l)
                if sat:
                    continue
                if not rest:
                    return None
                if len(rest) == 1:
                    l = rest[0]
                    assign[abs(l)] = l > 0
                    changed = True
                else:
                    new.append(rest)
            clauses = new
        return clauses

    def _dpll(self, clauses, assign):
        clauses = self._simplify(clauses, assign)
        if clauses is None:
            return None
        if not clauses:
            return assign
        # branch on the first literal of the shortest clause
        c = min(clauses, key=len)
        l = c[0]
        for val in (l > 0, not (l > 0)):
            a2 = dict(assign)
            a2[abs(l)] = val
            r = self._dpll(clauses, a2)
            if r is not None:
                return r
        return None

    def get_model(self):
        return self.model

    def delete(self):
        pass

    def __enter__(self):
        return self

    def __exit__(self, *a):
        pass


class Cadical153(_DPLL):
    pass


class Cadical(_DPLL):
    pass
