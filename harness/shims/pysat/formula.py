class IDPool:
    def __init__(self, start_from=1, occupied=None):
        self.top = start_from - 1
        self.obj2id = {}
        self.id2obj = {}

    def id(self, obj=None):
        if obj is None:
            self.top += 1
            return self.top
        if obj not in self.obj2id:
            self.top += 1
            self.obj2id[obj] = self.top
            self.id2obj[self.top] = obj
        return self.obj2id[obj]

    def obj(self, vid):
        return self.id2obj.get(vid)


class CNF:
    def __init__(self, from_clauses=None):
        self.clauses = []
        self.nv = 0
        if from_clauses:
            for c in from_clauses:
                self.append(c)

    def append(self, clause):
        clause = list(clause)
        self.clauses.append(clause)
        for l in clause:
            if abs(l) > self.nv:
                self.nv = abs(l)

    def __iter__(self):
        return iter(self.clauses)
