"""Per-property harness skeleton: budgets, known findings, replays, RESULT line for ./check."""
import argparse
import json
import os
import re
import sys
import time
import traceback

import common
import gen
from common import VERIF, Driver, Stats, rng_for, c_to_json, c_from_json

KNOWN_FILE = os.path.join(VERIF, "KNOWN_FINDINGS.txt")


def load_known(pid):
    known = {}
    if not os.path.exists(KNOWN_FILE):
        return known
    with open(KNOWN_FILE) as f:
        for line in f:
            m = re.match(r"known:\s+property=(\S+)\s+id=(\S+)\s+sig=(\S+)\s+(.*)", line.strip())
            if m and m.group(1) == pid:
                known[m.group(3)] = (m.group(2), m.group(4))
    return known


class Failure(Exception):
    pass


class Prop:
    pid = "C00"
    rule = ""
    assumptions = []
    # budgets: (corr cases, search cases) per tier
    budget = {"quick": (100, 100), "thorough": (1500, 1500)}

    def __init__(self, tier, proof_status):
        self.tier = tier
        self.proof_status = proof_status
        self.rng, self.seed = rng_for(self.pid)
        self.stats = Stats()
        self.fails = []      # dicts: kind, sig, desc, case
        self.drv = None
        self.corr_cases = 0
        self.search_cases = 0
        self._hist = None

    # -- to override
    def corpus(self):
        """fixed regression cases (minimised past failures, seeded mutants' witnesses): run first"""

    def correspond(self, n):
        """model vs implementation on n generated cases; call self.fail(...) on disagreement"""

    def search(self, n):
        """property oracle on the real code for n generated cases; call self.fail(...)"""

    def replay(self, case):
        """re-run one recorded case; call self.fail(...) if it still fails"""
        raise NotImplementedError

    # -- helpers
    def fail(self, kind, sig, desc, case):
        if self._hist is not None:
            case = dict(case)
            case["history"] = self._hist
            desc = f"{desc} [on an object that was queried before and then edited in place: {self._hist['edit']}]"
        self.fails.append({"kind": kind, "sig": sig, "desc": desc, "case": case})

    def again_after_edit(self, c, fn, p=0.34, exclude=()):
        """history-dependent scenario: `fn()` (the oracle on the object `c`) has just run; edit `c` in place through the
        public API in a way that keeps its size (gen.inplace_edit) and run `fn()` again on the SAME object — every answer
        must describe the circuit as it is now.  A failure records the history so that the replay can rebuild it."""
        if self.rng.random() >= p:
            return
        before = c_to_json(c)
        try:
            op = gen.inplace_edit(self.rng, c, exclude)
        except Exception:  # noqa: BLE001
            return
        if op is None:
            return
        self._hist = {"before": before, "edit": op}
        self.stats.bump("history:" + op["op"])
        try:
            fn()
        finally:
            self._hist = None

    def replay_with_history(self, case):
        """rebuild the recorded history on one live object: the call on the circuit as it was, the in-place edit, then the
        recorded case on the same object"""
        h = case["history"]
        case = {k: v for k, v in case.items() if k != "history"}
        obj = c_from_json(h["before"])
        key_before = json.dumps(h["before"], sort_keys=True)
        scratch = c_from_json(h["before"])
        gen.apply_edit(scratch, h["edit"])
        after = c_to_json(scratch)
        common.REPLAY_MEMO[key_before] = obj
        pre = {k: (h["before"] if v == after else v) for k, v in case.items()}
        try:
            self.replay(pre)
        except Exception:  # noqa: BLE001
            pass
        self.fails = []
        gen.apply_edit(obj, h["edit"])
        common.REPLAY_MEMO[json.dumps(after, sort_keys=True)] = obj
        self._hist = h
        try:
            self.replay(case)
        finally:
            self._hist = None
            common.REPLAY_MEMO.clear()

    def too_many(self):
        """stop a phase after 25 failures of that phase's kind"""
        kind = getattr(self, "phase", None)
        if not hasattr(self, "_known_sigs"):
            self._known_sigs = set(load_known(self.pid))
        # known findings do not use up the quota: they would otherwise end a phase early and hide other violations
        return sum(1 for f in self.fails if (kind is None or f["kind"] == kind) and f["sig"] not in self._known_sigs) >= 25

    def driver(self):
        if self.drv is None:
            self.drv = Driver()
        return self.drv


def run_main(cls):
    ap = argparse.ArgumentParser()
    ap.add_argument("--tier", default="quick")
    ap.add_argument("--proof-status", default="ok")
    ap.add_argument("--replay")
    args = ap.parse_args()
    p = cls(args.tier, args.proof_status)
    res = {"violations": [], "known": []}
    try:
        if args.replay:
            with open(args.replay) as f:
                rec = json.load(f)
            case = rec.get("case", rec)
            if isinstance(case, dict) and "history" in case:
                p.replay_with_history(case)
            else:
                p.replay(case)
        else:
            nc, ns = p.budget[args.tier]
            if args.proof_status != "ok":
                ns *= 3   # a tie broke: search harder for a concrete failing input
            p.phase = "search"
            # earlier calls of the same process (rarely used forms, rejected calls) must leave nothing behind
            import vgen
            gen.process_history(p.rng, blackboxes=list(vgen.FLOPS) + list(vgen.FLOPS_ALT) + list(getattr(p, "shared_blackboxes", [])))
            p.stats.bump("history:process-prelude")
            p.corpus()
            p.phase = "corr"
            p.correspond(nc)
            if any(f["kind"] == "corr" for f in p.fails):
                ns *= 3
            p.phase = "search"
            p.search(ns)
    except Exception:  # noqa: BLE001
        res["fault"] = traceback.format_exc()
    finally:
        if p.drv:
            p.drv.close()

    known = load_known(p.pid)
    seen_known = {}
    n_out = 0
    os.makedirs(os.path.join(VERIF, "replays"), exist_ok=True)
    concrete = [f for f in p.fails if f["kind"] == "search"]
    corr = [f for f in p.fails if f["kind"] == "corr"]
    unknown_concrete = [f for f in concrete if f["sig"] not in known]
    for f in concrete:
        if f["sig"] in known:
            kid, text = known[f["sig"]]
            seen_known[kid] = text
    for f in unknown_concrete[:5]:
        rp = os.path.join(VERIF, "replays", f"{p.pid}_{n_out}.json")
        with open(rp, "w") as fh:
            json.dump({"property": p.pid, "kind": "failing-input", "sig": f["sig"], "desc": f["desc"],
                       "case": f["case"]}, fh, indent=1, default=str)
        res["violations"].append({"replay": rp, "desc": f"[{f['sig']}] {f['desc']}"[:300]})
        n_out += 1
    # model/implementation disagreements with no concrete property failure found: still a violation
    unknown_corr = [f for f in corr if f["sig"] not in known]
    for f in corr:
        if f["sig"] in known:
            kid, text = known[f["sig"]]
            seen_known[kid] = text
    if unknown_corr and not unknown_concrete:
        f = unknown_corr[0]
        rp = os.path.join(VERIF, "replays", f"{p.pid}_corr.json")
        with open(rp, "w") as fh:
            json.dump({"property": p.pid, "kind": "correspondence-no-longer-checks", "sig": f["sig"],
                       "desc": f["desc"], "case": f["case"], "others": len(unknown_corr) - 1}, fh, indent=1, default=str)
        res["violations"].append({"replay": rp, "desc": f"correspondence broke: [{f['sig']}] {f['desc']}"[:300],
                                  "nofail": True})
    res["known"] = [f"{kid} {text}" for kid, text in sorted(seen_known.items())]
    res.update({
        "evaluations": p.stats.evaluations, "distinct_nontrivial": len(p.stats.distinct),
        "rule": p.rule, "samples": p.stats.samples, "hist": p.stats.hist,
        "corr_cases": p.corr_cases, "search_cases": p.search_cases, "assumptions": p.assumptions,
        "harness_wall_s": round(time.time() - p.stats.t0, 2),
    })
    print("RESULT " + json.dumps(res, default=str))
    sys.exit(0)
