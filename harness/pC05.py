"""C05 — fan-in / fan-out limiting, register insertion and acyclic_unroll (on acyclic input) preserve function."""
import gen
from common import (cg, c_to_json, c_from_json, canon, canon_c, cdiff, call, ordered, simulate, free_nodes,
                    all_assignments)
from framework import Prop, run_main


def same_function(c0, c1, nodes, rename=lambda n: n, limit=8):
    """None if every node of `nodes` has the same value in c0 and (renamed) in c1 for all valuations of c0's free
    nodes (c1's extra free nodes are tied to False); else a witness"""
    fr = free_nodes(c0)
    if len(fr) > limit:
        return None
    fr1 = free_nodes(c1)
    for a in all_assignments(fr):
        v0 = simulate(c0, a)
        a1 = {n: False for n in fr1}
        a1.update({rename(k): b for k, b in a.items() if rename(k) in a1})
        v1 = simulate(c1, a1)
        for n in nodes:
            if v0[n] != v1[rename(n)]:
                return {"assignment": a, "node": n, "before": v0[n], "after": v1[rename(n)]}
    return None


class P(Prop):
    pid = "C05"
    rule = ("random lint-clean acyclic circuits (1-6 inputs, 1-10 gates of every type, arity up to 6, wide fan-out forced, "
            "constants, outputs that are inputs) x k in 2..5 for limit_fanin/limit_fanout (structure compared exactly with "
            "the Lean model under a controlled set order, function compared by exhaustive simulation of every original "
            "node); insert_registers with num_stages 1..4 (flops replaced by wires, then simulated); acyclic_unroll on acyclic "
            "input; non-trivial = the transform changed the graph")
    assumptions = ["set-iteration order inside the patched run is the model's ordBy(seed) family; the search also runs with "
                   "the interpreter's real hash order"]
    budget = {"quick": (300, 300), "thorough": (2500, 2500)}

    def gen_case(self):
        rng = self.rng
        c = gen.circuit(rng, n_in=(1, 6), n_gates=(1, 10), max_arity=6, consts=0.15, dead=False, adversarial=0.1,
                        p_out=0.35, out_inputs=0.15)
        # widen fan-out of one node
        if rng.random() < 0.6:
            src = rng.choice([n for n in c.graph.nodes])
            for _ in range(rng.randint(2, 5)):
                tgts = [n for n in c.graph.nodes if c.type(n) in gen.MULTI and n not in c.transitive_fanin(src) and n != src]
                if tgts:
                    c.graph.add_edge(src, rng.choice(tgts))
        # names that collide with the helper names the transforms request (uid must rename the new node)
        if rng.random() < 0.35:
            wide = [n for n in c.graph.nodes if c.graph.in_degree(n) >= 3 or c.graph.out_degree(n) >= 3]
            if wide:
                n = rng.choice(wide)
                for suffix in rng.sample(["_limit_fanin_0", "_limit_fanout_0", "_limit_fanin_1", "_limit_fanout_1"], 2):
                    nm = n + suffix
                    if nm not in c.graph.nodes:
                        c.add(nm, "input")
                        tgts = [g for g in c.graph.nodes if c.type(g) in gen.MULTI]
                        if tgts:
                            c.graph.add_edge(nm, rng.choice(tgts))
        # two nodes that need helpers and whose names differ only in punctuation (`d[1]` / `d_1`)
        wide = [n for n in c.graph.nodes if c.graph.in_degree(n) >= 3 or c.graph.out_degree(n) >= 3]
        gen.mangling_twins(rng, c, p=0.12, prefer=wide)
        return c

    def correspond(self, n):
        drv = self.driver()
        for i in range(n):
            c = self.gen_case()
            cj = c_to_json(c)
            seed = self.rng.randint(0, 7)
            k = self.rng.choice([2, 2, 3, 4, 5, 1])
            for fn, op in ((cg.tx.limit_fanin, "limit_fanin"), (cg.tx.limit_fanout, "limit_fanout")):
                with ordered(seed):
                    o, r = call(fn, c, k)
                m = drv.ask({"op": op, "c": cj, "k": k, "seed": seed})
                self.corr_cases += 1
                changed = o == "ok" and canon_c(r) != canon(cj)
                self.stats.case([op, cj, k, seed], nontrivial=changed,
                                sample={"op": op, "c": cj, "k": k} if i < 1 else None)
                self.stats.bump(f"{op}:k={k}:{'changed' if changed else o}")
                d = ""
                if m["outcome"] != o:
                    d = f"outcome impl={o} model={m['outcome']}"
                elif o == "ok":
                    d = cdiff(canon_c(r), canon(m["c"]))
                if d:
                    self.fail("corr", op, f"{op}(k={k}): {d}", {"c": cj, "k": k, "seed": seed, "op": op})
            # insert_registers and acyclic_unroll (acyclic input) against their models
            st = self.rng.randint(1, 4)
            with ordered(seed):
                o, r = call(cg.tx.insert_registers, c, st)
            m = drv.ask({"op": "insert_registers", "c": cj, "num_stages": st, "seed": seed})
            self.corr_cases += 1
            self.stats.bump(f"insert_registers:{o}")
            d = f"outcome impl={o} model={m['outcome']}" if m["outcome"] != o else (cdiff(canon_c(r), canon(m["c"])) if o == "ok" else "")
            if d:
                self.fail("corr", "insert_registers", f"insert_registers({st}): {d}", {"c": cj, "num_stages": st, "seed": seed, "op": "insert_registers"})
            with ordered(seed):
                o, r = call(cg.tx.acyclic_unroll, c)
            m = drv.ask({"op": "acyclic_unroll", "c": cj, "seed": seed})
            self.corr_cases += 1
            d = f"outcome impl={o} model={m['outcome']}" if m["outcome"] != o else (cdiff(canon_c(r), canon(m["c"])) if o == "ok" else "")
            if d:
                self.fail("corr", "acyclic_unroll", f"acyclic_unroll: {d}", {"c": cj, "seed": seed, "op": "acyclic_unroll"})
            if self.too_many():
                break

    # ---------------------------------------------------------------- oracles on the real code
    def check_limit(self, c, k, which, tag=""):
        cj = c_to_json(c)
        fn = cg.tx.limit_fanin if which == "fanin" else cg.tx.limit_fanout
        o, r = call(fn, c, k)
        self.search_cases += 1
        case = {"c": cj, "k": k, "fn": "limit_" + which}
        if o != "ok":
            self.fail("search", f"limit_{which}-raised-{o}", f"limit_{which}(k={k}) raised {o}", case)
            return
        if r.inputs() != c.inputs() or r.outputs() != c.outputs():
            self.fail("search", f"limit_{which}-io", "inputs/outputs changed", case)
            return
        for n in r.graph.nodes:
            deg = r.graph.in_degree(n) if which == "fanin" else r.graph.out_degree(n)
            if deg > k:
                self.fail("search", f"limit_{which}-bound", f"node {n} has {which} {deg} > {k}", case)
                return
        w = same_function(c, r, list(c.graph.nodes))
        if w:
            t = c.type(w["node"])
            self.fail("search", f"limit_{which}-function:{t}", f"node {w['node']} ({t}) changed function: {w}", case)
            return
        o2, _ = call(cg.lint, r)
        if o2 != "ok":
            self.fail("search", f"limit_{which}-lint", "result is not lint-clean", case)

    def check_insert_registers(self, c, stages):
        cj = c_to_json(c)
        case = {"c": cj, "num_stages": stages, "fn": "insert_registers"}
        o, r = call(cg.tx.insert_registers, c, stages)
        self.search_cases += 1
        if o != "ok":
            # a stage boundary must exist: round(max_depth/(stages+1)) >= 1
            depth = max((c.fanin_depth(n) for n in c.graph.nodes), default=0)
            if round(depth / (stages + 1)) >= 1:
                self.fail("search", f"insert_registers-raised-{o}", f"insert_registers({stages}) raised {o}", case)
            return
        # replace every inserted flop by a wire d -> q
        w = r.copy()
        for inst, bb in list(w.blackboxes.items()):
            d = w.fanin(f"{inst}.d").pop()
            q = w.fanout(f"{inst}.q").pop()
            w.remove([f"{inst}.{p}" for p in bb.input_set | bb.output_set])
            w.blackboxes.pop(inst)
            w.connect(d, q)
        self.stats.bump(f"insert_registers:flops={min(len(r.blackboxes), 5)}")
        if not set(c.graph.nodes) <= set(w.graph.nodes):
            self.fail("search", "insert_registers-lost-node", "an original node disappeared", case)
            return
        wt = same_function(c, w, list(c.graph.nodes))
        if wt:
            self.fail("search", "insert_registers-function", f"with flops replaced by wires: {wt}", case)
            return
        if c.outputs() != w.outputs() or not c.inputs() <= w.inputs() or not (w.inputs() - c.inputs()) <= {"clk"}:
            self.fail("search", "insert_registers-io", f"io changed: inputs {sorted(w.inputs())} outputs {sorted(w.outputs())}", case)

    def check_insert_registers_plain_flop(self, c, stages):
        """a D/Q-only flop and no other pins: nothing but flops may be added (not even a clock)"""
        cj = c_to_json(c)
        case = {"c": cj, "num_stages": stages, "fn": "insert_registers_plain"}
        o0, _ = call(cg.tx.insert_registers, c, stages)
        o, r = call(cg.tx.insert_registers, c, stages, cg.BlackBox("dff", ["D"], ["Q"]), "D", "Q", {})
        self.search_cases += 1
        if o0 != "ok":
            return
        if o != "ok":
            self.fail("search", f"insert_registers-plain-raised-{o}", f"insert_registers with a D/Q flop and other_flop_io={{}} raised {o}", case)
            return
        if r.inputs() != c.inputs() or r.outputs() != c.outputs():
            self.fail("search", "insert_registers-plain-io", f"io changed: {sorted(r.inputs())} / {sorted(r.outputs())}", case)

    def check_acyclic_unroll(self, c):
        cj = c_to_json(c)
        case = {"c": cj, "fn": "acyclic_unroll"}
        o, r = call(cg.tx.acyclic_unroll, c)
        self.search_cases += 1
        if o != "ok":
            both = [n for n in c.outputs() if c.type(n) == "input"]
            self.fail("search", f"acyclic_unroll-raised-{o}" + (":output-is-input" if both else ""),
                      f"acyclic_unroll raised {o} on an acyclic circuit", case)
            return
        if r.outputs() != c.outputs() or r.inputs() != c.inputs():
            self.fail("search", "acyclic_unroll-io", f"io changed: {sorted(r.inputs())} {sorted(r.outputs())}", case)
            return
        w = same_function(c, r, list(c.outputs()))
        if w:
            self.fail("search", "acyclic_unroll-function", f"{w}", case)

    def corpus(self):
        # K2: 3-input XNOR
        c = cg.Circuit()
        for n in "abc":
            c.add(n, "input")
        c.add("o", "xnor", fanin=["a", "b", "c"], output=True)
        self.check_limit(c, 2, "fanin", "K2")
        # K5: an output that is also an input
        c = cg.Circuit()
        c.add("a", "input", output=True)
        c.add("o", "not", fanin="a", output=True)
        self.check_acyclic_unroll(c)

    def search(self, n):
        rng = self.rng
        for i in range(n):
            c = self.gen_case()
            k = rng.choice([2, 2, 3, 4, 5])
            self.check_limit(c, k, "fanin")
            self.check_limit(c, k, "fanout")
            self.again_after_edit(c, lambda: (self.check_limit(c, k, "fanin"), self.check_limit(c, k, "fanout")), p=0.25)
            if i % 3 == 0:
                # limiting an already limited circuit (helper names of the first pass are taken)
                o1, c5 = call(cg.tx.limit_fanin, c, 5)
                o2, d5 = call(cg.tx.limit_fanout, c, 4)
                if o1 == "ok":
                    self.check_limit(c5, 2, "fanin")
                if o2 == "ok":
                    self.check_limit(d5, 2, "fanout")
            if i % 4 == 1:
                # composition history: a block that an earlier call of the same transform returned is merged into a
                # larger circuit by fill_blackbox; the bound must hold for the whole result
                tiny = cg.Circuit("blk")
                tiny.add("i", "input")
                tiny.add("m", "not", fanin="i")
                tiny.add("o", "not", fanin="m", output=True)
                o1, blk = call(rng.choice([cg.tx.limit_fanout, cg.tx.limit_fanin]), tiny, rng.choice([2, k]))
                if o1 == "ok":
                    try:
                        par = gen.splice_block(rng, c, blk)
                    except Exception:  # noqa: BLE001
                        par = None
                    if par is not None:
                        self.stats.bump("history:spliced-transform-result")
                        self.check_limit(par, k, "fanin")
                        self.check_limit(par, k, "fanout")
            if i % 4 == 3:
                # chain: the result of one call, edited in place by its owner, limited again
                for which, f in (("fanin", cg.tx.limit_fanin), ("fanout", cg.tx.limit_fanout)):
                    o1, r1 = call(f, c, k)
                    if o1 == "ok":
                        try:
                            op = gen.inplace_edit(rng, r1, exclude=("relabel",))
                        except Exception:  # noqa: BLE001
                            op = None
                        if op:
                            self.stats.bump("history:transform-result-edited")
                            self.check_limit(r1, k, which)
            if i % 2 == 0:
                st = rng.randint(1, 4)
                self.check_insert_registers(c, st)
                if rng.random() < 0.3:
                    self.check_insert_registers_plain_flop(c, st)
            if i % 2 == 1:
                self.check_acyclic_unroll(c)
            if self.too_many():
                break

    def replay(self, case):
        c = c_from_json(case["c"])
        fn = case.get("fn", "limit_fanin")
        if fn.startswith("limit_"):
            self.check_limit(c, case["k"], fn[6:])
        elif fn == "insert_registers":
            self.check_insert_registers(c, case["num_stages"])
        else:
            self.check_acyclic_unroll(c)


if __name__ == "__main__":
    run_main(P)
