"""C17 — supergate decomposition covers the circuit with independent-input blocks."""
import networkx as nx

import gen
from common import (cg, c_to_json, c_from_json, canon, canon_c, cdiff, call, ordered, simulate, free_nodes,
                    all_assignments)
from framework import Prop, run_main


class P(Prop):
    pid = "C17"
    rule = ("random lint-clean blackbox-free acyclic circuits (trees, heavily reconvergent cones, several outputs sharing "
            "logic, gates with more than two inputs, constants); the implementation's supergate list is validated (a) by the "
            "Lean checker `supergatesOK` (whose soundness w.r.t. the property's clauses is a theorem) given the fan-in-limited "
            "circuit, and (b) by an independent Python oracle: each supergate is a single-output induced sub-circuit of "
            "limit_fanin(c,2), listed in topological order, together covering every gate in the cone of the outputs, with "
            "pairwise disjoint transitive fan-in of its inputs; for single-output circuits the super-circuit with every "
            "blackbox filled by its supergate is compared with the original by exhaustive simulation; non-trivial = >=3 gates")
    assumptions = ["set-iteration order inside the patched run is the model's ordBy(seed) family (the set of supergate "
                   "objects itself is iterated in id order, which only permutes independent supergates)"]
    budget = {"quick": (500, 1000), "thorough": (1500, 2500)}

    def gen_case(self, single=False):
        rng = self.rng
        c = gen.circuit(rng, n_in=(1, 5), n_gates=(1, 10), max_arity=rng.choice([2, 3, 4]), consts=0.1,
                        dead=rng.random() < 0.3, p_out=0.2 if not single else 0.0)
        if single:
            for o in list(c.outputs()):
                c.set_output(o, False)
            gates = [n for n in c.graph.nodes if c.type(n) in gen.GATES]
            sinks = [n for n in gates if not c.fanout(n)]
            c.set_output(self.rng.choice(sinks or gates))
            if rng.random() < 0.7:
                c.remove_unloaded()      # otherwise: gates outside the output cone stay (lint accepts them)
        return c

    def correspond(self, n):
        """per-instance validation of the implementation's output by the proved checker"""
        drv = self.driver()
        for i in range(n):
            c = self.gen_case()
            seed = self.rng.randint(0, 5)
            with ordered(seed):
                o, sgs = call(cg.tx.supergates, c)
                o2, c2 = call(cg.tx.limit_fanin, c, 2)
            self.corr_cases += 1
            cj = c_to_json(c)
            self.stats.case(cj, nontrivial=len(cj["nodes"]) > 4, sample={"c": cj} if i < 1 else None)
            self.algo_compare(drv, c, cj, seed, o, sgs)
            if o != "ok" or o2 != "ok":
                self.fail("search", f"supergates-raised-{o}" + (":multi-output" if len(c.outputs()) > 1 else ""),
                          f"supergates raised {o}", {"c": cj})
                continue
            m = drv.ask({"op": "supergates_check", "c": c_to_json(c2), "sgs": [c_to_json(s) for s in sgs]})
            if m["outcome"] != "ok" or not m["ok"]:
                self.fail("corr", "supergates-checker", f"the Lean checker rejects the implementation's supergates: {m.get('why')}",
                          {"c": cj, "seed": seed})
            if self.too_many():
                break

    def algo_compare(self, drv, c, cj, seed, o, sgs):
        """the implementation's list against the Lean model of the algorithm itself (CG/SupergatesAlgo.lean): the same
        set of minimal supergates (as circuits), NetworkXUnfeasible exactly when the model's dependency graph is cyclic"""
        m = drv.ask({"op": "supergates_algo", "c": cj, "seed": seed})
        case = {"c": cj, "seed": seed, "algo": True}
        if m["outcome"] != "ok":
            if o == "ok" or m["outcome"] == "FUEL":
                self.fail("corr", "supergates-algo", f"model: {m['outcome']}, implementation: {o}", case)
            return
        msgs = {}
        for e in m["sgs"]:
            k = canon(e["c"])
            msgs[(tuple(k["nodes"]), tuple(k["edges"]))] = e["head"]
        self.stats.bump("algo:" + ("cyclic" if m["cyclic"] else "ok") + (":dup-heads" if not m["heads_distinct"] else ""))
        if not m["heads_distinct"]:
            # which duplicate survives depends on id() order: every returned supergate must still be one of the model's
            if o == "ok":
                for s_ in sgs:
                    k = canon(c_to_json(s_))
                    if (tuple(k["nodes"]), tuple(k["edges"])) not in msgs:
                        self.fail("corr", "supergates-algo", f"supergate {sorted(s_.outputs())} is not among the model's", case)
                        return
            return
        if m["cyclic"]:
            if not o.endswith("NetworkXUnfeasible"):
                self.fail("corr", "supergates-algo", f"model: dependency graph cyclic, implementation: {o}", case)
            return
        if o != "ok":
            self.fail("corr", "supergates-algo", f"model: ok, implementation raised {o}", case)
            return
        real = {}
        for s_ in sgs:
            k = canon(c_to_json(s_))
            real[(tuple(k["nodes"]), tuple(k["edges"]))] = sorted(s_.outputs())
        if set(real) != set(msgs):
            only_i = [real[k] for k in set(real) - set(msgs)]
            only_m = [msgs[k] for k in set(msgs) - set(real)]
            self.fail("corr", "supergates-algo", f"supergate sets differ: only-impl heads {only_i} only-model heads {only_m}", case)

    def oracle(self, c):
        cj = c_to_json(c)
        case = {"c": cj}
        seed = self.rng.randint(0, 5)
        with ordered(seed):
            o, sgs = call(cg.tx.supergates, c)
            _, c2 = call(cg.tx.limit_fanin, c, 2)
        self.search_cases += 1
        if o != "ok":
            self.fail("search", f"supergates-raised-{o}" + (":multi-output" if len(c.outputs()) > 1 else ""),
                      f"supergates raised {o}", case)
            return
        g2 = c2.graph
        cone = set()
        for out in c2.outputs():
            cone |= nx.ancestors(g2, out) | {out}
        gates_in_cone = {n for n in cone if c2.type(n) not in ("input",)}
        covered = set()
        produced = []
        for sg in sgs:
            outs = sg.outputs()
            if len(outs) != 1:
                self.fail("search", "sg-not-single-output", f"supergate has outputs {sorted(outs)}", case)
                return
            (so,) = outs
            internal = set(sg.graph.nodes) - sg.inputs()
            # induced wiring: internal nodes keep type and fan-in of c2
            for n in internal:
                if n not in g2.nodes or sg.type(n) != c2.type(n) or set(sg.graph.predecessors(n)) != set(g2.predecessors(n)):
                    self.fail("search", "sg-wiring", f"node {n} of supergate {so} is not wired as in the circuit", case)
                    return
            for n in sg.inputs():
                if n not in g2.nodes:
                    self.fail("search", "sg-wiring", f"input {n} of supergate {so} is not a node of the circuit", case)
                    return
            # inputs: pairwise disjoint transitive fan-in (closed: an input reaches itself)
            ins = sorted(sg.inputs())
            tf = {i: nx.ancestors(g2, i) | {i} for i in ins}
            for a in range(len(ins)):
                for b in range(a + 1, len(ins)):
                    if tf[ins[a]] & tf[ins[b]]:
                        self.fail("search", "sg-inputs-reconverge", f"inputs {ins[a]} and {ins[b]} of supergate {so} share fan-in "
                                  f"{sorted(tf[ins[a]] & tf[ins[b]])[:3]}", case)
                        return
            # topological order of the list: every non-primary input must be produced by an earlier supergate
            for i in ins:
                if c2.type(i) != "input" and i not in covered:
                    self.fail("search", "sg-order", f"supergate {so} uses {i} before a supergate producing it", case)
                    return
            covered |= internal
            produced.append(so)
        missing = gates_in_cone - covered
        if missing:
            self.fail("search", "sg-cover", f"gates {sorted(missing)[:4]} of the output cones are in no supergate", case)
            return

    def oracle_super(self, c):
        cj = c_to_json(c)
        case = {"c": cj, "super": True}
        if len(c.outputs()) != 1:
            return
        o, r = call(cg.tx.supergates, c, True)
        self.search_cases += 1
        if o != "ok":
            self.fail("search", f"supercircuit-raised-{o}", f"supergates(construct_supercircuit=True) raised {o}", case)
            return
        superc, sgmap = r
        self.super_compare(c, cj, superc, sgmap)
        full = superc.copy()
        # fill_blackbox splices node n of instance sg_h as `sg_h_n`: two different (h, n) pairs with the same spliced name
        # (heads a / a_b with members b_c / c), or a spliced name that is already a net, make a later fill fail (K53)
        spliced = [f"{name}_{n}" for name, sg in sgmap.items() for n in sg.nodes()]
        clash = len(set(spliced)) < len(spliced) or bool(set(spliced) & set(superc.nodes()))
        for name, sg in sgmap.items():
            o2, _ = call(full.fill_blackbox, name, sg)
            if o2 != "ok":
                self.fail("search", f"supercircuit-fill-{o2}" + (":spliced-name-clash" if clash and o2 == "ValueError" else ""),
                          f"filling {name} raised {o2}", case)
                return
        if full.inputs() != c.inputs() or full.outputs() != c.outputs():
            self.fail("search", "supercircuit-io", "io differs", case)
            return
        if full.is_cyclic():
            self.fail("search", "supercircuit-cyclic", "filled super-circuit is cyclic", case)
            return
        fr = sorted(c.inputs())
        if len(fr) > 7:
            return
        ff = free_nodes(full)
        for a in all_assignments(fr):
            v = simulate(c, a)
            w = simulate(full, {**{x: False for x in ff}, **a})
            for o_ in c.outputs():
                if v[o_] != w[o_]:
                    self.fail("search", "supercircuit-value", f"output {o_}: {v[o_]} vs {w[o_]} under {a}", case)
                    return

    def super_compare(self, c, cj, superc, sgmap):
        """the super-circuit and the instance map against the Lean model (CG/SuperCircuit.lean): same nodes, types, output
        marks, edges and blackbox registry; same instance names with the same supergates.  The visiting order of the
        supergates depends on id()-hashed sets and only permutes node/edge order, which canon() sorts away; when two
        minimal supergates share a head the survivor depends on id() order and the comparison is skipped."""
        drv = self.driver()
        seed = self.rng.randint(0, 5)
        with ordered(seed):
            o, r = call(cg.tx.supergates, c, True)
        case = {"c": cj, "super": True, "seed": seed}
        a = drv.ask({"op": "supergates_algo", "c": cj, "seed": seed})
        if a["outcome"] == "ok" and not a["heads_distinct"]:
            self.stats.bump("super:dup-heads")
            return
        m = drv.ask({"op": "supergates_super", "c": cj, "seed": seed})
        self.corr_cases += 1
        if m["outcome"] != "ok" or o != "ok":
            if (m["outcome"] if m["outcome"] != "ok" else "ok") != o:
                self.fail("corr", "supercircuit-model", f"model: {m['outcome']}, implementation: {o}", case)
            return
        superc, sgmap = r
        d = cdiff(canon(c_to_json(superc)), canon(m["super"]))
        if d:
            self.fail("corr", "supercircuit-model", "super-circuit differs from the model: " + d[:300], case)
            return
        mm = {e["name"]: canon(e["c"]) for e in m["map"]}
        if set(mm) != set(sgmap):
            self.fail("corr", "supercircuit-model", f"instance map differs: impl {sorted(sgmap)} model {sorted(mm)}", case)
            return
        for k, sg in sgmap.items():
            d = cdiff(canon(c_to_json(sg)), mm[k])
            if d:
                self.fail("corr", "supercircuit-model", f"supergate {k} differs from the model: " + d[:300], case)
                return
        self.stats.bump("super:compared")

    def oracle_super_if_single(self, c):
        if len(c.outputs()) == 1:
            self.oracle_super(c)

    def corpus(self):
        import json
        import os
        from common import VERIF
        p = os.path.join(VERIF, "findings", "K28.json")
        if os.path.exists(p):
            ck = c_from_json(json.load(open(p))["case"]["c"])
            self.oracle(ck)
            # the model of the algorithm predicts the failure: its dependency graph between supergates is cyclic
            for sd in range(3):
                with ordered(sd):
                    o, sgs = call(cg.tx.supergates, ck)
                self.algo_compare(self.driver(), ck, c_to_json(ck), sd, o, sgs)
        # K28, a witness that does not depend on the hash order (reported by a seeding sub-agent): each output's supergate
        # holds the other's cut point as an inner node, so the ordering graph is cyclic
        k28 = cg.Circuit("k28")
        for i in "abst":
            k28.add(i, "input")
        k28.add("g1", "nor", fanin=["a", "b"])
        k28.add("g0", "nor", fanin=["s", "t"])
        k28.add("l2", "and", fanin=["g1", "t"])
        k28.add("o1", "and", fanin=["g0", "l2"], output=True)
        k28.add("l4", "or", fanin=["g0", "g1"])
        k28.add("o2", "and", fanin=["l4", "a"], output=True)
        self.oracle(k28)
        with ordered(0):
            o, sgs = call(cg.tx.supergates, k28)
        self.algo_compare(self.driver(), k28, c_to_json(k28), 0, o, sgs)
        # K53 (found by the proof of C17.super_fill_equiv): heads `a`, `a_b` with members `b_c`, `c` give the spliced name
        # `sg_a_b_c` twice, so the second fill_blackbox is rejected
        k53 = cg.Circuit("k53")
        for i in ("b_c", "q", "c", "d"):
            k53.add(i, "input")
        k53.add("a", "and", fanin=["b_c", "q"])
        k53.add("a_b", "and", fanin=["c", "d"])
        k53.add("o", "and", fanin=["a", "a_b"], output=True)
        self.oracle_super(k53)
        # a supergate of one cone (z = not n) whose input n lies inside a larger supergate of another cone (y): the list
        # must still give the producer first
        c = cg.Circuit("cover")
        for i in "pqrs":
            c.add(i, "input")
        c.add("a", "and", fanin=["p", "q"])
        c.add("b", "or", fanin=["r", "s"])
        c.add("n", "nand", fanin=["a", "b"])
        c.add("t", "xor", fanin=["a", "b"])
        c.add("y", "and", fanin=["n", "t"], output=True)
        c.add("z", "not", fanin=["n"], output=True)
        for _ in range(4):
            self.oracle(c)
        self.oracle(cg.tx.relabel(c, {"y": "z", "z": "y"}))

    def search(self, n):
        for i in range(n):
            if i % 3 == 2:
                self.oracle_super(self.gen_case(single=True))
            else:
                c = self.gen_case()
                self.oracle(c)
                self.again_after_edit(c, lambda: self.oracle(c), p=0.25)
                if i % 5 == 0:
                    # chain: a circuit that limit_fanin returned earlier, edited in place by its owner (one more operand)
                    o1, c2 = call(cg.tx.limit_fanin, c, 2)
                    if o1 == "ok":
                        try:
                            op = gen.inplace_edit(self.rng, c2, exclude=("relabel", "output", "set_type", "rewire"))
                        except Exception:  # noqa: BLE001
                            op = None
                        if op:
                            self.stats.bump("history:transform-result-edited")
                            self.oracle(c2)
                            self.oracle_super_if_single(c2)
                if i % 5 == 1:
                    # chain: the result of limit_fanin(c, k) with k >= 3 still has gates of more than two inputs, one of them
                    # already called `<g>_limit_fanin_<i>`: supergates' own limit_fanin(·, 2) must pick fresh names
                    cw = gen.circuit(self.rng, n_in=(4, 6), n_gates=(1, 5), max_arity=6, consts=0.0, dead=False, p_out=0.3,
                                     unary_multi=0.0)
                    o1, ck = call(cg.tx.limit_fanin, cw, self.rng.choice([3, 3, 4]))
                    if o1 == "ok":
                        self.stats.bump("history:limit_fanin-k3-then-supergates")
                        self.oracle(ck)
                        self.oracle_super_if_single(ck)
            if self.too_many():
                break

    def replay(self, case):
        c = c_from_json(case["c"])
        if case.get("algo"):
            with ordered(case["seed"]):
                o, sgs = call(cg.tx.supergates, c)
            self.algo_compare(self.driver(), c, case["c"], case["seed"], o, sgs)
            return
        if case.get("super"):
            self.oracle_super(c)
        else:
            self.oracle(c)


if __name__ == "__main__":
    run_main(P)
