"""C10 — the ternary encoding computes Kleene three-valued simulation."""
import itertools

import networkx as nx

import gen
from common import (cg, c_to_json, c_from_json, canon, canon_c, cdiff, call, ordered, simulate, free_nodes)
from framework import Prop, run_main

X = "x"


def k_and(vals):
    if any(v is False for v in vals):
        return False
    if any(v == X for v in vals):
        return X
    return True


def k_or(vals):
    if any(v is True for v in vals):
        return True
    if any(v == X for v in vals):
        return X
    return False


def k_not(v):
    return X if v == X else (not v)


def k_xor(vals):
    if any(v == X for v in vals):
        return X
    return sum(1 for v in vals if v) % 2 == 1


def kleene(c, pattern):
    """gate-by-gate Kleene evaluation; pattern maps inputs to False/True/X"""
    g = c.graph
    v = {}
    for n in nx.topological_sort(g):
        t = g.nodes[n]["type"]
        ins = [v[p] for p in g.predecessors(n)]
        if t == "input":
            v[n] = pattern[n]
        elif t == "0":
            v[n] = False
        elif t == "1":
            v[n] = True
        elif t == "and":
            v[n] = k_and(ins)
        elif t == "nand":
            v[n] = k_not(k_and(ins))
        elif t == "or":
            v[n] = k_or(ins)
        elif t == "nor":
            v[n] = k_not(k_or(ins))
        elif t == "xor":
            v[n] = k_xor(ins)
        elif t == "xnor":
            v[n] = k_not(k_xor(ins))
        elif t == "buf":
            v[n] = ins[0]
        elif t == "not":
            v[n] = k_not(ins[0])
        else:
            raise ValueError(t)
    return v


class P(Prop):
    pid = "C10"
    rule = ("random lint-clean blackbox-free acyclic circuits (1-4 inputs, 1-8 gates, all types and arities incl. 1-input "
            "multi-input gates, constants, adversarial names resembling the encoder's helper names); the ternary circuit and "
            "mapping are compared exactly with the Lean model; the search evaluates the ternary circuit for all 3^k input "
            "patterns x both arbitrary binary values under X against gate-by-gate Kleene evaluation and against every "
            "completion of the X inputs; non-trivial = >=1 multi-input gate")
    assumptions = ["set-iteration order inside the patched run is the model's ordBy(seed) family"]
    budget = {"quick": (600, 360), "thorough": (3000, 2000)}

    def gen_case(self):
        rng = self.rng
        c = gen.circuit(rng, n_in=(1, 4), n_gates=(1, 8), max_arity=4, consts=0.25, dead=False,
                        adversarial=rng.choice([0.0, 0.0, 0.4]), out_inputs=0.1)
        return gen.mangling_twins(rng, c)

    def correspond(self, n):
        drv = self.driver()
        for i in range(n):
            c = self.gen_case()
            cj = c_to_json(c)
            seed = self.rng.randint(0, 5)
            with ordered(seed):
                o, r = call(cg.tx.ternary, c)
            m = drv.ask({"op": "ternary", "c": cj, "seed": seed})
            self.corr_cases += 1
            self.stats.case(cj, nontrivial=any(c.graph.in_degree(x) >= 2 for x in c.graph.nodes),
                            sample={"c": cj} if i < 1 else None)
            d = ""
            if m["outcome"] != o:
                d = f"outcome impl={o} model={m['outcome']}"
            elif o == "ok":
                t, mapping = r
                d = cdiff(canon_c(t), canon(m["c"]))
                if not d and dict(map(tuple, m["mapping"])) != mapping:
                    d = f"mapping differs: impl={mapping} model={m['mapping']}"
            if d:
                self.fail("corr", "ternary", d, {"c": cj, "seed": seed})
            if self.too_many():
                break

    def oracle(self, c):
        cj = c_to_json(c)
        case = {"c": cj}
        o, r = call(cg.tx.ternary, c)
        self.search_cases += 1
        if o != "ok":
            self.fail("search", f"ternary-raised-{o}", f"ternary raised {o}", case)
            return
        t, mapping = r
        if not set(c.graph.nodes) <= set(t.graph.nodes) or any(
                t.type(n) != c.type(n) or set(t.graph.predecessors(n)) != set(c.graph.predecessors(n)) for n in c.graph.nodes):
            self.fail("search", "ternary-not-containing-c", "the ternary circuit does not contain c unchanged", case)
            return
        if len(set(mapping.values())) != len(mapping) or set(mapping) != set(c.graph.nodes):
            self.fail("search", "ternary-mapping", "mapping is not an injection on the nodes of c", case)
            return
        ins = sorted(c.inputs())
        if len(ins) > 5:
            return
        fr = free_nodes(t)
        if set(fr) != set(ins) | {mapping[i] for i in ins}:
            self.fail("search", "ternary-free-nodes", f"free nodes of t: {sorted(fr)}", case)
            return
        for pat in itertools.product([False, True, X], repeat=len(ins)):
            pattern = dict(zip(ins, pat))
            kv = kleene(c, pattern)
            xs = [i for i in ins if pattern[i] == X]
            # all completions of the X inputs in c
            comp_vals = []
            for bits in itertools.product([False, True], repeat=len(xs)):
                a = {i: (pattern[i] if pattern[i] != X else None) for i in ins}
                a.update(dict(zip(xs, bits)))
                comp_vals.append(simulate(c, a))
            for arb in ([False, True] if xs else [False]):
                a = {}
                for i in ins:
                    a[i] = arb if pattern[i] == X else pattern[i]
                    a[mapping[i]] = pattern[i] == X
                v = simulate(t, a)
                for n in c.graph.nodes:
                    isx = v[mapping[n]]
                    if isx != (kv[n] == X):
                        self.fail("search", f"ternary-x-flag:{c.type(n)}",
                                  f"pattern {pattern} (X inputs driven {arb}): mapping[{n}]={isx} but Kleene gives {kv[n]}", case)
                        return
                    if not isx:
                        if v[n] != kv[n]:
                            self.fail("search", f"ternary-value:{c.type(n)}",
                                      f"pattern {pattern}: {n}={v[n]} but Kleene gives {kv[n]}", case)
                            return
                        if any(cv[n] != v[n] for cv in comp_vals):
                            self.fail("search", f"ternary-definite:{c.type(n)}",
                                      f"pattern {pattern}: {n} flagged definite ({v[n]}) but a completion disagrees", case)
                            return

    def search(self, n):
        for i in range(n):
            c = self.gen_case()
            self.oracle(c)
            self.again_after_edit(c, lambda: self.oracle(c), p=0.25)
            if self.too_many():
                break

    def replay(self, case):
        self.oracle(c_from_json(case["c"]))


if __name__ == "__main__":
    run_main(P)
