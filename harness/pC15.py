"""C15 — bench reader and writer are faithful."""
import re

import gen
from common import (cg, c_to_json, c_from_json, canon, canon_c, cdiff, call, ordered, simulate, free_nodes, gate_fn,
                    all_assignments)
from framework import Prop, run_main

GATES = ["buf", "buff", "not", "and", "nand", "or", "nor", "xor", "xnor"]


def bench_patterns():
    """the patterns exactly as bench_to_circuit hands them to `re` (captured by wrapping re.findall)"""
    pats = []
    orig = re.findall

    def rec(p, s, flags=0):
        pats.append((p, int(flags)))
        return orig(p, s, flags)
    re.findall = rec
    try:
        cg.io.bench_to_circuit("INPUT(a)\nOUTPUT(o)\no = NOT(a)\n", "m")
    finally:
        re.findall = orig
    return pats


def norm_findall(r):
    return [list(x) if isinstance(x, tuple) else [x] for x in r]


class BenchAst:
    """a random netlist of the dialect with its intended meaning"""

    def __init__(self, rng, dff=True, weird_layout=True):
        self.inputs = [f"{rng.choice(['a', 'G', 'in_', 'a', 'G', 'buffered', 'qbuff'])}{i}" for i in range(rng.randint(1, 4))]
        self.inputs = list(dict.fromkeys(self.inputs))
        self.gates = []   # (net, type, [ins])
        self.dffs = []    # (q, d)
        pool = list(self.inputs)
        nd = rng.randint(0, 2) if dff else 0
        qs = [f"q{i}" for i in range(nd)]
        pool += qs
        for i in range(rng.randint(1, 7)):
            t = rng.choice(GATES)
            k = 1 if t in ("buf", "buff", "not") else rng.randint(1, min(4, len(pool)))
            # `_n3`: identifiers may start with an underscore (K40); names that contain a gate keyword (`buff1`, `xnor_2`)
            net = f"{rng.choice(['n', 'w', 'G1', '_n', 'n', 'w', 'buff', 'rebuff_', 'BUFFER', 'xnor_', 'nand', 'dff_', 'OUTPUTx', 'input_'])}{i}"
            if qs and rng.random() < 0.1:
                # a net named like the flop instance the reader creates for `q = DFF(d)` (`q_dff`): instances and nets
                # live in different namespaces
                cand = f"{rng.choice(qs)}_dff"
                if cand not in pool:
                    net = cand
            ops = rng.sample(pool, k)
            if k >= 1 and t not in ("buf", "buff", "not") and rng.random() < 0.12:
                dup = rng.choice(ops)                     # an operand given 2, 3 or 4 times (cancels in XOR/XNOR: K35)
                for _ in range(rng.randint(1, 3)):
                    ops.insert(rng.randrange(len(ops) + 1), dup)
            self.gates.append((net, t, ops))
            pool.append(net)
        for q in qs:
            self.dffs.append((q, rng.choice([p for p in pool if p != q])))
        cands = [g[0] for g in self.gates] + qs
        self.outputs = rng.sample(cands, rng.randint(1, min(3, len(cands))))
        self.rng = rng
        self.weird = weird_layout

    def render(self):
        rng = self.rng

        def sp():
            return rng.choice(["", " ", "  ", "\t"]) if self.weird else ""
        lines = ["# generated"]
        body = []
        for i in self.inputs:
            body.append(f"{rng.choice(['INPUT', 'input'])}{sp()}({sp()}{i}{sp()})")
        for o in self.outputs:
            body.append(f"{rng.choice(['OUTPUT', 'output'])}{sp()}({sp()}{o}{sp()})")
        for net, t, ins in self.gates:
            tt = t.upper() if rng.random() < 0.6 else t
            sep = rng.choice([", ", ",", " , ", ",\t", ",\r\n ", ",\n\t", " ,\x0c", ",\x0b "]) if self.weird else ", "
            body.append(f"{net}{sp()}={sp()}{tt}({sp()}{sep.join(ins)}{sp()})")
        for q, d in self.dffs:
            body.append(f"{q}{sp()}={sp()}{rng.choice(['DFF', 'dff'])}({sp()}{d}{sp()})")
        if rng.random() < 0.7:
            rng.shuffle(body)
        if self.weird and rng.random() < 0.5:
            # comments (K45): whole-line and trailing ones whose text looks like statements of the dialect
            nets = self.inputs + [g[0] for g in self.gates]
            def comment():
                x, y = rng.choice(nets), rng.choice(nets)
                return rng.choice(["#", "# ", "#\t"]) + rng.choice(
                    [f"OUTPUT({x})", f"INPUT(zz{x})", f"output({x})", f"{x} = AND({x}, {y})", f"zq = NOT({x})",
                     f"{x} = DFF({y})", "", "# #", f"{rng.randint(0, 9)} inputs"])
            for _ in range(rng.randint(1, 3)):
                k = rng.randrange(len(body) + 1)
                if rng.random() < 0.5 or k == len(body):
                    body.insert(k, comment())
                else:
                    body[k] = body[k] + rng.choice(["", " ", "\t"]) + comment()
        # CRLF files (K54): the carriage return is white space everywhere, also inside an operand list that is wrapped
        eol = "\r\n" if self.weird and rng.random() < 0.2 else "\n"
        return eol.join(lines + body) + rng.choice(["", eol, eol + eol])

    def evaluate(self, assign):
        """values of every net given values for inputs and DFF outputs (q nets)"""
        v = dict(assign)
        todo = list(self.gates)
        for _ in range(len(todo) + 2):
            rest = []
            for net, t, ins in todo:
                if all(i in v for i in ins):
                    tt = "buf" if t == "buff" else t
                    if len(ins) == 1 and tt in ("and", "or", "xor"):
                        tt = "buf"
                    elif len(ins) == 1 and tt in ("nand", "nor", "xnor"):
                        tt = "not"
                    v[net] = bool(gate_fn(tt, [v[i] for i in ins]))
                else:
                    rest.append((net, t, ins))
            todo = rest
        return v


class P(Prop):
    pid = "C15"
    rule = ("(a) every regular expression the bench reader hands to `re` (captured at run time) on random and rendered texts: "
            "Lean engine vs CPython re.findall; (b) random bench netlists (INPUT/OUTPUT/gate/DFF lines, upper/lower case, "
            "BUFF, blanks and tabs at every permitted position, shuffled line order, outputs before definitions): "
            "bench_to_circuit vs the Lean model (exact) and vs the netlist's intended meaning (simulation of every net); "
            "(c) random blackbox-free circuits with >=1 input: circuit_to_bench text vs model (exact) and read-back function "
            "at every output; non-trivial = netlist with >=2 gates")
    assumptions = ["CPython `re` is modelled by CG/Regex.lean (differential-tested here on the extracted patterns)",
                   "set-iteration order inside the patched run is the model's ordBy(seed) family"]
    budget = {"quick": (360, 360), "thorough": (2000, 2000)}

    def correspond(self, n):
        drv = self.driver()
        pats = bench_patterns()
        rng = self.rng
        for i in range(n):
            ast = BenchAst(rng)
            text = ast.render()
            # (a) regex engine
            junk = "".join(rng.choice("aG1_ ()=,\n\tANDxorINPUT") for _ in range(rng.randint(0, 40)))
            for p, flags in pats:
                for t in (text, junk, text[: len(text) // 2] + junk):
                    want = norm_findall(re.findall(p, t, flags))
                    m = drv.ask({"op": "re_findall", "pattern": p, "text": t, "dotall": bool(flags & re.DOTALL)})
                    self.corr_cases += 1
                    if m["outcome"] != "ok" or m["r"] != want:
                        self.fail("corr", "regex-engine", f"findall({p!r}) differs: re={want} model={m.get('r')}",
                                  {"pattern": p, "text": t, "flags": flags})
            # (b) reader
            o, c = call(cg.io.bench_to_circuit, text, "top")
            m = drv.ask({"op": "bench_read", "text": text, "name": "top"})
            self.corr_cases += 1
            self.stats.case(text, nontrivial=len(ast.gates) >= 2, sample={"text": text} if i < 2 else None)
            self.stats.bump(f"read:{o}")
            d = f"outcome impl={o} model={m['outcome']}" if m["outcome"] != o else (cdiff(canon_c(c), canon(m["c"])) if o == "ok" else "")
            if d:
                self.fail("corr", "bench-read", d, {"text": text})
            # (c) writer
            circ = self.hostile_names(gen.circuit(rng, n_in=(1, 4), n_gates=(1, 7), consts=0.3, adversarial=0.0))
            seed = rng.randint(0, 5)
            with ordered(seed):
                o, t = call(cg.io.circuit_to_bench, circ)
            m = drv.ask({"op": "bench_write", "c": c_to_json(circ), "seed": seed})
            self.corr_cases += 1
            d = f"outcome impl={o} model={m['outcome']}" if m["outcome"] != o else ("" if o != "ok" or t == m["text"] else f"text differs:\n{t!r}\n{m['text']!r}")
            if d:
                self.fail("corr", "bench-write", d, {"c": c_to_json(circ), "seed": seed})
            if self.too_many():
                break

    # ------------------------------------------------------------------ oracles
    def check_read(self, ast, text):
        case = {"fn": "read", "text": text}
        if self.rng.random() < 0.3:
            o0, c0 = call(cg.io.bench_to_circuit, text, "top")
            if o0 == "ok":
                gen.poison_result(self.rng, c0)
                self.stats.bump("history:earlier-result-edited")
        o, c = call(cg.io.bench_to_circuit, text, "top")
        self.search_cases += 1
        defined = {g[0] for g in ast.gates} | {q for q, _ in ast.dffs} | set(ast.inputs)
        if o != "ok":
            fwd = any(d not in ast.inputs and d not in {g[0] for g in ast.gates} and
                      not any(d in g[2] for g in ast.gates) for _, d in ast.dffs)
            self.fail("search", f"bench-read-raised-{o}" + (":dff-forward-reference" if fwd else ""),
                      f"bench_to_circuit raised {o}", case)
            return
        if c.inputs() != set(ast.inputs) or c.outputs() != set(ast.outputs):
            blank = bool(re.search(r"[A-Za-z]\s+\(", text.split("\n", 1)[1] if "\n" in text else text))
            self.fail("search", "bench-read-io", f"inputs {sorted(c.inputs())}/{ast.inputs} outputs {sorted(c.outputs())}/{ast.outputs}", case)
            return
        for q, d in ast.dffs:
            inst = f"{q}_dff"
            if inst not in c.blackboxes or c.fanin(f"{inst}.D") != {d} or c.fanout(f"{inst}.Q") != {q}:
                self.fail("search", "bench-read-dff", f"DFF {q} = DFF({d}) not represented as a flop between {d} and {q}", case)
                return
        missing = [g[0] for g in ast.gates if g[0] not in c.graph.nodes]
        if missing:
            sig = "bench-read-gate-dropped"
            line = [l for l in text.splitlines() if l.split("=")[0].strip() == missing[0]]
            if line and re.search(r"[A-Za-z]\s+\(", line[0].split("=", 1)[1]):
                sig += ":blank-before-paren"
            self.fail("search", sig, f"gate {missing[0]} is missing from the circuit", case)
            return
        free = ast.inputs + [q for q, _ in ast.dffs]
        fr = set(free_nodes(c))
        for a in all_assignments(free):
            want = ast.evaluate(a)
            ca = {}
            for x in fr:
                if x.endswith("_dff.Q"):
                    ca[x] = a[x[: -len("_dff.Q")]]
                else:
                    ca[x] = a.get(x, False)
            v = simulate(c, ca)
            for net in defined:
                if net in want and v[net] != want[net]:
                    sig = "bench-read-value"
                    line = [l for l in text.splitlines() if l.split("=")[0].strip() == net]
                    if line and re.search(r"[A-Za-z]\s+\(", line[0].split("=", 1)[1] if "=" in line[0] else ""):
                        sig += ":blank-before-paren"
                    self.fail("search", sig, f"net {net} = {v[net]} but the netlist denotes {want[net]} under {a}", case)
                    return

    def check_roundtrip(self, c):
        case = {"fn": "roundtrip", "c": c_to_json(c)}
        o, text = call(cg.io.circuit_to_bench, c)
        self.search_cases += 1
        if o != "ok":
            self.fail("search", f"bench-write-raised-{o}", f"circuit_to_bench raised {o}", case)
            return
        o, c2 = call(cg.io.bench_to_circuit, text, c.name)
        if o != "ok":
            self.fail("search", f"bench-readback-raised-{o}", f"reading back raised {o}: {text!r}", case)
            return
        consts = [n for n in c.graph.nodes if c.type(n) in ("0", "1")]
        tag = ":with-constants" if consts else ""
        nonid = [n for n in c.graph.nodes if not re.fullmatch(r"[a-zA-Z_][a-zA-Z0-9_]*", n)]
        if c2.inputs() != c.inputs() or c2.outputs() != c.outputs():
            # K46 (narrow): the only nets that went missing are those whose names are not identifiers of the dialect
            lost = (c.inputs() | c.outputs()) - (c2.inputs() | c2.outputs())
            if nonid and lost and lost <= set(nonid) and c2.inputs() <= c.inputs() and c2.outputs() <= c.outputs():
                tag = ":non-identifier-name"
            self.fail("search", "bench-roundtrip-io" + tag, f"io changed: {sorted(c2.inputs())} {sorted(c2.outputs())}", case)
            return
        fr = [x for x in free_nodes(c) if x not in c.inputs()]
        if fr:
            # a circuit that was READ from text and has an undriven net the text does not declare (a mangled operand name)
            self.fail("search", "bench-roundtrip-free-node" + tag, f"the circuit to write has undriven nets {sorted(fr)[:3]!r}", case)
            return
        for a in all_assignments(sorted(c.inputs())):
            v, w = simulate(c, a), simulate(c2, {**{x: False for x in free_nodes(c2)}, **a})
            for o_ in c.outputs():
                if v[o_] != w[o_]:
                    self.fail("search", "bench-roundtrip-value" + tag, f"output {o_}: {v[o_]} before, {w[o_]} after the round trip under {a}", case)
                    return

    def hostile_names(self, c):
        """names the writer's own devices must cope with: the circuit's name goes into the `#` header (K45); the constant
        encoding asks uid for a fresh `<input>_inv` net, so nets already called `<input>_inv`, `<input>_inv_<k>` (dense or
        with gaps) must not be captured"""
        rng = self.rng
        if rng.random() < 0.25:
            x = rng.choice(sorted(c.graph.nodes))
            c = c.copy()
            c.name = rng.choice([f"OUTPUT({x})", "INPUT(zz)", f"{x} = NOT({x})", f"top # OUTPUT({x})", "output ( zz )",
                                 f"q = DFF({x})"])
            self.stats.bump("names:statement-like-circuit-name")
        if rng.random() < 0.3:
            gates = [n for n in sorted(c.graph.nodes) if c.type(n) != "input"]
            ins = sorted(c.inputs())
            rng.shuffle(gates)
            sufs = rng.choice([["_inv"], ["_inv", "_inv_0"], ["_inv", "_inv_1"], ["_inv", "_inv_0", "_inv_2"],
                               ["_inv_0"], ["_inv", "_inv_0", "_inv_1"], ["_inv", "_inv_2", "_inv_3"]])
            mp = {}
            for g, suf in zip(gates, sufs):
                i = rng.choice(ins)
                if i + suf not in c.graph.nodes and i + suf not in mp.values():
                    mp[g] = i + suf
            if mp:
                c = cg.tx.relabel(c, mp)
                self.stats.bump("names:input_inv-taken")
        return c

    def corpus(self):
        rng = self.rng
        # K10: constants
        c = cg.Circuit(name="k")
        c.add("a", "input")
        c.add("z", "0")
        c.add("o", "or", fanin=["a", "z"], output=True)
        c.add("p", "1", output=True)
        self.check_roundtrip(c)
        # K45: comments are not statements (a commented-out line, the writer's own header)
        ast = BenchAst(rng, dff=False, weird_layout=False)
        ast.inputs, ast.gates, ast.dffs, ast.outputs = ["a", "b"], [("o", "and", ["a", "b"])], [], ["o"]
        self.check_read(ast, "INPUT(a)\nINPUT(b)\nOUTPUT(o)\no = AND(a, b) # x = NOT(a)\n#OUTPUT(a)\n# INPUT(zz)\n")
        c = cg.Circuit(name="OUTPUT(a)")
        c.add("a", "input")
        c.add("b", "input")
        c.add("o", "and", fanin=["a", "b"], output=True)
        self.check_roundtrip(c)
        # K46 (known): a net whose name is not an identifier of the dialect is written but cannot be read back
        c = cg.Circuit(name="k46")
        c.add("a", "input")
        c.add("a[0]", "not", fanin="a", output=True)
        self.check_roundtrip(c)
        # K11: blank before the parenthesis; forward-referenced DFF data
        ast = BenchAst(rng, dff=False, weird_layout=False)
        ast.inputs, ast.gates, ast.dffs, ast.outputs = ["a", "b"], [("o", "and", ["a", "b"])], [], ["o"]
        self.check_read(ast, "INPUT(a)\nINPUT(b)\nOUTPUT(o)\no = AND (a, b)\n")
        ast = BenchAst(rng, dff=False, weird_layout=False)
        ast.inputs, ast.gates, ast.dffs, ast.outputs = ["d"], [], [("q2", "q1"), ("q1", "d")], ["q2"]
        self.check_read(ast, "INPUT(d)\nOUTPUT(q2)\nq2 = DFF(q1)\nq1 = DFF(d)\n")

    def search(self, n):
        rng = self.rng
        for i in range(n):
            ast = BenchAst(rng)
            self.check_read(ast, ast.render())
            if i % 3 == 0:
                # history: a circuit whose nodes were first created as forward references (lines out of order) and defined
                # later, then written out again
                ast2 = BenchAst(rng, dff=False)
                o2, c2 = call(cg.io.bench_to_circuit, ast2.render(), "fwd")
                if o2 == "ok" and c2.inputs():
                    self.stats.bump("history:read-then-write")
                    self.check_roundtrip(c2)
            c = gen.circuit(rng, n_in=(1, 4), n_gates=(1, 7), consts=0.3, dead=False, out_inputs=0.1)
            if rng.random() < 0.2:
                # a node whose name starts with an underscore (legal for the reader since K40)
                v = rng.choice(sorted(c.graph.nodes))
                c = cg.tx.relabel(c, {v: "_" + v})
            c = self.hostile_names(c)
            self.check_roundtrip(c)
            self.again_after_edit(c, lambda: self.check_roundtrip(c), p=0.2)
            if self.too_many():
                break

    def replay(self, case):
        if case.get("fn") == "roundtrip":
            self.check_roundtrip(c_from_json(case["c"]))
        else:
            self.search(20)


if __name__ == "__main__":
    run_main(P)
