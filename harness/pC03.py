"""C03 — Verilog write -> read round trip preserves the circuit."""
import os
import tempfile

import gen
import vgen
from common import (cg, c_to_json, c_from_json, canon, canon_c, cdiff, call, ordered, simulate, free_nodes,
                    all_assignments)
from framework import Prop, run_main
from pC02 import synthetic_names


class P(Prop):
    pid = "C03"
    rule = ("random lint-clean circuits (any gate mix and arity, constants, outputs that are inputs or constants, flop "
            "blackboxes with connected/unconnected pins, escaped identifiers), both styles (gate primitives / assign): the "
            "emitted text is compared exactly with the Lean writer model under a controlled set order; the text is read back "
            "(also through to_file/from_file) and name, inputs, outputs, blackbox instances with the net on every pin and the "
            "function of every output and blackbox input are compared; without constants the gate-primitive form must give "
            "an identical graph; non-trivial = >=2 gates")
    assumptions = ["set-iteration order inside the patched run is the model's ordBy(seed) family"]
    budget = {"quick": (120, 120), "thorough": (2500, 1200)}

    def gen_case(self):
        rng = self.rng
        r = rng.random()
        in_names, adversarial = None, 0.0
        if r < 0.2:
            # operand names that alias when the reader joins them with "_": and_s_s_s is both (s_s, s) and (s, s_s)
            fam = rng.choice([["s", "s_s", "s_s_s", "s_s_s_s"], ["x", "x_y", "y", "y_z", "z"]])
            in_names = rng.sample(fam, rng.randint(2, len(fam)))
        elif r < 0.35:
            # nets named like the gates the reader synthesises for assign expressions (known finding K29)
            in_names = rng.sample(["a", "b", "c"], rng.randint(2, 3))
            adversarial = 0.3
        while True:
            c = gen.circuit(rng, n_in=(1, 4), n_gates=(1, 8), max_arity=4, consts=rng.choice([0.0, 0.3]), dead=False,
                            out_inputs=0.15, name=rng.choice(["top", "m1", "circ"]), in_names=in_names, adversarial=adversarial)
            if not {"tie_0", "tie_1", "tie_x"} & set(c.graph.nodes):     # the property excludes the reader's reserved names
                break
        if in_names and adversarial == 0.0 and rng.random() < 0.85:
            # two gates whose operand names join to the same string with different operand sets
            pairs = (["s", "s_s_s_s"], ["s_s", "s_s_s"]) if "s" in fam else (["x_y", "z"], ["x", "y_z"])
            t = rng.choice(["nand", "nor", "xnor"])
            for k, ops in enumerate(pairs):
                for o in ops:
                    if o not in c.graph.nodes:
                        c.add(o, "input")
                c.add(f"al{k}", t, fanin=ops, output=True)
        # constants as outputs sometimes
        for n in list(c.graph.nodes):
            if c.type(n) in ("0", "1") and rng.random() < 0.3:
                c.set_output(n)
        if rng.random() < 0.35:
            # sometimes an instance whose name is an escaped identifier (K37)
            gen.add_flops(rng, c, connect_all=rng.random() < 0.5, inst="\\u$" if rng.random() < 0.2 else "ff")
        if rng.random() < 0.25:
            # escaped identifiers
            victims = [n for n in c.graph.nodes if "." not in n]
            mp = {n: "\\" + n + rng.choice([".x", "[0]", "$", "", "", "(0)", ",en", ";", ")", "(", "[1:0]", "-endmodule", ".module.y", "/input"]) for n in rng.sample(victims, min(2, len(victims)))}
            c = cg.tx.relabel(c, mp)
            # `\\en ` next to `en`: two different nodes for the library
            twins = [v for k, v in mp.items() if v == "\\" + k and c.type(v) == "input"]
            if twins and rng.random() < 0.5:
                tw = twins[0][1:]
                if tw not in c.graph.nodes:
                    c.add(tw, "input")
                    tgt = [g for g in c.graph.nodes if c.type(g) in gen.MULTI]
                    if tgt:
                        c.connect(tw, rng.choice(tgt))
                    else:
                        c.set_output(tw)
        return c

    def correspond(self, n):
        drv = self.driver()
        for i in range(n):
            c = self.gen_case()
            cj = c_to_json(c)
            seed = self.rng.randint(0, 5)
            for beh in (False, True):
                with ordered(seed):
                    o, t = call(cg.io.circuit_to_verilog, c, beh)
                m = drv.ask({"op": "verilog_write", "c": cj, "behavioral": beh, "seed": seed})
                self.corr_cases += 1
                self.stats.case([cj, beh], nontrivial=len(cj["nodes"]) > 3, sample={"c": cj, "behavioral": beh} if i < 1 else None)
                d = f"outcome impl={o} model={m['outcome']}" if m["outcome"] != o else ("" if o != "ok" or t == m["text"] else f"text differs:\n{t}\n---\n{m['text']}")
                if d:
                    self.fail("corr", "verilog-write", d, {"c": cj, "behavioral": beh, "seed": seed})
            if self.too_many():
                break

    def oracle(self, c, beh, via_file=False):
        cj = c_to_json(c)
        case = {"c": cj, "behavioral": beh}
        bbs = list({bb.name: bb for bb in c.blackboxes.values()}.values())
        if via_file:
            with tempfile.TemporaryDirectory(prefix="cgverif_") as td:
                path = os.path.join(td, c.name + ".v")
                # call history: the same path held another design a moment ago (same size: one gate retyped) and was read
                other = c.copy()
                flip = [n for n in other.graph.nodes if other.type(n) in ("and", "nand", "xor", "nor")]
                if flip:
                    n0 = self.rng.choice(sorted(flip))
                    other.set_type(n0, {"and": "xor", "xor": "and", "nand": "xnor", "nor": "xor"}[other.type(n0)])
                    if call(cg.to_file, other, path, "verilog", beh)[0] == "ok":
                        o0, r0 = call(cg.from_file, path, None, None, bbs)
                        if o0 == "ok":
                            gen.poison_result(self.rng, r0)
                        self.stats.bump("history:path-rewritten")
                o, _ = call(cg.to_file, c, path, "verilog", beh)
                if o != "ok":
                    self.fail("search", f"to_file-raised-{o}", f"to_file raised {o}", case)
                    return
                with synthetic_names() as made:
                    o, c2 = call(cg.from_file, path, None, None, bbs)
                captured = set(made) & set(c.graph.nodes)
        else:
            o, text = call(cg.io.circuit_to_verilog, c, beh)
            if o != "ok":
                self.fail("search", f"write-raised-{o}", f"circuit_to_verilog raised {o}", case)
                return
            if self.rng.random() < 0.25:
                o0, r0 = call(cg.io.verilog_to_circuit, text, c.name, False, bbs)
                if o0 == "ok":
                    gen.poison_result(self.rng, r0)
                    self.stats.bump("history:earlier-result-edited")
            with synthetic_names() as made:
                o, c2 = call(cg.io.verilog_to_circuit, text, c.name, False, bbs)
            captured = set(made) & set(c.graph.nodes)
        self.search_cases += 1
        consts = [n for n in c.graph.nodes if c.type(n) in ("0", "1", "x")]
        unconn = any(not c.fanin(f"{i}.{p}") for i, bb in c.blackboxes.items() for p in bb.input_set) or \
            any(not c.fanout(f"{i}.{p}") for i, bb in c.blackboxes.items() for p in bb.output_set)
        tienames = any(n in ("tie_0", "tie_1", "tie_x") for n in c.graph.nodes)
        tag = (":unconnected-pin" if unconn else "") + (":reserved-name" if tienames else "")
        # K48 (narrow): a plain (unescaped) identifier that contains `$` — legal Verilog, written verbatim, not lexed back
        dollar = [n for n in c.graph.nodes if "$" in n and not n.startswith("\\")]
        def S(base):
            # a node of the circuit has exactly the name the reader gave one of its expression gates: known finding K29,
            # whatever the symptom
            return "roundtrip:net-captures-synthetic" if captured else base + tag
        if o != "ok":
            sig = S(f"readback-raised-{o}")
            if dollar and o == "other:UnexpectedCharacters" and not captured:
                sig = "readback-raised-other:UnexpectedCharacters:dollar-identifier"
            # K55 (narrow): an ESCAPED identifier in which `endmodule` stands as a word of its own (`\\x-endmodule`,
            # `\\endmodule`): the module-extraction regex `\bendmodule\b` cuts the text there, the grammar sees a truncated module
            import re as _re
            kw = [n for n in c.graph.nodes if n.startswith("\\") and _re.search(r"\bendmodule\b", n)]
            kw += [i for i in c.blackboxes if i.startswith("\\") and _re.search(r"\bendmodule\b", i)]
            if kw and o == "other:UnexpectedToken" and not captured and not dollar:
                sig = "readback-raised-other:UnexpectedToken:endmodule-in-escaped-name"
            self.fail("search", sig, f"reading the written text back raised {o}", case)
            return
        if c2.name != c.name or c2.inputs() != c.inputs() or c2.outputs() != c.outputs():
            self.fail("search", S("roundtrip-io"), f"name/io changed: {c2.name} {sorted(c2.inputs())} {sorted(c2.outputs())}", case)
            return
        if {k: v.name for k, v in c2.blackboxes.items()} != {k: v.name for k, v in c.blackboxes.items()}:
            self.fail("search", S("roundtrip-blackboxes"), "blackbox instances changed", case)
            return
        for inst, bb in c.blackboxes.items():
            for p in bb.input_set | bb.output_set:
                pin = f"{inst}.{p}"
                a = (c.fanin(pin), c.fanout(pin))
                b = (c2.fanin(pin), c2.fanout(pin)) if pin in c2.graph.nodes else None
                if a != b:
                    self.fail("search", S("roundtrip-pin"), f"pin {pin}: {a} before, {b} after", case)
                    return
        if not consts and not beh and canon_c(c2) != canon_c(c):
            self.fail("search", S("roundtrip-graph"), "gate-primitive form did not round-trip to an identical graph: " +
                      cdiff(canon_c(c), canon_c(c2)), case)
            return
        if c.is_cyclic():
            return
        fr = free_nodes(c)
        if len(fr) > 7:
            return
        watch = list(c.outputs()) + [n for n in c.graph.nodes if c.type(n) == "bb_input"]
        fr2 = free_nodes(c2)
        for a in all_assignments(fr):
            v = simulate(c, a)
            w = simulate(c2, {**{x: False for x in fr2}, **{k: b for k, b in a.items() if k in fr2}})
            for n in watch:
                if c.type(n) == "x" or any(c.type(x) == "x" for x in c.transitive_fanin(n)):
                    continue
                if v[n] != w[n]:
                    self.fail("search", S("roundtrip-value"), f"{n}: {v[n]} before, {w[n]} after under {a}", case)
                    return

    def corpus(self):
        # K48 (known): `a$1` is a legal Verilog identifier; the writer emits it verbatim, the reader's lexer rejects `$`
        c = cg.Circuit("k48")
        c.add("a$1", "input")
        c.add("b", "input")
        c.add("o", "and", fanin=["a$1", "b"], output=True)
        self.oracle(c, False)
        # K55 (known): an escaped identifier that contains the word `endmodule`
        c = cg.Circuit("k55")
        c.add("a", "input")
        c.add("\\x-endmodule", "not", fanin="a", output=True)
        self.oracle(c, False)

    def search(self, n):
        for i in range(n):
            c = self.gen_case()
            self.oracle(c, False)
            self.oracle(c, True)
            self.again_after_edit(c, lambda: (self.oracle(c, False), self.oracle(c, True)), p=0.2)
            if i % 5 == 0:
                self.oracle(c, i % 2 == 0, via_file=True)
            if self.too_many():
                break

    def replay(self, case):
        self.oracle(c_from_json(case["c"]), case["behavioral"])


if __name__ == "__main__":
    run_main(P)
