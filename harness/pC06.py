"""C06 — hierarchical composition is functional substitution."""
import gen
from common import (cg, c_to_json, c_from_json, canon, canon_c, cdiff, call, ordered, simulate, free_nodes,
                    all_assignments)
from framework import Prop, run_main


class P(Prop):
    pid = "C06"
    rule = ("random parent/child pairs of lint-clean acyclic circuits: add_subcircuit with a random connection map (child "
            "inputs fed from arbitrary parent nets, child outputs driving fresh parent buffers), repeated instantiation under "
            "two names, children that contain flop blackboxes; add_blackbox followed by fill_blackbox with a matching child; "
            "strip_blackboxes with and without ignored pins. Structure compared exactly with the Lean model after every call; "
            "values of spliced and pre-existing nodes compared with independent simulation of parent and child for all "
            "valuations; non-trivial = at least one connection")
    assumptions = ["set-iteration order inside the patched run is the model's ordBy(seed) family"]
    budget = {"quick": (150, 120), "thorough": (2500, 2000)}

    def gen_pair(self, child_bb=False):
        rng = self.rng
        parent = gen.circuit(rng, n_in=(1, 4), n_gates=(1, 5), max_arity=3, dead=False, consts=0.1, name="top")
        child = gen.circuit(rng, n_in=(1, 3), n_gates=(1, 4), max_arity=3, dead=False, consts=0.1, p_out=0.5,
                            out_inputs=rng.choice([0.0, 0.0, 0.5]), name="child")
        if child_bb and rng.random() < 0.4:
            gen.add_flops(rng, child, n_flops=(1, 1))
        return parent, child

    def conn_map(self, parent, child, name):
        """child inputs <- random parent nets; child outputs -> fresh parent buffers (added to the parent)"""
        rng = self.rng
        conns = {}
        nets = [n for n in parent.graph.nodes if parent.type(n) not in ("bb_input", "bb_output")]
        for i in sorted(child.inputs()):
            if rng.random() < 0.7:
                conns[i] = rng.choice(nets)
        for o in sorted(child.outputs()):
            if child.type(o) == "input":
                continue   # a feed-through pin (input marked output) is attached as an input above
            if rng.random() < 0.6:
                b = parent.add(f"{name}_to_{o}", "buf", uid=True, output=rng.random() < 0.5)
                conns[o] = b
        return conns

    # ------------------------------------------------------------------ correspondence (exact structure)
    def correspond(self, n):
        drv = self.driver()
        for i in range(n):
            parent, child = self.gen_pair(child_bb=True)
            seed = self.rng.randint(0, 5)
            ops = []
            p = parent.copy()
            for name in self.rng.sample(["u", "s0", "m"], self.rng.randint(1, 2)):
                conns = self.conn_map(p, child, name)
                ops.append(("add_subcircuit", name, child, conns))
            # the buffers were added to p; start both sides from that parent
            start = c_to_json(p)
            model_ops = []
            impl = []
            with ordered(seed):
                q = p.copy()
                for kind, name, ch, conns in ops:
                    o, _ = call(q.add_subcircuit, ch, name, conns)
                    impl.append((o, c_to_json(q)))
                    model_ops.append({"op": "add_subcircuit", "sc": c_to_json(ch), "name": name,
                                      "connections": [[k, [v]] for k, v in conns.items()], "strip_io": True})
                # blackbox + fill
                bbname = "bbx"
                bb = cg.BlackBox("child_t", sorted(child.inputs()), sorted(o for o in child.outputs()))
                bconns = {}
                if not (set(child.inputs()) & set(child.outputs())) and not child.blackboxes:
                    for pin in sorted(child.inputs()):
                        bconns[pin] = self.rng.choice(sorted(p.inputs()))
                    o, _ = call(q.add_blackbox, bb, bbname, bconns)
                    impl.append((o, c_to_json(q)))
                    model_ops.append({"op": "add_blackbox", "bb": [bb.name, sorted(bb.input_set), sorted(bb.output_set)],
                                      "name": bbname, "connections": [[k, [v]] for k, v in bconns.items()]})
                    o, _ = call(q.fill_blackbox, bbname, child)
                    impl.append((o, c_to_json(q)))
                    model_ops.append({"op": "fill_blackbox", "name": bbname, "sc": c_to_json(child)})
                o, sb = call(cg.tx.strip_blackboxes, q, self.rng.choice([None, "clk", ["clk", "d"]]))
            r = drv.ask({"op": "apply", "c": start, "ops": model_ops, "seed": seed})
            self.corr_cases += 1
            self.stats.case([start, model_ops], nontrivial=any(op.get("connections") for op in model_ops),
                            sample={"start": start, "ops": [o["op"] for o in model_ops]} if i < 1 else None)
            for j, (st, (o, cj)) in enumerate(zip(r["steps"], impl)):
                self.stats.bump(f"{model_ops[j]['op']}:{o}")
                d = f"outcome impl={o} model={st['outcome']}" if st["outcome"] != o else cdiff(canon(cj, True), canon(st["c"], True))
                if d:
                    self.fail("corr", "compose:" + model_ops[j]["op"], f"step {j}: {d}",
                              {"start": start, "ops": model_ops[:j + 1], "seed": seed})
                    break
            if self.too_many():
                break

    # ------------------------------------------------------------------ oracle: values
    def oracle_add(self, parent, child, name, self_add=False):
        p = parent.copy()
        hist = None
        if self_add:
            # the circuit added into itself (K44): the child is the parent object as it is when the call is made
            child = p.copy()
            nets = [n for n in p.graph.nodes if p.type(n) not in ("bb_input", "bb_output")]
            conns = {i: self.rng.choice(nets) for i in sorted(child.inputs()) if self.rng.random() < 0.6}
            self.stats.bump("history:self-add")
        else:
            if self.rng.random() < 0.35:
                # the SAME child object was instantiated before (into another parent) and then edited in place without
                # changing its number of nodes: the second instantiation must follow the child as it is now
                scratch = parent.copy()
                call(scratch.add_subcircuit, child, "pre", {i: self.rng.choice(sorted(scratch.inputs())) for i in sorted(child.inputs())})
                before = c_to_json(child)
                r = self.rng.random()
                internal = [n for n in sorted(child.graph.nodes) if child.type(n) not in ("input", "bb_input", "bb_output")
                            and not child.is_output(n)]
                if r < 0.3 and internal:
                    child.set_output(self.rng.choice(internal))
                    hist = "child:set_output"
                elif r < 0.5 and len(child.inputs()) > 1:
                    i = self.rng.choice(sorted(child.inputs()))
                    if not child.is_output(i):
                        child.set_type(i, self.rng.choice(["0", "1"]))
                        hist = "child:input-tied"
                elif r < 0.65 and internal:
                    g = self.rng.choice(internal)
                    child.disconnect(list(child.fanin(g)), g)
                    child.set_type(g, "input")
                    hist = "child:gate-to-input"
                else:
                    e = gen.inplace_edit(self.rng, child, exclude=("add_sub", "fill", "relabel"))
                    hist = "child:" + (e or {}).get("op", "none") if e else None
                if hist:
                    self.stats.bump("history:" + hist)
            conns = self.conn_map(p, child, name)
        case = {"fn": "add_subcircuit", "parent": c_to_json(p), "child": c_to_json(child), "name": name, "connections": conns,
                "self_add": self_add, "child_history": hist}
        before_io = (set(p.inputs()), set(p.outputs()))
        q = p.copy()
        o, _ = call(q.add_subcircuit, q if self_add else child, name, conns)
        self.search_cases += 1
        if o != "ok":
            clash = any(f"{name}_{x}" in p.graph.nodes for x in child.graph.nodes)
            if o == "ValueError" and clash:
                return
            self.fail("search", f"add_subcircuit-raised-{o}", f"add_subcircuit raised {o}", case)
            return
        if (set(q.inputs()), set(q.outputs())) != before_io:
            self.fail("search", "add_subcircuit-parent-io", "the parent's input/output lists changed", case)
            return
        for inst, bb in child.blackboxes.items():
            if q.blackboxes.get(f"{name}_{inst}") is not bb:
                self.fail("search", "add_subcircuit-sub-blackbox", f"sub-blackbox {inst} not carried over as {name}_{inst}", case)
                return
        if q.is_cyclic() or child.blackboxes:
            return
        fr = free_nodes(q)
        if len(fr) > 8:
            return
        for a in all_assignments(fr):
            v = simulate(q, a)
            # child inputs take the values of the attached nets (free otherwise)
            ca = {}
            for i in child.inputs():
                ca[i] = v[conns[i]] if i in conns else a[f"{name}_{i}"]
            cv = simulate(child, ca)
            for x in child.graph.nodes:
                if v[f"{name}_{x}"] != cv[x]:
                    self.fail("search", "add_subcircuit-spliced-value", f"{name}_{x}={v[name + '_' + x]} but child computes {cv[x]}", case)
                    return
            # pre-existing nodes keep their function (buffers now driven by child outputs are the intended exception)
            driven = {conns[o_] for o_ in conns if o_ not in child.inputs()}
            pa = {i: a[i] for i in free_nodes(p) if i not in driven}
            for b in driven:
                pa[b] = v[b]
            pv = simulate(p, pa)
            for x in p.graph.nodes:
                if pv[x] != v[x]:
                    self.fail("search", "add_subcircuit-parent-value", f"pre-existing node {x} changed value", case)
                    return
            for o_, b in conns.items():
                if o_ not in child.inputs() and v[b] != cv[o_]:
                    self.fail("search", "add_subcircuit-output-connection", f"buffer {b} != child output {o_}", case)
                    return

    def oracle_fill(self, parent, child):
        if set(child.inputs()) & set(child.outputs()) or child.blackboxes:
            return
        p = parent.copy()
        bb = cg.BlackBox("child_t", sorted(child.inputs()), sorted(child.outputs()))
        conns = {}
        nets = sorted(n for n in p.graph.nodes)
        for pin in sorted(child.inputs()):
            conns[pin] = self.rng.choice(nets)
        outs = {}
        for pin in sorted(child.outputs()):
            outs[pin] = p.add(f"from_{pin}", "buf", uid=True, output=True)
        conns.update(outs)
        case = {"fn": "fill_blackbox", "parent": c_to_json(p), "child": c_to_json(child), "connections": conns}
        q = p.copy()
        order = self.rng.random() < 0.5
        o, _ = call(q.add_blackbox, bb, "u", conns)
        self.search_cases += 1
        if o != "ok":
            self.fail("search", f"add_blackbox-raised-{o}", "add_blackbox raised", case)
            return
        # interleave an unrelated edit between add_blackbox and fill (any order)
        if order:
            q.add("late_in", "input", uid=True)
        # bystander instances whose names END in the filled instance's name (`v_u`, `zu`, as add_subcircuit's prefixing makes
        # them): filling `u` must leave their pins, wiring and registry entries alone
        bystanders = {}
        if self.rng.random() < 0.5:
            for bn in self.rng.sample(["v_u", "zu", "u_u", "uu"], 2):
                if bn in q.blackboxes or any(x.startswith(bn + ".") or x.startswith(bn + "_") for x in q.graph.nodes):
                    continue
                by = cg.BlackBox("by_t", ["d", "en"], ["q"])
                qn = q.add(f"{bn}_net", "buf", uid=True, output=True)
                o_b, _ = call(q.add_blackbox, by, bn, {"d": self.rng.choice(nets), "q": qn})
                if o_b == "ok":
                    bystanders[bn] = {pin: (q.type(f"{bn}.{pin}"), sorted(q.fanin(f"{bn}.{pin}")), sorted(q.fanout(f"{bn}.{pin}")))
                                      for pin in ("d", "en", "q")}
            case = dict(case, bystanders=sorted(bystanders))
        o, _ = call(q.fill_blackbox, "u", child)
        for bn, pins in bystanders.items():
            now = {pin: ((q.type(f"{bn}.{pin}"), sorted(q.fanin(f"{bn}.{pin}")), sorted(q.fanout(f"{bn}.{pin}")))
                         if f"{bn}.{pin}" in q.graph.nodes else None) for pin in pins}
            if bn not in q.blackboxes or now != pins:
                self.fail("search", "fill-touches-other-instance", f"filling `u` changed the unrelated instance `{bn}`: "
                          f"{ {k: v for k, v in now.items() if v != pins[k]} }", case)
                return
        if o != "ok":
            clash = any(f"u_{x}" in p.graph.nodes for x in child.graph.nodes)
            if o == "ValueError" and clash:
                return
            self.fail("search", f"fill_blackbox-raised-{o}", f"fill_blackbox raised {o}", case)
            return
        if "u" in q.blackboxes or any(n.startswith("u.") for n in q.graph.nodes):
            self.fail("search", "fill-instance-survives", "the filled blackbox did not disappear", case)
            return
        if self.rng.random() < 0.4:
            # a second instance of the SAME BlackBox object, added and filled after the first: the description object
            # must not have been changed by the first round
            q2 = q.copy()
            conns2 = {pin: self.rng.choice(nets) for pin in sorted(child.inputs())}
            conns2.update({pin: q2.add(f"from2_{pin}", "buf", uid=True, output=True) for pin in sorted(child.outputs())})
            o1, _ = call(q2.add_blackbox, bb, "v", conns2)
            o2, _ = call(q2.fill_blackbox, "v", child) if o1 == "ok" else ("skipped", None)
            if (o1, o2) != ("ok", "ok") and not any(f"v_{x}" in q.graph.nodes or f"v.{x}" in q.graph.nodes for x in child.graph.nodes):
                self.fail("search", "fill-second-instance", f"second instance of the same BlackBox object: add_blackbox -> {o1}, "
                          f"fill_blackbox -> {o2} (inputs {sorted(bb.inputs())}, outputs {sorted(bb.outputs())})", case)
                return
        if q.is_cyclic():
            return
        fr = free_nodes(q)
        if len(fr) > 8:
            return
        for a in all_assignments(fr):
            v = simulate(q, a)
            ca = {i: v[conns[i]] for i in child.inputs()}
            cv = simulate(child, ca)
            for x in child.graph.nodes:
                if v[f"u_{x}"] != cv[x]:
                    self.fail("search", "fill-spliced-value", f"u_{x}={v['u_' + x]} but child computes {cv[x]}", case)
                    return
            for pin, b in outs.items():
                if v[b] != cv[pin]:
                    self.fail("search", "fill-output", f"net {b} != child output {pin}", case)
                    return

    FFX = cg.BlackBox("ffx", ["clk", "cl", "d"], ["q"])

    def oracle_strip(self, c):
        r = self.rng.random()
        if r < 0.15:
            # two pins whose exposed names coincide (u.a_b and u_a.b -> u_a_b): must be rejected, not merged (K32)
            ins = sorted(c.inputs())
            c.add_blackbox(cg.BlackBox("m1", ["a_b"], ["z"]), "u", {"a_b": self.rng.choice(ins)})
            c.add_blackbox(cg.BlackBox("m2", ["b"], []), "u_a", {"b": self.rng.choice(ins)})
            ign = self.rng.choice([None, "z", "b"])
        elif r < 0.55:
            gen.add_flops(self.rng, c, n_flops=(1, 2))
            ign = self.rng.choice([None, "clk", ["clk"]])
        else:
            # pin names that contain one another: `ignore_pins` may be a str or a list of str
            gen.add_flops(self.rng, c, n_flops=(1, 2), bb=self.FFX, connect_all=False)
            for inst in list(c.blackboxes):
                if not c.fanin(f"{inst}.cl"):
                    c.connect(self.rng.choice(sorted(c.inputs())), f"{inst}.cl")
            ign = self.rng.choice(["clk", ["clk"], "cl", ["cl", "clk"], None])
        drv = self.driver()
        seed = self.rng.randint(0, 5)
        with ordered(seed):
            o_i, s_i = call(cg.tx.strip_blackboxes, c, ign)
        m = drv.ask({"op": "strip_blackboxes", "c": c_to_json(c), "seed": seed,
                     "ignore_pins": [] if ign is None else ([ign] if isinstance(ign, str) else ign)})
        d = f"outcome impl={o_i} model={m['outcome']}" if m["outcome"] != o_i else (cdiff(canon_c(s_i), canon(m["c"])) if o_i == "ok" else "")
        if d:
            self.fail("corr", "strip_blackboxes", d, {"c": c_to_json(c), "ignore_pins": ign, "seed": seed})
        case = {"fn": "strip_blackboxes", "c": c_to_json(c), "ignore_pins": ign}
        o, s = call(cg.tx.strip_blackboxes, c, ign)
        self.search_cases += 1
        if o != "ok":
            ignl0 = [] if ign is None else ([ign] if isinstance(ign, str) else ign)
            kept = [n.replace(".", "_") for n in c.graph.nodes if "." in n and n.split(".")[-1] not in ignl0]
            clash = any(k in c.graph.nodes for k in kept) or len(set(kept)) < len(kept)
            if not (o == "ValueError" and clash):
                self.fail("search", f"strip_blackboxes-raised-{o}", f"strip_blackboxes raised {o}", case)
            return
        if s.blackboxes:
            self.fail("search", "strip-registry", "blackbox registry not empty", case)
            return
        for n in c.graph.nodes:
            t = c.type(n)
            if t in ("bb_input", "bb_output"):
                pin = n.split(".")[-1]
                new = n.replace(".", "_")
                if ign and (pin == ign if isinstance(ign, str) else pin in ign):
                    ignl1 = [ign] if isinstance(ign, str) else list(ign)
                    others = {m.replace(".", "_") for m in c.graph.nodes if "." in m and m.split(".")[-1] not in ignl1}
                    if n in s.graph.nodes or (new in s.graph.nodes and new not in others):
                        self.fail("search", "strip-ignored-pin", f"ignored pin {n} survived", case)
                        return
                elif t == "bb_input" and not (new in s.graph.nodes and s.type(new) == "buf" and s.is_output(new)
                                              and set(s.graph.predecessors(new)) == set(c.graph.predecessors(n))):
                    self.fail("search", "strip-bb-input", f"pin {n} not exposed as output buffer {new}", case)
                    return
                elif t == "bb_output" and not (new in s.graph.nodes and s.type(new) == "input"
                                               and set(s.graph.successors(new)) == set(c.graph.successors(n))):
                    self.fail("search", "strip-bb-output", f"pin {n} not exposed as input {new}", case)
                    return
            else:
                keep = lambda x: x.replace(".", "_") if "." in x else x  # noqa: E731
                ignl = [] if ign is None else ([ign] if isinstance(ign, str) else ign)
                want = {keep(x) for x in c.graph.predecessors(n) if not ("." in x and x.split(".")[-1] in ignl)}
                if n not in s.graph.nodes or s.type(n) != t or set(s.graph.predecessors(n)) != want:
                    self.fail("search", "strip-other-node", f"node {n} changed", case)
                    return

    def corpus(self):
        # K44: a circuit added into itself (with a flop inside, and one input fed from its own gate)
        c = cg.Circuit("top")
        c.add("a", "input")
        c.add("b", "input")
        c.add("g", "and", fanin=["a", "b"], output=True)
        gen.add_flops(self.rng, c, n_flops=(1, 1))
        self.oracle_add(c, c, "u", self_add=True)

    def search(self, n):
        for i in range(n):
            parent, child = self.gen_pair(child_bb=(i % 5 == 0))
            k = i % 3
            if k == 0:
                self.oracle_add(parent, child, self.rng.choice(["u", "s0", "m"]), self_add=(i % 12 == 9))
            elif k == 1:
                self.oracle_fill(parent, child)
            else:
                self.oracle_strip(parent)
            if self.too_many():
                break

    def replay(self, case):
        self.search(30)


if __name__ == "__main__":
    run_main(P)
