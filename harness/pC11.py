"""C11 — sensitivity analyses agree with their definitions."""
from fractions import Fraction

import gen
from common import (cg, c_to_json, c_from_json, canon, canon_c, cdiff, call, ordered, simulate, free_nodes,
                    all_assignments)
from framework import Prop, run_main


def flip_effects(c, n):
    """for every valuation of the inputs of c: (assignment, set of startpoints of n whose flip flips n)"""
    ins = sorted(c.inputs())
    sp = sorted(c.startpoints(n))
    out = []
    for a in all_assignments(ins):
        v = simulate(c, a)
        fl = set()
        for s in sp:
            a2 = dict(a)
            a2[s] = not a2[s]
            if simulate(c, a2)[n] != v[n]:
                fl.add(s)
        out.append((a, fl))
    return out


def invert_changes(c, n, endpoints):
    """for every input valuation: does forcing n to its complement change one of the endpoints?"""
    ins = sorted(c.inputs())
    res = []
    order = list(cg.nx.topological_sort(c.graph)) if hasattr(cg, "nx") else None
    import networkx as nx
    from common import gate_fn
    for a in all_assignments(ins):
        v = simulate(c, a)
        w = {}
        for x in nx.topological_sort(c.graph):
            if x == n:
                w[x] = not v[n]
                continue
            t = c.type(x)
            b = gate_fn(t, [w[p] for p in c.graph.predecessors(x)])
            w[x] = a[x] if b is None else bool(b)
        res.append((a, any(v[e] != w[e] for e in endpoints)))
    return res


RESERVED = ("c0_", "c1_", "dif_", "orig_", "inv_", "pc_", "sen_out_")


def reserved_clash(c):
    """node names that collide with the names the transforms synthesise: the code rejects those with ValueError"""
    return any(n == "sat" or n.startswith(RESERVED) for n in c.graph.nodes)


class P(Prop):
    pid = "C11"
    rule = ("random lint-clean blackbox-free acyclic circuits with 1-5 inputs and 1-8 gates; every node (inputs, internal, "
            "outputs, functionally constant ones) as n; sensitization_transform (default and selected endpoints) and "
            "sensitivity_transform compared exactly with the Lean model; sat/dif_out/sen_out, sensitize, sensitivity, "
            "influence and avg_sensitivity compared with brute-force definitions over all valuations; non-trivial = n has >=2 "
            "startpoints")
    assumptions = ["pysat absent: shim DPLL", "set-iteration order inside the patched run is the model's ordBy(seed) family"]
    budget = {"quick": (120, 80), "thorough": (1000, 600)}

    def gen_case(self):
        rng = self.rng
        return gen.circuit(rng, n_in=(1, 5), n_gates=(1, 8), max_arity=3, consts=0.15, dead=False, out_inputs=0.1,
                           adversarial=rng.choice([0, 0, 0.2]))

    def correspond(self, n):
        drv = self.driver()
        for i in range(n):
            c = self.gen_case()
            cj = c_to_json(c)
            seed = self.rng.randint(0, 5)
            nodes = sorted(c.graph.nodes)
            for nd in self.rng.sample(nodes, min(3, len(nodes))):
                eps = []
                if self.rng.random() < 0.5:
                    cand = sorted(c.transitive_fanout(nd))
                    if cand:
                        eps = [self.rng.choice(cand)]
                with ordered(seed):
                    o, r = call(cg.tx.sensitization_transform, c, nd, eps or None)
                m = drv.ask({"op": "sensitization_transform", "c": cj, "n": nd, "endpoints": eps, "seed": seed})
                self.cmp("sensitization_transform", o, r, m, {"c": cj, "n": nd, "endpoints": eps, "seed": seed})
                with ordered(seed):
                    o, r = call(cg.tx.sensitivity_transform, c, nd)
                m = drv.ask({"op": "sensitivity_transform", "c": cj, "n": nd, "seed": seed})
                self.cmp("sensitivity_transform", o, r, m, {"c": cj, "n": nd, "seed": seed})
                self.stats.case([cj, nd], nontrivial=len(c.startpoints(nd)) >= 2, sample={"c": cj, "n": nd} if i < 1 else None)
                # the analyses themselves, against their models run with the DPLL instance of the solver contract
                if len(c.inputs()) <= 5:
                    self.cmp_analyses(drv, c, cj, nd, seed)
            if self.too_many():
                break

    def cmp_analyses(self, drv, c, cj, nd, seed):
        case = {"c": cj, "n": nd, "seed": seed}
        o, r = call(cg.props.sensitize, c, nd)
        m = drv.ask({"op": "sensitize", "c": cj, "n": nd, "seed": seed})
        self.corr_cases += 1
        if m["outcome"] != o or (o == "ok" and (r is not None) != m["sat"]):
            self.fail("corr", "sensitize", f"sensitize({nd}): impl={o},{r} model={m}", dict(case, op="sensitize"))
        o, r = call(cg.props.sensitivity, c, nd)
        m = drv.ask({"op": "sensitivity", "c": cj, "n": nd, "seed": seed})
        self.corr_cases += 1
        if m["outcome"] != o or (o == "ok" and r != m["r"]):
            self.fail("corr", "sensitivity", f"sensitivity({nd}): impl={o},{r} model={m}", dict(case, op="sensitivity"))
        o, r = call(cg.props.influence, c, nd, approx=False)
        m = drv.ask({"op": "influence", "c": cj, "n": nd, "seed": seed})
        self.corr_cases += 1
        d = ""
        if m["outcome"] != o:
            d = f"outcome impl={o} model={m['outcome']}"
        elif o == "ok":
            mod = {s: cnt / 2 ** k for s, cnt, k in m["r"]}
            if set(mod) != set(r) or any(abs(mod[s] - r[s]) > 1e-12 for s in r):
                d = f"impl={r} model={mod}"
        if d:
            self.fail("corr", "influence", f"influence({nd}): {d}", dict(case, op="influence"))
        o, r = call(cg.props.avg_sensitivity, c, nd, approx=False)
        m = drv.ask({"op": "avg_sensitivity", "c": cj, "n": nd, "seed": seed})
        self.corr_cases += 1
        if m["outcome"] != o or (o == "ok" and abs(m["tot"] / 2 ** m["k"] - r) > 1e-12):
            self.fail("corr", "avg_sensitivity", f"avg_sensitivity({nd}): impl={o},{r} model={m}", dict(case, op="avg_sensitivity"))

    def cmp(self, op, o, r, m, case):
        self.corr_cases += 1
        d = ""
        if m["outcome"] != o:
            d = f"outcome impl={o} model={m['outcome']}"
        elif o == "ok":
            d = cdiff(canon_c(r), canon(m["c"]))
        if d:
            self.fail("corr", op, f"{op}: {d}", dict(case, op=op))

    # ------------------------------------------------------------------ oracles
    def oracle(self, c, nd):
        cj = c_to_json(c)
        case = {"c": cj, "n": nd}
        ins = sorted(c.inputs())
        sp = sorted(c.startpoints(nd))
        if not sp or len(ins) > 6:
            return
        effects = flip_effects(c, nd)
        self.search_cases += 1
        # --- sensitization_transform / sensitize
        for eps in (None, [self.rng.choice(sorted(c.transitive_fanout(nd)))] if c.transitive_fanout(nd) else None):
            o, m = call(cg.tx.sensitization_transform, c, nd, eps)
            outs = sorted(c.outputs()) if not eps else eps
            if o != "ok":
                if o == "ValueError" and reserved_clash(c):
                    self.stats.bump("legit-name-clash")
                    return
                self.fail("search", f"sensitization_transform-raised-{o}", f"sensitization_transform({nd},{eps}) raised {o}", case)
                return
            want = invert_changes(c, nd, [e for e in outs])
            if eps:
                # the transform works on the cone of the endpoints only
                want = [(a, b) for a, b in want]
            fr = free_nodes(m)
            for a, ch in want:
                am = {k: a[k] for k in fr if k in a}
                if set(am) != set(fr):
                    break
                v = simulate(m, am)
                if v["sat"] != ch:
                    self.fail("search", "sensitization-sat", f"sat={v['sat']} but inverting {nd} changes an endpoint={ch} under {a}",
                              dict(case, endpoints=eps))
                    return
            if not eps:
                o2, r2 = call(cg.props.sensitize, c, nd)
                exists = any(ch for _, ch in want)
                if o2 != "ok" or (r2 is None) != (not exists):
                    self.fail("search", "sensitize", f"sensitize({nd}) = {r2 if o2 == 'ok' else o2}, a sensitizing valuation exists = {exists}", case)
                    return
                if r2 is not None:
                    hit = [ch for a, ch in want if all(a[k] == r2[k] for k in a if k in r2)]
                    if not hit or not all(hit):
                        self.fail("search", "sensitize-valuation", f"sensitize({nd}) returned {r2}, which does not sensitize", case)
                        return
        # --- sensitivity_transform
        o, s = call(cg.tx.sensitivity_transform, c, nd)
        if o != "ok":
            if o == "ValueError" and reserved_clash(c):
                self.stats.bump("legit-name-clash")
                return
            self.fail("search", f"sensitivity_transform-raised-{o}", f"sensitivity_transform({nd}) raised {o}", case)
            return
        k = cg.utils.clog2(len(sp) + 1)
        for a, fl in effects:
            am = {x: a[x] for x in sp}
            if set(free_nodes(s)) != set(sp):
                self.fail("search", "sensitivity_transform-inputs", f"free nodes {sorted(free_nodes(s))} != startpoints {sp}", case)
                return
            v = simulate(s, am)
            for x in sp:
                if v[f"dif_out_{x}"] != (x in fl):
                    self.fail("search", "sensitivity-dif_out", f"dif_out_{x}={v[f'dif_out_{x}']} but flipping flips={x in fl} under {a}", case)
                    return
            cnt = sum(1 << i for i in range(k) if v[f"sen_out_{i}"])
            if cnt != len(fl):
                self.fail("search", "sensitivity-sen_out", f"sen_out encodes {cnt}, {len(fl)} startpoints flip n under {a}", case)
                return
        # --- props
        want_sens = max(len(fl) for _, fl in effects)
        o, r = call(cg.props.sensitivity, c, nd)
        if o != "ok" or r != want_sens:
            self.fail("search", "sensitivity" + (":input" if nd in sp else ""),
                      f"sensitivity({nd}) = {r if o == 'ok' else o}, maximum over valuations = {want_sens}", case)
            return
        o, r = call(cg.props.influence, c, nd, approx=False)
        # influence is defined over the startpoints of n only
        nvals = len(effects)
        want_inf = {x: Fraction(sum(1 for _, fl in effects if x in fl), nvals) for x in sp}
        if o != "ok":
            self.fail("search", f"influence-raised-{o}" + (":on-a-startpoint" if nd in sp else ""),
                      f"influence({nd}) raised {o}", case)
            return
        got = {x: Fraction(y).limit_denominator(2 ** 20) for x, y in r.items()}
        if got != want_inf:
            self.fail("search", "influence", f"influence({nd}) = {got}, definition gives {want_inf}", case)
            return
        o, r = call(cg.props.avg_sensitivity, c, nd, approx=False)
        if o != "ok" or Fraction(r).limit_denominator(2 ** 20) != sum(want_inf.values()):
            self.fail("search", "avg_sensitivity", f"avg_sensitivity({nd}) = {r if o == 'ok' else o} != {sum(want_inf.values())}", case)

    def search(self, n):
        # call history: population counters obtained and edited by the caller earlier must not leak into the transforms
        gen.poison_generators(self.rng, widths=(1, 2, 3, 4, 5, 6))
        self.stats.bump("history:poisoned-generator-results")
        for i in range(n):
            c = self.gen_case()
            nodes = sorted(c.graph.nodes)
            for nd in self.rng.sample(nodes, min(3, len(nodes))):
                self.oracle(c, nd)
                self.again_after_edit(c, lambda: self.oracle(c, nd), p=0.15, exclude=("relabel",))
            if self.too_many():
                break

    def corpus(self):
        c = cg.Circuit()
        c.add("a", "input")
        c.add("b", "input")
        c.add("o", "and", fanin=["a", "b"], output=True)
        self.oracle(c, "a")   # K17: influence of an input

    def replay(self, case):
        self.oracle(c_from_json(case["c"]), case["n"])


if __name__ == "__main__":
    run_main(P)
