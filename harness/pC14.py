"""C14 — the fast Verilog parser agrees with the full parser on its documented subset."""
import glob
import os
import re

import gen
import vgen
from common import (cg, c_to_json, c_from_json, canon, canon_c, cdiff, call, ordered, simulate, free_nodes,
                    all_assignments, REPO)
from framework import Prop, run_main


def fast_patterns():
    pats = []
    orig_f, orig_s = re.findall, re.search

    def rf(p, s, flags=0):
        pats.append((p, int(flags)))
        return orig_f(p, s, flags)

    def rs(p, s, flags=0):
        pats.append((p, int(flags)))
        return orig_s(p, s, flags)
    re.findall, re.search = rf, rs
    try:
        cg.io.verilog_to_circuit("module m (a, o);\n input a;\n output o;\n ff u (.d(a), .q(o));\n not g (o, a);\n assign o = a;\nendmodule\n",
                                 "m", False, [cg.BlackBox("ff", ["d"], ["q"])], fast=True)
    except Exception:  # noqa: BLE001
        pass
    finally:
        re.findall, re.search = orig_f, orig_s
    out = []
    for p in pats:
        if p not in out:
            out.append(p)
    return out


def norm(cj):
    """canonical form up to the name of the shared constant nodes and missing-vs-False output marks"""
    ren = {"tie0": "TIE0", "tie_0": "TIE0", "tie1": "TIE1", "tie_1": "TIE1"}
    c = canon(cj)
    nodes = sorted((ren.get(n, n), t, bool(o)) for n, t, o in c["nodes"])
    edges = sorted((ren.get(u, u), ren.get(v, v)) for u, v in c["edges"])
    return {"name": c["name"], "nodes": nodes, "edges": edges, "bbs": c["bbs"]}


class P(Prop):
    pid = "C14"
    rule = ("random netlists of the fast parser's documented subset (single module, no comments, named primitive instances "
            "one per statement with nets or 1'b0/1'b1 operands, assigns of a net or constant, named-port blackbox instances "
            "incl. unconnected pins, all outputs driven, header and instances closed by `);`) with random spaces/tabs/"
            "newlines everywhere except between `)` and `;`, statement order shuffled: fast parser vs Lean model (exact), fast "
            "vs full parser (same io, blackboxes, pins, graph up to the constant nodes' names, same function), plus the "
            "regular expressions on random text vs CPython re, plus bundled library netlists that satisfy the restrictions; "
            "non-trivial = >=2 statements")
    assumptions = ["CPython `re` is modelled by CG/Regex.lean (differential-tested here on the extracted patterns)",
                   "set-iteration order inside the patched run is the model's ordBy(seed) family; the fast parser's plain "
                   "`inputs` set only affects node insertion order, which canonical comparison ignores"]
    budget = {"quick": (100, 100), "thorough": (2000, 2500)}

    def gen_case(self):
        rng = self.rng
        # two cell libraries with the same module names: each call must use the definitions it is given
        m = vgen.Module(rng, blackboxes=rng.choice([vgen.FLOPS, vgen.FLOPS_ALT]) if rng.random() < 0.4 else (), restricted=True)
        # all declared outputs must be driven: make input-outputs go through a buffer? (an output that is an input is driven)
        text = self.render(m)
        return m, text

    def render(self, m):
        """layout within the documented restrictions"""
        rng = self.rng

        def sp():
            return rng.choice(["", " ", "  ", "\t", "\n  "])

        def ws():
            return rng.choice([" ", "  ", "\t", "\n"])
        ports = m.inputs + [o for o in m.outputs if o not in m.inputs]
        head = f"module{ws()}{m.name}{sp()}({sp()}{(',' + sp()).join(ports)}{sp()});"
        items = []
        for grp, kw in ((m.inputs, "input"), (m.outputs, "output"), (m.wires, "wire")):
            grp = list(grp)
            while grp:
                k = rng.randint(1, len(grp))
                items.append(f"{kw} {(sp() + ',' + sp()).join(grp[:k])}{sp()};")
                grp = grp[k:]
        for st in m.stmts:
            if st[0] == "assign":
                e = st[2]
                rhs = e.name if e.op == "id" else ("1'b" + e.name)
                items.append(f"assign{ws()}{st[1]}{sp()}={sp()}{rhs}{sp()};")
            elif st[0] == "gate":
                ops = [(o.name if o.op == "id" else "1'b" + o.name) for o in st[4]]
                items.append(f"{st[1]}{ws()}{st[2]}{sp()}({sp()}{(sp() + ',' + sp()).join([st[3]] + ops)}{sp()});")
            else:
                conns = []
                for pin, net in st[3].items():
                    if net == "__omit__":
                        continue
                    conns.append(f".{pin}{sp() if rng.random() < 0.3 else ''}({sp()}{net or ''}{sp()})")
                # the fast parser documents `.a(x), .b(y)`; the blank after the comma is what writers emit
                sep = "," + rng.choice([" ", "  ", "\n  ", "\t"])
                items.append(f"{st[1]}{ws()}{st[2]}{sp() or ' '}({sp()}{sep.join(conns)}{sp()});")
        if rng.random() < 0.5:
            rng.shuffle(items)
        return head + "\n" + "".join(x + rng.choice(["\n", "\n\n", " "]) for x in items) + "endmodule\n"

    def correspond(self, n):
        drv = self.driver()
        pats = fast_patterns()
        rng = self.rng
        for i in range(n):
            m, text = self.gen_case()
            flops = list(m.bbs) or list(vgen.FLOPS)
            bbj = [[b.name, sorted(b.input_set), sorted(b.output_set)] for b in flops]
            junk = "".join(rng.choice("ab_1 ();,.\n\tinputassignendmodule'") for _ in range(rng.randint(0, 50)))
            for p, flags in pats:
                for t in (text, junk):
                    want = [list(x) if isinstance(x, tuple) else [x] for x in re.findall(p, t, flags)]
                    mm = drv.ask({"op": "re_findall", "pattern": p, "text": t, "dotall": bool(flags & re.DOTALL)})
                    self.corr_cases += 1
                    if mm["outcome"] != "ok" or mm["r"] != want:
                        self.fail("corr", "regex-engine", f"findall({p!r}) differs: re={want} model={mm.get('r')}",
                                  {"pattern": p, "text": t, "flags": flags})
            seed = rng.randint(0, 5)
            with ordered(seed):
                o, c = call(cg.io.verilog_to_circuit, text, m.name, False, flops, False, False, True)
            mm = drv.ask({"op": "fast_verilog_read", "text": text, "bbs": bbj, "seed": seed})
            self.corr_cases += 1
            self.stats.case(text, nontrivial=len(m.stmts) >= 2, sample={"text": text} if i < 2 else None)
            self.stats.bump(f"fast:{o}")
            d = f"outcome impl={o} model={mm['outcome']}" if mm["outcome"] != o else (cdiff(canon_c(c), canon(mm["c"])) if o == "ok" else "")
            if d:
                self.fail("corr", "fast-read", d, {"text": text, "seed": seed})
            if self.too_many():
                break

    def compare(self, text, name, bbs, tag="", valid=False):
        case = {"text": text, "name": name, "bbs": [[b.name, sorted(b.input_set), sorted(b.output_set)] for b in bbs]}
        if self.rng.random() < 0.3:
            # call history: earlier results of the very same calls, edited in place by their owner
            for fast in (False, True):
                o0, c0 = call(cg.io.verilog_to_circuit, text, name, False, bbs, False, False, fast)
                if o0 == "ok":
                    gen.poison_result(self.rng, c0)
            self.stats.bump("history:earlier-result-edited")
        o1, c1 = call(cg.io.verilog_to_circuit, text, name, False, bbs, False, False, False)
        o2, c2 = call(cg.io.verilog_to_circuit, text, name, False, bbs, False, False, True)
        self.search_cases += 1
        if o1 != "ok":
            if valid and o2 == "ok":
                # a generated netlist of the subset (valid by construction): the reference parser must accept it
                self.fail("search", f"full-raised-{o1}" + tag, f"the fast parser accepts but the full parser raised {o1}", case)
                return
            self.stats.bump("full-parser-rejects")
            return
        if o2 != "ok":
            self.fail("search", f"fast-raised-{o2}" + tag, f"full parser accepts but the fast parser raised {o2}", case)
            return
        a, b = norm(c_to_json(c1)), norm(c_to_json(c2))
        if a != b:
            d = cdiff({k: (list(map(tuple, v)) if isinstance(v, list) else v) for k, v in a.items()},
                      {k: (list(map(tuple, v)) if isinstance(v, list) else v) for k, v in b.items()})
            self.fail("search", "fast-differs" + tag, f"fast and full parser disagree: {d}", case)

    def corpus(self):
        bbs = list(vgen.FLOPS)
        # K18: no blank after the comma between named ports
        self.compare("module m (a, o);\n input a;\n output o;\n ff u (.clk(a),.d(a),.q(o));\nendmodule\n", "m", bbs, ":no-blank-after-comma")
        # K20: a net whose name ends in `input` followed by a blank
        self.compare("module m (a, o);\n input a;\n output o;\n wire w_input ;\n buf g0 (w_input, a);\n buf g1 (o, w_input);\nendmodule\n",
                     "m", bbs, ":keyword-substring")

        # K21: a net whose name contains `endmodule`
        self.compare("module m (a, o);\n input a;\n output o;\n wire endmodule_f;\n buf g0 (endmodule_f, a);\n buf g1 (o, endmodule_f);\nendmodule\n",
                     "m", bbs, ":endmodule-substring")
        o1, _ = call(cg.io.verilog_to_circuit, "module m (a, o);\n input a;\n output o;\n wire endmodule_f;\n buf g0 (endmodule_f, a);\n buf g1 (o, endmodule_f);\nendmodule\n", "m")
        if o1 != "ok":
            self.fail("search", "full-parser-endmodule-substring", f"full parser raised {o1} on a net named endmodule_f", {"text": "endmodule_f"})

        # K8e (known, the C14 face of K8): the library's own writer emits `wire tie_0; assign tie_0 = 1'b0;` for a constant node
        # called tie_0 (the name the full reader gives its constants); the full parser ignores that assignment (the net IS its
        # constant), the fast parser builds tie0 -> buf tie_0: same function, one node more
        self.compare("module m (a, o);\n input a;\n output o;\n wire tie_0;\n or g1(o, a, tie_0);\n assign tie_0 = 1'b0;\nendmodule\n",
                     "m", bbs, ":net-named-tie")

    def search(self, n):
        for i in range(n):
            m, text = self.gen_case()
            self.compare(text, m.name, list(m.bbs) or list(vgen.FLOPS), valid=True)
            if self.too_many():
                break
        # bundled netlists that satisfy the restrictions (gate-level ISCAS files), small ones only in quick mode
        lib = sorted(glob.glob(os.path.join(REPO, "circuitgraph", "netlists", "*.v")))
        limit = 60000 if self.tier == "quick" else 400000
        done = 0
        for path in lib:
            if os.path.getsize(path) > limit or os.path.getsize(path) == 0:
                continue
            text = open(path).read()
            if "//" in text or "/*" in text or re.search(r"assign\s+\S+\s*=\s*[^;]*[&|^~?]", text):
                continue
            name = os.path.splitext(os.path.basename(path))[0]
            bbs = [cg.BlackBox("ff", ["CK", "D"], ["Q"])] + cg.genus_flops + cg.dc_flops
            self.compare(text, name, bbs, ":library")
            self.stats.bump("library-netlist")
            done += 1
            if done >= (3 if self.tier == "quick" else 40):
                break

    def replay(self, case):
        bbs = [cg.BlackBox(n, i, o) for n, i, o in case["bbs"]] if case.get("bbs") else list(vgen.FLOPS)
        self.compare(case["text"], case["name"], bbs)


if __name__ == "__main__":
    run_main(P)
