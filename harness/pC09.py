"""C09 — unrolling equals iterated execution."""
import itertools

import gen
from common import (cg, c_to_json, c_from_json, canon, canon_c, cdiff, call, ordered, simulate, free_nodes)
from framework import Prop, run_main


def run_iter(c, state_io, s0, seq):
    """run c for len(seq) steps; state_io: {state_output: state_input}; returns list of valuations"""
    inv = {v: k for k, v in state_io.items()}
    out = []
    prev = None
    for t, vec in enumerate(seq):
        a = {}
        for i in free_nodes(c):
            if i in inv:
                a[i] = s0[i] if t == 0 else prev[inv[i]]
            else:
                a[i] = vec[i]
        prev = simulate(c, a)
        out.append(prev)
    return out


class P(Prop):
    pid = "C09"
    rule = ("tx.unroll: random lint-clean acyclic circuits with a random injective pairing of outputs to inputs (0-3 pairs), "
            "n in 1..4, all initial states and random input sequences, against iterated simulation; structure compared "
            "exactly with the Lean model. tx.sequential_unroll: circuits with 1-3 `ff` flops, every combination of "
            "add_flop_outputs x initial_values (None,'0','1',dict) x remove_unloaded, against cycle-accurate simulation; "
            "non-trivial = at least one state pair / flop")
    assumptions = ["set-iteration order inside the patched run is the model's ordBy(seed) family"]
    budget = {"quick": (360, 360), "thorough": (2000, 2000)}

    def gen_unroll(self):
        rng = self.rng
        c = gen.circuit(rng, n_in=(1, 4), n_gates=(1, 7), max_arity=3, dead=False, consts=0.1, p_out=0.5,
                        adversarial=rng.choice([0, 0, 0.15]), out_inputs=rng.choice([0.0, 0.0, 0.4]))
        outs = sorted(c.outputs())          # including outputs that are primary inputs (K33)
        ins = sorted(c.inputs())
        k = rng.randint(0, min(3, len(outs), len(ins)))
        state_io = dict(zip(rng.sample(outs, k), rng.sample(ins, k)))
        return c, rng.randint(1, 4), state_io

    def correspond(self, n):
        drv = self.driver()
        for i in range(n):
            c, steps, state_io = self.gen_unroll()
            cj = c_to_json(c)
            seed = self.rng.randint(0, 5)
            with ordered(seed):
                o, r = call(cg.tx.unroll, c, steps, state_io)
            m = drv.ask({"op": "unroll", "c": cj, "n": steps, "state_io": [[k, v] for k, v in state_io.items()],
                         "prefix": "cg_unroll", "seed": seed})
            self.corr_cases += 1
            self.stats.case([cj, steps, state_io], nontrivial=bool(state_io),
                            sample={"c": cj, "n": steps, "state_io": state_io} if i < 1 else None)
            d = ""
            if m["outcome"] != o:
                d = f"outcome impl={o} model={m['outcome']}"
            elif o == "ok":
                uc, io_map = r
                d = cdiff(canon_c(uc), canon(m["c"]))
                if not d and {k: v for k, v in m["io_map"]} != io_map:
                    d = f"io_map differs: impl={io_map} model={m['io_map']}"
            if d:
                self.fail("corr", "unroll", d, {"c": cj, "n": steps, "state_io": state_io, "seed": seed})
            if self.too_many():
                break

        for i in range(n // 2):
            c = self.gen_seq()
            cj = c_to_json(c)
            seed = self.rng.randint(0, 5)
            flops = sorted(c.blackboxes)
            iv = self.rand_iv(flops)
            afo, ru, steps = self.rng.random() < 0.5, self.rng.random() < 0.5, self.rng.randint(1, 3)
            with ordered(seed):
                o, r = call(cg.tx.sequential_unroll, c, steps, "d", "q", ["clk"], afo, iv, ru)
            m = drv.ask({"op": "sequential_unroll", "c": cj, "n": steps, "d": "d", "q": "q", "ignore_pins": ["clk"],
                         "add_flop_outputs": afo, "remove_unloaded": ru, "seed": seed,
                         "initial_values": (None if iv is None else iv if isinstance(iv, str) else [[k, v] for k, v in iv.items()])})
            self.corr_cases += 1
            self.stats.bump(f"sequential_unroll:{o}")
            d = ""
            if m["outcome"] != o:
                d = f"outcome impl={o} model={m['outcome']}"
            elif o == "ok":
                uc, io_map = r
                d = cdiff(canon_c(uc), canon(m["c"]))
                if not d and {k: v for k, v in m["io_map"]} != io_map:
                    d = "io_map differs"
            if d:
                self.fail("corr", "sequential_unroll", d, {"c": cj, "n": steps, "add_flop_outputs": afo, "initial_values": iv,
                                                           "remove_unloaded": ru, "seed": seed})
            if self.too_many():
                break

    # ------------------------------------------------------------------ oracles
    def check_unroll(self, c, steps, state_io):
        cj = c_to_json(c)
        case = {"fn": "unroll", "c": cj, "n": steps, "state_io": state_io}
        o, r = call(cg.tx.unroll, c, steps, state_io)
        self.search_cases += 1
        if o != "ok":
            clash = any(f"{x}_cg_unroll_{t}" in c.graph.nodes for x in c.io() for t in range(steps))
            tag = ":name-clash" if clash else ""
            if o == "ValueError":
                # K50 (narrow, the condition of the theorem C09.unroll_ok_iff): a per-step io name, as `uid` makes it,
                # equals the name of a spliced copy `unrolled_<k>_<node>` or another per-step io name
                step = [c.uid(f"{x}_cg_unroll_{t}") for x in sorted(c.io()) for t in range(steps)]
                copies = {f"unrolled_{k}_{y}" for k in range(steps) for y in c.graph.nodes}
                if len(set(step)) < len(step) or set(step) & copies:
                    tag = ":step-name-clash"
            self.fail("search", f"unroll-raised-{o}" + tag, f"unroll raised {o}", case)
            return
        uc, io_map = r
        rng = self.rng
        state_ins = set(state_io.values())
        other_ins = sorted(c.inputs() - state_ins)
        want_free = {io_map[i][0] for i in state_ins} | {io_map[i][t] for i in other_ins for t in range(steps)}
        if set(free_nodes(uc)) != want_free or uc.inputs() != want_free:
            self.fail("search", "unroll-free-inputs", f"free inputs {sorted(free_nodes(uc))} != expected {sorted(want_free)}", case)
            return
        want_outs = {io_map[o_][t] for o_ in c.outputs() for t in range(steps)}
        if uc.outputs() != want_outs:
            self.fail("search", "unroll-outputs", f"outputs {sorted(uc.outputs())} != per-step copies of the outputs {sorted(want_outs)}", case)
            return
        for trial in range(4):
            s0 = {i: rng.random() < 0.5 for i in state_ins}
            seq = [{i: rng.random() < 0.5 for i in other_ins} for _ in range(steps)]
            ref = run_iter(c, state_io, s0, seq)
            a = {io_map[i][0]: s0[i] for i in state_ins}
            for t in range(steps):
                for i in other_ins:
                    a[io_map[i][t]] = seq[t][i]
            v = simulate(uc, a)
            for t in range(steps):
                for o_ in c.outputs():
                    if v[io_map[o_][t]] != ref[t][o_]:
                        self.fail("search", "unroll-value",
                                  f"step {t} output {o_}: unrolled {v[io_map[o_][t]]} != iterated {ref[t][o_]} (s0={s0}, seq={seq})", case)
                        return

    def rand_iv(self, flops):
        """None, a single value, or a per-flop dict in arbitrary key order, possibly partial"""
        rng = self.rng
        r = rng.random()
        if r < 0.2:
            return None
        if r < 0.4:
            return rng.choice("01")
        keys = list(flops)
        rng.shuffle(keys)
        if len(keys) > 1 and rng.random() < 0.3:
            keys = keys[:-1]
        return {f: rng.choice("01") for f in keys}

    def gen_seq(self):
        rng = self.rng
        c = gen.circuit(rng, n_in=(1, 3), n_gates=(1, 6), max_arity=3, dead=False, consts=0.1, p_out=0.4,
                        out_inputs=rng.choice([0.0, 0.0, 0.3]))
        ios = [x for x in sorted(c.io()) if x[-1:] == "0" and len(x) > 1]
        if ios and rng.random() < 0.25:
            # a flop instance called exactly like a primary input / output net (`a0` next to the net `a0`): legal, and
            # the per-flop initial-value dict is keyed by instance names
            x = rng.choice(ios)
            gen.add_flops(rng, c, n_flops=(1, 1), connect_all=True, inst=x[:-1])
            self.stats.bump("names:flop-named-like-io-net")
            if rng.random() < 0.5:
                gen.add_flops(rng, c, n_flops=(1, 2), connect_all=True)
        elif rng.random() < 0.3:
            # instance names one of which extends another (`r`, `r_h`, `r_m`): `<inst>_<pin>` names then interleave when
            # sorted (r_d < r_h_d but r_h_q < r_q), so pairing D and Q nets by position in two sorted lists goes wrong
            fam = ["r", "r_h", "r_m", "r_e"]
            rng.shuffle(fam)
            gen.add_flops(rng, c, n_flops=(2, 3), connect_all=True, inst_names=fam)
            self.stats.bump("names:flop-name-extends-another")
        else:
            gen.add_flops(rng, c, n_flops=(1, 3), connect_all=True)
        if rng.random() < 0.2:
            c.add("zp", "input", output=True)        # a feed-through output that drives nothing (K34)
        return c

    def check_seq(self, c, steps, afo, iv, ru, ign=None):
        cj = c_to_json(c)
        if ign is None:
            ign = ["clk"]
        case = {"fn": "sequential_unroll", "c": cj, "n": steps, "add_flop_outputs": afo, "initial_values": iv,
                "remove_unloaded": ru, "ignore_pins": ign}
        flops = sorted(c.blackboxes)
        unconnected_q = [f for f in flops if not c.fanout(f"{f}.q")]
        o, r = call(cg.tx.sequential_unroll, c, steps, "d", "q", ign, afo, iv, ru)
        self.search_cases += 1
        if o != "ok":
            self.fail("search", f"sequential_unroll-raised-{o}" + (":unconnected-q" if unconnected_q and ru else ""),
                      f"sequential_unroll raised {o}", case)
            return
        uc, io_map = r
        rng = self.rng
        lost = [x for x in c.outputs() if x not in io_map]
        if lost:
            self.fail("search", "sequential_unroll-output-missing", f"outputs {sorted(lost)} are not in the io map", case)
            return
        pis = sorted(n for n in c.inputs() if n != "clk" or c.fanout("clk") - {f"{f}.clk" for f in flops})
        # reference: cycle-accurate simulation
        for trial in range(3):
            if iv is None:
                q0 = {f: rng.random() < 0.5 for f in flops}
            elif isinstance(iv, str):
                q0 = {f: iv == "1" for f in flops}
            else:
                q0 = {f: (iv[f] == "1") if f in iv else (rng.random() < 0.5) for f in flops}
            seq = [{i: rng.random() < 0.5 for i in c.inputs()} for _ in range(steps)]
            state = dict(q0)
            ref = []
            for t in range(steps):
                a = dict(seq[t])
                for f in flops:
                    a[f"{f}.q"] = state[f]
                v = simulate(c, {**{n: False for n in free_nodes(c)}, **a})
                ref.append(v)
                state = {f: v[f"{f}.d"] for f in flops}
            a = {}
            for n in free_nodes(uc):
                a[n] = False
            for f in flops:
                q_first = io_map[f"{f}_q"][0]
                given = isinstance(iv, str) or (isinstance(iv, dict) and f in iv)
                if given and q_first in free_nodes(uc):
                    self.fail("search", "sequential_unroll-initial-ignored",
                              f"initial value of {f} was given ({iv}) but its step-0 state is a free signal", case)
                    return
                if uc.type(q_first) == "input":
                    a[q_first] = q0[f]
                elif iv is None or (isinstance(iv, dict) and f not in iv):
                    self.fail("search", "sequential_unroll-initial-not-free", f"initial state of {f} is not a free input", case)
                    return
            for i in c.inputs():
                if i in io_map:
                    for t in range(steps):
                        if io_map[i][t] in a:
                            a[io_map[i][t]] = seq[t][i]
            v = simulate(uc, a)
            orig_outs = [x for x in c.outputs()]
            for t in range(steps):
                for o_ in orig_outs:
                    if v[io_map[o_][t]] != ref[t][o_]:
                        self.fail("search", "sequential_unroll-value",
                                  f"step {t} output {o_}: unrolled {v[io_map[o_][t]]} != simulated {ref[t][o_]}", case)
                        return
                for f in flops:
                    dn = io_map[f"{f}_d"][t]
                    if v[dn] != ref[t][f"{f}.d"]:
                        self.fail("search", "sequential_unroll-d-value", f"step {t} flop {f} d mismatch", case)
                        return
                    if uc.is_output(dn) != bool(afo):
                        self.fail("search", "sequential_unroll-flop-outputs",
                                  f"add_flop_outputs={afo} but {dn} output={uc.is_output(dn)}", case)
                        return
        pinlike = [n for n in uc.graph.nodes for f in flops if f"{f}.clk" in n or f"{f}_clk" in n]
        if pinlike and not any(f"{f}_clk" in x for x in c.graph.nodes for f in flops):
            self.fail("search", "sequential_unroll-ignored-pin", f"an ignored pin survived: {sorted(pinlike)[:3]}", case)
            return
        # the interface: outputs are exactly the per-step copies of the original outputs (+ the flop data nodes on request)
        want_out = {io_map[o_][t] for o_ in c.outputs() for t in range(steps)}
        if afo:
            want_out |= {io_map[f"{f}_d"][t] for f in flops for t in range(steps)}
        if set(uc.outputs()) != want_out:
            self.fail("search", "sequential_unroll-outputs",
                      f"outputs of the unrolled circuit: unexpected {sorted(set(uc.outputs()) - want_out)[:4]}, "
                      f"missing {sorted(want_out - set(uc.outputs()))[:4]}", case)
            return
        known_nodes = {x for lst in io_map.values() for x in lst}
        stray = [i for i in uc.inputs() if i not in known_nodes]
        if stray:
            self.fail("search", "sequential_unroll-inputs", f"inputs that the io map does not name: {sorted(stray)[:4]}", case)

    def corpus(self):
        # K16: a node named like the per-step io copy
        c = cg.Circuit()
        c.add("a", "input")
        c.add("a_cg_unroll_0", "input")
        c.add("o", "and", fanin=["a", "a_cg_unroll_0"], output=True)
        self.check_unroll(c, 2, {})
        # K50 (known): a per-step io name that equals the name of a spliced copy
        c = cg.Circuit()
        c.add("unrolled_0_a", "input")
        c.add("a_cg_unroll_0", "buf", fanin=["unrolled_0_a"], output=True)
        self.check_unroll(c, 1, {})
        # K15: unconnected Q pin with remove_unloaded=True
        c = cg.Circuit()
        c.add("a", "input")
        c.add("clk", "input")
        c.add("o", "not", fanin="a", output=True)
        c.add_blackbox(cg.BlackBox("ff", ["clk", "d"], ["q"]), "ff0", {"d": "o", "clk": "clk"})
        self.check_seq(c, 2, False, None, True)

    def search(self, n):
        rng = self.rng
        for i in range(n):
            if i % 2 == 0:
                cu, su, stu = self.gen_unroll()
                self.check_unroll(cu, su, stu)
                self.again_after_edit(cu, lambda: self.check_unroll(cu, su, stu), p=0.25, exclude=("relabel", "output"))
            else:
                c = self.gen_seq()
                flops = sorted(c.blackboxes)
                iv = self.rand_iv(flops)
                sq = (rng.randint(1, 4), rng.random() < 0.5, iv, rng.random() < 0.5, rng.choice([["clk"], "clk", ["clk"], ("clk",)]))
                self.check_seq(c, *sq)
                self.again_after_edit(c, lambda: self.check_seq(c, *sq), p=0.3, exclude=("relabel",))
            if self.too_many():
                break

    def replay(self, case):
        c = c_from_json(case["c"])
        if case.get("fn") == "sequential_unroll":
            self.check_seq(c, case["n"], case["add_flop_outputs"], case["initial_values"], case["remove_unloaded"],
                           case.get("ignore_pins"))
        else:
            self.check_unroll(c, case["n"], case["state_io"])


if __name__ == "__main__":
    run_main(P)
