"""C07 — the construction API never leaves an illegally wired circuit (operation-sequence differential)."""
import gen
from common import cg, c_to_json, canon, cdiff, call, exc_name, ordered
from framework import Prop, run_main

NAMES = ["a", "b", "c", "d", "e", "g", "u", "u.d", "u.q", "v.q", "c_a", "u_d", "1x", "", "a_0", "a_1"]
TYPES = ["buf", "and", "or", "xor", "not", "nand", "nor", "xnor", "0", "1", "x", "input"]
BADTYPES = ["mux", "AND", "", "bb_input", "bb_output"]
NOFANIN = ("input", "0", "1", "x", "bb_output")
SINGLE = ("bb_input", "buf", "not")
SUPPORTED = TYPES + ["bb_input", "bb_output"]
BBS = [("ff", ["d"], ["q"]), ("ff2", ["clk", "d"], ["q"]), ("pp", ["p"], ["p"]), ("m", ["1u", "d"], ["q"]),
       ("e", [], ["q"])]


def inv_violation(c, gone):
    """the wiring clauses of the statement, evaluated on the real graph"""
    g = c.graph
    for n in g.nodes:
        t = g.nodes[n].get("type")
        if t not in SUPPORTED:
            return "untyped", f"node {n!r} has unsupported type {t!r}"
        fi = list(g.predecessors(n))
        fo = list(g.successors(n))
        if t in NOFANIN and fi:
            return "fanin-on-source", f"fan-in on {t} {n!r}"
        if t in SINGLE and len(fi) > 1:
            return "multi-fanin", f"{len(fi)} fan-in on {t} {n!r}"
        if t == "bb_input" and fo:
            return "bbin-fanout", f"fan-out from bb_input {n!r}"
        if t == "bb_output" and (len(fo) > 1 or any(g.nodes[f].get("type") != "buf" for f in fo)):
            return "bbout-loads", f"bb_output {n!r} drives {fo}"
    for inst, bb in c.blackboxes.items():
        for pins, want in ((bb.input_set, "bb_input"), (bb.output_set, "bb_output")):
            for p in pins:
                pin = f"{inst}.{p}"
                if pin in gone:
                    continue
                if pin not in g.nodes:
                    return "pin-missing", f"recorded instance {inst!r} lacks pin {pin!r}"
                if g.nodes[pin].get("type") != want:
                    return "pin-mistyped", f"pin {pin!r} of recorded instance has type {g.nodes[pin].get('type')!r}"
    return None


class P(Prop):
    pid = "C07"
    rule = ("random histories of 8-40 calls of add (default flags / uid=True) / connect / disconnect / remove / set_output / "
            "add_blackbox / add_subcircuit / fill_blackbox over a 16-name universe (valid, invalid, duplicate, dotted, "
            "digit-leading and empty names; valid and invalid types; str and list arguments), from the empty circuit or a "
            "generated one; state, exception class and return value compared with the Lean model after every call; "
            "non-trivial = history with >=3 successful mutating calls; distinct = distinct op sequences")
    assumptions = ["set-iteration order inside the patched run is the model's ordBy(seed) family"]
    budget = {"quick": (450, 450), "thorough": (3000, 3000)}

    # ------------------------------------------------------------------ op generation
    def pick(self, k=None, lst=False):
        rng = self.rng
        if lst or rng.random() < 0.5:
            return [rng.choice(NAMES) for _ in range(rng.randint(0, 3) if k is None else k)]
        return rng.choice(NAMES)

    def small(self):
        rng = self.rng
        c = gen.circuit(rng, n_in=(1, 2), n_gates=(1, 3), in_names=None, consts=0.1)
        if rng.random() < 0.3:
            gen.add_flops(rng, c, n_flops=(1, 1))
        return c

    def gen_op(self, c):
        rng = self.rng
        existing = list(c.graph.nodes)

        def nm():
            if existing and rng.random() < 0.6:
                return rng.choice(existing)
            return rng.choice(NAMES)

        def nml(maxn=3):
            if rng.random() < 0.45:
                return nm()
            return [nm() for _ in range(rng.randint(0, maxn))]

        k = rng.choice(["add"] * 6 + ["connect"] * 4 + ["disconnect", "remove", "set_output", "add_blackbox",
                                                        "add_blackbox", "add_subcircuit", "fill_blackbox"])
        if k == "add":
            op = {"op": "add", "n": rng.choice(NAMES) if rng.random() < 0.8 else nm(),
                  "type": rng.choice(TYPES) if rng.random() < 0.9 else rng.choice(BADTYPES)}
            if rng.random() < 0.5:
                op["fanin"] = nml()
            if rng.random() < 0.35:
                op["fanout"] = nml()
            if rng.random() < 0.3:
                op["output"] = True
            if rng.random() < 0.3:
                op["uid"] = True
            return op
        if k == "connect":
            return {"op": "connect", "us": nml(2), "vs": nml(2)}
        if k == "disconnect":
            return {"op": "disconnect", "us": nml(2), "vs": nml(2)}
        if k == "remove":
            return {"op": "remove", "ns": nml(2)}
        if k == "set_output":
            return {"op": "set_output", "ns": nml(2), "output": rng.random() < 0.7}
        if k == "add_blackbox":
            bb = rng.choice(BBS)
            conns = {}
            for p in rng.sample(bb[1] + bb[2], rng.randint(0, len(bb[1] + bb[2]))):
                conns[p] = nm()
            if rng.random() < 0.1:
                conns["zz"] = nm()
            return {"op": "add_blackbox", "bb": list(bb), "name": rng.choice(["u", "v", "w", "u_x"]),
                    "connections": [[k2, v] for k2, v in conns.items()]}
        if k == "add_subcircuit" and rng.random() < 0.1 and len(c.graph) <= 12:
            # the circuit added into itself (K44)
            conns = {}
            for p in rng.sample(sorted(c.io()), rng.randint(0, min(2, len(c.io())))):
                conns[p] = nm()
            return {"op": "add_subcircuit", "self": True, "sc": None, "name": rng.choice(["c", "u", "s0", "a"]),
                    "connections": [[k2, v] for k2, v in conns.items()], "strip_io": True}
        if k == "add_subcircuit":
            sc = self.small()
            conns = {}
            for p in rng.sample(sorted(sc.io()), rng.randint(0, min(3, len(sc.io())))):
                conns[p] = nm()
            if rng.random() < 0.07:
                conns["zz"] = nm()
            return {"op": "add_subcircuit", "sc": c_to_json(sc), "name": rng.choice(["c", "u", "s0", "a"]),
                    "connections": [[k2, v] for k2, v in conns.items()], "strip_io": True}
        # fill_blackbox: a child that matches one of the recorded instances (usually)
        insts = list(c.blackboxes.items())
        if insts and rng.random() < 0.85:
            inst, bb = rng.choice(insts)
            sc = cg.Circuit(name="child")
            ok, _ = call(self.build_child, sc, bb)
            if rng.random() < 0.1 and sc.graph.nodes:
                sc.graph.nodes[rng.choice(list(sc.graph.nodes))]["output"] = True
            return {"op": "fill_blackbox", "name": inst, "sc": c_to_json(sc)}
        return {"op": "fill_blackbox", "name": rng.choice(["u", "nope"]), "sc": c_to_json(self.small())}

    def build_child(self, sc, bb):
        rng = self.rng
        ins = sorted(bb.input_set)
        omit = None
        if ins and rng.random() < 0.15:
            # a model that leaves one blackbox input unused (must be rejected: the io sets have to match), sometimes with
            # an internal gate named like the unused pin
            omit = rng.choice(ins)
            ins = [i for i in ins if i != omit]
            self.stats.bump("fill:child-omits-input")
        for i in ins:
            sc.add(i, "input")
        pool = list(ins)
        for j in range(rng.randint(0, 2)):
            if pool:
                nm_ = omit if (omit and omit not in sc and rng.random() < 0.5) else f"w{j}"
                pool.append(sc.add(nm_, rng.choice(["and", "or", "xor", "not"]),
                                   fanin=rng.sample(pool, 1 if rng.random() < 0.5 else min(2, len(pool)))))
        for o in sorted(bb.output_set):
            if o in sc:
                sc.set_output(o)
            elif pool:
                sc.add(o, rng.choice(["buf", "not"]), fanin=rng.choice(pool), output=True)
            else:
                sc.add(o, "1", output=True)

    # ------------------------------------------------------------------ applying to the real code
    @staticmethod
    def norm(x):
        """how the model sees a str-or-list argument ('' and [] are falsy no-ops for connect)"""
        if isinstance(x, str):
            return [x] if x else []
        return list(x)

    def apply_impl(self, c, op):
        k = op["op"]
        if k == "add":
            kw = {x: op[x] for x in ("fanin", "fanout", "output", "uid") if x in op}
            return call(c.add, op["n"], op["type"], **kw)
        if k == "connect":
            return call(c.connect, op["us"], op["vs"])
        if k == "disconnect":
            return call(c.disconnect, op["us"], op["vs"])
        if k == "remove":
            return call(c.remove, op["ns"])
        if k == "set_output":
            return call(c.set_output, op["ns"], op["output"])
        if k == "add_blackbox":
            bb = cg.BlackBox(op["bb"][0], op["bb"][1], op["bb"][2])
            return call(c.add_blackbox, bb, op["name"], dict(map(tuple, op["connections"])))
        if k == "add_subcircuit":
            from common import c_from_json
            return call(c.add_subcircuit, c if op.get("self") else c_from_json(op["sc"]), op["name"],
                        dict(map(tuple, op["connections"])), op.get("strip_io", True))
        if k == "fill_blackbox":
            from common import c_from_json
            return call(c.fill_blackbox, op["name"], c_from_json(op["sc"]))
        raise ValueError(k)

    def model_op(self, op):
        """the same op in the model's normal form"""
        m = dict(op)
        k = op["op"]
        if k == "add":
            for f in ("fanin", "fanout"):
                if f in m:
                    m[f] = [m[f]] if isinstance(m[f], str) else list(m[f])
        elif k in ("connect", "disconnect"):
            if k == "connect":
                m["us"], m["vs"] = self.norm(op["us"]), self.norm(op["vs"])
            else:
                m["us"] = [op["us"]] if isinstance(op["us"], str) else list(op["us"])
                m["vs"] = [op["vs"]] if isinstance(op["vs"], str) else list(op["vs"])
        elif k in ("remove", "set_output"):
            m["ns"] = [op["ns"]] if isinstance(op["ns"], str) else list(op["ns"])
        elif k in ("add_blackbox", "add_subcircuit"):
            m["connections"] = [[p, self.norm(v)] for p, v in op["connections"]]
            if k == "add_blackbox":
                m["bb"] = [op["bb"][0], sorted(set(op["bb"][1])), sorted(set(op["bb"][2]))]
        return m

    # ------------------------------------------------------------------ correspondence
    def history(self):
        rng = self.rng
        c = cg.Circuit() if rng.random() < 0.6 else self.small()
        return c, rng.randint(8, 40)

    def correspond(self, n):
        drv = self.driver()
        for i in range(n):
            c, nops = self.history()
            seed = self.rng.randint(0, 5)
            start = c_to_json(c)
            ops, impl = [], []
            with ordered(seed):
                for _ in range(nops):
                    op = self.gen_op(c)
                    o, r = self.apply_impl(c, op)
                    ops.append(op)
                    impl.append((o, r if isinstance(r, str) else None, c_to_json(c)))
            r = drv.ask({"op": "apply", "c": start, "ops": [self.model_op(o) for o in ops], "seed": seed})
            self.corr_cases += 1
            nsucc = sum(1 for o, _, _ in impl if o == "ok")
            self.stats.case(ops, nontrivial=nsucc >= 3,
                            sample={"start": start, "ops": ops[:6], "outcomes": [x[0] for x in impl[:6]]} if i < 2 else None)
            for op, (o, _, _) in zip(ops, impl):
                self.stats.bump(f"{op['op']}:{o}")
            for j, (st, (o, ret, cj)) in enumerate(zip(r["steps"], impl)):
                d = ""
                if st["outcome"] != o:
                    d = f"outcome impl={o} model={st['outcome']}"
                elif o == "ok" and ops[j]["op"] == "add" and st["ret"] != ret:
                    d = f"return impl={ret!r} model={st['ret']!r}"
                else:
                    d = cdiff(canon(cj, node_order=True), canon(st["c"], node_order=True))
                if d:
                    self.fail("corr", "api-step:" + ops[j]["op"], f"step {j} {ops[j]['op']}: {d}",
                              {"start": start, "ops": ops[:j + 1], "seed": seed, "diff": d})
                    break
            if self.too_many():
                break

    # ------------------------------------------------------------------ search: the invariant on the real graph
    def search(self, n):
        for i in range(n):
            c, nops = self.history()
            self.run_history(c, [None] * nops)
            if self.too_many():
                break

    def run_history(self, c, ops):
        start = c_to_json(c)
        gone = set()
        v0 = inv_violation(c, gone)
        if v0 is not None:
            v0 = v0[1]
        done = []
        for op in ops:
            if op is None:
                op = self.gen_op(c)
            before_edges = set(c.graph.edges)
            before_nodes = {n: dict(c.graph.nodes[n]) for n in c.graph.nodes}
            o, r = self.apply_impl(c, op)
            done.append(op)
            self.search_cases += 1
            if op["op"] == "remove":
                ns = [op["ns"]] if isinstance(op["ns"], str) else op["ns"]
                gone.update(x for x in ns if "." in x)
            if op["op"] == "add_subcircuit" and op.get("self") and o == "ok":
                # the circuit was added into itself: pins the caller had removed are missing in the copy as well
                gone.update(f"{op['name']}_{x}" for x in list(gone))
            case = {"start": start, "ops": list(done)}
            if v0 is None:
                v = inv_violation(c, gone)
                if v:
                    sig = f"inv:{v[0]}:{op['op']}:{o}"
                    if op["op"] == "fill_blackbox" and o == "ok" and v[0] in ("bbin-fanout", "bbout-loads"):
                        # K22 only when the child marks one of its own blackbox pins as an output
                        ch = op["sc"]
                        if any(t in ("bb_input", "bb_output") and out for _, t, out in ch["nodes"]):
                            sig = "fill-child-pin-output"
                    if op["op"] == "fill_blackbox" and o == "ok" and any(x.startswith(op["name"] + ".") for x in gone):
                        # K24: the caller removed a pin of this instance and re-created a node of that name
                        sig = "fill-recreated-pin"
                    self.fail("search", sig, f"after {op['op']} ({o}): {v[1]}", case)
                    return
            if o != "ok":
                new_edges = set(c.graph.edges) - before_edges
                if new_edges:
                    sig = f"rejected-{op['op']}-added-edge"
                    # narrow the known non-atomic shapes (K12a-c); anything else keeps a distinct signature
                    if op["op"] == "add":
                        srcs = {u for u, _ in new_edges}
                        fo = self.norm(op.get("fanout", []))
                        # (the fan-in argument was given — possibly as the empty string, which `add` turns into [""])
                        if not (len(srcs) == 1 and all(v in fo for _, v in new_edges) and op.get("fanin") is not None
                                and op.get("fanin") != [] and next(iter(srcs)) not in before_nodes):
                            sig += ":unexpected-shape"
                    elif op["op"] == "add_blackbox":
                        if not all(u.startswith(op["name"] + ".") or v.startswith(op["name"] + ".") for u, v in new_edges):
                            sig += ":unexpected-shape"
                    elif op["op"] == "add_subcircuit":
                        if not all(u.startswith(op["name"] + "_") or v.startswith(op["name"] + "_") for u, v in new_edges):
                            sig += ":unexpected-shape"
                    self.fail("search", sig,
                              f"{op['op']} raised {o} but added edges {sorted(new_edges)}", case)
                    return
                if o != "ValueError":
                    what = "empty-name" if (op["op"] == "add" and op.get("n") == "") or "" in str(op.get("fanin", "x")) else "other"
                    if op["op"] in ("set_output",) and o == "KeyError":
                        pass  # documented: KeyError for a missing node is not an 'illegal type, name or connection'
                    else:
                        self.fail("search", f"rejected-{op['op']}-raised-{o}", f"{op['op']} raised {o} ({what}): {op}", case)
                        return
            if op["op"] == "add" and op.get("uid") and o == "ok":
                # never overwrites or renames an existing node
                for n0, a0 in before_nodes.items():
                    if n0 not in c.graph.nodes or dict(c.graph.nodes[n0]) != a0:
                        self.fail("search", "uid-overwrote", f"add(uid=True) changed existing node {n0!r}", case)
                        return
                if r in before_nodes:
                    self.fail("search", "uid-not-fresh", f"add(uid=True) returned existing name {r!r}", case)
                    return

    def corpus(self):
        # K13: add_blackbox registers the instance before its pins can be created
        c = cg.Circuit()
        self.run_history(c, [{"op": "add", "n": "u.d", "type": "input"},
                             {"op": "add_blackbox", "bb": ["ff", ["d"], ["q"]], "name": "u", "connections": []}])
        c = cg.Circuit()
        self.run_history(c, [{"op": "add_blackbox", "bb": ["m", ["1u", "d"], ["q"]], "name": "1", "connections": []}])
        # K22: a child whose own blackbox pin is marked as an output, filled into an instance with a pin of that name
        c = cg.Circuit()
        sc = cg.Circuit("child")
        sc.add("a", "input")
        sc.add_blackbox(cg.BlackBox("ff", ["d"], ["q"]), "b", {"d": "a"})
        sc.set_output("b.d")
        self.run_history(c, [{"op": "add", "n": "o", "type": "buf", "output": True}, {"op": "add", "n": "i", "type": "input"},
                             {"op": "add_blackbox", "bb": ["t", ["a"], ["b.d"]], "name": "u",
                              "connections": [["b.d", "o"], ["a", "i"]]},
                             {"op": "fill_blackbox", "name": "u", "sc": c_to_json(sc)}])
        # K24: remove a pin, re-create a node of that name with another type and fan-in, then fill
        c = cg.Circuit()
        ch = cg.Circuit("ch")
        ch.add("d", "input")
        self.run_history(c, [{"op": "add", "n": "a", "type": "input"}, {"op": "add", "n": "b", "type": "input"},
                             {"op": "add_blackbox", "bb": ["ff", ["d"], []], "name": "u", "connections": []},
                             {"op": "remove", "ns": ["u.d"]},
                             {"op": "add", "n": "u.d", "type": "and", "fanin": ["a", "b"]},
                             {"op": "fill_blackbox", "name": "u", "sc": c_to_json(ch)}])
        # K12: rejected add leaves an edge
        c = cg.Circuit()
        self.run_history(c, [{"op": "add", "n": "b", "type": "buf"},
                             {"op": "add", "n": "g", "type": "buf", "fanin": ["missing"], "fanout": ["b"]}])

    def replay(self, case):
        from common import c_from_json
        self.run_history(c_from_json(case["start"]), case["ops"])


if __name__ == "__main__":
    run_main(P)
