"""Shared harness pieces: import of the real circuitgraph from /repo, ordered-set patching,
circuit <-> JSON, the Lean driver client, an independent evaluator and evidence writing."""
import contextlib
import hashlib
import itertools
import json
import os
import random
import subprocess
import sys
import time

HERE = os.path.dirname(os.path.abspath(__file__))
VERIF = os.path.dirname(HERE)
REPO = os.environ.get("CG_REPO", "/repo")
sys.path.insert(0, os.path.join(HERE, "shims"))
sys.path.insert(0, REPO)
os.environ["PATH"] = os.path.join(HERE, "bin") + os.pathsep + os.environ.get("PATH", "")

import networkx as nx  # noqa: E402
import circuitgraph as cg  # noqa: E402

assert os.path.realpath(cg.__file__).startswith(os.path.realpath(REPO)), cg.__file__

DRIVER = os.environ.get("CG_DRIVER") or os.path.join(VERIF, "lean", ".lake", "build", "bin", "driver")


# ----------------------------------------------------------------------------- ordered sets

def hkey(seed, s):
    h = seed % 4294967296
    for ch in s:
        h = (h * 1000003 + ord(ch)) % 4294967296
    return (h * 2654435761 + seed) % 4294967296


_ORD_SEED = [None]


def okey(x):
    seed = _ORD_SEED[0]
    if isinstance(x, tuple):
        return tuple(okey(y) for y in x)
    if not isinstance(x, str):
        x = str(x)
    if not seed:
        return (0, x)
    return (hkey(seed, x), x)


class OSet(set):
    """A set that iterates (and pops) in the model's order `ordBy seed`."""

    def __iter__(self):
        return iter(sorted(set.__iter__(self), key=okey))

    def pop(self):
        if not self:
            raise KeyError("pop from an empty set")
        x = next(iter(self))
        set.remove(self, x)
        return x

    def _w(self, r):
        return OSet(r) if isinstance(r, (set, frozenset)) else r

    def __or__(self, o):
        return self._w(set.__or__(self, o))

    def __ror__(self, o):
        return self._w(set.__or__(self, o))

    def __and__(self, o):
        return self._w(set.__and__(self, o))

    def __rand__(self, o):
        return self._w(set.__and__(self, o))

    def __sub__(self, o):
        return self._w(set.__sub__(self, o))

    def __rsub__(self, o):
        return self._w(set(o) - set(self))

    def copy(self):
        return OSet(self)


_PATCHED = {}
_CIRCUIT_SETS = ["nodes", "edges", "fanin", "fanout", "transitive_fanin", "transitive_fanout",
                 "filter_type", "inputs", "outputs", "io", "startpoints", "endpoints"]
_BB_SETS = ["inputs", "outputs", "io"]


def _wrap(orig):
    def f(*a, **k):
        r = orig(*a, **k)
        if _ORD_SEED[0] is not None and isinstance(r, (set, frozenset)) and not isinstance(r, OSet):
            return OSet(r)
        return r
    f.__wrapped__ = orig
    return f


def install_order_patch():
    """idempotent: wrap the set-returning methods of Circuit and BlackBox (active only inside `ordered`)"""
    if _PATCHED:
        return
    for m in _CIRCUIT_SETS:
        orig = getattr(cg.Circuit, m)
        _PATCHED[("C", m)] = orig
        setattr(cg.Circuit, m, _wrap(orig))
    for m in _BB_SETS:
        orig = getattr(cg.BlackBox, m)
        _PATCHED[("B", m)] = orig
        setattr(cg.BlackBox, m, _wrap(orig))


@contextlib.contextmanager
def ordered(seed):
    """inside: every set returned by a Circuit/BlackBox method iterates in `ordBy seed` order"""
    install_order_patch()
    old = _ORD_SEED[0]
    _ORD_SEED[0] = seed
    try:
        yield
    finally:
        _ORD_SEED[0] = old


def ord_list(seed, xs):
    old = _ORD_SEED[0]
    _ORD_SEED[0] = seed
    try:
        return sorted(xs, key=okey)
    finally:
        _ORD_SEED[0] = old


# ----------------------------------------------------------------------------- circuit <-> json

def bb_to_json(bb):
    return [bb.name, sorted(bb.input_set), sorted(bb.output_set)]


def c_to_json(c):
    g = c.graph
    return {
        "name": c.name,
        "nodes": [[n, g.nodes[n].get("type"), g.nodes[n].get("output")] for n in g.nodes],
        "edges": [[u, v] for u, v in g.edges],
        "bbs": [[inst] + bb_to_json(bb) for inst, bb in c.blackboxes.items()],
    }


REPLAY_MEMO = {}     # only filled while a history-dependent replay runs: json text -> the live object with that history


def c_from_json(j):
    if REPLAY_MEMO:
        k = json.dumps(j, sort_keys=True)
        if k in REPLAY_MEMO:
            return REPLAY_MEMO[k]
    c = cg.Circuit(name=j["name"])
    for n, t, o in j["nodes"]:
        attrs = {}
        if t is not None:
            attrs["type"] = t
        if o is not None:
            attrs["output"] = o
        c.graph.add_node(n, **attrs)
    for u, v in j["edges"]:
        c.graph.add_edge(u, v)
    for inst, name, ins, outs in j["bbs"]:
        c.blackboxes[inst] = cg.BlackBox(name, ins, outs)
    return c


def canon(j, node_order=False):
    """canonical comparison form of a circuit json: node map, edge set, registry"""
    nodes = [tuple(x) for x in j["nodes"]]
    return {
        "name": j["name"],
        "nodes": nodes if node_order else sorted(nodes, key=lambda x: x[0]),
        "edges": sorted(tuple(e) for e in j["edges"]),
        "bbs": sorted((b[0], b[1], tuple(sorted(b[2])), tuple(sorted(b[3]))) for b in j["bbs"]),
    }


def canon_c(c):
    return canon(c_to_json(c))


def cdiff(a, b):
    """human-readable difference of two canonical forms ('' when equal)"""
    if a == b:
        return ""
    out = []
    for k in ("name", "nodes", "edges", "bbs"):
        if a[k] != b[k]:
            if isinstance(a[k], list):
                sa, sb = set(a[k]), set(b[k])
                out.append(f"{k}: only-impl={sorted(sa - sb)} only-model={sorted(sb - sa)}")
            else:
                out.append(f"{k}: impl={a[k]!r} model={b[k]!r}")
    return "; ".join(out)


EXC = {ValueError: "ValueError", KeyError: "KeyError", IndexError: "IndexError",
       NotImplementedError: "NotImplementedError", TypeError: "TypeError"}


def exc_name(e):
    if isinstance(e, nx.NetworkXError):
        return "NetworkXError"
    for k, v in EXC.items():
        if type(e) is k:
            return v
    return "other:" + type(e).__name__


def call(f, *a, **k):
    """-> (outcome string, return value or None)"""
    try:
        return "ok", f(*a, **k)
    except Exception as e:  # noqa: BLE001
        return exc_name(e), None


# ----------------------------------------------------------------------------- driver client

class Driver:
    def __init__(self):
        # start under the build lock: a concurrent ./check may be relinking the driver right now
        import fcntl
        with open(os.path.join(VERIF, ".build.lock"), "w") as lf:
            fcntl.flock(lf, fcntl.LOCK_EX)
            try:
                if not os.path.exists(DRIVER):
                    raise RuntimeError(f"driver not built: {DRIVER}")
                self.p = subprocess.Popen([DRIVER], stdin=subprocess.PIPE, stdout=subprocess.PIPE, text=True, bufsize=1)
            finally:
                fcntl.flock(lf, fcntl.LOCK_UN)
        self.n = 0

    def ask(self, req):
        self.p.stdin.write(json.dumps(req) + "\n")
        self.p.stdin.flush()
        line = self.p.stdout.readline()
        if not line:
            raise RuntimeError("driver died on request: " + json.dumps(req)[:2000])
        self.n += 1
        r = json.loads(line)
        if r.get("outcome") == "PROTOCOL":
            raise RuntimeError("driver protocol error: " + r.get("error", "") + " on " + json.dumps(req)[:2000])
        if r.get("outcome") == "FUEL":
            raise RuntimeError("model ran out of fuel on " + json.dumps(req)[:2000])
        return r

    def close(self):
        try:
            self.p.stdin.close()
            self.p.wait(timeout=5)
        except Exception:  # noqa: BLE001
            self.p.kill()


# ----------------------------------------------------------------------------- independent evaluator

def gate_fn(t, ins):
    """value forced on a node of type t by its fan-in values; None = free"""
    if t == "and":
        return all(ins)
    if t == "nand":
        return not all(ins)
    if t == "or":
        return any(ins)
    if t == "nor":
        return not any(ins)
    if t == "xor":
        return sum(ins) % 2 == 1
    if t == "xnor":
        return sum(ins) % 2 == 0
    if t in ("buf", "bb_input"):
        return ins[0] if len(ins) == 1 else None
    if t == "not":
        return (not ins[0]) if len(ins) == 1 else None
    if t == "0":
        return False
    if t == "1":
        return True
    return None


def is_consistent(c, v):
    g = c.graph
    for n in g.nodes:
        t = g.nodes[n].get("type")
        b = gate_fn(t, [v[p] for p in g.predecessors(n)])
        if b is not None and bool(v[n]) != bool(b):
            return False
    return True


def free_nodes(c):
    """nodes whose value is not forced by gate_fn (inputs, bb outputs, undriven buf/not/bb_input, x)"""
    g = c.graph
    out = []
    for n in g.nodes:
        t = g.nodes[n].get("type")
        k = g.in_degree(n)
        if t in ("and", "nand", "or", "nor", "xor", "xnor", "0", "1"):
            continue
        if t in ("buf", "not", "bb_input") and k == 1:
            continue
        out.append(n)
    return out


def simulate(c, assign):
    """acyclic evaluation: assign = dict for the free nodes; returns full valuation dict"""
    g = c.graph
    v = {}
    for n in nx.topological_sort(g):
        t = g.nodes[n].get("type")
        b = gate_fn(t, [v[p] for p in g.predecessors(n)])
        v[n] = bool(assign[n]) if b is None else bool(b)
    return v


def all_consistent(c, limit_nodes=16):
    """all consistent valuations (cyclic circuits allowed) by brute force over every node"""
    nodes = list(c.graph.nodes)
    if len(nodes) > limit_nodes:
        raise ValueError("too many nodes for brute force")
    out = []
    for bits in itertools.product([False, True], repeat=len(nodes)):
        v = dict(zip(nodes, bits))
        if is_consistent(c, v):
            out.append(v)
    return out


def all_assignments(names):
    names = list(names)
    for bits in itertools.product([False, True], repeat=len(names)):
        yield dict(zip(names, bits))


# ----------------------------------------------------------------------------- evidence

def chash(obj):
    return hashlib.sha256(json.dumps(obj, sort_keys=True, default=str).encode()).hexdigest()[:16]


class Stats:
    """collects what a run covered"""

    def __init__(self):
        self.evaluations = 0
        self.distinct = set()
        self.samples = []
        self.hist = {}
        self.t0 = time.time()

    def case(self, key_obj, nontrivial=True, sample=None):
        self.evaluations += 1
        if nontrivial:
            self.distinct.add(chash(key_obj))
        if sample is not None and len(self.samples) < 3:
            self.samples.append(sample)

    def bump(self, k, n=1):
        self.hist[k] = self.hist.get(k, 0) + n


def rng_for(prop):
    seed = int(os.environ.get("VERIF_SEED", "0") or 0)
    return random.Random(f"{prop}:{seed}"), seed
