"""C18 — acyclic_unroll removes cycles and preserves stable states."""
import gen
from common import (cg, c_to_json, c_from_json, canon, canon_c, cdiff, call, ordered, simulate, free_nodes,
                    all_consistent, all_assignments)
from framework import Prop, run_main


class P(Prop):
    pid = "C18"
    rule = ("random lint-clean blackbox-free circuits with 1-3 back edges (nested/overlapping cycles, several SCCs) and without "
            "self-loops, plus acyclic ones; the unrolled circuit is compared exactly with the Lean model (incl. the feedback "
            "set chosen by the heuristic); for every stable state (consistent valuation, found by brute force over <=13 "
            "nodes) the auxiliary inputs are set to the stable values and every output of the unrolled circuit must equal "
            "its stable value; non-trivial = cyclic circuit with >=1 stable state")
    assumptions = ["set-iteration order inside the patched run is the model's ordBy(seed) family; the (plain-set) feedback "
                   "iteration order only affects node insertion order, which the canonical comparison ignores"]
    budget = {"quick": (450, 360), "thorough": (2500, 2000)}

    def gen_case(self):
        rng = self.rng
        c = gen.circuit(rng, n_in=(1, 3), n_gates=(2, 8), max_arity=3, cyclic=rng.random() < 0.85, consts=0.1, dead=False,
                        adversarial=rng.choice([0, 0, 0.15]), out_inputs=0.1)
        for u, v in list(c.graph.edges):
            if u == v:
                c.graph.remove_edge(u, v)
        if rng.random() < 0.2:
            # a primary input (or gate) named like the auxiliary input of ANOTHER node: a real clash only when that node is
            # a cut feedback node; otherwise the name is just a name and must not be treated as an auxiliary input
            ins = sorted(c.inputs()) + ([rng.choice(sorted(c.graph.nodes))] if rng.random() < 0.3 else [])
            a = rng.choice(ins)
            x = rng.choice(sorted(n for n in c.graph.nodes if n != a))
            nm = rng.choice([f"aux_in_{x}", f"c0_{x}", f"c1_{x}"]) if rng.random() < 0.3 else f"aux_in_{x}"
            if nm not in c.graph.nodes:
                c.relabel({a: nm})
                self.stats.bump("names:aux_in-of-other-node")
        return c

    def correspond(self, n):
        drv = self.driver()
        for i in range(n):
            c = self.gen_case()
            cj = c_to_json(c)
            seed = self.rng.randint(0, 5)
            with ordered(seed):
                o, r = call(cg.tx.acyclic_unroll, c)
            m = drv.ask({"op": "acyclic_unroll", "c": cj, "seed": seed})
            self.corr_cases += 1
            self.stats.case(cj, nontrivial=c.is_cyclic(), sample={"c": cj} if i < 1 else None)
            self.stats.bump("cyclic" if c.is_cyclic() else "acyclic")
            d = ""
            if m["outcome"] != o:
                d = f"outcome impl={o} model={m['outcome']}"
            elif o == "ok":
                d = cdiff(canon_c(r), canon(m["c"]))
            if d:
                self.fail("corr", "acyclic_unroll", d, {"c": cj, "seed": seed})
            if self.too_many():
                break

    def oracle(self, c):
        cj = c_to_json(c)
        case = {"c": cj}
        o, r = call(cg.tx.acyclic_unroll, c)
        self.search_cases += 1
        if o != "ok":
            clash = any(n.startswith(("aux_in_", "c0_", "c1_", "c2_", "c3_")) for n in c.graph.nodes)
            if o == "ValueError" and clash:
                return
            self.fail("search", f"acyclic_unroll-raised-{o}", f"acyclic_unroll raised {o}", case)
            return
        if r.is_cyclic():
            self.fail("search", "still-cyclic", "result is cyclic", case)
            return
        ol, _ = call(cg.lint, r)
        if ol != "ok":
            self.fail("search", "not-lint-clean", "result is not lint-clean", case)
            return
        if r.outputs() != c.outputs():
            self.fail("search", "outputs", f"outputs {sorted(r.outputs())} != {sorted(c.outputs())}", case)
            return
        aux = sorted(r.inputs() - c.inputs())
        if not c.inputs() <= r.inputs() or any(not a.startswith("c0_aux_in_") for a in aux):
            self.fail("search", "inputs", f"inputs {sorted(r.inputs())}", case)
            return
        if len(c.graph.nodes) > 13:
            return
        stable = all_consistent(c, 13)
        self.stats.bump(f"stable-states:{min(len(stable), 9)}")
        for v in stable:
            a = {i: v[i] for i in c.inputs()}
            for x in aux:
                a[x] = v[x[len("c0_aux_in_"):]]
            for f in free_nodes(r):
                a.setdefault(f, False)
            w = simulate(r, a)
            for o_ in c.outputs():
                if w[o_] != v[o_]:
                    self.fail("search", "stable-state-lost", f"stable state {v}: output {o_} = {w[o_]} in the unrolled circuit", case)
                    return

    def search(self, n):
        for i in range(n):
            c = self.gen_case()
            self.oracle(c)
            self.again_after_edit(c, lambda: self.oracle(c), p=0.2)
            if i % 4 == 0:
                # the same Circuit object again after a new loop was added in place (no stale per-object state)
                gates = [g for g in c.graph.nodes if c.type(g) in gen.MULTI]
                if len(gates) >= 1:
                    try:
                        h1 = c.add("zz_h1", "nor", fanin=[self.rng.choice(gates)], uid=True, output=True)
                        h2 = c.add("zz_h2", "nor", fanin=[h1], uid=True)
                        c.connect(h2, h1)
                    except Exception:  # noqa: BLE001
                        continue
                    self.oracle(c)
            if self.too_many():
                break

    def replay(self, case):
        self.oracle(c_from_json(case["c"]))


if __name__ == "__main__":
    run_main(P)
