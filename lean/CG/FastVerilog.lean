/-
  CG.FastVerilog — `parsing/fast_verilog.py` as coded: a sequence of `re.search` / `re.findall` calls with the regular
  expressions extracted from the source (CG.Generated.regex_fast), building the graph directly with networkx
  `add_nodes_from` / `add_edges_from` semantics (attributes are set per batch; an edge endpoint that was never declared
  becomes a node without attributes).
-/
import CG.Tx
import CG.Regex
import CG.VerilogTables
namespace CG
namespace FastVerilog

def regexes : List (String × String × Bool) := Generated.regex_fast.getD Verilog.Expected.regex_fast
def rx (i : Nat) : String × Bool := match regexes[i]? with | some e => (e.2.1, e.2.2) | none => ("", false)

def strip (s : String) : String := s.trimAscii.toString

/-- `g.add_nodes_from(names, type=t[, output=False])`: existing nodes keep position, listed attributes are overwritten -/
def addNodes (c : Circuit) (names : List Name) (t : String) (out : Option Bool) : Circuit :=
  names.foldl (fun c n => c.addNodeAttr n { ty := some t, out := out }) c

/-- `g.add_edges_from`: missing endpoints are created without attributes -/
def addEdgeAuto (c : Circuit) (e : Name × Name) : Circuit :=
  let c1 := if c.has e.1 then c else { c with nodes := c.nodes ++ [(e.1, {})] }
  let c2 := if c1.has e.2 then c1 else { c1 with nodes := c1.nodes ++ [(e.2, {})] }
  c2.addEdge e.1 e.2

/-- append to the list stored under key `k` of an insertion-ordered dict of lists -/
def pushNet (d : List (String × List Name)) (k : String) (vs : List Name) : List (String × List Name) :=
  if (d.lookup k).isSome then d.map (fun p => if p.1 == k then (k, p.2 ++ vs) else p) else d ++ [(k, vs)]

def constName (tie0 tie1 n : Name) : Name := if n == "1'b0" then tie0 else if n == "1'b1" then tie1 else n

/-- one instance statement as the regular expressions deliver it -/
inductive FInst where
  | inst (gate inst : String) (nets : List String) (pins : List (String × String))
      -- `nets` = the comma-split, stripped connection list (used for primitives); `pins` = the named-port pairs found
deriving Repr, Inhabited

/-- everything the regular expressions extract from the text -/
structure FParsed where
  name : String
  inputs : List Name        -- in order of appearance, duplicates removed
  insts : List FInst
  assigns : List (Name × String)
  outputs : List Name
deriving Repr, Inhabited

/-- the `re.search` / `re.findall` passes -/
def extract (netlist : String) : E FParsed :=
  match Regex.search (rx 0).1 netlist (rx 0).2, Regex.search (rx 1).1 netlist (rx 1).2 with
  | some (some m0), some m1? =>
    let name := (m0.groups.headD none).getD ""
    let module0 := netlist.toList.drop m0.stop
    match m1? with
    | none => .error (.other "AttributeError")
    | some m1 =>
      -- NB: the index of `endmodule` in the whole netlist is applied to the already shortened text
      let moduleTxt := String.ofList (module0.take m1.start)
      match Regex.findall (rx 2).1 moduleTxt (rx 2).2, Regex.findall (rx 3).1 moduleTxt (rx 3).2,
            Regex.findall (rx 5).1 moduleTxt (rx 5).2, Regex.findall (rx 6).1 moduleTxt (rx 6).2 with
      | some ins, some insts, some assigns, some outs =>
        insts.mapM (fun g =>
          match Regex.findall (rx 4).1 (g.getD 2 "") (rx 4).2 with
          | none => .error (.other "regex")
          | some pins => .ok (FInst.inst (g.getD 0 "") (g.getD 1 "") (((g.getD 2 "").splitOn ",").map strip)
                                (pins.map (fun pg => (pg.getD 0 "", pg.getD 1 ""))))) >>= fun fi =>
        pure { name := name,
               inputs := dedup (ins.flatMap (fun g => ((g.getD 1 "").splitOn ",").map strip)),
               insts := fi,
               assigns := assigns.map (fun g => (g.getD 0 "", g.getD 1 "")),
               outputs := outs.flatMap (fun g => ((g.getD 1 "").splitOn ",").map strip) }
      | _, _, _, _ => .error (.other "regex")
  | some none, _ => .error (.other "AttributeError")
  | _, _ => .error (.other "regex")

structure Acc where
  nets : List (String × List Name) := []
  edges : List (Name × Name) := []
  bbs : List (Name × BBox) := []
deriving Inhabited

/-- edges form a set: in a parity gate an operand given an even number of times cancels (fix K30) -/
def parityFanin (tie0 : Name) (ty : String) (fi : List Name) : List Name :=
  if (ty == "xor" || ty == "xnor") && (dedup fi).length < fi.length then
    let r := (dedup fi).filter (fun p => fi.count p % 2 == 1)
    if r.isEmpty then [tie0] else r
  else fi

/-- the bookkeeping for one instance statement -/
def doInst (bbs : List BBox) (ord : Ord) (tie0 tie1 : Name) (a : Acc) : FInst → E Acc
  | .inst gate inst nets0 pins =>
    if T.primitive.contains gate then
      match nets0.map (constName tie0 tie1) with
      | [] => .error .indexError
      | o :: ins => pure { a with nets := pushNet a.nets gate [o], edges := a.edges ++ (parityFanin tie0 gate ins).map (fun i => (i, o)) }
    else
      match bbs.find? (fun b => b.name == gate) with
      | none => .error .valueError
      | some bb =>
        let a1 : Acc := { a with nets := pushNet (pushNet a.nets "bb_input" ((ord bb.ins).map (fun p => inst ++ "." ++ p)))
                                          "bb_output" ((ord bb.outs).map (fun p => inst ++ "." ++ p)) }
        pins.foldlM (fun (a : Acc) pg =>
          let pin := pg.1
          let net := constName tie0 tie1 pg.2
          if bb.ins.contains pin then pure { a with edges := a.edges ++ [(net, inst ++ "." ++ pin)] }
          else if bb.outs.contains pin then
            pure { a with nets := pushNet a.nets "buf" [net], edges := a.edges ++ [(inst ++ "." ++ pin, net)] }
          else .error .valueError) a1 >>= fun a2 =>
        pure { a2 with bbs := (a2.bbs.filter (fun p => p.1 != inst)) ++ [(inst, bb)] }

/-- the graph assembly after extraction; `ordIn` enumerates the (plain) set of declared inputs -/
def assemble (p : FParsed) (bbs : List BBox) (ord ordIn : Ord) : E Circuit :=
  let g0 := addNodes { name := p.name } (ordIn p.inputs) "input" none
  let tie0 := "tie0"
  let tie1 := "tie1"
  let g1 := (g0.addNodeAttr tie0 { ty := some "0" }).addNodeAttr tie1 { ty := some "1" }
  p.insts.foldlM (doInst bbs ord tie0 tie1) ({} : Acc) >>= fun a =>
  let a2 := p.assigns.foldl (fun (a : Acc) g =>
    let src := if ["1'b0", "1'h0", "1'd0"].contains g.2 then tie0 else if ["1'b1", "1'h1", "1'd1"].contains g.2 then tie1 else g.2
    { a with nets := pushNet a.nets "buf" [g.1], edges := a.edges ++ [(src, g.1)] }) a
  let g2 := a2.nets.foldl (fun c kv => addNodes c kv.2 kv.1 (some false)) g1
  let g3e := a2.edges.foldl addEdgeAuto g2
  -- nets that are only read (floating wires) become undriven buffers, as in the full parser (fix K38)
  let g3 : Circuit := { g3e with nodes := g3e.nodes.map (fun p =>
    if p.2.ty.isNone then (p.1, { p.2 with ty := some "buf", out := some false }) else p) }
  p.outputs.foldlM (fun (c : Circuit) o => if c.has o then pure (c.setOutRaw o true) else .error .keyError) g3 >>= fun g4 =>
  let g5 := if (g4.fanout tie0).isEmpty then g4.removeNode tie0 else g4
  let g6 := if (g5.fanout tie1).isEmpty then g5.removeNode tie1 else g5
  pure { g6 with bbs := a2.bbs }

/-- `fast_parse_verilog_netlist(netlist, blackboxes)` -/
def parse (netlist : String) (bbs : List BBox) (ord ordIn : Ord) : E Circuit :=
  extract netlist >>= fun p => assemble p bbs ord ordIn

end FastVerilog
end CG
