/-
  CG.Tables — the shape of the tables the translator extracts from the Python sources, and the
  hand-written `Expected` values the proofs were written for.
-/
import CG.Basic
namespace CG

/-- template variables of a clause in `sat.cnf` -/
inductive TVar where | n | f | a | b | c | inv
deriving DecidableEq, Repr, Inhabited

inductive TItem where
  | lit (pos : Bool) (v : TVar)
  | allF (pos : Bool)            -- `[±id(f) for f in c.fanin(n)]`
deriving DecidableEq, Repr, Inhabited

abbrev TClause := List TItem

inductive TStmt where
  | each (cl : TClause)          -- `for f in c.fanin(n): formula.append(cl)`
  | one (cl : TClause)           -- `formula.append(cl)`
  | guard (cl : TClause)         -- `if c.fanin(n): f = c.fanin(n).pop(); formula.append(cl)`
  | orElse (cl : TClause)        -- `else: formula.append(cl)` of that `if` (undriven node)
deriving DecidableEq, Repr, Inhabited

structure CnfTables where
  demote : List (List String × String)
  gates : List (List String × List TStmt)
  xorTypes : List String
  xorClauses : List TClause
  xorDirect : List String
  invClauses : List TClause
deriving DecidableEq, Repr, Inhabited

namespace Expected

def primitive_gates : List String := ["buf", "and", "or", "xor", "not", "nand", "nor", "xnor"]
def addable_types : List String := primitive_gates ++ ["0", "1", "x", "input"]
def supported_types : List String := addable_types ++ ["bb_input", "bb_output"]

/-- `add`: types limited to one fan-in; types that may not have fan-in -/
def add_lists : List (List String) := [["buf", "not"], ["0", "1", "x", "input"]]

/-- `connect`: illegal targets; single-fan-in targets; illegal sources; single-load sources -/
def connect_lists : List (List String) :=
  [["input", "0", "1", "x", "bb_output"], ["bb_input", "buf", "not"], ["bb_input"], ["bb_output"]]

/-- `remove_unloaded`: never initially listed; not initially listed when `inputs=False` (K3 fix);
    skipped as a fan-in when `inputs=False` -/
def remove_unloaded_lists : List (List String) :=
  [["bb_input"], ["input", "bb_output"], ["input", "bb_output"]]

/-- `lint`: zero-input, single-input, multi-input types (after the K19 fix) -/
def lint_lists : List (List String) :=
  [["input", "0", "1", "x", "bb_output"], ["buf", "not", "bb_input"],
   ["and", "nand", "or", "nor", "xor", "xnor"]]

def gatemap : List (String × String) :=
  [("and", "and"), ("nand", "and"), ("or", "or"), ("nor", "or"), ("xor", "xor"), ("xnor", "xor")]

def ternary_lists : List (List String) :=
  [["and", "nand"], ["or", "nor"], ["buf", "not"], ["xor", "xnor"], ["0", "1"], ["input"]]

def subcircuit_lists : List (List String) := [["bb_output", "bb_input"], ["0", "1", "x"]]

open TItem TStmt TVar in
def cnf : CnfTables := {
  demote := [(["and", "or", "xor"], "buf"), (["nand", "nor", "xnor"], "not")],
  gates := [
    (["and"], [each [lit false n, lit true f], one [lit true n, allF false]]),
    (["nand"], [each [lit true n, lit true f], one [lit false n, allF false]]),
    (["or"], [each [lit true n, lit false f], one [lit false n, allF true]]),
    (["nor"], [each [lit false n, lit false f], one [lit true n, allF true]]),
    (["not"], [guard [lit true n, lit true f], guard [lit false n, lit false f], orElse [lit true n, lit false n]]),
    (["buf", "bb_input"], [guard [lit true n, lit false f], guard [lit false n, lit true f],
                           orElse [lit true n, lit false n]]),
    (["0"], [one [lit false n]]),
    (["1"], [one [lit true n]]),
    (["bb_output", "input"], [one [lit true n, lit false n]])
  ],
  xorTypes := ["xor", "xnor"],
  xorClauses := [[lit false c, lit false b, lit false a], [lit false c, lit true b, lit true a],
                 [lit true c, lit false b, lit true a], [lit true c, lit true b, lit false a]],
  xorDirect := ["xor"],
  invClauses := [[lit true n, lit true inv], [lit false n, lit false inv]] }

end Expected
end CG
