/-
  CG.Order — the family of set-iteration orders used by the correspondence harness.
  `ordBy seed` enumerates a set by (hkey seed name, name); the harness patches the Python side
  so that every set returned by a `Circuit` method iterates in exactly this order.  Theorems
  never depend on this family: they quantify over every `ord` with `∀ l, (ord l).Perm l`.
-/
import CG.Basic
namespace CG

def hkey (seed : Nat) (s : String) : Nat :=
  let h := s.toList.foldl (fun h ch => (h * 1000003 + ch.toNat) % 4294967296) (seed % 4294967296)
  (h * 2654435761 + seed) % 4294967296

def keyLe (seed : Nat) (a b : String) : Bool :=
  let ka := hkey seed a
  let kb := hkey seed b
  ka < kb || (ka == kb && !(b < a))

/-- seed 0 = plain string order -/
def ordBy (seed : Nat) : Ord := fun l =>
  if seed == 0 then l.mergeSort (fun a b => !(b < a)) else l.mergeSort (keyLe seed)

end CG

namespace CG

/-- order of a set of edges (tuples): lexicographic in the element order -/
def ordEdgesBy (seed : Nat) (l : List (Name × Name)) : List (Name × Name) :=
  let le1 := fun (a b : Name) => if seed == 0 then !(b < a) else keyLe seed a b
  l.mergeSort (fun e f => if e.1 == f.1 then le1 e.2 f.2 else le1 e.1 f.1)

end CG
