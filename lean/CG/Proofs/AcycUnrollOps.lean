/- C18 helpers: frame lemmas (type / fan-in / output flag of the untouched nodes) for the operations used by
   `acyclic_unroll` -/
import CG.Proofs.AcycUnrollBase
set_option linter.unusedSimpArgs false
set_option linter.unusedVariables false
namespace CG
namespace AU
open Circuit

/-- node `n` exists, has type `t` and fan-in list `fi` -/
def Gate (A : Circuit) (n : Name) (t : String) (fi : List Name) : Prop := A.ty? n = some t ∧ A.fanin n = fi

/-- every node of `A` outside `S` is kept in `B` with its type and fan-in -/
def KeepsX (S : List Name) (A B : Circuit) : Prop :=
  ∀ n, A.has n = true → n ∉ S → B.has n = true ∧ B.ty? n = A.ty? n ∧ B.fanin n = A.fanin n

abbrev Keeps (A B : Circuit) : Prop := KeepsX [] A B

theorem KeepsX.refl (S : List Name) (A : Circuit) : KeepsX S A A := fun _ h _ => ⟨h, rfl, rfl⟩

theorem KeepsX.trans {S : List Name} {A B C : Circuit} (h1 : KeepsX S A B) (h2 : KeepsX S B C) : KeepsX S A C := by
  intro n hn hs
  obtain ⟨a1, a2, a3⟩ := h1 n hn hs
  obtain ⟨b1, b2, b3⟩ := h2 n a1 hs
  exact ⟨b1, b2.trans a2, b3.trans a3⟩

theorem KeepsX.mono {S S' : List Name} {A B : Circuit} (h : KeepsX S A B) (hs : ∀ x ∈ S, x ∈ S') : KeepsX S' A B :=
  fun n hn hns => h n hn (fun hc => hns (hs n hc))

/-- nodes outside `A` may be touched freely -/
theorem Keeps.comp {S : List Name} {A A1 A2 : Circuit} (h1 : Keeps A A1) (h2 : KeepsX S A1 A2)
    (hS : ∀ n ∈ S, A.has n = false) : Keeps A A2 := by
  intro n hn _
  obtain ⟨a1, a2, a3⟩ := h1 n hn (by simp)
  have hns : n ∉ S := by
    intro hc
    rw [hS n hc] at hn
    cases hn
  obtain ⟨b1, b2, b3⟩ := h2 n a1 hns
  exact ⟨b1, b2.trans a2, b3.trans a3⟩

theorem Gate.has {A : Circuit} {n : Name} {t : String} {fi : List Name} (h : Gate A n t fi) : A.has n = true :=
  has_of_ty? h.1

theorem Gate.keep {S : List Name} {A B : Circuit} {n : Name} {t : String} {fi : List Name} (h : Gate A n t fi)
    (hk : KeepsX S A B) (hn : n ∉ S) : Gate B n t fi := by
  obtain ⟨a1, a2, a3⟩ := hk n h.has hn
  exact ⟨a2.trans h.1, a3.trans h.2⟩

theorem isOut_congr {c c' : Circuit} (h : c'.nodes = c.nodes) (n : Name) : c'.isOut n = c.isOut n := by
  unfold isOut
  rw [attr?_congr h]

theorem fanin_congr {c c' : Circuit} (h : c'.edges = c.edges) (n : Name) : c'.fanin n = c.fanin n := by
  unfold fanin
  rw [h]

/-! ### addNodeAttr of a fresh node -/

theorem keeps_addNodeAttr {A : Circuit} {n : Name} (a : Attr) (h : A.has n = false) :
    Keeps A (A.addNodeAttr n a) := by
  intro m hm _
  have hne : m ≠ n := by
    intro e
    rw [e, h] at hm
    cases hm
  refine ⟨?_, ?_, fanin_congr (addNodeAttr_edges A n a) m⟩
  · rw [addNodeAttr_has, hm]
    rfl
  · rw [addNodeAttr_ty?, if_neg hne]

theorem addNodeAttr_isOut {A : Circuit} {n : Name} (a : Attr) (h : A.has n = false) (m : Name) :
    (A.addNodeAttr n a).isOut m = if m = n then a.out.getD false else A.isOut m := by
  unfold isOut
  rw [addNodeAttr_attr?]
  by_cases hm : m = n
  · rw [if_pos hm, if_pos hm, attr?_none_of_not_has h]
  · rw [if_neg hm, if_neg hm]

theorem addNodeAttr_ty_fresh {A : Circuit} {n : Name} (a : Attr) (h : A.has n = false) (m : Name) :
    (A.addNodeAttr n a).ty? m = if m = n then a.ty else A.ty? m := by
  rw [addNodeAttr_ty?]
  by_cases hm : m = n
  · rw [if_pos hm, if_pos hm, ty?_none_of_not_has h]
    cases a.ty <;> rfl
  · rw [if_neg hm, if_neg hm]

theorem wf_addNodeAttr {A : Circuit} {n : Name} (a : Attr) (hA : WF A) : WF (A.addNodeAttr n a) := by
  refine ⟨addNodeAttr_nodup n a hA.nodup, by rw [addNodeAttr_edges]; exact hA.edgesNodup, ?_⟩
  intro e he
  rw [addNodeAttr_edges] at he
  obtain ⟨h1, h2⟩ := hA.closed e he
  rw [addNodeAttr_has, addNodeAttr_has, h1, h2]
  exact ⟨rfl, rfl⟩

/-! ### connect -/

theorem keeps_connect {A A' : Circuit} {us vs : List Name} (h : A.connect us vs = (A', .ok)) :
    KeepsX vs A A' := by
  obtain ⟨a1, _, _, ⟨x, a4, a4'⟩, _, _, _⟩ := connect_ok h
  intro n hn hns
  refine ⟨by rw [has_congr a1]; exact hn, ty?_congr a1 n, ?_⟩
  rw [fanin_eq_faninL, a4, faninL_append, ← fanin_eq_faninL]
  have : faninL x n = [] := by
    apply faninL_nil_of
    intro e he e2
    exact hns (e2 ▸ (a4' e he).2)
  rw [this, List.append_nil]

theorem wf_connect {A A' : Circuit} {us vs : List Name} (h : A.connect us vs = (A', .ok)) (hA : WF A) : WF A' := by
  obtain ⟨a1, _, _, _, a5, a6, a7⟩ := connect_ok h
  refine ⟨by rw [nodeNames_congr a1]; exact hA.nodup, a6 hA.edgesNodup, ?_⟩
  intro e he
  rw [has_congr a1, has_congr a1]
  rcases (a5 e).1 he with h1 | ⟨h1, h2⟩
  · exact hA.closed e h1
  · have hus : us ≠ [] := by intro e'; rw [e'] at h1; cases h1
    have hvs : vs ≠ [] := by intro e'; rw [e'] at h2; cases h2
    obtain ⟨k1, k2, _, _⟩ := connectCheck_none (a7 hus hvs)
    exact ⟨k1 _ h1, k2 _ h2⟩

/-- wiring an undriven buffer -/
theorem connect_gate {A A' : Circuit} {u x : Name} (h : A.connect [u] [x] = (A', .ok))
    (hx : A.ty? x = some "buf") : Gate A' x "buf" [u] := by
  obtain ⟨a1, _⟩ := connect_ok h
  exact ⟨by rw [ty?_congr a1]; exact hx, connect_buf_set h (by simp) hx⟩

/-! ### setTyRaw / setOutRaw -/

theorem keeps_setTyRaw (A : Circuit) (x : Name) (t : String) : KeepsX [x] A (A.setTyRaw x t) := by
  intro n hn hns
  have hne : n ≠ x := by simpa using hns
  refine ⟨by rw [setTyRaw_has]; exact hn, ?_, rfl⟩
  rw [setTyRaw_ty?, if_neg (fun hc => hne hc.1)]

theorem wf_setTyRaw {A : Circuit} (x : Name) (t : String) (hA : WF A) : WF (A.setTyRaw x t) := by
  refine ⟨by rw [setTyRaw_nodeNames]; exact hA.nodup, hA.edgesNodup, ?_⟩
  intro e he
  rw [setTyRaw_has, setTyRaw_has]
  exact hA.closed e he

theorem setTyRaw_isOut (A : Circuit) (x : Name) (t : String) (m : Name) : (A.setTyRaw x t).isOut m = A.isOut m := by
  unfold isOut
  rw [setTyRaw_attr?]
  cases A.attr? m with
  | none => rfl
  | some a => simp only [Option.map_some]; split <;> rfl

theorem keeps_setOutRaw (A : Circuit) (x : Name) (b : Bool) : Keeps A (A.setOutRaw x b) := by
  intro n hn _
  exact ⟨by rw [setOutRaw_has]; exact hn, setOutRaw_ty? A x b n, rfl⟩

theorem wf_setOutRaw {A : Circuit} (x : Name) (b : Bool) (hA : WF A) : WF (A.setOutRaw x b) := by
  refine ⟨by rw [setOutRaw_nodeNames]; exact hA.nodup, hA.edgesNodup, ?_⟩
  intro e he
  rw [setOutRaw_has, setOutRaw_has]
  exact hA.closed e he

theorem setOutRaw_isOut {A : Circuit} {x : Name} (b : Bool) (hx : A.has x = true) (m : Name) :
    (A.setOutRaw x b).isOut m = if m = x then b else A.isOut m := by
  unfold isOut
  rw [setOutRaw_attr?]
  by_cases hm : m = x
  · subst hm
    rw [has_eq_isSome] at hx
    cases ha : A.attr? m with
    | none => rw [ha] at hx; cases hx
    | some a => simp
  · have : (m == x) = false := by simpa using hm
    cases A.attr? m with
    | none => simp [hm]
    | some a => simp [hm, this]

/-- a successful `set_type([x], t)` -/
theorem setType_ok {A A' : Circuit} {x : Name} {t : String} (h : A.setType [x] t = (A', .ok)) :
    A.has x = true ∧ A' = A.setTyRaw x t := by
  unfold setType at h
  split at h
  · injection h with _ h; cases h
  · rw [setType.go] at h
    by_cases hx : A.has x = true
    · rw [if_pos hx, setType.go] at h
      injection h with h _
      exact ⟨hx, h.symm⟩
    · rw [if_neg hx] at h
      injection h with _ h; cases h

/-- a successful `set_output([x], b)` -/
theorem setOutput_ok {A A' : Circuit} {x : Name} {b : Bool} (h : A.setOutput [x] b = (A', .ok)) :
    A.has x = true ∧ A' = A.setOutRaw x b := by
  rw [setOutput] at h
  by_cases hx : A.has x = true
  · rw [if_pos hx, setOutput] at h
    injection h with h _
    exact ⟨hx, h.symm⟩
  · rw [if_neg hx] at h
    injection h with _ h; cases h

end AU
end CG
