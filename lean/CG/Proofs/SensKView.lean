/- helper lemmas for C11: a circuit described by an explicit list of node "kinds" with their types and fan-in kinds;
   consistency, cleanliness and acyclicity read off the description -/
import CG.Proofs.SensPop
set_option linter.unusedSimpArgs false
set_option linter.unusedVariables false
namespace CG
namespace Sens
open Circuit

/-- `c` has exactly the nodes `name k` for `k ∈ KL`, node `name k` has type `ty k` and its predecessors are exactly
    the `name k'` for `k' ∈ fi k` -/
structure KView {κ : Type} (c : Circuit) (KL : List κ) (name : κ → Name) (ty : κ → String) (fi : κ → List κ) :
    Prop where
  wf : WF c
  names : c.nodeNames = KL.map name
  tys : ∀ k ∈ KL, c.ty? (name k) = some (ty k)
  edges : ∀ e, e ∈ c.edges ↔ ∃ k ∈ KL, ∃ k' ∈ fi k, e = (name k', name k)
  fiKL : ∀ k ∈ KL, ∀ k' ∈ fi k, k' ∈ KL
  fiNodup : ∀ k ∈ KL, (fi k).Nodup

theorem inj_of_nodup_map {α β : Type} (f : α → β) (l : List α) (hnd : (l.map f).Nodup) :
    ∀ a ∈ l, ∀ b ∈ l, f a = f b → a = b := by
  induction l with
  | nil => intro a ha; cases ha
  | cons x l ih =>
    simp only [List.map_cons, List.nodup_cons] at hnd
    intro a ha b hb e
    rcases List.mem_cons.1 ha with h1 | h1
    · rcases List.mem_cons.1 hb with h2 | h2
      · rw [h1, h2]
      · exfalso
        apply hnd.1
        rw [← h1, e]
        exact List.mem_map.2 ⟨b, h2, rfl⟩
    · rcases List.mem_cons.1 hb with h2 | h2
      · exfalso
        apply hnd.1
        rw [← h2, ← e]
        exact List.mem_map.2 ⟨a, h1, rfl⟩
      · exact ih hnd.2 a h1 b h2 e

section kview
variable {κ : Type} {c : Circuit} {KL : List κ} {name : κ → Name} {ty : κ → String} {fi : κ → List κ}

theorem KView.inj (V : KView c KL name ty fi) {k k' : κ} (hk : k ∈ KL) (hk' : k' ∈ KL) (e : name k = name k') :
    k = k' := by
  have hnd : (KL.map name).Nodup := by rw [← V.names]; exact V.wf.nodup
  exact inj_of_nodup_map name KL hnd k hk k' hk' e

theorem KView.has_iff (V : KView c KL name ty fi) (x : Name) : c.has x = true ↔ ∃ k ∈ KL, name k = x := by
  rw [has_iff_mem, V.names, List.mem_map]

theorem KView.has_name (V : KView c KL name ty fi) {k : κ} (hk : k ∈ KL) : c.has (name k) = true :=
  (V.has_iff _).2 ⟨k, hk, rfl⟩

theorem KView.mem_fanin (V : KView c KL name ty fi) {k : κ} (hk : k ∈ KL) (u : Name) :
    u ∈ c.fanin (name k) ↔ u ∈ (fi k).map name := by
  rw [Circuit.mem_fanin, V.edges, List.mem_map]
  constructor
  · rintro ⟨k2, hk2, k', hk', e⟩
    injection e with e1 e2
    have := V.inj hk hk2 e2
    subst this
    exact ⟨k', hk', e1.symm⟩
  · rintro ⟨k', hk', rfl⟩
    exact ⟨k, hk, k', hk', rfl⟩

theorem KView.fanin_perm (V : KView c KL name ty fi) {k : κ} (hk : k ∈ KL) :
    (c.fanin (name k)).Perm ((fi k).map name) := by
  apply (List.perm_ext_iff_of_nodup (fanin_nodup V.wf.edgesNodup _) ?_).2 (V.mem_fanin hk)
  apply nodup_map_of_inj (V.fiNodup k hk)
  intro a ha b hb e
  exact V.inj (V.fiKL k hk a ha) (V.fiKL k hk b hb) e

theorem KView.mem_node (V : KView c KL name ty fi) {k : κ} (hk : k ∈ KL) :
    ∃ a, (name k, a) ∈ c.nodes ∧ a.ty = some (ty k) := by
  obtain ⟨p, hp, e, hty⟩ := Tseitin.mem_of_ty c _ _ (V.tys k hk)
  exact ⟨p.2, by rw [← e]; exact hp, hty⟩

theorem KView.gateFn_eq (V : KView c KL name ty fi) {k : κ} (hk : k ∈ KL) (t : String) (v : Val) :
    gateFn t ((c.fanin (name k)).map v) = gateFn t ((fi k).map (fun k' => v (name k'))) := by
  rw [Limit.gateFn_perm_any t ((V.fanin_perm hk).map v), List.map_map]
  rfl

/-- reading a consistent valuation -/
theorem KView.gate (V : KView c KL name ty fi) {v : Val} (hv : Consistent c v) {k : κ} (hk : k ∈ KL) {b : Bool}
    (hb : gateFn (ty k) ((fi k).map (fun k' => v (name k'))) = some b) : v (name k) = b := by
  obtain ⟨a, ha, hta⟩ := V.mem_node hk
  apply hv _ ha _ hta
  simp only []
  rw [V.gateFn_eq hk]
  exact hb

/-- building a consistent valuation -/
theorem KView.consistent_of (V : KView c KL name ty fi) {v : Val}
    (h : ∀ k ∈ KL, ∀ b, gateFn (ty k) ((fi k).map (fun k' => v (name k'))) = some b → v (name k) = b) :
    Consistent c v := by
  intro p hp t ht b hb
  have hx : c.has p.1 = true := (has_iff_mem c p.1).2 (List.mem_map.2 ⟨p, hp, rfl⟩)
  obtain ⟨k, hk, e⟩ := (V.has_iff _).1 hx
  have hty : c.ty? p.1 = some t := by
    rw [ty?, attr?_of_mem V.wf.nodup (a := p.2) hp]
    exact ht
  rw [← e, V.tys k hk] at hty
  injection hty with hty
  subst hty
  rw [← e]
  apply h k hk b
  rw [← V.gateFn_eq hk, e]
  exact hb

open Classical in
theorem KView.acyclic (V : KView c KL name ty fi) (r : κ → Nat) (hr : ∀ k ∈ KL, ∀ k' ∈ fi k, r k' < r k) :
    Acyclic c := by
  let dec : Name → Nat := fun z => if h : ∃ k, k ∈ KL ∧ name k = z then r (choose h) else 0
  have hdec : ∀ k ∈ KL, dec (name k) = r k := by
    intro k hk
    have hex : ∃ k2, k2 ∈ KL ∧ name k2 = name k := ⟨k, hk, rfl⟩
    have : dec (name k) = r (choose hex) := by
      simp only [dec]
      rw [dif_pos hex]
    rw [this]
    obtain ⟨h1, h2⟩ := choose_spec hex
    rw [V.inj h1 hk h2]
  refine ⟨dec, ?_⟩
  intro e he
  obtain ⟨k, hk, k', hk', rfl⟩ := (V.edges e).1 he
  simp only []
  rw [hdec k hk, hdec k' (V.fiKL k hk k' hk')]
  exact hr k hk k' hk'

theorem KView.clean (V : KView c KL name ty fi)
    (htyped : ∀ k ∈ KL, ty k ∈ Expected.supported_types ∧ ty k ≠ "x")
    (hsingle : ∀ k ∈ KL, ty k ∈ ["buf", "not", "bb_input"] → (fi k).length ≤ 1)
    (hmulti : ∀ k ∈ KL, ty k ∈ ["and", "nand", "or", "nor", "xor", "xnor"] → 1 ≤ (fi k).length) : C01.Clean c := by
  refine ⟨V.wf.nodup, ?_, ?_, ?_⟩
  · intro p hp
    have hx : c.has p.1 = true := (has_iff_mem c p.1).2 (List.mem_map.2 ⟨p, hp, rfl⟩)
    obtain ⟨k, hk, e⟩ := (V.has_iff _).1 hx
    have hty := V.tys k hk
    rw [e, ty?, attr?_of_mem V.wf.nodup (a := p.2) hp] at hty
    exact ⟨ty k, hty, (htyped k hk).1, (htyped k hk).2⟩
  · intro x t hty hm
    obtain ⟨k, hk, e⟩ := (V.has_iff _).1 (has_of_ty? hty)
    subst e
    rw [V.tys k hk] at hty
    injection hty with hty
    subst hty
    rw [(V.fanin_perm hk).length_eq, List.length_map]
    exact hsingle k hk hm
  · intro x t hty hm
    obtain ⟨k, hk, e⟩ := (V.has_iff _).1 (has_of_ty? hty)
    subst e
    rw [V.tys k hk] at hty
    injection hty with hty
    subst hty
    rw [(V.fanin_perm hk).length_eq, List.length_map]
    exact hmulti k hk hm

end kview

end Sens
end CG
