/- C03 helper: consequences of `Wr`, the invariant of the blackbox fold of `toWModule` -/
import CG.Proofs.VRoundWriteA
namespace CG
namespace VR
open Verilog Circuit

abbrev pin (inst g : Name) : Name := inst ++ "." ++ g

theorem ty?_of_mem {c : Circuit} (hn : c.nodeNames.Nodup) {p : Name × Attr} (hp : p ∈ c.nodes) :
    c.ty? p.1 = p.2.ty := by
  have : c.attr? p.1 = some p.2 := attr?_of_mem hn (a := p.2) hp
  simp [ty?, this]

theorem mem_of_ty? {c : Circuit} {n : Name} {t : String} (h : c.ty? n = some t) :
    ∃ a, (n, a) ∈ c.nodes ∧ a.ty = some t := by
  unfold ty? at h
  cases ha : c.attr? n with
  | none => rw [ha] at h; simp at h
  | some a =>
    rw [ha] at h
    exact ⟨a, attr?_mem ha, by simpa using h⟩

theorem mem_nodeNames_of_ty? {c : Circuit} {n : Name} {t : String} (h : c.ty? n = some t) : n ∈ c.nodeNames :=
  (has_iff_mem c n).1 (has_of_ty? h)

theorem ty?_of_mem_nodeNames {c : Circuit} (hc : Wr c) {n : Name} (h : n ∈ c.nodeNames) :
    ∃ t, c.ty? n = some t ∧ t ∈ Expected.supported_types := by
  simp only [nodeNames, List.mem_map] at h
  obtain ⟨p, hp, rfl⟩ := h
  obtain ⟨t, ht, hs⟩ := hc.clean.typed p hp
  exact ⟨t, by rw [ty?_of_mem hc.clean.nodup hp, ht], hs⟩

/-- no node name of a writable circuit is an escaped identifier -/
theorem no_bs {c : Circuit} (hc : Wr c) {n : Name} (h : n ∈ c.nodeNames) : ¬ n.startsWith "\\" = true := by
  simp only [nodeNames, List.mem_map] at h
  obtain ⟨p, hp, rfl⟩ := h
  by_cases hb : p.2.ty = some "bb_input" ∨ p.2.ty = some "bb_output"
  · obtain ⟨q, hq, g, hg, _⟩ := hc.pins p hp hb
    obtain ⟨_, _, hpn, _⟩ := hc.pinsPresent q hq
    rw [hg]
    exact startsWith_pin hpn.1 hpn.2.2.2.1 g
  · have := hc.names p hp ⟨fun h => hb (Or.inl h), fun h => hb (Or.inr h)⟩
    exact this.2.2.2.1

theorem c1_eq {c : Circuit} (ord : Ord) (hord : OrdOK ord) (hc : Wr c) :
    (ord c.nodeNames).foldl relStep c = c :=
  relFold_id c _ (fun _ hn => no_bs hc ((hord _).mem_iff.1 hn))

theorem any_none {c : Circuit} (hc : Wr c) : c.nodes.any (fun p => p.2.ty.isNone) = false := by
  rw [List.any_eq_false]
  intro p hp
  have := (hc.full p hp).1
  cases h : p.2.ty with
  | none => rw [h] at this; simp at this
  | some t => simp

/-- `x` is an output pin of one of the registry entries in `l` -/
def OutPin (l : List (Name × BBox)) (x : Name) : Prop := ∃ q ∈ l, ∃ g ∈ q.2.outs, x = pin q.1 g

theorem outPin_iff {c : Circuit} (hc : Wr c) (x : Name) : OutPin c.bbs x ↔ c.ty? x = some "bb_output" := by
  constructor
  · rintro ⟨q, hq, g, hg, rfl⟩
    exact (hc.pinsPresent q hq).2.1 g hg
  · intro h
    obtain ⟨a, ha, hat⟩ := mem_of_ty? h
    obtain ⟨q, hq, g, hg, hh⟩ := hc.pins (x, a) ha (Or.inr hat)
    rcases hh with ⟨h1, _⟩ | ⟨_, h2⟩
    · rw [hat] at h1; simp at h1
    · exact ⟨q, hq, g, h2, hg⟩

/-- the private copy after some `disconnect`s: same nodes, the edges of `c` minus those leaving a pin in `S` -/
structure CInv (c : Circuit) (S : Name → Prop) (s : Circuit) : Prop where
  nodes : s.nodes = c.nodes
  name : s.name = c.name
  nodup : s.edges.Nodup
  edges : ∀ e, e ∈ s.edges ↔ e ∈ c.edges ∧ ¬ S e.1
  dty : ∀ x, S x → c.ty? x = some "bb_output"

theorem CInv.congr {c : Circuit} {S S' : Name → Prop} {s : Circuit} (h : CInv c S s) (hS : ∀ x, S' x ↔ S x) :
    CInv c S' s :=
  ⟨h.nodes, h.name, h.nodup, fun e => by rw [h.edges, hS], fun x hx => h.dty x ((hS x).1 hx)⟩

theorem CInv.init {c : Circuit} (hc : Wr c) : CInv c (fun _ => False) c :=
  ⟨rfl, rfl, hc.clean.edgesNodup, fun e => by simp, fun _ h => h.elim⟩

theorem ord_nil {ord : Ord} (hord : OrdOK ord) {l : List Name} (h : ord l = []) : l = [] := by
  have := (hord l).length_eq
  rw [h] at this
  exact List.eq_nil_of_length_eq_zero this.symm

theorem disconnect_mem_single (c : Circuit) (a b : Name) (e : Name × Name) :
    e ∈ (c.disconnect [a] [b]).edges ↔ e ∈ c.edges ∧ ¬ (e.1 = a ∧ e.2 = b) := by
  simp only [disconnect, List.mem_filter, List.contains_cons, List.contains_nil, Bool.or_false, Bool.not_eq_true',
    Bool.and_eq_false_iff, beq_eq_false_iff_ne, ne_eq, Classical.not_and_iff_not_or_not]

/-! ### input pins -/

def InConn (c : Circuit) (inst : Name) (p : Name × Option Expr) : Prop :=
  ∃ d, p.2 = some (Expr.id d) ∧ (d, pin inst p.1) ∈ c.edges

theorem bbInStep_ok {c : Circuit} {ord : Ord} (hord : OrdOK ord) (hc : Wr c) {S : Name → Prop} {s : Circuit}
    (hs : CInv c S s) (inst g : Name) (hty : c.ty? (pin inst g) = some "bb_input") (io : List (Name × Option Expr)) :
    ∃ x, bbInStep ord s inst io g = .ok (io ++ [(g, x)]) ∧ InConn c inst (g, x) := by
  have hhas : s.has (inst ++ "." ++ g) = true := by
    rw [has_congr hs.nodes]; exact has_of_ty? hty
  have hlen := hc.clean.single _ _ hty (by decide)
  obtain ⟨u, hu⟩ : ∃ u, u ∈ c.fanin (pin inst g) := by
    cases hf : c.fanin (pin inst g) with
    | nil => rw [hf] at hlen; simp at hlen
    | cons u _ => exact ⟨u, by simp⟩
  have hue : (u, pin inst g) ∈ c.edges := mem_fanin.1 hu
  have hus : (u, pin inst g) ∈ s.edges := by
    rw [hs.edges]
    refine ⟨hue, fun hS => ?_⟩
    have h1 := (hc.clean.bbOut _ hue (hs.dty _ hS)).1
    rw [hty] at h1
    simp at h1
  unfold bbInStep
  rw [hhas]
  simp only [Bool.not_true, Bool.false_eq_true, if_false]
  cases hf : ord (s.fanin (inst ++ "." ++ g)) with
  | nil =>
    have := ord_nil hord hf
    have h2 : u ∈ s.fanin (inst ++ "." ++ g) := mem_fanin.2 hus
    rw [this] at h2
    simp at h2
  | cons d r =>
    refine ⟨some (Expr.id d), rfl, d, rfl, ?_⟩
    have hd : d ∈ ord (s.fanin (inst ++ "." ++ g)) := by rw [hf]; simp
    have hd2 := mem_fanin.1 ((hord _).mem_iff.1 hd)
    exact ((hs.edges _).1 hd2).1

theorem bbInFold_ok {c : Circuit} {ord : Ord} (hord : OrdOK ord) (hc : Wr c) {S : Name → Prop} {s : Circuit}
    (hs : CInv c S s) (inst : Name) : ∀ (l : List Name) (io : List (Name × Option Expr)),
    (∀ g ∈ l, c.ty? (pin inst g) = some "bb_input") →
    ∃ xs, l.foldlM (bbInStep ord s inst) io = .ok (io ++ xs) ∧ xs.map (·.1) = l ∧ ∀ p ∈ xs, InConn c inst p
  | [], io, _ => ⟨[], by simp [List.foldlM_nil]; rfl, rfl, by simp⟩
  | g :: l, io, h => by
    obtain ⟨x, hx, hxc⟩ := bbInStep_ok hord hc hs inst g (h g (by simp)) io
    obtain ⟨xs, hxs, hm, hall⟩ := bbInFold_ok hord hc hs inst l (io ++ [(g, x)]) (fun g' hg' => h g' (by simp [hg']))
    refine ⟨(g, x) :: xs, ?_, by simp [hm], ?_⟩
    · rw [List.foldlM_cons, hx, Arith.bind_ok, hxs]
      simp
    · intro p hp
      rcases List.mem_cons.1 hp with rfl | hp
      · exact hxc
      · exact hall p hp

/-! ### output pins -/

def OutConn (c : Circuit) (inst : Name) (p : Name × Option Expr) : Prop :=
  (∃ d, p.2 = some (Expr.id d) ∧ (pin inst p.1, d) ∈ c.edges) ∨ (p.2 = none ∧ ∀ d, (pin inst p.1, d) ∉ c.edges)

theorem bbOutStep_ok {c : Circuit} {ord : Ord} (hord : OrdOK ord) (hc : Wr c) {S : Name → Prop}
    (r : Circuit × List (Name × Option Expr)) (hs : CInv c S r.1) (inst g : Name)
    (hty : c.ty? (pin inst g) = some "bb_output") (hnS : ¬ S (pin inst g)) :
    ∃ r' x, bbOutStep ord inst r g = .ok (r', r.2 ++ [(g, x)]) ∧ CInv c (fun y => S y ∨ y = pin inst g) r' ∧
      OutConn c inst (g, x) := by
  have hhas : r.1.has (inst ++ "." ++ g) = true := by
    rw [has_congr hs.nodes]; exact has_of_ty? hty
  unfold bbOutStep
  rw [hhas]
  simp only [Bool.not_true, Bool.false_eq_true, if_false]
  cases hf : ord (r.1.fanout (inst ++ "." ++ g)) with
  | nil =>
    have hnil := ord_nil hord hf
    have hno : ∀ d, (pin inst g, d) ∉ r.1.edges := by
      intro d hd
      have := mem_fanout.2 hd
      rw [hnil] at this
      simp at this
    refine ⟨r.1, none, rfl, ⟨hs.nodes, hs.name, hs.nodup, ?_, ?_⟩, Or.inr ⟨rfl, ?_⟩⟩
    · intro e
      rw [hs.edges]
      constructor
      · rintro ⟨h1, h2⟩
        refine ⟨h1, ?_⟩
        rintro (h3 | h3)
        · exact h2 h3
        · apply hno e.2
          rw [hs.edges, ← h3]
          exact ⟨h1, h2⟩
      · rintro ⟨h1, h2⟩
        exact ⟨h1, fun h3 => h2 (Or.inl h3)⟩
    · rintro x (hx | rfl)
      · exact hs.dty x hx
      · exact hty
    · intro d hd
      exact hno d ((hs.edges _).2 ⟨hd, hnS⟩)
  | cons d rest =>
    have hd : d ∈ ord (r.1.fanout (inst ++ "." ++ g)) := by rw [hf]; simp
    have hd2 : (pin inst g, d) ∈ r.1.edges := mem_fanout.1 ((hord _).mem_iff.1 hd)
    have hd3 : (pin inst g, d) ∈ c.edges := ((hs.edges _).1 hd2).1
    have hle := (hc.clean.bbOut _ hd3 hty).2
    have huniq := (fanout_le_one_iff hc.clean.edgesNodup _).1 hle
    refine ⟨_, some (Expr.id d), rfl, ⟨?_, ?_, ?_, ?_, ?_⟩, Or.inl ⟨d, rfl, hd3⟩⟩
    · exact hs.nodes
    · exact hs.name
    · exact disconnect_edges_nodup _ _ hs.nodup
    · intro e
      rw [disconnect_mem_single, hs.edges]
      constructor
      · rintro ⟨⟨h1, h2⟩, h3⟩
        refine ⟨h1, ?_⟩
        rintro (h4 | h4)
        · exact h2 h4
        · have : e.2 = d := by
            apply huniq e.2 d _ hd3
            rw [← h4]; exact h1
          exact h3 ⟨h4, this⟩
      · rintro ⟨h1, h2⟩
        exact ⟨⟨h1, fun h3 => h2 (Or.inl h3)⟩, fun h3 => h2 (Or.inr h3.1)⟩
    · rintro x (hx | rfl)
      · exact hs.dty x hx
      · exact hty

end VR
end CG
