/- C09 (sequential_unroll, semantics): soundness and completeness against cycle-accurate runs -/
import CG.Proofs.UnrollSeqSemSetup
set_option linter.unusedSimpArgs false
set_option linter.unusedVariables false
namespace CG
namespace USS
open Circuit Unroll Strip

/-- mirror of `C09.SeqRun` -/
def SeqRun' (c : Circuit) (dPort qPort : Name) (n : Nat) (w : Nat → Val) : Prop :=
  (∀ t, t < n → Consistent c (w t)) ∧
  (∀ t, t + 1 < n → ∀ u ∈ c.bbs, w (t + 1) (u.1 ++ "." ++ qPort) = w t (u.1 ++ "." ++ dPort))

/-- a successful call, unfolded against the mirrored hypotheses -/
theorem unfold_all {c : Circuit} {bb : BBox} {n : Nat} {d q : Name} {ig : List Name} {afo : Bool}
    {initStr : Option String} {ru : Bool} {pfx : String} {ord : Ord} (hord : OrdOK ord)
    (G : SeqGood' c bb d q) (K : NoClash c bb ig) (hig : d ∉ ig ∧ q ∉ ig) {uc : Circuit} {ioMap : List (Name × List Name)}
    (h : Tx.sequentialUnroll c n d q ig afo initStr [] ru pfx ord = .ok (uc, ioMap)) :
    ∃ cs0 r, Setup c bb d q ig ru pfx ord n cs0 r ∧ ioMap = r.2 ∧
      uc.edges = r.1.edges ∧ uc.nodeNames = r.1.nodeNames ∧
      (∀ x, uc.ty? x = r.1.ty? x ∨
        (∃ s, initStr = some s ∧ uc.ty? x = some s ∧ ∃ u ∈ c.bbs,
          x = N (prune cs0 bb (insts c) d q ig ru) pfx (u.1 ++ "_" ++ q) 0)) ∧
      (∀ s, initStr = some s → ∀ u ∈ c.bbs,
        uc.ty? (N (prune cs0 bb (insts c) d q ig ru) pfx (u.1 ++ "_" ++ q) 0) = some s) := by
  obtain ⟨cs0, u0, bb0, rest, r, uc1, hs, hbbs, hr, h1, h2, hm⟩ := seq_unfold' h
  have hbb : bb0 = bb := G.oneType (u0, bb0) (by rw [hbbs]; simp)
  subst hbb
  have T := setup (ru := ru) hord G K hig hs hr
  obtain ⟨e1, e2, e3, e4⟩ := final_ty h1 h2
  refine ⟨cs0, r, T, hm, e1, e2, ?_, ?_⟩
  · intro x
    rcases e3 x with h | ⟨s, hs', hty, b, hb, e⟩
    · exact Or.inl h
    · obtain ⟨u, hu, rfl⟩ := List.mem_map.1 hb
      refine Or.inr ⟨s, hs', hty, u, hu, ?_⟩
      rw [e]
      exact T.ioName (T.qName u hu).2.2.2 T.npos
  · intro s hs u hu
    rw [← T.ioName (T.qName u hu).2.2.2 T.npos]
    exact e4 s hs u.1 (List.mem_map.2 ⟨u, hu, rfl⟩)

theorem seq_sound (c : Circuit) (bb : BBox) (n : Nat) (d q : Name) (ig : List Name) (afo : Bool)
    (initStr : Option String) (ru : Bool) (pfx : String) (ord : Ord) (hord : OrdOK ord)
    (G : SeqGood' c bb d q) (K : NoClash c bb ig) (hig : d ∉ ig ∧ q ∉ ig) (hinit : ∀ s, initStr = some s → s = "0" ∨ s = "1")
    (uc : Circuit) (ioMap : List (Name × List Name))
    (h : Tx.sequentialUnroll c n d q ig afo initStr [] ru pfx ord = .ok (uc, ioMap))
    (v : Val) (hv : Consistent uc v) :
    ∃ w, SeqRun' c d q n w ∧
      (∀ o ∈ c.outputs, ∀ t, t < n → v (Tx.ioName ioMap o t) = w t o) ∧
      (∀ u ∈ c.bbs, ∀ t, t < n → v (Tx.ioName ioMap (u.1 ++ "_" ++ d) t) = w t (u.1 ++ "." ++ d)) ∧
      (∀ s, initStr = some s → ∀ u ∈ c.bbs, w 0 (u.1 ++ "." ++ q) = (s == "1")) := by
  obtain ⟨cs0, r, T, hm, e1, e2, e3, e4⟩ := unfold_all hord G K hig h
  subst hm
  have hndu : uc.nodeNames.Nodup := by rw [e2]; exact T.I.wf.nodup
  -- `v` is consistent with the plain unrolling
  have hv0 : Consistent r.1 v := by
    apply consistent_transfer e1.symm T.I.wf.nodup hndu hv
    intro x t hx
    rcases e3 x with h3 | ⟨s, _, _, u, hu, rfl⟩
    · exact Or.inl (by rw [h3]; exact hx)
    · rw [T.q0_input hu] at hx
      injection hx with hx
      subst hx
      exact Or.inr (fun l b hg => by rw [gateFn_input] at hg; cases hg)
  obtain ⟨s1, s2, s3⟩ := T.I.sem T.C hv0
  have hA := R12_removable G K T.S
  have hB := R3_removable (cs0.remove (R12 c bb d q ig)) (insts c) q ru
  -- the value of a surviving node of the sequential circuit
  have hback : ∀ t x, dropped c ig x = false → sname c ig x ∈ ord (prune cs0 bb (insts c) d q ig ru).io →
      back c ig cs0 (R12 c bb d q ig) (R3 (cs0.remove (R12 c bb d q ig)) (insts c) q ru) (fun y => v (U t y)) x =
        v (U t (sname c ig x)) := by
    intro t x hd hio
    have h3 := has_of_mem_io ((hord _).mem_iff.1 hio)
    rw [prune_eq, remove2_has] at h3
    exact back_val _ hd h3.2.1 h3.2.2
  refine ⟨fun t => back c ig cs0 (R12 c bb d q ig) (R3 (cs0.remove (R12 c bb d q ig)) (insts c) q ru) (fun y => v (U t y)),
    ⟨?_, ?_⟩, ?_, ?_, ?_⟩
  · intro t ht
    apply back_consistent G.clean T.S hA hB
    rw [← prune_eq]
    exact s1 t ht
  · intro t ht u hu
    obtain ⟨_, qd, qs, qio⟩ := T.qName u hu
    obtain ⟨_, dd, ds, dio⟩ := T.dName u hu
    show back _ _ _ _ _ _ _ = back _ _ _ _ _ _ _
    rw [hback _ _ qd (by rw [qs]; exact qio), hback _ _ dd (by rw [ds]; exact dio), qs, ds]
    exact s2 t ht _ (mem_sio hu)
  · intro o ho t ht
    obtain ⟨o3, os, od, _⟩ := out_survives G K T.S ru ho
    have oio : o ∈ ord (prune cs0 bb (insts c) d q ig ru).io := (hord _).mem_iff.2 (mem_union.2 (Or.inr o3))
    show _ = back _ _ _ _ _ _ _
    rw [hback _ _ od (by rw [os]; exact oio), os, T.ioName oio ht]
    exact s3 o oio t ht
  · intro u hu t ht
    obtain ⟨_, dd, ds, dio⟩ := T.dName u hu
    show _ = back _ _ _ _ _ _ _
    rw [hback _ _ dd (by rw [ds]; exact dio), ds, T.ioName dio ht]
    exact s3 _ dio t ht
  · intro s hs u hu
    obtain ⟨_, qd, qs, qio⟩ := T.qName u hu
    show back _ _ _ _ _ _ _ = _
    rw [hback _ _ qd (by rw [qs]; exact qio), qs, ← s3 _ qio 0 T.npos]
    obtain ⟨a, ha, hta⟩ := mem_of_ty? (e4 s hs u hu)
    exact hv _ ha s hta _ (gateFn_const (hinit s hs) ((uc.fanin _).map v))

theorem seq_complete (c : Circuit) (bb : BBox) (n : Nat) (d q : Name) (ig : List Name) (afo : Bool)
    (initStr : Option String) (ru : Bool) (pfx : String) (ord : Ord) (hord : OrdOK ord)
    (G : SeqGood' c bb d q) (K : NoClash c bb ig) (hig : d ∉ ig ∧ q ∉ ig) (hinit : ∀ s, initStr = some s → s = "0" ∨ s = "1")
    (uc : Circuit) (ioMap : List (Name × List Name))
    (h : Tx.sequentialUnroll c n d q ig afo initStr [] ru pfx ord = .ok (uc, ioMap))
    (w : Nat → Val) (hw : SeqRun' c d q n w)
    (hw0 : ∀ s, initStr = some s → ∀ u ∈ c.bbs, w 0 (u.1 ++ "." ++ q) = (s == "1")) :
    ∃ v, Consistent uc v ∧
      (∀ o ∈ c.outputs, ∀ t, t < n → v (Tx.ioName ioMap o t) = w t o) ∧
      (∀ u ∈ c.bbs, ∀ t, t < n → v (Tx.ioName ioMap (u.1 ++ "_" ++ d) t) = w t (u.1 ++ "." ++ d)) := by
  obtain ⟨cs0, r, T, hm, e1, e2, e3, e4⟩ := unfold_all hord G K hig h
  subst hm
  have hndu : uc.nodeNames.Nodup := by rw [e2]; exact T.I.wf.nodup
  have hA := R12_removable G K T.S
  have hB := R3_removable (cs0.remove (R12 c bb d q ig)) (insts c) q ru
  -- the per-cycle valuations of the pruned circuit
  have hw3 : ∀ t, t < n → Consistent (prune cs0 bb (insts c) d q ig ru) (pushVal c ig (w t)) := by
    intro t ht
    rw [prune_eq]
    exact fwd_consistent G.clean T.S hA hB (hw.1 t ht)
  have hlink : ∀ t, t + 1 < n → ∀ p ∈ sio c d q, pushVal c ig (w (t + 1)) p.2 = pushVal c ig (w t) p.1 := by
    intro t ht p hp
    obtain ⟨u, hu, rfl⟩ := mem_sio_inv hp
    obtain ⟨qh, qd, qs, _⟩ := T.qName u hu
    obtain ⟨dh, dd, ds, _⟩ := T.dName u hu
    show pushVal c ig (w (t + 1)) (u.1 ++ "_" ++ q) = pushVal c ig (w t) (u.1 ++ "_" ++ d)
    rw [← qs, ← ds, pushVal_surv T.S _ qh qd, pushVal_surv T.S _ dh dd]
    exact hw.2 t ht u hu
  have hio : ∀ x ∈ ord (prune cs0 bb (insts c) d q ig ru).io, x ∉ (prune cs0 bb (insts c) d q ig ru).inputs →
      (prune cs0 bb (insts c) d q ig ru).has x = true := fun x hx _ => has_of_mem_io ((hord _).mem_iff.1 hx)
  obtain ⟨k1, k2⟩ := T.I.complete T.C hio (fun t => pushVal c ig (w t)) hw3 hlink
  refine ⟨valOf (prune cs0 bb (insts c) d q ig ru) pfx (ord (prune cs0 bb (insts c) d q ig ru).io) n
    (fun t => pushVal c ig (w t)), ?_, ?_, ?_⟩
  · apply consistent_transfer e1 hndu T.I.wf.nodup k1
    intro x t hx
    rcases e3 x with h3 | ⟨s, hs, hty, u, hu, rfl⟩
    · exact Or.inl (by rw [← h3]; exact hx)
    · rw [hty] at hx
      injection hx with hx
      subst hx
      right
      intro l b hg
      rw [gateFn_const (hinit s hs) l] at hg
      injection hg with hg
      obtain ⟨qh, qd, qs, qio⟩ := T.qName u hu
      rw [← hg, valOf_N T.I _ T.npos qio, ← qs, pushVal_surv T.S _ qh qd]
      exact hw0 s hs u hu
  · intro o ho t ht
    obtain ⟨o3, os, od, oh⟩ := out_survives G K T.S ru ho
    have oio : o ∈ ord (prune cs0 bb (insts c) d q ig ru).io := (hord _).mem_iff.2 (mem_union.2 (Or.inr o3))
    rw [T.ioName oio ht, valOf_N T.I _ ht oio]
    have := pushVal_surv T.S (w t) oh od
    rw [os] at this
    exact this
  · intro u hu t ht
    obtain ⟨dh, dd, ds, dio⟩ := T.dName u hu
    rw [T.ioName dio ht, valOf_N T.I _ ht dio, ← ds]
    exact pushVal_surv T.S (w t) dh dd

end USS
end CG
