/- C14 (character level, fast parser) helper: the two `re.search` calls on the whole text: the module header
   `module\s+(.+?)\s*\(.*?\);` at position 0 and the last line `\bendmodule\b` -/
import CG.Proofs.FastTextDefs
import CG.Proofs.BenchTextSpecGate
import CG.Proofs.VModTextMatch
set_option linter.unusedSimpArgs false
set_option linter.unusedVariables false
namespace CG
namespace FT
open Regex BenchText

variable (ctx : Ctx)

theorem need_rxEnd (s : Array Char) : need s.size rxEnd ≤ fuelFor s := by
  simp only [rxEnd, need, VMT.need_litThen, VMT.kwE, fuelFor, List.length_cons, List.length_nil]
  omega

theorem need_rxHdr (s : Array Char) : need s.size rxHdr ≤ fuelFor s := by
  simp only [rxHdr, ws1, ws, ch, need, VMT.need_litThen, kModule, fuelFor, List.length_cons, List.length_nil]
  omega

/-! ### `\bendmodule\b` -/

/-- a declarative match of `\bendmodule\b` at a split of the text -/
theorem den_rxEnd {a s s' : List Char} {c' : Caps} (hT : txt ctx = a ++ s) (h : Den ctx rxEnd s [] s' c') :
    s = VMT.kwE ++ s' ∧ VMT.BrkL a ∧ VMT.BrkR s' ∧ c' = [] := by
  obtain ⟨s1, c1, ⟨hw1, rfl, rfl⟩, h2⟩ := h
  rw [VMT.den_litThen] at h2
  obtain ⟨s2, e, hw2, rfl, rfl⟩ := h2
  subst e
  refine ⟨rfl, ?_, ?_, rfl⟩
  · have := VMT.wbAt_split ctx a (VMT.kwE ++ s') hT
    rw [hw1, VMT.headW_kwE] at this
    apply VMT.brkL_of_lastW
    cases hl : VMT.lastW a with
    | false => rfl
    | true => rw [hl] at this; cases this
  · have := VMT.wbAt_split ctx (a ++ VMT.kwE) s' (by rw [hT, List.append_assoc])
    rw [hw2, VMT.lastW_append_kwE] at this
    apply VMT.brkR_of_headW
    cases hl : VMT.headW s' with
    | false => rfl
    | true => rw [hl] at this; cases this

theorem lastW_of_brkL {pre : List Char} (h : VMT.BrkL pre) : VMT.lastW pre = false := by
  unfold VMT.lastW
  cases hl : pre.getLast? with
  | none => rfl
  | some c => exact h c hl

/-- `\bendmodule\b` finds the last line when `endmodule` occurs as a whole word only there -/
theorem end_search {pre : List Char} (hT : txt ctx = pre ++ VMT.kwE ++ ['\n'])
    (huniq : ∀ a b, txt ctx = a ++ VMT.kwE ++ b → VMT.BrkL a → VMT.BrkR b → b = ['\n'])
    (hpre : VMT.BrkL pre) :
    ∃ caps, searchFrom ctx rxEnd (fuelFor ctx.s) (ctx.s.size + 1) 0 = some (pre.length, pre.length + 9, caps) := by
  have hsz : ctx.s.size = pre.length + 9 + 1 := by
    rw [← txt_length, hT]
    simp [VMT.kwE]
  have hskip := sf_skip ctx rxEnd (fuelFor ctx.s) pre.length 0 (by omega) (by
    intro i _ hi
    apply m_none ctx _ _ i (by omega)
    intro s' c' h
    have hsplit : txt ctx = (txt ctx).take i ++ (txt ctx).drop i := (List.take_append_drop _ _).symm
    obtain ⟨e, hl, hr, _⟩ := den_rxEnd ctx hsplit h
    have hb := huniq ((txt ctx).take i) s' (by rw [List.append_assoc, ← e]; exact hsplit) hl hr
    subst hb
    have := congrArg List.length e
    rw [drop_length] at this
    simp [VMT.kwE] at this
    omega)
  rw [Nat.zero_add] at hskip
  have hdrop : (txt ctx).drop pre.length = VMT.kwE ++ ['\n'] := by
    rw [hT, List.append_assoc, List.drop_left]
  have hm := m_some ctx (fuelFor ctx.s) rxEnd pre.length (by omega) (need_rxEnd ctx.s) ['\n'] []
    (by
      rw [hdrop]
      refine ⟨_, _, ⟨?_, rfl, rfl⟩, ?_⟩
      · rw [VMT.wbAt_split ctx pre (VMT.kwE ++ ['\n']) (by rw [hT, List.append_assoc]), lastW_of_brkL hpre,
          VMT.headW_kwE]
        rfl
      · rw [VMT.den_litThen]
        refine ⟨_, rfl, ?_, rfl, rfl⟩
        rw [VMT.wbAt_split ctx (pre ++ VMT.kwE) ['\n'] hT, VMT.lastW_append_kwE]
        rfl)
    (by
      intro s' c' h
      rw [hdrop] at h
      obtain ⟨e, _, _, hc⟩ := den_rxEnd ctx (a := pre) (by rw [hT, List.append_assoc]) h
      exact ⟨(List.append_cancel_left e).symm, hc⟩)
  refine ⟨[], ?_⟩
  rw [hskip, sf_hit ctx rxEnd _ (by omega) hm]
  simp only [List.length_cons, List.length_nil]
  have : ctx.s.size - (0 + 1) = pre.length + 9 := by omega
  rw [this]

/-! ### `module\s+(.+?)\s*\(.*?\);` -/

/-- one `.seq` of the matcher, through `m_sound` -/
theorem peelP {f : Nat} {a b : Re} {pos : Nat} {caps : Caps} {k : Nat → Caps → Option (Nat × Caps)} {x : Nat × Caps}
    (hp : pos ≤ ctx.s.size) (h : m ctx (f + 1) (.seq a b) pos caps k = some x) :
    ∃ s' c', Den ctx a ((txt ctx).drop pos) caps s' c' ∧ m ctx f b (ctx.s.size - s'.length) c' k = some x := by
  have e : m ctx (f + 1) (.seq a b) pos caps k = m ctx f a pos caps (fun p c => m ctx f b p c k) := rfl
  rw [e] at h
  exact m_sound ctx f a pos caps _ x hp h

/-- a run of literal characters in the matcher -/
theorem m_litThen (r : Re) (k : Nat → Caps → Option (Nat × Caps)) (x : Nat × Caps) :
    ∀ (u : List Char) (f pos : Nat) (caps : Caps), pos ≤ ctx.s.size →
      m ctx (f + u.length) (VMT.litThen u r) pos caps k = some x →
      ∃ s1, (txt ctx).drop pos = u ++ s1 ∧ m ctx f r (pos + u.length) caps k = some x
  | [], f, pos, caps, hp, h => ⟨_, rfl, h⟩
  | a :: u, f, pos, caps, hp, h => by
    have h' : m ctx ((f + u.length) + 1) (.seq (ch a) (VMT.litThen u r)) pos caps k = some x := h
    obtain ⟨s', c', h1, h2⟩ := peelP ctx hp h'
    obtain ⟨e, rfl⟩ := (den_ch ctx _ _ _ _ _).1 h1
    have e' : (txt ctx).drop pos = [a] ++ s' := e
    rw [end_pos ctx hp e'] at h2
    obtain ⟨s1, e1, h3⟩ := m_litThen r k x u f _ _ (le_of_drop ctx hp e') h2
    rw [drop_add ctx e'] at e1
    refine ⟨s1, by rw [e, e1]; rfl, ?_⟩
    rw [← h3]
    congr 1
    simp only [List.length_cons, List.length_nil]
    omega

/-- `.+?` / `.*?`: the result is the continuation at the first position where it succeeds -/
theorem lazy_plus_first (hd : ctx.dotall = true) (k : Nat → Caps → Option (Nat × Caps)) (caps : Caps)
    (x : Nat × Caps) (fuel pos n0 : Nat) (h : m ctx fuel (.plus .any false) pos caps k = some x)
    (hfail : ∀ j, j < n0 → k (pos + 1 + j) caps = none) (hok : (k (pos + 1 + n0) caps).isSome = true) :
    k (pos + 1 + n0) caps = some x := by
  obtain ⟨n, h1, h2, _⟩ := lazy_plus_sound ctx hd k caps x fuel pos h
  rcases Nat.lt_trichotomy n n0 with hl | rfl | hl
  · rw [hfail n hl] at h1; cases h1
  · exact h1
  · rw [h2 n0 hl] at hok; cases hok

theorem lazy_star_first (hd : ctx.dotall = true) (k : Nat → Caps → Option (Nat × Caps)) (caps : Caps)
    (x : Nat × Caps) (fuel pos n0 : Nat) (h : m ctx fuel (.star .any false) pos caps k = some x)
    (hfail : ∀ j, j < n0 → k (pos + j) caps = none) (hok : (k (pos + n0) caps).isSome = true) :
    k (pos + n0) caps = some x := by
  obtain ⟨n, h1, h2, _⟩ := lazy_star_sound ctx hd k caps x fuel pos h
  rcases Nat.lt_trichotomy n n0 with hl | rfl | hl
  · rw [hfail n hl] at h1; cases h1
  · exact h1
  · rw [h2 n0 hl] at hok; cases hok

/-- `\);` then the end: the continuation after `.*?` -/
theorem k5_sound {g q : Nat} {c : Caps} {x : Nat × Caps} (hq : q ≤ ctx.s.size)
    (h : m ctx g (.seq (ch ')') (ch ';')) q c k0 = some x) :
    ∃ s5, (txt ctx).drop q = ')' :: ';' :: s5 ∧ x = (q + 2, c) := by
  cases g with
  | zero => simp [m] at h
  | succ g =>
    obtain ⟨s', c', h1, h2⟩ := peelP ctx hq h
    obtain ⟨e, rfl⟩ := (den_ch ctx _ _ _ _ _).1 h1
    have e' : (txt ctx).drop q = [')'] ++ s' := e
    rw [end_pos ctx hq e'] at h2
    have hq1 := le_of_drop ctx hq e'
    obtain ⟨s5, c5, h3, h4⟩ := m_sound ctx _ _ _ _ _ _ hq1 h2
    rw [drop_add ctx e'] at h3
    obtain ⟨e3, rfl⟩ := (den_ch ctx _ _ _ _ _).1 h3
    have e'' : (txt ctx).drop q = [')', ';'] ++ s5 := by rw [e, e3]; rfl
    rw [end_pos ctx hq e''] at h4
    simp only [k0, Option.some.injEq] at h4
    exact ⟨s5, by rw [e, e3], h4.symm⟩

/-- `\s*\(` then the rest: the continuation after `(.+?)` -/
theorem k3_sound {g q : Nat} {c : Caps} {k : Nat → Caps → Option (Nat × Caps)} {x : Nat × Caps} {R4 : Re}
    (hq : q ≤ ctx.s.size) (h : m ctx g (.seq ws (.seq (ch '(') R4)) q c k = some x) :
    ∃ w s4, (txt ctx).drop q = w ++ '(' :: s4 ∧ (∀ y ∈ w, wsS.mem y = true) ∧
      m ctx (g - 2) R4 (q + w.length + 1) c k = some x := by
  cases g with
  | zero => simp [m] at h
  | succ g =>
    obtain ⟨s', c', h1, h2⟩ := peelP ctx hq h
    obtain ⟨w, e, hw, rfl⟩ := (den_ws ctx _ _ _ _).1 h1
    rw [end_pos ctx hq e] at h2
    have hq1 := le_of_drop ctx hq e
    cases g with
    | zero => simp [m] at h2
    | succ g =>
      obtain ⟨s4, c4, h3, h4⟩ := peelP ctx hq1 h2
      rw [drop_add ctx e] at h3
      obtain ⟨e3, rfl⟩ := (den_ch ctx _ _ _ _ _).1 h3
      have e' : (txt ctx).drop q = (w ++ ['(']) ++ s4 := by rw [e, e3]; simp
      rw [end_pos ctx hq e'] at h4
      refine ⟨w, s4, by rw [e, e3], hw, ?_⟩
      rw [← h4]
      congr 1
      simp
      omega

theorem drop_at {p : Nat} {l t : List Char} (hp : p ≤ ctx.s.size) (h : (txt ctx).drop p = l ++ t) {j : Nat}
    (hj : j < l.length) : (txt ctx).drop (p + j) = l[j] :: (l.drop (j + 1) ++ t) ∧ p + j ≤ ctx.s.size := by
  have es : (txt ctx).drop p = l.take j ++ (l[j] :: (l.drop (j + 1) ++ t)) := by
    rw [h, ← List.cons_append, ← List.append_assoc, ← List.drop_eq_getElem_cons hj, List.take_append_drop]
  have h1 := drop_add ctx es
  have h2 := le_of_drop ctx hp es
  rw [List.length_take, Nat.min_eq_left (by omega)] at h1 h2
  exact ⟨h1, h2⟩

/-- the continuation after `(.+?)` fails in front of an identifier character -/
theorem k3_fail {g q : Nat} {c : Caps} {k : Nat → Caps → Option (Nat × Caps)} {R4 : Re} {y : Char} {t : List Char}
    (hq : q ≤ ctx.s.size) (hdq : (txt ctx).drop q = y :: t) (hy : idC.mem y = true) :
    m ctx g (.seq ws (.seq (ch '(') R4)) q c k = none := by
  cases hm : m ctx g (.seq ws (.seq (ch '(') R4)) q c k with
  | none => rfl
  | some x =>
    obtain ⟨w, s4, e, hw, _⟩ := k3_sound ctx hq hm
    rw [hdq] at e
    cases w with
    | nil =>
      simp only [List.nil_append, List.cons.injEq] at e
      exact absurd e.1 (idC_ne hy).1
    | cons z w =>
      simp only [List.cons_append, List.cons.injEq] at e
      exact absurd (hw z (by simp)) (by rw [← e.1]; exact fun h => not_ws_of_idC hy h)

/-- after `module\s+`: the lazy group stops at the end of the name, the lazy `.*?` at the first `);` -/
theorem hdr_tail (hd : ctx.dotall = true) {name P rest : List Char} (hname : IdentL name) (hP : AllArgQ P)
    {p f : Nat} {x : Nat × Caps} (hp : p ≤ ctx.s.size)
    (hdrop : (txt ctx).drop p = name ++ ' ' :: '(' :: (P ++ ')' :: ';' :: rest))
    (hf : 2 * ctx.s.size + 40 ≤ f)
    (h : m ctx f (.seq (.group 1 (.plus .any false)) (.seq ws (.seq (ch '(') (.seq (.star .any false)
      (.seq (ch ')') (ch ';')))))) p [] k0 = some x) :
    x = (p + name.length + 2 + P.length + 2, [(1, p, p + name.length)]) := by
  obtain ⟨g1, rfl⟩ : ∃ g1, f = g1 + 4 := ⟨f - 4, by omega⟩
  have e : m ctx (g1 + 4) (.seq (.group 1 (.plus .any false)) (.seq ws (.seq (ch '(') (.seq (.star .any false)
      (.seq (ch ')') (ch ';')))))) p [] k0 =
      m ctx (g1 + 2) (.plus .any false) p [] (fun p' c' => m ctx (g1 + 3) (.seq ws (.seq (ch '(')
        (.seq (.star .any false) (.seq (ch ')') (ch ';'))))) p' ((1, p, p') :: c') k0) := rfl
  rw [e] at h
  obtain ⟨x0, r, rfl, hx0, hr⟩ := hname
  have hd1 : (txt ctx).drop (p + 1) = r ++ ' ' :: '(' :: (P ++ ')' :: ';' :: rest) :=
    drop_add ctx (a := [x0]) hdrop
  have hp1 : p + 1 ≤ ctx.s.size := le_of_drop ctx (a := [x0]) hp hdrop
  have hdq : (txt ctx).drop (p + 1 + r.length) = ' ' :: '(' :: (P ++ ')' :: ';' :: rest) := drop_add ctx hd1
  have hq : p + 1 + r.length ≤ ctx.s.size := le_of_drop ctx hp1 hd1
  have hK : m ctx (g1 + 3) (.seq ws (.seq (ch '(') (.seq (.star .any false) (.seq (ch ')') (ch ';')))))
      (p + 1 + r.length) [(1, p, p + 1 + r.length)] k0 = some x := by
    refine lazy_plus_first ctx hd _ [] x (g1 + 2) p r.length h ?_ ?_
    · intro j hj
      obtain ⟨h1, h2⟩ := drop_at ctx hp1 hd1 hj
      exact k3_fail ctx h2 h1 (hr _ (List.getElem_mem hj))
    · refine m_complete ctx _ _ _ _ k0 rest [(1, p, p + 1 + r.length)] hq (by simp only [need, ws, ch]; omega) ?_ rfl
      rw [hdq]
      exact ⟨_, _, (den_ws ctx _ _ _ _).2 ⟨[' '], rfl, by simp [ws_space], rfl⟩, _, _,
        (den_ch ctx _ _ _ _ _).2 ⟨rfl, rfl⟩, _, _, VMT.den_star_any ctx hd false _ P _, _, _,
        (den_ch ctx _ _ _ _ _).2 ⟨rfl, rfl⟩, (den_ch ctx _ _ _ _ _).2 ⟨rfl, rfl⟩⟩
  obtain ⟨w, s4, e3, hw, h5⟩ := k3_sound ctx hq hK
  rw [hdq] at e3
  have hw1 : w = [' '] ∧ s4 = P ++ ')' :: ';' :: rest := by
    cases w with
    | nil => simp at e3
    | cons z w =>
      simp only [List.cons_append, List.cons.injEq] at e3
      cases w with
      | nil =>
        simp only [List.nil_append, List.cons.injEq, true_and] at e3
        exact ⟨by rw [e3.1], e3.2.symm⟩
      | cons z' w =>
        simp only [List.cons_append, List.cons.injEq] at e3
        exact absurd e3.2.1.symm (ws_ne (hw z' (by simp))).1
  obtain ⟨rfl, rfl⟩ := hw1
  have hd4 : (txt ctx).drop (p + 1 + r.length + 2) = P ++ ')' :: ';' :: rest :=
    drop_add ctx (a := [' ', '(']) hdq
  have hp4 : p + 1 + r.length + 2 ≤ ctx.s.size := le_of_drop ctx (a := [' ', '(']) hq hdq
  have e5 : m ctx (g1 + 3 - 2) (.seq (.star .any false) (.seq (ch ')') (ch ';')))
      (p + 1 + r.length + [' '].length + 1) [(1, p, p + 1 + r.length)] k0 =
      m ctx g1 (.star .any false) (p + 1 + r.length + 2) [(1, p, p + 1 + r.length)]
        (fun p' c' => m ctx g1 (.seq (ch ')') (ch ';')) p' c' k0) := rfl
  rw [e5] at h5
  have hd5 : (txt ctx).drop (p + 1 + r.length + 2 + P.length) = ')' :: ';' :: rest := drop_add ctx hd4
  have hp5 : p + 1 + r.length + 2 + P.length ≤ ctx.s.size := le_of_drop ctx hp4 hd4
  have hK5 : m ctx g1 (.seq (ch ')') (ch ';')) (p + 1 + r.length + 2 + P.length) [(1, p, p + 1 + r.length)] k0 =
      some x := by
    refine lazy_star_first ctx hd _ _ x g1 _ P.length h5 ?_ ?_
    · intro j hj
      obtain ⟨h1, h2⟩ := drop_at ctx hp4 hd4 hj
      cases hm : m ctx g1 (.seq (ch ')') (ch ';')) (p + 1 + r.length + 2 + j) [(1, p, p + 1 + r.length)] k0 with
      | none => rfl
      | some y =>
        obtain ⟨s5, e6, _⟩ := k5_sound ctx h2 hm
        rw [h1] at e6
        simp only [List.cons.injEq] at e6
        have := hP _ (List.getElem_mem hj)
        rw [e6.1] at this
        exact absurd this (by decide)
    · refine m_complete ctx _ _ _ _ k0 rest [(1, p, p + 1 + r.length)] hp5 (by simp only [need, ch]; omega) ?_ rfl
      rw [hd5]
      exact ⟨_, _, (den_ch ctx _ _ _ _ _).2 ⟨rfl, rfl⟩, (den_ch ctx _ _ _ _ _).2 ⟨rfl, rfl⟩⟩
  obtain ⟨s5, _, hx⟩ := k5_sound ctx hp5 hK5
  rw [hx]
  simp only [List.length_cons]
  congr 1
  · omega
  · congr 3
    omega

theorem den_plus_any (hd : ctx.dotall = true) (g : Bool) (c : Caps) (x0 : Char) (u s : List Char) :
    Den ctx (.plus .any g) (x0 :: u ++ s) c s c :=
  ⟨u ++ s, c, ⟨x0, rfl, by simp [hd], rfl⟩, u.length, VMT.iter_any ctx hd c s u⟩

/-- the header `module NAME (PORTS);`: the match at position 0 ends right after the first `);` and group 1 is NAME -/
theorem hdr_match (hd : ctx.dotall = true) {name P rest : List Char} (hname : IdentL name) (hP : AllArgQ P)
    (hT : txt ctx = kModule ++ ' ' :: (name ++ ' ' :: '(' :: (P ++ ')' :: ';' :: rest))) :
    ∃ caps, m ctx (fuelFor ctx.s) rxHdr 0 [] k0 = some (kModule.length + 1 + name.length + 2 + P.length + 2, caps) ∧
      grp ctx 1 caps = [String.ofList name] := by
  have hex : ∃ c0, Den ctx rxHdr (txt ctx) [] rest c0 := by
    obtain ⟨x0, r, rfl, -, -⟩ := hname
    refine ⟨?c, ?h⟩
    case c => exact [(1, ctx.s.size - (x0 :: r ++ ' ' :: '(' :: (P ++ ')' :: ';' :: rest)).length,
      ctx.s.size - (' ' :: '(' :: (P ++ ')' :: ';' :: rest)).length)]
    unfold rxHdr
    rw [VMT.den_litThen]
    refine ⟨_, hT, ?_⟩
    refine ⟨_, _, (den_plus_set ctx _ _ _ _ _ _).2 ⟨' ', [], rfl, ws_space, by simp, rfl⟩, ?_⟩
    refine ⟨_, _, ⟨_, den_plus_any ctx hd false _ x0 r _, rfl⟩, ?_⟩
    refine ⟨_, _, (den_ws ctx _ _ _ _).2 ⟨[' '], rfl, by simp [ws_space], rfl⟩, ?_⟩
    refine ⟨_, _, (den_ch ctx _ _ _ _ _).2 ⟨rfl, rfl⟩, ?_⟩
    refine ⟨_, _, VMT.den_star_any ctx hd false _ P _, ?_⟩
    exact ⟨_, _, (den_ch ctx _ _ _ _ _).2 ⟨rfl, rfl⟩, (den_ch ctx _ _ _ _ _).2 ⟨rfl, rfl⟩⟩
  obtain ⟨c0, hex⟩ := hex
  have hsome := m_complete ctx rxHdr (fuelFor ctx.s) 0 [] k0 rest c0 (Nat.zero_le _) (need_rxHdr ctx.s)
    (by simpa using hex) rfl
  have hsz : ctx.s.size = 6 + 1 + name.length + 2 + P.length + 2 + rest.length := by
    rw [← txt_length, hT]
    simp [kModule]
    omega
  cases hm : m ctx (fuelFor ctx.s) rxHdr 0 [] k0 with
  | none => rw [hm] at hsome; cases hsome
  | some x =>
    obtain ⟨f, hf⟩ : ∃ f, fuelFor ctx.s = f + 1 + kModule.length :=
      ⟨fuelFor ctx.s - 7, by unfold fuelFor; simp only [kModule, List.length_cons, List.length_nil]; omega⟩
    have hfb : 2 * ctx.s.size + 40 ≤ f := by
      unfold fuelFor at hf
      simp only [kModule, List.length_cons, List.length_nil] at hf
      omega
    rw [hf] at hm
    unfold rxHdr at hm
    obtain ⟨s1, e1, h1⟩ := m_litThen ctx _ k0 x kModule (f + 1) 0 [] (Nat.zero_le _) hm
    rw [List.drop_zero, hT] at e1
    have e1' := List.append_cancel_left e1
    subst e1'
    have hd6 : (txt ctx).drop (0 + kModule.length) = ' ' :: (name ++ ' ' :: '(' :: (P ++ ')' :: ';' :: rest)) :=
      drop_add ctx (p := 0) (by rw [List.drop_zero]; exact hT)
    have hp6 : 0 + kModule.length ≤ ctx.s.size := by simp [kModule]; omega
    obtain ⟨s2, c2, h2, h3⟩ := peelP ctx hp6 h1
    rw [hd6] at h2
    obtain ⟨y, w, e2, hy, hw, rfl⟩ := (den_plus_set ctx _ _ _ _ _ _).1 h2
    simp only [List.cons.injEq] at e2
    obtain ⟨x0, r, hn, hx0, hr⟩ := hname
    have hw0 : w = [] := by
      cases w with
      | nil => rfl
      | cons z w =>
        rw [hn] at e2
        simp only [List.cons_append, List.cons.injEq] at e2
        exact absurd (hw z (by simp)) (by rw [← e2.2.1]; exact fun h => not_idS_of_ws h hx0)
    subst hw0
    have hs2 : s2 = name ++ ' ' :: '(' :: (P ++ ')' :: ';' :: rest) := e2.2.symm
    subst hs2
    have hd7 : (txt ctx).drop (0 + kModule.length + 1) = name ++ ' ' :: '(' :: (P ++ ')' :: ';' :: rest) :=
      drop_add ctx (a := [' ']) hd6
    have hp7 : 0 + kModule.length + 1 ≤ ctx.s.size := le_of_drop ctx (a := [' ']) hp6 hd6
    rw [end_pos ctx (l := [' ']) (rest := name ++ ' ' :: '(' :: (P ++ ')' :: ';' :: rest)) hp6 hd6] at h3
    have hx := hdr_tail ctx hd ⟨x0, r, hn, hx0, hr⟩ hP hp7 hd7 hfb h3
    refine ⟨[(1, 0 + kModule.length + 1, 0 + kModule.length + 1 + name.length)], ?_, ?_⟩
    · rw [hx]
      simp only [Nat.zero_add]
    · rw [grp1]
      have e : (txt ctx).drop 0 = (kModule ++ [' ']) ++ (name ++ (' ' :: '(' :: (P ++ ')' :: ';' :: rest))) := by
        rw [List.drop_zero, hT]; simp
      rw [← slice_eq ctx (Nat.zero_le _) e]
      have hk : kModule.length = 6 := rfl
      have ea : 0 + kModule.length + 1 =
          ctx.s.size - (name ++ (' ' :: '(' :: (P ++ ')' :: ';' :: rest))).length := by
        simp only [List.length_append, List.length_cons, List.length_nil, hk]
        omega
      have eb : 0 + kModule.length + 1 + name.length =
          ctx.s.size - (' ' :: '(' :: (P ++ ')' :: ';' :: rest)).length := by
        simp only [List.length_append, List.length_cons, List.length_nil, hk]
        omega
      rw [eb, ea]

end FT
end CG
