/- helper lemmas for C06 (add_subcircuit / fill_blackbox): exact list-level views of the primitives -/
import CG.Tx
import CG.Spec
import CG.Proofs.ApiFill
set_option linter.unusedSimpArgs false
set_option linter.unusedVariables false
namespace CG
open Circuit

/-! ### vocabulary mirrored from `CG/Props/C06.lean` (definitionally the same bodies) -/

def stripA (a : Attr) : Attr :=
  { ty := if a.ty = some "input" then some "buf" else a.ty,
    out := if a.out = some true then some false else a.out }

def connE (sc : Circuit) (name : Name) (conns : List (Name × List Name)) : List (Name × Name) :=
  conns.flatMap (fun p =>
    if sc.inputs.contains p.1 then p.2.map (fun u => (u, pref name p.1))
    else p.2.map (fun v => (pref name p.1, v)))

def FullA (c : Circuit) : Prop := ∀ p ∈ c.nodes, p.2.ty.isSome = true ∧ p.2.out.isSome = true

def renP (inst : Name) (bb : BBox) (x : Name) : Name :=
  match (bb.outs ++ bb.ins).find? (fun p => x == inst ++ "." ++ p) with
  | some p => pref inst p
  | none => x

/-! ### `name` frame lemmas -/

theorem addEdge_name (c : Circuit) (u v : Name) : (c.addEdge u v).name = c.name := by
  unfold addEdge; split <;> rfl

theorem foldl_addEdge_name (l : List (Name × Name)) (c : Circuit) :
    (l.foldl (fun c e => c.addEdge e.1 e.2) c).name = c.name := by
  induction l generalizing c with
  | nil => rfl
  | cons e l ih => simp only [List.foldl_cons]; rw [ih, addEdge_name]

theorem addEdges_inner_name (u : Name) (vs : List Name) (c : Circuit) :
    (vs.foldl (fun c v => c.addEdge u v) c).name = c.name := by
  induction vs generalizing c with
  | nil => rfl
  | cons v vs ih => simp only [List.foldl_cons]; rw [ih, addEdge_name]

theorem addEdges_name (c : Circuit) (us vs : List Name) : (c.addEdges us vs).name = c.name := by
  unfold addEdges
  induction us generalizing c with
  | nil => rfl
  | cons u us ih => simp only [List.foldl_cons]; rw [ih, addEdges_inner_name]

theorem setBB_name (c : Circuit) (i : Name) (bb : BBox) : (c.setBB i bb).name = c.name := by
  unfold setBB; split <;> rfl

/-! ### fan-in of an edge list -/

def faninL (es : List (Name × Name)) (n : Name) : List Name := (es.filter (·.2 == n)).map (·.1)

theorem fanin_eq_faninL (c : Circuit) (n : Name) : c.fanin n = faninL c.edges n := rfl

theorem faninL_append (a b : List (Name × Name)) (n : Name) :
    faninL (a ++ b) n = faninL a n ++ faninL b n := by
  simp [faninL, List.filter_append]

theorem faninL_nil_of {es : List (Name × Name)} {n : Name} (h : ∀ e ∈ es, e.2 ≠ n) : faninL es n = [] := by
  unfold faninL
  rw [List.map_eq_nil_iff, List.filter_eq_nil_iff]
  intro e he
  simpa using h e he

theorem mem_faninL {es : List (Name × Name)} {u n : Name} : u ∈ faninL es n ↔ (u, n) ∈ es := by
  unfold faninL
  simp only [List.mem_map, List.mem_filter]
  constructor
  · rintro ⟨⟨a, b⟩, ⟨h1, h2⟩, h3⟩
    simp only [beq_iff_eq] at h2
    simp only [] at h3
    subst h2; subst h3; exact h1
  · intro h; exact ⟨(u, n), ⟨h, by simp⟩, rfl⟩

theorem faninL_map_inj (f : Name → Name) (hf : ∀ a b, f a = f b → a = b) (es : List (Name × Name)) (n : Name) :
    faninL (es.map (fun e => (f e.1, f e.2))) (f n) = (faninL es n).map f := by
  induction es with
  | nil => rfl
  | cons e es ih =>
    unfold faninL at ih ⊢
    simp only [List.map_cons, List.filter_cons]
    by_cases h : e.2 = n
    · have h1 : (f e.2 == f n) = true := by simp [h]
      have h2 : (e.2 == n) = true := by simp [h]
      simp only [h1, h2, if_true, List.map_cons]
      rw [ih]
    · have h1 : (f e.2 == f n) = false := by
        simp only [beq_eq_false_iff_ne, ne_eq]
        exact fun e' => h (hf _ _ e')
      have h2 : (e.2 == n) = false := by simpa using h
      simp only [h1, h2, Bool.false_eq_true, if_false]
      rw [ih]

theorem faninL_filter {es : List (Name × Name)} {n : Name} (q : Name × Name → Bool)
    (h : ∀ e ∈ es, e.2 = n → q e = true) : faninL (es.filter q) n = faninL es n := by
  unfold faninL
  rw [List.filter_filter]
  congr 1
  apply List.filter_congr
  intro e he
  by_cases h2 : e.2 = n
  · simp [h2, h e he h2]
  · simp [h2]

theorem faninL_singleton {es : List (Name × Name)} (hnd : es.Nodup) {u n : Name}
    (h : ∀ x, (x, n) ∈ es ↔ x = u) : faninL es n = [u] := by
  have hnd' : (faninL es n).Nodup := by
    have : (fun (e : Name × Name) => e.1) = Prod.fst := rfl
    unfold faninL
    apply nodup_map_of_inj (nodup_filter _ hnd)
    intro x hx y hy e
    have h1 := (List.mem_filter.1 hx).2
    have h2 := (List.mem_filter.1 hy).2
    simp only [beq_iff_eq] at h1 h2
    exact Prod.ext e (h1.trans h2.symm)
  have hmem : ∀ x, x ∈ faninL es n ↔ x = u := fun x => by rw [mem_faninL, h]
  cases hl : faninL es n with
  | nil =>
    have := (hmem u).2 rfl
    rw [hl] at this; cases this
  | cons a l =>
    rw [hl] at hnd' hmem
    have ha : a = u := (hmem a).1 (by simp)
    cases l with
    | nil => rw [ha]
    | cons b l =>
      have hb : b = u := (hmem b).1 (by simp)
      simp only [List.nodup_cons, List.mem_cons] at hnd'
      exact absurd (Or.inl (ha.trans hb.symm)) hnd'.1

/-! ### exact edge list of a fold of `addEdge` -/

theorem foldl_addEdge_edges : ∀ (l : List (Name × Name)) (c : Circuit), l.Nodup →
    (l.foldl (fun c e => c.addEdge e.1 e.2) c).edges = c.edges ++ l.filter (fun e => !c.edges.contains e) := by
  intro l
  induction l with
  | nil => intro c _; simp
  | cons e l ih =>
    intro c hnd
    simp only [List.nodup_cons] at hnd
    simp only [List.foldl_cons]
    rw [ih _ hnd.2]
    by_cases hc : c.edges.contains e = true
    · have : c.addEdge e.1 e.2 = c := by
        unfold addEdge; rw [if_pos (by simpa using hc)]
      rw [this, List.filter_cons]
      simp only [hc, Bool.not_true, Bool.false_eq_true, if_false]
    · have hc' : c.edges.contains e = false := by simpa using hc
      have : (c.addEdge e.1 e.2).edges = c.edges ++ [e] := by
        unfold addEdge; rw [if_neg (by simpa using hc)]
      rw [this, List.filter_cons]
      simp only [hc', Bool.not_false, if_true, List.append_assoc, List.singleton_append]
      congr 2
      apply List.filter_congr
      intro x hx
      have hxe : x ≠ e := fun e' => hnd.1 (e' ▸ hx)
      simp [hxe]

theorem foldl_addEdge_edges_disj (l : List (Name × Name)) (c : Circuit) (hnd : l.Nodup)
    (hd : ∀ e ∈ l, e ∉ c.edges) :
    (l.foldl (fun c e => c.addEdge e.1 e.2) c).edges = c.edges ++ l := by
  rw [foldl_addEdge_edges l c hnd]
  congr 1
  rw [List.filter_eq_self]
  intro e he
  simpa using hd e he

/-- every fold of `addEdge` only appends -/
theorem foldl_addEdge_ext (l : List (Name × Name)) (c : Circuit) :
    ∃ x, (l.foldl (fun c e => c.addEdge e.1 e.2) c).edges = c.edges ++ x ∧ ∀ e ∈ x, e ∈ l := by
  induction l generalizing c with
  | nil => exact ⟨[], by simp, fun _ h => by cases h⟩
  | cons e l ih =>
    simp only [List.foldl_cons]
    obtain ⟨x, hx, hm⟩ := ih (c.addEdge e.1 e.2)
    by_cases hc : c.edges.contains (e.1, e.2) = true
    · have : c.addEdge e.1 e.2 = c := by unfold addEdge; rw [if_pos hc]
      rw [this] at hx ⊢
      exact ⟨x, hx, fun y hy => List.mem_cons_of_mem _ (hm y hy)⟩
    · have : (c.addEdge e.1 e.2).edges = c.edges ++ [(e.1, e.2)] := by unfold addEdge; rw [if_neg hc]
      rw [this] at hx
      refine ⟨(e.1, e.2) :: x, by rw [hx]; simp, ?_⟩
      intro y hy
      rcases List.mem_cons.1 hy with h | h
      · rw [h]; exact List.mem_cons_self
      · exact List.mem_cons_of_mem _ (hm y h)

theorem addEdges_eq_foldl (c : Circuit) (us vs : List Name) :
    c.addEdges us vs = (us.flatMap (fun u => vs.map (fun v => (u, v)))).foldl (fun c e => c.addEdge e.1 e.2) c := by
  unfold addEdges
  induction us generalizing c with
  | nil => rfl
  | cons u us ih =>
    simp only [List.foldl_cons, List.flatMap_cons, List.foldl_append]
    rw [ih]
    congr 1
    rw [List.foldl_map]

theorem addEdges_ext (c : Circuit) (us vs : List Name) :
    ∃ x, (c.addEdges us vs).edges = c.edges ++ x ∧ ∀ e ∈ x, e.1 ∈ us ∧ e.2 ∈ vs := by
  rw [addEdges_eq_foldl]
  obtain ⟨x, hx, hm⟩ := foldl_addEdge_ext (us.flatMap (fun u => vs.map (fun v => (u, v)))) c
  refine ⟨x, hx, ?_⟩
  intro e he
  have := hm e he
  simp only [List.mem_flatMap, List.mem_map] at this
  obtain ⟨u, hu, v, hv, rfl⟩ := this
  exact ⟨hu, hv⟩

end CG
