/- C15 (character level, free layout) helper: list lemmas (unique maximal prefix of a class, common last element) and
   character facts about white space -/
import CG.Proofs.BenchTextLayout
set_option linter.unusedSimpArgs false
set_option linter.unusedVariables false
namespace CG
namespace BenchText
open Regex Bench

/-- the list is empty or starts with a character satisfying `Q` -/
def Starts (Q : Char → Prop) (l : List Char) : Prop := ∀ z r, l = z :: r → Q z

theorem starts_cons {Q : Char → Prop} {c : Char} {r : List Char} (h : Q c) : Starts Q (c :: r) := by
  intro z r' e
  simp only [List.cons.injEq] at e
  rw [← e.1]; exact h

theorem starts_append {Q : Char → Prop} {w r : List Char} (hw : ∀ x ∈ w, Q x) (hr : Starts Q r) : Starts Q (w ++ r) := by
  intro z r' e
  cases w with
  | nil => exact hr z r' e
  | cons y w =>
    simp only [List.cons_append, List.cons.injEq] at e
    rw [← e.1]; exact hw y (by simp)

theorem starts_mono {Q Q' : Char → Prop} {l : List Char} (h : ∀ x, Q x → Q' x) (hl : Starts Q l) : Starts Q' l :=
  fun z r e => h z (hl z r e)

/-- the maximal prefix over a class of characters is unique -/
theorem span_unique {P : Char → Prop} : ∀ {a a' b b' : List Char}, a ++ b = a' ++ b' → (∀ x ∈ a, P x) → (∀ x ∈ a', P x) →
    Starts (fun z => ¬ P z) b → Starts (fun z => ¬ P z) b' → a = a' ∧ b = b'
  | [], [], b, b', h, _, _, _, _ => ⟨rfl, by simpa using h⟩
  | [], y :: a', b, b', h, _, ha', hb, _ => by
    simp only [List.nil_append, List.cons_append] at h
    exact absurd (ha' y (by simp)) (hb y _ h)
  | x :: a, [], b, b', h, ha, _, _, hb' => by
    simp only [List.nil_append, List.cons_append] at h
    exact absurd (ha x (by simp)) (hb' x _ h.symm)
  | x :: a, y :: a', b, b', h, ha, ha', hb, hb' => by
    simp only [List.cons_append, List.cons.injEq] at h
    obtain ⟨e1, e2⟩ := span_unique h.2 (fun z hz => ha z (by simp [hz])) (fun z hz => ha' z (by simp [hz])) hb hb'
    exact ⟨by rw [h.1, e1], e2⟩

/-- two lists with a common end have a common last element -/
theorem last_common {α : Type} {P a Q K : List α} (h : P ++ a = Q ++ K) (ha : a ≠ []) (hK : K ≠ []) :
    ∃ z, z ∈ a ∧ z ∈ K := by
  have h1 := congrArg List.getLast? h
  rw [List.getLast?_append, List.getLast?_append] at h1
  cases ea : a.getLast? with
  | none => exact absurd (List.getLast?_eq_none_iff.mp ea) ha
  | some z =>
    cases eK : K.getLast? with
    | none => exact absurd (List.getLast?_eq_none_iff.mp eK) hK
    | some y =>
      rw [ea, eK] at h1
      simp at h1
      exact ⟨z, List.mem_of_getLast? ea, by rw [h1]; exact List.mem_of_getLast? eK⟩

/-- `u ++ (a ++ b) = X ++ (K ++ c)` with `a`, `K` non-empty words of one class and `b`, `c` outside it: the ends agree -/
theorem tail_split {P : Char → Prop} {u a b X K c : List Char} (h : u ++ (a ++ b) = X ++ (K ++ c)) (ha : ∀ x ∈ a, P x)
    (hK : ∀ x ∈ K, P x) (hb : ∀ x ∈ b, ¬ P x) (hc : ∀ x ∈ c, ¬ P x) (ha0 : a ≠ []) (hK0 : K ≠ []) :
    b = c ∧ u ++ a = X ++ K := by
  rw [← List.append_assoc, ← List.append_assoc] at h
  rcases List.append_eq_append_iff.mp h with ⟨a', h1, h2⟩ | ⟨c', h1, h2⟩
  · -- X ++ K = (u ++ a) ++ a', b = a' ++ c
    have : a' = [] := by
      by_cases hn : a' = []
      · exact hn
      · obtain ⟨z, hz1, hz2⟩ := last_common h1.symm hn hK0
        exact absurd (hK z hz2) (hb z (by rw [h2]; simp [hz1]))
    subst this
    simp only [List.append_nil, List.nil_append] at h1 h2
    exact ⟨h2, h1.symm⟩
  · have : c' = [] := by
      by_cases hn : c' = []
      · exact hn
      · obtain ⟨z, hz1, hz2⟩ := last_common h1.symm hn ha0
        exact absurd (ha z hz2) (hc z (by rw [h2]; simp [hz1]))
    subst this
    simp only [List.append_nil, List.nil_append] at h1 h2
    exact ⟨h2.symm, h1⟩

/-- a word of one class that ends where `Y ++ K` ends, `Y` empty or ending outside the class, is a suffix of `K` -/
theorem class_suffix {P : Char → Prop} {u kw Y K : List Char} (h : u ++ kw = Y ++ K) (hkw : ∀ x ∈ kw, P x)
    (hY : Y = [] ∨ ∃ Z z, Y = Z ++ [z] ∧ ¬ P z) : kw <:+ K := by
  rcases suf_append h with ⟨X', ⟨u', hX⟩, e⟩ | ⟨u', e⟩
  · have hX' : X' = [] := by
      rcases hY with rfl | ⟨Z, z, rfl, hz⟩
      · exact (List.append_eq_nil_iff.mp hX).2
      · by_cases hn : X' = []
        · exact hn
        · obtain ⟨y, hy1, hy2⟩ := last_common hX hn (by simp : [z] ≠ [])
          rw [List.mem_singleton] at hy2
          subst hy2
          exact absurd (hkw y (by rw [e]; simp [hy1])) hz
    rw [hX', List.nil_append] at e
    rw [e]; exact List.suffix_refl _
  · exact ⟨u', e⟩

/-! ### characters -/

theorem pySpace_of_ws {x : Char} (h : wsS.mem x = true) : pySpace x = true := by
  rw [wsS_mem] at h; rw [pySpace_iff]; omega
theorem ws_ne' {x : Char} (h : wsS.mem x = true) : x ≠ ',' ∧ x ≠ '#' ∧ ¬ isLetter x ∧ idC.mem x = false := by
  have h' := h
  rw [wsS_mem] at h
  refine ⟨?_, ?_, ?_, ?_⟩
  · simp only [ne_eq, eq_iff, Char.reduceToNat]; omega
  · simp only [ne_eq, eq_iff, Char.reduceToNat]; omega
  · unfold isLetter; omega
  · cases hc : idC.mem x with
    | false => rfl
    | true => exact absurd h' (fun hh => not_ws_of_idC hc hh)
theorem letter_ne {x : Char} (h : isLetter x) : wsS.mem x = false ∧ x ≠ '(' ∧ x ≠ ')' ∧ x ≠ '=' := by
  have hi := idC_of_letter h
  refine ⟨?_, (idC_ne hi).1, (idC_ne hi).2.1, (idC_ne hi).2.2.1⟩
  cases hc : wsS.mem x with
  | false => rfl
  | true => exact absurd hc (fun hh => not_ws_of_idC hi hh)
theorem idC_false_of {x : Char} (h : x = '(' ∨ x = ')' ∨ x = '=' ∨ x = ',') : idC.mem x = false := by
  rcases h with rfl | rfl | rfl | rfl <;> decide
theorem idS_false_of_not_idC {x : Char} (h : idC.mem x = false) : idS.mem x = false := by
  cases hs : idS.mem x with
  | false => rfl
  | true => rw [idC_of_idS hs] at h; cases h

end BenchText
end CG
