/- C15 helper: a successful `Circuit.add` whose operands may include the node itself (`o = AND(o, a)`), and the
   variant for a fresh name without `allow_redefinition` -/
import CG.Proofs.TernaryAdd
namespace CG
namespace BenchP
open Circuit Ternary

theorem add_ok2 (t : Circuit) (a : AddArgs) (n : Name)
    (hres : (if a.uid then t.uid a.n else some a.n) = some n)
    (hredef : a.uid = false → a.allowRedef = true)
    (hname : Limit.NameOK n)
    (hty : a.ty ∈ okTypes)
    (h0 : a.ty = "buf" ∨ a.ty = "not" → a.fanin.length ≤ 1 ∧ (a.fanin ≠ [] → ∀ e ∈ t.edges, e.2 ≠ n))
    (h1 : a.ty = "0" ∨ a.ty = "1" ∨ a.ty = "input" → a.fanin = [])
    (hfo : ∀ v ∈ a.fanout, v ≠ n ∧ ∃ tv, t.ty? v = some tv ∧ tv ∈ multiTypes)
    (hfi : ∀ u ∈ a.fanin, u = n ∨ (t.has u = true ∨ (a.addConnected = true ∧ Limit.NameOK u)))
    (htyped : Typed t) :
    ∃ t', t.add a = (t', .ok, n) ∧ AddSpec t a n t' := by
  obtain ⟨f1, f2, f3, f4, f5, f6, f7⟩ := ok_facts hty
  have e := add_eq_addTail t a n hres hredef hname f1
    (by rintro ⟨hl, hc⟩; have := (h0 (f4 hc)).1; omega)
    (by rintro ⟨he, hc⟩; rw [h1 (f5 hc)] at he; simp at he)
  rw [e]
  -- after `add_node`
  have c1_has : ∀ x, (t.addNodeAttr n { ty := some a.ty, out := some a.output }).has x = (t.has x || x == n) :=
    addNodeAttr_has t n _
  have c1_self : (t.addNodeAttr n { ty := some a.ty, out := some a.output }).attr? n =
      some { ty := some a.ty, out := some a.output } := by
    rw [addNodeAttr_attr?, if_pos rfl]; cases t.attr? n <;> rfl
  have c1_old : ∀ x, x ≠ n → (t.addNodeAttr n { ty := some a.ty, out := some a.output }).attr? x = t.attr? x :=
    fun x hx => by rw [addNodeAttr_attr?, if_neg hx]
  have c1_edges : (t.addNodeAttr n { ty := some a.ty, out := some a.output }).edges = t.edges :=
    addNodeAttr_edges t n _
  have hfo_has : ∀ v ∈ a.fanout, t.has v = true := by
    intro v hv
    obtain ⟨_, tv, h, _⟩ := hfo v hv
    exact has_of_ty? h
  -- after the auto-created neighbours
  obtain ⟨c2, hc2, s2⟩ := addR2_ok t a n (by
    intro f hf
    unfold acnList at hf
    cases hac : a.addConnected with
    | false => rw [hac] at hf; cases hf
    | true =>
      rw [hac] at hf
      simp only [if_true, List.mem_append] at hf
      rcases hf with hf | hf
      · rcases hfi f hf with h | h | ⟨_, h⟩
        · left; rw [c1_has, h]; simp
        · left; rw [c1_has, h]; rfl
        · exact Or.inr h
      · left; rw [c1_has, hfo_has f hf]; rfl)
  generalize hc1 : t.addNodeAttr n { ty := some a.ty, out := some a.output } = c1 at *
  have c2n : c2.has n = true := (s2.has n).mpr (Or.inl (by rw [c1_has]; simp))
  have c2_self : c2.attr? n = some { ty := some a.ty, out := some a.output } := by
    rw [s2.attr_old n (by rw [c1_has]; simp), c1_self]
  have c2_old : ∀ x, x ≠ n → t.has x = true → c2.attr? x = t.attr? x := by
    intro x hx hh
    rw [s2.attr_old x (by rw [c1_has, hh]; rfl), c1_old x hx]
  have c2_mono : ∀ x, t.has x = true → c2.has x = true :=
    fun x hh => (s2.has x).mpr (Or.inl (by rw [c1_has, hh]; rfl))
  have c2_fi : ∀ u ∈ a.fanin, c2.has u = true := by
    intro u hu
    rcases hfi u hu with h | h | ⟨hac, _⟩
    · rw [h]; exact c2n
    · exact c2_mono u h
    · refine (s2.has u).mpr (Or.inr ?_)
      unfold acnList; rw [hac]; simp [hu]
  have c2_fi_ty : ∀ u ∈ a.fanin, ∃ tu, c2.ty? u = some tu ∧ tu ∈ okTypes := by
    intro u hu
    by_cases hun : u = n
    · exact ⟨a.ty, by rw [hun, ty_of_attr c2_self], hty⟩
    have hcase : t.has u = true ∨ (a.addConnected = true ∧ Limit.NameOK u) := by
      rcases hfi u hu with h | h
      · exact absurd h hun
      · exact h
    by_cases hh : t.has u = true
    · obtain ⟨tu, h1, h2⟩ := htyped u hh
      refine ⟨tu, ?_, h2⟩
      unfold Circuit.ty? at h1 ⊢
      rw [c2_old u hun hh]; exact h1
    · have hh' : t.has u = false := by simpa using hh
      rcases hcase with h | ⟨hac, _⟩
      · exact absurd h hh
      · have : c2.attr? u = some bufAttr := by
          refine s2.attr_new u ?_ ?_
          · rw [c1_has, hh']; simpa using hun
          · unfold acnList; rw [hac]; simp [hu]
        exact ⟨"buf", by rw [ty_of_attr this]; rfl, by decide⟩
  rw [addTail_eq, hc2]
  simp only [bne_self_eq_false, Bool.false_eq_true, if_false]
  -- first connect
  obtain ⟨c3, hc3, s3⟩ := connect_ok c2 [n] a.fanout (by
    by_cases hfo0 : a.fanout = []
    · exact Or.inr (Or.inl hfo0)
    · right; right
      refine Limit.connectCheck_none c2 [n] a.fanout ?_ ?_ ?_ ?_
      · intro u hu; rw [List.mem_singleton] at hu; rw [hu]; exact c2n
      · intro v hv; exact c2_mono v (hfo_has v hv)
      · intro v hv
        obtain ⟨hvn, tv, h1, h2⟩ := hfo v hv
        have hm := Limit.multi_facts h2
        refine ⟨tv, ?_, hm.1, fun hc => ?_⟩
        · unfold Circuit.ty? at h1 ⊢
          rw [c2_old v hvn (hfo_has v hv)]; exact h1
        · rw [hm.2.1] at hc; cases hc
      · intro u hu
        rw [List.mem_singleton] at hu; rw [hu]
        exact ⟨a.ty, by rw [ty_of_attr c2_self], f2, f3⟩)
  have c3_edges_n : ∀ e ∈ c3.edges, e ∈ t.edges ∨ e.2 ≠ n := by
    intro e he
    rcases (s3.edges e).mp he with h | ⟨_, h⟩
    · left; rw [s2.edges, c1_edges] at h; exact h
    · right; intro hen; rw [hen] at h; exact (hfo n h).1 rfl
  -- second connect
  obtain ⟨c4, hc4, s4⟩ := connect_ok c3 a.fanin [n] (by
    by_cases hfi0 : a.fanin = []
    · exact Or.inl hfi0
    · right; right
      refine Limit.connectCheck_none c3 a.fanin [n] ?_ ?_ ?_ ?_
      · intro u hu; rw [has_congr s3.nodes]; exact c2_fi u hu
      · intro v hv; rw [List.mem_singleton] at hv; rw [hv, has_congr s3.nodes]; exact c2n
      · intro v hv
        rw [List.mem_singleton] at hv; rw [hv]
        refine ⟨a.ty, by rw [ty?_congr s3.nodes, ty_of_attr c2_self], ?_, fun hc => ?_⟩
        · cases hc0 : (T.connectL 0).contains a.ty with
          | false => rfl
          | true => exact absurd (h1 (f6 hc0)) hfi0
        · obtain ⟨hlen, hnoin⟩ := h0 (f7 hc)
          have : c3.fanin n = [] := by
            apply fanin_nil_of
            intro e he
            rcases c3_edges_n e he with h | h
            · exact hnoin hfi0 e h
            · exact h
          rw [this]; simpa using hlen
      · intro u hu
        obtain ⟨tu, h1, h2⟩ := c2_fi_ty u hu
        obtain ⟨_, g2, g3, _⟩ := ok_facts h2
        exact ⟨tu, by rw [ty?_congr s3.nodes]; exact h1, g2, g3⟩)
  have hn43 : c4.nodes = c2.nodes := by rw [s4.nodes, s3.nodes]
  refine ⟨c4, ?_, ?_⟩
  · unfold addTail3
    rw [hc3]
    simp only [bne_self_eq_false, Bool.false_eq_true, if_false]
    rw [hc4]
  · constructor
    · intro x
      rw [has_congr hn43, s2.has, c1_has, Bool.or_eq_true, beq_iff_eq]
      unfold acnList
      constructor
      · rintro ((h | h) | h)
        · exact Or.inl h
        · exact Or.inr (Or.inl h)
        · cases hac : a.addConnected with
          | false => rw [hac] at h; cases h
          | true =>
            rw [hac] at h
            simp only [if_true, List.mem_append] at h
            rcases h with h | h
            · exact Or.inr (Or.inr ⟨rfl, h⟩)
            · exact Or.inl (hfo_has x h)
      · rintro (h | h | ⟨hac, h⟩)
        · exact Or.inl (Or.inl h)
        · exact Or.inl (Or.inr h)
        · right; rw [hac]; simp [h]
    · rw [attr?_congr hn43]; exact c2_self
    · intro x hx hh; rw [attr?_congr hn43]; exact c2_old x hx hh
    · intro x hx hh hh4
      rw [attr?_congr hn43]
      rw [has_congr hn43, s2.has] at hh4
      have hc1x : c1.has x = false := by rw [c1_has, hh]; simpa using hx
      rcases hh4 with h | h
      · rw [hc1x] at h; cases h
      · exact s2.attr_new x hc1x h
    · intro e
      rw [s4.edges, s3.edges, s2.edges, c1_edges]
      simp only [List.mem_singleton]
      constructor
      · rintro ((h | h) | h)
        · exact Or.inl h
        · exact Or.inr (Or.inl h)
        · exact Or.inr (Or.inr h)
      · rintro (h | h | h)
        · exact Or.inl (Or.inl h)
        · exact Or.inl (Or.inr h)
        · exact Or.inr h
    · intro hnd
      rw [nodeNames_congr hn43]
      apply s2.nodupN
      rw [← hc1]
      exact addNodeAttr_nodup n _ hnd
    · intro hnd
      apply s4.nodupE
      apply s3.nodupE
      rw [s2.edges, c1_edges]
      exact hnd


/-- on a fresh name `allow_redefinition` is irrelevant -/
theorem add_redef_irrel (t : Circuit) (a : AddArgs) (hu : a.uid = false) (h : t.has a.n = false) :
    t.add a = t.add { a with allowRedef := true } := by
  unfold Circuit.add
  simp [hu, h]

end BenchP
end CG
