/- helper lemmas for C11: the cone of a node (`inducedSub c (n :: transitive_fanin n)`) and its startpoints -/
import CG.Proofs.SensKView
import CG.Proofs.SensBase
set_option linter.unusedSimpArgs false
set_option linter.unusedVariables false
namespace CG
namespace Sens
open Circuit Miter Q Query

section cone
variable {c : Circuit} {n : Name} {tfi sp0 : List Name}

theorem mem_tfi_iff (hwf : WF c) (hn : c.has n = true) (htfi : transitiveFanin c [n] = .ok tfi) (x : Name) :
    x ∈ tfi ↔ Plus (EdgeRel c) x n ∧ x ≠ n := by
  rw [transitiveFanin_ok c [n] (by intro m hm; simp only [List.mem_singleton] at hm; subst hm; exact hn)] at htfi
  injection htfi with htfi
  rw [← htfi, mem_tfi c hwf]
  simp

/-- the cone is closed under fan-in -/
theorem keep_closed (hwf : WF c) (hn : c.has n = true) (htfi : transitiveFanin c [n] = .ok tfi) {u y : Name}
    (hy : y ∈ n :: tfi) (he : (u, y) ∈ c.edges) : u ∈ n :: tfi := by
  by_cases hun : u = n
  · rw [hun]; simp
  · apply List.mem_cons_of_mem
    rw [mem_tfi_iff hwf hn htfi]
    refine ⟨?_, hun⟩
    rcases List.mem_cons.1 hy with rfl | hy
    · exact Plus.single he
    · exact Plus.of_step_star he ((mem_tfi_iff hwf hn htfi y).1 hy).1.star

theorem typed_isSome (hc : LintClean c) : ∀ p ∈ c.nodes, p.2.ty.isSome = true := by
  intro p hp
  obtain ⟨t, ht, _⟩ := hc.typed p hp
  rw [ht]; rfl

theorem mem_sp_iff (hc : LintClean c) (hn : c.has n = true) (htfi : transitiveFanin c [n] = .ok tfi)
    (hsp : startpoints c [n] = .ok sp0) (s : Name) :
    s ∈ sp0 ↔ s ∈ n :: tfi ∧ s ∈ c.startpointsAll := by
  have h1 : ∀ m ∈ [n], c.has m = true := by
    intro m hm; simp only [List.mem_singleton] at hm; subst hm; exact hn
  rw [startpoints_ok c (typed_isSome hc) [n] h1] at hsp
  rw [transitiveFanin_ok c [n] h1] at htfi
  injection hsp with hsp
  injection htfi with htfi
  rw [← hsp, List.mem_filter, mem_dedup, htfi, List.contains_iff_mem]
  rfl

theorem sp_nodup (hc : LintClean c) (hn : c.has n = true) (hsp : startpoints c [n] = .ok sp0) : sp0.Nodup := by
  have h1 : ∀ m ∈ [n], c.has m = true := by
    intro m hm; simp only [List.mem_singleton] at hm; subst hm; exact hn
  rw [startpoints_ok c (typed_isSome hc) [n] h1] at hsp
  injection hsp with hsp
  rw [← hsp]
  exact (List.filter_sublist).nodup (nodup_dedup _)

end cone

/-! ### the induced subcircuit on a fan-in closed set -/

section sub
variable {c : Circuit} {keep : List Name}

theorem sub_mem_nodes (p : Name × Attr) : p ∈ (Tx.inducedSub c keep).nodes ↔ p ∈ c.nodes ∧ p.1 ∈ keep := by
  unfold Tx.inducedSub
  simp only [List.mem_filter, List.contains_iff_mem]

theorem sub_mem_edges (e : Name × Name) :
    e ∈ (Tx.inducedSub c keep).edges ↔ e ∈ c.edges ∧ e.1 ∈ keep ∧ e.2 ∈ keep := by
  unfold Tx.inducedSub
  simp only [List.mem_filter, Bool.and_eq_true, List.contains_iff_mem]

theorem sub_has (y : Name) : (Tx.inducedSub c keep).has y = true ↔ c.has y = true ∧ y ∈ keep := by
  rw [has_iff_mem, has_iff_mem]
  unfold Circuit.nodeNames
  simp only [List.mem_map]
  constructor
  · rintro ⟨p, hp, rfl⟩
    obtain ⟨h1, h2⟩ := (sub_mem_nodes p).1 hp
    exact ⟨⟨p, h1, rfl⟩, h2⟩
  · rintro ⟨⟨p, hp, rfl⟩, h2⟩
    exact ⟨p, (sub_mem_nodes p).2 ⟨hp, h2⟩, rfl⟩

theorem sub_attr {y : Name} (hy : y ∈ keep) : (Tx.inducedSub c keep).attr? y = c.attr? y := by
  unfold Circuit.attr? Tx.inducedSub
  simp only []
  rw [lookup_filter_key (fun x => keep.contains x), List.contains_iff_mem.2 hy]
  rfl

theorem sub_ty {y : Name} (hy : y ∈ keep) : (Tx.inducedSub c keep).ty? y = c.ty? y := by
  unfold Circuit.ty?
  rw [sub_attr hy]

theorem sub_wf (hc : WF c) : WF (Tx.inducedSub c keep) := by
  refine ⟨?_, ?_, ?_⟩
  · have : (Tx.inducedSub c keep).nodeNames.Sublist c.nodeNames := by
      unfold Circuit.nodeNames Tx.inducedSub
      exact List.Sublist.map _ List.filter_sublist
    exact this.nodup hc.nodup
  · have : (Tx.inducedSub c keep).edges.Sublist c.edges := by
      unfold Tx.inducedSub
      exact List.filter_sublist
    exact this.nodup hc.edgesNodup
  · intro e he
    obtain ⟨h1, h2, h3⟩ := (sub_mem_edges e).1 he
    exact ⟨(sub_has _).2 ⟨(hc.closed e h1).1, h2⟩, (sub_has _).2 ⟨(hc.closed e h1).2, h3⟩⟩

/-- in a fan-in closed subcircuit every kept node keeps its whole fan-in -/
theorem sub_fanin (hcl : ∀ u y, y ∈ keep → (u, y) ∈ c.edges → u ∈ keep) {y : Name} (hy : y ∈ keep) :
    (Tx.inducedSub c keep).fanin y = c.fanin y := by
  rw [fanin_eq_faninL, fanin_eq_faninL]
  unfold Tx.inducedSub
  simp only []
  apply faninL_filter
  intro e he e2
  have h2 : e.2 ∈ keep := by rw [e2]; exact hy
  have h1 : e.1 ∈ keep := hcl e.1 e.2 h2 he
  simp only [Bool.and_eq_true, List.contains_iff_mem]
  exact ⟨h1, h2⟩

theorem sub_fanout_le (x : Name) : ((Tx.inducedSub c keep).fanout x).length ≤ (c.fanout x).length := by
  unfold Circuit.fanout Tx.inducedSub
  simp only []
  exact (List.Sublist.map _ (List.filter_sublist.filter _)).length_le

theorem sub_lint (hc : LintClean c) (hcl : ∀ u y, y ∈ keep → (u, y) ∈ c.edges → u ∈ keep) :
    LintClean (Tx.inducedSub c keep) := by
  have hk : ∀ {y t}, (Tx.inducedSub c keep).ty? y = some t → y ∈ keep ∧ c.ty? y = some t := by
    intro y t ht
    have hy := ((sub_has y).1 (has_of_ty? ht)).2
    exact ⟨hy, by rw [← sub_ty hy]; exact ht⟩
  refine { toWF := sub_wf hc.toWF, typed := ?_, noFanin := ?_, single := ?_, multi := ?_, bbOut := ?_,
           noBBInFanout := ?_ }
  · intro p hp
    exact hc.typed p ((sub_mem_nodes p).1 hp).1
  · intro y t ht hs
    obtain ⟨hy, ht'⟩ := hk ht
    rw [sub_fanin hcl hy]
    exact hc.noFanin y t ht' hs
  · intro y t ht hs
    obtain ⟨hy, ht'⟩ := hk ht
    rw [sub_fanin hcl hy]
    exact hc.single y t ht' hs
  · intro y t ht hs
    obtain ⟨hy, ht'⟩ := hk ht
    rw [sub_fanin hcl hy]
    exact hc.multi y t ht' hs
  · intro e he hty
    obtain ⟨h1, h2, h3⟩ := (sub_mem_edges e).1 he
    rw [sub_ty h2] at hty
    obtain ⟨a, b⟩ := hc.bbOut e h1 hty
    rw [sub_ty h3]
    exact ⟨a, Nat.le_trans (sub_fanout_le e.1) b⟩
  · intro e he
    obtain ⟨h1, h2, h3⟩ := (sub_mem_edges e).1 he
    rw [sub_ty h2]
    exact hc.noBBInFanout e h1

end sub

end Sens
end CG
