/- C02 helper: the precedence-climbing parser reads back the canonical token rendering of an expression.
   The rendering functions are mirrored here (`VP.toks` etc.); `CG/Props/C02.lean` identifies them with its own. -/
import CG.Verilog
namespace CG
namespace VP
open Verilog

/-! ### side conditions on the token that follows an operand -/

/-- the next token is not `^`, `~^`, `^~` -/
def NoX : List Tok → Prop
  | Tok.sym s :: _ => s ≠ "^" ∧ s ≠ "~^" ∧ s ≠ "^~"
  | _ => True

/-- the next token is not `&` -/
def NoA : List Tok → Prop
  | Tok.sym s :: _ => s ≠ "&"
  | _ => True

/-- the next token is not `|` -/
def NoO : List Tok → Prop
  | Tok.sym s :: _ => s ≠ "|"
  | _ => True

/-- the next token is not `~` / `!` -/
def NoN : List Tok → Prop
  | Tok.sym s :: _ => s ≠ "~" ∧ s ≠ "!"
  | _ => True

theorem orTail_stop (k : Nat) (lhs : Expr) (ts : List Tok) (h : NoO ts) :
    pOrTail (k + 1) lhs ts = some (lhs, ts) := by
  apply pOrTail.eq_3
  intro rest e
  subst e
  exact h rfl

theorem andTail_stop (k : Nat) (lhs : Expr) (ts : List Tok) (h : NoA ts) :
    pAndTail (k + 1) lhs ts = some (lhs, ts) := by
  apply pAndTail.eq_3
  intro rest e
  subst e
  exact h rfl

theorem xorTail_stop (k : Nat) (lhs : Expr) (ts : List Tok) (h : NoX ts) :
    pXorTail (k + 1) lhs ts = some (lhs, ts) := by
  apply pXorTail.eq_5
  · intro rest e; subst e; exact h.1 rfl
  · intro rest e; subst e; exact h.2.1 rfl
  · intro rest e; subst e; exact h.2.2 rfl

theorem orTail_stop' (lhs : Expr) (ts : List Tok) (h : NoO ts) (k : Nat) (hk : 1 ≤ k) :
    pOrTail k lhs ts = some (lhs, ts) := by
  obtain ⟨k', rfl⟩ : ∃ k', k = k' + 1 := ⟨k - 1, by omega⟩
  exact orTail_stop k' lhs ts h

theorem andTail_stop' (lhs : Expr) (ts : List Tok) (h : NoA ts) (k : Nat) (hk : 1 ≤ k) :
    pAndTail k lhs ts = some (lhs, ts) := by
  obtain ⟨k', rfl⟩ : ∃ k', k = k' + 1 := ⟨k - 1, by omega⟩
  exact andTail_stop k' lhs ts h

theorem xorTail_stop' (lhs : Expr) (ts : List Tok) (h : NoX ts) (k : Nat) (hk : 1 ≤ k) :
    pXorTail k lhs ts = some (lhs, ts) := by
  obtain ⟨k', rfl⟩ : ∃ k', k = k' + 1 := ⟨k - 1, by omega⟩
  exact xorTail_stop k' lhs ts h

/-! ### the statements proved level by level: `ts` is a rendering of `e` at that level -/

def SPrim (ts : List Tok) (e : Expr) : Prop :=
  ∀ fuel rest, 10 * ts.length ≤ fuel → pPrimary fuel (ts ++ rest) = some (e, rest)

def SUnary (ts : List Tok) (e : Expr) : Prop :=
  ∀ fuel rest, 10 * ts.length + 1 ≤ fuel → pUnary fuel (ts ++ rest) = some (e, rest)

def SAnd (ts : List Tok) (e : Expr) : Prop :=
  ∀ fuel g rest R, 10 * ts.length + 2 + g ≤ fuel →
    (∀ k, g ≤ k → pAndTail k e rest = some R) → pAnd fuel (ts ++ rest) = some R

def SXor (ts : List Tok) (e : Expr) : Prop :=
  ∀ fuel g rest R, 10 * ts.length + 4 + g ≤ fuel → NoA rest →
    (∀ k, g ≤ k → pXorTail k e rest = some R) → pXor fuel (ts ++ rest) = some R

def SOr (ts : List Tok) (e : Expr) : Prop :=
  ∀ fuel g rest R, 10 * ts.length + 6 + g ≤ fuel → NoA rest → NoX rest →
    (∀ k, g ≤ k → pOrTail k e rest = some R) → pOr fuel (ts ++ rest) = some R

/-! ### descending one level -/

theorem prim_id (s : Name) : SPrim [Tok.id s] (Expr.id s) := by
  intro fuel rest hf
  obtain ⟨f, rfl⟩ : ∃ f, fuel = f + 1 := ⟨fuel - 1, by simp at hf; omega⟩
  rfl

theorem prim_const (s : String) : SPrim [Tok.const s] (Expr.const s) := by
  intro fuel rest hf
  obtain ⟨f, rfl⟩ : ∃ f, fuel = f + 1 := ⟨fuel - 1, by simp at hf; omega⟩
  rfl

theorem expect_rparen (rest : List Tok) : expectSym ")" (Tok.sym ")" :: rest) = some ((), rest) := by
  unfold expectSym
  simp

theorem prim_paren {ts : List Tok} {e : Expr} (h : SOr ts e) : SPrim (Tok.sym "(" :: ts ++ [Tok.sym ")"]) e := by
  intro fuel rest hf
  simp only [List.length_cons, List.length_append, List.length_nil] at hf
  obtain ⟨f, rfl⟩ : ∃ f, fuel = f + 1 := ⟨fuel - 1, by omega⟩
  have e1 : Tok.sym "(" :: ts ++ [Tok.sym ")"] ++ rest = Tok.sym "(" :: (ts ++ Tok.sym ")" :: rest) := by simp
  rw [e1, pPrimary.eq_4]
  have h1 := h f 1 (Tok.sym ")" :: rest) (e, Tok.sym ")" :: rest) (by omega) (by simp [NoA]) (by simp [NoX])
    (orTail_stop' e _ (by simp [NoO]))
  rw [h1]
  simp only [expect_rparen]

theorem unary_of_prim {ts : List Tok} {e : Expr} (hn : ∀ rest, NoN (ts ++ rest)) (h : SPrim ts e) : SUnary ts e := by
  intro fuel rest hf
  obtain ⟨f, rfl⟩ : ∃ f, fuel = f + 1 := ⟨fuel - 1, by omega⟩
  have := hn rest
  rw [pUnary.eq_4]
  · exact h f rest (by omega)
  · intro r e'; rw [e'] at this; exact this.2 rfl
  · intro r e'; rw [e'] at this; exact this.1 rfl

theorem unary_not {ts : List Tok} {a : Expr} (h : SPrim ts a) : SUnary (Tok.sym "~" :: ts) (Expr.not a) := by
  intro fuel rest hf
  simp only [List.length_cons] at hf
  obtain ⟨f, rfl⟩ : ∃ f, fuel = f + 1 := ⟨fuel - 1, by omega⟩
  rw [List.cons_append, pUnary.eq_3, h f rest (by omega)]
  rfl

theorem and_of_unary {ts : List Tok} {e : Expr} (h : SUnary ts e) : SAnd ts e := by
  intro fuel g rest R hf ht
  obtain ⟨f, rfl⟩ : ∃ f, fuel = f + 1 := ⟨fuel - 1, by omega⟩
  rw [pAnd.eq_2, h f rest (by omega)]
  exact ht f (by omega)

theorem xor_of_and {ts : List Tok} {e : Expr} (h : SAnd ts e) : SXor ts e := by
  intro fuel g rest R hf hA ht
  obtain ⟨f, rfl⟩ : ∃ f, fuel = f + 1 := ⟨fuel - 1, by omega⟩
  rw [pXor.eq_2, h f 1 rest (e, rest) (by omega) (andTail_stop' e rest hA)]
  exact ht f (by omega)

theorem or_of_xor {ts : List Tok} {e : Expr} (h : SXor ts e) : SOr ts e := by
  intro fuel g rest R hf hA hX ht
  obtain ⟨f, rfl⟩ : ∃ f, fuel = f + 1 := ⟨fuel - 1, by omega⟩
  rw [pOr.eq_2, h f 1 rest (e, rest) (by omega) hA (xorTail_stop' e rest hX)]
  exact ht f (by omega)

/-! ### binary operators at their own level -/

theorem and_and {ta tb : List Tok} {a b : Expr} (ha : SAnd ta a) (hb : SUnary tb b) :
    SAnd (ta ++ Tok.sym "&" :: tb) (Expr.and a b) := by
  intro fuel g rest R hf ht
  simp only [List.length_cons, List.length_append] at hf
  have e1 : ta ++ Tok.sym "&" :: tb ++ rest = ta ++ (Tok.sym "&" :: (tb ++ rest)) := by simp
  rw [e1]
  apply ha fuel (10 * tb.length + g + 2) _ R (by omega)
  intro k hk
  obtain ⟨k', rfl⟩ : ∃ k', k = k' + 1 := ⟨k - 1, by omega⟩
  rw [pAndTail.eq_2, hb k' rest (by omega)]
  exact ht k' (by omega)

theorem xor_xor {ta tb : List Tok} {a b : Expr} (ha : SXor ta a) (hb : SAnd tb b) :
    SXor (ta ++ Tok.sym "^" :: tb) (Expr.xor a b) := by
  intro fuel g rest R hf hA ht
  simp only [List.length_cons, List.length_append] at hf
  have e1 : ta ++ Tok.sym "^" :: tb ++ rest = ta ++ (Tok.sym "^" :: (tb ++ rest)) := by simp
  rw [e1]
  apply ha fuel (10 * tb.length + g + 4) _ R (by omega) (by simp [NoA])
  intro k hk
  obtain ⟨k', rfl⟩ : ∃ k', k = k' + 1 := ⟨k - 1, by omega⟩
  rw [pXorTail.eq_2, hb k' 1 rest (b, rest) (by omega) (andTail_stop' b rest hA)]
  exact ht k' (by omega)

theorem xor_xnor {ta tb : List Tok} {a b : Expr} (ha : SXor ta a) (hb : SAnd tb b) :
    SXor (ta ++ Tok.sym "~^" :: tb) (Expr.xnor a b) := by
  intro fuel g rest R hf hA ht
  simp only [List.length_cons, List.length_append] at hf
  have e1 : ta ++ Tok.sym "~^" :: tb ++ rest = ta ++ (Tok.sym "~^" :: (tb ++ rest)) := by simp
  rw [e1]
  apply ha fuel (10 * tb.length + g + 4) _ R (by omega) (by simp [NoA])
  intro k hk
  obtain ⟨k', rfl⟩ : ∃ k', k = k' + 1 := ⟨k - 1, by omega⟩
  rw [pXorTail.eq_3, hb k' 1 rest (b, rest) (by omega) (andTail_stop' b rest hA)]
  exact ht k' (by omega)

theorem or_or {ta tb : List Tok} {a b : Expr} (ha : SOr ta a) (hb : SXor tb b) :
    SOr (ta ++ Tok.sym "|" :: tb) (Expr.or a b) := by
  intro fuel g rest R hf hA hX ht
  simp only [List.length_cons, List.length_append] at hf
  have e1 : ta ++ Tok.sym "|" :: tb ++ rest = ta ++ (Tok.sym "|" :: (tb ++ rest)) := by simp
  rw [e1]
  apply ha fuel (10 * tb.length + g + 6) _ R (by omega) (by simp [NoA]) (by simp [NoX])
  intro k hk
  obtain ⟨k', rfl⟩ : ∃ k', k = k' + 1 := ⟨k - 1, by omega⟩
  rw [pOrTail.eq_2, hb k' 1 rest (b, rest) (by omega) hA (xorTail_stop' b rest hX)]
  exact ht k' (by omega)

/-! ### the canonical rendering (mirror of `CG.C02.toks`) -/

def prec : Expr → Nat
  | .mux .. => 0 | .or .. => 1 | .xor .. => 2 | .xnor .. => 2 | .and .. => 3 | .not .. => 4 | _ => 5

def NoMux : Expr → Prop
  | .mux .. => False
  | .not e => NoMux e
  | .and a b | .or a b | .xor a b | .xnor a b => NoMux a ∧ NoMux b
  | _ => True

def paren (b : Bool) (body : List Tok) : List Tok := if b then Tok.sym "(" :: body ++ [Tok.sym ")"] else body

def toks (ctx : Nat) : Expr → List Tok
  | .id s => [Tok.id s]
  | .const v => [Tok.const v]
  | .not a => paren (4 < ctx) (Tok.sym "~" :: toks 5 a)
  | .and a b => paren (3 < ctx) (toks 3 a ++ Tok.sym "&" :: toks 4 b)
  | .or a b => paren (1 < ctx) (toks 1 a ++ Tok.sym "|" :: toks 2 b)
  | .xor a b => paren (2 < ctx) (toks 2 a ++ Tok.sym "^" :: toks 3 b)
  | .xnor a b => paren (2 < ctx) (toks 2 a ++ Tok.sym "~^" :: toks 3 b)
  | .mux c a b => toks 1 c ++ Tok.sym "?" :: toks 1 a ++ Tok.sym ":" :: toks 1 b

structure AllLevels (e : Expr) : Prop where
  sOr : SOr (toks 1 e) e
  sXor : SXor (toks 2 e) e
  sAnd : SAnd (toks 3 e) e
  sUnary : SUnary (toks 4 e) e
  sPrim : SPrim (toks 5 e) e

theorem non_paren (body rest : List Tok) : NoN (Tok.sym "(" :: body ++ [Tok.sym ")"] ++ rest) := by
  simp [NoN]

theorem all_id (s : Name) : AllLevels (Expr.id s) := by
  have h5 := prim_id s
  have h4 : SUnary [Tok.id s] (Expr.id s) := unary_of_prim (fun _ => trivial) h5
  have h3 := and_of_unary h4
  have h2 := xor_of_and h3
  exact ⟨or_of_xor h2, h2, h3, h4, h5⟩

theorem all_const (s : String) : AllLevels (Expr.const s) := by
  have h5 := prim_const s
  have h4 : SUnary [Tok.const s] (Expr.const s) := unary_of_prim (fun _ => trivial) h5
  have h3 := and_of_unary h4
  have h2 := xor_of_and h3
  exact ⟨or_of_xor h2, h2, h3, h4, h5⟩

theorem all_not {a : Expr} (ha : AllLevels a) : AllLevels (Expr.not a) := by
  have h4 : SUnary (Tok.sym "~" :: toks 5 a) (Expr.not a) := unary_not ha.sPrim
  have h3 := and_of_unary h4
  have h2 := xor_of_and h3
  have h1 := or_of_xor h2
  exact ⟨h1, h2, h3, h4, prim_paren h1⟩

theorem all_and {a b : Expr} (ha : AllLevels a) (hb : AllLevels b) : AllLevels (Expr.and a b) := by
  have h3 : SAnd (toks 3 a ++ Tok.sym "&" :: toks 4 b) (Expr.and a b) := and_and ha.sAnd hb.sUnary
  have h2 := xor_of_and h3
  have h1 := or_of_xor h2
  have h5 := prim_paren h1
  exact ⟨h1, h2, h3, unary_of_prim (non_paren _) h5, h5⟩

theorem all_xor {a b : Expr} (ha : AllLevels a) (hb : AllLevels b) : AllLevels (Expr.xor a b) := by
  have h2 : SXor (toks 2 a ++ Tok.sym "^" :: toks 3 b) (Expr.xor a b) := xor_xor ha.sXor hb.sAnd
  have h1 := or_of_xor h2
  have h5 := prim_paren h1
  have h4 := unary_of_prim (non_paren _) h5
  exact ⟨h1, h2, and_of_unary h4, h4, h5⟩

theorem all_xnor {a b : Expr} (ha : AllLevels a) (hb : AllLevels b) : AllLevels (Expr.xnor a b) := by
  have h2 : SXor (toks 2 a ++ Tok.sym "~^" :: toks 3 b) (Expr.xnor a b) := xor_xnor ha.sXor hb.sAnd
  have h1 := or_of_xor h2
  have h5 := prim_paren h1
  have h4 := unary_of_prim (non_paren _) h5
  exact ⟨h1, h2, and_of_unary h4, h4, h5⟩

theorem all_or {a b : Expr} (ha : AllLevels a) (hb : AllLevels b) : AllLevels (Expr.or a b) := by
  have h1 : SOr (toks 1 a ++ Tok.sym "|" :: toks 2 b) (Expr.or a b) := or_or ha.sOr hb.sXor
  have h5 := prim_paren h1
  have h4 := unary_of_prim (non_paren _) h5
  have h3 := and_of_unary h4
  exact ⟨h1, xor_of_and h3, h3, h4, h5⟩

theorem allLevels : ∀ (e : Expr), NoMux e → AllLevels e
  | .id s, _ => all_id s
  | .const s, _ => all_const s
  | .not a, h => all_not (allLevels a h)
  | .and a b, h => all_and (allLevels a h.1) (allLevels b h.2)
  | .or a b, h => all_or (allLevels a h.1) (allLevels b h.2)
  | .xor a b, h => all_xor (allLevels a h.1) (allLevels b h.2)
  | .xnor a b, h => all_xnor (allLevels a h.1) (allLevels b h.2)
  | .mux .., h => h.elim

/-! ### the top level -/

/-- a token that ends an expression: not an operator, not `?` -/
def Stops : List Tok → Prop
  | [] => True
  | Tok.sym s :: _ => s = ";" ∨ s = "," ∨ s = ")"
  | Tok.kw _ :: _ => True
  | _ => False

/-- the next token is not `?` -/
def NoQ : List Tok → Prop
  | Tok.sym s :: _ => s ≠ "?"
  | _ => True

theorem Stops.facts : ∀ {rest : List Tok}, Stops rest → NoA rest ∧ NoX rest ∧ NoO rest ∧ NoQ rest
  | [], _ => ⟨trivial, trivial, trivial, trivial⟩
  | Tok.kw _ :: _, _ => ⟨trivial, trivial, trivial, trivial⟩
  | Tok.id _ :: _, h => h.elim
  | Tok.const _ :: _, h => h.elim
  | Tok.sym s :: _, h => by
    simp only [Stops] at h
    rcases h with rfl | rfl | rfl <;> simp [NoA, NoX, NoO, NoQ]

theorem toks0_eq : ∀ (e : Expr), NoMux e → toks 0 e = toks 1 e
  | .id _, _ | .const _, _ | .not _, _ | .and .., _ | .or .., _ | .xor .., _ | .xnor .., _ => by simp [toks, paren]
  | .mux .., h => h.elim

theorem pExpr_plain (c : Expr) (r : List Tok) (ts : List Tok) (h : pOr (exprFuel ts) ts = some (c, r)) (hq : NoQ r) :
    pExpr ts = some (c, r) := by
  unfold pExpr
  rw [h]
  simp only [Option.bind_eq_bind, Option.bind_some, Option.pure_def]
  split
  · exact absurd rfl hq
  · rfl

theorem pOr_top {ts : List Tok} {e : Expr} (h : SOr ts e) (rest : List Tok) (hA : NoA rest) (hX : NoX rest)
    (hO : NoO rest) (fuel : Nat) (hf : 10 * ts.length + 10 ≤ fuel) :
    pOr fuel (ts ++ rest) = some (e, rest) :=
  h fuel 1 rest (e, rest) (by omega) hA hX (orTail_stop' e rest hO)

theorem pExpr_noMux {ts : List Tok} {e : Expr} (h : SOr ts e) (rest : List Tok) (hr : Stops rest) :
    pExpr (ts ++ rest) = some (e, rest) := by
  obtain ⟨hA, hX, hO, hQ⟩ := hr.facts
  apply pExpr_plain _ _ _ _ hQ
  apply pOr_top h rest hA hX hO
  simp [exprFuel]
  omega

theorem expect_colon (rest : List Tok) : expectSym ":" (Tok.sym ":" :: rest) = some ((), rest) := by
  unfold expectSym
  simp

theorem pExpr_mux {tc ta tb : List Tok} {c a b : Expr} (hc : SOr tc c) (ha : SOr ta a) (hb : SOr tb b)
    (rest : List Tok) (hr : Stops rest) :
    pExpr (tc ++ Tok.sym "?" :: ta ++ Tok.sym ":" :: tb ++ rest) = some (Expr.mux c a b, rest) := by
  obtain ⟨hA, hX, hO, hQ⟩ := hr.facts
  have e1 : tc ++ Tok.sym "?" :: ta ++ Tok.sym ":" :: tb ++ rest =
      tc ++ (Tok.sym "?" :: (ta ++ (Tok.sym ":" :: (tb ++ rest)))) := by simp
  rw [e1]
  unfold pExpr
  rw [pOr_top hc _ (by simp [NoA]) (by simp [NoX]) (by simp [NoO]) _ (by simp [exprFuel]; omega)]
  simp only [Option.bind_eq_bind, Option.bind_some, Option.pure_def]
  rw [pOr_top ha _ (by simp [NoA]) (by simp [NoX]) (by simp [NoO]) _ (by simp [exprFuel]; omega)]
  simp only [Option.bind_some, expect_colon]
  rw [pOr_top hb _ hA hX hO _ (by simp [exprFuel]; omega)]
  rfl

def Parsable : Expr → Prop
  | .mux c a b => NoMux c ∧ NoMux a ∧ NoMux b
  | e => NoMux e

theorem parse_print : ∀ (e : Expr), Parsable e → ∀ (rest : List Tok), Stops rest →
    pExpr (toks 0 e ++ rest) = some (e, rest)
  | .mux c a b, hp, rest, hr => by
    have h : toks 0 (Expr.mux c a b) = toks 1 c ++ Tok.sym "?" :: toks 1 a ++ Tok.sym ":" :: toks 1 b := by
      simp [toks]
    rw [h]
    exact pExpr_mux (allLevels c hp.1).sOr (allLevels a hp.2.1).sOr (allLevels b hp.2.2).sOr rest hr
  | .id s, hp, rest, hr => by rw [toks0_eq _ hp]; exact pExpr_noMux (allLevels _ hp).sOr rest hr
  | .const s, hp, rest, hr => by rw [toks0_eq _ hp]; exact pExpr_noMux (allLevels _ hp).sOr rest hr
  | .not a, hp, rest, hr => by rw [toks0_eq _ hp]; exact pExpr_noMux (allLevels _ hp).sOr rest hr
  | .and a b, hp, rest, hr => by rw [toks0_eq _ hp]; exact pExpr_noMux (allLevels _ hp).sOr rest hr
  | .or a b, hp, rest, hr => by rw [toks0_eq _ hp]; exact pExpr_noMux (allLevels _ hp).sOr rest hr
  | .xor a b, hp, rest, hr => by rw [toks0_eq _ hp]; exact pExpr_noMux (allLevels _ hp).sOr rest hr
  | .xnor a b, hp, rest, hr => by rw [toks0_eq _ hp]; exact pExpr_noMux (allLevels _ hp).sOr rest hr

theorem parse_parens (e : Expr) (hp : NoMux e) (rest : List Tok) (hr : Stops rest) :
    pExpr (Tok.sym "(" :: toks 0 e ++ Tok.sym ")" :: rest) = some (e, rest) := by
  have h5 : SPrim (Tok.sym "(" :: toks 1 e ++ [Tok.sym ")"]) e := prim_paren (allLevels e hp).sOr
  have h1 := or_of_xor (xor_of_and (and_of_unary (unary_of_prim (non_paren _) h5)))
  have e1 : Tok.sym "(" :: toks 0 e ++ Tok.sym ")" :: rest = (Tok.sym "(" :: toks 1 e ++ [Tok.sym ")"]) ++ rest := by
    rw [toks0_eq e hp]; simp
  rw [e1]
  exact pExpr_noMux h1 rest hr

end VP
end CG
