/- C03 helper: the whole transformer run on a written module -/
import CG.Proofs.VRoundBB
import CG.Proofs.VRoundWrite
namespace CG
namespace VR
open Verilog Circuit

/-! ### the three constant nodes -/

def tie3 : Circuit :=
  { nodes := [("tie_0", { ty := some "0", out := some false }), ("tie_1", { ty := some "1", out := some false }),
              ("tie_x", { ty := some "x", out := some false })] }

theorem tie3_init :
    (Tx.addC {} { n := "tie_0", ty := "0" } >>= fun c0 =>
     Tx.addC c0 { n := "tie_1", ty := "1" } >>= fun c1 =>
     Tx.addC c1 { n := "tie_x", ty := "x" }) = .ok tie3 := by
  rw [addC_plain (by rfl) ⟨by decide, by decide⟩ (by decide), Arith.bind_ok,
    addC_plain (by decide) ⟨by decide, by decide⟩ (by decide), Arith.bind_ok,
    addC_plain (by decide) ⟨by decide, by decide⟩ (by decide)]
  rfl

theorem tie3_has {x : Name} (h : tie3.has x = true) : isTie x := by
  rw [has_iff_mem] at h
  simp only [tie3, nodeNames, List.map_cons, List.map_nil, List.mem_cons, List.not_mem_nil, or_false] at h
  exact h

theorem rinv_init {c : Circuit} (hc : Wr c) : RInv c tie3 [] (fun _ => False) := by
  constructor
  · exact ⟨by decide, by decide, fun e he => nomatch he⟩
  · rfl
  · intro x hx; exact Or.inl (tie3_has hx)
  · intro x a ha hxt; exact absurd (tie3_has (Limit.has_of_attr ha)) hxt
  · intro t ht
    simp only [constTys, List.mem_cons, List.not_mem_nil, or_false] at ht
    rcases ht with rfl | rfl | rfl <;> decide
  · intro x hx; exact hx.elim
  · intro x hx hp
    have : c.has x = true := by rcases hp with hp | hp <;> exact has_of_ty? hp
    exact absurd (tie3_has hx) (hc.not_tie this)
  · intro e
    constructor
    · intro he; cases he
    · rintro ⟨_, h1 | ⟨h1, _⟩⟩ <;> exact h1.elim

/-! ### the statement fold -/

/-- the nodes with a statement of their own -/
def Dfin (c : Circuit) (x : Name) : Prop := c.ty? x = some "input" ∨ pinOf c.bbs x ∨ NeedsStmt c x

theorem pinOf_ty {c : Circuit} (hc : Wr c) {x : Name} (h : pinOf c.bbs x) : PinTy c x := by
  obtain ⟨q, hq, g, hg, rfl⟩ := h
  obtain ⟨pi, po, _⟩ := hc.pinsPresent q hq
  rcases List.mem_append.1 hg with hg | hg
  · exact Or.inl (pi g hg)
  · exact Or.inr (po g hg)

theorem needs_ty {c : Circuit} {x : Name} (h : NeedsStmt c x) :
    ¬ PinTy c x ∧ c.ty? x ≠ some "input" := by
  obtain ⟨t, ht, h1 | h1⟩ := h
  · obtain ⟨_, f2, f3, f4, _⟩ := gate_facts h1.1
    refine ⟨?_, ?_⟩
    · rintro (h2 | h2) <;> (rw [ht] at h2; injection h2 with h2)
      · exact f2 h2
      · exact f3 h2
    · rw [ht]; intro h2; injection h2 with h2; exact f4 (Or.inr (Or.inr (Or.inr h2)))
  · obtain ⟨_, f2, f3⟩ := const_facts h1
    refine ⟨?_, ?_⟩
    · rintro (h2 | h2) <;> (rw [ht] at h2; injection h2 with h2)
      · exact f2 h2
      · exact f3 h2
    · rw [ht]; intro h2; injection h2 with h2
      rw [h2] at h1; exact absurd h1 (by decide)

theorem items_fold {c : Circuit} (hc : Wr c) {ord' : Ord} (hord' : OrdOK ord') {wm : WModule}
    {bi gi : List Item} {L : List Name} (hin : wm.inputs.Perm c.inputs) (hst : wm.stmts = bi ++ gi)
    (hbi : All2 (BBSpec c) c.bbs bi) (hgi : All2 (GSpec c) L gi) (hL : L.Nodup)
    (hLn : ∀ n, n ∈ L ↔ NeedsStmt c n) :
    ∃ stF : TState, wm.toModule.items.foldlM (doItem (c.bbs.map (·.2)) ord')
        ({ c := tie3 }, { io := wm.toModule.ports }) =
        .ok (stF, { io := wm.inputs ++ wm.outputs, inputs := wm.inputs, outputs := wm.outputs }) ∧
      RInv c stF.c c.bbs (Dfin c) := by
  have hinp : ∀ x, x ∈ wm.inputs ↔ c.ty? x = some "input" := by
    intro x; rw [hin.mem_iff, mem_inputs hc.clean.nodup]
  obtain ⟨st1, e1, h1, g1⟩ := iphase (bbs := c.bbs.map (·.2)) (ord' := ord') hc wm.inputs
    (fun i hi => (hinp i).1 hi) { c := tie3 } { io := wm.inputs ++ wm.outputs } _ (rinv_init hc)
  obtain ⟨st2, e2, h2, g2⟩ := bphase hc hord' c.bbs bi hbi [] st1
    { io := wm.inputs ++ wm.outputs, inputs := wm.inputs, outputs := wm.outputs } _ (List.nil_append _) h1
    (by
      rintro x hx (h3 | h3)
      · exact h3
      · have := pinOf_ty hc hx
        rw [hinp] at h3
        rcases this with h4 | h4 <;> (rw [h3] at h4; injection h4 with h4; revert h4; decide))
    (by
      rintro x (h3 | h3)
      · exact h3.elim
      · exact Or.inl ((hinp x).1 h3))
  have g2' : st2.gateExprs = [] := by rw [g2, g1]
  obtain ⟨st3, e3, h3, _⟩ := gphase (bbs := c.bbs.map (·.2)) (ord' := ord') hc L gi hgi hL st2
    { io := wm.inputs ++ wm.outputs, inputs := wm.inputs, outputs := wm.outputs } _ h2 g2'
    (by
      rintro n hn ((h4 | h4) | h4)
      · exact h4
      · exact (needs_ty ((hLn n).1 hn)).2 ((hinp n).1 h4)
      · exact (needs_ty ((hLn n).1 hn)).1 (pinOf_ty hc h4))
  refine ⟨st3, ?_, ?_⟩
  · show (wm.inputs.map (fun i => Item.input [i]) ++ wm.outputs.map (fun o => Item.output [o]) ++
        wm.wires.map (fun w => Item.wire [w]) ++ wm.stmts).foldlM _ _ = _
    rw [List.foldlM_append, List.foldlM_append, List.foldlM_append]
    show ((((wm.inputs.map (fun i => Item.input [i])).foldlM (doItem (c.bbs.map (·.2)) ord')
      ({ c := tie3 }, { io := wm.inputs ++ wm.outputs }) >>= _) >>= _) >>= _) = _
    rw [e1, Arith.bind_ok, ophase, Arith.bind_ok, wphase, Arith.bind_ok, hst, List.foldlM_append]
    simp only [List.nil_append]
    rw [e2, Arith.bind_ok, e3]
  · rw [List.nil_append] at h3
    refine h3.congr ?_
    intro x
    unfold Dfin
    rw [hLn, hinp]
    constructor
    · rintro (((h4 | h4) | h4) | h4)
      · exact h4.elim
      · exact Or.inl h4
      · exact Or.inr (Or.inl h4)
      · exact Or.inr (Or.inr h4)
    · rintro (h4 | h4 | h4)
      · exact Or.inl (Or.inl (Or.inr h4))
      · exact Or.inl (Or.inr h4)
      · exact Or.inr h4

/-! ### the state after the last statement -/

theorem ty_cases {t : String} (h : t ∈ Expected.supported_types) :
    t ∈ gateTypes ∨ t ∈ constTys ∨ t = "input" ∨ t = "bb_input" ∨ t = "bb_output" := by
  simp only [Expected.supported_types, Expected.addable_types, Expected.primitive_gates, List.mem_append,
    List.mem_cons, List.not_mem_nil, or_false] at h
  rcases h with ((h | h | h | h | h | h | h | h) | h | h | h | h) | h | h <;> subst h <;> decide

theorem gate_lint {t : String} (h : t ∈ gateTypes) : t ∈ singleTypes ∨ t ∈ multiTypes := by
  simp only [gateTypes, List.mem_cons, List.not_mem_nil, or_false] at h
  rcases h with rfl | rfl | rfl | rfl | rfl | rfl | rfl | rfl <;> decide

theorem pinOf_of_ty {c : Circuit} (hc : Wr c) {x : Name} (h : PinTy c x) : pinOf c.bbs x := by
  obtain ⟨q, hq, g, e, hg⟩ := hc.pin_name h
  refine ⟨q, hq, g, ?_, e⟩
  rcases hg with ⟨_, hg⟩ | ⟨_, hg⟩
  · exact List.mem_append_left _ hg
  · exact List.mem_append_right _ hg

/-- every node of `c` either has its own statement or is a `buf` driven by a blackbox output pin -/
theorem dfin_or_buf {c : Circuit} (hc : Wr c) {x : Name} (hx : c.has x = true) :
    Dfin c x ∨ (c.ty? x = some "buf" ∧ ∃ u, (u, x) ∈ c.edges ∧ c.ty? u = some "bb_output") := by
  obtain ⟨t, ht, hs⟩ := hc.ws.typed x hx
  rcases ty_cases hs with h | h | h | h | h
  · obtain ⟨u, hu⟩ := Arith.driven_of_lintClean hc.clean x t ht (gate_lint h)
    by_cases hbo : c.ty? u = some "bb_output"
    · exact Or.inr ⟨(hc.ws.bbOut u x hu hbo).1, u, hu, hbo⟩
    · exact Or.inl (Or.inr (Or.inr ⟨t, ht, Or.inl ⟨h, u, hu, hbo⟩⟩))
  · exact Or.inl (Or.inr (Or.inr ⟨t, ht, Or.inr h⟩))
  · exact Or.inl (Or.inl (by rw [ht, h]))
  · exact Or.inl (Or.inr (Or.inl (pinOf_of_ty hc (Or.inl (by rw [ht, h])))))
  · exact Or.inl (Or.inr (Or.inl (pinOf_of_ty hc (Or.inr (by rw [ht, h])))))

theorem final_edges {c st : Circuit} (hc : Wr c) (h : RInv c st c.bbs (Dfin c)) (e : Name × Name) :
    e ∈ st.edges ↔ CEdge c e := by
  rw [h.edges]
  constructor
  · exact fun h1 => h1.1
  · intro h1
    refine ⟨h1, ?_⟩
    rcases h1 with h2 | ⟨t, ht, h2, _⟩
    · have h2' : (e.1, e.2) ∈ c.edges := h2
      by_cases hbo : c.ty? e.1 = some "bb_output"
      · exact Or.inr ⟨Or.inr (Or.inl (pinOf_of_ty hc (Or.inr hbo))), hbo⟩
      · left
        rcases dfin_or_buf hc (hc.ws.closed _ _ h2').2 with h3 | ⟨hb, u, hu, hubo⟩
        · exact h3
        · have := hc.ws.single e.2 "buf" hb (by decide) u e.1 hu h2'
          rw [this] at hubo
          exact absurd hubo hbo
    · exact Or.inl (Or.inr (Or.inr ⟨t, h2, Or.inr ht⟩))

theorem final_attr {c st : Circuit} (hc : Wr c) (h : RInv c st c.bbs (Dfin c)) {x : Name} (hx : c.has x = true) :
    st.attr? x = some { ty := some (fty c x), out := some false } := by
  have hsx : st.has x = true := by
    rcases dfin_or_buf hc hx with h1 | ⟨_, u, hu, _⟩
    · exact has_of_ty? (h.dty x h1)
    · exact (h.wf.closed (u, x) ((final_edges hc h _).2 (Or.inl hu))).2
  obtain ⟨a, ha⟩ := Limit.attr_of_has hsx
  obtain ⟨ho, hty⟩ := h.attr x a ha (hc.not_tie hx)
  have : a.ty = some (fty c x) := by
    rcases dfin_or_buf hc hx with h1 | ⟨hb, _⟩
    · have := h.dty x h1
      rw [Ternary.ty_of_attr ha] at this
      exact this
    · rw [fty_of hb buf_not_const] at hty ⊢
      rcases hty with hty | hty <;> exact hty
  rw [ha]
  obtain ⟨t, o⟩ := a
  simp only at ho this
  rw [ho, this]

/-! ### marking the outputs, dropping unused constant nodes -/

theorem setOut_fold : ∀ (outs : List Name) (c3 : Circuit), (∀ o ∈ outs, c3.has o = true) →
    ∃ c4, outs.foldlM (fun c o => liftO (c.setOutput [o] true)) c3 = .ok c4 ∧ c4.edges = c3.edges ∧
      c4.bbs = c3.bbs ∧ c4.name = c3.name ∧ c4.nodeNames = c3.nodeNames ∧
      ∀ x, c4.attr? x = (c3.attr? x).map (fun a => if x ∈ outs then { a with out := some true } else a)
  | [], c3, _ => ⟨c3, rfl, rfl, rfl, rfl, rfl, fun x => by cases c3.attr? x <;> simp⟩
  | o :: l, c3, h => by
    have ho : c3.has o = true := h o (by simp)
    have hstep : liftO (c3.setOutput [o] true) = .ok (c3.setOutRaw o true) := by
      rw [setOutput, if_pos ho, setOutput]; rfl
    obtain ⟨c4, e, h1, h2, h3, h4, h5⟩ := setOut_fold l (c3.setOutRaw o true)
      (fun x hx => by rw [setOutRaw_has]; exact h x (by simp [hx]))
    refine ⟨c4, ?_, by rw [h1]; rfl, by rw [h2]; rfl, by rw [h3]; rfl, by rw [h4, setOutRaw_nodeNames], ?_⟩
    · rw [List.foldlM_cons, hstep, Arith.bind_ok]; exact e
    · intro x
      rw [h5, setOutRaw_attr?]
      cases c3.attr? x with
      | none => rfl
      | some a =>
        simp only [Option.map_some, List.mem_cons, beq_iff_eq]
        by_cases hxo : x = o
        · simp only [hxo, true_or, if_true]
          split <;> rfl
        · simp only [hxo, false_or, if_false]

def dropTie (c : Circuit) (t : Name) : Circuit := if (c.fanout t).isEmpty then c.remove [t] else c

theorem dropTie_spec {c4 : Circuit} (hwf : WF c4) (t : Name) (hfi : ∀ e ∈ c4.edges, e.2 ≠ t) :
    ∀ c5, c5 = dropTie c4 t →
    WF c5 ∧ (∀ e, e ∈ c5.edges ↔ e ∈ c4.edges) ∧ c5.bbs = c4.bbs ∧ c5.name = c4.name ∧
      (∀ x, x ≠ t → c5.attr? x = c4.attr? x) ∧
      ((∃ v, (t, v) ∈ c4.edges) → c5.attr? t = c4.attr? t) ∧
      ((∀ v, (t, v) ∉ c4.edges) → c5.attr? t = none) := by
  intro c5 hc5
  by_cases hfo : (c4.fanout t).isEmpty = true
  · have e5 : c5 = c4.removeNode t := by
      rw [hc5, dropTie, if_pos hfo]; rfl
    have hno : ∀ v, (t, v) ∉ c4.edges := by
      intro v hv
      have : v ∈ c4.fanout t := mem_fanout.2 hv
      rw [List.isEmpty_iff] at hfo
      rw [hfo] at this; cases this
    have hed : ∀ e, e ∈ (c4.removeNode t).edges ↔ e ∈ c4.edges := by
      intro e
      rw [removeNode_mem]
      constructor
      · exact fun h => h.1
      · intro h
        refine ⟨h, ?_, hfi e h⟩
        intro h1
        exact hno e.2 (by rw [← h1]; exact h)
    rw [e5]
    refine ⟨⟨removeNode_nodup t hwf.nodup, removeNode_edges_nodup t hwf.edgesNodup, ?_⟩, hed, rfl, rfl, ?_, ?_, ?_⟩
    · intro e he
      have he' := (hed e).1 he
      rw [removeNode_has, removeNode_has]
      have h1 : e.1 ≠ t := fun h1 => hno e.2 (by rw [← h1]; exact he')
      have h2 : e.2 ≠ t := hfi e he'
      simp [h1, h2, hwf.closed e he']
    · intro x hx; rw [removeNode_attr?]; simp [hx]
    · rintro ⟨v, hv⟩; exact absurd hv (hno v)
    · intro _; rw [removeNode_attr?]; simp
  · have e5 : c5 = c4 := by
      rw [hc5, dropTie, if_neg hfo]
    rw [e5]
    refine ⟨hwf, fun _ => Iff.rfl, rfl, rfl, fun _ _ => rfl, fun _ => rfl, ?_⟩
    intro hno
    exfalso
    apply hfo
    rw [List.isEmpty_iff]
    cases hf : c4.fanout t with
    | nil => rfl
    | cons v l => exact absurd (mem_fanout.1 (by rw [hf]; simp)) (hno v)

theorem drop3 {c4 : Circuit} (hwf : WF c4) (hfi : ∀ e ∈ c4.edges, ¬ isTie e.2) :
    let c7 := dropTie (dropTie (dropTie c4 "tie_0") "tie_1") "tie_x"
    WF c7 ∧ (∀ e, e ∈ c7.edges ↔ e ∈ c4.edges) ∧ c7.bbs = c4.bbs ∧ c7.name = c4.name ∧
      (∀ x, ¬ isTie x → c7.attr? x = c4.attr? x) ∧
      (∀ T, isTie T → (∃ v, (T, v) ∈ c4.edges) → c7.attr? T = c4.attr? T) ∧
      (∀ T, isTie T → (∀ v, (T, v) ∉ c4.edges) → c7.attr? T = none) := by
  intro c7
  obtain ⟨w5, e5, b5, n5, o5, k5, d5⟩ := dropTie_spec hwf "tie_0" (fun e he h => hfi e he (Or.inl h)) _ rfl
  obtain ⟨w6, e6, b6, n6, o6, k6, d6⟩ := dropTie_spec w5 "tie_1"
    (fun e he h => hfi e ((e5 e).1 he) (Or.inr (Or.inl h))) _ rfl
  obtain ⟨w7, e7, b7, n7, o7, k7, d7⟩ := dropTie_spec w6 "tie_x"
    (fun e he h => hfi e ((e5 e).1 ((e6 e).1 he)) (Or.inr (Or.inr h))) c7 rfl
  have h01 : ("tie_0" : Name) ≠ "tie_1" := by decide
  have h0x : ("tie_0" : Name) ≠ "tie_x" := by decide
  have h1x : ("tie_1" : Name) ≠ "tie_x" := by decide
  refine ⟨w7, fun e => by rw [e7, e6, e5], by rw [b7, b6, b5], by rw [n7, n6, n5], ?_, ?_, ?_⟩
  · intro x hx
    unfold isTie at hx
    simp only [not_or] at hx
    rw [o7 x hx.2.2, o6 x hx.2.1, o5 x hx.1]
  · rintro T (rfl | rfl | rfl) hv
    · rw [o7 _ h0x, o6 _ h01, k5 hv]
    · rw [o7 _ h1x, k6 (by obtain ⟨v, hv⟩ := hv; exact ⟨v, (e5 _).2 hv⟩), o5 _ h01.symm]
    · rw [k7 (by obtain ⟨v, hv⟩ := hv; exact ⟨v, (e6 _).2 ((e5 _).2 hv)⟩), o6 _ h1x.symm, o5 _ h0x.symm]
  · rintro T (rfl | rfl | rfl) hv
    · rw [o7 _ h0x, o6 _ h01, d5 hv]
    · rw [o7 _ h1x, d6 (fun v h => hv v ((e5 _).1 h))]
    · rw [d7 (fun v h => hv v ((e5 _).1 ((e6 _).1 h)))]

/-! ### the transformer -/

def post (m : Module) (s : TState × Decls) : E Circuit :=
  let d := s.2
  if d.inputs.any (fun i => !d.io.contains i) then .error vpe else
  if d.outputs.any (fun o => !d.io.contains o) then .error vpe else
  if d.io.any (fun v => !d.inputs.contains v && !d.outputs.contains v) then .error vpe else
  let c3 : Circuit := { s.1.c with name := m.name }
  d.outputs.foldlM (fun c o => liftO (c.setOutput [o] true)) c3 >>= fun c4 =>
  pure (dropTie (dropTie (dropTie c4 "tie_0") "tie_1") "tie_x")

theorem transform_eq (m : Module) (bbs : List BBox) (ord : Ord) :
    transform m bbs ord = m.items.foldlM (doItem bbs ord) ({ c := tie3 }, { io := m.ports }) >>= post m := by
  unfold transform
  rw [addC_plain (by rfl) ⟨by decide, by decide⟩ (by decide), Arith.bind_ok,
    addC_plain (by decide) ⟨by decide, by decide⟩ (by decide), Arith.bind_ok,
    addC_plain (by decide) ⟨by decide, by decide⟩ (by decide), Arith.bind_ok]
  rfl

theorem post_checks (I O : List Name) :
    (I.any (fun i => !(I ++ O).contains i)) = false ∧ (O.any (fun o => !(I ++ O).contains o)) = false ∧
    ((I ++ O).any (fun v => !I.contains v && !O.contains v)) = false := by
  refine ⟨?_, ?_, ?_⟩
  · rw [List.any_eq_false]; intro x hx; simp [hx]
  · rw [List.any_eq_false]; intro x hx; simp [hx]
  · rw [List.any_eq_false]; intro x hx
    rcases List.mem_append.1 hx with h | h <;> simp [h]

theorem post_ok (m : Module) (st : TState) (I O : List Name) {c4 : Circuit}
    (h : O.foldlM (fun c o => liftO (c.setOutput [o] true)) { st.c with name := m.name } = .ok c4) :
    post m (st, { io := I ++ O, inputs := I, outputs := O }) =
      .ok (dropTie (dropTie (dropTie c4 "tie_0") "tie_1") "tie_x") := by
  obtain ⟨k1, k2, k3⟩ := post_checks I O
  unfold post
  simp only [k1, k2, k3, Bool.false_eq_true, if_false]
  rw [h]
  rfl

/-- the circuit that is read back, described relative to the original -/
structure Result (c c' : Circuit) : Prop where
  name : c'.name = c.name
  bbs : c'.bbs = c.bbs
  wf : WF c'
  edges : ∀ e, e ∈ c'.edges ↔ CEdge c e
  attr_out : ∀ x, x ∈ c.outputs → c'.attr? x = some { ty := some (fty c x), out := some true }
  attr_in : ∀ x, c.has x = true → x ∉ c.outputs → c'.attr? x = some { ty := some (fty c x), out := some false }
  tie_used : ∀ t, t ∈ constTys → (∃ n, c.ty? n = some t) →
    c'.attr? ("tie_" ++ t) = some { ty := some t, out := some false }
  tie_unused : ∀ t, t ∈ constTys → (∀ n, c.ty? n ≠ some t) → c'.attr? ("tie_" ++ t) = none
  other : ∀ x, c.has x = false → ¬ isTie x → c'.attr? x = none

theorem tie_inj {t t' : String} (h : "tie_" ++ t = "tie_" ++ t') : t = t' := by
  have := congrArg String.toList h
  rw [String.toList_append, String.toList_append] at this
  exact String.toList_injective (List.append_cancel_left this)

theorem replay (c : Circuit) (ord ord' : Ord) (hord : OrdOK ord) (hord' : OrdOK ord') (hc : Wr c) :
    ∃ wm c', toWModule c false ord = .ok wm ∧ transform wm.toModule (c.bbs.map (·.2)) ord' = .ok c' ∧
      Result c c' := by
  obtain ⟨wm, bi, gi, L, hw, hname, hin, hout, hst, hbi, hgi, hL, hLn⟩ := write_spec c ord hord hc
  obtain ⟨stF, eF, h⟩ := items_fold hc hord' hin hst hbi hgi hL hLn
  have houts : ∀ x, x ∈ wm.outputs ↔ x ∈ c.outputs := fun x => hout.mem_iff
  -- marking the outputs
  obtain ⟨c4, e4, ed4, bb4, nm4, nn4, at4⟩ := setOut_fold wm.outputs { stF.c with name := wm.toModule.name } (by
    intro o ho
    have := final_attr hc h (mem_outputs_has ((houts o).1 ho))
    exact Limit.has_of_attr this)
  have wf4 : WF c4 := by
    refine ⟨by rw [nn4]; exact h.wf.nodup, by rw [ed4]; exact h.wf.edgesNodup, ?_⟩
    intro e he
    rw [ed4] at he
    have := h.wf.closed e he
    rw [has_iff_mem, has_iff_mem, nn4]
    rw [has_iff_mem, has_iff_mem] at this
    exact this
  have ed4' : ∀ e, e ∈ c4.edges ↔ CEdge c e := by
    intro e; rw [ed4]; exact final_edges hc h e
  obtain ⟨wf7, ed7, bb7, nm7, o7, k7, d7⟩ := drop3 wf4 (by
    intro e he
    exact hc.not_tie (cedge_has_tgt hc (u := e.1) (v := e.2) ((ed4' e).1 he)))
  refine ⟨wm, dropTie (dropTie (dropTie c4 "tie_0") "tie_1") "tie_x", hw, ?_, ?_⟩
  · rw [transform_eq, eF, Arith.bind_ok]
    exact post_ok wm.toModule stF wm.inputs wm.outputs e4
  · have at4c : ∀ x, c.has x = true → c4.attr? x =
        some (if x ∈ wm.outputs then { ty := some (fty c x), out := some true }
              else { ty := some (fty c x), out := some false }) := by
      intro x hx
      rw [at4]
      show Option.map _ (stF.c.attr? x) = _
      rw [final_attr hc h hx]
      simp only [Option.map_some]
    constructor
    · rw [nm7, nm4]; exact hname
    · rw [bb7, bb4]; exact h.bbs
    · exact wf7
    · intro e; rw [ed7]; exact ed4' e
    · intro x hx
      have hcx := mem_outputs_has hx
      rw [o7 x (hc.not_tie hcx), at4c x hcx, if_pos ((houts x).2 hx)]
    · intro x hcx hx
      rw [o7 x (hc.not_tie hcx), at4c x hcx, if_neg (fun h1 => hx ((houts x).1 h1))]
    · intro t ht ⟨n, hn⟩
      have ht4 : c4.attr? ("tie_" ++ t) = some { ty := some t, out := some false } := by
        rw [at4]
        show Option.map _ (stF.c.attr? _) = _
        rw [h.tie t ht]
        simp only [Option.map_some]
        rw [if_neg]
        intro h1
        exact hc.not_tie (mem_outputs_has ((houts _).1 h1)) ((isTie_iff _).2 ⟨t, ht, rfl⟩)
      rw [k7 _ ((isTie_iff _).2 ⟨t, ht, rfl⟩) ⟨n, (ed4' _).2 (Or.inr ⟨t, ht, hn, rfl⟩)⟩, ht4]
    · intro t ht hno
      apply d7 _ ((isTie_iff _).2 ⟨t, ht, rfl⟩)
      intro v hv
      rcases (ed4' _).1 hv with h1 | ⟨t', _, h1, h2⟩
      · exact hc.not_tie (hc.ws.closed _ _ h1).1 ((isTie_iff _).2 ⟨t, ht, rfl⟩)
      · simp only at h1 h2
        rw [← tie_inj h2] at h1
        exact hno v h1
    · intro x hcx hxt
      rw [o7 x hxt, at4]
      show Option.map _ (stF.c.attr? x) = _
      have : stF.c.has x = false := by
        cases hh : stF.c.has x with
        | false => rfl
        | true =>
          rcases h.sub x hh with h1 | h1
          · exact absurd h1 hxt
          · rw [hcx] at h1; cases h1
      rw [attr?_none_of_not_has this]
      rfl

end VR
end CG
