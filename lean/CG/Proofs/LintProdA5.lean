/- C20 (second half, ternary) helper: one iteration of the main loop of `ternary` with the nodes it creates, and the
   blackbox registry along the run -/
import CG.Proofs.LintProdA4
import CG.Proofs.BenchInv
namespace CG
namespace LintProdA
open Circuit Ternary

variable {c : Circuit} {mp : Name → Name}

/-! ### the registry is never touched -/

theorem addC_bbs {t t' : Circuit} {a : AddArgs} (h : Tx.addC t a = .ok t') : t'.bbs = t.bbs := by
  rw [LintLink.addC_fst h]; exact BenchP.add_bbs t a

theorem addE_bbs {t t' : Circuit} {a : AddArgs} {r : Name} (h : addE t a = .ok (t', r)) : t'.bbs = t.bbs := by
  rw [LintLink.addE_fst h]; exact BenchP.add_bbs t a

theorem foldlM_bbs (f : Circuit → Name → E Circuit) (hf : ∀ a b a', f a b = .ok a' → a'.bbs = a.bbs)
    (l : List Name) (t t' : Circuit) (h : l.foldlM f t = .ok t') : t'.bbs = t.bbs :=
  LintLink.foldlM_inv (fun s => s.bbs = t.bbs) f (fun a b a' hp h => (hf a b a' h).trans hp) l t t' rfl h

theorem is0_bbs {z : Name} {t t' : Circuit} {p : Name} (h : Tx.ternaryIs0 mp z t p = .ok t') : t'.bbs = t.bbs := by
  unfold Tx.ternaryIs0 at h; exact addC_bbs h

theorem is1_bbs {z : Name} {t t' : Circuit} {p : Name} (h : Tx.ternaryIs1 mp z t p = .ok t') : t'.bbs = t.bbs := by
  unfold Tx.ternaryIs1 at h
  obtain ⟨r, h1, h2⟩ := LintLink.bind_ok_inv h
  rw [addC_bbs h2]
  exact addE_bbs (t' := r.1) (r := r.2) h1

theorem ternaryNode_bbs {ord : Ord} {t t' : Circuit} {n : Name} (h : Tx.ternaryNode c ord mp t n = .ok t') :
    t'.bbs = t.bbs := by
  unfold Tx.ternaryNode at h
  split at h
  · cases h
  · simp only [] at h
    split at h
    · obtain ⟨t1, h1, h⟩ := LintLink.bind_ok_inv h
      obtain ⟨t2, h2, h⟩ := LintLink.bind_ok_inv h
      obtain ⟨r, h3, h⟩ := LintLink.bind_ok_inv h
      rw [foldlM_bbs _ (fun a b a' h => is0_bbs h) _ _ _ h, addE_bbs (t' := r.1) (r := r.2) h3, addC_bbs h2,
        addC_bbs h1]
    split at h
    · obtain ⟨t1, h1, h⟩ := LintLink.bind_ok_inv h
      obtain ⟨t2, h2, h⟩ := LintLink.bind_ok_inv h
      obtain ⟨r, h3, h⟩ := LintLink.bind_ok_inv h
      rw [foldlM_bbs _ (fun a b a' h => is1_bbs h) _ _ _ h, addE_bbs (t' := r.1) (r := r.2) h3, addC_bbs h2,
        addC_bbs h1]
    split at h
    · split at h
      · cases h
      · exact addC_bbs h
    split at h
    · exact addC_bbs h
    split at h
    · exact addC_bbs h
    split at h
    · exact addC_bbs h
    · cases h

/-! ### one iteration of the main loop -/

theorem node_step2 (g : GoodC c) (hm : MapOK c mp) {ord : Ord} (hord : OrdOK ord)
    (hnd : ∀ y, c.has y = true → hasDot y = false) {t : Circuit} (hW : W c mp t)
    (hsub : ∀ x, c.has x = true → t.has x = true) {n : Name} (hn : c.has n = true)
    (hclean : ∀ e ∈ t.edges, e.2 ≠ mp n) :
    ∃ t', Tx.ternaryNode c ord mp t n = .ok t' ∧ W c mp t' ∧ Frame t t' (S mp t n) (S mp t n) ∧
      NodeDone c mp t' n ∧ NewN c mp t t' ∧ Ar t' (mp n) := by
  obtain ⟨ty, hty, hcases⟩ := g.ty hn
  have hfi : ∀ p, p ∈ ord (c.fanin n) ↔ p ∈ c.fanin n := fun p => (hord (c.fanin n)).mem_iff
  have hmapfi : ∀ u, u ∈ (ord (c.fanin n)).map mp ↔ u ∈ (c.fanin n).map mp := by
    intro u
    simp only [List.mem_map]
    exact ⟨fun ⟨p, hp, e⟩ => ⟨p, (hfi p).mp hp, e⟩, fun ⟨p, hp, e⟩ => ⟨p, (hfi p).mpr hp, e⟩⟩
  have hedge : ∀ p ∈ ord (c.fanin n), (p, n) ∈ c.edges := fun p hp => mem_fanin.mp ((hfi p).mp hp)
  have hne_of_multi : ty ∈ multiTypes → c.fanin n ≠ [] := by
    intro h e
    have := g.clean.multi n ty hty h
    rw [e] at this
    simp at this
  by_cases h1 : ty ∈ ["and", "nand"]
  · have hmul : ty ∈ multiTypes := by
      simp only [List.mem_cons, List.not_mem_nil, or_false] at h1
      rcases h1 with rfl | rfl <;> decide
    obtain ⟨t', e, hW', hf, hd, hnew, har⟩ := andor_core2 (isZero_stable mp) g hm hord hnd hW hsub hn
      (hne_of_multi hmul) hclean (c.isOut n) "_0_not_in_fi" (by decide) (fun z => Tx.ternaryIs0 mp z) (is0_step2 hm)
    exact ⟨t', by rw [tn_and hty h1]; exact e, hW', hf, ⟨ty, hty, Or.inl ⟨h1, hd⟩⟩, hnew, har⟩
  by_cases h2 : ty ∈ ["or", "nor"]
  · have hmul : ty ∈ multiTypes := by
      simp only [List.mem_cons, List.not_mem_nil, or_false] at h2
      rcases h2 with rfl | rfl <;> decide
    obtain ⟨t', e, hW', hf, hd, hnew, har⟩ := andor_core2 (isOne_stable mp) g hm hord hnd hW hsub hn
      (hne_of_multi hmul) hclean (c.isOut n) "_1_not_in_fi" (by decide) (fun z => Tx.ternaryIs1 mp z) (is1_step2 hm)
    exact ⟨t', by rw [tn_or hty h2]; exact e, hW', hf, ⟨ty, hty, Or.inr (Or.inl ⟨h2, hd⟩)⟩, hnew, har⟩
  by_cases h3 : ty ∈ ["buf", "not"]
  · have hlen : (c.fanin n).length = 1 := g.clean.single n ty hty (by
      simp only [List.mem_cons, List.not_mem_nil, or_false] at h3
      rcases h3 with rfl | rfl <;> decide)
    obtain ⟨p, hp⟩ := List.length_eq_one_iff.mp hlen
    have hop : ord (c.fanin n) = [p] := by
      have := hord (c.fanin n)
      rw [hp] at this ⊢
      exact List.perm_singleton.mp this
    obtain ⟨t', e, hW', hf, h5, h6, hnew⟩ := simple_core2 g hm hW hn hclean "buf" [p] (c.isOut n) true (by decide)
      (fun _ => Nat.le_refl _) (fun h => absurd h (by decide))
      (by intro q hq; exact hedge q (by rw [hop]; exact hq)) (fun _ => rfl)
    refine ⟨t', by rw [tn_buf hty h3 hop]; exact e, hW', hf,
      ⟨ty, hty, Or.inr (Or.inr (Or.inl ⟨h3, h5, ?_⟩))⟩, hnew, Ar.of_sgl (q := mp p) h5 (by decide) h6⟩
    rw [hp]; exact h6
  by_cases h4 : ty ∈ ["xor", "xnor"]
  · have hmul : ty ∈ multiTypes := by
      simp only [List.mem_cons, List.not_mem_nil, or_false] at h4
      rcases h4 with rfl | rfl <;> decide
    obtain ⟨t', e, hW', hf, h5, h6, hnew⟩ := simple_core2 g hm hW hn hclean "or" (ord (c.fanin n)) (c.isOut n) true
      (by decide) (fun h => absurd h (by decide)) (fun h => absurd h (by decide)) hedge (fun _ => rfl)
    exact ⟨t', by rw [tn_xor hty h4]; exact e, hW', hf,
      ⟨ty, hty, Or.inr (Or.inr (Or.inr (Or.inl ⟨h4, h5, h6.congr hmapfi⟩)))⟩, hnew,
      Ar.of_multi_faninIs h5 (by decide) h6 (by simpa using ord_ne_nil hord (hne_of_multi hmul))⟩
  by_cases h5 : ty ∈ ["0", "1"]
  · obtain ⟨t', e, hW', hf, h6, h7, hnew⟩ := simple_core2 g hm hW hn hclean "0" [] (c.isOut n) false
      (by decide) (fun h => absurd h (by decide)) (fun _ => rfl) (fun _ h => nomatch h) (fun h => absurd rfl h)
    exact ⟨t', by rw [tn_const hty h5]; exact e, hW', hf,
      ⟨ty, hty, Or.inr (Or.inr (Or.inr (Or.inr (Or.inl ⟨h5, h6⟩))))⟩, hnew, Ar.of_src h6 (by decide) h7⟩
  · have h6 : ty = "input" := by
      simp only [multiTypes, List.mem_cons, List.not_mem_nil, or_false] at hcases h1 h2 h3 h4 h5
      rcases hcases with (h | h | h | h | h | h) | h | h | h | h | h
      all_goals first | exact h | (subst h; simp at h1 h2 h3 h4 h5)
    subst h6
    obtain ⟨t', e, hW', hf, h6, h7, hnew⟩ := simple_core2 g hm hW hn hclean "input" [] false false
      (by decide) (fun h => absurd h (by decide)) (fun _ => rfl) (fun _ h => nomatch h) (fun h => absurd rfl h)
    exact ⟨t', by rw [tn_input hty]; exact e, hW', hf,
      ⟨"input", hty, Or.inr (Or.inr (Or.inr (Or.inr (Or.inr ⟨rfl, h6⟩))))⟩, hnew, Ar.of_src h6 (by decide) h7⟩

end LintProdA
end CG
