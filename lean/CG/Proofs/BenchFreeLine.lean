/- C15 (character level, free layout) helper: statements in free layout (either keyword case, white space at every
   `\s*` of the patterns and inside the operand list) and where the four patterns can match in them -/
import CG.Proofs.BenchFreeList
set_option linter.unusedSimpArgs false
set_option linter.unusedVariables false
namespace CG
namespace BenchText
open Regex Bench

/-- the characters of an operand list in free layout -/
def AllArgF (w : List Char) : Prop := ∀ x ∈ w, idC.mem x = true ∨ x = ',' ∨ wsS.mem x = true

theorem argF_ne {x : Char} (h : idC.mem x = true ∨ x = ',' ∨ wsS.mem x = true) : x ≠ '(' ∧ x ≠ ')' ∧ x ≠ '=' := by
  rcases h with h | rfl | h
  · exact ⟨(idC_ne h).1, (idC_ne h).2.1, (idC_ne h).2.2.1⟩
  · decide
  · exact ws_ne h

/-- a statement in free layout (`w…` = the white space at the `\s*` positions) -/
inductive FL where
  | io (b : Bool) (K w1 w2 n w3 : List Char)        -- `K w1 ( w2 n w3 )`, `b`: INPUT (true) or OUTPUT (false)
  | gate (n w1 w2 K w3 A : List Char)               -- `n w1 = w2 K w3 ( A )`
  | blank

def FL.chars : FL → List Char
  | .io _ K w1 w2 n w3 => K ++ (w1 ++ '(' :: (w2 ++ (n ++ (w3 ++ [')']))))
  | .gate n w1 w2 K w3 A => n ++ (w1 ++ '=' :: (w2 ++ (K ++ (w3 ++ '(' :: (A ++ [')'])))))
  | .blank => []

def FL.ok : FL → Prop
  | .io b K w1 w2 n w3 => (K = Kof b ∨ K = kof b) ∧ AllWs w1 ∧ AllWs w2 ∧ AllWs w3 ∧ IdentL n
  | .gate n w1 w2 K w3 A => IdentL n ∧ AllWs w1 ∧ AllWs w2 ∧ AllWs w3 ∧ (K ∈ gateKws ∨ K ∈ dffKws) ∧ AllArgF A ∧ A ≠ []
  | .blank => True

theorem allKws_letters {K : List Char} (h : K ∈ gateKws ∨ K ∈ dffKws) : AllLetter K ∧ K ≠ [] := by
  rcases h with h | h
  · exact kwsOK_gate.2 K h
  · exact kwsOK_dff.2 K h

theorem ws_not_letter {w : List Char} (h : AllWs w) : ∀ x ∈ w, ¬ isLetter x := fun x hx => (ws_ne' (h x hx)).2.2.1
theorem ws_not_idC {w : List Char} (h : AllWs w) : ∀ x ∈ w, ¬ idC.mem x = true :=
  fun x hx hh => not_ws_of_idC hh (h x hx)
theorem idC_not_ws {w : List Char} (h : AllIdC w) : ∀ x ∈ w, ¬ wsS.mem x = true :=
  fun x hx hh => not_ws_of_idC (h x hx) hh
theorem letter_not_ws {w : List Char} (h : AllLetter w) : ∀ x ∈ w, ¬ wsS.mem x = true :=
  fun x hx hh => by rw [(letter_ne (h x hx)).1] at hh; cases hh

/-! ### the INPUT/OUTPUT patterns -/

section
variable (ctx : Ctx) {K0 k0 : List Char}

/-- no match of the pattern inside a line `Y K' w ( A )` whose keyword `K'` does not end in a keyword of the pattern -/
theorem io_missF (hK : AllLetter K0) (hk : AllLetter k0) (hK0 : K0 ≠ []) (hk0 : k0 ≠ []) {Y K' w A u t rest s' : List Char}
    {c' : Caps} (hY : Y = [] ∨ ∃ Z z, Y = Z ++ [z] ∧ ¬ isLetter z) (hYp : '(' ∉ Y) (hK' : AllLetter K') (hK'0 : K' ≠ [])
    (hw : AllWs w) (hs1 : ¬ K0 <:+ K') (hs2 : ¬ k0 <:+ K') (hA : '(' ∉ A)
    (hu : u ++ t = (Y ++ (K' ++ w)) ++ '(' :: (A ++ [')'])) (ht : t ≠ []) :
    ¬ Den ctx (rxIO K0 k0) (t ++ rest) [] s' c' := by
  rcases suf_append hu with ⟨H', ⟨u', hH'⟩, e⟩ | ⟨u', e⟩
  · rw [e]
    intro h
    have hno : '(' ∉ H' := by
      intro hm
      have := mem_of_suf hH' hm
      simp only [List.mem_append] at this
      rcases this with hm | hm | hm
      · exact hYp hm
      · exact absurd (hK' _ hm) (by decide)
      · exact (ws_ne (hw _ hm)).1 rfl
    have : (H' ++ '(' :: (A ++ [')'])) ++ rest = H' ++ '(' :: (A ++ ')' :: rest) := by simp
    rw [this] at h
    obtain ⟨kw, w1, w2, x, idr, w3, hkw, hw1, hw2, hw3, hx, hidr, e1, e2, hc⟩ := io_head ctx hK hk hno h
    have hl : AllLetter kw ∧ kw ≠ [] := by rcases hkw with rfl | rfl <;> exact ⟨‹_›, ‹_›⟩
    rw [e1] at hH'
    obtain ⟨_, e3⟩ := tail_split (P := isLetter) hH' hl.1 hK' (ws_not_letter hw1) (ws_not_letter hw) hl.2 hK'0
    have key : kw <:+ K' := class_suffix (P := isLetter) e3 hl.1 hY
    rcases hkw with rfl | rfl
    · exact hs1 key
    · exact hs2 key
  · rcases suf_cons e with rfl | ⟨u'', e⟩
    · exact io_first ctx hK hk hK0 hk0 (by decide)
    · obtain ⟨B, rfl, u3, hB⟩ := suf_snoc e ht
      have : (B ++ [')']) ++ rest = B ++ ')' :: rest := by simp
      rw [this]
      exact io_fail_tail ctx hK hk (fun hm => hA (mem_of_suf hB hm))

/-- at the start of a line `K w1 ( w2 n w3 )` the pattern matches exactly the line and captures the name -/
theorem io_successF (hK : AllLetter K0) (hk : AllLetter k0) (hK0 : K0 ≠ []) (hk0 : k0 ≠ [])
    {K w1 w2 n w3 rest s' : List Char} {c' : Caps}
    (hKK : K = K0 ∨ K = k0) (hw1 : AllWs w1) (hw2 : AllWs w2) (hw3 : AllWs w3) (hn : IdentL n) :
    Den ctx (rxIO K0 k0) (K ++ (w1 ++ '(' :: (w2 ++ (n ++ (w3 ++ ')' :: rest))))) [] s' c' ↔
      s' = rest ∧ c' = [(1, ctx.s.size - (n ++ (w3 ++ ')' :: rest)).length, ctx.s.size - (w3 ++ ')' :: rest).length)] := by
  have hKl : AllLetter K ∧ K ≠ [] := by rcases hKK with rfl | rfl <;> exact ⟨‹_›, ‹_›⟩
  constructor
  · intro h
    rw [den_rxIO] at h
    obtain ⟨kw, v1, v2, x, idr, v3, hkw, hv1, hv2, hv3, hx, hidr, e, hc⟩ := h
    have hl : AllLetter kw := by rcases hkw with rfl | rfl <;> assumption
    obtain ⟨x0, r0, rfl, hx0, hr0⟩ := hn
    -- keyword
    obtain ⟨rfl, ea⟩ := span_unique (P := isLetter) e hKl.1 hl
      (starts_append (ws_not_letter hw1) (starts_cons (by decide)))
      (starts_append (ws_not_letter hv1) (starts_cons (by decide)))
    -- white space, `(`
    obtain ⟨rfl, eb⟩ := span_unique (P := fun z => wsS.mem z = true) ea hw1 hv1 (starts_cons (by decide)) (starts_cons (by decide))
    simp only [List.cons.injEq, true_and] at eb
    -- white space, name
    obtain ⟨rfl, ec⟩ := span_unique (P := fun z => wsS.mem z = true) eb hw2 hv2
      (starts_cons (fun hh => not_ws_of_idC (idC_of_idS hx0) hh)) (starts_cons (fun hh => not_ws_of_idC (idC_of_idS hx) hh))
    have ec' : (x0 :: r0) ++ (w3 ++ ')' :: rest) = (x :: idr) ++ (v3 ++ ')' :: s') := by simpa using ec
    have hid0 : AllIdC (x0 :: r0) := IdentL.all ⟨x0, r0, rfl, hx0, hr0⟩
    have hid1 : AllIdC (x :: idr) := IdentL.all ⟨x, idr, rfl, hx, hidr⟩
    obtain ⟨e1, ed⟩ := span_unique (P := fun z => idC.mem z = true) ec' hid0 hid1
      (starts_append (ws_not_idC hw3) (starts_cons (by decide))) (starts_append (ws_not_idC hv3) (starts_cons (by decide)))
    obtain ⟨rfl, ee⟩ := span_unique (P := fun z => wsS.mem z = true) ed hw3 hv3 (starts_cons (by decide)) (starts_cons (by decide))
    simp only [List.cons.injEq, true_and] at ee
    subst ee
    simp only [List.cons.injEq] at e1
    obtain ⟨rfl, rfl⟩ := e1
    exact ⟨rfl, by rw [hc]; rfl⟩
  · rintro ⟨rfl, rfl⟩
    obtain ⟨x, r, rfl, hx, hr⟩ := hn
    rw [den_rxIO]
    exact ⟨K, w1, w2, x, r, w3, hKK, hw1, hw2, hw3, hx, hr, by simp, by simp⟩
end

/-! ### the gate/DFF patterns -/

/-- the captures of a gate/DFF line -/
def gateCapsF (ctx : Ctx) (n W1 W2 K W3 A rest : List Char) : Caps :=
  [(3, ctx.s.size - (A ++ ')' :: rest).length, ctx.s.size - (')' :: rest).length),
   (2, ctx.s.size - (K ++ (W3 ++ '(' :: (A ++ ')' :: rest))).length, ctx.s.size - (W3 ++ '(' :: (A ++ ')' :: rest)).length),
   (1, ctx.s.size - (n ++ (W1 ++ '=' :: (W2 ++ (K ++ (W3 ++ '(' :: (A ++ ')' :: rest)))))).length,
       ctx.s.size - (W1 ++ '=' :: (W2 ++ (K ++ (W3 ++ '(' :: (A ++ ')' :: rest))))).length)]

section
variable (ctx : Ctx) {kws : List (List Char)}

/-- a match that starts inside the name of a line `n W1 = W2 K W3 ( A )` is the rest of the line, all parts aligned -/
theorem gate_alignF (hk : KwsOK kws) {n W1 W2 K W3 A rest s' : List Char} {c' : Caps} (hn : AllIdC n) (hW1 : AllWs W1)
    (hW2 : AllWs W2) (hW3 : AllWs W3) (hK : AllLetter K) (hK0 : K ≠ []) (hA : ')' ∉ A)
    (h : Den ctx (rxGate kws) (n ++ (W1 ++ '=' :: (W2 ++ (K ++ (W3 ++ '(' :: (A ++ ')' :: rest)))))) [] s' c') :
    K ∈ kws ∧ s' = rest ∧ A ≠ [] ∧ c' = gateCapsF ctx n W1 W2 K W3 A rest := by
  rw [den_rxGate ctx kws hk.1] at h
  obtain ⟨x, idr, w1, w2, kw, w3, y, ops, hkw, hw1, hw2, hw3, hx, hidr, hy, hops, e, hc⟩ := h
  have hkl := hk.2 kw hkw
  obtain ⟨k1, kr, rfl⟩ := List.exists_cons_of_ne_nil hK0
  obtain ⟨q1, qr, rfl⟩ := List.exists_cons_of_ne_nil hkl.2
  have e' : n ++ (W1 ++ '=' :: (W2 ++ ((k1 :: kr) ++ (W3 ++ '(' :: (A ++ ')' :: rest))))) =
      (x :: idr) ++ (w1 ++ '=' :: (w2 ++ ((q1 :: qr) ++ (w3 ++ '(' :: y :: (ops ++ ')' :: s'))))) := by simpa using e
  have hid1 : AllIdC (x :: idr) := IdentL.all ⟨x, idr, rfl, hx, hidr⟩
  -- name
  obtain ⟨en, ea⟩ := span_unique (P := fun z => idC.mem z = true) e' hn hid1
    (starts_append (ws_not_idC hW1) (starts_cons (by decide))) (starts_append (ws_not_idC hw1) (starts_cons (by decide)))
  -- white space, `=`
  obtain ⟨rfl, eb⟩ := span_unique (P := fun z => wsS.mem z = true) ea hW1 hw1 (starts_cons (by decide)) (starts_cons (by decide))
  simp only [List.cons.injEq, true_and] at eb
  -- white space, keyword
  obtain ⟨rfl, ec⟩ := span_unique (P := fun z => wsS.mem z = true) eb hW2 hw2
    (starts_cons (letter_not_ws hK k1 (by simp))) (starts_cons (letter_not_ws hkl.1 q1 (by simp)))
  obtain ⟨ek, ed⟩ := span_unique (P := isLetter) ec hK hkl.1
    (starts_append (ws_not_letter hW3) (starts_cons (by decide))) (starts_append (ws_not_letter hw3) (starts_cons (by decide)))
  -- white space, `(`
  obtain ⟨rfl, ee⟩ := span_unique (P := fun z => wsS.mem z = true) ed hW3 hw3 (starts_cons (by decide)) (starts_cons (by decide))
  simp only [List.cons.injEq, true_and] at ee
  -- operands
  have ef : A ++ ')' :: rest = (y :: ops) ++ ')' :: s' := by simpa using ee
  obtain ⟨eA, e''⟩ := span_unique (P := fun z => z ≠ ')') ef (fun z hz hh => hA (hh ▸ hz))
    (by
      intro z hz
      rcases List.mem_cons.mp hz with rfl | hz
      · exact ne_of_nrp hy
      · exact ne_of_nrp (hops z hz))
    (starts_cons (by simp)) (starts_cons (by simp))
  simp only [List.cons.injEq, true_and] at e''
  subst e'' eA en
  rw [← ek] at hkw
  refine ⟨hkw, rfl, by simp, ?_⟩
  rw [hc, ← ek]
  simp [gateCapsF]

theorem gate_successF (hk : KwsOK kws) {n W1 W2 K W3 A rest : List Char} (hn : IdentL n) (hW1 : AllWs W1)
    (hW2 : AllWs W2) (hW3 : AllWs W3) (hK : K ∈ kws) (hA : ')' ∉ A) (hA0 : A ≠ []) :
    Den ctx (rxGate kws) (n ++ (W1 ++ '=' :: (W2 ++ (K ++ (W3 ++ '(' :: (A ++ ')' :: rest)))))) [] rest
      (gateCapsF ctx n W1 W2 K W3 A rest) := by
  obtain ⟨x, r, rfl, hx, hr⟩ := hn
  obtain ⟨y, ops, rfl⟩ := List.exists_cons_of_ne_nil hA0
  rw [den_rxGate ctx kws hk.1]
  have hnrp : ∀ z ∈ y :: ops, nrp.mem z = true := fun z hz => nrp_of_ne (fun hh => hA (hh ▸ hz))
  exact ⟨x, r, W1, W2, K, W3, y, ops, hK, hW1, hW2, hW3, hx, hr, hnrp y (by simp),
    fun z hz => hnrp z (by simp [hz]), by simp, by simp [gateCapsF]⟩

/-- no match of a gate/DFF pattern inside a line whose keyword is not one of the pattern's -/
theorem gate_miss_lineF (hk : KwsOK kws) {n W1 W2 K W3 A u t rest s' : List Char} {c' : Caps} (hn : AllIdC n)
    (hW1 : AllWs W1) (hW2 : AllWs W2) (hW3 : AllWs W3) (hK : AllLetter K) (hK0 : K ≠ []) (hA : AllArgF A) (hnk : K ∉ kws)
    (hu : u ++ t = n ++ (W1 ++ '=' :: (W2 ++ (K ++ (W3 ++ '(' :: (A ++ [')'])))))) (ht : t ≠ []) :
    ¬ Den ctx (rxGate kws) (t ++ rest) [] s' c' := by
  have hAp : ')' ∉ A := fun hm => (argF_ne (hA _ hm)).2.1 rfl
  rcases suf_append hu with ⟨n', ⟨u', hn'⟩, e⟩ | ⟨u', e⟩
  · rw [e]
    intro h
    have : (n' ++ (W1 ++ '=' :: (W2 ++ (K ++ (W3 ++ '(' :: (A ++ [')'])))))) ++ rest =
        n' ++ (W1 ++ '=' :: (W2 ++ (K ++ (W3 ++ '(' :: (A ++ ')' :: rest))))) := by simp
    rw [this] at h
    exact hnk (gate_alignF ctx hk (fun z hz => hn z (mem_of_suf hn' hz)) hW1 hW2 hW3 hK hK0 hAp h).1
  · rcases suf_append e with ⟨W1', ⟨u2, hW1'⟩, e2⟩ | ⟨u2, e2⟩
    · rw [e2]
      cases W1' with
      | nil => exact gate_first ctx hk (by decide)
      | cons z W1' =>
        exact gate_first ctx hk (idS_false_of_not_idC (ws_ne' (hW1 z (mem_of_suf hW1' (by simp)))).2.2.2)
    · rcases suf_cons e2 with rfl | ⟨u3, e3⟩
      · exact gate_first ctx hk (by decide)
      · have e' : u3 ++ t = (W2 ++ (K ++ (W3 ++ '(' :: A))) ++ [')'] := by rw [e3]; simp
        refine gate_miss_noeq ctx hk ?_ e' ht
        intro hm
        simp only [List.mem_cons, List.mem_append] at hm
        rcases hm with hm | hm | hm | hm | hm
        · exact (ws_ne (hW2 _ hm)).2.2 rfl
        · exact absurd (hK _ hm) (by decide)
        · exact (ws_ne (hW3 _ hm)).2.2 rfl
        · exact absurd hm (by decide)
        · exact (argF_ne (hA _ hm)).2.2 rfl
end

end BenchText
end CG
