/- C18 total correctness helpers: one round of the chained-copies loop of `acyclic_unroll` succeeds and keeps the
   circuit dot-free and acyclic -/
import CG.Proofs.AcycOkBase
set_option linter.unusedSimpArgs false
set_option linter.unusedVariables false
namespace CG
namespace AU
open Circuit Query

/-- what the success proof needs to know about `c_cut` and the shared inputs -/
structure LoopReq (acyc0 cCut : Circuit) (sp F : List Name) : Prop where
  bbs : cCut.bbs = []
  nodots : LintLink.NoDots cCut
  typed : ∀ p ∈ cCut.nodes, ∃ t, p.2.ty = some t
  spIn : ∀ n ∈ sp, n ∈ cCut.inputs
  spNodup : sp.Nodup
  inFanin : ∀ n ∈ cCut.inputs, cCut.fanin n = []
  spTy : ∀ n ∈ sp, acyc0.ty? n = some "input"
  clash : ∀ i n, cCut.has n = true → acyc0.has (pref (cn i) n) = false
  fbTy : ∀ f ∈ F, ∃ t, cCut.ty? f = some t ∧ t ≠ "bb_input" ∧ t ≠ "bb_output"
  fbNotAux : ∀ f ∈ F, f ∉ F.map aux
  acyc : Acyclic cCut

/-- the extra invariants of the success proof -/
structure LoopX (cCut : Circuit) (F : List Name) (m : Nat) (A : Circuit) : Prop where
  nodots : LintLink.NoDots A
  acyc : Acyclic A
  aux0 : 0 < m → ∀ f ∈ F, A.fanin (pref (cn 0) (aux f)) = []

theorem hasDot_cn (i : Nat) : hasDot (cn i) = false := by
  unfold cn
  rw [LintLink.hasDot_append, LintLink.hasDot_toString]
  decide

variable {acyc0 cCut : Circuit} {sp F : List Name}

theorem typed_ty (Q : LoopReq acyc0 cCut sp F) (R : SubReq cCut sp F) {n : Name} (hn : cCut.has n = true) :
    ∃ t, cCut.ty? n = some t := by
  obtain ⟨a, ha⟩ := has_exists hn
  obtain ⟨t, ht⟩ := Q.typed _ ha
  exact ⟨t, by rw [Arith.ty?_of_mem R.wf.nodup ha]; exact ht⟩

/-- the copy `m` is fresh -/
theorem loop_fresh (Q : LoopReq acyc0 cCut sp F) {m : Nat} {A : Circuit} (I : LoopInv acyc0 cCut sp F m A) :
    ∀ n, cCut.has n = true → A.has (pref (cn m) n) = false := by
  intro n hn
  cases hh : A.has (pref (cn m) n) with
  | false => rfl
  | true =>
    rcases (I.has _).1 hh with h1 | ⟨i, hi, n', hn', e⟩
    · rw [Q.clash m n hn] at h1; cases h1
    · have := (Arith.pref_idx_inj "c" (i := m) (j := i) e).1
      omega

/-- every edge after round `m` is an old edge, an edge from an old node into the new copy, or a copied edge -/
theorem loop_edge_cases (R : SubReq cCut sp F) (Q : LoopReq acyc0 cCut sp F) {m : Nat} {A A2 : Circuit}
    (I : LoopInv acyc0 cCut sp F m A) (I2 : LoopInv acyc0 cCut sp F (m + 1) A2) (kA : Keeps A A2)
    (haux0 : ∀ f ∈ F, A2.fanin (pref (cn 0) (aux f)) = []) :
    ∀ e ∈ A2.edges, e ∈ A.edges ∨ (A.has e.1 = true ∧ A.has e.2 = false) ∨
      (∃ e0 ∈ cCut.edges, e = (pref (cn m) e0.1, pref (cn m) e0.2)) := by
  intro e he
  have hfi : e.1 ∈ A2.fanin e.2 := mem_fanin.2 he
  by_cases hA : A.has e.2 = true
  · left
    rw [(kA e.2 hA (by simp)).2.2] at hfi
    exact mem_fanin.1 hfi
  · have hA' : A.has e.2 = false := by simpa using hA
    right
    have h2 := (I2.wf.closed e he).2
    rcases (I2.has e.2).1 h2 with h0 | ⟨i, hi, n, hn, en⟩
    · exact absurd (I.keeps0 _ h0 (by simp)).1 hA
    · have him : i = m := by
        by_cases h : i < m
        · exact absurd ((I.has e.2).2 (Or.inr ⟨i, h, n, hn, en⟩)) hA
        · omega
      subst him
      have C := I2.copy i (Nat.lt_succ_self i)
      obtain ⟨t, ht⟩ := typed_ty Q R hn
      by_cases haux : n ∈ F.map aux
      · obtain ⟨f, hf, rfl⟩ := List.mem_map.1 haux
        left
        by_cases hi0 : 0 < i
        · have g := C.2.2 hi0 f hf
          rw [en, g.2] at hfi
          simp only [List.mem_singleton] at hfi
          obtain ⟨tf, htf, _⟩ := Q.fbTy f hf
          refine ⟨?_, hA'⟩
          rw [hfi]
          exact (I.has _).2 (Or.inr ⟨i - 1, by omega, f, has_of_ty? htf, rfl⟩)
        · have : i = 0 := by omega
          subst this
          rw [en, haux0 f hf] at hfi
          cases hfi
      · by_cases hti : t = "input"
        · subst hti
          have hin : n ∈ cCut.inputs := (CG.mem_inputs R.wf.nodup n).2 ht
          have g := C.2.1 n hin
          rw [en, g.2] at hfi
          simp only [List.mem_singleton] at hfi
          left
          refine ⟨?_, hA'⟩
          rw [hfi]
          exact (I.keeps0 n (has_of_ty? (Q.spTy n (R.inSp n hin))) (by simp)).1
        · have g := C.1 n t ht hti haux
          rw [en, g.2] at hfi
          obtain ⟨u, hu, eu⟩ := List.mem_map.1 hfi
          right
          refine ⟨(u, n), mem_fanin.1 hu, ?_⟩
          show e = (pref (cn i) u, pref (cn i) n)
          rw [eu, ← en]

theorem loop_acyclic (R : SubReq cCut sp F) (Q : LoopReq acyc0 cCut sp F) {m : Nat} {A A2 : Circuit}
    (I : LoopInv acyc0 cCut sp F m A) (hA : Acyclic A)
    (hE : ∀ e ∈ A2.edges, e ∈ A.edges ∨ (A.has e.1 = true ∧ A.has e.2 = false) ∨
      (∃ e0 ∈ cCut.edges, e = (pref (cn m) e0.1, pref (cn m) e0.2))) : Acyclic A2 := by
  have hcl := loop_fresh Q I
  rw [Sens.acyclic_iff_acycOn]
  apply Sens.AcycOn.glue (fun z => A.has z = true)
  · apply Sens.AcycOn.of_rank hA
    intro e he h1 h2
    rcases hE e he with h | ⟨_, h⟩ | ⟨e0, he0, rfl⟩
    · exact h
    · rw [h2.2] at h; cases h
    · have := hcl e0.2 (R.wf.closed e0 he0).2
      rw [h2.2] at this; cases this
  · apply Sens.AcycOn.image (pref (cn m)) (fun y => cCut.has y = true) cCut.edges Q.acyc
      (fun a b _ _ e => pref_inj _ e)
    intro e he h1 h2
    rcases hE e he with h | ⟨h, _⟩ | ⟨e0, he0, rfl⟩
    · exact absurd (I.wf.closed e h).1 h1.2
    · exact absurd h h1.2
    · exact ⟨e0, he0, (R.wf.closed e0 he0).1, (R.wf.closed e0 he0).2, rfl⟩
  · intro e he _ _ h1 h2
    rcases hE e he with h | ⟨h, _⟩ | ⟨e0, he0, rfl⟩
    · exact h1 (I.wf.closed e h).1
    · exact h1 h
    · have := hcl e0.2 (R.wf.closed e0 he0).2
      rw [h2] at this; cases this

theorem ok_loop_step (R : SubReq cCut sp F) (Q : LoopReq acyc0 cCut sp F) {m : Nat} {A : Circuit}
    (I : LoopInv acyc0 cCut sp F m A) (X : LoopX cCut F m A) :
    ∃ A2, loopBody cCut sp F A m = .ok A2 ∧ LoopX cCut F (m + 1) A2 := by
  have hcl := loop_fresh Q I
  obtain ⟨A1, h1⟩ := addSub_ins_ok I.wf R.wf (cn m) sp Q.bbs hcl Q.typed (by
      intro q hq
      refine ⟨Q.spIn q hq, Q.inFanin q (Q.spIn q hq), "input", ?_, by decide, by decide⟩
      rw [(I.keeps0 q (has_of_ty? (Q.spTy q hq)) (by simp)).2.1]
      exact Q.spTy q hq) Q.spNodup
  have e1 : liftO (A.addSubcircuit cCut ("c" ++ toString m) (sp.map (fun n => (n, [n])))) = .ok A1 := by
    show liftO (A.addSubcircuit cCut (cn m) (sp.map (fun n => (n, [n]))) true) = .ok A1
    rw [h1]; rfl
  obtain ⟨w1, k1, t1, o1, _, g1, g2, hh1, hsp⟩ := loop_sub R I.wf h1
  have hA1d : LintLink.NoDots A1 := LintLink.NoDots.addSub X.nodots Q.nodots (hasDot_cn m) e1
  have hdisj : ∀ n ∈ F.map (fun f => pref (cn m) (aux f)), A.has n = false := by
    intro n hn
    obtain ⟨f, hf, rfl⟩ := List.mem_map.1 hn
    exact hcl (aux f) (has_of_ty? (R.auxTy f hf))
  have hauxg : ∀ f ∈ F, Gate A1 (pref (cn m) (aux f)) "buf" [] := by
    intro f hf
    have := g1 (aux f) "buf" (R.auxTy f hf) (by decide)
    rw [R.auxFanin f hf] at this
    exact this
  by_cases hm : m > 0
  · -- chaining connects
    have hnd : (F.map (fun f => pref (cn m) (aux f))).Nodup :=
      nodup_map_of_inj R.nodupF (fun x _ y _ e => aux_inj (pref_inj _ e))
    obtain ⟨A2, h2⟩ := ok_connectFold (fun f => pref (cn (m - 1)) f) (fun f => pref (cn m) (aux f)) F A1 w1 hnd
      (fun f hf => hauxg f hf)
      (by
        intro f hf
        obtain ⟨t, ht, hb1, hb2⟩ := Q.fbTy f hf
        have C := I.copy (m - 1) (by omega)
        by_cases hti : t = "input"
        · subst hti
          have g := (C.2.1 f ((CG.mem_inputs R.wf.nodup f).2 ht)).keep k1 (by simp)
          exact ⟨"buf", g.1, by decide, by decide⟩
        · have g := (C.1 f t ht hti (Q.fbNotAux f hf)).keep k1 (by simp)
          exact ⟨t, g.1, hb1, hb2⟩)
    have hEq : loopBody cCut sp F A m = .ok A2 := by
      unfold loopBody
      rw [e1, Miter.ok_bind, if_pos hm, ← h2]
      congr 1
      funext a f
      rw [auxName]
      rfl
    have I2 := loop_step R I hEq
    obtain ⟨b1, b2, b3, b4⟩ := connectFold _ _ F A1 A2 h2 w1 hnd (fun f hf => (hauxg f hf).1)
    have kA : Keeps A A2 := Keeps.comp k1 b3 hdisj
    have haux0 : ∀ f ∈ F, A2.fanin (pref (cn 0) (aux f)) = [] := by
      intro f hf
      have hh : A.has (pref (cn 0) (aux f)) = true :=
        (I.has _).2 (Or.inr ⟨0, hm, aux f, has_of_ty? (R.auxTy f hf), rfl⟩)
      rw [(kA _ hh (by simp)).2.2]
      exact X.aux0 hm f hf
    refine ⟨A2, hEq, ?_, ?_, fun _ => haux0⟩
    · exact LintLink.foldlM_inv LintLink.NoDots _ (fun a b a' ha hr => LintLink.NoDots.connect ha hr) F A1 A2 hA1d h2
    · exact loop_acyclic R Q I X.acyc (loop_edge_cases R Q I I2 kA haux0)
  · have hm0 : m = 0 := by omega
    subst hm0
    obtain ⟨A2, h2⟩ := ok_setTypeFold (fun f => pref (cn 0) (aux f)) F A1 (fun f hf => (hauxg f hf).has)
    have hEq : loopBody cCut sp F A 0 = .ok A2 := by
      unfold loopBody
      rw [e1, Miter.ok_bind, if_neg hm, ← h2]
      congr 1
    have I2 := loop_step R I hEq
    obtain ⟨b1, b2, b3, b4, b5, b6⟩ := setTypeFold _ F A1 A2 h2 w1
    have kA : Keeps A A2 := Keeps.comp k1 b2 hdisj
    have haux0 : ∀ f ∈ F, A2.fanin (pref (cn 0) (aux f)) = [] := by
      intro f hf
      rw [fanin_congr b3]
      exact (hauxg f hf).2
    refine ⟨A2, hEq, ?_, ?_, fun _ => haux0⟩
    · apply LintLink.foldlM_inv LintLink.NoDots _ _ F A1 A2 hA1d h2
      intro a b a' ha hr
      obtain ⟨_, e⟩ := setType_ok (liftO_ok hr)
      subst e
      exact ha.of_sub rfl (fun g hg => by rw [setTyRaw_has] at hg; exact hg)
    · exact loop_acyclic R Q I X.acyc (loop_edge_cases R Q I I2 kA haux0)

theorem ok_loop_all (R : SubReq cCut sp F) (Q : LoopReq acyc0 cCut sp F)
    (h0 : LoopInv acyc0 cCut sp F 0 acyc0) (x0 : LoopX cCut F 0 acyc0) :
    ∀ m : Nat, ∃ A, (List.range m).foldlM (loopBody cCut sp F) acyc0 = .ok A ∧
      LoopInv acyc0 cCut sp F m A ∧ LoopX cCut F m A := by
  intro m
  induction m with
  | zero => exact ⟨acyc0, rfl, h0, x0⟩
  | succ m ih =>
    obtain ⟨A, hA, I, X⟩ := ih
    obtain ⟨A2, h2, X2⟩ := ok_loop_step R Q I X
    refine ⟨A2, ?_, loop_step R I h2, X2⟩
    rw [List.range_succ, List.foldlM_append, hA, Miter.ok_bind, List.foldlM_cons, h2]
    rfl

end AU
end CG
