/- C17 (algorithm) helpers, part 17: every gate of an output cone is internal to a supergate of the minimal cover -/
import CG.Proofs.SGAlgoClaim
import CG.Proofs.SGAlgoFound
set_option linter.unusedSectionVars false
set_option linter.unusedVariables false
set_option linter.unusedSimpArgs false
namespace CG
namespace SGA
open Query Supergates Q

theorem drivenIn_congr (c2 : Circuit) {S S' : List Name} (h : setEq S S' = true) (n : Name) :
    drivenIn c2 S n = drivenIn c2 S' n := by
  have hs := (SG.setEq_iff S S').mp h
  rw [Bool.eq_iff_iff, drivenIn_iff, drivenIn_iff]
  constructor
  · rintro ⟨x, he, hx, hn⟩; exact ⟨x, he, (hs x).mp hx, (hs n).mp hn⟩
  · rintro ⟨x, he, hx, hn⟩; exact ⟨x, he, (hs x).mpr hx, (hs n).mpr hn⟩

/-- two circuits built on the same node set have the same internal nodes -/
theorem internal_congr (c2 : Circuit) (o h o' h' : Name) {S S' : List Name} (hs : setEq S S' = true) (n : Name) :
    n ∈ internal (sgCircuit c2 o h S) ↔ n ∈ internal (sgCircuit c2 o' h' S') := by
  rw [mem_sg_internal, mem_sg_internal, (SG.setEq_iff S S').mp hs n]
  unfold sgTy
  rw [drivenIn_congr c2 hs n]

/-- a node that is neither an input nor a constant nor a blackbox output has a fan-in -/
theorem exists_fanin (c2 : Circuit) (hc : LintClean c2) {n t : Name} (ht : c2.ty? n = some t)
    (hts : t ∈ Expected.supported_types) (h0 : t ≠ "0") (h1 : t ≠ "1") (hx : t ≠ "x") (hi : t ≠ "input")
    (hb : t ≠ "bb_output") : ∃ y, (y, n) ∈ c2.edges := by
  have hlen : 1 ≤ (c2.fanin n).length := by
    have hts' : t ∈ ["buf", "and", "or", "xor", "not", "nand", "nor", "xnor", "0", "1", "x", "input", "bb_input",
        "bb_output"] := hts
    simp only [List.mem_cons, List.not_mem_nil, or_false] at hts'
    rcases hts' with h | h | h | h | h | h | h | h | h | h | h | h | h | h
    · have := hc.single n t ht (by rw [h]; decide); omega
    · exact hc.multi n t ht (by rw [h]; decide)
    · exact hc.multi n t ht (by rw [h]; decide)
    · exact hc.multi n t ht (by rw [h]; decide)
    · have := hc.single n t ht (by rw [h]; decide); omega
    · exact hc.multi n t ht (by rw [h]; decide)
    · exact hc.multi n t ht (by rw [h]; decide)
    · exact hc.multi n t ht (by rw [h]; decide)
    · exact absurd h h0
    · exact absurd h h1
    · exact absurd h hx
    · exact absurd h hi
    · have := hc.single n t ht (by rw [h]; decide); omega
    · exact absurd h hb
  match hf : c2.fanin n with
  | [] => rw [hf] at hlen; simp at hlen
  | y :: _ => exact ⟨y, Q.mem_fanin.mp (by rw [hf]; exact List.mem_cons_self)⟩

/-- within one cone: every gate is internal to one of the supergates of the cone -/
theorem exists_internal_in_cone (c2 : Circuit) (hc : LintClean c2) (hac : Acyclic c2)
    (hfi : ∀ n, (c2.fanin n).length ≤ 2) {o n : Name} (ho : c2.has o = true) (hn : n ∈ coneOf c2 o)
    (hi : c2.ty? n ≠ some "input") (hb : c2.ty? n ≠ some "bb_output") :
    ∃ p ∈ coneList c2 o, n ∈ internal (sgCircuit c2 o p.1 p.2) := by
  have hwf := hc.toWF
  have T := treeOK c2 hwf hac o
  -- the head whose supergate contains `n`
  have hhead : ∃ h, HeadOf c2 o h ∧ InS c2 o h n ∧
      (∀ y, (y, n) ∈ c2.edges → InS c2 o h y) := by
    by_cases hnh : HeadOf c2 o n
    · refine ⟨n, hnh, Or.inl rfl, ?_⟩
      intro y he
      exact Or.inr (chain_of_par c2 hwf hac o (cone_fanin c2 hwf hn he) (head_fanins c2 hwf hac o hfi hnh he))
    · have hno : n ≠ o := fun h => hnh ⟨hn, Or.inl h⟩
      have hnf : ¬ 1 < (childrenOf (domChildren c2 o) n).length := fun h => hnh ⟨hn, Or.inr h⟩
      obtain ⟨z, hz, hzc⟩ := exists_head_above T (depthOf c2 o n) n (Nat.le_refl _) hn hno
      exact ⟨z, hz, Or.inr hzc, fun y he => Or.inr (fanins_of_nonfrontier c2 hwf hac o hzc hnf he)⟩
  obtain ⟨h, hh, hnS, hfan⟩ := hhead
  obtain ⟨p, hp, hph⟩ := (coneSGs_spec T).2 h hh
  have X := coneList_ctx c2 hc hac hfi ho hp
  refine ⟨p, hp, ?_⟩
  rw [hph] at X ⊢
  have hnS' : n ∈ p.2 := (X.mem n).mpr hnS
  refine (mem_sg_internal c2 o h p.2 n).mpr ⟨hnS', ?_⟩
  intro hin
  obtain ⟨⟨h0, h1, hx⟩, hnd⟩ := (sgTy_input_iff c2 hc p.2 n).mp hin
  obtain ⟨t, ht, hts⟩ := X.ty_some hnS'
  rw [ht, Option.getD_some] at h0 h1 hx
  obtain ⟨y, he⟩ := exists_fanin c2 hc ht hts h0 h1 hx (fun h => hi (h ▸ ht)) (fun h => hb (h ▸ ht))
  have := (drivenIn_iff c2 p.2 n).mpr ⟨y, he, (X.mem y).mpr (hfan y he), hnS'⟩
  rw [hnd] at this
  cases this

theorem exists_max {α} (r : α → Nat) : ∀ (l : List α), l ≠ [] → ∃ m ∈ l, ∀ x ∈ l, r x ≤ r m
  | [], h => absurd rfl h
  | [a], _ => ⟨a, List.mem_singleton.mpr rfl, fun x hx => by rw [List.mem_singleton.mp hx]; exact Nat.le_refl _⟩
  | a :: b :: l, _ => by
    obtain ⟨m, hm, hmax⟩ := exists_max r (b :: l) (List.cons_ne_nil _ _)
    by_cases hle : r a ≤ r m
    · refine ⟨m, List.mem_cons_of_mem _ hm, ?_⟩
      intro x hx
      rcases List.mem_cons.mp hx with h | h
      · exact h ▸ hle
      · exact hmax x h
    · refine ⟨a, List.mem_cons_self, ?_⟩
      intro x hx
      rcases List.mem_cons.mp hx with h | h
      · exact h ▸ Nat.le_refl _
      · have := hmax x h; omega

/-- a recorded supergate survives the minimal cover if one of its nodes is internal to no supergate with another
    node set -/
theorem mem_minimalCover_of {c2 : Circuit} {fs : List Found} {f : Found} (hf : f ∈ fs) {n' : Name}
    (hn' : n' ∈ f.nodes)
    (hnot : ∀ g ∈ fs, setEq g.nodes f.nodes = false → n' ∉ internal (sgCircuit c2 g.cone g.head g.nodes)) :
    (f, sgCircuit c2 f.cone f.head f.nodes) ∈ minimalCover c2 fs := by
  unfold minimalCover
  refine List.mem_filter.mpr ⟨List.mem_map.mpr ⟨f, hf, rfl⟩, ?_⟩
  refine List.any_eq_true.mpr ⟨n', by rw [sg_nodeNames]; exact hn', ?_⟩
  rw [Bool.not_eq_true', ← Bool.not_eq_true, List.contains_iff_mem]
  intro hm
  obtain ⟨q, hq, hqn⟩ := List.mem_flatMap.mp hm
  obtain ⟨hq1, hq2⟩ := List.mem_filter.mp hq
  obtain ⟨g, hg, rfl⟩ := List.mem_map.mp hq1
  rw [Bool.not_eq_true'] at hq2
  exact hnot g hg hq2 hqn

/-- the minimal cover keeps, for every gate, a supergate to which it is internal -/
theorem cover_main (c2 : Circuit) (hc : LintClean c2) (hac : Acyclic c2) (hfi : ∀ n, (c2.fanin n).length ≤ 2)
    (outs : List Name) (houts : ∀ o ∈ outs, c2.has o = true) {f0 : Found} (hf0 : f0 ∈ allFound c2 outs) {n : Name}
    (hn : n ∈ internal (sgCircuit c2 f0.cone f0.head f0.nodes)) :
    ∃ p ∈ minimalCover c2 (allFound c2 outs), n ∈ internal p.2 := by
  have hwf := hc.toWF
  obtain ⟨rank, hr⟩ := hac
  have hac : Acyclic c2 := ⟨rank, hr⟩
  let cand := (allFound c2 outs).filter
    (fun f => (internal (sgCircuit c2 f.cone f.head f.nodes)).contains n)
  have hcand : ∀ f, f ∈ cand ↔ f ∈ allFound c2 outs ∧ n ∈ internal (sgCircuit c2 f.cone f.head f.nodes) := by
    intro f
    rw [List.mem_filter, List.contains_iff_mem]
  obtain ⟨m, hm, hmax⟩ := exists_max (fun f : Found => rank f.head) cand
    (List.ne_nil_of_mem ((hcand f0).mpr ⟨hf0, hn⟩))
  obtain ⟨hmF, hmn⟩ := (hcand m).mp hm
  have Xm := (allFound_ctx c2 hc hac hfi outs houts hmF).2
  refine ⟨_, mem_minimalCover_of hmF Xm.head_mem ?_, hmn⟩
  intro g hg hsne hint
  have Xg := (allFound_ctx c2 hc hac hfi outs houts hg).2
  by_cases hgh : g.head = m.head
  · have : setEq g.nodes m.nodes = true := by
      rw [SG.setEq_iff]
      intro x
      rw [Xg.intrinsic.mem x, Xm.intrinsic.mem x, hgh]
    rw [this] at hsne
    cases hsne
  · have hne : m.head ≠ g.head := fun h => hgh h.symm
    have hng := internal_of_head_internal Xm.intrinsic Xg.intrinsic hne m.cone g.cone hint hmn
    have hle := hmax g ((hcand g).mpr ⟨hg, hng⟩)
    have hmg : m.head ∈ g.nodes := ((mem_sg_internal c2 g.cone g.head g.nodes m.head).mp hint).1
    have hanc : Anc c2 m.head g.head :=
      (chain_SD c2 hwf hac g.cone (Xg.chain_of_ne hmg hne)).anc hwf (Xg.mem_cone hmg)
    have := Plus.rank_lt rank (fun a b hab => hr (a, b) hab) hanc
    omega

/-- **cover**, with the missing hypothesis made explicit: the node is not typed `bb_output` -/
theorem algo_cover_fixed (c2 : Circuit) (hc : LintClean c2) (hac : Acyclic c2) (hfi : ∀ n, (c2.fanin n).length ≤ 2)
    (outs : List Name) (houts : outs.Perm c2.outputs) {o n : Name} (ho : o ∈ c2.outputs) (hn : AncR c2 n o)
    (hi : c2.ty? n ≠ some "input") (hb : c2.ty? n ≠ some "bb_output") :
    ∃ p ∈ (algo c2 outs).sgs, n ∈ internal p.2 := by
  have hwf := hc.toWF
  have hhas := has_of_outputs c2 hwf houts
  have ho' : o ∈ outs := houts.mem_iff.mpr ho
  obtain ⟨p, hp, hint⟩ := exists_internal_in_cone c2 hc hac hfi (hhas o ho') ((mem_cone c2 hwf o n).mpr hn) hi hb
  obtain ⟨f, hf, hs⟩ := allFound_complete c2 outs ho' hp
  rw [algo_sgs]
  exact cover_main c2 hc hac hfi outs hhas hf ((internal_congr c2 o p.1 f.cone f.head (setEq_symm hs) n).mp hint)

end SGA
end CG
