/- C09 (unroll succeeds): the whole loop and the call; the naming conditions are also necessary -/
import CG.Proofs.UnrollOkStep
set_option linter.unusedSimpArgs false
set_option linter.unusedVariables false
namespace CG
namespace UnrollOk
open Circuit Unroll

section
variable {c : Circuit} {stateIO : List (Name × Name)} {pfx : String} {io : List Name}

theorem loop_succeeds (C : Ctx c stateIO io) (hc : LintClean c) (hbb : c.bbs = [])
    (hpin : PinOK c)
    (hio : ∀ x ∈ io, x ∈ c.io) {n : Nat} (H : NamesOK c pfx io n) : ∀ m, m ≤ n →
    ∃ s, (List.range m).foldlM (Tx.unrollStep c io stateIO pfx) ({}, io.map (fun x => (x, []))) = .ok s
  | 0, _ => ⟨_, rfl⟩
  | m + 1, hm => by
    obtain ⟨s, hs⟩ := loop_succeeds C hc hbb hpin hio H m (by omega)
    obtain ⟨s', hs'⟩ := step_succeeds C hc hbb hpin hio H (show m < n by omega) (loop C m s hs)
    refine ⟨s', ?_⟩
    rw [Arith.foldlM_range_succ, hs]
    exact hs'

end

/-- the guards at the head of `unroll` -/
theorem unroll_eq_loop {c : Circuit} {n : Nat} {stateIO : List (Name × Name)} {pfx : String} {ord : Ord}
    (hbb : c.bbs = []) (hn : 1 ≤ n) (hty : ∀ p ∈ c.nodes, p.2.ty ≠ none)
    (hst : ∀ p ∈ stateIO, p.1 ∈ ord c.io ∧ p.2 ∈ ord c.io) :
    Tx.unroll c n stateIO pfx ord =
      (List.range n).foldlM (Tx.unrollStep c (ord c.io) stateIO pfx) ({}, (ord c.io).map (fun x => (x, []))) := by
  unfold Tx.unroll
  have g1 : ¬ ((!c.bbs.isEmpty) = true) := by rw [hbb]; simp
  have g2 : ¬ n < 1 := by omega
  have g3 : ¬ (c.nodes.any (fun p => p.2.ty.isNone) = true) := by
    rw [List.any_eq_true]
    rintro ⟨p, hp, h⟩
    apply hty p hp
    cases hh : p.2.ty with
    | none => rfl
    | some t => rw [hh] at h; cases h
  have g4 : ¬ (stateIO.any (fun p => !(ord c.io).contains p.1 || !(ord c.io).contains p.2) = true) := by
    rw [List.any_eq_true]
    rintro ⟨p, hp, h⟩
    obtain ⟨h1, h2⟩ := hst p hp
    rw [List.contains_iff_mem.2 h1, List.contains_iff_mem.2 h2] at h
    cases h
  rw [if_neg g1, if_neg g2, if_neg g3]
  show (if stateIO.any (fun p => !(ord c.io).contains p.1 || !(ord c.io).contains p.2) = true then _ else _) = _
  rw [if_neg g4]

/-- **`unroll` returns normally** for a lint-clean, blackbox-free circuit, a legal pairing and at least one step, provided
    every output may be a source of `connect` (`PinOK`) and the per-step names are addable, pairwise distinct and distinct from the
    names of the spliced copies -/
theorem unroll_succeeds (c : Circuit) (n : Nat) (stateIO : List (Name × Name)) (pfx : String) (ord : Ord)
    (hord : ∀ l, (ord l).Perm l) (hc : LintClean c) (hbb : c.bbs = [])
    (hkeys : ∀ p ∈ stateIO, p.1 ∈ c.outputs) (hvals : ∀ p ∈ stateIO, p.2 ∈ c.inputs)
    (hvnd : (stateIO.map (·.2)).Nodup) (hn : 1 ≤ n)
    (hpin : PinOK c)
    (H : NamesOK c pfx (ord c.io) n) :
    ∃ r, Tx.unroll c n stateIO pfx ord = .ok r := by
  have hk : ∀ p ∈ stateIO, p.1 ∈ ord c.io := fun p hp =>
    (hord c.io).mem_iff.2 (mem_union.2 (Or.inr (hkeys p hp)))
  have hv : ∀ p ∈ stateIO, p.2 ∈ ord c.io := fun p hp =>
    (hord c.io).mem_iff.2 (mem_union.2 (Or.inl (hvals p hp)))
  have C : Ctx c stateIO (ord c.io) := ctx_of hord hc.toWF hvals hk hvnd
  rw [unroll_eq_loop hbb hn (fun p hp h => by
    obtain ⟨t, ht, _⟩ := hc.typed p hp
    rw [ht] at h; cases h) (fun p hp => ⟨hk p hp, hv p hp⟩)]
  exact loop_succeeds C hc hbb hpin (fun x hx => (hord c.io).mem_iff.1 hx) H n (Nat.le_refl n)

/-- duplicate-freeness of a concatenation of blocks: every block is duplicate-free and the blocks are disjoint -/
theorem nodup_flatMap_range {α} (f : Nat → List α) : ∀ n, ((List.range n).flatMap f).Nodup →
    (∀ t, t < n → (f t).Nodup) ∧ (∀ t, t < n → ∀ t', t' < n → ∀ a, a ∈ f t → a ∈ f t' → t = t')
  | 0, _ => ⟨fun t ht => by omega, fun t ht => by omega⟩
  | n + 1, h => by
    rw [List.range_succ, List.flatMap_append, List.nodup_append] at h
    obtain ⟨h1, h2, h3⟩ := h
    simp only [List.flatMap_cons, List.flatMap_nil, List.append_nil] at h2 h3
    obtain ⟨i1, i2⟩ := nodup_flatMap_range f n h1
    have cross : ∀ t, t < n → ∀ a, a ∈ f t → a ∈ f n → False := fun t ht a ha hb =>
      h3 a (List.mem_flatMap.2 ⟨t, List.mem_range.2 ht, ha⟩) a hb rfl
    refine ⟨?_, ?_⟩
    · intro t ht
      by_cases htn : t < n
      · exact i1 t htn
      · have : t = n := by omega
        subst this; exact h2
    · intro t ht t' ht' a ha ha'
      by_cases htn : t < n
      · by_cases htn' : t' < n
        · exact i2 t htn t' htn' a ha ha'
        · have : t' = n := by omega
          subst this
          exact (cross t htn a ha ha').elim
      · have : t = n := by omega
        subst this
        by_cases htn' : t' < t
        · exact (cross t' htn' a ha' ha).elim
        · omega

/-- conversely the conditions on the per-step names hold whenever the call succeeds (so they cannot be weakened):
    the names are pairwise distinct and distinct from the copies' names -/
theorem names_of_success (c : Circuit) (n : Nat) (stateIO : List (Name × Name)) (pfx : String) (ord : Ord)
    (hord : ∀ l, (ord l).Perm l) (hc : WF c) (hvals : ∀ p ∈ stateIO, p.2 ∈ c.inputs)
    (hvnd : (stateIO.map (·.2)).Nodup) (r : Tx.UState) (h : Tx.unroll c n stateIO pfx ord = .ok r) :
    (∀ x ∈ ord c.io, ∀ x' ∈ ord c.io, ∀ t, t < n → ∀ t', t' < n → N c pfx x t = N c pfx x' t' → x = x' ∧ t = t') ∧
    (∀ x ∈ ord c.io, ∀ t, t < n → ∀ y, c.has y = true → ∀ j, j < n → N c pfx x t ≠ U j y) := by
  obtain ⟨_, hmem, hloop⟩ := unroll_unfold h
  have C := ctx_of hord hc hvals (fun p hp' => (hmem p hp').1) hvnd
  have I := loop C n _ hloop
  have hnd := I.wf.nodup
  have hnames : r.1.nodeNames = (List.range n).flatMap (fun t =>
      (ord c.io).map (fun x => N c pfx x t) ++ c.nodes.map (fun p => U t p.1)) := by
    unfold nodeNames
    rw [I.nodes, List.map_flatMap]
    congr 1
    funext t
    unfold stepNodes
    rw [List.map_append, List.map_map, List.map_map]
    rfl
  rw [hnames] at hnd
  obtain ⟨inner, key⟩ := nodup_flatMap_range _ n hnd
  constructor
  · intro x hx x' hx' t ht t' ht' e
    have htt : t = t' := key t ht t' ht' (N c pfx x t)
      (List.mem_append.2 (Or.inl (List.mem_map.2 ⟨x, hx, rfl⟩)))
      (List.mem_append.2 (Or.inl (List.mem_map.2 ⟨x', hx', e.symm⟩)))
    subst htt
    exact ⟨inj_of_nodup_map (List.nodup_append.1 (inner t ht)).1 x hx x' hx' e, rfl⟩
  · intro x hx t ht y hy j hj e
    obtain ⟨a, ha⟩ := has_exists hy
    have htj : t = j := key t ht j hj (N c pfx x t)
      (List.mem_append.2 (Or.inl (List.mem_map.2 ⟨x, hx, rfl⟩)))
      (List.mem_append.2 (Or.inr (List.mem_map.2 ⟨(y, a), ha, e.symm⟩)))
    subst htj
    exact (List.nodup_append.1 (inner t ht)).2.2 _ (List.mem_map.2 ⟨x, hx, rfl⟩) _
      (List.mem_map.2 ⟨(y, a), ha, rfl⟩) e

/-! ### deciding the outcome of a concrete call (for the counterexample files) -/

def isValueError (r : E Tx.UState) : Bool :=
  match r with
  | .error .valueError => true
  | _ => false

theorem eq_of_isValueError {r : E Tx.UState} (h : isValueError r = true) : r = .error .valueError := by
  cases r with
  | ok a => simp [isValueError] at h
  | error e => cases e <;> simp [isValueError] at h ⊢

end UnrollOk
end CG
