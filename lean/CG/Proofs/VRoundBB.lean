/- C03 helper: replay of one blackbox instance statement -/
import CG.Proofs.VRoundRead
namespace CG
namespace VR
open Verilog Circuit

def netOf : Option Expr → Option Name
  | some (Expr.id d) => some d
  | _ => none

/-- the connected pins of a named-port list, with their nets -/
def conns0 (ps : List (Name × Option Expr)) : List (Name × Name) :=
  ps.filterMap (fun p => (netOf p.2).map (fun d => (p.1, d)))

def Simple (ps : List (Name × Option Expr)) : Prop := ∀ p ∈ ps, p.2 = none ∨ ∃ d, p.2 = some (Expr.id d)

theorem simple_tail {p : Name × Option Expr} {ps : List (Name × Option Expr)} (h : Simple (p :: ps)) : Simple ps :=
  fun x hx => h x (by simp [hx])

theorem conns0_exprs : ∀ ps, Simple ps → ps.filterMap (·.2) = ((conns0 ps).map (·.2)).map Expr.id
  | [], _ => rfl
  | p :: ps, h => by
    have ih := conns0_exprs ps (simple_tail h)
    obtain ⟨k, e⟩ := p
    rcases h (k, e) (by simp) with h1 | ⟨d, h1⟩
    · simp only at h1; subst h1
      simp only [conns0, netOf, List.filterMap_cons, Option.map_none] at ih ⊢
      exact ih
    · simp only at h1; subst h1
      simp only [conns0, netOf, List.filterMap_cons, Option.map_some, List.map_cons] at ih ⊢
      rw [ih]

theorem conns0_zip : ∀ ps, Simple ps →
    ((ps.filter (·.2.isSome)).map (·.1)).zip ((conns0 ps).map (·.2)) = conns0 ps
  | [], _ => rfl
  | p :: ps, h => by
    have ih := conns0_zip ps (simple_tail h)
    obtain ⟨k, e⟩ := p
    rcases h (k, e) (by simp) with h1 | ⟨d, h1⟩
    · simp only at h1; subst h1
      simp only [conns0, netOf, List.filterMap_cons, Option.map_none, List.filter_cons, Option.isSome_none,
        Bool.false_eq_true, if_false] at ih ⊢
      exact ih
    · simp only at h1; subst h1
      simp only [conns0, netOf, List.filterMap_cons, Option.map_some, List.map_cons, List.filter_cons,
        Option.isSome_some, if_true, List.zip_cons_cons] at ih ⊢
      rw [ih]

/-- the `dict.update` of the connections is the identity when no pin name repeats -/
theorem dedup_fold : ∀ (l acc : List (Name × Name)), ((acc ++ l).map (·.1)).Nodup →
    l.foldl (fun acc p =>
      if (acc.lookup p.1).isSome then acc.map (fun q => if q.1 == p.1 then p else q) else acc ++ [p]) acc = acc ++ l
  | [], acc, _ => by simp
  | p :: l, acc, h => by
    rw [List.foldl_cons]
    have hno : (acc.lookup p.1).isSome = false := by
      cases hl : acc.lookup p.1 with
      | none => rfl
      | some b =>
        exfalso
        have hm := lookup_mem hl
        rw [List.map_append, List.nodup_append] at h
        exact h.2.2 p.1 (List.mem_map.2 ⟨(p.1, b), hm, rfl⟩) p.1 (by simp) rfl
    rw [hno]
    simp only [Bool.false_eq_true, if_false]
    rw [dedup_fold l (acc ++ [p]) (by simpa using h)]
    simp

/-- the three loops of the blackbox branch of `module_instantiation` -/
def loadStep (cs : List (Name × Name)) (st' : TState) (o : Name) : E TState :=
  match cs.lookup o with
  | some net => addNode st' net "buf" [] false >>= fun x => pure x.1
  | none => pure st'

def netStep (c : Circuit) (p : Name × Name) : E Circuit :=
  if c.has p.2 then pure c else Tx.addC c { n := p.2, ty := "buf" }

def bbTail (ord' : Ord) (q : Name × BBox) (cs : List (Name × Name)) (st : TState) : E TState :=
  (ord' q.2.outs).foldlM (loadStep cs) st >>= fun st1 =>
  cs.foldlM netStep st1.c >>= fun c1 =>
  liftO (c1.addBlackbox q.2 q.1 (cs.map (fun p => (p.1, if p.2.isEmpty then [] else [p.2]))) ord') >>= fun c2 =>
  pure { st1 with c := c2 }

theorem doInstance_bb {bbs : List BBox} {ord' : Ord} (st : TState) (q : Name × BBox)
    (ps : List (Name × Option Expr)) (hprim : T.primitive.contains q.2.name = false) (hsimple : Simple ps)
    (hkeys : ((conns0 ps).map (·.1)).Nodup)
    (hfind : bbs.find? (fun b => b.name == q.2.name) = some q.2) :
    doInstance bbs ord' q.2.name st (q.1, Conns.named ps) = bbTail ord' q (conns0 ps) st := by
  unfold doInstance
  rw [if_neg (by rw [hprim]; simp)]
  show (evalExprs st (ps.filterMap (·.2)) >>= fun r =>
        pure (r.1, some ((ps.filter (·.2.isSome)).map (·.1) |>.zip r.2))) >>= _ = _
  rw [conns0_exprs ps hsimple, evalExprs_ids, Arith.bind_ok, pure_bind]
  simp only [hfind]
  rw [conns0_zip ps hsimple, dedup_fold _ [] (by simpa using hkeys)]
  rfl

/-! ### the connections of a written instance statement -/

theorem netOf_eq {e : Option Expr} {d : Name} : netOf e = some d ↔ e = some (Expr.id d) := by
  unfold netOf
  split
  · constructor
    · intro h; injection h with h; rw [h]
    · intro h; injection h with h; injection h with h; rw [h]
  · constructor
    · intro h; cases h
    · intro h; rename_i hne; exact absurd h (hne d)

theorem mem_conns0 {ps : List (Name × Option Expr)} {k d : Name} :
    (k, d) ∈ conns0 ps ↔ (k, some (Expr.id d)) ∈ ps := by
  unfold conns0
  rw [List.mem_filterMap]
  constructor
  · rintro ⟨⟨k', e⟩, hp, h⟩
    simp only [Option.map_eq_some_iff] at h
    obtain ⟨d', h1, h2⟩ := h
    injection h2 with h2 h3
    subst h2; subst h3
    rw [netOf_eq] at h1
    subst h1; exact hp
  · intro hp
    exact ⟨_, hp, by simp [netOf]⟩

theorem conns0_keys_sublist : ∀ ps : List (Name × Option Expr), ((conns0 ps).map (·.1)).Sublist (ps.map (·.1))
  | [] => List.Sublist.slnil
  | p :: ps => by
    have ih := conns0_keys_sublist ps
    unfold conns0 at ih ⊢
    rw [List.filterMap_cons]
    cases h : netOf p.2 with
    | none => simp only [Option.map_none, List.map_cons]; exact List.Sublist.cons _ ih
    | some d => simp only [Option.map_some, List.map_cons]; exact List.Sublist.cons_cons _ ih

structure CS (c : Circuit) (q : Name × BBox) (cs : List (Name × Name)) : Prop where
  keys : (cs.map (·.1)).Nodup
  mem : ∀ p ∈ cs, (p.1 ∈ q.2.ins ∧ (p.2, q.1 ++ "." ++ p.1) ∈ c.edges) ∨
    (p.1 ∈ q.2.outs ∧ (q.1 ++ "." ++ p.1, p.2) ∈ c.edges)
  all_in : ∀ g ∈ q.2.ins, ∀ d, (d, q.1 ++ "." ++ g) ∈ c.edges → (g, d) ∈ cs
  all_out : ∀ g ∈ q.2.outs, ∀ d, (q.1 ++ "." ++ g, d) ∈ c.edges → (g, d) ∈ cs

theorem cs_of_spec {c : Circuit} (hc : Wr c) {q : Name × BBox} (hq : q ∈ c.bbs) {ps : List (Name × Option Expr)}
    (hperm : (ps.map (·.1)).Perm (q.2.ins ++ q.2.outs)) (hcs : ∀ p ∈ ps, ConnSpec c q p) :
    Simple ps ∧ CS c q (conns0 ps) := by
  obtain ⟨pi, po, _, _, _, _, hin, hon, hdisj⟩ := hc.pinsPresent q hq
  have hnd : (ps.map (·.1)).Nodup := by
    rw [hperm.nodup_iff, List.nodup_append]
    exact ⟨hin, hon, fun a ha b hb e => hdisj a ha (e ▸ hb)⟩
  refine ⟨?_, ?_, ?_, ?_, ?_⟩
  · intro p hp
    rcases hcs p hp with ⟨_, d, h, _⟩ | ⟨_, ⟨d, h, _⟩ | ⟨h, _⟩⟩
    · exact Or.inr ⟨d, h⟩
    · exact Or.inr ⟨d, h⟩
    · exact Or.inl h
  · exact (conns0_keys_sublist ps).nodup hnd
  · rintro ⟨k, d⟩ hp
    have hp' := mem_conns0.1 hp
    rcases hcs _ hp' with ⟨h1, d', h2, h3⟩ | ⟨h1, ⟨d', h2, h3⟩ | ⟨h2, _⟩⟩
    · injection h2 with h2; injection h2 with h2
      left; exact ⟨h1, by rw [h2]; exact h3⟩
    · injection h2 with h2; injection h2 with h2
      right; exact ⟨h1, by rw [h2]; exact h3⟩
    · cases h2
  · intro g hg d hd
    have : g ∈ ps.map (·.1) := hperm.mem_iff.2 (List.mem_append_left _ hg)
    obtain ⟨⟨k, e⟩, hp, rfl⟩ := List.mem_map.1 this
    rcases hcs _ hp with ⟨_, d', h2, h3⟩ | ⟨h1, _⟩
    · simp only at h2 h3
      have : d = d' := hc.ws.single _ "bb_input" (pi k hg) (by decide) d d' hd h3
      rw [mem_conns0, this, ← h2]; exact hp
    · exact absurd h1 (hdisj k hg)
  · intro g hg d hd
    have : g ∈ ps.map (·.1) := hperm.mem_iff.2 (List.mem_append_right _ hg)
    obtain ⟨⟨k, e⟩, hp, rfl⟩ := List.mem_map.1 this
    rcases hcs _ hp with ⟨h1, _⟩ | ⟨_, ⟨d', h2, h3⟩ | ⟨_, h3⟩⟩
    · exact absurd hg (hdisj k h1)
    · simp only at h2 h3
      have : d = d' := (hc.ws.bbOut _ d' h3 (po k hg)).2 d hd
      rw [mem_conns0, this, ← h2]; exact hp
    · exact absurd hd (h3 d)

/-! ### the loops -/

/-- the load of an output pin is a `buf` of `c` -/
theorem out_net {c : Circuit} (hc : Wr c) {q : Name × BBox} (hq : q ∈ c.bbs) {cs : List (Name × Name)}
    (hcs : CS c q cs) {p : Name × Name} (hp : p ∈ cs) (ho : p.1 ∈ q.2.outs) :
    (q.1 ++ "." ++ p.1, p.2) ∈ c.edges ∧ c.ty? p.2 = some "buf" ∧ c.has p.2 = true ∧ ¬ PinTy c p.2 := by
  obtain ⟨_, po, _, _, _, _, _, _, hdisj⟩ := hc.pinsPresent q hq
  rcases hcs.mem p hp with ⟨h1, _⟩ | ⟨_, h2⟩
  · exact absurd ho (hdisj _ h1)
  · have hb := (hc.ws.bbOut _ _ h2 (po _ ho)).1
    refine ⟨h2, hb, has_of_ty? hb, ?_⟩
    rintro (h3 | h3) <;> (rw [hb] at h3; injection h3 with h3; revert h3; decide)

/-- the driver of an input pin is a node of `c` that is not a pin -/
theorem in_net {c : Circuit} (hc : Wr c) {q : Name × BBox} (hq : q ∈ c.bbs) {cs : List (Name × Name)}
    (hcs : CS c q cs) {p : Name × Name} (hp : p ∈ cs) (hi : p.1 ∈ q.2.ins) :
    (p.2, q.1 ++ "." ++ p.1) ∈ c.edges ∧ c.has p.2 = true ∧ ¬ PinTy c p.2 := by
  obtain ⟨pi, _, _, _, _, _, _, _, hdisj⟩ := hc.pinsPresent q hq
  rcases hcs.mem p hp with ⟨_, h2⟩ | ⟨h1, _⟩
  · refine ⟨h2, (hc.ws.closed _ _ h2).1, ?_⟩
    rintro (h3 | h3)
    · exact hc.ws.noBBInFanout _ _ h2 h3
    · have := (hc.ws.bbOut _ _ h2 h3).1
      rw [pi _ hi] at this; injection this with this; revert this; decide
  · exact absurd h1 (hdisj _ hi)

theorem net_ok {c : Circuit} (hc : Wr c) {q : Name × BBox} (hq : q ∈ c.bbs) {cs : List (Name × Name)}
    (hcs : CS c q cs) {p : Name × Name} (hp : p ∈ cs) : c.has p.2 = true ∧ ¬ PinTy c p.2 := by
  rcases hcs.mem p hp with ⟨h1, _⟩ | ⟨h1, _⟩
  · exact (in_net hc hq hcs hp h1).2
  · exact (out_net hc hq hcs hp h1).2.2

theorem loadLoop {c : Circuit} (hc : Wr c) {q : Name × BBox} (hq : q ∈ c.bbs) {cs : List (Name × Name)}
    (hcs : CS c q cs) {B : List (Name × BBox)} {D : Name → Prop} :
    ∀ (os : List Name), (∀ o ∈ os, o ∈ q.2.outs) → ∀ st : TState, RInv c st.c B D →
    ∃ st', os.foldlM (loadStep cs) st = .ok st' ∧ RInv c st'.c B D ∧ st'.gateExprs = st.gateExprs
  | [], _, st, h => ⟨st, rfl, h, rfl⟩
  | o :: os, ho, st, h => by
    rw [List.foldlM_cons]
    unfold loadStep
    cases hl : cs.lookup o with
    | none =>
      simp only []
      rw [pure_bind]
      exact loadLoop hc hq hcs os (fun x hx => ho x (by simp [hx])) st h
    | some net =>
      simp only []
      have hm : (o, net) ∈ cs := lookup_mem hl
      obtain ⟨_, hb, hn, hnp⟩ := out_net hc hq hcs hm (ho o (by simp))
      obtain ⟨c', e, hr, _⟩ := rinv_add (D' := D) (F := []) (ty := "buf") hc h hn hnp
        (fty_of hb buf_not_const).symm
        (fun x => ⟨Or.inl, fun h1 => h1.elim id (fun h2 => h2.1 ▸ h2.2)⟩)
        (fun u => ⟨fun h1 => (nomatch h1), fun h1 => absurd h1.1 h1.2.1⟩)
        (fun u hu => nomatch hu) (fun _ => by simp) (fun h1 => absurd h1 (by decide))
      rw [addNode_ok e, Arith.bind_ok, pure_bind]
      obtain ⟨st', e', hr', hg'⟩ := loadLoop hc hq hcs os (fun x hx => ho x (by simp [hx])) { st with c := c' } hr
      exact ⟨st', e', hr', hg'⟩

theorem addC_plain {t : Circuit} {n ty : String} (hfresh : t.has n = false) (hname : Limit.NameOK n)
    (hty : ty ∈ Expected.supported_types) :
    Tx.addC t { n := n, ty := ty } = .ok (t.addNodeAttr n { ty := some ty, out := some false }) := by
  unfold Tx.addC addE
  rw [add_plain_ok t n ty hfresh hname hty]
  rfl

theorem netLoop {c : Circuit} (hc : Wr c) {q : Name × BBox} (hq : q ∈ c.bbs) {cs : List (Name × Name)}
    (hcs : CS c q cs) {B : List (Name × BBox)} {D : Name → Prop} :
    ∀ (l : List (Name × Name)), (∀ p ∈ l, p ∈ cs) → ∀ c0 : Circuit, RInv c c0 B D →
    ∃ c1, l.foldlM netStep c0 = .ok c1 ∧ RInv c c1 B D ∧ (∀ p ∈ l, c1.has p.2 = true) ∧
      (∀ x, c0.has x = true → c1.has x = true)
  | [], _, c0, h => ⟨c0, rfl, h, fun _ hp => (nomatch hp), fun _ hx => hx⟩
  | p :: l, hl, c0, h => by
    rw [List.foldlM_cons]
    unfold netStep
    obtain ⟨hn, hnp⟩ := net_ok hc hq hcs (hl p (by simp))
    by_cases hh : c0.has p.2 = true
    · rw [if_pos hh, pure_bind]
      obtain ⟨c1, e1, h1, h2, h3⟩ := netLoop hc hq hcs l (fun x hx => hl x (by simp [hx])) c0 h
      refine ⟨c1, e1, h1, ?_, h3⟩
      intro x hx
      rcases List.mem_cons.1 hx with rfl | hx
      · exact h3 _ hh
      · exact h2 x hx
    · rw [if_neg hh]
      have hf : c0.has p.2 = false := by simpa using hh
      rw [addC_plain hf (hc.pname' hn hnp).nameOK (by decide), Arith.bind_ok]
      obtain ⟨c1, e1, h1, h2, h3⟩ := netLoop hc hq hcs l (fun x hx => hl x (by simp [hx])) _
        (rinv_fresh hc h hn hnp hf)
      refine ⟨c1, e1, h1, ?_, ?_⟩
      · intro x hx
        rcases List.mem_cons.1 hx with rfl | hx
        · exact h3 _ (by rw [addNodeAttr_has]; simp)
        · exact h2 x hx
      · intro x hx
        exact h3 x (by rw [addNodeAttr_has, hx]; rfl)

/-! ### `add_blackbox` -/

theorem pair_eq_of_key {cs : List (Name × Name)} (hk : (cs.map (·.1)).Nodup) {p p' : Name × Name} (hp : p ∈ cs)
    (hp' : p' ∈ cs) (e : p.1 = p'.1) : p = p' := by
  have h1 : cs.lookup p.1 = some p.2 := lookup_of_mem_nodup hk hp
  have h2 : cs.lookup p'.1 = some p'.2 := lookup_of_mem_nodup hk hp'
  rw [e, h2] at h1
  injection h1 with h1
  exact Prod.ext e h1.symm

theorem bbFinish {c : Circuit} (hc : Wr c) {q : Name × BBox} (hq : q ∈ c.bbs) {cs : List (Name × Name)}
    (hcs : CS c q cs) {B : List (Name × BBox)} {D : Name → Prop} {c1 : Circuit} (h : RInv c c1 B D)
    (hnets : ∀ p ∈ cs, c1.has p.2 = true)
    (hB : B.lookup q.1 = none)
    (hDp : ∀ g ∈ q.2.ins ++ q.2.outs, ¬ D (q.1 ++ "." ++ g))
    (hDio : ∀ x, D x → c.ty? x = some "input" ∨ PinTy c x)
    {ord' : Ord} (hord' : OrdOK ord') :
    ∃ c2, c1.addBlackbox q.2 q.1 (cs.map (fun p => (p.1, if p.2.isEmpty then [] else [p.2]))) ord' = (c2, .ok) ∧
      RInv c c2 (B ++ [q]) (fun x => D x ∨ ∃ g ∈ q.2.ins ++ q.2.outs, x = q.1 ++ "." ++ g) := by
  obtain ⟨pi, po, pn, _, _, _, hin, hon, hdisj⟩ := hc.pinsPresent q hq
  have pty : ∀ g ∈ q.2.ins ++ q.2.outs, PinTy c (q.1 ++ "." ++ g) := by
    intro g hg
    rcases List.mem_append.1 hg with hg | hg
    · exact Or.inl (pi g hg)
    · exact Or.inr (po g hg)
  have hfresh : ∀ g ∈ q.2.ins ++ q.2.outs, c1.has (q.1 ++ "." ++ g) = false := by
    intro g hg
    cases hh : c1.has (q.1 ++ "." ++ g) with
    | false => rfl
    | true => exact absurd (h.pin _ hh (pty g hg)) (hDp g hg)
  have hDnet : ∀ p ∈ cs, p.1 ∈ q.2.outs → ¬ D p.2 := by
    intro p hp ho hd
    obtain ⟨_, hb, _, hnp⟩ := out_net hc hq hcs hp ho
    rcases hDio _ hd with h1 | h1
    · rw [hb] at h1; injection h1 with h1; revert h1; decide
    · exact hnp h1
  obtain ⟨c2, e, _, hbbs, hwf, hhas, hold, hai, hao, hed⟩ := addBlackbox_ok c1 q.2 q.1 cs ord' hord' h.wf
    (by rw [h.bbs]; exact hB) pn.nameOK hin hon hdisj hfresh hcs.keys
    (by
      intro p hp
      rcases hcs.mem p hp with ⟨h1, _⟩ | ⟨h1, _⟩
      · exact List.mem_append_left _ h1
      · exact List.mem_append_right _ h1)
    (by
      intro p hp
      obtain ⟨h1, h2⟩ := net_ok hc hq hcs hp
      exact (hc.pname' h1 h2).1)
    (by
      intro p hp hi
      exact h.typed hc (hnets p hp) (Or.inr (net_ok hc hq hcs hp).2))
    (by
      intro p hp ho
      obtain ⟨hedge, hb, hn, hnp⟩ := out_net hc hq hcs hp ho
      constructor
      · obtain ⟨a, ha⟩ := Limit.attr_of_has (hnets p hp)
        obtain ⟨_, hty⟩ := h.attr _ a ha (hc.not_tie hn)
        rw [fty_of hb buf_not_const, or_self] at hty
        rw [Ternary.ty_of_attr ha, hty]
      · apply Ternary.fanin_nil_of
        intro e he hen
        obtain ⟨ce, hd⟩ := (h.edges e).1 he
        rcases hd with hd | ⟨hd, hbo⟩
        · rw [hen] at hd; exact hDnet p hp ho hd
        · rcases ce with ce | ⟨t, ht, h1, _⟩
          · have ce' : (e.1, p.2) ∈ c.edges := by rw [← hen]; exact ce
            have : e.1 = q.1 ++ "." ++ p.1 := hc.ws.single _ "buf" hb (by decide) _ _ ce' hedge
            rw [this] at hd
            exact hDp _ (List.mem_append_right _ ho) hd
          · rw [hen, hb] at h1; injection h1 with h1
            rw [← h1] at ht; exact buf_not_const ht)
    (by
      intro p hp p' hp' ho ho' e
      obtain ⟨e1, hb, _, _⟩ := out_net hc hq hcs hp ho
      obtain ⟨e2, _, _, _⟩ := out_net hc hq hcs hp' ho'
      rw [← e] at e2
      have := hc.ws.single _ "buf" hb (by decide) _ _ e1 e2
      exact pair_eq_of_key hcs.keys hp hp' (pin_inj_right this))
  refine ⟨c2, e, ?_⟩
  have hmono : ∀ x, c1.has x = true → c2.has x = true := fun x hx => (hhas x).2 (Or.inl hx)
  have hnew : ∀ g ∈ q.2.ins ++ q.2.outs, c2.attr? (q.1 ++ "." ++ g) =
      some { ty := some (fty c (q.1 ++ "." ++ g)), out := some false } := by
    intro g hg
    rcases List.mem_append.1 hg with hg | hg
    · rw [hai g hg, fty_of (pi g hg) (by decide)]
    · rw [hao g hg, fty_of (po g hg) (by decide)]
  constructor
  · exact hwf
  · rw [hbbs, h.bbs]
  · intro x hx
    rcases (hhas x).1 hx with h1 | ⟨g, hg, rfl⟩
    · exact h.sub x h1
    · right
      rcases pty g hg with h2 | h2 <;> exact has_of_ty? h2
  · intro x a ha hxt
    by_cases hx : c1.has x = true
    · rw [hold x hx] at ha; exact h.attr x a ha hxt
    · rcases (hhas x).1 (Limit.has_of_attr ha) with h1 | ⟨g, hg, rfl⟩
      · exact absurd h1 hx
      · rw [hnew g hg] at ha
        injection ha with ha; subst ha
        exact ⟨rfl, Or.inr rfl⟩
  · intro t ht
    rw [hold _ (Limit.has_of_attr (h.tie t ht))]
    exact h.tie t ht
  · intro x hx
    rcases hx with hx | ⟨g, hg, rfl⟩
    · have := h.dty x hx
      unfold Circuit.ty? at this ⊢
      rw [hold x (has_of_ty? (h.dty x hx))]
      exact this
    · rw [Ternary.ty_of_attr (hnew g hg)]
  · intro x hx hp
    rcases (hhas x).1 hx with h1 | h1
    · exact Or.inl (h.pin x h1 hp)
    · exact Or.inr h1
  · intro e'
    rw [hed, h.edges]
    constructor
    · rintro (⟨h1, h2⟩ | ⟨p, hp, ⟨hi, rfl⟩ | ⟨ho, rfl⟩⟩)
      · refine ⟨h1, ?_⟩
        rcases h2 with h2 | ⟨h2, h3⟩
        · exact Or.inl (Or.inl h2)
        · exact Or.inr ⟨Or.inl h2, h3⟩
      · exact ⟨Or.inl (in_net hc hq hcs hp hi).1, Or.inl (Or.inr ⟨p.1, List.mem_append_left _ hi, rfl⟩)⟩
      · exact ⟨Or.inl (out_net hc hq hcs hp ho).1,
          Or.inr ⟨Or.inr ⟨p.1, List.mem_append_right _ ho, rfl⟩, po _ ho⟩⟩
    · rintro ⟨h1, h2 | ⟨h2, h3⟩⟩
      · rcases h2 with h2 | ⟨g, hg, h2⟩
        · exact Or.inl ⟨h1, Or.inl h2⟩
        · right
          have he' : e' = (e'.1, q.1 ++ "." ++ g) := by rw [← h2]
          rcases h1 with h1 | ⟨t, ht, h1, _⟩
          · rw [he'] at h1
            rcases List.mem_append.1 hg with hg | hg
            · exact ⟨(g, e'.1), hcs.all_in g hg _ h1, Or.inl ⟨hg, he'⟩⟩
            · exact absurd (by decide) (hc.ws.noFanin _ _ h1 "bb_output" (po g hg))
          · rw [h2] at h1
            rcases pty g hg with h4 | h4 <;>
              (rw [h4] at h1; injection h1 with h1; rw [← h1] at ht; exact absurd ht (by decide))
      · rcases h2 with h2 | ⟨g, hg, h2⟩
        · exact Or.inl ⟨h1, Or.inr ⟨h2, h3⟩⟩
        · right
          have he' : e' = (q.1 ++ "." ++ g, e'.2) := by rw [← h2]
          have hgo : g ∈ q.2.outs := by
            rcases List.mem_append.1 hg with hg | hg
            · rw [h2, pi g hg] at h3; injection h3 with h3; exact absurd h3 (by decide)
            · exact hg
          rcases h1 with h1 | ⟨t, ht, _, h1⟩
          · rw [he'] at h1
            exact ⟨(g, e'.2), hcs.all_out g hgo _ h1, Or.inr ⟨hgo, he'⟩⟩
          · exact absurd ((isTie_iff _).2 ⟨t, ht, h1⟩) (hc.not_tie (has_of_ty? h3))

/-! ### the whole instance statement -/

theorem find_bb : ∀ (l : List (Name × BBox)) (q : Name × BBox), q ∈ l →
    (∀ r ∈ l, r.2.name = q.2.name → r.2 = q.2) →
    (l.map (·.2)).find? (fun b => b.name == q.2.name) = some q.2
  | [], _, h, _ => nomatch h
  | r :: l, q, h, hu => by
    rw [List.map_cons, List.find?_cons]
    by_cases hr : r.2.name = q.2.name
    · have : (r.2.name == q.2.name) = true := by simpa using hr
      simp only [this]
      rw [hu r (by simp) hr]
    · have : (r.2.name == q.2.name) = false := by simpa using hr
      simp only [this]
      rcases List.mem_cons.1 h with rfl | h
      · exact absurd rfl hr
      · exact find_bb l q h (fun r' hr' => hu r' (by simp [hr']))

theorem T_primitive : T.primitive = Expected.primitive_gates := by decide

theorem bstep {c : Circuit} (hc : Wr c) {ord' : Ord} (hord' : OrdOK ord') {st : TState} {d : Decls}
    {B : List (Name × BBox)} {D : Name → Prop} (h : RInv c st.c B D) {q : Name × BBox} (hq : q ∈ c.bbs)
    {it : Item} (hs : BBSpec c q it)
    (hB : B.lookup q.1 = none)
    (hDp : ∀ g ∈ q.2.ins ++ q.2.outs, ¬ D (q.1 ++ "." ++ g))
    (hDio : ∀ x, D x → c.ty? x = some "input" ∨ PinTy c x) :
    ∃ st', doItem (c.bbs.map (·.2)) ord' (st, d) it = .ok (st', d) ∧
      RInv c st'.c (B ++ [q]) (fun x => D x ∨ ∃ g ∈ q.2.ins ++ q.2.outs, x = q.1 ++ "." ++ g) ∧
      st'.gateExprs = st.gateExprs := by
  obtain ⟨ps, rfl, hperm, hconn⟩ := hs
  obtain ⟨hsimple, hcs⟩ := cs_of_spec hc hq hperm hconn
  obtain ⟨_, _, _, _, hnp, _⟩ := hc.pinsPresent q hq
  have hprim : T.primitive.contains q.2.name = false := by
    rw [T_primitive]
    cases hh : Expected.primitive_gates.contains q.2.name with
    | false => rfl
    | true => exact absurd (List.contains_iff_mem.1 hh) hnp
  have hfind := find_bb c.bbs q hq (fun r hr e => (hc.bbTypes q hq r hr e.symm).symm)
  obtain ⟨st1, e1, h1, hg1⟩ := loadLoop hc hq hcs (ord' q.2.outs) (fun o ho => (hord' _).mem_iff.1 ho) st h
  obtain ⟨c1, e2, h2, hn2, _⟩ := netLoop hc hq hcs (conns0 ps) (fun _ hp => hp) st1.c h1
  obtain ⟨c2, e3, h3⟩ := bbFinish hc hq hcs h2 hn2 hB hDp hDio hord'
  refine ⟨{ st1 with c := c2 }, ?_, h3, hg1⟩
  show [(q.1, Conns.named ps)].foldlM (doInstance (c.bbs.map (·.2)) ord' q.2.name) st >>= _ = _
  rw [foldlM_single, doInstance_bb st q ps hprim hsimple hcs.keys hfind]
  unfold bbTail
  rw [e1, Arith.bind_ok, e2, Arith.bind_ok, e3]
  rfl

def pinOf (Q : List (Name × BBox)) (x : Name) : Prop :=
  ∃ q ∈ Q, ∃ g ∈ q.2.ins ++ q.2.outs, x = q.1 ++ "." ++ g

theorem bphase {c : Circuit} (hc : Wr c) {ord' : Ord} (hord' : OrdOK ord') :
    ∀ (Q : List (Name × BBox)) (bi : List Item), All2 (BBSpec c) Q bi →
    ∀ (B : List (Name × BBox)) (st : TState) (d : Decls) (D : Name → Prop), B ++ Q = c.bbs → RInv c st.c B D →
    (∀ x, pinOf Q x → ¬ D x) → (∀ x, D x → c.ty? x = some "input" ∨ PinTy c x) →
    ∃ st', bi.foldlM (doItem (c.bbs.map (·.2)) ord') (st, d) = .ok (st', d) ∧
      RInv c st'.c (B ++ Q) (fun x => D x ∨ pinOf Q x) ∧ st'.gateExprs = st.gateExprs := by
  intro Q bi hall
  induction hall with
  | nil =>
    intro B st d D _ h _ _
    refine ⟨st, rfl, ?_, rfl⟩
    rw [List.append_nil]
    exact h.congr (fun x => by simp [pinOf])
  | @cons q it Q' m hs _ ih =>
    intro B st d D hBQ h hDp hDio
    have hq : q ∈ c.bbs := by rw [← hBQ]; simp
    have hnd := hc.bbsNodup
    rw [← hBQ, List.map_append, List.map_cons] at hnd
    have hB : B.lookup q.1 = none := by
      cases hl : B.lookup q.1 with
      | none => rfl
      | some b =>
        exfalso
        have hm := lookup_mem hl
        rw [List.nodup_append] at hnd
        exact hnd.2.2 q.1 (List.mem_map.2 ⟨(q.1, b), hm, rfl⟩) q.1 (by simp) rfl
    obtain ⟨st1, e1, h1, hg1⟩ := bstep (d := d) hc hord' h hq hs hB
      (fun g hg => hDp _ ⟨q, by simp, g, hg, rfl⟩) hDio
    have hBQ' : (B ++ [q]) ++ Q' = c.bbs := by rw [← hBQ]; simp
    have a1 : ∀ x, pinOf Q' x → ¬ (D x ∨ ∃ g ∈ q.2.ins ++ q.2.outs, x = q.1 ++ "." ++ g) := by
      rintro x ⟨q', hq', g', hg', rfl⟩ (h3 | ⟨g, _, h3⟩)
      · exact hDp _ ⟨q', by simp [hq'], g', hg', rfl⟩ h3
      · have hq'c : q' ∈ c.bbs := by rw [← hBQ]; simp [hq']
        obtain ⟨_, _, pn', _⟩ := hc.pinsPresent q' hq'c
        obtain ⟨_, _, pn, _⟩ := hc.pinsPresent q hq
        have := (pin_inj pn'.2.2.1 pn.2.2.1 h3).1
        have hnd2 := (List.nodup_append.1 hnd).2.1
        rw [List.nodup_cons] at hnd2
        exact hnd2.1 (by rw [← this]; exact List.mem_map.2 ⟨q', hq', rfl⟩)
    have a2 : ∀ x, (D x ∨ ∃ g ∈ q.2.ins ++ q.2.outs, x = q.1 ++ "." ++ g) → c.ty? x = some "input" ∨ PinTy c x := by
      rintro x (h3 | ⟨g, hg, rfl⟩)
      · exact hDio x h3
      · right
        obtain ⟨pi, po, _⟩ := hc.pinsPresent q hq
        rcases List.mem_append.1 hg with hg | hg
        · exact Or.inl (pi g hg)
        · exact Or.inr (po g hg)
    obtain ⟨st2, e2, h2, hg2⟩ := ih (B ++ [q]) st1 d _ hBQ' h1 a1 a2
    refine ⟨st2, ?_, ?_, by rw [hg2, hg1]⟩
    · rw [List.foldlM_cons, e1]; exact e2
    · have : B ++ q :: Q' = B ++ [q] ++ Q' := by simp
      rw [this]
      refine h2.congr ?_
      intro x
      unfold pinOf
      constructor
      · rintro ((h3 | ⟨g, hg, h3⟩) | ⟨q', hq', h3⟩)
        · exact Or.inl h3
        · exact Or.inr ⟨q, by simp, g, hg, h3⟩
        · exact Or.inr ⟨q', by simp [hq'], h3⟩
      · rintro (h3 | ⟨q', hq', g, hg, h3⟩)
        · exact Or.inl (Or.inl h3)
        · rcases List.mem_cons.1 hq' with rfl | hq'
          · exact Or.inl (Or.inr ⟨g, hg, h3⟩)
          · exact Or.inr ⟨q', hq', g, hg, h3⟩

end VR
end CG
