/- C03 helper: the step functions of `toWModule` as standalone definitions, and the relabel fold -/
import CG.Proofs.VRoundDefs
namespace CG
namespace VR
open Verilog Circuit

def relStep (c : Circuit) (n : Name) : Circuit :=
  if n.startsWith "\\" && !(c.ty? n == some "bb_input" || c.ty? n == some "bb_output") then c.relabelOne n (n ++ " ") else c

def bbInStep (ord : Ord) (cc : Circuit) (inst : Name) (io : List (Name × Option Expr)) (n : Name) :
    E (List (Name × Option Expr)) :=
  if !cc.has (inst ++ "." ++ n) then .error .nxError else
  match ord (cc.fanin (inst ++ "." ++ n)) with
  | d :: _ => pure (io ++ [(n, some (Expr.id d))])
  | [] => pure (io ++ [(n, none)])

def bbOutStep (ord : Ord) (inst : Name) (r : Circuit × List (Name × Option Expr)) (n : Name) :
    E (Circuit × List (Name × Option Expr)) :=
  if !r.1.has (inst ++ "." ++ n) then .error .nxError else
  match ord (r.1.fanout (inst ++ "." ++ n)) with
  | d :: _ => pure (r.1.disconnect [inst ++ "." ++ n] [d], r.2 ++ [(n, some (Expr.id d))])
  | [] => pure (r.1, r.2 ++ [(n, none)])

def bbStep (ord : Ord) (s : Circuit × List Item) (p : Name × BBox) : E (Circuit × List Item) :=
  (ord p.2.ins).foldlM (bbInStep ord s.1 p.1) [] >>= fun io1 =>
  (ord p.2.outs).foldlM (bbOutStep ord p.1) (s.1, io1) >>= fun r =>
  pure (r.1, s.2 ++ [Item.inst p.2.name [(p.1, Conns.named r.2)]])

def gateStep (ord : Ord) (behavioral : Bool) (c2 : Circuit) (st : List Item × List Name × List Bool) (n : Name) :
    E (List Item × List Name × List Bool) :=
  match c2.ty? n with
  | none => .error .keyError
  | some t =>
    if gateTypes.contains t then
      let fanin := ord (c2.fanin n)
      let wires := st.2.1 ++ [n]
      if fanin.isEmpty then pure (st.1, wires, st.2.2) else
      if behavioral then
        if t == "buf" then pure (st.1 ++ [Item.assign [(n, Expr.id (fanin.headD ""))]], wires, st.2.2 ++ [false])
        else if t == "not" then pure (st.1 ++ [Item.assign [(n, Expr.not (Expr.id (fanin.headD "")))]], wires, st.2.2 ++ [false])
        else
          let body := if t == "xor" || t == "xnor" then chain Expr.xor fanin
                      else if t == "and" || t == "nand" then chain Expr.and fanin else chain Expr.or fanin
          if t == "xnor" || t == "nor" || t == "nand" then pure (st.1 ++ [Item.assign [(n, Expr.not body)]], wires, st.2.2 ++ [true])
          else pure (st.1 ++ [Item.assign [(n, body)]], wires, st.2.2 ++ [false])
      else
        match c2.uid ("g_" ++ toString st.1.length) with
        | none => .error .fuel
        | some g => pure (st.1 ++ [Item.inst t [(g, Conns.positional ((n :: fanin).map Expr.id))]], wires, st.2.2 ++ [false])
    else if t == "0" || t == "1" || t == "x" then pure (st.1 ++ [Item.assign [(n, Expr.const t)]], st.2.1 ++ [n], st.2.2 ++ [false])
    else if t == "input" || t == "bb_input" || t == "bb_output" then pure st
    else .error .valueError

theorem toWModule_eq (c0 : Circuit) (beh : Bool) (ord : Ord) :
    toWModule c0 beh ord =
      ((if ((ord c0.nodeNames).foldl relStep c0).nodes.any (fun p => p.2.ty.isNone) then (.error .keyError : E Unit) else pure ()) >>= fun _ =>
       ((ord c0.nodeNames).foldl relStep c0).bbs.foldlM (bbStep ord) ((ord c0.nodeNames).foldl relStep c0, []) >>= fun s =>
       (ord s.1.nodeNames).foldlM (gateStep ord beh s.1) (s.2, [], s.2.map (fun _ => false)) >>= fun st =>
       pure { name := s.1.name, inputs := ord ((ord c0.nodeNames).foldl relStep c0).inputs,
              outputs := ord ((ord c0.nodeNames).foldl relStep c0).outputs, wires := st.2.1, stmts := st.1, parens := st.2.2 }) := rfl

theorem relFold_id (c : Circuit) : ∀ (l : List Name), (∀ n ∈ l, ¬ n.startsWith "\\" = true) → l.foldl relStep c = c
  | [], _ => rfl
  | n :: l, h => by
    rw [List.foldl_cons]
    have : relStep c n = c := by
      unfold relStep
      have hn : n.startsWith "\\" = false := by
        cases hb : n.startsWith "\\" with
        | false => rfl
        | true => exact absurd hb (h n (by simp))
      rw [hn]
      simp
    rw [this]
    exact relFold_id c l (fun m hm => h m (by simp [hm]))

end VR
end CG
