/- helper lemmas for C07: list facts and the "view" (has / attr? / ty? / edges) of the primitive graph updates -/
import CG.Api
set_option linter.unusedSimpArgs false
set_option linter.unusedVariables false
namespace CG

/-! ### tables -/
theorem tbl_supported : T.supported = Expected.supported_types := by decide
theorem tbl_addL0 : T.addL 0 = ["buf", "not"] := by decide
theorem tbl_addL1 : T.addL 1 = ["0", "1", "x", "input"] := by decide
theorem tbl_connectL0 : T.connectL 0 = ["input", "0", "1", "x", "bb_output"] := by decide
theorem tbl_connectL1 : T.connectL 1 = ["bb_input", "buf", "not"] := by decide
theorem tbl_connectL2 : T.connectL 2 = ["bb_input"] := by decide
theorem tbl_connectL3 : T.connectL 3 = ["bb_output"] := by decide

/-! ### generic list facts -/
section ListFacts
variable {α β : Type}

theorem lookup_mem [BEq α] [LawfulBEq α] {l : List (α × β)} {k : α} {b : β}
    (h : l.lookup k = some b) : (k, b) ∈ l := by
  induction l with
  | nil => simp at h
  | cons p l ih =>
    obtain ⟨k', b'⟩ := p
    rw [List.lookup_cons] at h
    by_cases hk : k = k'
    · subst hk; simp at h; subst h; simp
    · have : (k == k') = false := by simpa using hk
      rw [this] at h; simp only [] at h
      exact List.mem_cons_of_mem _ (ih h)

theorem lookup_of_mem_nodup [BEq α] [LawfulBEq α] {l : List (α × β)} {k : α} {b : β}
    (hn : (l.map (·.1)).Nodup) (h : (k, b) ∈ l) : l.lookup k = some b := by
  induction l with
  | nil => simp at h
  | cons p l ih =>
    obtain ⟨k', b'⟩ := p
    simp only [List.map_cons, List.nodup_cons] at hn
    rw [List.lookup_cons]
    rcases List.mem_cons.1 h with h0 | h0
    · injection h0 with h1 h2; subst h1; subst h2; simp
    · have hne : k ≠ k' := by
        intro e; subst e
        exact hn.1 (List.mem_map.2 ⟨(k, b), h0, rfl⟩)
      have : (k == k') = false := by simpa using hne
      rw [this]; exact ih hn.2 h0

theorem lookup_isSome_iff [BEq α] [LawfulBEq α] {l : List (α × β)} {k : α} :
    (l.lookup k).isSome = l.any (·.1 == k) := by
  induction l with
  | nil => simp
  | cons p l ih =>
    obtain ⟨k', b'⟩ := p
    rw [List.lookup_cons, List.any_cons]
    by_cases hk : k = k'
    · subst hk; simp
    · have h1 : (k == k') = false := by simpa using hk
      have h2 : (k' == k) = false := by simpa using (Ne.symm hk)
      simp [h1, h2, ih]

theorem lookup_map_val [BEq α] (f : α → β → β) (l : List (α × β)) (k : α) [LawfulBEq α] :
    (l.map (fun p => (p.1, f p.1 p.2))).lookup k = (l.lookup k).map (f k) := by
  induction l with
  | nil => simp
  | cons p l ih =>
    obtain ⟨k', b'⟩ := p
    simp only [List.map_cons, List.lookup_cons]
    by_cases hk : k = k'
    · subst hk; simp
    · have h1 : (k == k') = false := by simpa using hk
      simp [h1, ih]

theorem lookup_filter_key [BEq α] [LawfulBEq α] (q : α → Bool) (l : List (α × β)) (k : α) :
    (l.filter (fun p => q p.1)).lookup k = if q k then l.lookup k else none := by
  induction l with
  | nil => simp
  | cons p l ih =>
    obtain ⟨k', b'⟩ := p
    by_cases hk : k = k'
    · subst hk
      by_cases hq : q k
      · simp [List.filter_cons, hq, List.lookup_cons]
      · simp [List.filter_cons, hq, ih]
    · have h1 : (k == k') = false := by simpa using hk
      by_cases hq : q k'
      · simp [List.filter_cons, hq, List.lookup_cons, h1, ih]
      · simp [List.filter_cons, hq, List.lookup_cons, h1, ih]

theorem length_le_one_of_nodup_all_eq {l : List α} (hn : l.Nodup) (h : ∀ x ∈ l, ∀ y ∈ l, x = y) :
    l.length ≤ 1 := by
  match l, hn, h with
  | [], _, _ => simp
  | [_], _, _ => simp
  | x :: y :: r, hn, h =>
    exfalso
    have := h x (by simp) y (by simp)
    subst this
    simp at hn

theorem eq_of_length_le_one {l : List α} (h : l.length ≤ 1) {x y : α} (hx : x ∈ l) (hy : y ∈ l) : x = y := by
  match l, h with
  | [], _ => simp at hx
  | [a], _ => simp at hx hy; rw [hx, hy]
  | _ :: _ :: _, h => simp at h

theorem nodup_map_of_inj {f : α → β} {l : List α} (hn : l.Nodup)
    (hf : ∀ x ∈ l, ∀ y ∈ l, f x = f y → x = y) : (l.map f).Nodup := by
  induction l with
  | nil => simp
  | cons a l ih =>
    simp only [List.map_cons, List.nodup_cons] at hn ⊢
    refine ⟨?_, ih hn.2 (fun x hx y hy => hf x (List.mem_cons_of_mem _ hx) y (List.mem_cons_of_mem _ hy))⟩
    intro hm
    obtain ⟨b, hb, e⟩ := List.mem_map.1 hm
    have := hf b (List.mem_cons_of_mem _ hb) a (by simp) e
    subst this
    exact hn.1 hb

theorem nodup_filter {l : List α} (p : α → Bool) (hn : l.Nodup) : (l.filter p).Nodup :=
  List.Nodup.sublist List.filter_sublist hn

end ListFacts

namespace Circuit

/-! ### reading a circuit -/

theorem has_eq_isSome (c : Circuit) (n : Name) : c.has n = (c.attr? n).isSome := by
  unfold has attr?; rw [lookup_isSome_iff]

theorem has_iff_mem (c : Circuit) (n : Name) : c.has n = true ↔ n ∈ c.nodeNames := by
  simp only [has, nodeNames, List.any_eq_true, List.mem_map]
  constructor
  · rintro ⟨x, hx, e⟩; exact ⟨x, hx, by simpa using e⟩
  · rintro ⟨x, hx, e⟩; exact ⟨x, hx, by simpa using e⟩

theorem has_false_iff (c : Circuit) (n : Name) : c.has n = false ↔ n ∉ c.nodeNames := by
  rw [← has_iff_mem]; simp

theorem attr?_none_of_not_has {c : Circuit} {n : Name} (h : c.has n = false) : c.attr? n = none := by
  rw [has_eq_isSome] at h; simpa using h

theorem ty?_none_of_not_has {c : Circuit} {n : Name} (h : c.has n = false) : c.ty? n = none := by
  simp [ty?, attr?_none_of_not_has h]

theorem has_of_ty? {c : Circuit} {n : Name} {t : String} (h : c.ty? n = some t) : c.has n = true := by
  cases hh : c.has n with
  | true => rfl
  | false => rw [ty?_none_of_not_has hh] at h; simp at h

theorem attr?_mem {c : Circuit} {n : Name} {a : Attr} (h : c.attr? n = some a) : (n, a) ∈ c.nodes :=
  lookup_mem h

theorem attr?_of_mem {c : Circuit} (hn : c.nodeNames.Nodup) {n : Name} {a : Attr} (h : (n, a) ∈ c.nodes) :
    c.attr? n = some a :=
  lookup_of_mem_nodup hn h

theorem mem_fanin {c : Circuit} {u n : Name} : u ∈ c.fanin n ↔ (u, n) ∈ c.edges := by
  simp only [fanin, List.mem_map, List.mem_filter]
  constructor
  · rintro ⟨⟨a, b⟩, ⟨h1, h2⟩, h3⟩
    simp at h2 h3; subst h2; subst h3; exact h1
  · intro h; exact ⟨(u, n), ⟨h, by simp⟩, rfl⟩

theorem mem_fanout {c : Circuit} {u n : Name} : u ∈ c.fanout n ↔ (n, u) ∈ c.edges := by
  simp only [fanout, List.mem_map, List.mem_filter]
  constructor
  · rintro ⟨⟨a, b⟩, ⟨h1, h2⟩, h3⟩
    simp at h2 h3; subst h2; subst h3; exact h1
  · intro h; exact ⟨(n, u), ⟨h, by simp⟩, rfl⟩

theorem fanin_nodup {c : Circuit} (h : c.edges.Nodup) (n : Name) : (c.fanin n).Nodup := by
  unfold fanin
  apply nodup_map_of_inj (nodup_filter _ h)
  rintro ⟨a, b⟩ hx ⟨a', b'⟩ hy e
  simp [List.mem_filter] at hx hy e
  rw [e, hx.2, hy.2]

theorem fanout_nodup {c : Circuit} (h : c.edges.Nodup) (n : Name) : (c.fanout n).Nodup := by
  unfold fanout
  apply nodup_map_of_inj (nodup_filter _ h)
  rintro ⟨a, b⟩ hx ⟨a', b'⟩ hy e
  simp [List.mem_filter] at hx hy e
  rw [e, hx.2, hy.2]

theorem fanin_le_one_iff {c : Circuit} (h : c.edges.Nodup) (n : Name) :
    (c.fanin n).length ≤ 1 ↔ ∀ u u', (u, n) ∈ c.edges → (u', n) ∈ c.edges → u = u' := by
  constructor
  · intro hl u u' hu hu'
    exact eq_of_length_le_one hl (mem_fanin.2 hu) (mem_fanin.2 hu')
  · intro hu
    exact length_le_one_of_nodup_all_eq (fanin_nodup h n)
      (fun x hx y hy => hu x y (mem_fanin.1 hx) (mem_fanin.1 hy))

theorem fanout_le_one_iff {c : Circuit} (h : c.edges.Nodup) (n : Name) :
    (c.fanout n).length ≤ 1 ↔ ∀ u u', (n, u) ∈ c.edges → (n, u') ∈ c.edges → u = u' := by
  constructor
  · intro hl u u' hu hu'
    exact eq_of_length_le_one hl (mem_fanout.2 hu) (mem_fanout.2 hu')
  · intro hu
    exact length_le_one_of_nodup_all_eq (fanout_nodup h n)
      (fun x hx y hy => hu x y (mem_fanout.1 hx) (mem_fanout.1 hy))

/-! ### addNodeAttr -/

theorem addNodeAttr_fresh {c : Circuit} {n : Name} (a : Attr) (h : c.has n = false) :
    c.addNodeAttr n a = { c with nodes := c.nodes ++ [(n, a)] } := by
  simp [addNodeAttr, h]

theorem addNodeAttr_edges (c : Circuit) (n : Name) (a : Attr) : (c.addNodeAttr n a).edges = c.edges := by
  unfold addNodeAttr; split <;> rfl

theorem addNodeAttr_bbs (c : Circuit) (n : Name) (a : Attr) : (c.addNodeAttr n a).bbs = c.bbs := by
  unfold addNodeAttr; split <;> rfl

theorem addNodeAttr_name (c : Circuit) (n : Name) (a : Attr) : (c.addNodeAttr n a).name = c.name := by
  unfold addNodeAttr; split <;> rfl

theorem addNodeAttr_nodeNames (c : Circuit) (n : Name) (a : Attr) :
    (c.addNodeAttr n a).nodeNames = if c.has n then c.nodeNames else c.nodeNames ++ [n] := by
  unfold addNodeAttr
  by_cases h : c.has n = true
  · simp only [h, if_true, nodeNames, List.map_map]
    apply List.map_congr_left
    intro p _; simp only [Function.comp]; split <;> rfl
  · simp [h, nodeNames]

theorem addNodeAttr_nodup {c : Circuit} (n : Name) (a : Attr) (h : c.nodeNames.Nodup) :
    (c.addNodeAttr n a).nodeNames.Nodup := by
  rw [addNodeAttr_nodeNames]
  by_cases hh : c.has n = true
  · simpa [hh] using h
  · rw [if_neg hh]
    have hh' : c.has n = false := by simpa using hh
    rw [has_false_iff] at hh'
    rw [List.nodup_append]
    refine ⟨h, by simp, ?_⟩
    intro x hx y hy; simp at hy; subst hy; intro e; subst e; exact hh' hx

theorem addNodeAttr_has (c : Circuit) (n : Name) (a : Attr) (m : Name) :
    (c.addNodeAttr n a).has m = (c.has m || m == n) := by
  have h1 := has_iff_mem (c.addNodeAttr n a) m
  have h2 := has_iff_mem c m
  rw [addNodeAttr_nodeNames] at h1
  by_cases hh : c.has n = true
  · simp only [hh, if_true] at h1
    by_cases hm : m = n
    · subst hm; simp [hh, h1, ← h2]
    · have : (m == n) = false := by simpa using hm
      rw [this, Bool.or_false]
      rw [Bool.eq_iff_iff, h1, h2]
  · simp only [hh] at h1
    rw [Bool.eq_iff_iff, h1]
    simp [h2]

theorem addNodeAttr_attr? (c : Circuit) (n : Name) (a : Attr) (m : Name) :
    (c.addNodeAttr n a).attr? m =
      if m = n then some (match c.attr? n with
        | none => a
        | some old => { ty := a.ty.orElse (fun _ => old.ty), out := a.out.orElse (fun _ => old.out) })
      else c.attr? m := by
  by_cases hh : c.has n = true
  · have e : c.addNodeAttr n a = { c with nodes := c.nodes.map (fun p => (p.1,
        if p.1 == n then ({ ty := a.ty.orElse (fun _ => p.2.ty), out := a.out.orElse (fun _ => p.2.out) } : Attr)
        else p.2)) } := by
      unfold addNodeAttr; simp only [hh, if_true]
      congr 1
      apply List.map_congr_left
      intro p _; split <;> rfl
    rw [e]
    unfold attr?
    simp only []
    rw [lookup_map_val (fun k (old : Attr) => if k == n then
        ({ ty := a.ty.orElse (fun _ => old.ty), out := a.out.orElse (fun _ => old.out) } : Attr) else old)]
    by_cases hm : m = n
    · subst hm
      rw [has_eq_isSome] at hh
      unfold attr? at hh
      cases hl : List.lookup m c.nodes with
      | none => rw [hl] at hh; simp at hh
      | some old => simp
    · have : (m == n) = false := by simpa using hm
      simp [hm, this]
  · have hh' : c.has n = false := by simpa using hh
    rw [addNodeAttr_fresh a hh']
    have hn := attr?_none_of_not_has hh'
    unfold attr? at hn ⊢
    simp only []
    rw [List.lookup_append]
    by_cases hm : m = n
    · subst hm; simp [hn, List.lookup_cons]
    · have : (m == n) = false := by simpa using hm
      simp [hm, List.lookup_cons, this]

theorem addNodeAttr_ty? (c : Circuit) (n : Name) (a : Attr) (m : Name) :
    (c.addNodeAttr n a).ty? m = if m = n then a.ty.orElse (fun _ => c.ty? n) else c.ty? m := by
  unfold ty?
  rw [addNodeAttr_attr?]
  by_cases hm : m = n
  · subst hm
    simp only [if_true]
    cases c.attr? m with
    | none => cases hty : a.ty <;> simp [hty]
    | some old => simp
  · simp [hm]

theorem addNodeAttr_mem_of_fresh {c : Circuit} {n : Name} (a : Attr) (h : c.has n = false)
    {p : Name × Attr} (hp : p ∈ c.nodes) : p ∈ (c.addNodeAttr n a).nodes := by
  rw [addNodeAttr_fresh a h]; simp [hp]

/-! ### circuits with the same node list -/

theorem has_congr {c c' : Circuit} (h : c'.nodes = c.nodes) (n : Name) : c'.has n = c.has n := by
  simp [has, h]
theorem attr?_congr {c c' : Circuit} (h : c'.nodes = c.nodes) (n : Name) : c'.attr? n = c.attr? n := by
  simp [attr?, h]
theorem ty?_congr {c c' : Circuit} (h : c'.nodes = c.nodes) (n : Name) : c'.ty? n = c.ty? n := by
  simp [ty?, attr?, h]
theorem nodeNames_congr {c c' : Circuit} (h : c'.nodes = c.nodes) : c'.nodeNames = c.nodeNames := by
  simp [nodeNames, h]

/-! ### addEdge / addEdges -/

theorem addEdge_nodes (c : Circuit) (u v : Name) : (c.addEdge u v).nodes = c.nodes := by
  unfold addEdge; split <;> rfl
theorem addEdge_bbs (c : Circuit) (u v : Name) : (c.addEdge u v).bbs = c.bbs := by
  unfold addEdge; split <;> rfl
theorem addEdge_mem (c : Circuit) (u v : Name) (e : Name × Name) :
    e ∈ (c.addEdge u v).edges ↔ e ∈ c.edges ∨ e = (u, v) := by
  unfold addEdge
  by_cases h : c.edges.contains (u, v) = true
  · rw [if_pos h]
    constructor
    · exact Or.inl
    · rintro (h' | h')
      · exact h'
      · subst h'; exact List.contains_iff_mem.1 h
  · rw [if_neg h]; simp
theorem addEdge_nodup {c : Circuit} (u v : Name) (h : c.edges.Nodup) : (c.addEdge u v).edges.Nodup := by
  unfold addEdge
  by_cases hc : c.edges.contains (u, v) = true
  · rw [if_pos hc]; exact h
  · rw [if_neg hc]
    have : (u, v) ∉ c.edges := fun hm => hc (List.contains_iff_mem.2 hm)
    rw [List.nodup_append]
    refine ⟨h, by simp, ?_⟩
    intro x hx y hy; simp at hy; subst hy; intro e; subst e; exact this hx

theorem foldl_addEdge_nodes (l : List (Name × Name)) (c : Circuit) :
    (l.foldl (fun c e => c.addEdge e.1 e.2) c).nodes = c.nodes := by
  induction l generalizing c with
  | nil => rfl
  | cons e l ih => simp only [List.foldl_cons]; rw [ih, addEdge_nodes]
theorem foldl_addEdge_bbs (l : List (Name × Name)) (c : Circuit) :
    (l.foldl (fun c e => c.addEdge e.1 e.2) c).bbs = c.bbs := by
  induction l generalizing c with
  | nil => rfl
  | cons e l ih => simp only [List.foldl_cons]; rw [ih, addEdge_bbs]
theorem foldl_addEdge_mem (l : List (Name × Name)) (c : Circuit) (e : Name × Name) :
    e ∈ (l.foldl (fun c e => c.addEdge e.1 e.2) c).edges ↔ e ∈ c.edges ∨ e ∈ l := by
  induction l generalizing c with
  | nil => simp
  | cons x l ih =>
    simp only [List.foldl_cons]; rw [ih, addEdge_mem]
    simp only [List.mem_cons]
    constructor
    · rintro ((h | h) | h)
      · exact Or.inl h
      · exact Or.inr (Or.inl h)
      · exact Or.inr (Or.inr h)
    · rintro (h | h | h)
      · exact Or.inl (Or.inl h)
      · exact Or.inl (Or.inr h)
      · exact Or.inr h
theorem foldl_addEdge_nodup (l : List (Name × Name)) {c : Circuit} (h : c.edges.Nodup) :
    (l.foldl (fun c e => c.addEdge e.1 e.2) c).edges.Nodup := by
  induction l generalizing c with
  | nil => exact h
  | cons x l ih => simp only [List.foldl_cons]; exact ih (addEdge_nodup _ _ h)

theorem addEdges_inner_nodes (u : Name) (vs : List Name) (c : Circuit) :
    (vs.foldl (fun c v => c.addEdge u v) c).nodes = c.nodes := by
  induction vs generalizing c with
  | nil => rfl
  | cons v vs ih => simp only [List.foldl_cons]; rw [ih, addEdge_nodes]
theorem addEdges_inner_bbs (u : Name) (vs : List Name) (c : Circuit) :
    (vs.foldl (fun c v => c.addEdge u v) c).bbs = c.bbs := by
  induction vs generalizing c with
  | nil => rfl
  | cons v vs ih => simp only [List.foldl_cons]; rw [ih, addEdge_bbs]
theorem addEdges_inner_mem (u : Name) (vs : List Name) (c : Circuit) (e : Name × Name) :
    e ∈ (vs.foldl (fun c v => c.addEdge u v) c).edges ↔ e ∈ c.edges ∨ (e.1 = u ∧ e.2 ∈ vs) := by
  induction vs generalizing c with
  | nil => simp
  | cons v vs ih =>
    simp only [List.foldl_cons]; rw [ih, addEdge_mem]
    obtain ⟨a, b⟩ := e
    simp only [List.mem_cons, Prod.mk.injEq]
    constructor
    · rintro ((h | ⟨h1, h2⟩) | ⟨h1, h2⟩)
      · exact Or.inl h
      · exact Or.inr ⟨h1, Or.inl h2⟩
      · exact Or.inr ⟨h1, Or.inr h2⟩
    · rintro (h | ⟨h1, h2 | h2⟩)
      · exact Or.inl (Or.inl h)
      · exact Or.inl (Or.inr ⟨h1, h2⟩)
      · exact Or.inr ⟨h1, h2⟩
theorem addEdges_inner_nodup (u : Name) (vs : List Name) {c : Circuit} (h : c.edges.Nodup) :
    (vs.foldl (fun c v => c.addEdge u v) c).edges.Nodup := by
  induction vs generalizing c with
  | nil => exact h
  | cons x l ih => simp only [List.foldl_cons]; exact ih (addEdge_nodup _ _ h)

theorem addEdges_nodes (c : Circuit) (us vs : List Name) : (c.addEdges us vs).nodes = c.nodes := by
  unfold addEdges
  induction us generalizing c with
  | nil => rfl
  | cons u us ih => simp only [List.foldl_cons]; rw [ih, addEdges_inner_nodes]
theorem addEdges_bbs (c : Circuit) (us vs : List Name) : (c.addEdges us vs).bbs = c.bbs := by
  unfold addEdges
  induction us generalizing c with
  | nil => rfl
  | cons u us ih => simp only [List.foldl_cons]; rw [ih, addEdges_inner_bbs]
theorem addEdges_mem (c : Circuit) (us vs : List Name) (e : Name × Name) :
    e ∈ (c.addEdges us vs).edges ↔ e ∈ c.edges ∨ (e.1 ∈ us ∧ e.2 ∈ vs) := by
  unfold addEdges
  induction us generalizing c with
  | nil => simp
  | cons u us ih =>
    simp only [List.foldl_cons]; rw [ih, addEdges_inner_mem]
    simp only [List.mem_cons]
    constructor
    · rintro ((h | ⟨h1, h2⟩) | ⟨h1, h2⟩)
      · exact Or.inl h
      · exact Or.inr ⟨Or.inl h1, h2⟩
      · exact Or.inr ⟨Or.inr h1, h2⟩
    · rintro (h | ⟨h1 | h1, h2⟩)
      · exact Or.inl (Or.inl h)
      · exact Or.inl (Or.inr ⟨h1, h2⟩)
      · exact Or.inr ⟨h1, h2⟩
theorem addEdges_nodup (us vs : List Name) {c : Circuit} (h : c.edges.Nodup) :
    (c.addEdges us vs).edges.Nodup := by
  unfold addEdges
  induction us generalizing c with
  | nil => exact h
  | cons u us ih => simp only [List.foldl_cons]; exact ih (addEdges_inner_nodup _ _ h)

/-! ### removeNode / remove / disconnect -/

theorem removeNode_bbs (c : Circuit) (n : Name) : (c.removeNode n).bbs = c.bbs := rfl
theorem removeNode_attr? (c : Circuit) (n m : Name) :
    (c.removeNode n).attr? m = if m = n then none else c.attr? m := by
  unfold removeNode attr?
  simp only []
  rw [lookup_filter_key (fun k => !(k == n))]
  by_cases h : m = n <;> simp [h]
theorem removeNode_ty? (c : Circuit) (n m : Name) :
    (c.removeNode n).ty? m = if m = n then none else c.ty? m := by
  unfold ty?; rw [removeNode_attr?]; by_cases h : m = n <;> simp [h]
theorem removeNode_has (c : Circuit) (n m : Name) :
    (c.removeNode n).has m = (c.has m && !(m == n)) := by
  rw [has_eq_isSome, has_eq_isSome, removeNode_attr?]; by_cases h : m = n <;> simp [h]
theorem removeNode_nodup {c : Circuit} (n : Name) (h : c.nodeNames.Nodup) :
    (c.removeNode n).nodeNames.Nodup := by
  have : (c.removeNode n).nodeNames = c.nodeNames.filter (fun k => !(k == n)) := by
    simp only [removeNode, nodeNames, List.filter_map]; rfl
  rw [this]; exact nodup_filter _ h
theorem removeNode_mem (c : Circuit) (n : Name) (e : Name × Name) :
    e ∈ (c.removeNode n).edges ↔ e ∈ c.edges ∧ e.1 ≠ n ∧ e.2 ≠ n := by
  simp [removeNode, List.mem_filter]
theorem removeNode_edges_nodup {c : Circuit} (n : Name) (h : c.edges.Nodup) :
    (c.removeNode n).edges.Nodup := nodup_filter _ h

theorem disconnect_nodes (c : Circuit) (us vs : List Name) : (c.disconnect us vs).nodes = c.nodes := rfl
theorem disconnect_bbs (c : Circuit) (us vs : List Name) : (c.disconnect us vs).bbs = c.bbs := rfl
theorem disconnect_mem_of (c : Circuit) (us vs : List Name) {e : Name × Name}
    (h : e ∈ (c.disconnect us vs).edges) : e ∈ c.edges := (List.mem_filter.1 h).1
theorem disconnect_edges_nodup {c : Circuit} (us vs : List Name) (h : c.edges.Nodup) :
    (c.disconnect us vs).edges.Nodup := nodup_filter _ h

/-! ### setTyRaw / setOutRaw -/

theorem setOutRaw_edges (c : Circuit) (n : Name) (b : Bool) : (c.setOutRaw n b).edges = c.edges := rfl
theorem setOutRaw_bbs (c : Circuit) (n : Name) (b : Bool) : (c.setOutRaw n b).bbs = c.bbs := rfl
theorem setOutRaw_nodeNames (c : Circuit) (n : Name) (b : Bool) : (c.setOutRaw n b).nodeNames = c.nodeNames := by
  simp only [setOutRaw, nodeNames, List.map_map]
  apply List.map_congr_left
  intro p _; simp only [Function.comp]; split <;> rfl
theorem setOutRaw_has (c : Circuit) (n : Name) (b : Bool) (m : Name) : (c.setOutRaw n b).has m = c.has m := by
  rw [Bool.eq_iff_iff, has_iff_mem, has_iff_mem, setOutRaw_nodeNames]
theorem setOutRaw_attr? (c : Circuit) (n : Name) (b : Bool) (m : Name) :
    (c.setOutRaw n b).attr? m = (c.attr? m).map (fun a => if m == n then { a with out := some b } else a) := by
  have e : c.setOutRaw n b = { c with nodes := c.nodes.map (fun p => (p.1,
        if p.1 == n then ({ p.2 with out := some b } : Attr) else p.2)) } := by
    unfold setOutRaw
    congr 1
    apply List.map_congr_left
    intro p _; split <;> rfl
  rw [e]; unfold attr?; simp only []
  rw [lookup_map_val (fun k (a : Attr) => if k == n then ({ a with out := some b } : Attr) else a)]
theorem setOutRaw_ty? (c : Circuit) (n : Name) (b : Bool) (m : Name) : (c.setOutRaw n b).ty? m = c.ty? m := by
  unfold ty?; rw [setOutRaw_attr?]
  cases c.attr? m with
  | none => rfl
  | some a => simp only [Option.map_some, Option.bind_some]; split <;> rfl

theorem setTyRaw_edges (c : Circuit) (n : Name) (t : String) : (c.setTyRaw n t).edges = c.edges := rfl
theorem setTyRaw_bbs (c : Circuit) (n : Name) (t : String) : (c.setTyRaw n t).bbs = c.bbs := rfl
theorem setTyRaw_nodeNames (c : Circuit) (n : Name) (t : String) : (c.setTyRaw n t).nodeNames = c.nodeNames := by
  simp only [setTyRaw, nodeNames, List.map_map]
  apply List.map_congr_left
  intro p _; simp only [Function.comp]; split <;> rfl
theorem setTyRaw_has (c : Circuit) (n : Name) (t : String) (m : Name) : (c.setTyRaw n t).has m = c.has m := by
  rw [Bool.eq_iff_iff, has_iff_mem, has_iff_mem, setTyRaw_nodeNames]
theorem setTyRaw_attr? (c : Circuit) (n : Name) (t : String) (m : Name) :
    (c.setTyRaw n t).attr? m = (c.attr? m).map (fun a => if m == n then { a with ty := some t } else a) := by
  have e : c.setTyRaw n t = { c with nodes := c.nodes.map (fun p => (p.1,
        if p.1 == n then ({ p.2 with ty := some t } : Attr) else p.2)) } := by
    unfold setTyRaw
    congr 1
    apply List.map_congr_left
    intro p _; split <;> rfl
  rw [e]; unfold attr?; simp only []
  rw [lookup_map_val (fun k (a : Attr) => if k == n then ({ a with ty := some t } : Attr) else a)]
theorem setTyRaw_ty? (c : Circuit) (n : Name) (t : String) (m : Name) :
    (c.setTyRaw n t).ty? m = if m = n ∧ c.has n = true then some t else c.ty? m := by
  unfold ty?; rw [setTyRaw_attr?]
  by_cases hm : m = n
  · subst hm
    rw [has_eq_isSome]
    cases c.attr? m with
    | none => simp
    | some a => simp
  · have : (m == n) = false := by simpa using hm
    cases c.attr? m with
    | none => simp [hm]
    | some a => simp [hm, this]

/-! ### setBB / popBB -/
theorem setBB_nodes (c : Circuit) (i : Name) (bb : BBox) : (c.setBB i bb).nodes = c.nodes := by
  unfold setBB; split <;> rfl
theorem setBB_edges (c : Circuit) (i : Name) (bb : BBox) : (c.setBB i bb).edges = c.edges := by
  unfold setBB; split <;> rfl
theorem setBB_mem (c : Circuit) (i : Name) (bb : BBox) {p : Name × BBox} (h : p ∈ (c.setBB i bb).bbs) :
    p ∈ c.bbs ∨ p = (i, bb) := by
  unfold setBB at h
  split at h
  · simp only [List.mem_map] at h
    obtain ⟨q, hq, e⟩ := h
    split at e
    · exact Or.inr e.symm
    · exact Or.inl (e ▸ hq)
  · simp only [List.mem_append, List.mem_singleton] at h; exact h
theorem popBB_nodes (c : Circuit) (i : Name) : (c.popBB i).nodes = c.nodes := rfl
theorem popBB_edges (c : Circuit) (i : Name) : (c.popBB i).edges = c.edges := rfl
theorem popBB_mem (c : Circuit) (i : Name) {p : Name × BBox} (h : p ∈ (c.popBB i).bbs) :
    p ∈ c.bbs ∧ p.1 ≠ i := by
  simpa [popBB, List.mem_filter] using h

end Circuit

end CG
