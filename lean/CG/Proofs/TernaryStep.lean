/- C10 helper: the shape of the gadget built for one node, its stability under later steps, and the
   operand loops of the and/nand and or/nor branches -/
import CG.Proofs.TernaryFrame
namespace CG
namespace Ternary
open Circuit

/-! ### the gadgets -/

/-- `h` is the `p_is_0` gate feeding `z` -/
def IsZero (mp : Name → Name) (t : Circuit) (z h p : Name) : Prop :=
  h ≠ z ∧ IsHelper h ∧ t.ty? h = some "nor" ∧ FaninIs t h [p, mp p]

/-- `h` is the `p_is_1` gate feeding `z`, with its `p_not_x` inverter -/
def IsOne (mp : Name → Name) (t : Circuit) (z h p : Name) : Prop :=
  ∃ q, h ≠ z ∧ q ≠ z ∧ IsHelper h ∧ IsHelper q ∧ t.ty? h = some "and" ∧ FaninIs t h [p, q] ∧
    t.ty? q = some "not" ∧ FaninIs t q [mp p]

abbrev Gadget := Circuit → Name → Name → Name → Prop

/-- `z` is a nor over one `G`-gadget per operand in `L` -/
def Collect (G : Gadget) (t : Circuit) (z : Name) (L : List Name) : Prop :=
  IsHelper z ∧ t.ty? z = some "nor" ∧ (∀ h, (h, z) ∈ t.edges → ∃ p ∈ L, G t z h p) ∧
    (∀ p ∈ L, ∃ h, (h, z) ∈ t.edges ∧ G t z h p)

def AndOr (G : Gadget) (c : Circuit) (mp : Name → Name) (t : Circuit) (n : Name) : Prop :=
  ∃ x z, t.ty? (mp n) = some "and" ∧ FaninIs t (mp n) [x, z] ∧ IsHelper x ∧ t.ty? x = some "or" ∧
    FaninIs t x ((c.fanin n).map mp) ∧ Collect G t z (c.fanin n)

def Simple (c : Circuit) (mp : Name → Name) (t : Circuit) (n : Name) (ty' : String) : Prop :=
  t.ty? (mp n) = some ty' ∧ FaninIs t (mp n) ((c.fanin n).map mp)

/-- the part of the encoded circuit that computes the X flag of `n` is in place -/
def NodeDone (c : Circuit) (mp : Name → Name) (t : Circuit) (n : Name) : Prop :=
  ∃ ty, c.ty? n = some ty ∧
    ((ty ∈ ["and", "nand"] ∧ AndOr (IsZero mp) c mp t n) ∨
     (ty ∈ ["or", "nor"] ∧ AndOr (IsOne mp) c mp t n) ∨
     (ty ∈ ["buf", "not"] ∧ Simple c mp t n "buf") ∨
     (ty ∈ ["xor", "xnor"] ∧ Simple c mp t n "or") ∨
     (ty ∈ ["0", "1"] ∧ t.ty? (mp n) = some "0") ∨
     (ty = "input" ∧ t.ty? (mp n) = some "input"))

/-! ### stability -/

/-- a gadget that survives every frame leaving the helper nodes other than `z` alone -/
def GStable (G : Gadget) : Prop :=
  ∀ (t t' : Circuit) (A E : Name → Prop) (z h p : Name), Frame t t' A E →
    (∀ y, t.has y = true → IsHelper y → y ≠ z → ¬ A y ∧ ¬ E y) → G t z h p → G t' z h p

theorem isZero_stable (mp : Name → Name) : GStable (IsZero mp) := by
  intro t t' A E z h p hf hH ⟨h1, h2, h3, h4⟩
  obtain ⟨hA, hE⟩ := hH h (has_of_ty? h3) h2 h1
  exact ⟨h1, h2, by rw [hf.ty (has_of_ty? h3) hA]; exact h3, hf.faninIs hE h4⟩

theorem isOne_stable (mp : Name → Name) : GStable (IsOne mp) := by
  intro t t' A E z h p hf hH ⟨q, h1, h2, h3, h4, h5, h6, h7, h8⟩
  obtain ⟨hA, hE⟩ := hH h (has_of_ty? h5) h3 h1
  obtain ⟨hA', hE'⟩ := hH q (has_of_ty? h7) h4 h2
  exact ⟨q, h1, h2, h3, h4, by rw [hf.ty (has_of_ty? h5) hA]; exact h5, hf.faninIs hE h6,
    by rw [hf.ty (has_of_ty? h7) hA']; exact h7, hf.faninIs hE' h8⟩

theorem collect_stable {G : Gadget} (hG : GStable G) {t t' : Circuit} {A E : Name → Prop} {z : Name} {L : List Name}
    (hf : Frame t t' A E) (hH : ∀ y, t.has y = true → IsHelper y → ¬ A y ∧ ¬ E y)
    (h : Collect G t z L) : Collect G t' z L := by
  obtain ⟨h1, h2, h3, h4⟩ := h
  obtain ⟨hA, hE⟩ := hH z (has_of_ty? h2) h1
  refine ⟨h1, by rw [hf.ty (has_of_ty? h2) hA]; exact h2, ?_, ?_⟩
  · intro h he
    obtain ⟨p, hp, hg⟩ := h3 h ((hf.edge hE h).mp he)
    exact ⟨p, hp, hG t t' A E z h p hf (fun y h1 h2 _ => hH y h1 h2) hg⟩
  · intro p hp
    obtain ⟨h, he, hg⟩ := h4 p hp
    exact ⟨h, hf.mono _ he, hG t t' A E z h p hf (fun y h1 h2 _ => hH y h1 h2) hg⟩

theorem andOr_stable {G : Gadget} (hG : GStable G) {c : Circuit} {mp : Name → Name} {t t' : Circuit}
    {A E : Name → Prop} {n : Name}
    (hf : Frame t t' A E) (hH : ∀ y, t.has y = true → IsHelper y → ¬ A y ∧ ¬ E y)
    (hA : ¬ A (mp n)) (hE : ¬ E (mp n)) (h : AndOr G c mp t n) : AndOr G c mp t' n := by
  obtain ⟨x, z, h1, h2, h3, h4, h5, h6⟩ := h
  obtain ⟨hAx, hEx⟩ := hH x (has_of_ty? h4) h3
  exact ⟨x, z, by rw [hf.ty (has_of_ty? h1) hA]; exact h1, hf.faninIs hE h2, h3,
    by rw [hf.ty (has_of_ty? h4) hAx]; exact h4, hf.faninIs hEx h5, collect_stable hG hf hH h6⟩

theorem simple_stable {c : Circuit} {mp : Name → Name} {t t' : Circuit} {A E : Name → Prop} {n : Name} {ty' : String}
    (hf : Frame t t' A E) (hA : ¬ A (mp n)) (hE : ¬ E (mp n)) (h : Simple c mp t n ty') :
    Simple c mp t' n ty' :=
  ⟨by rw [hf.ty (has_of_ty? h.1) hA]; exact h.1, hf.faninIs hE h.2⟩

theorem nodeDone_stable {c : Circuit} {mp : Name → Name} {t t' : Circuit} {A E : Name → Prop} {n : Name}
    (hf : Frame t t' A E) (hH : ∀ y, t.has y = true → IsHelper y → ¬ A y ∧ ¬ E y)
    (hA : ¬ A (mp n)) (hE : ¬ E (mp n)) (h : NodeDone c mp t n) : NodeDone c mp t' n := by
  obtain ⟨ty, hty, h⟩ := h
  refine ⟨ty, hty, ?_⟩
  rcases h with ⟨h1, h2⟩ | ⟨h1, h2⟩ | ⟨h1, h2⟩ | ⟨h1, h2⟩ | ⟨h1, h2⟩ | ⟨h1, h2⟩
  · exact Or.inl ⟨h1, andOr_stable (isZero_stable mp) hf hH hA hE h2⟩
  · exact Or.inr (Or.inl ⟨h1, andOr_stable (isOne_stable mp) hf hH hA hE h2⟩)
  · exact Or.inr (Or.inr (Or.inl ⟨h1, simple_stable hf hA hE h2⟩))
  · exact Or.inr (Or.inr (Or.inr (Or.inl ⟨h1, simple_stable hf hA hE h2⟩)))
  · exact Or.inr (Or.inr (Or.inr (Or.inr (Or.inl ⟨h1, by rw [hf.ty (has_of_ty? h2) hA]; exact h2⟩))))
  · exact Or.inr (Or.inr (Or.inr (Or.inr (Or.inr ⟨h1, by rw [hf.ty (has_of_ty? h2) hA]; exact h2⟩))))

/-- every gadget gives `mp n` a type, hence `mp n` is a node -/
theorem nodeDone_has {c : Circuit} {mp : Name → Name} {t : Circuit} {n : Name} (h : NodeDone c mp t n) :
    t.has (mp n) = true := by
  obtain ⟨ty, _, h⟩ := h
  rcases h with ⟨_, _, _, h, _⟩ | ⟨_, _, _, h, _⟩ | ⟨_, h, _⟩ | ⟨_, h, _⟩ | ⟨_, h⟩ | ⟨_, h⟩ <;>
    exact has_of_ty? h

/-! ### new helper nodes -/

/-- `y` is a helper-named node that `s` does not have -/
def NewH (s : Circuit) (y : Name) : Prop := s.has y = false ∧ IsHelper y

theorem NewH.mono {s s' : Circuit} (h : ∀ x, s.has x = true → s'.has x = true) {y : Name} (hy : NewH s' y) :
    NewH s y := by
  refine ⟨?_, hy.2⟩
  cases hh : s.has y with
  | false => rfl
  | true => have := h y hh; rw [hy.1] at this; cases this

theorem not_newH {s : Circuit} {y : Name} (h : s.has y = true) : ¬ NewH s y := by
  intro hn; have := hn.1; rw [h] at this; cases this

theorem FreshOut.frameH {c : Circuit} {mp : Name → Name} {t t' : Circuit} {ty : String} {fi fo : List Name}
    {r : Name} (o : FreshOut c mp t ty fi fo t' r) :
    Frame t t' (NewH t) (fun y => y ∈ fo ∨ NewH t y) :=
  o.frame.weaken (fun x hx h => by rw [h, o.fresh] at hx; cases hx)
    (fun x h => h.elim (fun h' => Or.inr (h' ▸ ⟨o.fresh, o.helper⟩)) Or.inl)

/-! ### Except plumbing -/

theorem addE_of {t t' : Circuit} {a : AddArgs} {r : Name} (h : t.add a = (t', .ok, r)) :
    addE t a = .ok (t', r) := by
  unfold addE; rw [h]

theorem addC_of {t t' : Circuit} {a : AddArgs} {r : Name} (h : t.add a = (t', .ok, r)) :
    Tx.addC t a = .ok t' := by
  unfold Tx.addC; rw [addE_of h]; rfl

/-! ### the operand loop -/

/-- what one iteration of an operand loop does -/
def StepOK (G : Gadget) (c : Circuit) (mp : Name → Name) (z : Name) (step : Circuit → Name → E Circuit) : Prop :=
  ∀ (s : Circuit) (p : Name), W c mp s → s.ty? z = some "nor" → s.has p = true → s.has (mp p) = true →
    Circuit.isDigit0 p = false →
    ∃ s' h, step s p = .ok s' ∧ W c mp s' ∧ Frame s s' (NewH s) (fun y => y = z ∨ NewH s y) ∧
      s.has h = false ∧ (∀ u, (u, z) ∈ s'.edges ↔ ((u, z) ∈ s.edges ∨ u = h)) ∧ G s' z h p

theorem collect_loop {G : Gadget} (hG : GStable G) {c : Circuit} {mp : Name → Name} {z : Name}
    {step : Circuit → Name → E Circuit} (hstep : StepOK G c mp z step) :
    ∀ (fi : List Name) (s : Circuit), W c mp s → s.ty? z = some "nor" →
      (∀ p ∈ fi, s.has p = true ∧ s.has (mp p) = true ∧ Circuit.isDigit0 p = false) →
      ∃ s', fi.foldlM step s = .ok s' ∧ W c mp s' ∧ Frame s s' (NewH s) (fun y => y = z ∨ NewH s y) ∧
        (∀ h, (h, z) ∈ s'.edges → (h, z) ∈ s.edges ∨ ∃ p ∈ fi, G s' z h p) ∧
        (∀ p ∈ fi, ∃ h, (h, z) ∈ s'.edges ∧ G s' z h p)
  | [], s, hW, _, _ => ⟨s, rfl, hW, Frame.refl _ _ _, fun _ h => Or.inl h, fun _ h => nomatch h⟩
  | p :: fi, s, hW, hz, hctx => by
    obtain ⟨hp1, hp2, hp3⟩ := hctx p (by simp)
    obtain ⟨s1, h, e1, hW1, hf1, hfresh, hinto, hg⟩ := hstep s p hW hz hp1 hp2 hp3
    have hz1 : s1.ty? z = some "nor" := by
      rw [hf1.ty (has_of_ty? hz) (not_newH (has_of_ty? hz))]; exact hz
    obtain ⟨s2, e2, hW2, hf2, ha, hb⟩ := collect_loop hG hstep fi s1 hW1 hz1
      (fun q hq => by
        obtain ⟨h1, h2, h3⟩ := hctx q (by simp [hq])
        exact ⟨hf1.has _ h1, hf1.has _ h2, h3⟩)
    have hf12 : Frame s s2 (NewH s) (fun y => y = z ∨ NewH s y) :=
      hf1.trans' hf2 (fun x hx hn => absurd hn (not_newH (hf1.has x hx)))
        (fun x hx => hx.imp id (NewH.mono hf1.has))
    -- gadgets of `s1` survive the rest of the loop
    have hkeep : ∀ h' p', G s1 z h' p' → G s2 z h' p' := by
      intro h' p' hg'
      refine hG s1 s2 _ _ z h' p' hf2 ?_ hg'
      intro y hy _ hyz
      exact ⟨not_newH hy, fun hn => hn.elim hyz (not_newH hy)⟩
    refine ⟨s2, ?_, hW2, hf12, ?_, ?_⟩
    · rw [List.foldlM_cons, e1]; exact e2
    · intro h' he
      rcases ha h' he with h1 | ⟨q, hq, hgq⟩
      · rcases (hinto h').mp h1 with h2 | h2
        · exact Or.inl h2
        · exact Or.inr ⟨p, by simp, h2 ▸ hkeep h p hg⟩
      · exact Or.inr ⟨q, by simp [hq], hgq⟩
    · intro q hq
      rcases List.mem_cons.mp hq with rfl | hq
      · exact ⟨h, hf2.mono _ ((hinto h).mpr (Or.inr rfl)), hkeep h q hg⟩
      · exact hb q hq

end Ternary
end CG
