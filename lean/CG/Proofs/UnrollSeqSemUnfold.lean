/- C09 (sequential_unroll, semantics): unfolding of a successful call with the pruned circuit identified -/
import CG.Proofs.UnrollSeqSemRemove
set_option linter.unusedSimpArgs false
set_option linter.unusedVariables false
namespace CG
namespace USS
open Circuit Unroll

/-- exposed names of the non-data input pins (ignored pins were deleted by `strip_blackboxes`, never exposed: fix K39) -/
def R1 (bb : BBox) (insts : List Name) (dPort : Name) (ig : List Name) : List Name :=
  (bb.ins.filter (fun p => p != dPort && !ig.contains p)).flatMap (fun p => insts.map (fun b => b ++ "_" ++ p))

/-- exposed names of the non-data output pins (without the ignored ones) -/
def R2 (bb : BBox) (insts : List Name) (qPort : Name) (ig : List Name) : List Name :=
  (bb.outs.filter (fun p => p != qPort && !ig.contains p)).flatMap (fun p => insts.map (fun b => b ++ "_" ++ p))

/-- the stripped circuit without the exposed non-data pins -/
def cs2 (cs0 : Circuit) (bb : BBox) (insts : List Name) (dPort qPort : Name) (ig : List Name) : Circuit :=
  (cs0.remove (R1 bb insts dPort ig)).remove (R2 bb insts qPort ig)

/-- the unloaded inputs removed when `remove_unloaded` is set -/
def R3 (c2 : Circuit) (insts : List Name) (qPort : Name) (ru : Bool) : List Name :=
  if ru then c2.inputs.filter (fun i => (c2.fanout i).isEmpty && !(insts.map (fun b => b ++ "_" ++ qPort)).contains i && !c2.isOut i)
  else []

/-- the circuit handed to `unroll` -/
def prune (cs0 : Circuit) (bb : BBox) (insts : List Name) (dPort qPort : Name) (ig : List Name) (ru : Bool) : Circuit :=
  (cs2 cs0 bb insts dPort qPort ig).remove (R3 (cs2 cs0 bb insts dPort qPort ig) insts qPort ru)

theorem remove_nil (c : Circuit) : c.remove [] = c := rfl

theorem seq_unfold' {c : Circuit} {n : Nat} {dPort qPort : Name} {ignore : List Name} {afo : Bool}
    {initStr : Option String} {ru : Bool} {pfx : String} {ord : Ord} {res : Tx.UState}
    (h : Tx.sequentialUnroll c n dPort qPort ignore afo initStr [] ru pfx ord = .ok res) :
    ∃ cs0 u0 bb rest r uc1,
      Tx.stripBlackboxes c ignore ord = .ok cs0 ∧ c.bbs = (u0, bb) :: rest ∧
      Tx.unroll (prune cs0 bb (c.bbs.map (fun p : Name × BBox => p.1)) dPort qPort ignore ru) n
        ((c.bbs.map (fun p : Name × BBox => p.1)).map (fun (b : Name) => (b ++ "_" ++ dPort, b ++ "_" ++ qPort))) pfx ord = .ok r ∧
      (c.bbs.map (fun p : Name × BBox => p.1)).foldlM (outStep r.2 dPort afo) r.1 = .ok uc1 ∧
      (match initStr with
       | some v => (c.bbs.map (fun p : Name × BBox => p.1)).foldlM (tyStep r.2 qPort v) uc1
       | none => .ok uc1) = .ok res.1 ∧
      res.2 = r.2 := by
  unfold Tx.sequentialUnroll at h
  obtain ⟨cs0, hs, h⟩ := bind_ok h
  split at h
  · cases h
  · rename_i nm bb rest hbbs
    split at h
    · cases h
    · simp only [] at h
      split at h
      · cases h
      · obtain ⟨_, _, h⟩ := bind_ok h
        obtain ⟨r, hr, h⟩ := bind_ok h
        obtain ⟨uc1, h1, h⟩ := bind_ok h
        obtain ⟨uc2, h2, h⟩ := bind_ok h
        injection h with h
        subst h
        refine ⟨cs0, nm, bb, rest, r, uc1, hs, hbbs, ?_, h1, ?_, rfl⟩
        · have e : prune cs0 bb (c.bbs.map (fun p : Name × BBox => p.1)) dPort qPort ignore ru =
              (if ru = true then
                (cs2 cs0 bb (c.bbs.map (fun p : Name × BBox => p.1)) dPort qPort ignore).remove
                  ((cs2 cs0 bb (c.bbs.map (fun p : Name × BBox => p.1)) dPort qPort ignore).inputs.filter (fun i =>
                    ((cs2 cs0 bb (c.bbs.map (fun p : Name × BBox => p.1)) dPort qPort ignore).fanout i).isEmpty &&
                    !((c.bbs.map (fun p : Name × BBox => p.1)).map (fun b => b ++ "_" ++ qPort)).contains i &&
                    !(cs2 cs0 bb (c.bbs.map (fun p : Name × BBox => p.1)) dPort qPort ignore).isOut i))
               else cs2 cs0 bb (c.bbs.map (fun p : Name × BBox => p.1)) dPort qPort ignore) := by
            unfold prune R3
            cases ru
            · rfl
            · rfl
          rw [e]
          exact hr
        · cases initStr with
          | some v => exact h2
          | none => exact h2

end USS
end CG
