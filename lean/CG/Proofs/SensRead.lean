/- helper lemmas for C11: reading a consistent valuation of the sensitivity circuit -/
import CG.Proofs.SensSetup
import CG.Proofs.SensSem
set_option linter.unusedSimpArgs false
set_option linter.unusedVariables false
namespace CG
namespace Sens
open Circuit Miter Arith

theorem gateFn_none_input (l : List Bool) : gateFn "input" l = none := by
  unfold gateFn; simp

theorem sty_of_ne {t : String} (h : t ≠ "input") : sty t = t := by
  unfold sty; rw [if_neg h]

theorem eq_singleton_of_nodup {α : Type} {l : List α} {a : α} (hnd : l.Nodup) (h : ∀ x, x ∈ l ↔ x = a) : l = [a] := by
  match l, hnd, h with
  | [], _, h => exact absurd ((h a).2 rfl) (by simp)
  | [x], _, h => rw [(h x).1 (by simp)]
  | x :: y :: r, hnd, h =>
    have hx := (h x).1 (by simp)
    have hy := (h y).1 (by simp)
    simp only [List.nodup_cons, List.mem_cons] at hnd
    exact absurd (Or.inl (hx.trans hy.symm)) hnd.1

theorem idxL_filter {sp : List Name} (hnd : sp.Nodup) {i : Nat} (hi : i < sp.length) :
    (idxL sp).filter (fun q => ("in_" ++ toString i : String) == "in_" ++ toString q.1) = [(i, sp.getD i "")] := by
  apply eq_singleton_of_nodup (nodup_filter _ (idxL_nodup hnd))
  intro q
  have hmem : (i, sp.getD i "") ∈ idxL sp := by
    rw [mem_idxL]
    simp [List.getD_eq_getElem?_getD, List.getElem?_eq_getElem hi]
  rw [List.mem_filter]
  constructor
  · rintro ⟨hq, he⟩
    simp only [beq_iff_eq] at he
    have := (idx_inj "in_").1 he
    exact (idxL_fst_inj hmem hq this).symm
  · rintro rfl
    exact ⟨hmem, by simp⟩

section read
variable {cone pcC : Circuit} {sp : List Name} {n : Name} {k : Nat} {sen : Circuit}

/-! ### membership in the kind list -/

theorem orig_mem {y : Name} (hy : cone.has y = true) : K.orig y ∈ KL cone pcC sp k :=
  (mem_KL _ _ _ _ _).2 (Or.inl ⟨y, has_names hy, rfl⟩)

theorem inp_mem {s : Name} (hs : s ∈ sp) : K.inp s ∈ KL cone pcC sp k :=
  (mem_KL _ _ _ _ _).2 (Or.inr (Or.inl ⟨s, hs, rfl⟩))

theorem pc_mem {y : Name} (hy : pcC.has y = true) : K.pc y ∈ KL cone pcC sp k :=
  (mem_KL _ _ _ _ _).2 (Or.inr (Or.inr (Or.inl ⟨y, has_names hy, rfl⟩)))

theorem inv_mem {s y : Name} (hs : s ∈ sp) (hy : cone.has y = true) : K.inv s y ∈ KL cone pcC sp k := by
  obtain ⟨i, hi⟩ := idxL_of_mem hs
  exact (mem_KL _ _ _ _ _).2 (Or.inr (Or.inr (Or.inr (Or.inl ⟨(i, s), hi, Or.inl ⟨y, has_names hy, rfl⟩⟩))))

theorem dif_mem {s : Name} (hs : s ∈ sp) : K.dif s ∈ KL cone pcC sp k := by
  obtain ⟨i, hi⟩ := idxL_of_mem hs
  exact (mem_KL _ _ _ _ _).2 (Or.inr (Or.inr (Or.inr (Or.inl ⟨(i, s), hi, Or.inr rfl⟩))))

theorem out_mem {o : Nat} (ho : o < k) : K.out o ∈ KL cone pcC sp k :=
  (mem_KL _ _ _ _ _).2 (Or.inr (Or.inr (Or.inr (Or.inr ⟨o, ho, rfl⟩))))

/-! ### fan-in kinds of the copied nodes -/

theorem cone_input_ty (H : SenHyp cone pcC sp n k) {s : Name} (hs : s ∈ sp) : cone.ty? s = some "input" :=
  (CG.mem_inputs H.lcone.nodup s).1 (H.spin s hs)

theorem cone_input_fanin (H : SenHyp cone pcC sp n k) {s : Name} (hs : s ∈ sp) : cone.fanin s = [] :=
  noFanin_inputs H.lcone s (H.spin s hs)

theorem not_sp_of_ty (H : SenHyp cone pcC sp n k) {y t : String} (hty : cone.ty? y = some t) (hne : t ≠ "input") :
    y ∉ sp := by
  intro hs
  rw [cone_input_ty H hs] at hty
  injection hty with hty
  exact hne hty.symm

theorem styOf_ty {c : Circuit} {y t : String} (h : c.ty? y = some t) : styOf c y = sty t := by
  unfold styOf; rw [h]; rfl

/-! ### reading the gates -/

abbrev SV (cone pcC : Circuit) (sp : List Name) (n : Name) (k : Nat) (sen : Circuit) : Prop :=
  KView sen (KL cone pcC sp k) K.name (kty cone pcC) (kfi cone pcC sp n)

theorem read_orig_in (H : SenHyp cone pcC sp n k) (V : SV cone pcC sp n k sen) {v : Val} (hv : Consistent sen v)
    {s : Name} (hs : s ∈ sp) : v (pref "orig" s) = v s := by
  apply V.gate hv (orig_mem (mem_inputs_has (H.spin s hs)))
  show gateFn (styOf cone s) (((cone.fanin s).map K.orig ++ if s ∈ sp then [K.inp s] else []).map _) = _
  rw [styOf_ty (cone_input_ty H hs), cone_input_fanin H hs, if_pos hs]
  exact gateFn_buf1 _

theorem read_inv_self (H : SenHyp cone pcC sp n k) (V : SV cone pcC sp n k sen) {v : Val} (hv : Consistent sen v)
    {s : Name} (hs : s ∈ sp) : v (pref ("inv_" ++ s) s) = !v s := by
  apply V.gate hv (inv_mem hs (mem_inputs_has (H.spin s hs)))
  show gateFn (if s = s then "not" else styOf cone s)
    (((cone.fanin s).map (K.inv s) ++ if s ∈ sp then [K.inp s] else []).map _) = _
  rw [if_pos rfl, cone_input_fanin H hs, if_pos hs]
  exact gateFn_not1 _

theorem read_inv_in (H : SenHyp cone pcC sp n k) (V : SV cone pcC sp n k sen) {v : Val} (hv : Consistent sen v)
    {s s1 : Name} (hs : s ∈ sp) (hs1 : s1 ∈ sp) (hne : s1 ≠ s) : v (pref ("inv_" ++ s) s1) = v s1 := by
  apply V.gate hv (inv_mem hs (mem_inputs_has (H.spin s1 hs1)))
  show gateFn (if s1 = s then "not" else styOf cone s1)
    (((cone.fanin s1).map (K.inv s) ++ if s1 ∈ sp then [K.inp s1] else []).map _) = _
  rw [if_neg hne, styOf_ty (cone_input_ty H hs1), cone_input_fanin H hs1, if_pos hs1]
  exact gateFn_buf1 _

/-- the `orig_` copy satisfies the equation of every gate of the cone -/
theorem read_orig_gate (H : SenHyp cone pcC sp n k) (V : SV cone pcC sp n k sen) {v : Val} (hv : Consistent sen v)
    {p : Name × Attr} (hp : p ∈ cone.nodes) {t : String} (ht : p.2.ty = some t) :
    NodeOK cone (fun x => v (pref "orig" x)) p.1 t := by
  intro b hb
  by_cases hne : t = "input"
  · subst hne; rw [gateFn_none_input] at hb; cases hb
  have hty := ty?_of_mem H.lcone.nodup hp ht
  apply V.gate hv (orig_mem (Miter.has_of_mem hp))
  show gateFn (styOf cone p.1) (((cone.fanin p.1).map K.orig ++ if p.1 ∈ sp then [K.inp p.1] else []).map _) = _
  rw [styOf_ty hty, sty_of_ne hne, if_neg (not_sp_of_ty H hty hne), List.append_nil, List.map_map]
  exact hb

/-- the `inv_s_` copy satisfies the equation of every gate of the cone -/
theorem read_inv_gate (H : SenHyp cone pcC sp n k) (V : SV cone pcC sp n k sen) {v : Val} (hv : Consistent sen v)
    {s : Name} (hs : s ∈ sp) {p : Name × Attr} (hp : p ∈ cone.nodes) {t : String} (ht : p.2.ty = some t) :
    NodeOK cone (fun x => v (pref ("inv_" ++ s) x)) p.1 t := by
  intro b hb
  by_cases hne : t = "input"
  · subst hne; rw [gateFn_none_input] at hb; cases hb
  have hty := ty?_of_mem H.lcone.nodup hp ht
  have hnsp := not_sp_of_ty H hty hne
  have hps : p.1 ≠ s := fun e => hnsp (e ▸ hs)
  apply V.gate hv (inv_mem hs (Miter.has_of_mem hp))
  show gateFn (if p.1 = s then "not" else styOf cone p.1)
    (((cone.fanin p.1).map (K.inv s) ++ if p.1 ∈ sp then [K.inp p.1] else []).map _) = _
  rw [if_neg hps, styOf_ty hty, sty_of_ne hne, if_neg hnsp, List.append_nil, List.map_map]
  exact hb

theorem read_dif (H : SenHyp cone pcC sp n k) (V : SV cone pcC sp n k sen) {v : Val} (hv : Consistent sen v)
    {s : Name} (hs : s ∈ sp) :
    v ("dif_out_" ++ s) = (v (pref "orig" n) != v (pref ("inv_" ++ s) n)) := by
  apply V.gate hv (dif_mem hs)
  exact gateFn_xor2 _ _

theorem read_out (H : SenHyp cone pcC sp n k) (V : SV cone pcC sp n k sen) {v : Val} (hv : Consistent sen v)
    {o : Nat} (ho : o < k) : v ("sen_out_" ++ toString o) = v (pref "pc" ("out_" ++ toString o)) := by
  apply V.gate hv (out_mem ho)
  exact gateFn_buf1 _

theorem pc_filter_nil (H : SenHyp cone pcC sp n k) {y t : String} (hty : pcC.ty? y = some t) (hne : t ≠ "input") :
    (idxL sp).filter (fun q => y == "in_" ++ toString q.1) = [] := by
  rw [List.filter_eq_nil_iff]
  intro q hq he
  simp only [beq_iff_eq] at he
  have := (CG.mem_inputs H.lpc.nodup _).1 (H.pcin q.1 (mem_idxL_lt hq))
  rw [← he, hty] at this
  injection this with this
  exact hne this

/-- the `pc_` copy satisfies the equation of every gate of the popcount -/
theorem read_pc_gate (H : SenHyp cone pcC sp n k) (V : SV cone pcC sp n k sen) {v : Val} (hv : Consistent sen v) :
    Consistent pcC (fun x => v (pref "pc" x)) := by
  intro p hp t ht b hb
  by_cases hne : t = "input"
  · subst hne; rw [gateFn_none_input] at hb; cases hb
  have hty := ty?_of_mem H.lpc.nodup hp ht
  apply V.gate hv (pc_mem (Miter.has_of_mem hp))
  show gateFn (styOf pcC p.1) (((pcC.fanin p.1).map K.pc ++
    ((idxL sp).filter (fun q => p.1 == "in_" ++ toString q.1)).map (fun q => K.dif q.2)).map _) = _
  rw [styOf_ty hty, sty_of_ne hne, pc_filter_nil H hty hne, List.map_nil, List.append_nil, List.map_map]
  exact hb

theorem read_pc_in (H : SenHyp cone pcC sp n k) (V : SV cone pcC sp n k sen) {v : Val} (hv : Consistent sen v)
    {i : Nat} (hi : i < sp.length) :
    v (pref "pc" ("in_" ++ toString i)) = v ("dif_out_" ++ sp.getD i "") := by
  have hin := H.pcin i hi
  have hty := (CG.mem_inputs H.lpc.nodup _).1 hin
  apply V.gate hv (pc_mem (mem_inputs_has hin))
  show gateFn (styOf pcC ("in_" ++ toString i)) (((pcC.fanin ("in_" ++ toString i)).map K.pc ++
    ((idxL sp).filter (fun q => ("in_" ++ toString i : String) == "in_" ++ toString q.1)).map
      (fun q => K.dif q.2)).map _) = _
  rw [styOf_ty hty, noFanin_inputs H.lpc _ hin, idxL_filter H.spnd hi]
  exact gateFn_buf1 _

end read

end Sens
end CG
