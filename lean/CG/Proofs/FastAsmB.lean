/- C14 helper: the fast reader's bookkeeping for a blackbox instance, and the folds over all statements -/
import CG.Proofs.FastAsmA
set_option linter.unusedSimpArgs false
set_option linter.unusedVariables false
namespace CG
namespace FV
open Verilog FastVerilog Circuit

/-! ### the named connections of a blackbox instance -/

def pinStep (d : BBox) (inst : Name) : Acc → String × String → E Acc := fun a pg =>
  if d.ins.contains pg.1 then pure { a with edges := a.edges ++ [(constName "tie0" "tie1" pg.2, inst ++ "." ++ pg.1)] }
  else if d.outs.contains pg.1 then
    pure { a with nets := pushNet a.nets "buf" [constName "tie0" "tie1" pg.2],
                  edges := a.edges ++ [(inst ++ "." ++ pg.1, constName "tie0" "tie1" pg.2)] }
  else .error .valueError

theorem pins_fold (d : BBox) (inst : Name) (hdisj : ∀ g, g ∈ d.ins → g ∈ d.outs → False) :
    ∀ (ps : List (Name × Option ROp)) (a : Acc),
    (∀ p ∈ ps, p.1 ∈ d.ins ++ d.outs) →
    (∀ p ∈ ps, ∀ o, p.2 = some o → (∀ n ∈ o.nets, Plain n) ∧ (p.1 ∈ d.outs → ∃ n, o = .net n)) →
    ∃ a', (ps.filterMap (fun p => p.2.map (fun o => (p.1, o.text)))).foldlM (pinStep d inst) a = .ok a' ∧
      (∀ k n, inNets a'.nets k n ↔
        inNets a.nets k n ∨ (k = "buf" ∧ ∃ p, (p, some (ROp.net n)) ∈ ps ∧ p ∈ d.outs)) ∧
      (∀ e, e ∈ a'.edges ↔ e ∈ a.edges ∨ ∃ p o, (p, some o) ∈ ps ∧
        ((p ∈ d.ins ∧ e = (o.nm "tie0" "tie1", inst ++ "." ++ p)) ∨
         (p ∈ d.outs ∧ ∃ b, o = .net b ∧ e = (inst ++ "." ++ p, b)))) ∧
      a'.bbs = a.bbs
  | [], a, _, _ => ⟨a, rfl, by simp, by simp, rfl⟩
  | (p, none) :: ps, a, h1, h2 => by
    obtain ⟨a', he, hn, hed, hb⟩ := pins_fold d inst hdisj ps a (fun q hq => h1 q (by simp [hq]))
      (fun q hq => h2 q (by simp [hq]))
    refine ⟨a', ?_, ?_, ?_, hb⟩
    · rw [List.filterMap_cons_none (by rfl)]; exact he
    · intro k n; rw [hn]; simp
    · intro e; rw [hed]; simp
  | (p, some o) :: ps, a, h1, h2 => by
    have hp := h1 (p, some o) (by simp)
    obtain ⟨hpl, hnet⟩ := h2 (p, some o) (by simp) o rfl
    have hcn := constName_text hpl
    rw [List.filterMap_cons_some (b := (p, o.text)) (by rfl), List.foldlM_cons]
    by_cases hin : p ∈ d.ins
    · have hc : d.ins.contains p = true := by simpa using hin
      have hno : p ∉ d.outs := fun h => hdisj p hin h
      obtain ⟨a', he, hn, hed, hb⟩ := pins_fold d inst hdisj ps
        { a with edges := a.edges ++ [(o.nm "tie0" "tie1", inst ++ "." ++ p)] }
        (fun q hq => h1 q (by simp [hq])) (fun q hq => h2 q (by simp [hq]))
      refine ⟨a', ?_, ?_, ?_, hb⟩
      · have : pinStep d inst a (p, o.text) =
            .ok { a with edges := a.edges ++ [(o.nm "tie0" "tie1", inst ++ "." ++ p)] } := by
          simp only [pinStep]; rw [if_pos hc, hcn]; rfl
        rw [this, Arith.bind_ok]; exact he
      · intro k n
        rw [hn]
        simp only [List.mem_cons, Prod.mk.injEq, Option.some.injEq]
        constructor
        · rintro (h | ⟨rfl, q, hq, hqo⟩)
          · exact Or.inl h
          · exact Or.inr ⟨rfl, q, Or.inr hq, hqo⟩
        · rintro (h | ⟨rfl, q, ⟨rfl, _⟩ | hq, hqo⟩)
          · exact Or.inl h
          · exact absurd hqo hno
          · exact Or.inr ⟨rfl, q, hq, hqo⟩
      · intro e
        rw [hed]
        simp only [List.mem_append, List.mem_singleton, List.mem_cons, Prod.mk.injEq, Option.some.injEq, List.not_mem_nil, or_false]
        constructor
        · rintro ((h | rfl) | ⟨q, o', hq, hc'⟩)
          · exact Or.inl h
          · exact Or.inr ⟨p, o, Or.inl ⟨rfl, rfl⟩, Or.inl ⟨hin, rfl⟩⟩
          · exact Or.inr ⟨q, o', Or.inr hq, hc'⟩
        · rintro (h | ⟨q, o', ⟨rfl, rfl⟩ | hq, hc'⟩)
          · exact Or.inl (Or.inl h)
          · rcases hc' with ⟨_, rfl⟩ | ⟨h', _⟩
            · exact Or.inl (Or.inr rfl)
            · exact absurd h' hno
          · exact Or.inr ⟨q, o', hq, hc'⟩
    · have hc : d.ins.contains p = false := by simpa using hin
      have hout : p ∈ d.outs := by
        rcases List.mem_append.1 hp with h | h
        · exact absurd h hin
        · exact h
      have hc' : d.outs.contains p = true := by simpa using hout
      obtain ⟨b, rfl⟩ := hnet hout
      obtain ⟨a', he, hn, hed, hb⟩ := pins_fold d inst hdisj ps
        { a with nets := pushNet a.nets "buf" [b], edges := a.edges ++ [(inst ++ "." ++ p, b)] }
        (fun q hq => h1 q (by simp [hq])) (fun q hq => h2 q (by simp [hq]))
      refine ⟨a', ?_, ?_, ?_, hb⟩
      · have : pinStep d inst a (p, (ROp.net b).text) =
            .ok { a with nets := pushNet a.nets "buf" [b], edges := a.edges ++ [(inst ++ "." ++ p, b)] } := by
          simp only [pinStep]; rw [hc, hc', hcn]; rfl
        rw [this, Arith.bind_ok]; exact he
      · intro k n
        rw [hn]
        simp only [inNets_pushNet, List.mem_singleton, List.mem_cons, Prod.mk.injEq, Option.some.injEq, ROp.net.injEq, List.not_mem_nil, or_false]
        constructor
        · rintro ((h | ⟨rfl, rfl⟩) | ⟨rfl, q, hq, hqo⟩)
          · exact Or.inl h
          · exact Or.inr ⟨rfl, p, Or.inl ⟨rfl, rfl⟩, hout⟩
          · exact Or.inr ⟨rfl, q, Or.inr hq, hqo⟩
        · rintro (h | ⟨rfl, q, ⟨rfl, rfl⟩ | hq, hqo⟩)
          · exact Or.inl (Or.inl h)
          · exact Or.inl (Or.inr ⟨rfl, rfl⟩)
          · exact Or.inr ⟨rfl, q, hq, hqo⟩
      · intro e
        rw [hed]
        simp only [List.mem_append, List.mem_singleton, List.mem_cons, Prod.mk.injEq, Option.some.injEq, List.not_mem_nil, or_false]
        constructor
        · rintro ((h | rfl) | ⟨q, o', hq, hc'⟩)
          · exact Or.inl h
          · exact Or.inr ⟨p, .net b, Or.inl ⟨rfl, rfl⟩, Or.inr ⟨hout, b, rfl, rfl⟩⟩
          · exact Or.inr ⟨q, o', Or.inr hq, hc'⟩
        · rintro (h | ⟨q, o', ⟨rfl, rfl⟩ | hq, hc'⟩)
          · exact Or.inl (Or.inl h)
          · rcases hc' with ⟨h', _⟩ | ⟨_, b', hb', rfl⟩
            · exact absurd h' hin
            · injection hb' with hb'; subst hb'
              exact Or.inl (Or.inr rfl)
          · exact Or.inr ⟨q, o', hq, hc'⟩

/-! ### a blackbox instance -/

theorem step_bb {bbs : List BBox} (ord : Ord) (hord : OrdOK ord) (a : Acc) {ty inst : Name}
    {pins : List (Name × Option ROp)} (hok : (RStmt.bb ty inst pins).OK bbs) (hfresh : ∀ q ∈ a.bbs, q.1 ≠ inst) :
    ∃ a', doInst bbs ord "tie0" "tie1" a
        (.inst ty inst [] (pins.filterMap (fun p => p.2.map (fun o => (p.1, o.text))))) = .ok a' ∧
      Step bbs (.bb ty inst pins) a a' := by
  obtain ⟨hnp, hinst, d, hd, hpl, hnd, hpn, hpm, hpo⟩ := hok
  have hdisj : ∀ g, g ∈ d.ins → g ∈ d.outs → False := by
    intro g h1 h2
    rw [List.nodup_append] at hnd
    exact hnd.2.2 g h1 g h2 rfl
  have hprim : T.primitive.contains ty = false := by
    rw [VR.T_primitive]; simpa using hnp
  obtain ⟨a2, he, hn, hed, hb⟩ := pins_fold d inst hdisj pins
    { a with nets := pushNet (pushNet a.nets "bb_input" ((ord d.ins).map (fun p => inst ++ "." ++ p)))
                       "bb_output" ((ord d.outs).map (fun p => inst ++ "." ++ p)) } hpm hpo
  have hfil : a2.bbs.filter (fun p => p.1 != inst) = a.bbs := by
    rw [hb]
    apply List.filter_eq_self.2
    intro q hq
    simpa using hfresh q hq
  refine ⟨{ a2 with bbs := a.bbs ++ [(inst, d)] }, ?_, ?_, ?_, ?_⟩
  · have : doInst bbs ord "tie0" "tie1" a
        (.inst ty inst [] (pins.filterMap (fun p => p.2.map (fun o => (p.1, o.text))))) =
        ((pins.filterMap (fun p => p.2.map (fun o => (p.1, o.text)))).foldlM (pinStep d inst)
          { a with nets := pushNet (pushNet a.nets "bb_input" ((ord d.ins).map (fun p => inst ++ "." ++ p)))
                       "bb_output" ((ord d.outs).map (fun p => inst ++ "." ++ p)) } >>= fun a2 =>
          pure { a2 with bbs := (a2.bbs.filter (fun p => p.1 != inst)) ++ [(inst, d)] }) := by
      simp only [doInst]
      rw [hprim]
      simp only [hd]
      rfl
    rw [this, he, Arith.bind_ok, hfil]
    rfl
  · intro k n
    show inNets a2.nets k n ↔ _
    rw [hn]
    simp only [inNets_pushNet, List.mem_map, (hord _).mem_iff, RStmt.dty, hd, Option.some.injEq, exists_eq_left']
    constructor
    · rintro (((h | ⟨rfl, g, hg, rfl⟩) | ⟨rfl, g, hg, rfl⟩) | ⟨rfl, p, hp, hpo'⟩)
      · exact Or.inl h
      · exact Or.inr (Or.inr (Or.inl ⟨g, hg, rfl, rfl⟩))
      · exact Or.inr (Or.inr (Or.inr ⟨g, hg, rfl, rfl⟩))
      · exact Or.inr (Or.inl ⟨p, hp, hpo', rfl⟩)
    · rintro (h | ⟨p, hp, hpo', rfl⟩ | ⟨g, hg, rfl, rfl⟩ | ⟨g, hg, rfl, rfl⟩)
      · exact Or.inl (Or.inl (Or.inl h))
      · exact Or.inr ⟨rfl, p, hp, hpo'⟩
      · exact Or.inl (Or.inl (Or.inr ⟨rfl, g, hg, rfl⟩))
      · exact Or.inl (Or.inr ⟨rfl, g, hg, rfl⟩)
  · intro e
    show e ∈ a2.edges ↔ _
    rw [hed]
    simp only [RStmt.edge, hd, Option.some.injEq, exists_eq_left']
    constructor
    · rintro (h | ⟨p, o, hp, ⟨hpi, rfl⟩ | ⟨hpo', b, rfl, rfl⟩⟩)
      · exact Or.inl h
      · exact Or.inr ⟨o, _, ⟨p, o, hp, Or.inl ⟨hpi, rfl, rfl⟩⟩, rfl⟩
      · exact Or.inr ⟨.net (inst ++ "." ++ p), b, ⟨p, .net b, hp, Or.inr ⟨hpo', rfl, rfl⟩⟩, rfl⟩
    · rintro (h | ⟨x, b, ⟨p, o, hp, ⟨hpi, rfl, rfl⟩ | ⟨hpo', rfl, rfl⟩⟩, rfl⟩)
      · exact Or.inl h
      · exact Or.inr ⟨p, x, hp, Or.inl ⟨hpi, rfl⟩⟩
      · exact Or.inr ⟨p, .net b, hp, Or.inr ⟨hpo', b, rfl, rfl⟩⟩
  · intro q
    show q ∈ a.bbs ++ [(inst, d)] ↔ _
    simp only [List.mem_append, List.mem_singleton, RStmt.reg, hd, Option.some.injEq, exists_eq_left']

/-! ### all instance statements, then all assigns -/

theorem insts_fold {bbs : List BBox} (ord : Ord) (hord : OrdOK ord) :
    ∀ ss : List RStmt, (∀ s ∈ ss, s.OK bbs) → (ss.flatMap RStmt.instName).Nodup →
    ∃ a, (ss.filterMap RStmt.finst).foldlM (doInst bbs ord "tie0" "tie1") ({} : Acc) = .ok a ∧
      AInv bbs (fun s => s ∈ ss ∧ s.finst.isSome = true) a := by
  apply rev_ind
  · intro _ _
    exact ⟨{}, rfl, (AInv.empty bbs).congr (fun s => by simp)⟩
  · intro ss s ih hok hnd
    obtain ⟨a, he, hinv⟩ := ih (fun x hx => hok x (by simp [hx]))
      (by rw [List.flatMap_append] at hnd; exact (List.nodup_append.1 hnd).1)
    have hs := hok s (by simp)
    rw [List.filterMap_append, List.foldlM_append, he, Arith.bind_ok]
    cases s with
    | gate ty inst out ops =>
      obtain ⟨a', he', hst⟩ := step_gate ord a hs
      refine ⟨a', ?_, (hinv.step hst).congr ?_⟩
      · show (List.foldlM _ a [FInst.inst ty inst (out :: ops.map ROp.text) []]) = _
        rw [List.foldlM_cons, he', Arith.bind_ok]; rfl
      · intro x
        simp only [List.mem_append, List.mem_singleton]
        constructor
        · rintro (⟨h1, h2⟩ | rfl)
          · exact ⟨Or.inl h1, h2⟩
          · exact ⟨Or.inr rfl, rfl⟩
        · rintro ⟨h1 | rfl, h2⟩
          · exact Or.inl ⟨h1, h2⟩
          · exact Or.inr rfl
    | assign l r =>
      refine ⟨a, rfl, hinv.congr ?_⟩
      intro x
      simp only [List.mem_append, List.mem_singleton]
      constructor
      · rintro ⟨h1, h2⟩
        exact ⟨Or.inl h1, h2⟩
      · rintro ⟨h1 | rfl, h2⟩
        · exact ⟨h1, h2⟩
        · simp [RStmt.finst] at h2
    | bb ty inst pins =>
      have hfresh : ∀ q ∈ a.bbs, q.1 ≠ inst := by
        intro q hq e
        obtain ⟨s', ⟨hs', _⟩, hreg⟩ := (hinv.bbs q).1 hq
        cases s' with
        | gate => exact hreg
        | assign => exact hreg
        | bb ty' inst' pins' =>
          obtain ⟨d', _, rfl⟩ := hreg
          simp only at e
          subst e
          rw [List.flatMap_append, List.nodup_append] at hnd
          exact hnd.2.2 inst' (List.mem_flatMap.2 ⟨_, hs', by simp [RStmt.instName]⟩) inst'
            (by simp [RStmt.instName]) rfl
      obtain ⟨a', he', hst⟩ := step_bb ord hord a hs hfresh
      refine ⟨a', ?_, (hinv.step hst).congr ?_⟩
      · show (List.foldlM _ a [FInst.inst ty inst [] (pins.filterMap (fun p => p.2.map (fun o => (p.1, o.text))))]) = _
        rw [List.foldlM_cons, he', Arith.bind_ok]; rfl
      · intro x
        simp only [List.mem_append, List.mem_singleton]
        constructor
        · rintro (⟨h1, h2⟩ | rfl)
          · exact ⟨Or.inl h1, h2⟩
          · exact ⟨Or.inr rfl, rfl⟩
        · rintro ⟨h1 | rfl, h2⟩
          · exact Or.inl ⟨h1, h2⟩
          · exact Or.inr rfl

/-- the `assign` pass of `assemble` -/
def assignStep : Acc → Name × String → Acc := fun a g =>
  { a with nets := pushNet a.nets "buf" [g.1],
           edges := a.edges ++ [((if ["1'b0", "1'h0", "1'd0"].contains g.2 then "tie0"
             else if ["1'b1", "1'h1", "1'd1"].contains g.2 then "tie1" else g.2), g.1)] }

theorem assigns_fold {bbs : List BBox} {P : RStmt → Prop} {a0 : Acc} (h0 : AInv bbs P a0) :
    ∀ ss : List RStmt, (∀ s ∈ ss, s.OK bbs) →
      AInv bbs (fun s => P s ∨ (s ∈ ss ∧ s.fassign.isSome = true)) ((ss.filterMap RStmt.fassign).foldl assignStep a0) := by
  apply rev_ind
  · intro _
    exact h0.congr (fun s => by simp)
  · intro ss s ih hok
    have hinv := ih (fun x hx => hok x (by simp [hx]))
    have hs := hok s (by simp)
    rw [List.filterMap_append, List.foldl_append]
    cases s with
    | assign l r =>
      refine (hinv.step (step_assign _ hs)).congr ?_
      intro x
      simp only [List.mem_append, List.mem_singleton]
      constructor
      · rintro ((h | ⟨h1, h2⟩) | rfl)
        · exact Or.inl h
        · exact Or.inr ⟨Or.inl h1, h2⟩
        · exact Or.inr ⟨Or.inr rfl, rfl⟩
      · rintro (h | ⟨h1 | rfl, h2⟩)
        · exact Or.inl (Or.inl h)
        · exact Or.inl (Or.inr ⟨h1, h2⟩)
        · exact Or.inr rfl
    | gate ty inst out ops =>
      refine hinv.congr ?_
      intro x
      simp only [List.mem_append, List.mem_singleton]
      constructor
      · rintro (h | ⟨h1, h2⟩)
        · exact Or.inl h
        · exact Or.inr ⟨Or.inl h1, h2⟩
      · rintro (h | ⟨h1 | rfl, h2⟩)
        · exact Or.inl h
        · exact Or.inr ⟨h1, h2⟩
        · simp [RStmt.fassign] at h2
    | bb ty inst pins =>
      refine hinv.congr ?_
      intro x
      simp only [List.mem_append, List.mem_singleton]
      constructor
      · rintro (h | ⟨h1, h2⟩)
        · exact Or.inl h
        · exact Or.inr ⟨Or.inl h1, h2⟩
      · rintro (h | ⟨h1 | rfl, h2⟩)
        · exact Or.inl h
        · exact Or.inr ⟨h1, h2⟩
        · simp [RStmt.fassign] at h2

/-- the accumulator after both passes describes all statements -/
theorem acc_all {r : RMod} {bbs : List BBox} (h : Restricted r bbs) (ord : Ord) (hord : OrdOK ord) :
    ∃ a, (r.stmts.filterMap RStmt.finst).foldlM (doInst bbs ord "tie0" "tie1") ({} : Acc) = .ok a ∧
      AInv bbs (fun s => s ∈ r.stmts) ((r.stmts.filterMap RStmt.fassign).foldl assignStep a) := by
  obtain ⟨a, he, hinv⟩ := insts_fold ord hord r.stmts h.stmts h.instsNodup
  refine ⟨a, he, (assigns_fold hinv r.stmts h.stmts).congr ?_⟩
  intro s
  constructor
  · rintro (h | h)
    · exact h.1
    · exact h.1
  · intro hs
    cases s with
    | gate => exact Or.inl ⟨hs, rfl⟩
    | bb => exact Or.inl ⟨hs, rfl⟩
    | assign => exact Or.inr ⟨hs, rfl⟩

end FV
end CG
