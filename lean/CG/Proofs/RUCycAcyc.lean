/- on acyclic circuits the greatest self-sustaining set is "live or not removable" (C16) -/
import CG.Proofs.RUCycInv
import CG.Props.C16
namespace CG
namespace RUC
open RU

/-- live nodes are kept (no acyclicity needed) -/
theorem kept_of_live {c : Circuit} (hclosed : ∀ e ∈ c.edges, c.has e.1 = true ∧ c.has e.2 = true)
    (inputs : Bool) {n : Name} (hn : c.has n = true) (hl : C16.Live c n) : Kept c inputs n := by
  refine ⟨fun m => c.has m = true ∧ C16.Live c m, ?_, hn, hl⟩
  rintro m ⟨hm, s, hs, hsink, hr⟩
  refine ⟨hm, ?_⟩
  cases hr with
  | refl =>
    rcases hsink with ho | hty
    · exact Or.inl ho
    · exact Or.inr (Or.inl (fun hr => hr.1 hty))
  | step he hr' => exact Or.inr (Or.inr ⟨_, he, (hclosed _ he).2, s, hs, hsink, hr'⟩)

/-- on an acyclic circuit every member of a self-sustaining set is live or of a protected kind -/
theorem live_of_selfSustaining {c : Circuit} (hg : C16.Good c) {inputs : Bool} {K : Name → Prop}
    (hK : SelfSustaining c inputs K) (n : Name) (hn : K n) : C16.Live c n ∨ ¬ Removable c inputs n := by
  obtain ⟨rank, hrank⟩ := hg.acyclic
  obtain ⟨B, hB⟩ : ∃ B, ∀ m, c.has m = true → rank m ≤ B :=
    ⟨(c.nodeNames.map rank).sum, fun m hm => le_sum_of_mem _ _ (List.mem_map_of_mem ((has_iff c m).1 hm))⟩
  have key : ∀ k m, K m → B - rank m < k → C16.Live c m ∨ ¬ Removable c inputs m := by
    intro k
    induction k with
    | zero => intro m _ hk; exact absurd hk (Nat.not_lt_zero _)
    | succ k ih =>
      intro m hm hk
      obtain ⟨hh, h⟩ := hK m hm
      rcases h with ho | hr | ⟨b, hb, hkb⟩
      · exact Or.inl ⟨m, hh, Or.inl ho, C16.Reach.refl m⟩
      · exact Or.inr hr
      · have hhb := (hg.closed _ hb).2
        have h1 := hrank _ hb
        have h2 := hB b hhb
        have hlb : C16.Live c b := by
          rcases ih b hkb (by simp only at h1; omega) with hl | hr
          · exact hl
          · have hsrc := hg.noFaninOnSources _ hb
            have hty : c.ty? b = some "bb_input" := by
              apply Classical.byContradiction
              intro hne
              exact hr ⟨hne, Or.inr hsrc⟩
            exact ⟨b, hhb, Or.inr hty, C16.Reach.refl b⟩
        obtain ⟨s, hs, hsink, hr⟩ := hlb
        exact Or.inl ⟨s, hs, hsink, C16.Reach.step hb hr⟩
  exact key (B + 1) n hn (by omega)

/-- the form of `C16.kept_iff_live_of_acyclic` -/
theorem kept_iff_live {c : Circuit} (inputs : Bool) (hg : C16.Good c) (n : Name) (hn : c.has n = true) :
    Kept c inputs n ↔ (C16.Live c n ∨ ¬ Removable c inputs n) := by
  constructor
  · rintro ⟨K, hK, hKn⟩
    exact live_of_selfSustaining hg hK n hKn
  · rintro (hl | hr)
    · exact kept_of_live hg.closed inputs hn hl
    · exact kept_of_not_removable hn hr

end RUC
end CG
