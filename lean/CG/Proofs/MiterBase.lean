/- helper lemmas for C04 (miter): names, the Except monad, one successful `add` call, folds of `add` calls -/
import CG.Tx
import CG.Spec
import CG.Sat
import CG.Props.C01
import CG.Props.C06
import CG.Proofs.Limit
set_option linter.unusedSimpArgs false
set_option linter.unusedVariables false
namespace CG
namespace Miter
open Circuit

/-! ### names -/

theorem pref_c0 (n : Name) : pref "c0" n = "c0_" ++ n := by
  unfold pref
  rw [String.append_assoc]
  rfl

theorem pref_c1 (n : Name) : pref "c1" n = "c1_" ++ n := by
  unfold pref
  rw [String.append_assoc]
  rfl

/-- name of the comparator of endpoint `e` -/
def dif (e : Name) : Name := "dif_" ++ e

theorem dif_inj {a b : Name} (h : dif a = dif b) : a = b := (String.append_right_inj _).1 h

theorem c0_ne_c1 (a b : Name) : pref "c0" a ≠ pref "c1" b := by
  rw [pref_c0, pref_c1]
  intro h
  have := congrArg String.toList h
  simp [String.toList_append] at this

theorem c0_ne_sat (a : Name) : pref "c0" a ≠ "sat" := by
  rw [pref_c0]
  intro h
  have := congrArg String.toList h
  simp [String.toList_append] at this

theorem c1_ne_sat (a : Name) : pref "c1" a ≠ "sat" := by
  rw [pref_c1]
  intro h
  have := congrArg String.toList h
  simp [String.toList_append] at this

theorem c0_ne_dif (a b : Name) : pref "c0" a ≠ dif b := by
  rw [pref_c0]
  unfold dif
  intro h
  have := congrArg String.toList h
  simp [String.toList_append] at this

theorem c1_ne_dif (a b : Name) : pref "c1" a ≠ dif b := by
  rw [pref_c1]
  unfold dif
  intro h
  have := congrArg String.toList h
  simp [String.toList_append] at this

theorem dif_ne_sat (a : Name) : dif a ≠ "sat" := by
  unfold dif
  intro h
  have := congrArg String.toList h
  simp [String.toList_append] at this

/-! ### the Except monad -/

theorem bind_ok {α β : Type} {x : E α} {f : α → E β} {b : β} (h : x >>= f = .ok b) :
    ∃ a, x = .ok a ∧ f a = .ok b := by
  cases x with
  | error e => cases h
  | ok a => exact ⟨a, rfl, h⟩

theorem liftO_ok {r : Circuit × Outcome} {m : Circuit} (h : liftO r = .ok m) : r = (m, .ok) := by
  obtain ⟨c, o⟩ := r
  cases o <;> first | (injection h with h; rw [h]) | cases h

theorem liftO_of {c : Circuit} : liftO (c, .ok) = .ok c := rfl

theorem foldlM_cons_ok {α : Type} {f : Circuit → α → E Circuit} {x : α} {l : List α} {c c' : Circuit}
    (h : (x :: l).foldlM f c = .ok c') : ∃ c1, f c x = .ok c1 ∧ l.foldlM f c1 = .ok c' := by
  rw [List.foldlM_cons] at h
  exact bind_ok h

/-! ### `addEdges` -/

theorem addEdges_nil_right (c : Circuit) (us : List Name) : c.addEdges us [] = c := by
  unfold addEdges
  induction us with
  | nil => rfl
  | cons u us ih => simpa using ih

theorem flatMap_single (fi : List Name) (n : Name) :
    fi.flatMap (fun u => [n].map (fun v => (u, v))) = fi.map (fun u => (u, n)) := by
  induction fi with
  | nil => rfl
  | cons a l ih =>
    simp only [List.flatMap_cons, List.map_cons, List.map_nil, List.singleton_append] at ih ⊢
    rw [ih]

/-- exact edge list of `addEdges` when all the new edges are new and distinct -/
theorem addEdges_edges_disj (c : Circuit) (us vs : List Name)
    (hnd : (us.flatMap (fun u => vs.map (fun v => (u, v)))).Nodup)
    (hd : ∀ u ∈ us, ∀ v ∈ vs, (u, v) ∉ c.edges) :
    (c.addEdges us vs).edges = c.edges ++ us.flatMap (fun u => vs.map (fun v => (u, v))) := by
  rw [addEdges_eq_foldl]
  apply foldl_addEdge_edges_disj _ _ hnd
  intro e he
  simp only [List.mem_flatMap, List.mem_map] at he
  obtain ⟨u, hu, v, hv, rfl⟩ := he
  exact hd u hu v hv

theorem connect_ok_eq {c c' : Circuit} {us vs : List Name} (h : c.connect us vs = (c', .ok)) :
    c' = c.addEdges us vs ∧ (us ≠ [] → vs ≠ [] → c.connectCheck us vs = none) := by
  refine ⟨?_, (connect_ok h).2.2.2.2.2.2⟩
  unfold connect at h
  by_cases he : (us.isEmpty || vs.isEmpty) = true
  · rw [if_pos he] at h
    injection h with h1 _
    subst h1
    rw [Bool.or_eq_true, List.isEmpty_iff, List.isEmpty_iff] at he
    rcases he with he | he
    · subst he; rfl
    · subst he; exact (addEdges_nil_right _ _).symm
  · rw [if_neg he] at h
    cases hc : c.connectCheck us vs with
    | some o =>
      rw [hc] at h
      simp only [] at h
      injection h with _ h2
      subst h2
      exact absurd hc (connectCheck_ne_ok c us vs)
    | none =>
      rw [hc] at h
      simp only [] at h
      injection h with h1 _
      exact h1.symm

/-! ### one successful `add` -/

/-- the `add` calls of `miter`: plain names, no auto-created neighbours, no redefinition -/
structure Plain (a : AddArgs) : Prop where
  uid : a.uid = false
  conn : a.addConnected = false
  redef : a.allowRedef = false
  foNodup : a.fanout.Nodup
  fiNodup : a.fanin.Nodup
  notFi : a.n ∉ a.fanin

def newAttr (a : AddArgs) : Attr := { ty := some a.ty, out := some a.output }

def newEdges (a : AddArgs) : List (Name × Name) :=
  a.fanout.map (fun v => (a.n, v)) ++ a.fanin.map (fun u => (u, a.n))

/-- what a successful plain `add` does -/
structure AddOK (c : Circuit) (a : AddArgs) (c' : Circuit) : Prop where
  fresh : c.has a.n = false
  nodes : c'.nodes = c.nodes ++ [(a.n, newAttr a)]
  edges : c'.edges = c.edges ++ newEdges a
  bbs : c'.bbs = c.bbs
  wf : WF c'

theorem addC_ok {c c' : Circuit} {a : AddArgs} (h : Tx.addC c a = .ok c') :
    ∃ n, c.add a = (c', .ok, n) := by
  unfold Tx.addC addE at h
  generalize c.add a = r at h
  obtain ⟨c1, o, n⟩ := r
  cases o <;> first | (simp only [Except.map] at h; injection h with h; exact ⟨n, by rw [h]⟩) | cases h

theorem addTail_plain {c c' : Circuit} {a : AddArgs} {n m : Name} (hp : a.addConnected = false)
    (h : addTail c a n = (c', .ok, m)) :
    ∃ c2, (c.addNodeAttr n (newAttr a)).connect [n] a.fanout = (c2, .ok) ∧
      c2.connect a.fanin [n] = (c', .ok) := by
  unfold addTail at h
  simp only [hp, Bool.false_eq_true, if_false] at h
  have e1 : ((Outcome.ok != Outcome.ok) = true) = False := by simp
  simp only [e1, if_false] at h
  generalize hr3 : (c.addNodeAttr n { ty := some a.ty, out := some a.output }).connect [n] a.fanout = r3 at h
  obtain ⟨c2, o3⟩ := r3
  by_cases ho : o3 = .ok
  · subst ho
    simp only [e1, if_false] at h
    generalize hr4 : c2.connect a.fanin [n] = r4 at h
    obtain ⟨c4, o4⟩ := r4
    simp only [Prod.mk.injEq] at h
    obtain ⟨h1, h2, _⟩ := h
    subst h1; subst h2
    exact ⟨c2, hr3, hr4⟩
  · have : (o3 != Outcome.ok) = true := by simpa using ho
    simp only [this, if_true, Prod.mk.injEq] at h
    exact absurd h.2.1 ho

theorem addOK_of {c c' : Circuit} {a : AddArgs} (hc : WF c) (hp : Plain a) (h : Tx.addC c a = .ok c') :
    AddOK c a c' := by
  obtain ⟨m, hadd⟩ := addC_ok h
  rcases add_cases c a with ⟨o, m', e, ho⟩ | ⟨n, hn, hfresh, _, _, _, _, e⟩
  · rw [e] at hadd
    simp only [Prod.mk.injEq] at hadd
    obtain ⟨_, ho', _⟩ := hadd
    subst ho'
    rcases ho with ho | ⟨ho, _⟩ | ⟨ho, _⟩ <;> cases ho
  · simp only [hp.uid, Bool.false_eq_true, if_false] at hn
    injection hn with hn
    subst hn
    have hfr : c.has a.n = false := hfresh hp.redef
    rw [e] at hadd
    obtain ⟨c2, h3, h4⟩ := addTail_plain hp.conn hadd
    obtain ⟨e3, k3⟩ := connect_ok_eq h3
    obtain ⟨e4, k4⟩ := connect_ok_eq h4
    have hc1 : c.addNodeAttr a.n (newAttr a) = { c with nodes := c.nodes ++ [(a.n, newAttr a)] } :=
      Limit.addNodeAttr_fresh c a.n _ hfr
    have hne := Limit.fresh_not_edge hc hfr
    -- edges of c2
    have hnd3 : ([a.n].flatMap (fun u => a.fanout.map (fun v => (u, v)))).Nodup := by
      simp only [List.flatMap_cons, List.flatMap_nil, List.append_nil]
      exact nodup_map_of_inj hp.foNodup (fun x _ y _ e => by injection e)
    have hed2 : c2.edges = c.edges ++ a.fanout.map (fun v => (a.n, v)) := by
      rw [e3, addEdges_edges_disj _ _ _ hnd3]
      · rw [hc1]; simp only [List.flatMap_cons, List.flatMap_nil, List.append_nil]
      · intro u hu v hv he
        rw [hc1] at he
        simp only [List.mem_singleton] at hu
        subst hu
        exact (hne _ he).1 rfl
    have hnd4 : (a.fanin.flatMap (fun u => [a.n].map (fun v => (u, v)))).Nodup := by
      rw [flatMap_single]
      exact nodup_map_of_inj hp.fiNodup (fun x _ y _ e => by injection e)
    have hed4 : c'.edges = c.edges ++ newEdges a := by
      rw [e4, addEdges_edges_disj _ _ _ hnd4, flatMap_single, hed2]
      · unfold newEdges; rw [List.append_assoc]
      · intro u hu v hv he
        simp only [List.mem_singleton] at hv
        subst hv
        rw [hed2] at he
        rcases List.mem_append.1 he with he | he
        · exact (hne _ he).2 rfl
        · obtain ⟨x, _, hx⟩ := List.mem_map.1 he
          injection hx with hx1 hx2
          exact hp.notFi (hx1 ▸ hu)
    have hn2 : c2.nodes = c.nodes ++ [(a.n, newAttr a)] := by
      rw [e3, addEdges_nodes, hc1]
    have hn4 : c'.nodes = c.nodes ++ [(a.n, newAttr a)] := by
      rw [e4, addEdges_nodes, hn2]
    have hb4 : c'.bbs = c.bbs := by
      rw [e4, addEdges_bbs, e3, addEdges_bbs, addNodeAttr_bbs]
    have hhas1 : ∀ x, (c.addNodeAttr a.n (newAttr a)).has x = true → c'.has x = true := by
      intro x hx
      have : c'.nodes = (c.addNodeAttr a.n (newAttr a)).nodes := by rw [hn4, hc1]
      rw [has_congr this]; exact hx
    have hhas2 : ∀ x, c2.has x = true → c'.has x = true := by
      intro x hx
      have : c'.nodes = c2.nodes := by rw [hn4, hn2]
      rw [has_congr this]; exact hx
    have hhasn : c'.has a.n = true := (Limit.ext_has hn4 a.n).2 (Or.inr rfl)
    refine ⟨hfr, hn4, hed4, hb4, ?_, ?_, ?_⟩
    · rw [Limit.ext_nodeNames hn4]
      rw [List.nodup_append]
      refine ⟨hc.nodup, by simp, ?_⟩
      intro x hx y hy e
      simp only [List.mem_singleton] at hy
      subst hy; subst e
      rw [(has_iff_mem c _).2 hx] at hfr
      cases hfr
    · rw [e4]
      apply addEdges_nodup
      rw [e3]
      apply addEdges_nodup
      rw [addNodeAttr_edges]
      exact hc.edgesNodup
    · intro e he
      rw [hed4] at he
      rcases List.mem_append.1 he with he | he
      · exact ⟨(Limit.ext_has hn4 _).2 (Or.inl (hc.closed e he).1),
          (Limit.ext_has hn4 _).2 (Or.inl (hc.closed e he).2)⟩
      · unfold newEdges at he
        rcases List.mem_append.1 he with he | he
        · obtain ⟨x, hx, rfl⟩ := List.mem_map.1 he
          refine ⟨hhasn, ?_⟩
          have hne' : a.fanout ≠ [] := by intro h0; rw [h0] at hx; cases hx
          have := (connectCheck_none (k3 (by simp) hne')).2.1 x hx
          exact hhas1 x this
        · obtain ⟨x, hx, rfl⟩ := List.mem_map.1 he
          refine ⟨?_, hhasn⟩
          have hne' : a.fanin ≠ [] := by intro h0; rw [h0] at hx; cases hx
          have := (connectCheck_none (k4 hne' (by simp))).1 x hx
          exact hhas2 x this

/-! ### folds of plain `add` calls -/

theorem foldAdd_ok {α : Type} (g : α → AddArgs) (hg : ∀ x, Plain (g x)) :
    ∀ (l : List α) (c c' : Circuit), WF c → l.foldlM (fun m x => Tx.addC m (g x)) c = .ok c' →
      c'.nodes = c.nodes ++ l.map (fun x => ((g x).n, newAttr (g x))) ∧
      c'.edges = c.edges ++ l.flatMap (fun x => newEdges (g x)) ∧
      c'.bbs = c.bbs ∧ WF c' := by
  intro l
  induction l with
  | nil =>
    intro c c' hc h
    simp only [List.foldlM_nil] at h
    injection h with h
    subst h
    simp [hc]
  | cons x l ih =>
    intro c c' hc h
    obtain ⟨c1, h1, h2⟩ := foldlM_cons_ok h
    have A := addOK_of hc (hg x) h1
    obtain ⟨i1, i2, i3, i4⟩ := ih c1 c' A.wf h2
    refine ⟨?_, ?_, by rw [i3, A.bbs], i4⟩
    · rw [i1, A.nodes]; simp
    · rw [i2, A.edges]; simp

end Miter
end CG
