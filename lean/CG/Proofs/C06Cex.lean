/-
  Counterexample to the ORIGINAL statement of `CG.C06.add_subcircuit_sem` (without the hypothesis `hfb`):
  an output connection may feed back into a non-input node of the spliced child
  (`connections = {"out": "m_and_0"}`), which then has one more fan-in than in the child.
-/
import CG.Props.C06
namespace CG.C06.Cex
open CG Circuit CG.C06

def conns : List (Name × List Name) := [("out", ["m_and_0"])]
def P' : Circuit := (parent.addSubcircuit child "m" conns true).1
def v : Val := fun n => n == "m_sel_0" || n == "m_in_0"

theorem consistentB_sound (c : Circuit) (v : Val) (h : consistentB c v = true) : Consistent c v := by
  intro p hp t ht b hb
  unfold consistentB at h
  rw [List.all_eq_true] at h
  have := h p hp
  rw [ht] at this
  simp only [nodeOKB] at this
  rw [hb] at this
  simpa using this

theorem nodeOKB_complete (c : Circuit) (v : Val) (n : Name) (t : String) (h : NodeOK c v n t) :
    nodeOKB c v n t = true := by
  unfold nodeOKB
  cases hg : gateFn t ((c.fanin n).map v) with
  | none => rfl
  | some b => simp only []; rw [h b hg]; simp

theorem call_ok : parent.addSubcircuit child "m" conns true = (P', .ok) :=
  Prod.ext rfl (by decide)

/-- the statement of `add_subcircuit_sem` as originally given (no `hfb`) is false -/
theorem add_subcircuit_sem_orig_false :
    ¬ (∀ (P sc P' : Circuit) (name : Name) (conns : List (Name × List Name)),
        WF P → WF sc → P.addSubcircuit sc name conns true = (P', .ok) →
        ∀ (v : Val), Consistent P' v →
        (∀ p ∈ sc.nodes, ∀ t, p.2.ty = some t → t ≠ "input" → NodeOK sc (fun n => v (pref name n)) p.1 t) ∧
        (∀ p ∈ conns, p.1 ∈ sc.inputs → ∀ u ∈ p.2, v (pref name p.1) = v u) ∧
        (∀ p ∈ P.nodes, ∀ t, p.2.ty = some t →
            (∀ q ∈ conns, q.1 ∉ sc.inputs → p.1 ∉ q.2) → NodeOK P v p.1 t)) := by
  intro H
  have hP : WF parent := ⟨by decide, by decide, by decide⟩
  have hc : WF child := ⟨by decide, by decide, by decide⟩
  have hv : Consistent P' v := consistentB_sound _ _ (by decide)
  obtain ⟨a, _, _⟩ := H parent child P' "m" conns hP hc call_ok v hv
  have := nodeOKB_complete _ _ _ _
    (a ("and_0", { ty := some "and", out := some false }) (by decide) "and" rfl (by decide))
  exact absurd this (by decide)

end CG.C06.Cex
