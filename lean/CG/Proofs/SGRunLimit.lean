/- C17 (whole function) helpers, part 2: `limit_fanin` keeps acyclicity and introduces no node typed `bb_output`
   (one grouping step, then the two loops replayed with the stronger relation `SRel`). -/
import CG.Proofs.LimitFaninLoop
import CG.Proofs.LintLinkLimit
namespace CG
namespace SGRun
open Circuit Limit

/-- `Limit.FiRel` together with what `tx.supergates` needs on top of C05 -/
structure SRel (c c' : Circuit) : Prop where
  fi : FiRel c c'
  acyc : Acyclic c → Acyclic c'
  bbo : ∀ m, c'.ty? m = some "bb_output" → c.ty? m = some "bb_output"

theorem SRel.refl {c : Circuit} (hc : LintClean c) : SRel c c := ⟨FiRel.refl hc, fun h => h, fun _ h => h⟩

theorem SRel.trans {c1 c2 c3 : Circuit} (h12 : SRel c1 c2) (h23 : SRel c2 c3) : SRel c1 c3 :=
  ⟨h12.fi.trans h23.fi, fun h => h23.acyc (h12.acyc h), fun m h => h12.bbo m (h23.bbo m h)⟩

/-- one grouping step keeps the circuit acyclic: the new gate gets a rank just below that of the gate it feeds -/
theorem step_acyclic {c : Circuit} {n f0 f1 r : Name} {t g : String} (h : FaninPre c n f0 f1 r t g)
    (hac : Acyclic c) : Acyclic (faninStep c n f0 f1 r g) := by
  obtain ⟨rank, hr⟩ := hac
  refine ⟨fun m => if m = r then 2 * rank n - 1 else 2 * rank m, ?_⟩
  have h0 := hr _ h.e0
  have h1 := hr _ h.e1
  simp only at h0 h1
  intro e he
  rcases (faninStep_mem_edges c n f0 f1 r g e).mp he with ⟨he, _⟩ | rfl | rfl | rfl
  · have hne := h.noedge e he
    have := hr e he
    simp only [if_neg hne.1, if_neg hne.2]
    omega
  · simp only [if_neg h.nr, if_true]
    omega
  · simp only [if_neg h.r0, if_true]
    omega
  · simp only [if_neg h.r1, if_true]
    omega

theorem step_bbo {c : Circuit} {n f0 f1 r : Name} {t g : String} (h : FaninPre c n f0 f1 r t g) (m : Name)
    (hty : (faninStep c n f0 f1 r g).ty? m = some "bb_output") : c.ty? m = some "bb_output" := by
  rcases h.ty_cases hty with ⟨_, _, h3⟩ | ⟨_, h2⟩
  · exact h3
  · have hg := h.gg
    rw [← h2] at hg
    simp at hg

theorem step_srel {c : Circuit} {n f0 f1 r : Name} {t g : String} (h : FaninPre c n f0 f1 r t g) :
    SRel c (faninStep c n f0 f1 r g) := ⟨h.step_rel, step_acyclic h, step_bbo h⟩

/-- the inner `while` loop of `limit_fanin` for node `n` (as `Limit.limitFaninNode_ok`, with `SRel`) -/
theorem limitFaninNode_ok (k : Nat) (hk : 2 ≤ k) (ord : Ord) (hord : OrdOK ord) (n : Name) :
    ∀ (fuel i : Nat) (ck : Circuit), LintClean ck → (ck.fanin n).length + 1 ≤ fuel →
      (k < (ck.fanin n).length → isDigit0 n = false) →
      ∃ ck', Tx.limitFaninNode k ord n fuel i ck = .ok ck' ∧ SRel ck ck' ∧ (ck'.fanin n).length ≤ k
  | 0, _, _, _, hf, _ => by omega
  | fuel + 1, i, ck, hc, hf, hd => by
    by_cases hgt : (ck.fanin n).length > k
    · have hperm := hord (ck.fanin n)
      have hlen := hperm.length_eq
      match hl : ord (ck.fanin n), hlen with
      | [], hlen => simp at hlen; omega
      | [x], hlen => simp at hlen; omega
      | f0 :: f1 :: rest, _ =>
        rw [hl] at hperm
        have hnd : (f0 :: f1 :: rest).Nodup := (hperm.nodup_iff).mpr (RU.fanin_nodup ck hc.edgesNodup n)
        have hne : f0 ≠ f1 := by
          intro he
          rw [he] at hnd
          simp at hnd
        have e0 : (f0, n) ∈ ck.edges := (RU.mem_fanin ck f0 n).mp (hperm.subset (by simp))
        have e1 : (f1, n) ∈ ck.edges := (RU.mem_fanin ck f1 n).mp (hperm.subset (by simp))
        have hhas : ck.has n = true := (hc.closed _ e0).2
        obtain ⟨t, hty, htm⟩ := multi_of_fanin hc hhas (by omega)
        obtain ⟨g, hlook, hgm⟩ := gatemapLookup_multi htm
        have hsome := uid_isSome ck (n ++ "_limit_fanin_" ++ toString i) []
        obtain ⟨r, hr⟩ := Option.isSome_iff_exists.mp hsome
        have hfresh := (uid_spec ck _ r hr).1
        have hok : NameOK r := nameOK_uid ck n "_limit_fanin_" (toString i) r "limit_fanin_".toList (by decide) (hd hgt) hr
        have hpre : FaninPre ck n f0 f1 r t g := ⟨hc, e0, e1, hne, hty, hgm, hfresh⟩
        have hadd := hpre.addE_eq _ hr hok
        have hty' : (ck.disconnect [f0, f1] [n]).ty? n = some t := hty
        have hm := hpre.fanin_n_length
        obtain ⟨ck', hrun, hrel, hfin⟩ := limitFaninNode_ok k hk ord hord n fuel (i + 1)
          (faninStep ck n f0 f1 r g) hpre.step_lintClean (by omega) (fun _ => hd hgt)
        refine ⟨ck', ?_, (step_srel hpre).trans hrel, hfin⟩
        unfold Tx.limitFaninNode
        simp only [hgt, if_true, hl, hty', hlook, hadd]
        exact hrun
    · refine ⟨ck, ?_, SRel.refl hc, by omega⟩
      unfold Tx.limitFaninNode
      simp only [hgt, if_false]

/-- the outer loop of `limit_fanin` (as `Limit.limitFanin_fold`, with `SRel`) -/
theorem limitFanin_fold (c : Circuit) (k : Nat) (hk : 2 ≤ k) (ord : Ord) (hord : OrdOK ord)
    (hname : ∀ n, k < (c.fanin n).length → isDigit0 n = false) :
    ∀ (L : List Name) (D : Name → Prop) (ck : Circuit), SRel c ck → (∀ m, D m → (ck.fanin m).length ≤ k) →
      ∃ c', L.foldlM (fun ck n => Tx.limitFaninNode k ord n (ck.edges.length + 2) 0 ck) ck = .ok c' ∧
        SRel c c' ∧ ∀ m, (D m ∨ m ∈ L) → (c'.fanin m).length ≤ k
  | [], D, ck, hrel, hD => ⟨ck, rfl, hrel, fun m hm => by
      rcases hm with hm | hm
      · exact hD m hm
      · simp at hm⟩
  | n :: L, D, ck, hrel, hD => by
    have hfuel : (ck.fanin n).length + 1 ≤ ck.edges.length + 2 := by
      have := fanin_length_le_edges ck n
      omega
    have hdig : k < (ck.fanin n).length → isDigit0 n = false := by
      intro hlt
      apply hname
      have := hrel.fi.fanin n
      omega
    obtain ⟨ck1, hrun, hrel1, hfin⟩ := limitFaninNode_ok k hk ord hord n _ 0 ck hrel.fi.lc hfuel hdig
    obtain ⟨c', hrun', hrel', hall⟩ := limitFanin_fold c k hk ord hord hname L (fun m => D m ∨ m = n) ck1
      (hrel.trans hrel1) (by
        intro m hm
        rcases hm with hm | rfl
        · have h1 := hD m hm
          have h2 := hrel1.fi.fanin m
          omega
        · exact hfin)
    refine ⟨c', ?_, hrel', ?_⟩
    · rw [List.foldlM_cons, hrun]
      exact hrun'
    · intro m hm
      apply hall
      rcases hm with hm | hm
      · exact Or.inl (Or.inl hm)
      · rcases List.mem_cons.mp hm with rfl | hm
        · exact Or.inl (Or.inr rfl)
        · exact Or.inr hm

/-- `limit_fanin(c, k)` on a lint-clean circuit: success, the fan-in bound, and `SRel` -/
theorem limit_fanin_srel (c : Circuit) (k : Nat) (hk : 2 ≤ k) (ord : Ord) (hord : OrdOK ord) (hc : LintClean c)
    (hname : ∀ n, k < (c.fanin n).length → isDigit0 n = false) :
    ∃ c', Tx.limitFanin c k ord = .ok c' ∧ (∀ n, (c'.fanin n).length ≤ k) ∧ SRel c c' ∧ c'.bbs = c.bbs := by
  obtain ⟨c', hrun, hrel, hall⟩ := limitFanin_fold c k hk ord hord hname (ord c.nodeNames) (fun _ => False) c
    (SRel.refl hc) (fun _ hm => hm.elim)
  have hrun' : Tx.limitFanin c k ord = .ok c' := by
    unfold Tx.limitFanin
    rw [if_neg (by omega)]
    exact hrun
  refine ⟨c', hrun', ?_, hrel, (LintLink.limitFanin_dotExt c c' k ord hord hrun').bbs⟩
  intro m
  by_cases hm : c.has m = true
  · apply hall
    right
    exact (hord c.nodeNames).mem_iff.mpr ((RU.has_iff c m).mp hm)
  · have hnil : (c.fanin m).length = 0 := by
      cases hlen : (c.fanin m).length with
      | zero => rfl
      | succ j => exact absurd (has_of_fanin_pos hc.toWF (by omega)) hm
    have := hrel.fi.fanin m
    omega

end SGRun
end CG
