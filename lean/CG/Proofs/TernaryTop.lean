/- C10 helper: the statements of C10 in terms of the helper vocabulary -/
import CG.Proofs.TernarySem
namespace CG
namespace Ternary
open Circuit

variable {c : Circuit}

theorem mappingOf_fst (c : Circuit) : (mappingOf c).map (·.1) = c.nodeNames := by
  unfold mappingOf
  rw [List.map_map]
  exact List.map_id _

theorem mappingOf_snd (c : Circuit) : (mappingOf c).map (·.2) = c.nodeNames.map (gOf c) := by
  unfold mappingOf
  rw [List.map_map]
  rfl

theorem mappingOf_snd_nodup (g : GoodC c) : ((mappingOf c).map (·.2)).Nodup := by
  rw [mappingOf_snd]
  apply nodup_map_of_inj g.clean.nodup
  intro a ha b hb e
  have ha' := (has_iff_mem c a).mpr ha
  have hb' := (has_iff_mem c b).mpr hb
  rw [← mpOf_eq ha', ← mpOf_eq hb'] at e
  exact (mapOK_mpOf c).inj ha' hb' e

theorem mappingOf_mem {p : Name × Name} (h : p ∈ mappingOf c) : c.has p.1 = true ∧ p.2 = mpOf c p.1 := by
  unfold mappingOf at h
  obtain ⟨n, hn, rfl⟩ := List.mem_map.mp h
  have := (has_iff_mem c n).mpr hn
  exact ⟨this, (mpOf_eq this).symm⟩

/-- what a successful run returns -/
theorem ternary_result (g : GoodC c) (hbb : c.bbs = []) {ord : Ord} (hord : OrdOK ord) {t : Circuit}
    {mapping : List (Name × Name)} (h : Tx.ternary c ord = .ok (t, mapping)) :
    mapping = mappingOf c ∧ TInv c (mpOf c) c.nodeNames [] t := by
  obtain ⟨t', e, inv⟩ := ternary_run g hbb hord
  rw [e] at h
  injection h with h
  injection h with h1 h2
  subst h1 h2
  exact ⟨rfl, inv⟩

/-- the Kleene evaluation of `c` under the pattern denoted by a consistent valuation of the encoded circuit
    is that pattern, at every node and for every evaluation order -/
theorem kleene_eq (g : GoodC c) {t : Circuit} (inv : TInv c (mpOf c) c.nodeNames [] t) {v : Val}
    (hv : Consistent t v) (order : List Name) (n : Name) :
    eval3 c order (patOf v (mpOf c)) n = patOf v (mpOf c) n :=
  eval3_fix c order _ (fun m _ => sem_fix g inv hv m) n

end Ternary
end CG
