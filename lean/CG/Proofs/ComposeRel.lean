/- helper lemmas for C06: relabelOne / relabel on circuits that are only `WF` (no typing discipline),
   with the exact edge image -/
import CG.Proofs.ComposeView
set_option linter.unusedSimpArgs false
set_option linter.unusedVariables false
namespace CG
open Circuit

/-! ### relabelOne: rename an existing node to a fresh name -/

theorem relabelOne_view' {c : Circuit} (hnd : c.nodeNames.Nodup) (hed : c.edges.Nodup) {old new : Name}
    (ho : c.has old = true) (hn : c.has new = false) :
    (c.relabelOne old new).nodeNames.Nodup ∧ (c.relabelOne old new).edges.Nodup ∧
    (c.relabelOne old new).bbs = c.bbs ∧
    (∀ m, (c.relabelOne old new).attr? m =
      if m = old then none else if m = new then c.attr? old else c.attr? m) ∧
    (∀ e, e ∈ (c.relabelOne old new).edges ↔
      ∃ e0 ∈ c.edges, e = (if e0.1 = old then new else e0.1, if e0.2 = old then new else e0.2)) := by
  have hne : new ≠ old := by intro e; subst e; rw [ho] at hn; cases hn
  have hne' : (new == old) = false := by simpa using hne
  have ho' := ho
  rw [has_eq_isSome] at ho'
  unfold relabelOne
  cases ha : c.attr? old with
  | none => rw [ha] at ho'; simp at ho'
  | some a =>
    simp only [hne', Bool.false_eq_true, if_false]
    generalize hout : ((c.edges.filter (·.1 == old)).map (fun e => (new, if e.2 == old then new else e.2))) = outE
    generalize hin : ((c.edges.filter (·.2 == old)).map (fun e => (if e.1 == old then new else e.1, new))) = inE
    have hnodes := foldl_addEdge_nodes (outE ++ inE) ((c.addNodeAttr new a).removeNode old)
    have hattr : ∀ m, (List.foldl (fun c e => c.addEdge e.1 e.2) ((c.addNodeAttr new a).removeNode old)
        (outE ++ inE)).attr? m = if m = old then none else if m = new then some a else c.attr? m := by
      intro m
      rw [attr?_congr hnodes, removeNode_attr?, addNodeAttr_attr?, attr?_none_of_not_has hn]
    refine ⟨?_, ?_, by rw [foldl_addEdge_bbs, removeNode_bbs, addNodeAttr_bbs], hattr, ?_⟩
    · rw [nodeNames_congr hnodes]
      exact removeNode_nodup old (addNodeAttr_nodup new a hnd)
    · apply foldl_addEdge_nodup
      apply removeNode_edges_nodup
      rw [addNodeAttr_edges]; exact hed
    · intro e
      rw [foldl_addEdge_mem, removeNode_mem, addNodeAttr_edges, List.mem_append, ← hout, ← hin]
      simp only [List.mem_map, List.mem_filter]
      constructor
      · rintro (⟨h1, h2, h3⟩ | ⟨e0, ⟨h0, hk⟩, rfl⟩ | ⟨e0, ⟨h0, hk⟩, rfl⟩)
        · exact ⟨e, h1, by rw [if_neg h2, if_neg h3]⟩
        · refine ⟨e0, h0, ?_⟩
          have : e0.1 = old := by simpa using hk
          rw [if_pos this]
          by_cases h2 : e0.2 = old
          · simp [h2]
          · simp [h2]
        · refine ⟨e0, h0, ?_⟩
          have : e0.2 = old := by simpa using hk
          rw [if_pos this]
          by_cases h2 : e0.1 = old
          · simp [h2]
          · simp [h2]
      · rintro ⟨e0, h0, rfl⟩
        by_cases e1 : e0.1 = old
        · right; left
          refine ⟨e0, ⟨h0, by simpa using e1⟩, ?_⟩
          rw [if_pos e1]
          by_cases h2 : e0.2 = old
          · simp [h2]
          · simp [h2]
        · by_cases e2 : e0.2 = old
          · right; right
            refine ⟨e0, ⟨h0, by simpa using e2⟩, ?_⟩
            rw [if_pos e2]
            simp [e1]
          · left
            rw [if_neg e1, if_neg e2]
            exact ⟨h0, e1, e2⟩

/-! ### relabel: a fold of relabelOne -/

/-- the renaming performed so far -/
def rD (m : List (Name × Name)) (D : List Name) (x : Name) : Name :=
  if x ∈ D then (m.lookup x).getD x else x

structure RelInv' (c : Circuit) (m : List (Name × Name)) (D : List Name) (ck : Circuit) : Prop where
  nodup : ck.nodeNames.Nodup
  edgesNodup : ck.edges.Nodup
  bbs : ck.bbs = c.bbs
  a : ∀ x ∈ D, ck.attr? x = none
  b : ∀ x ∈ D, ∀ n, m.lookup x = some n → ck.attr? n = c.attr? x
  cc : ∀ y, y ∉ D → (∀ x ∈ D, m.lookup x ≠ some y) → ck.attr? y = c.attr? y
  edges : ∀ e, e ∈ ck.edges ↔ ∃ e0 ∈ c.edges, e = (rD m D e0.1, rD m D e0.2)

theorem RelInv'.step {c : Circuit} {m : List (Name × Name)}
    (hfresh : ∀ x n, m.lookup x = some n → c.has n = false)
    (hinj : ∀ x y n, m.lookup x = some n → m.lookup y = some n → x = y)
    {D : List Name} {ck : Circuit} (I : RelInv' c m D ck) (hD : ∀ x ∈ D, c.has x = true)
    (hDl : ∀ x ∈ D, (m.lookup x).isSome = true)
    {o n : Name} (hoD : o ∉ D) (ho : c.has o = true) (hl : m.lookup o = some n) :
    RelInv' c m (D ++ [o]) (ck.relabelOne o n) := by
  have hcn : c.has n = false := hfresh o n hl
  have ao : ck.attr? o = c.attr? o := by
    apply I.cc o hoD
    intro x _ hx
    rw [hfresh x o hx] at ho; cases ho
  have an : ck.attr? n = c.attr? n := by
    apply I.cc n
    · intro hnD; rw [hD n hnD] at hcn; cases hcn
    · intro x hx hx'
      have := hinj x o n hx' hl
      subst this; exact hoD hx
  have hko : ck.has o = true := by rw [has_eq_isSome, ao, ← has_eq_isSome]; exact ho
  have hkn : ck.has n = false := by
    rw [has_eq_isSome, an, ← has_eq_isSome]; exact hcn
  obtain ⟨w1, w2, hb, hat, hedg⟩ := relabelOne_view' I.nodup I.edgesNodup hko hkn
  have hno : n ≠ o := by intro e; subst e; rw [ho] at hcn; cases hcn
  refine ⟨w1, w2, by rw [hb, I.bbs], ?_, ?_, ?_, ?_⟩
  · intro x hx
    rw [hat]
    rcases List.mem_append.1 hx with hx | hx
    · by_cases e1 : x = o
      · rw [if_pos e1]
      · rw [if_neg e1]
        have : x ≠ n := by intro e; subst e; rw [hD x hx] at hcn; cases hcn
        rw [if_neg this]; exact I.a x hx
    · simp at hx; rw [if_pos hx]
  · intro x hx n' hl'
    rw [hat]
    have hcn' : c.has n' = false := hfresh x n' hl'
    have h1 : n' ≠ o := by intro e; subst e; rw [ho] at hcn'; cases hcn'
    rw [if_neg h1]
    rcases List.mem_append.1 hx with hxD | hxo
    · have h2 : n' ≠ n := by
        intro e; subst e
        have := hinj x o n' hl' hl
        subst this; exact hoD hxD
      rw [if_neg h2]; exact I.b x hxD n' hl'
    · simp at hxo; subst hxo
      rw [hl] at hl'; injection hl' with hl'; subst hl'
      rw [if_pos rfl]; exact ao
  · intro y hy hy'
    rw [hat]
    have h1 : y ≠ o := by intro e; apply hy; simp [e]
    have h2 : y ≠ n := by intro e; subst e; exact hy' o (by simp) hl
    rw [if_neg h1, if_neg h2]
    apply I.cc y
    · intro hyD; apply hy; simp [hyD]
    · intro x hx; exact hy' x (by simp [hx])
  · -- edges: compose the renamings
    have hcomp : ∀ x, (if rD m D x = o then n else rD m D x) = rD m (D ++ [o]) x := by
      intro x
      unfold rD
      by_cases hxD : x ∈ D
      · have hxD' : x ∈ D ++ [o] := List.mem_append.2 (Or.inl hxD)
        rw [if_pos hxD, if_pos hxD']
        have hs := hDl x hxD
        cases hlx : m.lookup x with
        | none => rw [hlx] at hs; simp at hs
        | some n' =>
          simp only [Option.getD_some]
          have : n' ≠ o := by
            intro e; subst e
            rw [hfresh x n' hlx] at ho; cases ho
          rw [if_neg this]
      · rw [if_neg hxD]
        by_cases hxo : x = o
        · subst hxo
          have : x ∈ D ++ [x] := by simp
          rw [if_pos rfl, if_pos this, hl]; rfl
        · have : x ∉ D ++ [o] := by simp [hxD, hxo]
          rw [if_neg hxo, if_neg this]
    intro e
    rw [hedg]
    constructor
    · rintro ⟨e1, he1, rfl⟩
      obtain ⟨e0, he0, rfl⟩ := (I.edges e1).1 he1
      exact ⟨e0, he0, by simp only [hcomp]⟩
    · rintro ⟨e0, he0, rfl⟩
      refine ⟨(rD m D e0.1, rD m D e0.2), (I.edges _).2 ⟨e0, he0, rfl⟩, ?_⟩
      simp only [hcomp]

theorem RelInv'.fold {c : Circuit} {m : List (Name × Name)}
    (hfresh : ∀ x n, m.lookup x = some n → c.has n = false)
    (hinj : ∀ x y n, m.lookup x = some n → m.lookup y = some n → x = y) :
    ∀ (todo D : List Name) (ck : Circuit), RelInv' c m D ck → (D ++ todo).Nodup →
      (∀ x ∈ D ++ todo, c.has x = true ∧ (m.lookup x).isSome = true) →
      RelInv' c m (D ++ todo) (todo.foldl (fun c o => match m.lookup o with
        | some n => c.relabelOne o n | none => c) ck) := by
  intro todo
  induction todo with
  | nil => intro D ck I _ _; simpa using I
  | cons o todo ih =>
    intro D ck I hnd hall
    simp only [List.foldl_cons]
    have ho := hall o (by simp)
    cases hl : m.lookup o with
    | none => rw [hl] at ho; simp at ho
    | some n =>
      simp only []
      have hoD : o ∉ D := by
        intro hx
        have := (List.nodup_append.1 hnd).2.2 o hx o (by simp)
        exact this rfl
      have I' := I.step hfresh hinj (fun x hx => (hall x (by simp [hx])).1)
        (fun x hx => (hall x (by simp [hx])).2) hoD ho.1 hl
      have e : D ++ o :: todo = (D ++ [o]) ++ todo := by simp
      rw [e] at hnd hall ⊢
      exact ih (D ++ [o]) _ I' hnd hall

theorem relabel_view' {c : Circuit} (hnd : c.nodeNames.Nodup) (hed : c.edges.Nodup) (m : List (Name × Name))
    (hfresh : ∀ x n, m.lookup x = some n → c.has n = false)
    (hinj : ∀ x y n, m.lookup x = some n → m.lookup y = some n → x = y) :
    RelInv' c m (c.nodeNames.filter (fun n => (m.lookup n).isSome)) (c.relabel m) := by
  unfold relabel
  simp only []
  have I0 : RelInv' c m [] c :=
    ⟨hnd, hed, rfl, fun x hx => (by cases hx), fun x hx => (by cases hx), fun _ _ _ => rfl, fun e => by
      constructor
      · intro he; exact ⟨e, he, by simp [rD]⟩
      · rintro ⟨e0, he0, rfl⟩; simpa [rD] using he0⟩
  have hmem : ∀ x, x ∈ c.nodeNames.filter (fun n => (m.lookup n).isSome) ↔
      (c.has x = true ∧ (m.lookup x).isSome = true) := by
    intro x; rw [List.mem_filter, has_iff_mem]
  have I := RelInv'.fold hfresh hinj (c.nodeNames.filter (fun n => (m.lookup n).isSome)) [] c I0
    (by simpa using nodup_filter _ hnd) (by intro x hx; exact (hmem x).1 (by simpa using hx))
  simp only [List.nil_append] at I
  exact I

/-! ### the pin renaming of fill_blackbox -/

theorem fill_relabel' {c : Circuit} (h : WF c) (inst : Name) (P : List Name)
    (hfr : ∀ p ∈ P, c.has (pref inst p) = false) (ρ : Name → Name)
    (hρ1 : ∀ p ∈ P, ρ (inst ++ "." ++ p) = pref inst p) (hρ2 : ∀ x, (∀ p ∈ P, x ≠ inst ++ "." ++ p) → ρ x = x) :
    (c.relabel (P.map (fun p => (inst ++ "." ++ p, pref inst p)))).nodeNames.Nodup ∧
    (c.relabel (P.map (fun p => (inst ++ "." ++ p, pref inst p)))).edges.Nodup ∧
    (c.relabel (P.map (fun p => (inst ++ "." ++ p, pref inst p)))).bbs = c.bbs ∧
    (∀ p ∈ P, (c.relabel (P.map (fun p => (inst ++ "." ++ p, pref inst p)))).attr? (pref inst p) =
        c.attr? (inst ++ "." ++ p)) ∧
    (∀ p ∈ P, (c.relabel (P.map (fun p => (inst ++ "." ++ p, pref inst p)))).attr? (inst ++ "." ++ p) = none) ∧
    (∀ y, (∀ p ∈ P, y ≠ inst ++ "." ++ p) → (∀ p ∈ P, y ≠ pref inst p) →
      (c.relabel (P.map (fun p => (inst ++ "." ++ p, pref inst p)))).attr? y = c.attr? y) ∧
    (∀ e, e ∈ (c.relabel (P.map (fun p => (inst ++ "." ++ p, pref inst p)))).edges ↔
      ∃ e0 ∈ c.edges, e = (ρ e0.1, ρ e0.2)) := by
  have hfresh : ∀ x n, (P.map (fun p => (inst ++ "." ++ p, pref inst p))).lookup x = some n → c.has n = false := by
    intro x n hl
    obtain ⟨p, hp, _, e⟩ := pinmap_lookup hl
    rw [e]; exact hfr p hp
  have hinj : ∀ x y n, (P.map (fun p => (inst ++ "." ++ p, pref inst p))).lookup x = some n →
      (P.map (fun p => (inst ++ "." ++ p, pref inst p))).lookup y = some n → x = y := by
    intro x y n hx hy
    obtain ⟨p, _, e1, e2⟩ := pinmap_lookup hx
    obtain ⟨p', _, e1', e2'⟩ := pinmap_lookup hy
    rw [e2] at e2'
    rw [e1, e1', pref_inj inst e2']
  have I := relabel_view' h.nodup h.edgesNodup _ hfresh hinj
  generalize hm : P.map (fun p => (inst ++ "." ++ p, pref inst p)) = m at I hfresh hinj
  have hmem : ∀ x, x ∈ c.nodeNames.filter (fun n => (m.lookup n).isSome) ↔
      (c.has x = true ∧ (m.lookup x).isSome = true) := by
    intro x; rw [List.mem_filter, has_iff_mem]
  generalize hD : c.nodeNames.filter (fun n => (m.lookup n).isSome) = D at I hmem
  have hlm : ∀ p ∈ P, m.lookup (inst ++ "." ++ p) = some (pref inst p) := by
    intro p hp; rw [← hm]; exact pinmap_lookup_mem hp
  have hlk : ∀ x n, m.lookup x = some n → ∃ p ∈ P, x = inst ++ "." ++ p ∧ n = pref inst p := by
    intro x n hl; rw [← hm] at hl; exact pinmap_lookup hl
  refine ⟨I.nodup, I.edgesNodup, I.bbs, ?_, ?_, ?_, ?_⟩
  · intro p hp
    cases hh : c.has (inst ++ "." ++ p) with
    | true => exact I.b _ ((hmem _).2 ⟨hh, by rw [hlm p hp]; rfl⟩) _ (hlm p hp)
    | false =>
      rw [attr?_none_of_not_has hh, ← attr?_none_of_not_has (hfr p hp)]
      apply I.cc
      · intro hx
        have := ((hmem _).1 hx).1
        rw [hfr p hp] at this; cases this
      · intro x hx hl
        obtain ⟨p', _, e1, e2⟩ := hlk _ _ hl
        have := pref_inj inst e2
        subst this
        rw [e1] at hx
        have := ((hmem _).1 hx).1
        rw [hh] at this; cases this
  · intro p hp
    cases hh : c.has (inst ++ "." ++ p) with
    | true => exact I.a _ ((hmem _).2 ⟨hh, by rw [hlm p hp]; rfl⟩)
    | false =>
      rw [← attr?_none_of_not_has hh]
      apply I.cc
      · intro hx
        have := ((hmem _).1 hx).1
        rw [hh] at this; cases this
      · intro x _ hl
        obtain ⟨p', _, _, e2⟩ := hlk _ _ hl
        exact pin_ne_pref inst p p' e2
  · intro y hy1 hy2
    apply I.cc
    · intro hx
      have := ((hmem _).1 hx).2
      cases hl : m.lookup y with
      | none => rw [hl] at this; simp at this
      | some n =>
        obtain ⟨p, hp, e1, _⟩ := hlk _ _ hl
        exact hy1 p hp e1
    · intro x _ hl
      obtain ⟨p, hp, _, e2⟩ := hlk _ _ hl
      exact hy2 p hp e2
  · have hr : ∀ x, c.has x = true → rD m D x = ρ x := by
      intro x hx
      unfold rD
      by_cases hxD : x ∈ D
      · rw [if_pos hxD]
        have := ((hmem x).1 hxD).2
        cases hl : m.lookup x with
        | none => rw [hl] at this; simp at this
        | some n =>
          obtain ⟨p, hp, e1, e2⟩ := hlk _ _ hl
          rw [e1, hρ1 p hp, e2]; rfl
      · rw [if_neg hxD]
        symm
        apply hρ2
        intro p hp e
        apply hxD
        exact (hmem x).2 ⟨hx, by rw [e, hlm p hp]; rfl⟩
    intro e
    rw [I.edges]
    constructor
    · rintro ⟨e0, he0, rfl⟩
      exact ⟨e0, he0, by rw [hr _ (h.closed e0 he0).1, hr _ (h.closed e0 he0).2]⟩
    · rintro ⟨e0, he0, rfl⟩
      exact ⟨e0, he0, by rw [hr _ (h.closed e0 he0).1, hr _ (h.closed e0 he0).2]⟩

end CG
