/- C13 helper (popcount 1/3): bit-vector arithmetic over lists of nets, relabelling one node, a loop of connects -/
import CG.Proofs.ArithAdder
set_option linter.unusedSimpArgs false
set_option linter.unusedVariables false
namespace CG
namespace Arith
open Logic Circuit Limit
open Tx (addC)

/-! ### sums of bits -/

def sumBits (g : Nat → Bool) (n : Nat) : Nat :=
  (List.range n).foldl (fun acc i => acc + b2n (g i) * 2 ^ i) 0

theorem bitsVal_eq_sumBits (v : Val) (pre : String) (w : Nat) :
    bitsVal v pre w = sumBits (fun i => v (pre ++ toString i)) w := rfl

theorem sumBits_zero (g : Nat → Bool) : sumBits g 0 = 0 := rfl

theorem sumBits_succ (g : Nat → Bool) (n : Nat) : sumBits g (n + 1) = sumBits g n + b2n (g n) * 2 ^ n := by
  unfold sumBits
  rw [List.range_succ, List.foldl_append]
  rfl

theorem sumBits_congr {g g' : Nat → Bool} : ∀ n, (∀ j, j < n → g j = g' j) → sumBits g n = sumBits g' n
  | 0, _ => rfl
  | n + 1, h => by
    rw [sumBits_succ, sumBits_succ, sumBits_congr n (fun j hj => h j (by omega)), h n (by omega)]

/-- extra high bits that are all false do not change the value -/
theorem sumBits_pad {g : Nat → Bool} (n : Nat) : ∀ m, (∀ j, n ≤ j → j < n + m → g j = false) →
    sumBits g (n + m) = sumBits g n
  | 0, _ => rfl
  | m + 1, h => by
    rw [← Nat.add_assoc, sumBits_succ, h (n + m) (by omega) (by omega), sumBits_pad n m (fun j h1 h2 => h j h1 (by omega))]
    simp [b2n]

/-- value of a little-endian vector of nets -/
def vecVal (v : Val) (l : List Name) : Nat := sumBits (fun j => v (l.getD j "")) l.length

theorem sum_b2n_eq_length_filter (g : Nat → Bool) : ∀ l : List Nat,
    (l.map (fun i => b2n (g i))).sum = (l.filter g).length
  | [] => rfl
  | x :: l => by
    rw [List.map_cons, List.sum_cons, sum_b2n_eq_length_filter g l, List.filter_cons]
    cases g x <;> simp [b2n] <;> omega

theorem vecVal_singleton (v : Val) (x : Name) : vecVal v [x] = b2n (v x) := by
  simp [vecVal, sumBits_succ, sumBits_zero]

/-! ### padding -/

theorem length_padTo (l : List Name) (n : Nat) (h : l.length ≤ n) : (padTo l n).length = n := by
  unfold padTo
  rw [List.length_append, List.length_replicate]
  omega

theorem mem_padTo {l : List Name} {n : Nat} {x : Name} (h : x ∈ padTo l n) : x ∈ l ∨ x = "tie0" := by
  unfold padTo at h
  rcases List.mem_append.1 h with h | h
  · exact Or.inl h
  · exact Or.inr (List.eq_of_mem_replicate h)

theorem getD_padTo_lt (l : List Name) (n j : Nat) (h : j < l.length) : (padTo l n).getD j "" = l.getD j "" := by
  unfold padTo
  simp [List.getD, List.getElem?_append_left h]

theorem getD_padTo_ge (l : List Name) (n j : Nat) (h : l.length ≤ j) (hj : j < n) : (padTo l n).getD j "" = "tie0" := by
  unfold padTo
  simp only [List.getD]
  rw [List.getElem?_append_right h, List.getElem?_replicate]
  rw [if_pos (by omega)]
  rfl

theorem vecVal_padTo (v : Val) (l : List Name) (n : Nat) (h : l.length ≤ n) (ht : v "tie0" = false) :
    vecVal v (padTo l n) = vecVal v l := by
  unfold vecVal
  rw [length_padTo l n h]
  have e : n = l.length + (n - l.length) := by omega
  rw [e, sumBits_pad]
  · apply sumBits_congr
    intro j hj
    exact congrArg v (getD_padTo_lt l _ j hj)
  · intro j h1 h2
    show v ((padTo l (l.length + (n - l.length))).getD j "") = false
    rw [getD_padTo_ge l _ j h1 (by omega), ht]

theorem getD_mem_padTo (l : List Name) (n j : Nat) (h : l.length ≤ n) (hj : j < n) :
    (padTo l n).getD j "" ∈ padTo l n := by
  have : j < (padTo l n).length := by rw [length_padTo l n h]; exact hj
  simp only [List.getD, List.getElem?_eq_getElem this, Option.getD_some]
  exact List.getElem_mem this

/-! ### relabelling one node to a fresh name -/

theorem filter_beq_of_nodup : ∀ (l : List Name) (a : Name), l.Nodup → a ∈ l → l.filter (fun n => n == a) = [a]
  | [], _, _, h => by cases h
  | x :: l, a, hnd, h => by
    have hnd' := List.nodup_cons.mp hnd
    by_cases hx : x = a
    · subst hx
      have : l.filter (fun n => n == x) = [] := by
        rw [List.filter_eq_nil_iff]
        intro y hy
        have : y ≠ x := by rintro rfl; exact hnd'.1 hy
        simpa using this
      simp [List.filter_cons, this]
    · have ha : a ∈ l := by
        rcases List.mem_cons.mp h with h | h
        · exact absurd h.symm hx
        · exact h
      have hxa : (x == a) = false := by simpa using hx
      rw [List.filter_cons, hxa]
      exact filter_beq_of_nodup l a hnd'.2 ha

theorem lookup_single (old new n : Name) : ([(old, new)] : List (Name × Name)).lookup n = if n = old then some new else none := by
  simp only [List.lookup]
  by_cases h : n = old
  · subst h; simp
  · have : (n == old) = false := by simpa using h
    rw [this, if_neg h]

theorem relabel_single {c : Circuit} (hnd : c.nodeNames.Nodup) {old new : Name} (ho : c.has old = true) :
    c.relabel [(old, new)] = c.relabelOne old new := by
  unfold relabel
  simp only []
  have : (c.nodeNames.filter fun n => (([(old, new)] : List (Name × Name)).lookup n).isSome) = [old] := by
    rw [← filter_beq_of_nodup c.nodeNames old hnd ((has_iff_mem c old).1 ho)]
    apply List.filter_congr
    intro n _
    rw [lookup_single]
    by_cases h : n = old
    · subst h; simp
    · have : (n == old) = false := by simpa using h
      rw [if_neg h, this]; rfl
  rw [this]
  simp only [List.foldl_cons, List.foldl_nil, lookup_single, if_true]

structure RelRes (c c' : Circuit) (old new : Name) (a : Attr) : Prop where
  nodes : c'.nodes = c.nodes.filter (fun p => !(p.1 == old)) ++ [(new, a)]
  edges : ∀ e, e ∈ c'.edges ↔
    ∃ e0 ∈ c.edges, e = (if e0.1 = old then new else e0.1, if e0.2 = old then new else e0.2)
  bbs : c'.bbs = c.bbs
  ws : WS c'

theorem relabel_single_spec {c : Circuit} (hc : WS c) {old new : Name} {a : Attr}
    (ho : (old, a) ∈ c.nodes) (hn : c.has new = false) :
    RelRes c (c.relabel [(old, new)]) old new a := by
  have hho : c.has old = true := (has_iff_mem c old).2 (List.mem_map.2 ⟨(old, a), ho, rfl⟩)
  have hne : new ≠ old := by intro e; subst e; rw [hho] at hn; cases hn
  have hattr : c.attr? old = some a := attr?_of_mem hc.nodup ho
  obtain ⟨_, _, v3, _, v5⟩ := relabelOne_view' hc.nodup hc.edgesNodup hho hn
  have hws := (relabel_view hc [(old, new)]
    (by
      intro x n hl
      rw [lookup_single] at hl
      by_cases h : x = old
      · rw [if_pos h] at hl; injection hl with hl; rw [← hl]; exact hn
      · rw [if_neg h] at hl; cases hl)
    (by
      intro x y n hx hy
      rw [lookup_single] at hx hy
      by_cases h : x = old
      · by_cases h' : y = old
        · rw [h, h']
        · rw [if_neg h'] at hy; cases hy
      · rw [if_neg h] at hx; cases hx)).1
  rw [relabel_single hc.nodup hho] at hws ⊢
  refine ⟨?_, v5, v3, hws⟩
  have hne' : (new == old) = false := by simpa using hne
  unfold relabelOne
  rw [hattr]
  simp only [hne', Bool.false_eq_true, if_false]
  rw [foldl_addEdge_nodes]
  unfold removeNode
  simp only []
  rw [addNodeAttr_fresh a hn]
  simp only [List.filter_append, List.filter_cons, List.filter_nil, hne', Bool.not_false, if_true]

/-! ### a loop of pairs of single-net connects -/

structure ConnLoop (c c' : Circuit) (n : Nat) (s1 t1 s2 t2 : Nat → Name) : Prop where
  nodes : c'.nodes = c.nodes
  bbs : c'.bbs = c.bbs
  edges : ∀ e, e ∈ c'.edges ↔ e ∈ c.edges ∨ ∃ j, j < n ∧ (e = (s1 j, t1 j) ∨ e = (s2 j, t2 j))
  inv : Inv' c' []

theorem connect_single {c : Circuit} (hc : Inv' c []) {u w : Name}
    (hu : ∃ t, c.ty? u = some t ∧ t ≠ "bb_input" ∧ t ≠ "bb_output")
    (hw : c.ty? w = some "buf") (hf : ∀ e ∈ c.edges, e.2 ≠ w) :
    ∃ c', c.connect [u] [w] = (c', .ok) ∧ c'.nodes = c.nodes ∧ c'.bbs = c.bbs ∧
      (∀ e, e ∈ c'.edges ↔ e ∈ c.edges ∨ e = (u, w)) ∧ Inv' c' [] := by
  obtain ⟨c', h⟩ := connect_succeeds c [u] [w]
    (by intro x hx; simp only [List.mem_singleton] at hx; subst hx; exact hu)
    (by
      intro x hx; simp only [List.mem_singleton] at hx; subst hx
      refine ⟨"buf", hw, by decide, fun _ => ?_⟩
      rw [fanin_eq_faninL, faninL_nil_of hf]; simp)
  obtain ⟨a1, a2, _, _, a5, _, _⟩ := connect_ok h
  have hi := connect_Inv hc [u] [w]
  rw [h] at hi
  refine ⟨c', h, a1, a2, ?_, hi⟩
  intro e
  rw [a5]
  simp only [List.mem_singleton]
  apply or_congr Iff.rfl
  constructor
  · rintro ⟨h1, h2⟩; exact Prod.ext h1 h2
  · rintro rfl; exact ⟨rfl, rfl⟩

theorem connLoop_ok (c : Circuit) (hc : Inv' c []) (s1 t1 s2 t2 : Nat → Name) : ∀ n,
    (∀ j, j < n → (∃ t, c.ty? (s1 j) = some t ∧ t ≠ "bb_input" ∧ t ≠ "bb_output") ∧
      (∃ t, c.ty? (s2 j) = some t ∧ t ≠ "bb_input" ∧ t ≠ "bb_output")) →
    (∀ j, j < n → c.ty? (t1 j) = some "buf" ∧ c.ty? (t2 j) = some "buf" ∧
      (∀ e ∈ c.edges, e.2 ≠ t1 j ∧ e.2 ≠ t2 j)) →
    (∀ j j', j < n → j' < n → (t1 j = t1 j' → j = j') ∧ (t2 j = t2 j' → j = j') ∧ t1 j ≠ t2 j') →
    ∃ c', (List.range n).foldlM (fun c j =>
        liftO (c.connect [s1 j] [t1 j]) >>= fun c => liftO (c.connect [s2 j] [t2 j])) c = .ok c' ∧
      ConnLoop c c' n s1 t1 s2 t2
  | 0, _, _, _ => ⟨c, rfl, ⟨rfl, rfl, fun e => by simp, hc⟩⟩
  | n + 1, hs, ht, hd => by
    obtain ⟨c', e', L⟩ := connLoop_ok c hc s1 t1 s2 t2 n (fun j hj => hs j (by omega)) (fun j hj => ht j (by omega))
      (fun j j' hj hj' => hd j j' (by omega) (by omega))
    obtain ⟨⟨ts1, hts1, hb1⟩, ⟨ts2, hts2, hb2⟩⟩ := hs n (by omega)
    obtain ⟨htt1, htt2, hfree⟩ := ht n (by omega)
    obtain ⟨c1, k1, n1, b1, ed1, i1⟩ := connect_single L.inv (u := s1 n) (w := t1 n)
      ⟨ts1, by rw [ty?_congr L.nodes]; exact hts1, hb1⟩ (by rw [ty?_congr L.nodes]; exact htt1)
      (by
        intro e he
        rcases (L.edges e).1 he with h0 | ⟨j, hj, h0 | h0⟩
        · exact (hfree e h0).1
        · rw [h0]; intro e2
          have := (hd j n (by omega) (by omega)).1 e2
          omega
        · rw [h0]; intro e2
          exact (hd n j (by omega) (by omega)).2.2 e2.symm)
    obtain ⟨c2, k2, n2, b2, ed2, i2⟩ := connect_single i1 (u := s2 n) (w := t2 n)
      ⟨ts2, by rw [ty?_congr n1, ty?_congr L.nodes]; exact hts2, hb2⟩
      (by rw [ty?_congr n1, ty?_congr L.nodes]; exact htt2)
      (by
        intro e he
        rcases (ed1 e).1 he with he | he
        · rcases (L.edges e).1 he with h0 | ⟨j, hj, h0 | h0⟩
          · exact (hfree e h0).2
          · rw [h0]; exact (hd j n (by omega) (by omega)).2.2
          · rw [h0]; intro e2
            have := (hd j n (by omega) (by omega)).2.1 e2
            omega
        · rw [he]; exact (hd n n (by omega) (by omega)).2.2)
    refine ⟨c2, ?_, ⟨by rw [n2, n1, L.nodes], by rw [b2, b1, L.bbs], ?_, i2⟩⟩
    · rw [foldlM_range_succ, e', bind_ok, liftO_ok k1, bind_ok, liftO_ok k2]
    · intro e
      rw [ed2, ed1, L.edges]
      constructor
      · rintro (((h0 | ⟨j, hj, h0⟩) | h0) | h0)
        · exact Or.inl h0
        · exact Or.inr ⟨j, by omega, h0⟩
        · exact Or.inr ⟨n, by omega, Or.inl h0⟩
        · exact Or.inr ⟨n, by omega, Or.inr h0⟩
      · rintro (h0 | ⟨j, hj, h0⟩)
        · exact Or.inl (Or.inl (Or.inl h0))
        · by_cases hjn : j = n
          · subst hjn
            rcases h0 with h0 | h0
            · exact Or.inl (Or.inr h0)
            · exact Or.inr h0
          · exact Or.inl (Or.inl (Or.inr ⟨j, by omega, h0⟩))

end Arith
end CG
