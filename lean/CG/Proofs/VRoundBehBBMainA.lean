/- C03 helper (behavioural round trip WITH blackboxes): facts about the original circuit used by the assembly: every
   node is an input, a pin, the load of an output pin or an assigned node; valuations of `c` and the equations
   (assignments + pin wires). -/
import CG.Proofs.VRoundBehBBInitB
namespace CG
namespace VBB
open Verilog Circuit Ternary VT VB

variable {c : Circuit}

theorem out_not_pin (hc : VR.Wr c) {o : Name} (ho : o ∈ c.outputs) : ¬ VR.PinTy c o := by
  intro hp
  obtain ⟨a, ha, hq⟩ := (VR.mem_outputs' hc.clean.nodup o).1 ho
  have hty : a.ty = some "bb_input" ∨ a.ty = some "bb_output" := by
    rcases hp with hp | hp
    · left; rw [ty_of_attr ha] at hp; exact hp
    · right; rw [ty_of_attr ha] at hp; exact hp
  have := hc.noPinOutputs (o, a) (attr?_mem ha) hty
  simp only at this
  rw [this] at hq
  simp at hq

/-- a node that is not a pin is an input, the load of an output pin, or an assigned node -/
theorem cover (hc : VR.Wr c) {x : Name} (hx : c.has x = true) (hp : ¬ VR.PinTy c x) :
    c.ty? x = some "input" ∨ (∃ u, PE c (u, x)) ∨ Asg c x := by
  obtain ⟨t, ht, _⟩ := hc.ws.typed x hx
  by_cases hi : t = "input"
  · exact Or.inl (hi ▸ ht)
  · by_cases hd : ∃ u, (u, x) ∈ c.edges ∧ c.ty? u = some "bb_output"
    · obtain ⟨u, he, hu⟩ := hd
      exact Or.inr (Or.inl ⟨u, he, Or.inr hu⟩)
    · refine Or.inr (Or.inr ⟨t, ht, hi, ?_, ?_, fun u he hu => hd ⟨u, he, hu⟩⟩)
      · rintro rfl; exact hp (Or.inl ht)
      · rintro rfl; exact hp (Or.inr ht)

/-- the type of the load of a pin wire -/
theorem pe_ty (hc : VR.Wr c) {e : Name × Name} (he : PE c e) :
    c.ty? e.2 = some "bb_input" ∨ c.ty? e.2 = some "buf" := by
  rcases he.2 with hp | hp
  · rcases hp with hp | hp
    · exact Or.inl hp
    · exact absurd (hc.ws.noFanin e.1 e.2 he.1 "bb_output" hp) (by simp)
  · exact Or.inr (hc.ws.bbOut e.1 e.2 he.1 hp).1

/-- in a consistent valuation of `c` the pin wires carry their value -/
theorem pe_val (hc : VR.Wr c) {v : Val} (hv : Consistent c v) {e : Name × Name} (he : PE c e) : v e.2 = v e.1 := by
  have hfi : ∀ u, (u, e.2) ∈ c.edges ↔ u ∈ [e.1] := by
    intro u
    rw [List.mem_singleton]
    constructor
    · intro hu
      rcases pe_ty hc he with h1 | h1
      · exact hc.ws.single e.2 "bb_input" h1 (by decide) u e.1 hu he.1
      · exact hc.ws.single e.2 "buf" h1 (by decide) u e.1 hu he.1
    · rintro rfl; exact he.1
  rcases pe_ty hc he with h1 | h1
  · obtain ⟨a, ha, hat⟩ := VR.ty_mem h1
    exact Arith.node_val hv hc.clean.edgesNodup ha hat [e.1] (by simp) hfi (by simp [gateFn])
  · obtain ⟨a, ha, hat⟩ := VR.ty_mem h1
    exact Arith.node_val hv hc.clean.edgesNodup ha hat [e.1] (by simp) hfi (by simp [gateFn])

/-- a valuation that satisfies the assignments and carries the pin wires is consistent for `c` -/
theorem consistent_of_eqs (hc : VR.Wr c) {asg : List (Name × Expr)}
    (hA : ∀ a ∈ asg, ∃ t, c.ty? a.1 = some t ∧ ∀ v : Val, gateFn t ((c.fanin a.1).map v) = some (denote v a.2))
    (hAall : ∀ n, Asg c n → n ∈ asg.map (·.1)) (v : Val)
    (h1 : ∀ a ∈ asg, v a.1 = denote v a.2) (h2 : ∀ e, PE c e → v e.2 = v e.1) : Consistent c v := by
  intro p hp t htp b hb
  have hnd := hc.clean.nodup
  have hpa : c.attr? p.1 = some p.2 := attr?_of_mem hnd hp
  have hty : c.ty? p.1 = some t := by rw [ty_of_attr hpa]; exact htp
  have hx : c.has p.1 = true := has_of_ty? hty
  by_cases hpin : VR.PinTy c p.1
  · rcases hpin with hpin | hpin
    · rw [hty] at hpin; injection hpin with hpin
      obtain ⟨u, hl, hbu⟩ := gate_single (Or.inr hpin) hb
      have hu : (u, p.1) ∈ c.edges := mem_fanin.1 (by rw [hl]; simp)
      rw [hbu]
      exact h2 (u, p.1) ⟨hu, Or.inl (Or.inl (hpin ▸ hty))⟩
    · rw [hty] at hpin; injection hpin with hpin
      rw [gate_none (Or.inr hpin)] at hb; cases hb
  · rcases cover hc hx hpin with hi | ⟨u, hu⟩ | ha
    · rw [hty] at hi; injection hi with hi
      rw [gate_none (Or.inl hi)] at hb; cases hb
    · rcases pe_ty hc hu with h3 | h3
      · exact absurd (Or.inl h3) hpin
      · simp only at h3
        rw [hty] at h3; injection h3 with h3
        obtain ⟨u', hl, hbu⟩ := gate_single (Or.inl h3) hb
        have hu' : (u', p.1) ∈ c.edges := mem_fanin.1 (by rw [hl]; simp)
        have : u' = u := hc.ws.single p.1 "buf" (h3 ▸ hty) (by decide) u' u hu' hu.1
        rw [hbu, this]
        exact h2 (u, p.1) hu
    · obtain ⟨a, ha', hap⟩ := List.mem_map.1 (hAall p.1 ha)
      have hap : a.1 = p.1 := hap
      obtain ⟨t', ht', hsem⟩ := hA a ha'
      rw [hap, hty] at ht'
      injection ht' with ht'
      subst ht'
      have h3 := hsem v
      rw [hap, hb] at h3
      injection h3 with h3
      rw [h3, ← hap]
      exact h1 a ha'

end VBB
end CG
