/- C05 (`insert_registers_ok`) helpers: success of the primitive calls made by one splice step
   (`add(buf, uid=True, fanout=…)`, the pin `add`s of `add_blackbox`, the three `connect`s) -/
import CG.Proofs.TernaryAdd
import CG.Proofs.LintProdD5
set_option linter.unusedSimpArgs false
set_option linter.unusedVariables false
namespace CG
namespace TxOk
open Circuit InsReg

/-! ### table facts -/

theorem sup_buf : T.supported.contains "buf" = true := by decide
theorem sup_bbin : T.supported.contains "bb_input" = true := by decide
theorem sup_bbout : T.supported.contains "bb_output" = true := by decide
theorem addL1_buf : (T.addL 1).contains "buf" = false := by decide

/-! ### `add` -/

/-- a plain `add` of a fresh node without neighbours -/
theorem pin_add_ok (c : Circuit) (x : Name) (t : String) (hf : c.has x = false) (hname : Limit.NameOK x)
    (hsup : T.supported.contains t = true) :
    c.add { n := x, ty := t } = (c.addNodeAttr x { ty := some t, out := some false }, .ok, x) := by
  have hsup' : t ∈ T.supported := by simpa using hsup
  unfold Circuit.add
  simp [hf, hsup', hname.1, hname.2, Circuit.connect]

/-- the `add(…, "buf", uid=True, fanout=fo)` call of the splice step -/
theorem buf_add_ok (c : Circuit) (base r : Name) (fo : List Name) (hu : c.uid base = some r) (hname : Limit.NameOK r)
    (hck : fo ≠ [] → (c.addNodeAttr r bufA).connectCheck [r] fo = none) :
    ∃ cA, c.add { n := base, ty := "buf", uid := true, fanout := fo } = (cA, .ok, r) := by
  have e := Ternary.add_eq_addTail c { n := base, ty := "buf", uid := true, fanout := fo } r (by simpa using hu)
    (by intro h; cases h) hname sup_buf (by rintro ⟨h, _⟩; simp at h) (by rintro ⟨h, _⟩; simp at h)
  rw [e]
  obtain ⟨c3, h3, _⟩ := Ternary.connect_ok (c.addNodeAttr r bufA) [r] fo (by
    by_cases h : fo = []
    · exact Or.inr (Or.inl h)
    · exact Or.inr (Or.inr (hck h)))
  refine ⟨c3, ?_⟩
  unfold addTail
  simp only [Bool.false_eq_true, if_false, bne_self_eq_false]
  have h3' : (c.addNodeAttr r { ty := some "buf", out := some false }).connect [r] fo = (c3, .ok) := h3
  rw [h3']
  simp only [bne_self_eq_false, Bool.false_eq_true, if_false, connect_empty_left]

/-! ### `connect` with a single source and a single target -/

/-- an ordinary source driving a fresh single-input target -/
theorem connectCheck_plain (c : Circuit) (u v : Name) (tu tv : String) (hu : c.ty? u = some tu) (hv : c.ty? v = some tv)
    (hu1 : tu ≠ "bb_input") (hu2 : tu ≠ "bb_output")
    (hv0 : (T.connectL 0).contains tv = false) (hfi : c.fanin v = []) :
    c.connectCheck [u] [v] = none := by
  refine Limit.connectCheck_none c [u] [v] ?_ ?_ ?_ ?_
  · intro x hx; rw [List.mem_singleton] at hx; rw [hx]; exact has_of_ty? hu
  · intro x hx; rw [List.mem_singleton] at hx; rw [hx]; exact has_of_ty? hv
  · intro x hx; rw [List.mem_singleton] at hx; rw [hx]
    exact ⟨tv, hv, hv0, fun _ => by rw [hfi]; simp⟩
  · intro x hx; rw [List.mem_singleton] at hx; rw [hx]
    refine ⟨tu, hu, ?_, ?_⟩
    · rw [Limit.T_connectL2]; simpa using hu1
    · rw [Limit.T_connectL3]; simpa using hu2

/-- an unloaded blackbox output pin driving an undriven buf -/
theorem connectCheck_bbout (c : Circuit) (u v : Name) (hu : c.ty? u = some "bb_output") (hv : c.ty? v = some "buf")
    (hfo : c.fanout u = []) (hfi : c.fanin v = []) :
    c.connectCheck [u] [v] = none := by
  have hhu : c.has u = true := has_of_ty? hu
  have hhv : c.has v = true := has_of_ty? hv
  have e0 : "buf" ∉ T.connectL 0 := by decide
  have e1 : "buf" ∈ T.connectL 1 := by decide
  have e2 : "bb_output" ∉ T.connectL 2 := by decide
  have e3 : "bb_output" ∈ T.connectL 3 := by decide
  unfold Circuit.connectCheck
  simp [hhu, hhv, Circuit.connectCheck.goV, Circuit.connectCheck.goU, hu, hv, e0, e1, e2, e3, hfo, hfi]

end TxOk
end CG
