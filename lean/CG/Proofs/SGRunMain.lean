/- C17 (whole function) helpers, part 3: `Supergates.run` evaluated, and the cycle test of `algo` read through Kahn's lemma -/
import CG.Proofs.SGRunKahn
import CG.Proofs.SGRunLimit
import CG.Proofs.SGAlgoSpec
namespace CG
namespace SGRun
open Supergates

theorem dedup_eq_of_nodup : ∀ l : List Name, l.Nodup → dedup l = l
  | [], _ => rfl
  | x :: xs, h => by
    rw [List.nodup_cons] at h
    rw [dedup, dedup_eq_of_nodup xs h.2]
    congr 1
    rw [List.filter_eq_self]
    intro y hy
    have : y ≠ x := fun e => h.1 (e ▸ hy)
    simp [this]

theorem run_rejects_blackboxes (c : Circuit) (ord : Ord) (h : c.bbs ≠ []) :
    Supergates.run c ord = .error .notImplemented := by
  unfold Supergates.run
  have : c.bbs.isEmpty = false := by
    cases hb : c.bbs with
    | nil => exact absurd hb h
    | cons _ _ => rfl
  rw [this]
  rfl

theorem run_eq (c c2 : Circuit) (ord : Ord) (hnobb : c.bbs = []) (hrun : Tx.limitFanin c 2 ord = .ok c2) :
    Supergates.run c ord = .ok (algo c2 (ord c2.outputs)) := by
  unfold Supergates.run
  rw [hnobb, hrun]
  rfl

/-- everything `run_spec` needs about the fan-in-limited circuit -/
theorem run_limited (c : Circuit) (ord : Ord) (hord : OrdOK ord) (hc : LintClean c) (hnobb : c.bbs = [])
    (hac : Acyclic c) (hname : ∀ n, 2 < (c.fanin n).length → Circuit.isDigit0 n = false)
    (hbo : ∀ n, c.ty? n ≠ some "bb_output") :
    ∃ c2, Tx.limitFanin c 2 ord = .ok c2 ∧ Supergates.run c ord = .ok (algo c2 (ord c2.outputs)) ∧
      c2.inputs = c.inputs ∧ c2.outputs = c.outputs ∧ Refines c c2 id ∧
      LintClean c2 ∧ c2.bbs = [] ∧ Acyclic c2 ∧ (∀ n, (c2.fanin n).length ≤ 2) ∧
      (∀ n, c2.ty? n ≠ some "bb_output") ∧ (ord c2.outputs).Perm c2.outputs := by
  obtain ⟨c2, hrun, hfi, hrel, hbbs⟩ := limit_fanin_srel c 2 (Nat.le_refl 2) ord hord hc hname
  exact ⟨c2, hrun, run_eq c c2 ord hnobb hrun, hrel.fi.ins, hrel.fi.outs, hrel.fi.ref, hrel.fi.lc,
    hbbs.trans hnobb, hrel.acyc hac, hfi, fun n h => hbo n (hrel.bbo n h), hord c2.outputs⟩

/-- the cycle test of `algo` is exact (heads distinct) -/
theorem topo_exists_iff (c2 : Circuit) (outs : List Name) (hd : (algo c2 outs).headsDistinct = true) :
    (algo c2 outs).cyclic = false ↔
      ∃ sgs : List Circuit, ∃ perm : List (Found × Circuit), perm.Perm (algo c2 outs).sgs ∧ sgs = perm.map (·.2) ∧
        ∀ i j (hi : i < perm.length) (hj : j < perm.length),
          (perm[i].1.head, perm[j].1.head) ∈ depEdges c2 (algo c2 outs).sgs → i < j := by
  have hnd := SGA.heads_nodup hd
  have hcyc : (algo c2 outs).cyclic =
      depCyclicGo (depEdges c2 (algo c2 outs).sgs) (((algo c2 outs).sgs.map (·.1.head)).length + 1)
        (dedup ((algo c2 outs).sgs.map (·.1.head))) := rfl
  rw [hcyc, dedup_eq_of_nodup _ hnd,
    kahn_iff (fun p : Found × Circuit => p.1.head) _ _ _ (Nat.lt_succ_self _)]
  constructor
  · rintro ⟨perm, hp, H⟩
    exact ⟨perm.map (·.2), perm, hp, rfl, H⟩
  · rintro ⟨_, perm, hp, _, H⟩
    exact ⟨perm, hp, H⟩

end SGRun
end CG
