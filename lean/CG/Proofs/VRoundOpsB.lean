/- C03 helper: the loops of `Circuit.addBlackbox` (pin creation, connections) succeed -/
import CG.Proofs.VRoundOpsA
namespace CG
namespace VR
open Verilog Circuit

/-- `c.add(n, ty)` with default flags on a fresh name -/
theorem add_plain_eq (t : Circuit) (n ty : String) (hfresh : t.has n = false) (hname : Limit.NameOK n)
    (hty : ty ∈ Expected.supported_types) :
    t.add { n := n, ty := ty } = (t.addNodeAttr n { ty := some ty, out := some false }, .ok, n) := by
  have hsup : T.supported.contains ty = true := by
    rw [Limit.T_supported]; exact List.contains_iff_mem.2 hty
  unfold Circuit.add
  simp only [Bool.false_eq_true, if_false, hfresh, hsup, hname.1, hname.2, Bool.not_false, Bool.and_false,
    Bool.false_and, Bool.not_true, List.length_nil, List.isEmpty_nil, Bool.and_true, gt_iff_lt,
    Nat.not_lt_zero, decide_false, List.nil_append, connect_empty_right, connect_empty_left,
    bne_self_eq_false]

/-! ### the pin loop -/

def pinAttr (t : String) : Attr := { ty := some t, out := some false }

structure PinSpec (inst : Name) (t : String) (c : Circuit) (ps : List Name) (c' : Circuit) : Prop where
  edges : c'.edges = c.edges
  bbs : c'.bbs = c.bbs
  name : c'.name = c.name
  has : ∀ x, c'.has x = true ↔ (c.has x = true ∨ ∃ g ∈ ps, x = inst ++ "." ++ g)
  attr_old : ∀ x, c.has x = true → c'.attr? x = c.attr? x
  attr_new : ∀ g ∈ ps, c'.attr? (inst ++ "." ++ g) = some (pinAttr t)
  nodupN : c.nodeNames.Nodup → c'.nodeNames.Nodup

theorem pins_step (inst : Name) (c c1 : Circuit) (t : String) (p : Name) (ps : List Name)
    (h : c.add { n := inst ++ "." ++ p, ty := t } = (c1, .ok, inst ++ "." ++ p)) :
    addBlackbox.pins inst c t (p :: ps) = addBlackbox.pins inst c1 t ps := by
  rw [addBlackbox.pins, h]

theorem pins_ok (inst : Name) (t : String) (hinst : Limit.NameOK inst) (ht : t ∈ Expected.supported_types) :
    ∀ (ps : List Name) (c : Circuit), ps.Nodup → (∀ g ∈ ps, c.has (inst ++ "." ++ g) = false) →
      ∃ c', addBlackbox.pins inst c t ps = (c', .ok) ∧ PinSpec inst t c ps c'
  | [], c, _, _ => by
    refine ⟨c, by rw [addBlackbox.pins], rfl, rfl, rfl, ?_, fun _ _ => rfl, (fun _ h => nomatch h), fun h => h⟩
    intro x; simp
  | p :: ps, c, hnd, hfr => by
    have hp : c.has (inst ++ "." ++ p) = false := hfr p (by simp)
    have hadd := add_plain_eq c (inst ++ "." ++ p) t hp (nameOK_pin hinst p) ht
    rw [pins_step inst c _ t p ps hadd]
    rw [List.nodup_cons] at hnd
    have hfr1 : ∀ g ∈ ps, (c.addNodeAttr (inst ++ "." ++ p) (pinAttr t)).has (inst ++ "." ++ g) = false := by
      intro g hg
      rw [addNodeAttr_has, hfr g (by simp [hg])]
      have : inst ++ "." ++ g ≠ inst ++ "." ++ p := by
        intro e; have := pin_inj_right e; rw [this] at hg; exact hnd.1 hg
      simpa using this
    obtain ⟨c', e, s⟩ := pins_ok inst t hinst ht ps _ hnd.2 hfr1
    refine ⟨c', e, ?_, ?_, ?_, ?_, ?_, ?_, ?_⟩
    · rw [s.edges, addNodeAttr_edges]
    · rw [s.bbs, addNodeAttr_bbs]
    · rw [s.name, addNodeAttr_name]
    · intro x
      rw [s.has, addNodeAttr_has, Bool.or_eq_true, beq_iff_eq]
      constructor
      · rintro ((h | h) | ⟨g, hg, h⟩)
        · exact Or.inl h
        · exact Or.inr ⟨p, by simp, h⟩
        · exact Or.inr ⟨g, by simp [hg], h⟩
      · rintro (h | ⟨g, hg, h⟩)
        · exact Or.inl (Or.inl h)
        · rcases List.mem_cons.mp hg with rfl | hg
          · exact Or.inl (Or.inr h)
          · exact Or.inr ⟨g, hg, h⟩
    · intro x hx
      have hxp : x ≠ inst ++ "." ++ p := by rintro rfl; rw [hp] at hx; cases hx
      rw [s.attr_old x (by rw [addNodeAttr_has, hx]; rfl), addNodeAttr_attr?, if_neg hxp]
    · intro g hg
      rcases List.mem_cons.mp hg with rfl | hg
      · rw [s.attr_old _ (by rw [addNodeAttr_has]; simp), addNodeAttr_attr?, if_pos rfl,
          attr?_none_of_not_has hp]
      · exact s.attr_new g hg
    · intro hn
      exact s.nodupN (addNodeAttr_nodup _ _ hn)

/-! ### the connection loop -/

theorem go_nil (bb : BBox) (inst : Name) (d : Circuit) : addBlackbox.go bb inst d [] = (d, .ok) := by
  rw [addBlackbox.go]

theorem go_cons_in (bb : BBox) (inst : Name) (d d1 : Circuit) (p : Name) (ns : List Name)
    (rest : List (Name × List Name)) (hp : bb.ins.contains p = true)
    (h : d.connect ns [inst ++ "." ++ p] = (d1, .ok)) :
    addBlackbox.go bb inst d ((p, ns) :: rest) = addBlackbox.go bb inst d1 rest := by
  rw [addBlackbox.go, if_pos hp, h]

theorem go_cons_out (bb : BBox) (inst : Name) (d d1 : Circuit) (p : Name) (ns : List Name)
    (rest : List (Name × List Name)) (hp : ¬ bb.ins.contains p = true) (hq : bb.outs.contains p = true)
    (h : d.connect [inst ++ "." ++ p] ns = (d1, .ok)) :
    addBlackbox.go bb inst d ((p, ns) :: rest) = addBlackbox.go bb inst d1 rest := by
  rw [addBlackbox.go, if_neg hp, if_pos hq, h]

theorem fanout_nil_of {t : Circuit} {n : Name} (h : ∀ e ∈ t.edges, e.1 ≠ n) : t.fanout n = [] := by
  unfold Circuit.fanout
  rw [List.map_eq_nil_iff, List.filter_eq_nil_iff]
  intro e he
  simpa using h e he

theorem edges_of_fanin_nil {t : Circuit} {n : Name} (h : t.fanin n = []) : ∀ e ∈ t.edges, e.2 ≠ n := by
  intro e he hen
  have : e.1 ∈ t.fanin n := mem_fanin.2 (by rw [← hen]; exact he)
  rw [h] at this; cases this

/-- a blackbox output pin without load may drive an undriven buffer -/
theorem connectCheck_bbout (c : Circuit) (u v : Name)
    (htv : c.ty? v = some "buf") (hfv : c.fanin v = [])
    (htu : c.ty? u = some "bb_output") (hfu : c.fanout u = []) :
    c.connectCheck [u] [v] = none := by
  have hu : c.has u = true := has_of_ty? htu
  have hv : c.has v = true := has_of_ty? htv
  unfold Circuit.connectCheck
  have h1 : ([u].any fun n => !c.has n) = false := by simp [hu]
  have h2 : ([v].any fun n => !c.has n) = false := by simp [hv]
  have hV : Circuit.connectCheck.goV c [u] [v] = none :=
    Limit.goV_none c [u] [v] (by
      intro w hw
      rw [List.mem_singleton] at hw; rw [hw]
      refine ⟨"buf", htv, by rw [Limit.T_connectL0]; decide, fun _ => ?_⟩
      rw [hfv]; simp)
  have hU : Circuit.connectCheck.goU c [v] [u] = none := by
    unfold Circuit.connectCheck.goU
    simp only [htu]
    have a1 : (T.connectL 2).contains "bb_output" = false := by rw [Limit.T_connectL2]; decide
    have a2 : (T.connectL 3).contains "bb_output" = true := by rw [Limit.T_connectL3]; decide
    have a3 : ([v].any fun w => c.ty? w != some "buf") = false := by simp [htv]
    simp only [a1, a2, a3, hfu]
    unfold Circuit.connectCheck.goU
    simp
  simp only [h1, h2, hV, hU]
  rfl

structure GoSpec (bb : BBox) (inst : Name) (d : Circuit) (conns : List (Name × Name)) (d' : Circuit) : Prop where
  nodes : d'.nodes = d.nodes
  bbs : d'.bbs = d.bbs
  name : d'.name = d.name
  nodupE : d.edges.Nodup → d'.edges.Nodup
  edges : ∀ e, e ∈ d'.edges ↔ (e ∈ d.edges ∨ ∃ p ∈ conns,
    (p.1 ∈ bb.ins ∧ e = (p.2, inst ++ "." ++ p.1)) ∨ (p.1 ∈ bb.outs ∧ e = (inst ++ "." ++ p.1, p.2)))

theorem go_ok (bb : BBox) (inst : Name) (hdisj : ∀ g ∈ bb.ins, g ∉ bb.outs) :
    ∀ (conns : List (Name × Name)) (d : Circuit),
    (conns.map (·.1)).Nodup →
    (∀ p ∈ conns, p.1 ∈ bb.ins ∨ p.1 ∈ bb.outs) →
    (∀ p ∈ conns, p.1 ∈ bb.ins → (∃ t, d.ty? p.2 = some t ∧ t ≠ "bb_input" ∧ t ≠ "bb_output") ∧
        d.ty? (inst ++ "." ++ p.1) = some "bb_input" ∧ ∀ e ∈ d.edges, e.2 ≠ inst ++ "." ++ p.1) →
    (∀ p ∈ conns, p.1 ∈ bb.outs → d.ty? p.2 = some "buf" ∧ (∀ e ∈ d.edges, e.2 ≠ p.2) ∧
        d.ty? (inst ++ "." ++ p.1) = some "bb_output" ∧ ∀ e ∈ d.edges, e.1 ≠ inst ++ "." ++ p.1) →
    (∀ p ∈ conns, ∀ p' ∈ conns, p.1 ∈ bb.outs → p'.1 ∈ bb.outs → p.2 = p'.2 → p = p') →
    ∃ d', addBlackbox.go bb inst d (conns.map (fun p => (p.1, [p.2]))) = (d', .ok) ∧ GoSpec bb inst d conns d'
  | [], d, _, _, _, _, _ => by
    refine ⟨d, go_nil bb inst d, rfl, rfl, rfl, fun h => h, ?_⟩
    intro e; simp
  | (p, net) :: rest, d, hk, hkm, hI, hO, hN => by
    simp only [List.map_cons] at hk ⊢
    rw [List.nodup_cons] at hk
    have hne : ∀ q ∈ rest, q.1 ≠ p := by
      intro q hq e
      exact hk.1 (by rw [← e]; exact List.mem_map_of_mem hq)
    have hpinne : ∀ q ∈ rest, inst ++ "." ++ p ≠ inst ++ "." ++ q.1 :=
      fun q hq e => hne q hq (pin_inj_right e).symm
    have hkm' : ∀ q ∈ rest, q.1 ∈ bb.ins ∨ q.1 ∈ bb.outs := fun q hq => hkm q (by simp [hq])
    have hN' : ∀ q ∈ rest, ∀ q' ∈ rest, q.1 ∈ bb.outs → q'.1 ∈ bb.outs → q.2 = q'.2 → q = q' :=
      fun q hq q' hq' => hN q (by simp [hq]) q' (by simp [hq'])
    by_cases hp : p ∈ bb.ins
    · -- input pin
      obtain ⟨⟨t, ht, ht1, ht2⟩, hpin, hpe⟩ := hI (p, net) (by simp) hp
      have hck : d.connectCheck [net] [inst ++ "." ++ p] = none := by
        refine Limit.connectCheck_none d _ _ ?_ ?_ ?_ ?_
        · intro u hu; rw [List.mem_singleton] at hu; rw [hu]; exact has_of_ty? ht
        · intro v hv; rw [List.mem_singleton] at hv; rw [hv]; exact has_of_ty? hpin
        · intro v hv
          rw [List.mem_singleton] at hv; rw [hv]
          refine ⟨"bb_input", hpin, by rw [Limit.T_connectL0]; decide, fun _ => ?_⟩
          rw [Ternary.fanin_nil_of hpe]; simp
        · intro u hu
          rw [List.mem_singleton] at hu; rw [hu]
          obtain ⟨g2, g3⟩ := src_facts ht1 ht2
          exact ⟨t, ht, g2, g3⟩
      obtain ⟨d1, hd1, s1⟩ := Ternary.connect_ok d [net] [inst ++ "." ++ p] (Or.inr (Or.inr hck))
      have hb1 : d1.bbs = d.bbs := by have := connect_bbs d [net] [inst ++ "." ++ p]; rw [hd1] at this; exact this
      have hm1 : d1.name = d.name := by have := connect_name d [net] [inst ++ "." ++ p]; rw [hd1] at this; exact this
      have hE1 : ∀ e, e ∈ d1.edges → e ∈ d.edges ∨ e = (net, inst ++ "." ++ p) := by
        intro e he
        rcases (s1.edges e).mp he with h | ⟨h1, h2⟩
        · exact Or.inl h
        · right
          rw [List.mem_singleton] at h1 h2
          exact Prod.ext h1 h2
      rw [go_cons_in bb inst d d1 p [net] _ (List.contains_iff_mem.2 hp) hd1]
      obtain ⟨d', hd', s'⟩ := go_ok bb inst hdisj rest d1 hk.2 hkm' (by
          intro q hq hqi
          obtain ⟨⟨tq, a1, a2, a3⟩, b, c⟩ := hI q (by simp [hq]) hqi
          refine ⟨⟨tq, by rw [ty?_congr s1.nodes]; exact a1, a2, a3⟩, by rw [ty?_congr s1.nodes]; exact b, ?_⟩
          intro e he
          rcases hE1 e he with h | h
          · exact c e h
          · rw [h]; exact hpinne q hq)
        (by
          intro q hq hqo
          obtain ⟨a, b, c, f⟩ := hO q (by simp [hq]) hqo
          refine ⟨by rw [ty?_congr s1.nodes]; exact a, ?_, by rw [ty?_congr s1.nodes]; exact c, ?_⟩
          · intro e he
            rcases hE1 e he with h | h
            · exact b e h
            · rw [h]
              intro e2
              simp only [] at e2
              rw [e2, a] at hpin
              exact absurd hpin (by decide)
          · intro e he
            rcases hE1 e he with h | h
            · exact f e h
            · rw [h]
              intro e2
              simp only [] at e2
              rw [e2, c] at ht
              injection ht with ht
              exact ht2 ht.symm)
        hN'
      refine ⟨d', hd', by rw [s'.nodes, s1.nodes], by rw [s'.bbs, hb1], by rw [s'.name, hm1],
        fun h => s'.nodupE (s1.nodupE h), ?_⟩
      intro e
      rw [s'.edges, s1.edges]
      simp only [List.mem_singleton]
      simp only [List.mem_cons, exists_eq_or_imp]
      constructor
      · rintro ((h | ⟨h1, h2⟩) | h)
        · exact Or.inl h
        · exact Or.inr (Or.inl (Or.inl ⟨hp, Prod.ext h1 h2⟩))
        · exact Or.inr (Or.inr h)
      · rintro (h | (⟨_, h⟩ | ⟨ho, _⟩) | h)
        · exact Or.inl (Or.inl h)
        · rw [h]; exact Or.inl (Or.inr ⟨rfl, rfl⟩)
        · exact absurd ho (hdisj p hp)
        · exact Or.inr h
    · -- output pin
      have hpo : p ∈ bb.outs := by
        rcases hkm (p, net) (by simp) with h | h
        · exact absurd h hp
        · exact h
      obtain ⟨hnet, hnete, hpin, hpe⟩ := hO (p, net) (by simp) hpo
      have hck : d.connectCheck [inst ++ "." ++ p] [net] = none :=
        connectCheck_bbout d _ _ hnet (Ternary.fanin_nil_of hnete) hpin (fanout_nil_of hpe)
      obtain ⟨d1, hd1, s1⟩ := Ternary.connect_ok d [inst ++ "." ++ p] [net] (Or.inr (Or.inr hck))
      have hb1 : d1.bbs = d.bbs := by have := connect_bbs d [inst ++ "." ++ p] [net]; rw [hd1] at this; exact this
      have hm1 : d1.name = d.name := by have := connect_name d [inst ++ "." ++ p] [net]; rw [hd1] at this; exact this
      have hE1 : ∀ e, e ∈ d1.edges → e ∈ d.edges ∨ e = (inst ++ "." ++ p, net) := by
        intro e he
        rcases (s1.edges e).mp he with h | ⟨h1, h2⟩
        · exact Or.inl h
        · right
          rw [List.mem_singleton] at h1 h2
          exact Prod.ext h1 h2
      rw [go_cons_out bb inst d d1 p [net] _ (fun h => hp (List.contains_iff_mem.1 h))
        (List.contains_iff_mem.2 hpo) hd1]
      obtain ⟨d', hd', s'⟩ := go_ok bb inst hdisj rest d1 hk.2 hkm' (by
          intro q hq hqi
          obtain ⟨⟨tq, a1, a2, a3⟩, b, c⟩ := hI q (by simp [hq]) hqi
          refine ⟨⟨tq, by rw [ty?_congr s1.nodes]; exact a1, a2, a3⟩, by rw [ty?_congr s1.nodes]; exact b, ?_⟩
          intro e he
          rcases hE1 e he with h | h
          · exact c e h
          · rw [h]
            intro e2
            simp only [] at e2
            rw [e2, b] at hnet
            exact absurd hnet (by decide))
        (by
          intro q hq hqo
          obtain ⟨a, b, c, f⟩ := hO q (by simp [hq]) hqo
          refine ⟨by rw [ty?_congr s1.nodes]; exact a, ?_, by rw [ty?_congr s1.nodes]; exact c, ?_⟩
          · intro e he
            rcases hE1 e he with h | h
            · exact b e h
            · rw [h]
              intro e2
              simp only [] at e2
              have := hN (p, net) (by simp) q (by simp [hq]) hpo hqo e2
              exact hne q hq (by rw [← this])
          · intro e he
            rcases hE1 e he with h | h
            · exact f e h
            · rw [h]; exact hpinne q hq)
        hN'
      refine ⟨d', hd', by rw [s'.nodes, s1.nodes], by rw [s'.bbs, hb1], by rw [s'.name, hm1],
        fun h => s'.nodupE (s1.nodupE h), ?_⟩
      intro e
      rw [s'.edges, s1.edges]
      simp only [List.mem_singleton]
      simp only [List.mem_cons, exists_eq_or_imp]
      constructor
      · rintro ((h | ⟨h1, h2⟩) | h)
        · exact Or.inl h
        · exact Or.inr (Or.inl (Or.inr ⟨hpo, Prod.ext h1 h2⟩))
        · exact Or.inr (Or.inr h)
      · rintro (h | (⟨hi, _⟩ | ⟨_, h⟩) | h)
        · exact Or.inl (Or.inl h)
        · exact absurd hi hp
        · rw [h]; exact Or.inl (Or.inr ⟨rfl, rfl⟩)
        · exact Or.inr h

end VR
end CG
