/- one buffering step of limit_fanout: evaluation of the API calls and frame lemmas (C05 helper) -/
import CG.Proofs.LimitFanin
set_option linter.unusedSectionVars false
namespace CG
namespace Limit
open Circuit

theorem two_le_length_of_mem {l : List Name} {a b : Name} (ha : a ∈ l) (hb : b ∈ l) (hab : a ≠ b) :
    2 ≤ l.length := by
  match l, ha, hb with
  | [x], ha, hb =>
    simp only [List.mem_singleton] at ha hb
    exact absurd (ha.trans hb.symm) hab
  | _ :: _ :: _, _, _ => simp

structure FanoutPre (c : Circuit) (n f0 f1 r : Name) : Prop where
  lc : LintClean c
  e0 : (n, f0) ∈ c.edges
  e1 : (n, f1) ∈ c.edges
  ne : f0 ≠ f1
  fresh : c.has r = false

def fanoutC1 (c : Circuit) (n f0 f1 r : Name) : Circuit :=
  { c with nodes := c.nodes ++ [(r, gateAttr "buf")],
           edges := c.edges.filter (fun e => !([n].contains e.1 && [f0, f1].contains e.2)) }

def fanoutC2 (c : Circuit) (n f0 f1 r : Name) : Circuit :=
  { c with nodes := c.nodes ++ [(r, gateAttr "buf")],
           edges := c.edges.filter (fun e => !([n].contains e.1 && [f0, f1].contains e.2)) ++
             [(r, f0), (r, f1)] }

/-- the circuit after one buffering step -/
def fanoutStep (c : Circuit) (n f0 f1 r : Name) : Circuit :=
  { c with nodes := c.nodes ++ [(r, gateAttr "buf")],
           edges := c.edges.filter (fun e => !([n].contains e.1 && [f0, f1].contains e.2)) ++
             [(r, f0), (r, f1), (n, r)] }

theorem fanoutStep_mem_edges (c : Circuit) (n f0 f1 r : Name) (e : Name × Name) :
    e ∈ (fanoutStep c n f0 f1 r).edges ↔
      (e ∈ c.edges ∧ ¬ (e.1 = n ∧ (e.2 = f0 ∨ e.2 = f1))) ∨ e = (r, f0) ∨ e = (r, f1) ∨ e = (n, r) := by
  by_cases h0 : e.2 = f0 <;> by_cases h1 : e.2 = f1 <;> by_cases h2 : e.1 = n <;>
    simp [fanoutStep, h0, h1, h2]

theorem fanoutStep_fanin_other (c : Circuit) (n f0 f1 r : Name) {m : Name}
    (hm0 : m ≠ f0) (hm1 : m ≠ f1) (hmr : m ≠ r) : (fanoutStep c n f0 f1 r).fanin m = c.fanin m := by
  unfold Circuit.fanin fanoutStep
  simp only [List.filter_append, List.filter_filter, List.map_append]
  have hfun : ∀ e ∈ c.edges, ((e.2 == m) && !([n].contains e.1 && [f0, f1].contains e.2)) = (e.2 == m) := by
    intro e _
    by_cases he : e.2 = m
    · simp [he, hm0, hm1]
    · simp [he]
  rw [List.filter_congr hfun]
  simp [Ne.symm hm0, Ne.symm hm1, Ne.symm hmr]

theorem fanoutStep_fanout_other (c : Circuit) (n f0 f1 r : Name) {m : Name}
    (hmn : m ≠ n) (hmr : m ≠ r) : (fanoutStep c n f0 f1 r).fanout m = c.fanout m := by
  unfold Circuit.fanout fanoutStep
  simp only [List.filter_append, List.filter_filter, List.map_append]
  have hfun : ∀ e ∈ c.edges, ((e.1 == m) && !([n].contains e.1 && [f0, f1].contains e.2)) = (e.1 == m) := by
    intro e _
    by_cases he : e.1 = m
    · simp [he, hmn]
    · simp [he]
  rw [List.filter_congr hfun]
  simp [Ne.symm hmn, Ne.symm hmr]

namespace FanoutPre
variable {c : Circuit} {n f0 f1 r : Name} (h : FanoutPre c n f0 f1 r)
include h

theorem hasn : c.has n = true := (h.lc.closed _ h.e0).1
theorem has0 : c.has f0 = true := (h.lc.closed _ h.e0).2
theorem has1 : c.has f1 = true := (h.lc.closed _ h.e1).2
theorem noedge : ∀ e ∈ c.edges, e.1 ≠ r ∧ e.2 ≠ r := fresh_not_edge h.lc.toWF h.fresh
theorem nr : n ≠ r := (h.noedge _ h.e0).1
theorem r0 : f0 ≠ r := (h.noedge _ h.e0).2
theorem r1 : f1 ≠ r := (h.noedge _ h.e1).2

theorem fanout_big : 2 ≤ (c.fanout n).length :=
  two_le_length_of_mem ((RU.mem_fanout c n f0).mpr h.e0) ((RU.mem_fanout c n f1).mpr h.e1) h.ne

theorem n_not_bbout : c.ty? n ≠ some "bb_output" := by
  intro hh
  have h1 : (c.fanout n).length ≤ 1 := (h.lc.bbOut _ h.e0 hh).2
  have h2 := h.fanout_big
  omega

theorem n_not_bbin : c.ty? n ≠ some "bb_input" := h.lc.noBBInFanout _ h.e0

/-- a load of `n` is not a source node, and if it is a single-input node then `n` is its only driver -/
theorem target_ok {x : Name} (hx : (n, x) ∈ c.edges) :
    ∃ t0, c.ty? x = some t0 ∧ (T.connectL 0).contains t0 = false ∧
      ((T.connectL 1).contains t0 = true → ∀ y ∈ c.fanin x, y = n) := by
  obtain ⟨t0, h0, _⟩ := ty_of_has h.lc (h.lc.closed _ hx).2
  have hmem : n ∈ c.fanin x := (RU.mem_fanin c n x).mpr hx
  refine ⟨t0, h0, ?_, ?_⟩
  · rw [T_connectL0]
    cases hc : ["input", "0", "1", "x", "bb_output"].contains t0 with
    | false => rfl
    | true =>
      have : t0 ∈ sourceTypes := by simpa [sourceTypes] using hc
      have := h.lc.noFanin x t0 h0 this
      rw [this] at hmem
      cases hmem
  · rw [T_connectL1]
    intro hc
    have : t0 ∈ singleTypes := by
      simp only [List.contains_iff_mem, List.mem_cons, List.not_mem_nil, or_false] at hc
      simp only [singleTypes, List.mem_cons, List.not_mem_nil, or_false]
      rcases hc with hc | hc | hc
      · exact Or.inr (Or.inr hc)
      · exact Or.inl hc
      · exact Or.inr (Or.inl hc)
    exact RU.all_eq_of_length_one (h.lc.single x t0 h0 this) hmem

theorem c1_eq : (c.disconnect [n] [f0, f1]).addNodeAttr r { ty := some "buf", out := some false } =
    fanoutC1 c n f0 f1 r :=
  addNodeAttr_fresh _ r _ h.fresh

theorem c2_eq : (fanoutC1 c n f0 f1 r).addEdges [r] [f0, f1] = fanoutC2 c n f0 f1 r := by
  have hnot0 : (r, f0) ∉ (fanoutC1 c n f0 f1 r).edges := by
    intro hm
    exact (h.noedge _ (List.mem_filter.mp hm).1).1 rfl
  show ((fanoutC1 c n f0 f1 r).addEdge r f0).addEdge r f1 = _
  rw [addEdge_new _ _ _ hnot0]
  have hnot1 : (r, f1) ∉ ({ fanoutC1 c n f0 f1 r with
      edges := (fanoutC1 c n f0 f1 r).edges ++ [(r, f0)] } : Circuit).edges := by
    intro hm
    rcases List.mem_append.mp hm with hm | hm
    · exact (h.noedge _ (List.mem_filter.mp hm).1).1 rfl
    · simp only [List.mem_singleton, Prod.mk.injEq] at hm
      exact h.ne hm.2.symm
  rw [addEdge_new _ _ _ hnot1]
  simp [fanoutC2, fanoutC1]

theorem c3_eq : (fanoutC2 c n f0 f1 r).addEdges [n] [r] = fanoutStep c n f0 f1 r := by
  have hnot : (n, r) ∉ (fanoutC2 c n f0 f1 r).edges := by
    intro hm
    rcases List.mem_append.mp hm with hm | hm
    · exact (h.noedge _ (List.mem_filter.mp hm).1).2 rfl
    · simp only [List.mem_cons, Prod.mk.injEq, List.not_mem_nil, or_false] at hm
      rcases hm with hm | hm
      · exact h.nr hm.1
      · exact h.nr hm.1
  show (fanoutC2 c n f0 f1 r).addEdge n r = _
  rw [addEdge_new _ _ _ hnot]
  simp [fanoutStep, fanoutC2]

theorem c1_fanin_nil {x : Name} (hall : ∀ y ∈ c.fanin x, y = n) (hx : x = f0 ∨ x = f1) :
    (fanoutC1 c n f0 f1 r).fanin x = [] := by
  rw [List.eq_nil_iff_forall_not_mem]
  intro y hy
  have hy' : (y, x) ∈ (fanoutC1 c n f0 f1 r).edges := (RU.mem_fanin _ y x).mp hy
  have hf := List.mem_filter.mp hy'
  have hyn := hall y ((RU.mem_fanin c y x).mpr hf.1)
  have := hf.2
  rcases hx with rfl | rfl <;> simp [hyn] at this

theorem check1 : (fanoutC1 c n f0 f1 r).connectCheck [r] [f0, f1] = none := by
  have hn : (fanoutC1 c n f0 f1 r).nodes = c.nodes ++ [(r, gateAttr "buf")] := rfl
  have hb := buf_facts
  apply connectCheck_none
  · intro u hu
    rw [List.mem_singleton.mp hu]
    exact (ext_has hn r).mpr (Or.inr rfl)
  · intro v hv
    simp only [List.mem_cons, List.not_mem_nil, or_false] at hv
    rcases hv with rfl | rfl
    · exact (ext_has hn _).mpr (Or.inl h.has0)
    · exact (ext_has hn _).mpr (Or.inl h.has1)
  · intro v hv
    simp only [List.mem_cons, List.not_mem_nil, or_false] at hv
    have hedge : (n, v) ∈ c.edges := by
      rcases hv with rfl | rfl
      · exact h.e0
      · exact h.e1
    obtain ⟨t0, h0, h2, h3⟩ := h.target_ok hedge
    refine ⟨t0, (ext_ty_old hn (h.lc.closed _ hedge).2).trans h0, h2, ?_⟩
    intro hc
    rw [h.c1_fanin_nil (h3 hc) hv]
    simp
  · intro u hu
    rw [List.mem_singleton.mp hu]
    exact ⟨"buf", ext_ty_new hn h.fresh, hb.2.2.2.1, hb.2.2.2.2.1⟩

theorem c2_fanin_r : (fanoutC2 c n f0 f1 r).fanin r = [] := by
  rw [List.eq_nil_iff_forall_not_mem]
  intro y hy
  have hy' : (y, r) ∈ (fanoutC2 c n f0 f1 r).edges := (RU.mem_fanin _ y r).mp hy
  rcases List.mem_append.mp hy' with hm | hm
  · exact (h.noedge _ (List.mem_filter.mp hm).1).2 rfl
  · simp only [List.mem_cons, Prod.mk.injEq, List.not_mem_nil, or_false] at hm
    rcases hm with hm | hm
    · exact h.r0 hm.2.symm
    · exact h.r1 hm.2.symm

theorem check2 : (fanoutC2 c n f0 f1 r).connectCheck [n] [r] = none := by
  have hn : (fanoutC2 c n f0 f1 r).nodes = c.nodes ++ [(r, gateAttr "buf")] := rfl
  have hb := buf_facts
  apply connectCheck_none
  · intro u hu
    rw [List.mem_singleton.mp hu]
    exact (ext_has hn n).mpr (Or.inl h.hasn)
  · intro v hv
    rw [List.mem_singleton.mp hv]
    exact (ext_has hn r).mpr (Or.inr rfl)
  · intro v hv
    rw [List.mem_singleton.mp hv]
    refine ⟨"buf", ext_ty_new hn h.fresh, hb.2.2.1, ?_⟩
    intro _
    rw [h.c2_fanin_r]
    simp
  · intro u hu
    rw [List.mem_singleton.mp hu]
    obtain ⟨tn, htn, _⟩ := ty_of_has h.lc h.hasn
    refine ⟨tn, (ext_ty_old hn h.hasn).trans htn, ?_, ?_⟩
    · rw [T_connectL2]
      have := h.n_not_bbin
      simp only [htn, ne_eq, Option.some.injEq] at this
      simp [this]
    · rw [T_connectL3]
      have := h.n_not_bbout
      simp only [htn, ne_eq, Option.some.injEq] at this
      simp [this]

/-- the `add` call of one `limit_fanout` iteration succeeds and produces `fanoutStep` -/
theorem addE_eq (base : Name) (hr : c.uid base = some r) (hok : NameOK r) :
    addE (c.disconnect [n] [f0, f1])
      { n := base, ty := "buf", fanin := [n], fanout := [f0, f1], uid := true } =
      .ok (fanoutStep c n f0 f1 r, r) := by
  have hb := buf_facts
  have hadd := add_uid_ok (c.disconnect [n] [f0, f1]) base "buf" [n] [f0, f1] r hr hok hb.1
    (fun hh => absurd hh.1 (by simp)) hb.2.1 rfl rfl
    (by rw [h.c1_eq]; exact h.check1)
    (by rw [h.c1_eq, h.c2_eq]; exact h.check2)
  rw [h.c1_eq, h.c2_eq, h.c3_eq] at hadd
  unfold addE
  rw [hadd]

end FanoutPre
end Limit
end CG
