/- C20 (second half, ternary) helper: the main loop of `ternary` with the arity condition of every node created so far,
   and the lint-cleanness of the encoded circuit -/
import CG.Proofs.LintProdA5
import CG.Proofs.LintProdA1
namespace CG
namespace LintProdA
open Circuit Ternary

variable {c : Circuit} {mp : Name → Name}

/-- a node of a good circuit is wired as lint wants it -/
theorem ar_of_good (g : GoodC c) {y : Name} (hy : c.has y = true) : Ar c y := by
  obtain ⟨ty, hty, hcases⟩ := g.ty hy
  have hsrc : ty ∈ srcT → Ar c y := by
    intro h
    have hs : ty ∈ sourceTypes := by
      simp only [srcT, List.mem_cons, List.not_mem_nil, or_false] at h
      rcases h with rfl | rfl | rfl <;> decide
    have hf := g.clean.noFanin y ty hty hs
    refine ⟨ty, hty, Or.inl ⟨h, fun u hu => ?_⟩⟩
    have : u ∈ c.fanin y := mem_fanin.mpr hu
    rw [hf] at this; cases this
  have hsgl : ty ∈ sglT → Ar c y := by
    intro h
    have hs : ty ∈ singleTypes := by
      simp only [sglT, List.mem_cons, List.not_mem_nil, or_false] at h
      rcases h with rfl | rfl <;> decide
    obtain ⟨q, hq⟩ := List.length_eq_one_iff.mp (g.clean.single y ty hty hs)
    refine ⟨ty, hty, Or.inr (Or.inl ⟨h, q, fun u => ?_⟩)⟩
    rw [← mem_fanin, hq]
  rcases hcases with h | rfl | rfl | rfl | rfl | rfl
  · have := g.clean.multi y ty hty h
    cases hf : c.fanin y with
    | nil => rw [hf] at this; simp at this
    | cons u l => exact Ar.of_multi (u := u) hty h (mem_fanin.mp (by rw [hf]; simp))
  · exact hsgl (by decide)
  · exact hsgl (by decide)
  · exact hsrc (by decide)
  · exact hsrc (by decide)
  · exact hsrc (by decide)

/-- the loop invariant of `ternary` extended by the arity conditions, the names and the registry -/
structure TInv2 (c : Circuit) (mp : Name → Name) (done todo : List Name) (t : Circuit) : Prop where
  inv : TInv c mp done todo t
  helpers : ∀ y, t.has y = true → c.has y = false → IsHelper y → Ar t y
  comps : ∀ m ∈ done, Ar t (mp m)
  nodot : ∀ y, t.has y = true → hasDot y = false
  bbs : t.bbs = c.bbs

theorem tinv2_init (g : GoodC c) (hm : MapOK c mp) (hnd : ∀ y, c.has y = true → hasDot y = false) :
    TInv2 c mp [] c.nodeNames c where
  inv := tinv_init g hm
  helpers := fun y hy hn => by rw [hy] at hn; cases hn
  comps := fun _ h => nomatch h
  nodot := hnd
  bbs := rfl

theorem main_loop2 (g : GoodC c) (hm : MapOK c mp) {ord : Ord} (hord : OrdOK ord)
    (hnd : ∀ y, c.has y = true → hasDot y = false) :
    ∀ (todo done : List Name) (t : Circuit), (∀ m ∈ done ++ todo, c.has m = true) → (done ++ todo).Nodup →
      TInv2 c mp done todo t →
      ∃ t', todo.foldlM (Tx.ternaryNode c ord mp) t = .ok t' ∧ TInv2 c mp (done ++ todo) [] t'
  | [], done, t, _, _, inv => ⟨t, rfl, by rw [List.append_nil]; exact inv⟩
  | n :: todo, done, t, hall, hnd', inv2 => by
    have inv := inv2.inv
    have hn : c.has n = true := hall n (by simp)
    have hsub : ∀ x, c.has x = true → t.has x = true := inv.keep.has
    obtain ⟨t1, e1, hW1, hf, hd, hnew, har⟩ := node_step2 g hm hord hnd inv.w hsub hn (inv.clean n (by simp))
    have hnd'' : (done ++ [n] ++ todo).Nodup := by rw [List.append_assoc]; exact hnd'
    have hne : ∀ m, m ∈ done ∨ m ∈ todo → m ≠ n := by
      intro m hm' e
      subst e
      rw [List.nodup_append] at hnd'
      rcases hm' with h | h
      · exact hnd'.2.2 m h m (by simp) rfl
      · exact (List.nodup_cons.mp hnd'.2.1).1 h
    have hS : ∀ m, c.has m = true → m ≠ n → t.has (mp m) = true → ¬ S mp t n (mp m) := by
      intro m hmc hmn hmt hs
      rcases hs with hs | hs
      · exact hmn (hm.inj hmc hn hs)
      · exact not_newH hmt hs
    have hSh : ∀ y, t.has y = true → IsHelper y → ¬ S mp t n y := by
      intro y hy hyh
      rintro (hs | hs)
      · exact hm.ne_helper hn hyh hs
      · exact not_newH hy hs
    have inv1 : TInv c mp (done ++ [n]) todo t1 := by
      refine ⟨hW1, ?_, ?_, ?_⟩
      · refine inv.keep.trans' hf ?_ ?_
        · intro x hx hs
          rcases hs with hs | hs
          · have := hm.fresh hn; rw [← hs, hx] at this; cases this
          · exact not_newH (hsub x hx) hs
        · intro x hs
          rcases hs with hs | hs
          · rw [hs]; exact hm.fresh hn
          · cases hcx : c.has x with
            | false => rfl
            | true => exact absurd hs (not_newH (hsub x hcx))
      · intro m hm' e he
        have hmc : c.has m = true := hall m (by simp [hm'])
        rcases hf.new e he with h | h
        · exact inv.clean m (by simp [hm']) e h
        · intro heq
          rw [heq] at h
          rcases h with h | h
          · exact hne m (Or.inr hm') (hm.inj hmc hn h)
          · exact comp_not_helper (hm.comp hmc) h.2
      · intro m hm'
        rcases List.mem_append.mp hm' with h | h
        · have hmc : c.has m = true := hall m (by simp [h])
          have hd0 := inv.done m h
          have hns := hS m hmc (hne m (Or.inl h)) (nodeDone_has hd0)
          refine nodeDone_stable hf ?_ hns hns hd0
          intro y hy hyh
          exact ⟨hSh y hy hyh, hSh y hy hyh⟩
        · rw [List.mem_singleton] at h; subst h; exact hd
    have inv21 : TInv2 c mp (done ++ [n]) todo t1 := by
      refine ⟨inv1, ?_, ?_, ?_, ?_⟩
      · intro y hy hcy hyh
        rcases hnew y hy with h | ⟨m, hmc, rfl⟩ | ⟨_, _, h⟩
        · exact Ar.frame_fix hf (hSh y h hyh) (hSh y h hyh) (inv2.helpers y h hcy hyh)
        · exact absurd hyh (fun hh => comp_not_helper (hm.comp hmc) hh)
        · exact h
      · intro m hm'
        rcases List.mem_append.mp hm' with h | h
        · have hmc : c.has m = true := hall m (by simp [h])
          have ha := inv2.comps m h
          have hns := hS m hmc (hne m (Or.inl h)) ha.has
          exact Ar.frame_fix hf hns hns ha
        · rw [List.mem_singleton] at h; subst h; exact har
      · intro y hy
        rcases hnew y hy with h | ⟨m, hmc, rfl⟩ | ⟨_, h, _⟩
        · exact inv2.nodot y h
        · rw [hasDot_comp hm hmc]; exact hnd m hmc
        · exact h
      · rw [ternaryNode_bbs e1]; exact inv2.bbs
    obtain ⟨t', e2, inv'⟩ := main_loop2 g hm hord hnd todo (done ++ [n]) t1
      (by intro m hm'; apply hall; simpa using hm') hnd'' inv21
    refine ⟨t', ?_, ?_⟩
    · rw [List.foldlM_cons, e1]; exact e2
    · rw [List.append_assoc] at inv'; exact inv'

/-- `ternary` on a good dot-free circuit: the final state satisfies the extended invariant -/
theorem ternary_run2 (g : GoodC c) (hbb : c.bbs = []) (hnd : ∀ y, c.has y = true → hasDot y = false)
    {ord : Ord} (hord : OrdOK ord) :
    ∃ t, Tx.ternary c ord = .ok (t, mappingOf c) ∧ TInv2 c (mpOf c) c.nodeNames [] t := by
  obtain ⟨t, e, inv⟩ := main_loop2 g (mapOK_mpOf c) hord hnd c.nodeNames [] c
    (fun m hm' => (has_iff_mem c m).mpr (by simpa using hm')) (by simpa using g.clean.nodup)
    (tinv2_init g (mapOK_mpOf c) hnd)
  refine ⟨t, ?_, by simpa using inv⟩
  unfold Tx.ternary
  rw [hbb, ternaryMapping_eq, ok_bind]
  simp only [List.isEmpty_nil, Bool.not_true, Bool.false_eq_true, if_false]
  show (c.nodeNames.foldlM (Tx.ternaryNode c ord (mpOf c)) c >>= fun t => pure (t, mappingOf c)) = _
  rw [e]
  rfl

theorem ok_supported {ty : String} (h : ty ∈ okTypes) : ty ∈ Expected.supported_types := by
  simp only [okTypes, List.mem_cons, List.not_mem_nil, or_false] at h
  rcases h with rfl | rfl | rfl | rfl | rfl | rfl | rfl | rfl | rfl | rfl | rfl <;> decide

/-- every node of the final state is wired as lint wants it -/
theorem final_ar (g : GoodC c) {t : Circuit} (inv : TInv2 c mp c.nodeNames [] t) {y : Name}
    (hy : t.has y = true) : Ar t y := by
  cases hcy : c.has y with
  | true => exact Ar.frame_fix inv.inv.keep (fun h => h) (by simp [hcy]) (ar_of_good g hcy)
  | false =>
    rcases inv.inv.w.cls y hy with h | ⟨m, hmc, rfl⟩ | h
    · rw [hcy] at h; cases h
    · exact inv.comps m ((has_iff_mem c m).mp hmc)
    · exact inv.helpers y hy hcy h

/-- the encoded circuit is lint-clean -/
theorem final_clean (g : GoodC c) {t : Circuit} (inv : TInv2 c mp c.nodeNames [] t) : LintClean t := by
  have hW := inv.inv.w
  have hnobb : ∀ x ty, t.ty? x = some ty → ty ∈ okTypes := by
    intro x ty h
    obtain ⟨ty', h1, h2⟩ := hW.typed x (has_of_ty? h)
    rw [h] at h1; cases h1; exact h2
  refine ⟨⟨hW.nodupN, hW.nodupE, hW.closed⟩, ?_, ?_, ?_, ?_, ?_, ?_⟩
  · intro p hp
    have ha : t.attr? p.1 = some p.2 := attr?_of_mem hW.nodupN (by exact hp)
    obtain ⟨ty, h1, h2⟩ := hW.typed p.1 (has_of_attr' ha)
    rw [ty_of_attr ha] at h1
    exact ⟨ty, h1, ok_supported h2⟩
  · intro n ty hty hs
    exact ((final_ar g inv (has_of_ty? hty)).lint hW.nodupE hty).1 hs
  · intro n ty hty hs
    exact ((final_ar g inv (has_of_ty? hty)).lint hW.nodupE hty).2.1 hs
  · intro n ty hty hs
    exact ((final_ar g inv (has_of_ty? hty)).lint hW.nodupE hty).2.2 hs
  · intro e _ h
    exact absurd (hnobb _ _ h) (by decide)
  · intro e _ h
    exact absurd (hnobb _ _ h) (by decide)

/-- **the ternary encoding of a good circuit with a consistent registry is lint-clean with a consistent registry** -/
theorem ternary_clean (c : Circuit) (ord : Ord) (hord : OrdOK ord) (g : GoodC c) (hbb : c.bbs = [])
    (hr : C20.RegistryOK c) (t : Circuit) (mapping : List (Name × Name)) (h : Tx.ternary c ord = .ok (t, mapping)) :
    LintClean t ∧ C20.RegistryOK t := by
  have hnd := ((registryOK_nobb_iff c hbb).mp hr).names
  obtain ⟨t', e, inv⟩ := ternary_run2 g hbb hnd hord
  rw [e] at h
  injection h with h
  injection h with h1 h2
  subst h1
  exact ⟨final_clean g inv, C20.registryOK_of_noDots ⟨inv.bbs.trans hbb, inv.nodot⟩⟩

end LintProdA
end CG
