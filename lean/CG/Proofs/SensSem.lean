/- helper lemmas for C11: consistent valuations of the result of `sensitization_transform` -/
import CG.Proofs.SensBase
set_option linter.unusedSimpArgs false
set_option linter.unusedVariables false
namespace CG
namespace Sens
open Circuit Miter

/-- every node of `m0` except `x` satisfies its equation -/
def CE (m0 : Circuit) (x : Name) (v : Val) : Prop :=
  ∀ q ∈ m0.nodes, q.1 ≠ x → ∀ t, q.2.ty = some t → NodeOK m0 v q.1 t

theorem gateFn_not1 (a : Bool) : gateFn "not" [a] = some (!a) := by
  unfold gateFn
  simp

section view
variable {c m0 m : Circuit} {n : Name} {sp ep : List Name}

theorem SView.mem_other (S : SView c n sp ep m0 m) {q : Name × Attr} (hq : q ∈ m0.nodes) (hne : q.1 ≠ pref "c1" n) :
    q ∈ m.nodes := by
  rw [S.nodes]
  refine List.mem_map.2 ⟨q, hq, ?_⟩
  rw [if_neg (by simpa using hne)]

theorem SView.mem_c1n (S : SView c n sp ep m0 m) : ∃ a, (pref "c1" n, a) ∈ m.nodes ∧ a.ty = some "not" := by
  obtain ⟨a, ha⟩ := has_exists S.has1
  refine ⟨{ a with ty := some "not" }, ?_, rfl⟩
  rw [S.nodes]
  refine List.mem_map.2 ⟨(pref "c1" n, a), ha, ?_⟩
  simp

theorem SView.cases (S : SView c n sp ep m0 m) {p : Name × Attr} (hp : p ∈ m.nodes) :
    (p ∈ m0.nodes ∧ p.1 ≠ pref "c1" n) ∨ (p.1 = pref "c1" n ∧ p.2.ty = some "not") := by
  rw [S.nodes] at hp
  obtain ⟨q, hq, rfl⟩ := List.mem_map.1 hp
  by_cases h : q.1 = pref "c1" n
  · right
    rw [if_pos (by simpa using h)]
    exact ⟨h, rfl⟩
  · left
    rw [if_neg (by simpa using h)]
    exact ⟨hq, h⟩

theorem SView.nodeNames (S : SView c n sp ep m0 m) : m.nodeNames = m0.nodeNames := by
  unfold Circuit.nodeNames
  rw [S.nodes, List.map_map]
  apply List.map_congr_left
  intro p _
  simp only [Function.comp]
  split <;> rfl

theorem SView.nodeOK_other (S : SView c n sp ep m0 m) {x : Name} (hx : x ≠ pref "c1" n) (v : Val) (t : String) :
    NodeOK m v x t ↔ NodeOK m0 v x t := by
  unfold NodeOK
  rw [S.fanin x hx]

theorem SView.consistent_iff (S : SView c n sp ep m0 m) (v : Val) :
    Consistent m v ↔ (CE m0 (pref "c1" n) v ∧ v (pref "c1" n) = !v (pref "c0" n)) := by
  constructor
  · intro hv
    refine ⟨?_, ?_⟩
    · intro q hq hne t ht
      exact (S.nodeOK_other hne v t).1 (hv q (S.mem_other hq hne) t ht)
    · obtain ⟨a, ha, hta⟩ := S.mem_c1n
      apply hv _ ha "not" hta
      simp only []
      rw [S.fanin1]
      exact gateFn_not1 _
  · rintro ⟨h1, h2⟩ p hp t ht
    rcases S.cases hp with ⟨hq, hne⟩ | ⟨he, hty⟩
    · exact (S.nodeOK_other hne v t).2 (h1 p hq hne t ht)
    · rw [hty] at ht
      injection ht with ht
      subst ht
      intro b hb
      rw [he, S.fanin1] at hb
      simp only [List.map_cons, List.map_nil] at hb
      rw [gateFn_not1] at hb
      injection hb with hb
      rw [he, h2, hb]

/-! ### reading a valuation that satisfies every equation of the self-miter except that of `c1_n` -/

theorem ce_c0 (V : MView c c sp ep m0) (h0 : WF c) (hsp : sp.Nodup) (hin : ∀ s ∈ sp, s ∈ c.inputs)
    (v : Val) (hv : CE m0 (pref "c1" n) v) : Consistent c (fun x => v (pref "c0" x)) := by
  intro p hp t ht b hb
  by_cases hne : t = "input"
  · subst hne; rw [gateFn_input] at hb; cases hb
  · have hns : p.1 ∉ sp := by
      intro hs
      have := (mem_inputs_of_mem h0.nodup (a := p.2) hp).1 (hin _ hs)
      rw [ht] at this; injection this with this; exact hne this
    apply hv _ (V.mem_c0 hp) (c0_ne_c1 _ _) t (stripA_ty_of_ne ht hne) b
    simp only []
    rw [V.fanin_c0 hsp, if_neg hns, List.append_nil, gate_map_pref]
    exact hb

theorem ce_c1 (V : MView c c sp ep m0) (h0 : WF c) (hsp : sp.Nodup) (hin : ∀ s ∈ sp, s ∈ c.inputs)
    (v : Val) (hv : CE m0 (pref "c1" n) v) :
    ∀ p ∈ c.nodes, p.1 ≠ n → ∀ t, p.2.ty = some t → NodeOK c (fun x => v (pref "c1" x)) p.1 t := by
  intro p hp hpn t ht b hb
  by_cases hne : t = "input"
  · subst hne; rw [gateFn_input] at hb; cases hb
  · have hns : p.1 ∉ sp := by
      intro hs
      have := (mem_inputs_of_mem h0.nodup (a := p.2) hp).1 (hin _ hs)
      rw [ht] at this; injection this with this; exact hne this
    apply hv _ (V.mem_c1 hp) (fun e => hpn (pref_inj "c1" e)) t (stripA_ty_of_ne ht hne) b
    simp only []
    rw [V.fanin_c1 hsp, if_neg hns, List.append_nil, gate_map_pref]
    exact hb

theorem ce_tie0 (V : MView c c sp ep m0) (h0 : WF c) (hsp : sp.Nodup) {s : Name} (hs : s ∈ sp)
    (hin : s ∈ c.inputs) (hnf : c.fanin s = []) (v : Val) (hv : CE m0 (pref "c1" n) v) : v (pref "c0" s) = v s := by
  obtain ⟨a, ha⟩ := has_exists (mem_inputs_has hin)
  have hty : a.ty = some "input" := (mem_inputs_of_mem h0.nodup ha).1 hin
  apply hv _ (V.mem_c0 ha) (c0_ne_c1 _ _) "buf" (stripA_input hty)
  simp only []
  rw [V.fanin_c0 hsp, if_pos hs, hnf]
  exact gateFn_buf1 _

theorem ce_tie1 (V : MView c c sp ep m0) (h0 : WF c) (hsp : sp.Nodup) {s : Name} (hs : s ∈ sp) (hsn : s ≠ n)
    (hin : s ∈ c.inputs) (hnf : c.fanin s = []) (v : Val) (hv : CE m0 (pref "c1" n) v) : v (pref "c1" s) = v s := by
  obtain ⟨a, ha⟩ := has_exists (mem_inputs_has hin)
  have hty : a.ty = some "input" := (mem_inputs_of_mem h0.nodup ha).1 hin
  apply hv _ (V.mem_c1 ha) (fun e => hsn (pref_inj "c1" e)) "buf" (stripA_input hty)
  simp only []
  rw [V.fanin_c1 hsp, if_pos hs, hnf]
  exact gateFn_buf1 _

theorem ce_dif (V : MView c c sp ep m0) (hep : ep.Nodup) {e : Name} (he : e ∈ ep)
    (v : Val) (hv : CE m0 (pref "c1" n) v) : v (dif e) = (v (pref "c0" e) != v (pref "c1" e)) := by
  apply hv _ (V.mem_dif he) (fun e' => c1_ne_dif _ _ e'.symm) "xor" rfl
  simp only []
  rw [V.fanin_dif hep he]
  exact gateFn_xor2 _ _

theorem ce_sat (V : MView c c sp ep m0) (hep : ep.Nodup) (hne : ep ≠ [])
    (v : Val) (hv : CE m0 (pref "c1" n) v) :
    v "sat" = true ↔ ∃ e ∈ ep, v (pref "c0" e) ≠ v (pref "c1" e) := by
  have hs : v "sat" = ep.any (fun e => v (dif e)) := by
    apply hv _ V.mem_sat (fun e' => c1_ne_sat _ e'.symm) (satTy ep) rfl
    show gateFn (satTy ep) ((m0.fanin "sat").map v) = _
    rw [V.fanin_sat, List.map_map]
    exact gateFn_satTy ep hne _
  rw [hs, List.any_eq_true]
  constructor
  · rintro ⟨e, he, h⟩
    refine ⟨e, he, ?_⟩
    rw [ce_dif V hep he v hv] at h
    simpa using h
  · rintro ⟨e, he, h⟩
    refine ⟨e, he, ?_⟩
    rw [ce_dif V hep he v hv]
    simpa using h

/-! ### building a consistent valuation -/

/-- the equation of one copied node, from the equation of the original node -/
theorem copy_ok' {c mm : Circuit} {sp : List Name} {name : Name} {w v : Val} (hc : WF c)
    (hval : ∀ n, c.has n = true → v (pref name n) = w n)
    (hnf : ∀ n ∈ c.inputs, c.fanin n = []) (hsp : ∀ s ∈ sp, s ∈ c.inputs)
    {q : Name × Attr} (hq : q ∈ c.nodes) (hvs : q.1 ∈ sp → v q.1 = w q.1)
    (hw : ∀ t, q.2.ty = some t → NodeOK c w q.1 t)
    {t : String} (ht : (stripA q.2).ty = some t)
    (fan : mm.fanin (pref name q.1) = (c.fanin q.1).map (pref name) ++ (if q.1 ∈ sp then [q.1] else [])) :
    NodeOK mm v (pref name q.1) t := by
  intro b hb
  rw [fan] at hb
  rcases stripA_cases q.2 ht with ⟨hi, rfl⟩ | ⟨hty, hne⟩
  · have hin : q.1 ∈ c.inputs := (mem_inputs_of_mem hc.nodup (a := q.2) hq).2 hi
    rw [hnf _ hin] at hb
    by_cases hs : q.1 ∈ sp
    · rw [if_pos hs] at hb
      simp only [List.map_nil, List.nil_append, List.map_cons] at hb
      rw [gateFn_buf1] at hb
      injection hb with hb
      rw [hval _ (has_of_mem hq), ← hvs hs]
      exact hb
    · rw [if_neg hs] at hb
      simp only [List.map_nil, List.nil_append] at hb
      rw [gateFn_buf0] at hb
      cases hb
  · have hns : q.1 ∉ sp := by
      intro hs
      have := (mem_inputs_of_mem hc.nodup (a := q.2) hq).1 (hsp _ hs)
      rw [hty] at this; injection this with this; exact hne this
    rw [if_neg hns, List.append_nil, List.map_map] at hb
    have e : (c.fanin q.1).map (v ∘ pref name) = (c.fanin q.1).map w := by
      apply List.map_congr_left
      intro u hu
      exact hval u (hc.closed (u, q.1) (mem_fanin.1 hu)).1
    rw [e] at hb
    rw [hval _ (has_of_mem hq)]
    exact hw t hty b hb

/-- `mval` of a consistent valuation and an inverted one satisfies every equation except that of `c1_n` -/
theorem ce_complete (V : MView c c sp ep m0) (h0 : WF c) (hsp : sp.Nodup) (hep : ep.Nodup) (hne : ep ≠ [])
    (hin : ∀ s ∈ sp, s ∈ c.inputs) (hnf : ∀ x ∈ c.inputs, c.fanin x = [])
    (hep0 : ∀ e ∈ ep, c.has e = true)
    (v0 w : Val) (hv0 : Consistent c v0)
    (hw : ∀ p ∈ c.nodes, p.1 ≠ n → ∀ t, p.2.ty = some t → NodeOK c w p.1 t)
    (hag : ∀ s ∈ sp, s ≠ n → w s = v0 s) :
    CE m0 (pref "c1" n) (mval c c sp ep v0 w) := by
  intro p hp hpn t ht
  rcases V.cases hp with ⟨q, hq, rfl⟩ | ⟨q, hq, rfl⟩ | ⟨s, hs, rfl⟩ | rfl | ⟨e, he, rfl⟩
  · exact copy_ok' h0 (fun x hx => V.mval_c0 v0 w hx) hnf hin hq (fun hs => V.mval_tie v0 w hs)
      (fun t ht => hv0 q hq t ht) ht (V.fanin_c0 hsp q.1)
  · have hqn : q.1 ≠ n := fun e => hpn (by rw [e])
    exact copy_ok' h0 (fun x hx => V.mval_c1 v0 w hx) hnf hin hq
      (fun hs => by rw [V.mval_tie v0 w hs]; exact (hag _ hs hqn).symm)
      (fun t ht => hw q hq hqn t ht) ht (V.fanin_c1 hsp q.1)
  · simp only [] at ht
    injection ht with ht
    subst ht
    intro b hb
    rw [gateFn_input] at hb
    cases hb
  · simp only [satNode] at ht
    injection ht with ht
    subst ht
    intro b hb
    simp only [satNode] at hb ⊢
    rw [V.fanin_sat, List.map_map] at hb
    have e : ep.map (mval c c sp ep v0 w ∘ dif) = ep.map (fun e => v0 e != w e) := by
      apply List.map_congr_left
      intro e he
      exact V.mval_dif v0 w he
    rw [e, gateFn_satTy ep hne] at hb
    injection hb with hb
    rw [V.mval_sat]
    exact hb
  · simp only [] at ht
    injection ht with ht
    subst ht
    intro b hb
    simp only [] at hb ⊢
    rw [V.fanin_dif hep he] at hb
    simp only [List.map_cons, List.map_nil] at hb
    rw [V.mval_c0 v0 w (hep0 e he), V.mval_c1 v0 w (hep0 e he), gateFn_xor2] at hb
    injection hb with hb
    rw [V.mval_dif v0 w he]
    exact hb

/-! ### the result is `C01.Clean`; its `sat` node and its startpoints -/

theorem SView.ty_other (S : SView c n sp ep m0 m) {x : Name} (hx : x ≠ pref "c1" n) {t : String}
    (h : m.ty? x = some t) : m0.ty? x = some t := by
  obtain ⟨p, hp, rfl, hpt⟩ := Tseitin.mem_of_ty m x t h
  rcases S.cases hp with ⟨hq, _⟩ | ⟨he, _⟩
  · exact ty?_of_mem S.mv.wf.nodup hq hpt
  · exact absurd he hx

theorem SView.clean (S : SView c n sp ep m0 m) (h0 : C01.Clean m0) : C01.Clean m := by
  refine ⟨by rw [S.nodeNames]; exact h0.nodup, ?_, ?_, ?_⟩
  · intro p hp
    rcases S.cases hp with ⟨hq, _⟩ | ⟨_, hty⟩
    · exact h0.typed p hq
    · exact ⟨"not", hty, by decide, by decide⟩
  · intro x t hty hm
    by_cases hx : x = pref "c1" n
    · rw [hx, S.fanin1]; simp
    · rw [S.fanin x hx]
      exact h0.single x t (S.ty_other hx hty) hm
  · intro x t hty hm
    by_cases hx : x = pref "c1" n
    · rw [hx, S.fanin1]; simp
    · rw [S.fanin x hx]
      exact h0.multi x t (S.ty_other hx hty) hm

theorem SView.has_sat (S : SView c n sp ep m0 m) : m.has "sat" = true := by
  rw [has_iff_mem, S.nodeNames, ← has_iff_mem]
  exact S.mv.has_sat

theorem SView.startpoints (S : SView c n sp ep m0 m) (hnbo : ∀ q ∈ c.nodes, q.2.ty ≠ some "bb_output")
    {x : Name} (hx : x ∈ m.startpointsAll) : x ∈ sp := by
  unfold startpointsAll at hx
  rw [mem_filterType] at hx
  obtain ⟨a, ha, t, ht, hm⟩ := hx
  have hne : t ≠ "not" := by
    simp only [List.mem_cons, List.not_mem_nil, or_false] at hm
    rcases hm with rfl | rfl <;> decide
  rcases S.cases ha with ⟨hq, _⟩ | ⟨_, hty⟩
  · have key : ∀ q ∈ c.nodes, (stripA q.2).ty ≠ some t := by
      intro q hq e
      rcases stripA_cases q.2 e with ⟨_, rfl⟩ | ⟨hty, hni⟩
      · simp only [List.mem_cons, List.not_mem_nil, or_false] at hm
        rcases hm with hm | hm <;> exact absurd hm (by decide)
      · simp only [List.mem_cons, List.not_mem_nil, or_false] at hm
        rcases hm with rfl | rfl
        · exact hni rfl
        · exact hnbo q hq hty
    rcases S.mv.cases hq with ⟨q, hq', e⟩ | ⟨q, hq', e⟩ | ⟨s, hs, e⟩ | e | ⟨e', _, e⟩
    · injection e with e1 e2
      subst e2
      exact absurd ht (key q hq')
    · injection e with e1 e2
      subst e2
      exact absurd ht (key q hq')
    · injection e with e1 e2
      subst e1
      exact hs
    · unfold satNode at e
      injection e with e1 e2
      subst e2
      simp only [] at ht
      injection ht with ht
      subst ht
      simp only [List.mem_cons, List.not_mem_nil, or_false] at hm
      rcases satTy_cases ep with h | h | h <;> rw [h] at hm <;> rcases hm with hm | hm <;> exact absurd hm (by decide)
    · injection e with e1 e2
      subst e2
      simp only [] at ht
      injection ht with ht
      subst ht
      simp only [List.mem_cons, List.not_mem_nil, or_false] at hm
      rcases hm with hm | hm <;> exact absurd hm (by decide)
  · simp only [] at hty
    rw [hty] at ht
    injection ht with ht
    exact absurd ht.symm hne

end view

end Sens
end CG
