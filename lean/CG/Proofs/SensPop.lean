/- helper lemmas for C11: the generated adder and popcount circuits are acyclic (so every input pattern extends to a
   consistent valuation, and the popcount has enough output bits) -/
import CG.Proofs.SensAcyc
import CG.Proofs.Query
import CG.Props.C01
set_option linter.unusedSimpArgs false
set_option linter.unusedVariables false
namespace CG
namespace Sens
open Circuit Arith Logic Limit
open Tx (addC)

theorem FA_acyclic : Acyclic FA := by
  refine ⟨fun z => ([("x", 0), ("y", 0), ("cin", 0), ("x_y_ha_x", 1), ("x_y_ha_y", 1), ("x_y_ha_c", 2),
    ("x_y_ha_s", 2), ("cin_s_ha_x", 3), ("cin_s_ha_y", 1), ("cin_s_ha_c", 4), ("cin_s_ha_s", 4), ("cout", 5),
    ("s", 5)].lookup z).getD 0, ?_⟩
  decide

/-! ### one bit of the ripple-carry adder -/

theorem bitStep_acyclic {ci : Bool} {i : Nat} {c : Circuit} {carry : Name} {c3 c4 : Circuit}
    (h : AdderInv ci i c carry) (bs : BitStep i c carry c3 c4) (hac : Acyclic c) : Acyclic c4 := by
  have hwf := wf_of_inv h.inv
  have hout : c.has ("out_" ++ toString i) = false := not_has_of h.names (not_AName_out i)
  have h3c : ∀ x, c.has x = true → c3.has x = true := fun x hx => (has_append bs.nodes3 x).2 (Or.inl hx)
  have h3out : c3.has ("out_" ++ toString i) = true :=
    (has_append bs.nodes3 _).2 (Or.inr ⟨{ ty := some "buf", out := some true }, by simp [bitNodes]⟩)
  have h3a : c3.has ("a_" ++ toString i) = true :=
    (has_append bs.nodes3 _).2 (Or.inr ⟨{ ty := some "input", out := some false }, by simp [bitNodes]⟩)
  have h3b : c3.has ("b_" ++ toString i) = true :=
    (has_append bs.nodes3 _).2 (Or.inr ⟨{ ty := some "input", out := some false }, by simp [bitNodes]⟩)
  have hcarry : c.has carry = true := by
    obtain ⟨t, ht, _⟩ := h.carryTy
    exact has_of_ty ht
  have clash := bs.facts.clash
  -- classification of the edges
  have hcls : ∀ e ∈ c4.edges, e ∈ c.edges ∨
      (∃ e0 ∈ FA.edges, e = (pref ("fa_" ++ toString i) e0.1, pref ("fa_" ++ toString i) e0.2)) ∨
      (c3.has e.1 = true ∧ e.1 ≠ "out_" ++ toString i ∧ ∃ y, FA.has y = true ∧ e.2 = pref ("fa_" ++ toString i) y) ∨
      ((∃ y, FA.has y = true ∧ e.1 = pref ("fa_" ++ toString i) y) ∧ e.2 = "out_" ++ toString i) := by
    intro e he
    rcases (bs.facts.mem e).1 he with h0 | h0 | h0
    · rw [bs.edges3] at h0; exact Or.inl h0
    · obtain ⟨e0, he0, rfl⟩ := List.mem_map.1 h0
      exact Or.inr (Or.inl ⟨e0, he0, rfl⟩)
    · right; right
      obtain ⟨p, hp, hc⟩ := h0
      simp only [adderConns, List.mem_cons, List.not_mem_nil, or_false] at hp
      rcases hp with rfl | rfl | rfl | rfl
      · rcases hc with ⟨_, h1, h2⟩ | ⟨h1, _⟩
        · simp only [List.mem_singleton] at h1
          left
          refine ⟨by rw [h1]; exact h3a, by rw [h1]; name_ne, "x", by decide, h2⟩
        · exact absurd (show "x" ∈ FA.inputs by decide) h1
      · rcases hc with ⟨_, h1, h2⟩ | ⟨h1, _⟩
        · simp only [List.mem_singleton] at h1
          left
          refine ⟨by rw [h1]; exact h3b, by rw [h1]; name_ne, "y", by decide, h2⟩
        · exact absurd (show "y" ∈ FA.inputs by decide) h1
      · rcases hc with ⟨_, h1, h2⟩ | ⟨h1, _⟩
        · simp only [List.mem_singleton] at h1
          left
          refine ⟨by rw [h1]; exact h3c _ hcarry, ?_, "cin", by decide, h2⟩
          rw [h1]
          intro e'
          rw [e', hout] at hcarry
          cases hcarry
        · exact absurd (show "cin" ∈ FA.inputs by decide) h1
      · rcases hc with ⟨h1, _⟩ | ⟨_, h1, h2⟩
        · exact absurd h1 (show "s" ∉ FA.inputs by decide)
        · simp only [List.mem_singleton] at h2
          right
          exact ⟨⟨"s", by decide, h1⟩, h2⟩
  have hsrc : ∀ e ∈ c4.edges, e.1 ≠ "out_" ++ toString i := by
    intro e he e1
    rcases hcls e he with h0 | ⟨e0, he0, rfl⟩ | ⟨_, h0, _⟩ | ⟨⟨y, hy, h0⟩, _⟩
    · have := (hwf.closed e h0).1
      rw [e1, hout] at this; cases this
    · simp only [] at e1
      have := clash e0.1 (FA_wf.closed e0 he0).1
      rw [e1, h3out] at this; cases this
    · exact h0 e1
    · have := clash y hy
      rw [← h0, e1, h3out] at this; cases this
  rw [acyclic_iff_acycOn]
  apply AcycOn.glue (fun z => z ≠ "out_" ++ toString i)
  · apply AcycOn.glue (fun z => c3.has z = true)
    · apply AcycOn.of_rank hac
      rintro e he ⟨⟨_, p1⟩, q1⟩ ⟨⟨_, p2⟩, q2⟩
      rcases hcls e he with h0 | ⟨e0, he0, rfl⟩ | ⟨_, _, y, hy, h0⟩ | ⟨_, h0⟩
      · exact h0
      · simp only [] at q2
        rw [clash e0.2 (FA_wf.closed e0 he0).2] at q2; cases q2
      · rw [h0, clash y hy] at q2; cases q2
      · exact absurd h0 p2
    · apply AcycOn.image (pref ("fa_" ++ toString i)) (fun y => FA.has y = true) FA.edges FA_acyclic
        (fun a b _ _ e => pref_inj _ e)
      rintro e he ⟨⟨_, p1⟩, q1⟩ ⟨⟨_, p2⟩, q2⟩
      rcases hcls e he with h0 | ⟨e0, he0, rfl⟩ | ⟨h0, _⟩ | ⟨_, h0⟩
      · exact absurd (h3c _ (hwf.closed e h0).1) q1
      · exact ⟨e0, he0, (FA_wf.closed e0 he0).1, (FA_wf.closed e0 he0).2, rfl⟩
      · exact absurd h0 q1
      · exact absurd h0 p2
    · rintro e he ⟨_, p1⟩ ⟨_, p2⟩ q1 q2
      rcases hcls e he with h0 | ⟨e0, he0, rfl⟩ | ⟨h0, _⟩ | ⟨_, h0⟩
      · exact q1 (h3c _ (hwf.closed e h0).1)
      · simp only [] at q2
        rw [clash e0.2 (FA_wf.closed e0 he0).2] at q2; cases q2
      · exact q1 h0
      · exact p2 h0
  · apply AcycOn.of_empty
    rintro e he ⟨_, p1⟩ _
    exact p1 (hsrc e he)
  · intro e he _ _ p1 _
    exact p1 (hsrc e he)

/-! ### the adder -/

theorem adder_loop_acyc (ci : Bool) (c0 : Circuit) (h0 : AdderInv ci 0 c0 "cin") (hac0 : Acyclic c0) : ∀ w,
    ∃ c carry, (List.range w).foldlM (adderBit FA) (c0, "cin") = .ok (c, carry) ∧ AdderInv ci w c carry ∧ Acyclic c
  | 0 => ⟨c0, "cin", rfl, h0, hac0⟩
  | w + 1 => by
    obtain ⟨c, carry, e, h, hac⟩ := adder_loop_acyc ci c0 h0 hac0 w
    obtain ⟨c', e', h'⟩ := adderBit_step h
    obtain ⟨c3, c4, e4, bs⟩ := adderBit_struct h
    have hc : c' = c4 := by
      rw [e'] at e4
      injection e4 with e4
      injection e4
    subst hc
    refine ⟨c', _, ?_, h', bitStep_acyclic h bs hac⟩
    rw [foldlM_range_succ, e, Arith.bind_ok, e']

theorem adder_acyclic (w : Nat) : ∃ c, adder w false true = .ok c ∧ AdderSpec w false true c ∧ Acyclic c := by
  obtain ⟨cA, hA, S⟩ := adder_full w false true
  refine ⟨cA, hA, S, ?_⟩
  obtain ⟨c0, e0, h0⟩ := adder_base false
  have hac0 : Acyclic c0 := by
    obtain ⟨c0', _, e0', r⟩ := add_spec { name := "adder" } (empty_Inv "adder") "cin"
      (if false = true then "input" else "0") [] [] false
      rfl (nameOK_lit "cin" 'c' ['i', 'n'] rfl (by decide) "") (by decide) (fun _ => rfl) (fun _ => by simp)
      (fun u hu => by cases hu) (fun u hu => by cases hu)
    have hc : c0 = c0' := by
      rw [e0] at e0'
      injection e0' with e0'
      injection e0'
    rw [hc]
    refine ⟨fun _ => 0, ?_⟩
    rw [r.edgesNil rfl rfl]
    intro e he
    cases he
  obtain ⟨c, carry, el, h, hac⟩ := adder_loop_acyc false c0 h0 hac0 w
  have hwf := wf_of_inv h.inv
  have hunf : adder w false true = addC c { n := "cout", ty := "buf", fanin := [carry], output := true } := by
    unfold adder
    rw [fullAdder_eq, Arith.bind_ok, e0, Arith.bind_ok]
    simp only []
    rw [el, Arith.bind_ok]
    rfl
  obtain ⟨tc, htc, htc'⟩ := h.carryTy
  have hfresh : c.has "cout" = false := not_has_of h.names (not_AName_cout w)
  obtain ⟨c', e', _, r⟩ := add_spec c h.inv "cout" "buf" [carry] [] true hfresh
    (nameOK_lit "cout" 'c' ['o', 'u', 't'] rfl (by decide) "") (by decide)
    (fun h => by rcases h with h | h <;> exact absurd h (by decide)) (fun _ => by simp)
    (by
      intro u hu
      simp only [List.mem_singleton] at hu
      subst hu
      refine ⟨tc, htc, ?_, ?_⟩ <;> rcases htc' with rfl | rfl | rfl <;> decide)
    (fun u hu => by cases hu)
  have hc : cA = c' := by
    rw [hunf, e'] at hA
    injection hA with hA
    exact hA.symm
  rw [hc]
  apply acyclic_sinks (fun z => z = "cout") hac
  · intro e he
    rcases (r.edges e).1 he with h0 | ⟨_, h0⟩ | ⟨_, h0⟩
    · exact Or.inl h0
    · cases h0
    · exact Or.inr h0
  · intro e he e1
    rcases (r.edges e).1 he with h0 | ⟨_, h0⟩ | ⟨h0, _⟩
    · have := (hwf.closed e h0).1
      rw [e1, hfresh] at this; cases this
    · cases h0
    · simp only [List.mem_singleton] at h0
      have := has_of_ty htc
      rw [← h0, e1, hfresh] at this; cases this

/-! ### one step of the popcount queue loop -/

theorem popStep_acyclic {c AD c3 : Circuit} {inst : Name} {aw : Nat} {sa sb : Nat → Name}
    (P : PopStep c AD c3 inst aw sa sb) (hwf : WF c) (S : AdderSpec aw false true AD)
    (hclash : ∀ n, c.has (pref inst n) = false)
    (hsrc : ∀ j, j < aw → c.has (sa j) = true ∧ c.has (sb j) = true)
    (hac : Acyclic c) (hAD : Acyclic AD) : Acyclic c3 := by
  have hphi : ∀ n, c.has (phi inst aw n) = false := by
    intro n
    obtain ⟨m, hm⟩ := phi_pref inst aw n
    rw [hm]; exact hclash m
  have hcls := fun e => (P.edges' hwf hclash e).1
  rw [acyclic_iff_acycOn]
  apply AcycOn.glue (fun z => c.has z = true)
  · apply AcycOn.of_rank hac
    rintro e he ⟨_, q1⟩ ⟨_, q2⟩
    rcases hcls e he with h0 | ⟨e0, _, rfl⟩ | ⟨j, _, rfl | rfl⟩
    · exact h0
    · simp only [] at q2
      rw [hphi] at q2; cases q2
    · simp only [] at q2
      rw [hclash] at q2; cases q2
    · simp only [] at q2
      rw [hclash] at q2; cases q2
  · apply AcycOn.image (phi inst aw) (fun y => AD.has y = true) AD.edges hAD
      (fun a b ha hb e => phi_inj S ha hb e)
    rintro e he ⟨_, q1⟩ ⟨_, q2⟩
    rcases hcls e he with h0 | ⟨e0, he0, rfl⟩ | ⟨j, hj, rfl | rfl⟩
    · exact absurd (hwf.closed e h0).1 q1
    · exact ⟨e0, he0, (S.wf.closed e0 he0).1, (S.wf.closed e0 he0).2, rfl⟩
    · exact absurd (hsrc j hj).1 q1
    · exact absurd (hsrc j hj).2 q1
  · rintro e he _ _ q1 q2
    rcases hcls e he with h0 | ⟨e0, _, rfl⟩ | ⟨j, hj, rfl | rfl⟩
    · exact q1 (hwf.closed e h0).1
    · simp only [] at q2
      rw [hphi] at q2; cases q2
    · exact q1 (hsrc j hj).1
    · exact q1 (hsrc j hj).2

theorem popcountStep_acyc {w : Nat} {c : Circuit} {ns ms : List Name} {rest : List (List Name)} {i : Nat}
    (h : PopInv w c (ns :: ms :: rest) i) (hac : Acyclic c) :
    ∃ c', popcountStep (c, ns :: ms :: rest, i) = .ok (c', rest ++ [(List.range (max ns.length ms.length + 1)).map
        (fun j => "add_" ++ toString i ++ "_out_" ++ toString j)], i + 1) ∧
      PopInv w c' (rest ++ [(List.range (max ns.length ms.length + 1)).map
        (fun j => "add_" ++ toString i ++ "_out_" ++ toString j)]) (i + 1) ∧ Acyclic c' := by
  obtain ⟨c', e', h'⟩ := popcountStep_ok h
  refine ⟨c', e', h', ?_⟩
  have hwf := wf_of_inv h.inv
  obtain ⟨AD, hAD, S, hADac⟩ := adder_acyclic (max ns.length ms.length)
  have hclash : ∀ n, c.has (pref ("add_" ++ toString i) n) = false :=
    fun n => not_has_of h.names (not_PName_add w i n)
  have hsrcN : ∀ x, x ∈ padTo ns (max ns.length ms.length) → c.has x = true := by
    intro x hx
    rcases mem_padTo hx with h0 | h0
    · exact h.queue ns (by simp) x h0
    · rw [h0]; exact Arith.has_of_mem h.tie0
  have hsrcM : ∀ x, x ∈ padTo ms (max ns.length ms.length) → c.has x = true := by
    intro x hx
    rcases mem_padTo hx with h0 | h0
    · exact h.queue ms (by simp) x h0
    · rw [h0]; exact Arith.has_of_mem h.tie0
  have hsrc : ∀ j, j < max ns.length ms.length →
      c.has ((padTo ns (max ns.length ms.length)).getD j "") = true ∧
      c.has ((padTo ms (max ns.length ms.length)).getD j "") = true :=
    fun j hj => ⟨hsrcN _ (getD_mem_padTo ns _ j (Nat.le_max_left _ _) hj),
      hsrcM _ (getD_mem_padTo ms _ j (Nat.le_max_right _ _) hj)⟩
  obtain ⟨c1, c3, e1, e3, P⟩ := popStep_run (inst := "add_" ++ toString i)
    (fun j => (padTo ns (max ns.length ms.length)).getD j "")
    (fun j => (padTo ms (max ns.length ms.length)).getD j "")
    h.inv h.bbs h.plain hclash S hsrc
  have e3' : popcountStep (c, ns :: ms :: rest, i) = .ok (c3, rest ++ [(List.range (max ns.length ms.length + 1)).map
        (fun j => "add_" ++ toString i ++ "_out_" ++ toString j)], i + 1) := by
    simp only [popcountStep]
    rw [hAD, Arith.bind_ok, Arith.liftO_ok e1, Arith.bind_ok]
    rw [e3, Arith.bind_ok]
    rfl
  have hc : c' = c3 := by
    rw [e'] at e3'
    injection e3' with e3'
    injection e3'
  rw [hc]
  exact popStep_acyclic P hwf S hclash hsrc hac hADac

theorem popcountLoop_acyc {w : Nat} : ∀ (fuel : Nat) (c : Circuit) (q : List (List Name)) (i : Nat),
    PopInv w c q i → Acyclic c → 1 ≤ q.length → q.length ≤ fuel →
    ∃ c' p0 i', popcountLoop fuel (c, q, i) = .ok (c', [p0], i') ∧ PopInv w c' [p0] i' ∧ Acyclic c'
  | 0, _, q, _, _, _, h1, h2 => by omega
  | fuel + 1, c, q, i, h, hac, h1, h2 => by
    match q, h, h1, h2 with
    | [p0], h, _, _ =>
      refine ⟨c, p0, i, ?_, h, hac⟩
      simp [popcountLoop]
      rfl
    | ns :: ms :: rest, h, _, h2 =>
      obtain ⟨c', e', h', hac'⟩ := popcountStep_acyc h hac
      obtain ⟨c'', p0, i', e'', h'', hac''⟩ := popcountLoop_acyc fuel c' _ (i + 1) h' hac' (by simp) (by
        simp only [List.length_append, List.length_cons, List.length_nil] at h2 ⊢; omega)
      refine ⟨c'', p0, i', ?_, h'', hac''⟩
      have hlen : (ns :: ms :: rest).length > 1 := by simp
      simp only [popcountLoop, hlen, if_true]
      rw [e', Arith.bind_ok]
      exact e''

/-! ### the whole popcount generator -/

theorem genTypes_ne_x {t : String} (h : t ∈ genTypes) : t ≠ "x" := by
  rintro rfl
  revert h
  decide

theorem popcount_acyclic (w : Nat) (hw : 1 ≤ w) :
    ∃ c m, popcount w = .ok c ∧ PopSpec w c m ∧ Acyclic c ∧ ∀ p ∈ c.nodes, p.2.ty ≠ some "x" := by
  obtain ⟨ci, c0, ei, e0, h0⟩ := popcount_init w
  have hac0 : Acyclic c0 := by
    obtain ⟨ci', ei', hi⟩ := inLoop_ok "popcount" w
    have hci : ci = ci' := by
      rw [ei] at ei'
      injection ei'
    have hfresh : ci.has "tie0" = false := by
      cases hh : ci.has "tie0" with
      | false => rfl
      | true =>
        obtain ⟨a, ha⟩ := has_exists hh
        rw [hci, hi.nodes] at ha
        obtain ⟨k, _, e⟩ := List.mem_map.1 ha
        injection e with e _
        revert e; name_ne
    obtain ⟨c0', e0', _, r⟩ := add_spec ci (hci ▸ hi.inv) "tie0" "0" [] [] false hfresh
      (nameOK_lit "tie0" 't' ['i', 'e', '0'] rfl (by decide) "") (by decide) (fun _ => rfl) (fun _ => by simp)
      (fun u hu => by cases hu) (fun u hu => by cases hu)
    have hc : c0 = c0' := by
      rw [e0] at e0'
      injection e0'
    rw [hc]
    refine ⟨fun _ => 0, ?_⟩
    rw [r.edgesNil rfl rfl, hci, hi.edges]
    intro e he
    cases he
  obtain ⟨c1, p0, i1, e1, h1, hac1⟩ := popcountLoop_acyc (w + 1) c0 _ 0 h0 hac0 (by simpa using hw) (by simp)
  obtain ⟨c2, e2, I⟩ := outLoop_ok h1 p0.length (Nat.le_refl _)
  have R := outRes_of h1 I
  have hwf1 := wf_of_inv h1.inv
  have hnotout : ∀ j, c1.has ("out_" ++ toString j) = false := fun j => not_has_of h1.names (not_PName_out w i1 j)
  have hac2 : Acyclic c2 := by
    apply acyclic_sinks (fun z => ∃ j : Nat, z = "out_" ++ toString j) hac1
    · intro e he
      rcases (I.edges e).1 he with h0 | ⟨j, _, rfl⟩
      · exact Or.inl h0
      · exact Or.inr ⟨j, rfl⟩
    · rintro e he ⟨j', e1'⟩
      rcases (I.edges e).1 he with h0 | ⟨j, hj, rfl⟩
      · have := (hwf1.closed e h0).1
        rw [e1', hnotout] at this; cases this
      · simp only [] at e1'
        have := h1.queue p0 (by simp) _ (getD_mem p0 j hj)
        rw [e1', hnotout] at this; cases this
  have hnx2 : ∀ p ∈ c2.nodes, p.2.ty ≠ some "x" := by
    intro p hp hty
    rw [I.nodes] at hp
    rcases List.mem_append.1 hp with hp | hp
    · have := h1.plain p.1 "x" (by
        rw [ty?, attr?_of_mem hwf1.nodup (a := p.2) hp]
        exact hty)
      exact genTypes_ne_x this rfl
    · obtain ⟨j, _, rfl⟩ := List.mem_map.1 hp
      simp [outNode] at hty
  by_cases hno : (c2.fanout "tie0").isEmpty = true
  · refine ⟨c2.remove ["tie0"], p0.length, ?_, remove_tie0 R hno, ?_, ?_⟩
    rotate_left 2
    · intro p hp
      have hrm : c2.remove ["tie0"] = c2.removeNode "tie0" := rfl
      rw [hrm] at hp
      unfold removeNode at hp
      exact hnx2 p (List.mem_filter.1 hp).1
    · unfold popcount
      rw [ei, Arith.bind_ok, e0, Arith.bind_ok, e1, Arith.bind_ok]
      simp only []
      rw [e2, Arith.bind_ok, if_pos hno]
      rfl
    · apply acyclic_of_subset hac2
      intro e he
      have hrm : c2.remove ["tie0"] = c2.removeNode "tie0" := rfl
      rw [hrm] at he
      unfold removeNode at he
      exact (List.mem_filter.1 he).1
  · refine ⟨c2, p0.length, ?_, R.spec, hac2, hnx2⟩
    unfold popcount
    rw [ei, Arith.bind_ok, e0, Arith.bind_ok, e1, Arith.bind_ok]
    simp only []
    rw [e2, Arith.bind_ok, if_neg hno]
    rfl

/-! ### acyclic circuits have a consistent valuation for every choice of the free nodes -/

theorem exists_of_acyclic {c : Circuit} (hwf : WF c) (hac : Acyclic c) (free : Val) :
    ∃ v, Consistent c v ∧ ∀ n, C01.Free c n → v n = free n := by
  have hnc : Query.isCyclic c = false := by
    cases h : Query.isCyclic c with
    | false => rfl
    | true =>
      obtain ⟨n, hn⟩ := (Q.isCyclic_iff c hwf).1 h
      exact absurd hn (Q.no_cycle_of_acyclic c hac n)
  obtain ⟨l, hl⟩ := Q.topoSort_of_not_cyclic c hnc
  obtain ⟨hnd, hmem, htopo⟩ := Q.topoSort_spec c hwf l hl
  obtain ⟨h1, h2⟩ := Tseitin.acyclic_exists' c hwf.nodup l free (Q.perm_of_nodup_mem hnd hwf.nodup hmem)
    (Q.topoOK_index c l htopo)
  exact ⟨_, h1, h2⟩

/-- the popcount has enough output bits to hold the count `w` -/
theorem popcount_width {w m : Nat} {c : Circuit} (S : PopSpec w c m) (hac : Acyclic c) : w < 2 ^ m := by
  obtain ⟨v, hv, hfree⟩ := exists_of_acyclic S.lint.toWF hac (fun _ => true)
  have h1 := S.sem v hv
  have h2 : onesCount v w = w := by
    unfold onesCount
    rw [List.filter_eq_self.2, List.length_range]
    intro k hk
    apply hfree
    left
    exact (mem_inputs S.lint.nodup _).1 ((S.inputs _).2 ⟨k, List.mem_range.1 hk, rfl⟩)
  have h3 := bitsVal_lt v "out_" m
  omega

theorem popcount_good (w : Nat) (hw : 1 ≤ w) :
    ∃ c m, popcount w = .ok c ∧ PopSpec w c m ∧ Acyclic c ∧ w < 2 ^ m ∧ ∀ p ∈ c.nodes, p.2.ty ≠ some "x" := by
  obtain ⟨c, m, h, S, hac, hnx⟩ := popcount_acyclic w hw
  exact ⟨c, m, h, S, hac, popcount_width S hac, hnx⟩

end Sens
end CG
