/- helper lemmas for C11 (sensitivity transforms): entry point.
   SensBase   unfolding `sensitization_transform`, the self-miter with default startpoints/endpoints, the three edits (`SView`)
   SensSem    reading / building consistent valuations of the sensitization circuit, `C01.Clean`
   SensAcyc   acyclicity by gluing rank functions
   SensPop    the generated adder / popcount circuits are acyclic; acyclic circuits have consistent valuations
   SensKView  circuits described by a list of node kinds (`KView`): consistency, `C01.Clean`, acyclicity
   SensCone   the cone of a node and its startpoints
   SensBuild  unfolding `sensitivity_transform`, names, the simple construction phases
   SensCopy   one inverted copy (`senCopy`) and the fold over the startpoints
   SensView / SensView2 / SensSetup   the kind view of the result of `sensitivity_transform`
   SensRead / SensCount               reading a consistent valuation, the count on the `sen_out` bits
   SensClean  the sensitivity circuit is `C01.Clean` and acyclic
   SensFlip   every valuation of the cone extends to the sensitivity circuit; meaning of `dif_out_s`
   SensBits / SensSearch              binary digits; the descending search of `props.sensitivity` -/
import CG.Proofs.SensSearch
namespace CG
end CG
