/- C17 (super-circuit) helpers, part 3: the plain `add` calls of the super-circuit construction -/
import CG.Proofs.SGSuperDefs
import CG.Proofs.VRoundOps
import CG.Proofs.SGRunMain
namespace CG
namespace SGSuper
namespace Build
open Supergates SGA Circuit

/-- `c.add(n, ty, output=b)` on a fresh acceptable name -/
theorem add_fresh (t : Circuit) (n ty : String) (b : Bool) (hfresh : t.has n = false) (hname : Limit.NameOK n)
    (hty : ty ∈ Expected.supported_types) :
    Tx.addC t { n := n, ty := ty, output := b } = .ok (t.addNodeAttr n { ty := some ty, out := some b }) := by
  have hsup : T.supported.contains ty = true := by
    rw [Limit.T_supported]; exact List.contains_iff_mem.2 hty
  have : t.add { n := n, ty := ty, output := b } = (t.addNodeAttr n { ty := some ty, out := some b }, .ok, n) := by
    unfold Circuit.add
    simp only [Bool.false_eq_true, if_false, hfresh, hsup, hname.1, hname.2, Bool.not_false, Bool.and_false,
      Bool.false_and, Bool.not_true, List.length_nil, List.isEmpty_nil, Bool.and_true, gt_iff_lt,
      Nat.not_lt_zero, decide_false, List.nil_append, connect_empty_right, connect_empty_left,
      bne_self_eq_false]
  unfold Tx.addC addE
  rw [this]
  rfl

/-- what a run of plain additions does -/
structure Grew (s s' : Circuit) (l : List Name) (a : Attr) : Prop where
  edges : s'.edges = s.edges
  bbs : s'.bbs = s.bbs
  name : s'.name = s.name
  has : ∀ x, s'.has x = true ↔ (s.has x = true ∨ x ∈ l)
  old : ∀ x, s.has x = true → s'.attr? x = s.attr? x
  new : ∀ x ∈ l, s.has x = false → s'.attr? x = some a
  nodup : s.nodeNames.Nodup → s'.nodeNames.Nodup

theorem Grew.refl (s : Circuit) (a : Attr) : Grew s s [] a :=
  ⟨rfl, rfl, rfl, fun x => by simp, fun _ _ => rfl, fun x hx => absurd hx List.not_mem_nil, id⟩

theorem grew_one (s : Circuit) (n : Name) (a : Attr) (hn : s.has n = false) :
    Grew s (s.addNodeAttr n a) [n] a := by
  refine ⟨addNodeAttr_edges s n a, addNodeAttr_bbs s n a, addNodeAttr_name s n a, ?_, ?_, ?_, addNodeAttr_nodup n a⟩
  · intro x
    rw [addNodeAttr_has, Bool.or_eq_true, beq_iff_eq, List.mem_singleton]
  · intro x hx
    rw [addNodeAttr_attr?, if_neg]
    rintro rfl
    rw [hn] at hx; cases hx
  · intro x hx _
    rw [List.mem_singleton] at hx
    subst hx
    rw [addNodeAttr_attr?, if_pos rfl]
    have : s.attr? x = none := by
      have := has_eq_isSome s x
      rw [hn] at this
      cases h : s.attr? x with
      | none => rfl
      | some _ => rw [h] at this; cases this
    rw [this]

theorem Grew.trans {s s1 s2 : Circuit} {l1 l2 : List Name} {a : Attr} (h1 : Grew s s1 l1 a) (h2 : Grew s1 s2 l2 a) :
    Grew s s2 (l1 ++ l2) a := by
  refine ⟨h2.edges.trans h1.edges, h2.bbs.trans h1.bbs, h2.name.trans h1.name, ?_, ?_, ?_, fun h => h2.nodup (h1.nodup h)⟩
  · intro x
    rw [h2.has, h1.has, List.mem_append, or_assoc]
  · intro x hx
    rw [h2.old x ((h1.has x).mpr (Or.inl hx)), h1.old x hx]
  · intro x hx hs
    by_cases h1x : s1.has x = true
    · rw [h2.old x h1x]
      rcases (h1.has x).mp h1x with h | h
      · rw [hs] at h; cases h
      · exact h1.new x h hs
    · rcases List.mem_append.mp hx with h | h
      · exact absurd ((h1.has x).mpr (Or.inr h)) h1x
      · exact h2.new x h (by simpa using h1x)

/-- the loop `for n in io: if n not in s: s.add(n, "buf")` -/
theorem addBufs (l : List Name) : ∀ (s : Circuit), (∀ i ∈ l, Limit.NameOK i) →
    ∃ s', l.foldlM (fun (s : Circuit) n => if s.has n then pure s else Tx.addC s { n := n, ty := "buf" }) s = .ok s' ∧
      Grew s s' l { ty := some "buf", out := some false } := by
  induction l with
  | nil => intro s _; exact ⟨s, rfl, Grew.refl s _⟩
  | cons n l ih =>
    intro s hname
    rw [List.foldlM_cons]
    by_cases hn : s.has n = true
    · rw [if_pos hn]
      obtain ⟨s', e, g⟩ := ih s (fun i hi => hname i (List.mem_cons_of_mem _ hi))
      refine ⟨s', e, ?_⟩
      refine ⟨g.edges, g.bbs, g.name, ?_, g.old, ?_, g.nodup⟩
      · intro x
        rw [g.has, List.mem_cons]
        constructor
        · rintro (h | h)
          · exact Or.inl h
          · exact Or.inr (Or.inr h)
        · rintro (h | rfl | h)
          · exact Or.inl h
          · exact Or.inl hn
          · exact Or.inr h
      · intro x hx hs
        rcases List.mem_cons.mp hx with rfl | h
        · rw [hn] at hs; cases hs
        · exact g.new x h hs
    · rw [if_neg hn]
      have hn' : s.has n = false := by simpa using hn
      have e1 := add_fresh s n "buf" false hn' (hname n List.mem_cons_self) (by decide)
      have e1' : Tx.addC s { n := n, ty := "buf" } = .ok (s.addNodeAttr n { ty := some "buf", out := some false }) := e1
      rw [e1']
      obtain ⟨s', e, g⟩ := ih (s.addNodeAttr n { ty := some "buf", out := some false })
        (fun i hi => hname i (List.mem_cons_of_mem _ hi))
      exact ⟨s', e, (grew_one s n _ hn').trans g⟩

/-- the loop over the primary inputs -/
theorem addInputs (l : List Name) : ∀ (s : Circuit), l.Nodup → (∀ i ∈ l, s.has i = false) → (∀ i ∈ l, Limit.NameOK i) →
    ∃ s', l.foldlM (fun (s : Circuit) i => Tx.addC s { n := i, ty := "input" }) s = .ok s' ∧
      Grew s s' l { ty := some "input", out := some false } := by
  induction l with
  | nil => intro s _ _ _; exact ⟨s, rfl, Grew.refl s _⟩
  | cons n l ih =>
    intro s hnd hfresh hname
    rw [List.foldlM_cons]
    have hn' : s.has n = false := hfresh n List.mem_cons_self
    have e1 := add_fresh s n "input" false hn' (hname n List.mem_cons_self) (by decide)
    have e1' : Tx.addC s { n := n, ty := "input" } = .ok (s.addNodeAttr n { ty := some "input", out := some false }) := e1
    rw [e1']
    rw [List.nodup_cons] at hnd
    obtain ⟨s', e, g⟩ := ih (s.addNodeAttr n { ty := some "input", out := some false }) hnd.2
      (by
        intro i hi
        rw [addNodeAttr_has, hfresh i (List.mem_cons_of_mem _ hi)]
        have : i ≠ n := fun h => hnd.1 (h ▸ hi)
        simpa using this)
      (fun i hi => hname i (List.mem_cons_of_mem _ hi))
    exact ⟨s', e, (grew_one s n _ hn').trans g⟩

end Build
end SGSuper
end CG
