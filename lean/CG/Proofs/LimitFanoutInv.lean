/- one buffering step of limit_fanout preserves LintClean and is a refinement (C05 helper) -/
import CG.Proofs.LimitFanout
import CG.Proofs.LimitFaninInv
set_option linter.unusedSectionVars false
namespace CG
namespace Limit
open Circuit

namespace FanoutPre
variable {c : Circuit} {n f0 f1 r : Name} (h : FanoutPre c n f0 f1 r)
include h

theorem hn : (fanoutStep c n f0 f1 r).nodes = c.nodes ++ [(r, gateAttr "buf")] := rfl

theorem fanin_r : (fanoutStep c n f0 f1 r).fanin r = [n] := by
  unfold Circuit.fanin fanoutStep
  simp only [List.filter_append, List.filter_filter, List.map_append]
  have hnil : c.edges.filter (fun e => (e.2 == r) && !([n].contains e.1 && [f0, f1].contains e.2)) = [] := by
    rw [List.filter_eq_nil_iff]
    intro e he
    simp [(h.noedge e he).2]
  rw [hnil]
  simp [h.r0, h.r1]

theorem fanout_r : (fanoutStep c n f0 f1 r).fanout r = [f0, f1] := by
  unfold Circuit.fanout fanoutStep
  simp only [List.filter_append, List.filter_filter, List.map_append]
  have hnil : c.edges.filter (fun e => (e.1 == r) && !([n].contains e.1 && [f0, f1].contains e.2)) = [] := by
    rw [List.filter_eq_nil_iff]
    intro e he
    simp [(h.noedge e he).1]
  rw [hnil]
  simp [h.nr]

/-- the fan-in of a re-driven load `x ∈ {f0, f1}` -/
theorem fanin_tgt {x : Name} (hx : x = f0 ∨ x = f1) : (fanoutStep c n f0 f1 r).fanin x =
    (c.fanin x).filter (fun y => !(y == n)) ++ [r] := by
  have hxr : x ≠ r := by
    rcases hx with rfl | rfl
    · exact h.r0
    · exact h.r1
  unfold Circuit.fanin fanoutStep
  simp only [List.filter_append, List.filter_filter, List.map_append, List.filter_map]
  have hfun : ∀ e ∈ c.edges, ((e.2 == x) && !([n].contains e.1 && [f0, f1].contains e.2)) =
      (((fun y => !(y == n)) ∘ fun y : Name × Name => y.1) e && (e.2 == x)) := by
    intro e _
    by_cases he : e.2 = x
    · rcases hx with rfl | rfl
      · simp [he]
        rfl
      · simp [he]
        rfl
    · have hb : (e.2 == x) = false := beq_eq_false_iff_ne.mpr he
      simp only [Function.comp, hb, Bool.false_and, Bool.and_false]
  rw [List.filter_congr hfun]
  have hne := h.ne
  rcases hx with rfl | rfl
  · simp [Ne.symm hxr, Ne.symm hne]
  · simp [Ne.symm hxr, hne]

theorem fanin_tgt_perm {x : Name} (hx : x = f0 ∨ x = f1) :
    (c.fanin x).Perm (n :: (c.fanin x).filter (fun y => !(y == n))) := by
  have hedge : (n, x) ∈ c.edges := by
    rcases hx with rfl | rfl
    · exact h.e0
    · exact h.e1
  exact perm_cons_filter_ne _ _ (RU.fanin_nodup c h.lc.edgesNodup x) ((RU.mem_fanin c n x).mpr hedge)

theorem fanout_n : (fanoutStep c n f0 f1 r).fanout n =
    (c.fanout n).filter (fun x => !(x == f0 || x == f1)) ++ [r] := by
  unfold Circuit.fanout fanoutStep
  simp only [List.filter_append, List.filter_filter, List.map_append, List.filter_map]
  have hfun : ∀ e ∈ c.edges, ((e.1 == n) && !([n].contains e.1 && [f0, f1].contains e.2)) =
      (((fun x => !(x == f0 || x == f1)) ∘ fun x : Name × Name => x.2) e && (e.1 == n)) := by
    intro e _
    by_cases he : e.1 = n
    · simp [he]
      rfl
    · simp [he]
  rw [List.filter_congr hfun]
  simp [Ne.symm h.nr]

theorem fanout_perm : (c.fanout n).Perm (f0 :: f1 :: (c.fanout n).filter (fun x => !(x == f0 || x == f1))) :=
  perm_cons_cons_filter _ _ _ (RU.fanout_nodup c h.lc.edgesNodup n) ((RU.mem_fanout c n f0).mpr h.e0)
    ((RU.mem_fanout c n f1).mpr h.e1) h.ne

theorem fanout_n_length : ((fanoutStep c n f0 f1 r).fanout n).length + 1 = (c.fanout n).length := by
  rw [h.fanout_n, h.fanout_perm.length_eq]
  simp

/-- the fan-in count of every old node is unchanged -/
theorem fanin_length_old {m : Name} (hmr : m ≠ r) :
    ((fanoutStep c n f0 f1 r).fanin m).length = (c.fanin m).length := by
  by_cases hx : m = f0 ∨ m = f1
  · rw [h.fanin_tgt hx, (h.fanin_tgt_perm hx).length_eq]
    simp
  · rw [fanoutStep_fanin_other c n f0 f1 r (fun e => hx (Or.inl e)) (fun e => hx (Or.inr e)) hmr]

theorem step_wf : WF (fanoutStep c n f0 f1 r) := by
  constructor
  · rw [ext_nodeNames h.hn, List.nodup_append]
    refine ⟨h.lc.nodup, by simp, ?_⟩
    intro a ha b hb
    rw [List.mem_singleton.mp hb]
    rintro rfl
    have := (RU.has_iff c a).mpr ha
    rw [h.fresh] at this
    cases this
  · show (c.edges.filter _ ++ [(r, f0), (r, f1), (n, r)]).Nodup
    rw [List.nodup_append]
    refine ⟨List.Pairwise.filter _ h.lc.edgesNodup, ?_, ?_⟩
    · have h1 := h.nr
      have h3 := h.ne
      simp [Ne.symm h1, h3]
    · intro a ha b hb
      have hne := h.noedge a (List.mem_filter.mp ha).1
      simp only [List.mem_cons, List.not_mem_nil, or_false] at hb
      rcases hb with rfl | rfl | rfl
      · intro he; exact hne.1 (by rw [he])
      · intro he; exact hne.1 (by rw [he])
      · intro he; exact hne.2 (by rw [he])
  · intro e he
    rcases (fanoutStep_mem_edges c n f0 f1 r e).mp he with ⟨he, _⟩ | rfl | rfl | rfl
    · exact ⟨(ext_has h.hn _).mpr (Or.inl (h.lc.closed e he).1), (ext_has h.hn _).mpr (Or.inl (h.lc.closed e he).2)⟩
    · exact ⟨(ext_has h.hn _).mpr (Or.inr rfl), (ext_has h.hn _).mpr (Or.inl h.has0)⟩
    · exact ⟨(ext_has h.hn _).mpr (Or.inr rfl), (ext_has h.hn _).mpr (Or.inl h.has1)⟩
    · exact ⟨(ext_has h.hn _).mpr (Or.inl h.hasn), (ext_has h.hn _).mpr (Or.inr rfl)⟩

theorem ty_cases {m : Name} {t' : String} (hty : (fanoutStep c n f0 f1 r).ty? m = some t') :
    (c.has m = true ∧ m ≠ r ∧ c.ty? m = some t') ∨ (m = r ∧ t' = "buf") := by
  rcases ext_ty_cases h.hn h.fresh hty with ⟨h1, h2⟩ | ⟨h1, h2⟩
  · refine Or.inl ⟨h1, ?_, h2⟩
    rintro rfl
    rw [h.fresh] at h1
    cases h1
  · exact Or.inr ⟨h1, (Option.some.inj h2).symm⟩

theorem ty_old {m : Name} (hm : c.has m = true) : (fanoutStep c n f0 f1 r).ty? m = c.ty? m :=
  ext_ty_old h.hn hm

theorem ty_r : (fanoutStep c n f0 f1 r).ty? r = some "buf" := ext_ty_new h.hn h.fresh

theorem step_typed : ∀ p ∈ (fanoutStep c n f0 f1 r).nodes, ∃ t, p.2.ty = some t ∧ t ∈ Expected.supported_types := by
  intro p hp
  rw [h.hn, List.mem_append] at hp
  rcases hp with hp | hp
  · exact h.lc.typed p hp
  · rw [List.mem_singleton.mp hp]
    exact ⟨"buf", rfl, buf_facts.2.2.2.2.2⟩

theorem step_noFanin : ∀ m t', (fanoutStep c n f0 f1 r).ty? m = some t' → t' ∈ sourceTypes →
    (fanoutStep c n f0 f1 r).fanin m = [] := by
  intro m t' hty hs
  rcases h.ty_cases hty with ⟨h1, h2, h3⟩ | ⟨_, rfl⟩
  · have := h.lc.noFanin m t' h3 hs
    rw [← List.length_eq_zero_iff, h.fanin_length_old h2, this]
    rfl
  · exact absurd hs (by decide)

theorem step_single : ∀ m t', (fanoutStep c n f0 f1 r).ty? m = some t' → t' ∈ singleTypes →
    ((fanoutStep c n f0 f1 r).fanin m).length = 1 := by
  intro m t' hty hs
  rcases h.ty_cases hty with ⟨h1, h2, h3⟩ | ⟨rfl, _⟩
  · rw [h.fanin_length_old h2]
    exact h.lc.single m t' h3 hs
  · rw [h.fanin_r]
    rfl

theorem step_multi : ∀ m t', (fanoutStep c n f0 f1 r).ty? m = some t' → t' ∈ multiTypes →
    1 ≤ ((fanoutStep c n f0 f1 r).fanin m).length := by
  intro m t' hty hs
  rcases h.ty_cases hty with ⟨h1, h2, h3⟩ | ⟨rfl, _⟩
  · rw [h.fanin_length_old h2]
    exact h.lc.multi m t' h3 hs
  · rw [h.fanin_r]
    exact Nat.le_refl 1

theorem step_bbOut : ∀ e ∈ (fanoutStep c n f0 f1 r).edges,
    (fanoutStep c n f0 f1 r).ty? e.1 = some "bb_output" →
    (fanoutStep c n f0 f1 r).ty? e.2 = some "buf" ∧ ((fanoutStep c n f0 f1 r).fanout e.1).length ≤ 1 := by
  intro e he hty
  rcases (fanoutStep_mem_edges c n f0 f1 r e).mp he with ⟨he, _⟩ | rfl | rfl | rfl
  · have hc1 := (h.lc.closed e he).1
    have hc2 := (h.lc.closed e he).2
    rw [h.ty_old hc1] at hty
    have hb := h.lc.bbOut e he hty
    rw [h.ty_old hc2]
    refine ⟨hb.1, ?_⟩
    have h0 : e.1 ≠ n := by intro he0; rw [he0] at hty; exact h.n_not_bbout hty
    rw [fanoutStep_fanout_other c n f0 f1 r h0 (h.noedge e he).1]
    exact hb.2
  · rw [h.ty_r] at hty
    exact absurd (Option.some.inj hty) (by decide)
  · rw [h.ty_r] at hty
    exact absurd (Option.some.inj hty) (by decide)
  · rw [h.ty_old h.hasn] at hty
    exact absurd hty h.n_not_bbout

theorem step_noBBIn : ∀ e ∈ (fanoutStep c n f0 f1 r).edges,
    (fanoutStep c n f0 f1 r).ty? e.1 ≠ some "bb_input" := by
  intro e he
  rcases (fanoutStep_mem_edges c n f0 f1 r e).mp he with ⟨he, _⟩ | rfl | rfl | rfl
  · rw [h.ty_old (h.lc.closed e he).1]
    exact h.lc.noBBInFanout e he
  · rw [h.ty_r]
    exact fun hh => absurd (Option.some.inj hh) (by decide)
  · rw [h.ty_r]
    exact fun hh => absurd (Option.some.inj hh) (by decide)
  · rw [h.ty_old h.hasn]
    exact h.n_not_bbin

theorem step_lintClean : LintClean (fanoutStep c n f0 f1 r) :=
  { toWF := h.step_wf, typed := h.step_typed, noFanin := h.step_noFanin, single := h.step_single,
    multi := h.step_multi, bbOut := h.step_bbOut, noBBInFanout := h.step_noBBIn }

theorem step_refines : Refines c (fanoutStep c n f0 f1 r) id := by
  have hnotin : ∀ m, r ∉ c.fanin m := by
    intro m hm
    exact (h.noedge _ ((RU.mem_fanin c r m).mp hm)).1 rfl
  apply refines_ext h.hn h.fresh (g := "buf") rfl hnotin (fun w => w n)
  · intro w b
    exact upd_ne w b h.nr
  · intro w
    rw [h.fanin_r]
    simp [gateFn]
  · intro w hw p hp t' ht'
    have hpr : p.1 ≠ r := by
      intro he
      have : c.has p.1 = true := (RU.has_iff_exists c p.1).mpr ⟨p.2, hp⟩
      rw [he, h.fresh] at this
      cases this
    by_cases hx : p.1 = f0 ∨ p.1 = f1
    · rw [h.fanin_tgt hx, List.map_append, List.map_singleton]
      have hp1 : (List.map w ((c.fanin p.1).filter (fun y => !(y == n))) ++ [w r]).Perm
          (w r :: List.map w ((c.fanin p.1).filter (fun y => !(y == n)))) :=
        List.perm_append_singleton _ _
      rw [gateFn_perm_any t' hp1, gateFn_perm_any t' ((h.fanin_tgt_perm hx).map w)]
      simp only [List.map_cons]
      rw [hw]
    · rw [fanoutStep_fanin_other c n f0 f1 r (fun e => hx (Or.inl e)) (fun e => hx (Or.inr e)) hpr]

end FanoutPre
end Limit
end CG
