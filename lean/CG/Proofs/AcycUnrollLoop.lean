/- C18 helpers: the chained-copies loop of `acyclic_unroll` -/
import CG.Proofs.AcycUnrollFold
import CG.Proofs.AcycUnrollCut
import CG.Proofs.Tseitin
set_option linter.unusedSimpArgs false
set_option linter.unusedVariables false
namespace CG
namespace AU
open Circuit

/-- name of the i-th copy -/
def cn (i : Nat) : Name := "c" ++ toString i

theorem auxName (ci f : Name) : ci ++ "_aux_in_" ++ f = pref ci (aux f) := by
  unfold pref aux
  rw [String.append_assoc, String.append_assoc]
  congr 1

/-- body of `for i in range(len(feedback) + 1)` -/
def loopBody (cCut : Circuit) (sp F : List Name) (a : Circuit) (i : Nat) : E Circuit :=
  liftO (a.addSubcircuit cCut ("c" ++ toString i) (sp.map (fun n => (n, [n])))) >>= fun a1 =>
  if i > 0 then
    F.foldlM (fun a2 f => liftO (a2.connect ["c" ++ toString (i - 1) ++ "_" ++ f]
      ["c" ++ toString i ++ "_aux_in_" ++ f])) a1
  else
    F.foldlM (fun a2 f => liftO (a2.setType ["c" ++ toString i ++ "_aux_in_" ++ f] "input")) a1

/-- what the loop needs to know about `c_cut` -/
structure SubReq (cCut : Circuit) (sp F : List Name) : Prop where
  wf : WF cCut
  outs : cCut.outputs = []
  nodupF : F.Nodup
  auxTy : ∀ f ∈ F, cCut.ty? (aux f) = some "buf"
  auxFanin : ∀ f ∈ F, cCut.fanin (aux f) = []
  inSp : ∀ n ∈ cCut.inputs, n ∈ sp

variable {cCut : Circuit} {sp F : List Name}

theorem loop_sub (R : SubReq cCut sp F) {A A1 : Circuit} {ci : Name} (hA : WF A)
    (h1 : A.addSubcircuit cCut ci (sp.map (fun n => (n, [n]))) true = (A1, .ok)) :
    WF A1 ∧ Keeps A A1 ∧ (∀ x, A1.ty? x = some "input" ↔ A.ty? x = some "input") ∧
    (∀ x, A1.isOut x = A.isOut x) ∧
    (∀ n, cCut.has n = true → A.has (pref ci n) = false) ∧
    (∀ n t, cCut.ty? n = some t → t ≠ "input" → Gate A1 (pref ci n) t ((cCut.fanin n).map (pref ci))) ∧
    (∀ n ∈ cCut.inputs, Gate A1 (pref ci n) "buf" [n]) ∧
    (∀ x, A1.has x = true ↔ (A.has x = true ∨ ∃ n, cCut.has n = true ∧ x = pref ci n)) ∧
    (∀ n ∈ sp, n ∈ cCut.inputs) := by
  have S := addSub_facts hA R.wf h1
  obtain ⟨_, _, _, c4, _⟩ := addSub_unfold h1
  have hkeys : ∀ q ∈ sp.map (fun n => (n, [n])), q.1 ∈ cCut.inputs := by
    intro q hq
    rw [List.any_eq_false] at c4
    have := c4 q hq
    rw [R.outs] at this
    simp only [List.contains_nil, Bool.not_false, Bool.and_true, Bool.not_eq_true', Bool.not_eq_false] at this
    exact List.contains_iff_mem.1 (by simpa using this)
  obtain ⟨k1, k2, k3⟩ := addSub_keeps R.wf S hkeys
  refine ⟨S.wf hA R.wf, k1, ?_, ?_, S.clash, ?_, ?_, ?_, ?_⟩
  rotate_left 4
  · intro x
    rw [has_iff_mem, has_iff_mem]
    unfold nodeNames
    rw [S.nodes, List.map_append, List.mem_append]
    apply or_congr Iff.rfl
    simp only [List.map_map, List.mem_map, Function.comp]
    constructor
    · rintro ⟨p, hp, e⟩
      exact ⟨p.1, (has_iff_mem cCut p.1).2 (List.mem_map.2 ⟨p, hp, rfl⟩), e.symm⟩
    · rintro ⟨n, hn, e⟩
      obtain ⟨a, ha⟩ := has_exists hn
      exact ⟨(n, a), ha, e.symm⟩
  · intro n hn
    exact hkeys (n, [n]) (List.mem_map.2 ⟨n, hn, rfl⟩)
  · intro x
    by_cases hx : A.has x = true
    · rw [(k1 x hx (by simp)).2.1]
    · have hx' : A.has x = false := by simpa using hx
      rw [ty?_none_of_not_has hx']
      constructor
      · intro h; exact absurd h (k3 x hx').1
      · intro h; cases h
  · intro x
    by_cases hx : A.has x = true
    · exact k2 x hx
    · have hx' : A.has x = false := by simpa using hx
      rw [(k3 x hx').2]
      unfold isOut
      rw [attr?_none_of_not_has hx']
  · intro n t ht hne
    obtain ⟨p, hp, rfl, hpt⟩ := Tseitin.mem_of_ty cCut n t ht
    have hmem : (pref ci p.1, stripA p.2) ∈ A1.nodes := by
      rw [S.nodes]; exact List.mem_append.2 (Or.inr (List.mem_map.2 ⟨p, hp, rfl⟩))
    have hhas : cCut.has p.1 = true := has_of_ty? ht
    refine ⟨?_, ?_⟩
    · rw [ty?, attr?_of_mem S.nodup hmem]
      exact stripA_ty_of_ne hpt hne
    · apply S.fanin_child hA R.wf hhas
      · intro q _ hqi e
        rw [e, CG.mem_inputs R.wf.nodup, ht] at hqi
        injection hqi with hqi
        exact hne hqi
      · intro q hq hqi
        exact absurd (hkeys q hq) hqi
  · intro n hn
    obtain ⟨a, ha⟩ := has_exists (mem_inputs_has hn)
    have hty : a.ty = some "input" := (mem_inputs_of_mem R.wf.nodup ha).1 hn
    have hmem : (pref ci n, stripA a) ∈ A1.nodes := by
      rw [S.nodes]; exact List.mem_append.2 (Or.inr (List.mem_map.2 ⟨(n, a), ha, rfl⟩))
    refine ⟨?_, ?_⟩
    · rw [ty?, attr?_of_mem S.nodup hmem]
      simp [stripA, hty]
    · exact S.buf (n, [n]) (List.mem_map.2 ⟨n, R.inSp n hn, rfl⟩) hn n (by simp)

/-- the i-th copy is in place -/
def Copy (cCut : Circuit) (F : List Name) (i : Nat) (A : Circuit) : Prop :=
  (∀ n t, cCut.ty? n = some t → t ≠ "input" → n ∉ F.map aux →
    Gate A (pref (cn i) n) t ((cCut.fanin n).map (pref (cn i)))) ∧
  (∀ n ∈ cCut.inputs, Gate A (pref (cn i) n) "buf" [n]) ∧
  (0 < i → ∀ f ∈ F, Gate A (pref (cn i) (aux f)) "buf" [pref (cn (i - 1)) f])

theorem Copy.keep {i : Nat} {A B : Circuit} (h : Copy cCut F i A) (hk : Keeps A B) : Copy cCut F i B := by
  obtain ⟨h1, h2, h3⟩ := h
  exact ⟨fun n t a b d => (h1 n t a b d).keep hk (by simp), fun n hn => (h2 n hn).keep hk (by simp),
    fun hi f hf => (h3 hi f hf).keep hk (by simp)⟩

structure LoopInv (acyc0 cCut : Circuit) (sp F : List Name) (m : Nat) (A : Circuit) : Prop where
  wf : WF A
  keeps0 : Keeps acyc0 A
  inp : ∀ x, A.ty? x = some "input" ↔
    (acyc0.ty? x = some "input" ∨ (0 < m ∧ ∃ f ∈ F, x = pref (cn 0) (aux f)))
  out : ∀ x, A.isOut x = false
  copy : ∀ i < m, Copy cCut F i A
  has : ∀ x, A.has x = true ↔ (acyc0.has x = true ∨ ∃ i < m, ∃ n, cCut.has n = true ∧ x = pref (cn i) n)
  spIn : 0 < m → ∀ n ∈ sp, n ∈ cCut.inputs
  disj : ∀ i < m, ∀ n, cCut.has n = true → acyc0.has (pref (cn i) n) = false

theorem aux_not_input (R : SubReq cCut sp F) {f : Name} (hf : f ∈ F) : aux f ∉ cCut.inputs := by
  intro h
  rw [CG.mem_inputs R.wf.nodup, R.auxTy f hf] at h
  exact absurd h (by decide)

theorem loop_step {acyc0 : Circuit} (R : SubReq cCut sp F) {m : Nat} {A A2 : Circuit}
    (I : LoopInv acyc0 cCut sp F m A) (h : loopBody cCut sp F A m = .ok A2) :
    LoopInv acyc0 cCut sp F (m + 1) A2 := by
  unfold loopBody at h
  obtain ⟨A1, h1, h2⟩ := bind_ok h
  have h1 := liftO_ok h1
  obtain ⟨w1, k1, t1, o1, cl, g1, g2, hh1, hsp⟩ := loop_sub R I.wf h1
  have hhas : ∀ A2 : Circuit, (∀ x, A2.has x = A1.has x) → ∀ x, A2.has x = true ↔
      (acyc0.has x = true ∨ ∃ i < m + 1, ∃ n, cCut.has n = true ∧ x = pref (cn i) n) := by
    intro A2 e x
    rw [e, hh1, I.has]
    constructor
    · rintro ((h | ⟨i, hi, n, hn, e'⟩) | ⟨n, hn, e'⟩)
      · exact Or.inl h
      · exact Or.inr ⟨i, by omega, n, hn, e'⟩
      · exact Or.inr ⟨m, by omega, n, hn, e'⟩
    · rintro (h | ⟨i, hi, n, hn, e'⟩)
      · exact Or.inl (Or.inl h)
      · by_cases him : i < m
        · exact Or.inl (Or.inr ⟨i, him, n, hn, e'⟩)
        · have : i = m := by omega
          subst this
          exact Or.inr ⟨n, hn, e'⟩
  have hdj : ∀ i < m + 1, ∀ n, cCut.has n = true → acyc0.has (pref (cn i) n) = false := by
    intro i hi n hn
    by_cases him : i < m
    · exact I.disj i him n hn
    · have : i = m := by omega
      subst this
      cases hh : acyc0.has (pref (cn i) n) with
      | false => rfl
      | true =>
        have := (I.keeps0 _ hh (by simp)).1
        have h' : A.has (pref (cn i) n) = false := cl n hn
        rw [h'] at this
        cases this
  have hauxg : ∀ f ∈ F, A1.ty? (pref (cn m) (aux f)) = some "buf" := fun f hf =>
    (g1 (aux f) "buf" (R.auxTy f hf) (by decide)).1
  have hdisj : ∀ n ∈ F.map (fun f => pref (cn m) (aux f)), A.has n = false := by
    intro n hn
    obtain ⟨f, hf, rfl⟩ := List.mem_map.1 hn
    exact cl (aux f) (has_of_ty? (R.auxTy f hf))
  have hnotin1 : ∀ n, n ∉ F.map aux → pref (cn m) n ∉ F.map (fun f => pref (cn m) (aux f)) := by
    intro n hn hc
    obtain ⟨f, hf, e⟩ := List.mem_map.1 hc
    exact hn (List.mem_map.2 ⟨f, hf, pref_inj _ e⟩)
  have hnotin2 : ∀ n ∈ cCut.inputs, pref (cn m) n ∉ F.map (fun f => pref (cn m) (aux f)) := by
    intro n hn hc
    obtain ⟨f, hf, e⟩ := List.mem_map.1 hc
    rw [← pref_inj _ e] at hn
    exact aux_not_input R hf hn
  by_cases hm : m > 0
  · rw [if_pos hm] at h2
    have h2' : F.foldlM (fun a f => liftO (a.connect [(fun f => pref (cn (m - 1)) f) f]
        [(fun f => pref (cn m) (aux f)) f])) A1 = .ok A2 := by
      rw [← h2]
      congr 1
      funext a f
      rw [auxName]
      rfl
    have hnd : (F.map (fun f => pref (cn m) (aux f))).Nodup :=
      nodup_map_of_inj R.nodupF (fun x _ y _ e => aux_inj (pref_inj _ e))
    obtain ⟨b1, b2, b3, b4⟩ := connectFold _ _ F A1 A2 h2' w1 hnd hauxg
    have kA : Keeps A A2 := Keeps.comp k1 b3 hdisj
    refine ⟨b1, I.keeps0.trans kA, ?_, ?_, ?_, hhas A2 (fun x => has_congr b2 x), fun _ => hsp, hdj⟩
    · intro x
      rw [ty?_congr b2, t1, I.inp]
      constructor
      · rintro (h | ⟨_, h⟩)
        · exact Or.inl h
        · exact Or.inr ⟨Nat.succ_pos _, h⟩
      · rintro (h | ⟨_, h⟩)
        · exact Or.inl h
        · exact Or.inr ⟨hm, h⟩
    · intro x; rw [isOut_congr b2, o1]; exact I.out x
    · intro i hi
      by_cases him : i < m
      · exact (I.copy i him).keep kA
      · have : i = m := by omega
        subst this
        refine ⟨?_, ?_, ?_⟩
        · intro n t ht hne hna
          exact (g1 n t ht hne).keep b3 (hnotin1 n hna)
        · intro n hn
          exact (g2 n hn).keep b3 (hnotin2 n hn)
        · intro _ f hf
          exact b4 f hf
  · rw [if_neg hm] at h2
    have hm0 : m = 0 := by omega
    subst hm0
    have h2' : F.foldlM (fun a f => liftO (a.setType [(fun f => pref (cn 0) (aux f)) f] "input")) A1 = .ok A2 := by
      rw [← h2]
      congr 1
    obtain ⟨b1, b2, b3, b4, b5, b6⟩ := setTypeFold _ F A1 A2 h2' w1
    have kA : Keeps A A2 := Keeps.comp k1 b2 hdisj
    refine ⟨b1, I.keeps0.trans kA, ?_, ?_, ?_, hhas A2 b6, fun _ => hsp, hdj⟩
    · intro x
      rw [b4, t1, I.inp]
      constructor
      · rintro ((h | ⟨h, _⟩) | h)
        · exact Or.inl h
        · exact absurd h (Nat.lt_irrefl 0)
        · obtain ⟨f, hf, e⟩ := List.mem_map.1 h
          exact Or.inr ⟨Nat.succ_pos _, f, hf, e.symm⟩
      · rintro (h | ⟨_, f, hf, e⟩)
        · exact Or.inl (Or.inl h)
        · exact Or.inr (List.mem_map.2 ⟨f, hf, e.symm⟩)
    · intro x; rw [b5, o1]; exact I.out x
    · intro i hi
      have : i = 0 := by omega
      subst this
      refine ⟨?_, ?_, ?_⟩
      · intro n t ht hne hna
        exact (g1 n t ht hne).keep b2 (hnotin1 n hna)
      · intro n hn
        exact (g2 n hn).keep b2 (hnotin2 n hn)
      · intro h0; exact absurd h0 (Nat.lt_irrefl 0)

theorem loop_all {acyc0 : Circuit} (R : SubReq cCut sp F) (h0 : LoopInv acyc0 cCut sp F 0 acyc0) :
    ∀ (m : Nat) (A : Circuit), (List.range m).foldlM (loopBody cCut sp F) acyc0 = .ok A →
    LoopInv acyc0 cCut sp F m A := by
  intro m
  induction m with
  | zero =>
    intro A h
    simp only [List.range_zero, List.foldlM_nil] at h
    injection h with h
    subst h
    exact h0
  | succ m ih =>
    intro A h
    rw [List.range_succ, List.foldlM_append] at h
    obtain ⟨A', h1, h2⟩ := bind_ok h
    rw [List.foldlM_cons] at h2
    obtain ⟨A'', h3, h4⟩ := bind_ok h2
    simp only [List.foldlM_nil] at h4
    injection h4 with h4
    subst h4
    exact loop_step R (ih A' h1) h3

end AU
end CG
