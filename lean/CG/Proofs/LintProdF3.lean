/- C20 (second half, bench reader and round trip): the two statements over the proof-side copies of the definitions -/
import CG.Proofs.LintProdF2
import CG.Proofs.BenchWF
set_option linter.unusedSimpArgs false
set_option linter.unusedVariables false
namespace CG
namespace LintProdF
open Circuit Ternary Bench BenchP

/-- a parity-normalised gate line of a multi-input type keeps at least one operand -/
theorem normDef_multi {g : Def} (h0 : g.2.2 ≠ []) (hm : (normDef g).2.1 ∈ multiTypes) : (normDef g).2.2 ≠ [] := by
  obtain ⟨n, t, ops⟩ := g
  simp only [normDef] at h0 hm ⊢
  rcases parityGate_cases t ops with e | ⟨_, ⟨_, e⟩ | ⟨hne, e⟩⟩
  · rw [e]; exact h0
  · rw [e] at hm
    exfalso
    simp only at hm
    split at hm <;> exact absurd hm (by decide)
  · rw [e]; exact hne

/-- a parity-normalised `buf`/`not` line is the line itself -/
theorem normDef_single {g : Def} (h1 : (g.2.1 = "buf" ∨ g.2.1 = "not") → g.2.2.length = 1)
    (hs : (normDef g).2.1 = "buf" ∨ (normDef g).2.1 = "not") : (normDef g).2.2.length = 1 := by
  obtain ⟨n, t, ops⟩ := g
  simp only [normDef] at h1 hs ⊢
  rcases parityGate_ty t ops with e | ⟨_, hc, _⟩
  · rw [e] at hs
    have hne : t ≠ "xor" ∧ t ≠ "xnor" := by
      rcases hs with rfl | rfl <;> decide
    rw [parityGate_other ops hne.1 hne.2]
    exact h1 hs
  · exfalso
    rcases hc with hc | hc <;> rw [hc] at hs <;> exact absurd hs (by decide)

section
variable {ins : List Name} {gates : List Def} {dffs : List (Name × Name)} {outs : List Name}

theorem WFP0.defsGood (hw : WFP0 ins gates dffs outs) : DefsGood (defsOf ins (gates.map normDef) dffs) dffs := by
  have hdD : ∀ d ∈ dffs, ((d.1, "buf", []) : Def) ∈ defsOf ins (gates.map normDef) dffs := fun d hd => by
    unfold defsOf dffDefs
    simp only [List.mem_append, List.mem_map]
    exact Or.inr (Or.inr ⟨d, hd, rfl⟩)
  refine ⟨?_, ?_, fun d hd => (hw.defOK d hd).ty, hw.closedD, ?_, fun d hd => (hw.defOK d hd).source, ?_, hdD, ?_,
    (List.nodup_append.mp hw.defsNodup).2.1⟩
  · rw [names_defsOf_norm, ← List.append_assoc]; exact hw.defsNodup
  · exact fun x hx => (hw.names x (mem_names_defsOf_norm.mp hx)).2.2
  · intro d hd hs hq
    unfold defsOf at hd
    rcases List.mem_append.mp hd with h | h
    · obtain ⟨n, _, rfl⟩ := List.mem_map.mp h
      exfalso
      have hs' : "input" = "buf" ∨ "input" = "not" := hs
      exact absurd hs' (by decide)
    · rcases List.mem_append.mp h with h | h
      · obtain ⟨g, hg, rfl⟩ := List.mem_map.mp h
        exact normDef_single (hw.gateArity g hg).2 hs
      · obtain ⟨p, hp, rfl⟩ := List.mem_map.mp h
        exact absurd (List.mem_map.mpr ⟨p, hp, rfl⟩) hq
  · intro d hd hm
    unfold defsOf at hd
    rcases List.mem_append.mp hd with h | h
    · obtain ⟨n, _, rfl⟩ := List.mem_map.mp h
      exfalso
      have hm' : "input" ∈ multiTypes := hm
      exact absurd hm' (by decide)
    · rcases List.mem_append.mp h with h | h
      · obtain ⟨g, hg, rfl⟩ := List.mem_map.mp h
        exact normDef_multi (hw.gateArity g hg).1 hm
      · obtain ⟨p, hp, rfl⟩ := List.mem_map.mp h
        exfalso
        have hm' : "buf" ∈ multiTypes := hm
        exact absurd hm' (by decide)
  · intro d hd
    exact mem_names_defsOf_norm.mpr (hw.dffUses d hd)

/-- **bench reader**: the circuit built for a well-formed netlist passes lint -/
theorem build_passes_lint (name : String) (hw : WFP0 ins gates dffs outs) (ord : Ord) (hord : OrdOK ord) :
    ∃ c, build name (stmtsP ins gates dffs outs) = .ok c ∧ lint c {} ord = Outcome.ok := by
  obtain ⟨c, e, h⟩ := build_struct0 name hw
  have g := WFP0.defsGood hw
  exact ⟨c, e, C20.lint_accepts c ord hord (built_lintClean h g) (built_registryOK h g (build_allDff e))⟩
end

/-- **bench round trip**: what the reader builds from the writer's statements passes lint -/
theorem roundtrip_passes_lint {c : Circuit} {ord ord' : Ord} (hc : WritableP c) (hord : OrdOK ord) (hord' : OrdOK ord') :
    ∃ ss c', toStmts c ord = .ok ss ∧ build c.name ss = .ok c' ∧ lint c' {} ord' = Outcome.ok := by
  obtain ⟨i, gs, invO, hi, hW, e1⟩ := hc.written hord
  have hw := (hc.wfp hord hi hW).to0
  obtain ⟨c', e2, hl⟩ := build_passes_lint c.name hw ord' hord'
  exact ⟨_, c', e1, e2, hl⟩

end LintProdF
end CG
