/- C15 helper: the DFF pass of the reader -/
import CG.Proofs.BenchDff
set_option linter.unusedSimpArgs false
set_option linter.unusedVariables false
namespace CG
namespace BenchP
open Circuit Ternary Bench

def pinD (n : Name) : Name := n ++ "_dff.D"
def pinQ (n : Name) : Name := n ++ "_dff.Q"

theorem pinD_eq (n : Name) : (n ++ "_dff") ++ "." ++ "D" = pinD n := by
  unfold pinD
  rw [String.append_assoc, String.append_assoc]; rfl

theorem pinQ_eq (n : Name) : (n ++ "_dff") ++ "." ++ "Q" = pinQ n := by
  unfold pinQ
  rw [String.append_assoc, String.append_assoc]; rfl

theorem pinD_inj {a b : Name} (h : pinD a = pinD b) : a = b := by
  unfold pinD at h
  exact (String.append_left_inj _).mp h

theorem pinQ_inj {a b : Name} (h : pinQ a = pinQ b) : a = b := by
  unfold pinQ at h
  exact (String.append_left_inj _).mp h

theorem pinD_ne_pinQ' (a b : Name) : pinD a ≠ pinQ b := by
  unfold pinD pinQ
  intro h
  have h' := congrArg String.toList h
  rw [String.toList_append, String.toList_append] at h'
  have := (List.append_inj' h' (by decide)).2
  exact absurd this (by decide)

theorem pinD_dot (n : Name) : hasDotB (pinD n) := by
  unfold hasDotB pinD
  rw [String.toList_append]
  simp

theorem pinQ_dot (n : Name) : hasDotB (pinQ n) := by
  unfold hasDotB pinQ
  rw [String.toList_append]
  simp

/-- state after the flops `P` were instantiated on top of the definitions `D` -/
structure DInv (c : Circuit) (D : List Def) (P : List (Name × Name)) : Prop where
  nodupN : c.nodeNames.Nodup
  nodupE : c.edges.Nodup
  closed : ∀ e ∈ c.edges, c.has e.1 = true ∧ c.has e.2 = true
  has : ∀ x, c.has x = true ↔ (x ∈ names D ∨ ∃ d ∈ P, x = pinD d.1 ∨ x = pinQ d.1)
  attrD : ∀ d ∈ D, c.attr? d.1 = some { ty := some d.2.1, out := some false }
  attrP : ∀ d ∈ P, c.attr? (pinD d.1) = some pinAttrD ∧ c.attr? (pinQ d.1) = some pinAttrQ
  edges : ∀ e, e ∈ c.edges ↔ ((∃ d ∈ D, e.2 = d.1 ∧ e.1 ∈ d.2.2) ∨
    ∃ d ∈ P, e = (d.2, pinD d.1) ∨ e = (pinQ d.1, d.1))
  bbsP : ∀ d ∈ P, c.bbs.lookup (d.1 ++ "_dff") = some dffBB
  bbsN : ∀ i, (∀ d ∈ P, i ≠ d.1 ++ "_dff") → c.bbs.lookup i = none

theorem DInv.ofB {c : Circuit} {D : List Def} (h : BInv c D) (hcl : ∀ d ∈ D, ∀ u ∈ d.2.2, u ∈ names D) :
    DInv c D [] := by
  have hhas : ∀ x, c.has x = true ↔ x ∈ names D := by
    intro x
    rw [h.has]
    constructor
    · rintro (h1 | ⟨d, h1, h2⟩)
      · exact h1
      · exact hcl d h1 x h2
    · exact Or.inl
  refine ⟨h.nodupN, h.nodupE, ?_, ?_, h.attrD, ?_, ?_, ?_, ?_⟩
  · intro e he
    obtain ⟨d, hd, h1, h2⟩ := (h.edges e).mp he
    exact ⟨(hhas _).mpr (hcl d hd _ h2), (hhas _).mpr (by rw [h1]; exact List.mem_map.mpr ⟨d, hd, rfl⟩)⟩
  · intro x; rw [hhas]; simp
  · intro d hd; cases hd
  · intro e; rw [h.edges]; simp
  · intro d hd; cases hd
  · intro i _; rw [h.bbs]; rfl

theorem def_eq_of_name {D : List Def} (hnd : (names D).Nodup) {d d' : Def} (hd : d ∈ D) (hd' : d' ∈ D)
    (e : d.1 = d'.1) : d = d' := by
  induction D with
  | nil => cases hd
  | cons x D ih =>
    simp only [names, List.map_cons, List.nodup_cons] at hnd
    rcases List.mem_cons.mp hd with h1 | h1 <;> rcases List.mem_cons.mp hd' with h2 | h2
    · rw [h1, h2]
    · exfalso; apply hnd.1; rw [← h1, e]; exact List.mem_map.mpr ⟨d', h2, rfl⟩
    · exfalso; apply hnd.1; rw [← h2, ← e]; exact List.mem_map.mpr ⟨d, h1, rfl⟩
    · exact ih hnd.2 h1 h2

/-- one flop -/
theorem DInv.step {c : Circuit} {D : List Def} {P : List (Name × Name)} (h : DInv c D P) (q d : Name)
    (hDnd : (names D).Nodup) (hDty : ∀ d' ∈ D, d'.2.1 ∈ okTypes)
    (hDok : ∀ x ∈ names D, Limit.NameOK x ∧ ¬ hasDotB x)
    (hq : (q, "buf", []) ∈ D) (hqP : q ∉ P.map (·.1)) (hd : d ∈ names D) :
    ∃ c', build1 c (.dff q d) = .ok c' ∧ DInv c' D (P ++ [(q, d)]) := by
  have hqD : q ∈ names D := List.mem_map.mpr ⟨_, hq, rfl⟩
  have hqok := (hDok q hqD).1
  have hdok := (hDok d hd).1
  have hnotD : ∀ x, hasDotB x → c.has x = true → ∃ d' ∈ P, x = pinD d'.1 ∨ x = pinQ d'.1 := by
    intro x hx hh
    rcases (h.has x).mp hh with h1 | h1
    · exact absurd hx (hDok x h1).2
    · exact h1
  have hD : c.has (pinD q) = false := by
    cases hh : c.has (pinD q) with
    | false => rfl
    | true =>
      exfalso
      obtain ⟨d', hd', h1 | h1⟩ := hnotD _ (pinD_dot q) hh
      · exact hqP (List.mem_map.mpr ⟨d', hd', (pinD_inj h1).symm⟩)
      · exact pinD_ne_pinQ' _ _ h1
  have hQ : c.has (pinQ q) = false := by
    cases hh : c.has (pinQ q) with
    | false => rfl
    | true =>
      exfalso
      obtain ⟨d', hd', h1 | h1⟩ := hnotD _ (pinQ_dot q) hh
      · exact pinD_ne_pinQ' _ _ h1.symm
      · exact hqP (List.mem_map.mpr ⟨d', hd', (pinQ_inj h1).symm⟩)
  obtain ⟨dd, hdd, hdd1⟩ := List.mem_map.mp hd
  have hnone : c.bbs.lookup (q ++ "_dff") = none := by
    apply h.bbsN
    intro d' hd' e
    exact hqP (List.mem_map.mpr ⟨d', hd', ((String.append_left_inj _).mp e).symm⟩)
  obtain ⟨c', e, hn, he, hnd, hb, _⟩ := addBlackbox_dff c (q ++ "_dff") d q hnone (hqok.append _)
    (by rw [pinD_eq]; exact hD) (by rw [pinQ_eq]; exact hQ)
    (by rw [pinD_eq]; intro e he h1; rw [← h1, (h.closed e he).2] at hD; cases hD)
    (by rw [pinQ_eq]; intro e he h1; rw [← h1, (h.closed e he).1] at hQ; cases hQ)
    hdok.2 hqok.2
    (by
      obtain ⟨_, f2, f3, _⟩ := ok_facts (hDty dd hdd)
      refine ⟨dd.2.1, ?_, f2, f3⟩
      rw [← hdd1, ty_of_attr (h.attrD dd hdd)])
    (by rw [ty_of_attr (h.attrD _ hq)])
    (by
      intro e he h1
      rcases (h.edges e).mp he with ⟨d', hd', h2, h3⟩ | ⟨d', hd', h2 | h2⟩
      · have : d' = (q, "buf", []) := def_eq_of_name hDnd hd' hq (by rw [← h2, h1])
        rw [this] at h3; cases h3
      · rw [h2] at h1
        exact (hDok q hqD).2 (by rw [← h1]; exact pinD_dot _)
      · rw [h2] at h1
        exact hqP (List.mem_map.mpr ⟨d', hd', h1⟩))
  rw [pinD_eq, pinQ_eq] at hn he
  -- the intermediate one-pin circuit
  obtain ⟨cm, hcm⟩ : ∃ cm : Circuit, cm = { c with nodes := c.nodes ++ [(pinD q, pinAttrD)] } := ⟨_, rfl⟩
  have n1 : cm.nodes = c.nodes ++ [(pinD q, pinAttrD)] := by rw [hcm]
  have n2 : c'.nodes = cm.nodes ++ [(pinQ q, pinAttrQ)] := by rw [hn, n1, List.append_assoc]; rfl
  have hQm : cm.has (pinQ q) = false := by
    cases hh : cm.has (pinQ q) with
    | false => rfl
    | true =>
      rcases (Limit.ext_has n1 _).mp hh with h1 | h1
      · rw [hQ] at h1; cases h1
      · exact absurd h1.symm (pinD_ne_pinQ' q q)
  have has' : ∀ x, c'.has x = true ↔ (c.has x = true ∨ x = pinD q ∨ x = pinQ q) := by
    intro x
    rw [Limit.ext_has n2, Limit.ext_has n1, or_assoc]
  have attr_old : ∀ x, c.has x = true → c'.attr? x = c.attr? x := by
    intro x hx
    rw [Limit.ext_attr_old n2 ((Limit.ext_has n1 x).mpr (Or.inl hx)), Limit.ext_attr_old n1 hx]
  refine ⟨c', ?_, ?_⟩
  · unfold build1
    simp only []
    rw [e]; rfl
  · refine ⟨?_, hnd h.nodupE, ?_, ?_, ?_, ?_, ?_, ?_, ?_⟩
    · rw [Limit.ext_nodeNames n2, Limit.ext_nodeNames n1, List.append_assoc]
      rw [List.nodup_append]
      refine ⟨h.nodupN, ?_, ?_⟩
      · simp only [List.singleton_append, List.nodup_cons, List.mem_singleton, List.not_mem_nil, not_false_eq_true,
          List.nodup_nil, and_true]
        exact pinD_ne_pinQ' q q
      · intro a ha b hb hab
        rw [← has_iff_mem] at ha
        simp only [List.singleton_append, List.mem_cons, List.not_mem_nil, or_false] at hb
        rcases hb with hb | hb
        · rw [hab, hb, hD] at ha; cases ha
        · rw [hab, hb, hQ] at ha; cases ha
    · intro e' he'
      rcases (he e').mp he' with h1 | h1 | h1
      · exact ⟨(has' _).mpr (Or.inl (h.closed e' h1).1), (has' _).mpr (Or.inl (h.closed e' h1).2)⟩
      · rw [h1]
        exact ⟨(has' _).mpr (Or.inl ((h.has d).mpr (Or.inl hd))), (has' _).mpr (Or.inr (Or.inl rfl))⟩
      · rw [h1]
        exact ⟨(has' _).mpr (Or.inr (Or.inr rfl)), (has' _).mpr (Or.inl ((h.has q).mpr (Or.inl hqD)))⟩
    · intro x
      rw [has', h.has]
      simp only [List.mem_append, List.mem_singleton]
      constructor
      · rintro ((h1 | ⟨d', h1, h2⟩) | h1)
        · exact Or.inl h1
        · exact Or.inr ⟨d', Or.inl h1, h2⟩
        · exact Or.inr ⟨(q, d), Or.inr rfl, h1⟩
      · rintro (h1 | ⟨d', h1 | h1, h2⟩)
        · exact Or.inl (Or.inl h1)
        · exact Or.inl (Or.inr ⟨d', h1, h2⟩)
        · rw [h1] at h2; exact Or.inr h2
    · intro d' hd'
      rw [attr_old _ ((h.has _).mpr (Or.inl (List.mem_map.mpr ⟨d', hd', rfl⟩)))]
      exact h.attrD d' hd'
    · intro d' hd'
      rcases List.mem_append.mp hd' with h1 | h1
      · have hp := h.attrP d' h1
        rw [attr_old _ (has_of_attr' hp.1), attr_old _ (has_of_attr' hp.2)]
        exact hp
      · rw [List.mem_singleton] at h1
        rw [h1]
        constructor
        · rw [Limit.ext_attr_old n2 ((Limit.ext_has n1 _).mpr (Or.inr rfl)), Limit.ext_attr_new n1 hD]
        · rw [Limit.ext_attr_new n2 hQm]
    · intro e'
      rw [he, h.edges]
      simp only [List.mem_append, List.mem_singleton]
      constructor
      · rintro ((h1 | ⟨d', h1, h2⟩) | h1)
        · exact Or.inl h1
        · exact Or.inr ⟨d', Or.inl h1, h2⟩
        · exact Or.inr ⟨(q, d), Or.inr rfl, h1⟩
      · rintro (h1 | ⟨d', h1 | h1, h2⟩)
        · exact Or.inl (Or.inl h1)
        · exact Or.inl (Or.inr ⟨d', h1, h2⟩)
        · rw [h1] at h2; exact Or.inr h2
    · intro d' hd'
      rw [hb, List.lookup_append]
      rcases List.mem_append.mp hd' with h1 | h1
      · rw [h.bbsP d' h1]; rfl
      · rw [List.mem_singleton] at h1
        rw [h1, hnone]
        simp [List.lookup]
    · intro i hi
      rw [hb, List.lookup_append, h.bbsN i (fun d' hd' => hi d' (List.mem_append.mpr (Or.inl hd')))]
      have : (i == q ++ "_dff") = false := by
        have := hi (q, d) (by simp)
        simpa using this
      simp [List.lookup, this]

end BenchP
end CG
