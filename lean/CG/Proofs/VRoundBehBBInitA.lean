/- C03 helper (behavioural round trip WITH blackboxes): the reader's state after the declarations and the instance
   statements (`VR.iphase`, `VR.bphase` with the supplement `VBB.Sup`), and the structural invariant `VBB.SI'` it
   satisfies. -/
import CG.Proofs.VRoundBehBBSup
import CG.Proofs.VRoundBehBBWrite
namespace CG
namespace VBB
open Verilog Circuit Ternary VT

/-- the declared nets: nodes of `c` that are not pins -/
def Dn (c : Circuit) (x : Name) : Prop := c.has x = true ∧ ¬ VR.PinTy c x

/-- nodes declared after the declarations and the instance statements: inputs and pins -/
def D2 (c : Circuit) (x : Name) : Prop := c.ty? x = some "input" ∨ VR.PinTy c x

variable {c : Circuit}

theorem has_not_syn (hns : ∀ p ∈ c.nodes, ¬ IsSyn p.1) {x : Name} (hx : c.has x = true) : ¬ IsSyn x := by
  obtain ⟨a, ha⟩ := Limit.attr_of_has hx
  exact hns (x, a) (attr?_mem ha)

theorem pin_has {x : Name} (h : VR.PinTy c x) : c.has x = true := by
  rcases h with h | h <;> exact has_of_ty? h

theorem not_tie3 {x : Name} (h : ¬ VR.isTie x) : x ≠ "tie_0" ∧ x ≠ "tie_1" ∧ x ≠ "tie_x" :=
  ⟨fun e => h (Or.inl e), fun e => h (Or.inr (Or.inl e)), fun e => h (Or.inr (Or.inr e))⟩

theorem declOK (hc : VR.Wr c) (hns : ∀ p ∈ c.nodes, ¬ IsSyn p.1) {ord : Ord} (hord : OrdOK ord) :
    DeclOK' (Dn c) (VR.PinTy c) (ord c.inputs) := by
  refine ⟨⟨?_, ?_, ?_, ?_⟩, ?_, ?_, ?_⟩
  · intro n hn; exact has_not_syn hns hn.1
  · intro n hn; exact not_tie3 (hc.not_tie hn.1)
  · intro n hn; exact (hc.pname' hn.1 hn.2).nameOK
  · intro n hn
    rw [(hord _).mem_iff, mem_inputs hc.clean.nodup] at hn
    refine ⟨has_of_ty? hn, ?_⟩
    rintro (h | h) <;> (rw [hn] at h; injection h with h; revert h; decide)
  · intro n hn; exact hn.2
  · intro n hn; exact has_not_syn hns (pin_has hn)
  · intro n hn; exact not_tie3 (hc.not_tie (pin_has hn))

/-! ### the fold up to the last instance statement -/

theorem pre_fold (hc : VR.Wr c) {ord' : Ord} (hord' : OrdOK ord') {wm : WModule} {bi rest : List Item}
    (hin : wm.inputs.Perm c.inputs) (hst : wm.stmts = bi ++ rest) (hbi : VR.All2 (VR.BBSpec c) c.bbs bi) :
    ∃ st2 : TState, wm.toModule.items.foldlM (doItem (c.bbs.map (·.2)) ord')
        ({ c := VR.tie3 }, { io := wm.toModule.ports }) =
        rest.foldlM (doItem (c.bbs.map (·.2)) ord')
          (st2, { io := wm.inputs ++ wm.outputs, inputs := wm.inputs, outputs := wm.outputs }) ∧
      VR.RInv c st2.c c.bbs (D2 c) ∧ st2.gateExprs = [] ∧ Sup (D2 c) st2.c := by
  have hinp : ∀ x, x ∈ wm.inputs ↔ c.ty? x = some "input" := by
    intro x; rw [hin.mem_iff, mem_inputs hc.clean.nodup]
  obtain ⟨st1, e1, h1, g1⟩ := VR.iphase (bbs := c.bbs.map (·.2)) (ord' := ord') hc wm.inputs
    (fun i hi => (hinp i).1 hi) { c := VR.tie3 } { io := wm.inputs ++ wm.outputs } _ (VR.rinv_init hc)
  have s1 := iphase_sup (bbs := c.bbs.map (·.2)) (ord' := ord') wm.inputs { c := VR.tie3 }
    { io := wm.inputs ++ wm.outputs } (fun _ => False)
    (fun i hi => by
      have hi' := (hinp i).1 hi
      exact (hc.pname hi' (by decide) (by decide)).nameOK)
    (sup_tie3 _) _ e1
  obtain ⟨st2, e2, h2, g2⟩ := VR.bphase hc hord' c.bbs bi hbi [] st1
    { io := wm.inputs ++ wm.outputs, inputs := wm.inputs, outputs := wm.outputs } _ (List.nil_append _) h1
    (by
      rintro x hx (h3 | h3)
      · exact h3
      · have := VR.pinOf_ty hc hx
        rw [hinp] at h3
        rcases this with h4 | h4 <;> (rw [h3] at h4; injection h4 with h4; revert h4; decide))
    (by
      rintro x (h3 | h3)
      · exact h3.elim
      · exact Or.inl ((hinp x).1 h3))
  have s2 := bphase_sup hc hord' c.bbs bi hbi (fun _ h => h) st1
    { io := wm.inputs ++ wm.outputs, inputs := wm.inputs, outputs := wm.outputs } _ s1 _ e2
  have hD : ∀ x, (((False ∨ x ∈ wm.inputs) ∨ VR.pinOf c.bbs x)) ↔ D2 c x := by
    intro x
    unfold D2
    rw [hinp]
    constructor
    · rintro ((h | h) | h)
      · exact h.elim
      · exact Or.inl h
      · exact Or.inr (VR.pinOf_ty hc h)
    · rintro (h | h)
      · exact Or.inl (Or.inr h)
      · exact Or.inr (VR.pinOf_of_ty hc h)
  refine ⟨st2, ?_, ?_, by rw [g2, g1], s2.mono (fun x hx => (hD x).1 hx)⟩
  · show (wm.inputs.map (fun i => Item.input [i]) ++ wm.outputs.map (fun o => Item.output [o]) ++
        wm.wires.map (fun w => Item.wire [w]) ++ wm.stmts).foldlM _ _ = _
    rw [List.foldlM_append, List.foldlM_append, List.foldlM_append]
    show ((((wm.inputs.map (fun i => Item.input [i])).foldlM (doItem (c.bbs.map (·.2)) ord')
      ({ c := VR.tie3 }, { io := wm.inputs ++ wm.outputs }) >>= _) >>= _) >>= _) = _
    rw [e1, Arith.bind_ok, VR.ophase, Arith.bind_ok, VR.wphase, Arith.bind_ok, hst, List.foldlM_append]
    simp only [List.nil_append]
    rw [e2, Arith.bind_ok]
  · rw [List.nil_append] at h2
    exact h2.congr hD

/-! ### the structural invariant after the instance statements -/

theorem okTypes_of {t : String} (hs : t ∈ Expected.supported_types) (hc : t ∉ VR.constTys) (h1 : t ≠ "bb_input")
    (h2 : t ≠ "bb_output") : t ∈ okTypes := by
  simp only [Expected.supported_types, Expected.addable_types, Expected.primitive_gates, List.mem_append,
    List.mem_cons, List.not_mem_nil, or_false] at hs
  rcases hs with ((rfl | rfl | rfl | rfl | rfl | rfl | rfl | rfl) | (rfl | rfl | rfl | rfl)) | (rfl | rfl)
  all_goals first | decide | exact absurd rfl h1 | exact absurd rfl h2 | exact absurd (by decide) hc

theorem fty_okTypes (hc : VR.Wr c) {x : Name} (hx : c.has x = true) (hp : ¬ VR.PinTy c x) : VR.fty c x ∈ okTypes := by
  obtain ⟨t, ht, hs⟩ := hc.ws.typed x hx
  by_cases hcst : t ∈ VR.constTys
  · rw [VR.fty_const ht hcst]; decide
  · rw [VR.fty_of ht hcst]
    refine okTypes_of hs hcst ?_ ?_
    · rintro rfl; exact hp (Or.inl ht)
    · rintro rfl; exact hp (Or.inr ht)

theorem fty_input {x : Name} (h : VR.fty c x = "input") : c.ty? x = some "input" := by
  unfold VR.fty at h
  cases ht : c.ty? x with
  | none => rw [ht] at h; revert h; decide
  | some t =>
    rw [ht] at h
    simp only [] at h
    split at h
    · exact absurd h (by decide)
    · rw [h]

theorem fty_pin {x : Name} (h : VR.PinTy c x) : c.ty? x = some (VR.fty c x) := by
  rcases h with h | h
  · rw [VR.fty_of h (by decide), h]
  · rw [VR.fty_of h (by decide), h]

theorem tie_attr_ty {st : Circuit} {B : List (Name × BBox)} {D : Name → Prop} (h : VR.RInv c st B D) {x : Name}
    (hx : VR.isTie x) : ∃ t, t ∈ VR.constTys ∧ st.attr? x = some { ty := some t, out := some false } := by
  obtain ⟨t, ht, rfl⟩ := (VR.isTie_iff x).1 hx
  exact ⟨t, ht, h.tie t ht⟩

/-- the state after the instance statements satisfies the structural invariant (relative to itself) -/
theorem si_init (hc : VR.Wr c) (hns : ∀ p ∈ c.nodes, ¬ IsSyn p.1) {ord : Ord} (hord : OrdOK ord) {st : Circuit}
    (h : VR.RInv c st c.bbs (D2 c)) : SI' (Dn c) (VR.PinTy c) (ord c.inputs) st st := by
  refine ⟨h.wf, ?_, h.tie "0" (by decide), h.tie "1" (by decide), h.tie "x" (by decide), ?_, ?_, fun _ _ => rfl,
    fun _ _ => Iff.rfl, rfl, ?_, h.wf⟩
  · intro x hx
    rcases h.sub x hx with h1 | h1
    · rcases h1 with h1 | h1 | h1
      · exact Or.inl h1
      · exact Or.inr (Or.inl h1)
      · exact Or.inr (Or.inr (Or.inl h1))
    · by_cases hp : VR.PinTy c x
      · exact Or.inr (Or.inr (Or.inr (Or.inr (Or.inr hp))))
      · exact Or.inr (Or.inr (Or.inr (Or.inl ⟨h1, hp⟩)))
  · intro x a ha hxx hxp
    by_cases ht : VR.isTie x
    · obtain ⟨t, htc, hta⟩ := tie_attr_ty h ht
      rw [ha] at hta
      injection hta with hta
      subst hta
      refine ⟨rfl, t, rfl, ?_⟩
      simp only [VR.constTys, List.mem_cons, List.not_mem_nil, or_false] at htc
      rcases ht with rfl | rfl | rfl
      · have : t = "0" := by
          have := h.tie "0" (by decide)
          have e : ("tie_" ++ "0" : String) = "tie_0" := by decide
          rw [e, ha] at this
          injection this with this
          injection this with this _
          injection this
        rw [this]; decide
      · have : t = "1" := by
          have := h.tie "1" (by decide)
          have e : ("tie_" ++ "1" : String) = "tie_1" := by decide
          rw [e, ha] at this
          injection this with this
          injection this with this _
          injection this
        rw [this]; decide
      · exact absurd rfl hxx
    · obtain ⟨ho, hty⟩ := h.attr x a ha ht
      have hcx : c.has x = true := by
        rcases h.sub x (Limit.has_of_attr ha) with h1 | h1
        · exact absurd h1 ht
        · exact h1
      refine ⟨ho, ?_⟩
      rcases hty with hty | hty
      · exact ⟨"buf", hty, by decide⟩
      · exact ⟨_, hty, fty_okTypes hc hcx hxp⟩
  · intro x
    rw [(hord _).mem_iff, mem_inputs hc.clean.nodup]
    constructor
    · intro hx
      obtain ⟨a, ha⟩ := Limit.attr_of_has (has_of_ty? hx)
      have hta : a.ty = some "input" := by rw [ty_of_attr ha] at hx; exact hx
      by_cases ht : VR.isTie x
      · obtain ⟨t, htc, hta'⟩ := tie_attr_ty h ht
        rw [ha] at hta'
        injection hta' with hta'
        rw [hta'] at hta
        injection hta with hta
        rw [hta] at htc
        exact absurd htc (by decide)
      · rcases (h.attr x a ha ht).2 with hty | hty
        · rw [hty] at hta; injection hta with hta; exact absurd hta (by decide)
        · rw [hty] at hta
          injection hta with hta
          exact fty_input hta
    · intro hx
      rw [h.dty x (Or.inl hx), VR.fty_of hx (by decide)]
  · intro x hx
    rcases h.sub x hx with h1 | h1
    · rcases h1 with rfl | rfl | rfl
      · exact tie0_not_syn
      · exact tie1_not_syn
      · exact tiex_not_syn
    · exact has_not_syn hns h1

end VBB
end CG
