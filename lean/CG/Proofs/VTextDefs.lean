/- C03 helper (text level): the shapes of module the writer emits, as far as the lexer and parser care -/
import CG.Proofs.VTextLex
namespace CG
namespace VX
open Verilog

/-- the operators of the behavioural chains with their symbols -/
inductive IsOp : (Expr → Expr → Expr) → String → Prop
  | and : IsOp Expr.and "&"
  | or : IsOp Expr.or "|"
  | xor : IsOp Expr.xor "^"

/-- right-hand side of an emitted `assign` with its paren flag: a constant, `~d`, a chain `a op b op c` (a single name
    included), or an inverted chain printed as `~(a op b op c)` -/
def AsgOK (p : Bool) (e : Expr) : Prop :=
  (p = false ∧ ∃ t, e = Expr.const t ∧ (t = "0" ∨ t = "1" ∨ t = "x")) ∨
  (p = false ∧ ∃ d, e = Expr.not (Expr.id d) ∧ Ident d) ∨
  (p = false ∧ ∃ op s x xs, IsOp op s ∧ e = chain op (x :: xs) ∧ ∀ y ∈ x :: xs, Ident y) ∨
  (p = true ∧ ∃ op s x xs, IsOp op s ∧ e = Expr.not (chain op (x :: xs)) ∧ ∀ y ∈ x :: xs, Ident y)

/-- one named-port connection: `.p(d)` or `.p()` -/
def ConnOK (p : Name × Option Expr) : Prop :=
  Ident p.1 ∧ (p.2 = none ∨ ∃ d, p.2 = some (Expr.id d) ∧ Ident d)

/-- an emitted statement with its paren flag: a named-port instance with at least one pin, a positional instance whose
    connections are names, or a single assignment -/
def StmtOK (it : Item) (p : Bool) : Prop :=
  (p = false ∧ ∃ m i ps, it = Item.inst m [(i, Conns.named ps)] ∧ Ident m ∧ Ident i ∧ ps ≠ [] ∧ ∀ q ∈ ps, ConnOK q) ∨
  (p = false ∧ ∃ t g ns, it = Item.inst t [(g, Conns.positional (ns.map Expr.id))] ∧ Ident t ∧ Ident g ∧ ns ≠ [] ∧
      ∀ n ∈ ns, Ident n) ∨
  (∃ n e, it = Item.assign [(n, e)] ∧ Ident n ∧ AsgOK p e)

/-- pointwise relation between two lists of equal length -/
inductive All2 {α β : Type} (R : α → β → Prop) : List α → List β → Prop
  | nil : All2 R [] []
  | cons {a : α} {b : β} {l : List α} {m : List β} : R a b → All2 R l m → All2 R (a :: l) (b :: m)

/-- an emitted module all of whose names are plain identifiers, with at least one port -/
structure WOK (m : WModule) : Prop where
  name : Ident m.name
  inputs : ∀ i ∈ m.inputs, Ident i
  outputs : ∀ o ∈ m.outputs, Ident o
  wires : ∀ w ∈ m.wires, Ident w
  ports : m.inputs ++ m.outputs ≠ []
  stmts : All2 StmtOK m.stmts m.parens

end VX
end CG
