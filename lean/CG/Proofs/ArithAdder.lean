/- C13 helper: the ripple-carry adder, by induction on the bit index -/
import CG.Proofs.ArithSub
import CG.Proofs.ArithFA
set_option linter.unusedSimpArgs false
set_option linter.unusedVariables false
namespace CG
namespace Arith
open Logic Circuit Limit
open Tx (addC)

/-! ### bit vectors -/

def bitsVal (v : Val) (pre : String) (w : Nat) : Nat :=
  (List.range w).foldl (fun acc i => acc + b2n (v (pre ++ toString i)) * 2 ^ i) 0

theorem bitsVal_zero (v : Val) (pre : String) : bitsVal v pre 0 = 0 := rfl

theorem bitsVal_succ (v : Val) (pre : String) (w : Nat) :
    bitsVal v pre (w + 1) = bitsVal v pre w + b2n (v (pre ++ toString w)) * 2 ^ w := by
  unfold bitsVal
  rw [List.range_succ, List.foldl_append]
  rfl

theorem b2n_le (b : Bool) : b2n b ≤ 1 := by cases b <;> decide

theorem bitsVal_lt (v : Val) (pre : String) : ∀ w, bitsVal v pre w < 2 ^ w
  | 0 => by simp [bitsVal_zero]
  | w + 1 => by
    rw [bitsVal_succ, Nat.pow_succ]
    have := bitsVal_lt v pre w
    have h1 := b2n_le (v (pre ++ toString w))
    have : b2n (v (pre ++ toString w)) * 2 ^ w ≤ 1 * 2 ^ w := Nat.mul_le_mul_right _ h1
    omega

/-! ### names -/

/-- names of the nodes present after `i` iterations of the bit loop -/
def AName (i : Nat) (x : Name) : Prop :=
  x = "cin" ∨ ∃ j, j < i ∧ (x = "a_" ++ toString j ∨ x = "b_" ++ toString j ∨ x = "out_" ++ toString j ∨
    ∃ n, FA.has n = true ∧ x = pref ("fa_" ++ toString j) n)

theorem AName.mono {i : Nat} {x : Name} (h : AName i x) : AName (i + 1) x := by
  rcases h with h | ⟨j, hj, h⟩
  · exact Or.inl h
  · exact Or.inr ⟨j, by omega, h⟩

theorem not_AName_a (i : Nat) : ¬ AName i ("a_" ++ toString i) := by
  rintro (h | ⟨j, hj, h | h | h | ⟨n, _, h⟩⟩)
  · revert h; name_ne
  · have := (idx_inj "a_").1 h; omega
  · revert h; name_ne
  · revert h; name_ne
  · revert h; unfold pref; name_ne

theorem not_AName_b (i : Nat) : ¬ AName i ("b_" ++ toString i) := by
  rintro (h | ⟨j, hj, h | h | h | ⟨n, _, h⟩⟩)
  · revert h; name_ne
  · revert h; name_ne
  · have := (idx_inj "b_").1 h; omega
  · revert h; name_ne
  · revert h; unfold pref; name_ne

theorem not_AName_out (i : Nat) : ¬ AName i ("out_" ++ toString i) := by
  rintro (h | ⟨j, hj, h | h | h | ⟨n, _, h⟩⟩)
  · revert h; name_ne
  · revert h; name_ne
  · revert h; name_ne
  · have := (idx_inj "out_").1 h; omega
  · revert h; unfold pref; name_ne

theorem not_AName_fa (i : Nat) (n : Name) : ¬ AName i (pref ("fa_" ++ toString i) n) := by
  rintro (h | ⟨j, hj, h | h | h | ⟨m, _, h⟩⟩)
  · revert h; unfold pref; name_ne
  · revert h; unfold pref; name_ne
  · revert h; unfold pref; name_ne
  · revert h; unfold pref; name_ne
  · have := (pref_idx_inj "fa_" h).1; omega

theorem not_AName_cout (i : Nat) : ¬ AName i "cout" := by
  rintro (h | ⟨j, hj, h | h | h | ⟨n, _, h⟩⟩)
  · revert h; decide
  · revert h; name_ne
  · revert h; name_ne
  · revert h; name_ne
  · revert h; unfold pref; name_ne

/-! ### the loop invariant -/

structure AdderInv (ci : Bool) (i : Nat) (c : Circuit) (carry : Name) : Prop where
  inv : Inv' c []
  bbs : c.bbs = []
  driven : Driven c
  plain : ∀ n t, c.ty? n = some t → t ∈ genTypes
  names : ∀ x, c.has x = true → AName i x
  carryTy : ∃ t, c.ty? carry = some t ∧ (t = "input" ∨ t = "0" ∨ t = "or")
  outputs : ∀ x, x ∈ c.outputs ↔ ∃ j, j < i ∧ x = "out_" ++ toString j
  inputs : ∀ x, x ∈ c.inputs ↔
    (∃ j, j < i ∧ (x = "a_" ++ toString j ∨ x = "b_" ++ toString j)) ∨ (ci = true ∧ x = "cin")
  sem : ∀ v, Consistent c v → bitsVal v "out_" i + 2 ^ i * b2n (v carry) =
      bitsVal v "a_" i + bitsVal v "b_" i + (if ci then b2n (v "cin") else 0)

theorem wf_of_inv {c : Circuit} (h : Inv' c []) : WF c :=
  ⟨h.1.nodup, h.1.edgesNodup, fun e he => h.1.closed e.1 e.2 he⟩

theorem not_has_of {c : Circuit} {P : Name → Prop} (h : ∀ x, c.has x = true → P x) {x : Name} (hx : ¬ P x) :
    c.has x = false := by
  cases hh : c.has x with
  | false => rfl
  | true => exact absurd (h x hh) hx

theorem FA_inputs : FA.inputs = ["x", "y", "cin"] := by decide
theorem FA_outputs : FA.outputs = ["cout", "s"] := by decide
theorem FA_typed : ∀ p ∈ FA.nodes, ∃ t, p.2.ty = some t ∧ t ≠ "bb_input" ∧ t ≠ "bb_output" := by decide
theorem FA_plain : ∀ n t, FA.ty? n = some t → t ∈ genTypes := by
  intro n t ht
  have hn := (has_iff_mem FA n).1 (has_of_ty ht)
  revert t
  revert n
  decide
theorem FA_inv : Inv' FA [] := inv_of_WS (WS_of_lintClean FA_lint) rfl

theorem pref_cout (s : String) : s ++ "_cout" = pref s "cout" := by
  unfold pref
  rw [String.append_assoc]
  rfl

/-! ### one iteration: structure -/

def adderConns (i : Nat) (carry : Name) : List (Name × List Name) :=
  [("x", ["a_" ++ toString i]), ("y", ["b_" ++ toString i]), ("cin", [carry]), ("s", ["out_" ++ toString i])]

def bitNodes (i : Nat) : List (Name × Attr) :=
  [("a_" ++ toString i, { ty := some "input", out := some false }),
   ("b_" ++ toString i, { ty := some "input", out := some false }),
   ("out_" ++ toString i, { ty := some "buf", out := some true })]

structure BitStep (i : Nat) (c : Circuit) (carry : Name) (c3 c4 : Circuit) : Prop where
  nodes3 : c3.nodes = c.nodes ++ bitNodes i
  edges3 : c3.edges = c.edges
  bbs3 : c3.bbs = c.bbs
  inv3 : Inv' c3 []
  facts : SubFacts c3 FA c4 ("fa_" ++ toString i) (adderConns i carry)
  inv4 : Inv' c4 []

theorem nameOK_a (i : Nat) : NameOK ("a_" ++ toString i) := nameOK_lit "a_" 'a' ['_'] rfl (by decide) _
theorem nameOK_b (i : Nat) : NameOK ("b_" ++ toString i) := nameOK_lit "b_" 'b' ['_'] rfl (by decide) _
theorem nameOK_out (i : Nat) : NameOK ("out_" ++ toString i) := nameOK_lit "out_" 'o' ['u', 't', '_'] rfl (by decide) _

theorem adderBit_struct {ci : Bool} {i : Nat} {c : Circuit} {carry : Name} (h : AdderInv ci i c carry) :
    ∃ c3 c4, adderBit FA (c, carry) i = .ok (c4, pref ("fa_" ++ toString i) "cout") ∧ BitStep i c carry c3 c4 := by
  have hwf := wf_of_inv h.inv
  obtain ⟨c1, e1, _, r1⟩ := add_spec c h.inv ("a_" ++ toString i) "input" [] [] false
    (not_has_of h.names (not_AName_a i)) (nameOK_a i) (by decide) (fun _ => rfl) (fun _ => by simp)
    (fun u hu => by cases hu) (fun u hu => by cases hu)
  have hb1 : c1.has ("b_" ++ toString i) = false := by
    cases hh : c1.has ("b_" ++ toString i) with
    | false => rfl
    | true =>
      rcases (r1.has _).1 hh with h1 | h1
      · exact absurd (h.names _ h1) (not_AName_b i)
      · revert h1; name_ne
  obtain ⟨c2, e2, _, r2⟩ := add_spec c1 r1.inv ("b_" ++ toString i) "input" [] [] false
    hb1 (nameOK_b i) (by decide) (fun _ => rfl) (fun _ => by simp)
    (fun u hu => by cases hu) (fun u hu => by cases hu)
  have ho2 : c2.has ("out_" ++ toString i) = false := by
    cases hh : c2.has ("out_" ++ toString i) with
    | false => rfl
    | true =>
      rcases (r2.has _).1 hh with h1 | h1
      · rcases (r1.has _).1 h1 with h1 | h1
        · exact absurd (h.names _ h1) (not_AName_out i)
        · revert h1; name_ne
      · revert h1; name_ne
  obtain ⟨c3, e3, _, r3⟩ := add_spec c2 r2.inv ("out_" ++ toString i) "buf" [] [] true
    ho2 (nameOK_out i) (by decide) (fun h => by rcases h with h | h <;> exact absurd h (by decide))
    (fun _ => by simp) (fun u hu => by cases hu) (fun u hu => by cases hu)
  have nodes3 : c3.nodes = c.nodes ++ bitNodes i := by
    rw [r3.nodes, r2.nodes, r1.nodes]
    simp [bitNodes]
  have edges3 : c3.edges = c.edges := by
    rw [r3.edgesNil rfl rfl, r2.edgesNil rfl rfl, r1.edgesNil rfl rfl]
  have has3 : ∀ x, c3.has x = true → c.has x = true ∨ x = "a_" ++ toString i ∨ x = "b_" ++ toString i ∨
      x = "out_" ++ toString i := by
    intro x hx
    rcases (r3.has x).1 hx with hx | hx
    · rcases (r2.has x).1 hx with hx | hx
      · rcases (r1.has x).1 hx with hx | hx
        · exact Or.inl hx
        · exact Or.inr (Or.inl hx)
      · exact Or.inr (Or.inr (Or.inl hx))
    · exact Or.inr (Or.inr (Or.inr hx))
  have clash : ∀ n, FA.has n = true → c3.has (pref ("fa_" ++ toString i) n) = false := by
    intro n _
    cases hh : c3.has (pref ("fa_" ++ toString i) n) with
    | false => rfl
    | true =>
      rcases has3 _ hh with h1 | h1 | h1 | h1
      · exact absurd (h.names _ h1) (not_AName_fa i n)
      · revert h1; unfold pref; name_ne
      · revert h1; unfold pref; name_ne
      · revert h1; unfold pref; name_ne
  have ty3 : ∀ m t, c.ty? m = some t → c3.ty? m = some t := by
    intro m t ht
    have h1 : c1.ty? m = some t := by rw [ext_ty_old r1.nodes (has_of_ty ht)]; exact ht
    have h2 : c2.ty? m = some t := by rw [ext_ty_old r2.nodes (has_of_ty h1)]; exact h1
    rw [ext_ty_old r3.nodes (has_of_ty h2)]; exact h2
  have tya : c3.ty? ("a_" ++ toString i) = some "input" := by
    have h1 : c1.ty? ("a_" ++ toString i) = some "input" := ext_ty_new r1.nodes (not_has_of h.names (not_AName_a i))
    have h2 : c2.ty? ("a_" ++ toString i) = some "input" := by rw [ext_ty_old r2.nodes (has_of_ty h1)]; exact h1
    rw [ext_ty_old r3.nodes (has_of_ty h2)]; exact h2
  have tyb : c3.ty? ("b_" ++ toString i) = some "input" := by
    have h2 : c2.ty? ("b_" ++ toString i) = some "input" := ext_ty_new r2.nodes hb1
    rw [ext_ty_old r3.nodes (has_of_ty h2)]; exact h2
  have tyo : c3.ty? ("out_" ++ toString i) = some "buf" := ext_ty_new r3.nodes ho2
  have fano : c3.fanin ("out_" ++ toString i) = [] := by
    rw [fanin_eq_faninL, edges3]
    apply faninL_nil_of
    intro e he
    exact (fresh_not_edge hwf (not_has_of h.names (not_AName_out i)) e he).2
  obtain ⟨tc, htc, htc'⟩ := h.carryTy
  have hx : "x" ∈ FA.inputs := by decide
  have hy : "y" ∈ FA.inputs := by decide
  have hcin : "cin" ∈ FA.inputs := by decide
  have fx : FA.fanin "x" = [] := by decide
  have fy : FA.fanin "y" = [] := by decide
  have fcin : FA.fanin "cin" = [] := by decide
  have hs1 : "s" ∉ FA.inputs := by decide
  have hs2 : "s" ∈ FA.outputs := by decide
  obtain ⟨c4, e4⟩ := addSub_succeeds r3.wf FA_wf ("fa_" ++ toString i)
    [("x", "a_" ++ toString i), ("y", "b_" ++ toString i), ("cin", carry)] [("s", "out_" ++ toString i)]
    rfl clash FA_typed
    (by
      intro q hq
      simp only [List.mem_cons, List.not_mem_nil, or_false] at hq
      rcases hq with rfl | rfl | rfl
      · exact ⟨hx, fx, "input", tya, by decide, by decide⟩
      · exact ⟨hy, fy, "input", tyb, by decide, by decide⟩
      · refine ⟨hcin, fcin, tc, ty3 _ _ htc, ?_, ?_⟩
        · rcases htc' with rfl | rfl | rfl <;> decide
        · rcases htc' with rfl | rfl | rfl <;> decide)
    (by show ["x", "y", "cin"].Nodup; decide)
    (by
      intro q hq
      simp only [List.mem_cons, List.not_mem_nil, or_false] at hq
      subst hq
      exact ⟨hs1, hs2, "buf", tyo, by decide, fun _ => fano⟩)
    (by simp)
  have e4' : c3.addSubcircuit FA ("fa_" ++ toString i) (adderConns i carry) true = (c4, .ok) := e4
  have F := addSub_facts r3.wf FA_wf e4'
  have inv4 : Inv' c4 [] := by
    have := (addSubcircuit_spec r3.inv FA_inv ("fa_" ++ toString i) (adderConns i carry)).1
    rw [e4'] at this
    exact this
  refine ⟨c3, c4, ?_, ⟨nodes3, edges3, by rw [r3.bbs, r2.bbs, r1.bbs], r3.inv, F, inv4⟩⟩
  unfold adderBit
  simp only [e1, e2, e3, bind_ok]
  have e4'' : liftO (c3.addSubcircuit FA ("fa_" ++ toString i)
      [("x", ["a_" ++ toString i]), ("y", ["b_" ++ toString i]), ("cin", [carry]),
        ("s", ["out_" ++ toString i])]) = .ok c4 := liftO_ok e4'
  rw [e4'', bind_ok, pref_cout]
  rfl

/-! ### one iteration: the invariant is preserved -/

section step
variable {ci : Bool} {i : Nat} {c : Circuit} {carry : Name} {c3 c4 : Circuit}

theorem BitStep.wf3 (bs : BitStep i c carry c3 c4) : WF c3 := wf_of_inv bs.inv3

theorem BitStep.has3 (bs : BitStep i c carry c3 c4) {x : Name} (hx : c3.has x = true) :
    c.has x = true ∨ x = "a_" ++ toString i ∨ x = "b_" ++ toString i ∨ x = "out_" ++ toString i := by
  rcases (has_append bs.nodes3 x).1 hx with h | ⟨a, ha⟩
  · exact Or.inl h
  · right
    simp only [bitNodes, List.mem_cons, Prod.mk.injEq, List.not_mem_nil, or_false] at ha
    rcases ha with ⟨h, _⟩ | ⟨h, _⟩ | ⟨h, _⟩
    · exact Or.inl h
    · exact Or.inr (Or.inl h)
    · exact Or.inr (Or.inr h)

theorem BitStep.names (h : AdderInv ci i c carry) (bs : BitStep i c carry c3 c4) :
    ∀ x, c4.has x = true → AName (i + 1) x := by
  intro x hx
  rcases (bs.facts.has_iff x).1 hx with h3 | ⟨m, hm, rfl⟩
  · rcases bs.has3 h3 with h0 | h0 | h0 | h0
    · exact (h.names x h0).mono
    · exact Or.inr ⟨i, by omega, Or.inl h0⟩
    · exact Or.inr ⟨i, by omega, Or.inr (Or.inl h0)⟩
    · exact Or.inr ⟨i, by omega, Or.inr (Or.inr (Or.inl h0))⟩
  · exact Or.inr ⟨i, by omega, Or.inr (Or.inr (Or.inr ⟨m, hm, rfl⟩))⟩

theorem BitStep.ty3 (h : AdderInv ci i c carry) (bs : BitStep i c carry c3 c4) {x : Name} {t : String}
    (ht : c3.ty? x = some t) :
    (c.has x = true ∧ c.ty? x = some t) ∨ ((x = "a_" ++ toString i ∨ x = "b_" ++ toString i) ∧ t = "input") ∨
      (x = "out_" ++ toString i ∧ t = "buf") := by
  rcases ty?_append_cases bs.nodes3 bs.wf3.nodup ht with h0 | ⟨a, ha, hta⟩
  · exact Or.inl h0
  · right
    simp only [bitNodes, List.mem_cons, Prod.mk.injEq, List.not_mem_nil, or_false] at ha
    rcases ha with ⟨h1, rfl⟩ | ⟨h1, rfl⟩ | ⟨h1, rfl⟩
    · injection hta with hta; exact Or.inl ⟨Or.inl h1, hta.symm⟩
    · injection hta with hta; exact Or.inl ⟨Or.inr h1, hta.symm⟩
    · injection hta with hta; exact Or.inr ⟨h1, hta.symm⟩

theorem BitStep.plain (h : AdderInv ci i c carry) (bs : BitStep i c carry c3 c4) :
    ∀ n t, c4.ty? n = some t → t ∈ genTypes := by
  apply bs.facts.plain bs.wf3 FA_wf ?_ FA_plain
  intro n t ht
  rcases bs.ty3 h ht with ⟨_, h0⟩ | ⟨_, rfl⟩ | ⟨_, rfl⟩
  · exact h.plain n t h0
  · decide
  · decide

theorem BitStep.driven (h : AdderInv ci i c carry) (bs : BitStep i c carry c3 c4) : Driven c4 := by
  apply bs.facts.driven bs.wf3 FA_wf ?_ (driven_of_lintClean FA_lint) ?_
  · intro n t ht hs
    rcases bs.ty3 h ht with ⟨_, h0⟩ | ⟨_, rfl⟩ | ⟨hn, rfl⟩
    · left
      obtain ⟨u, hu⟩ := h.driven n t h0 hs
      exact ⟨u, by rw [bs.edges3]; exact hu⟩
    · exfalso; revert hs; decide
    · right
      have hs1 : "s" ∉ FA.inputs := by decide
      exact ⟨("s", ["out_" ++ toString i]), by simp [adderConns], hs1, by simp [hn]⟩
  · intro k hk
    rw [FA_inputs] at hk
    simp only [List.mem_cons, List.not_mem_nil, or_false] at hk
    rcases hk with rfl | rfl | rfl
    · exact ⟨("x", ["a_" ++ toString i]), by simp [adderConns], rfl, by simp⟩
    · exact ⟨("y", ["b_" ++ toString i]), by simp [adderConns], rfl, by simp⟩
    · exact ⟨("cin", [carry]), by simp [adderConns], rfl, by simp⟩

theorem BitStep.outputs (h : AdderInv ci i c carry) (bs : BitStep i c carry c3 c4) :
    ∀ x, x ∈ c4.outputs ↔ ∃ j, j < i + 1 ∧ x = "out_" ++ toString j := by
  intro x
  have e3 : c3.outputs = c.outputs ++ ["out_" ++ toString i] := by
    unfold Circuit.outputs
    rw [bs.nodes3, List.filter_append, List.map_append]
    simp [bitNodes]
  rw [bs.facts.io.2, e3, List.mem_append, h.outputs]
  simp only [List.mem_singleton]
  constructor
  · rintro (⟨j, hj, rfl⟩ | rfl)
    · exact ⟨j, by omega, rfl⟩
    · exact ⟨i, by omega, rfl⟩
  · rintro ⟨j, hj, rfl⟩
    by_cases hji : j = i
    · subst hji; exact Or.inr rfl
    · exact Or.inl ⟨j, by omega, rfl⟩

theorem BitStep.inputs (h : AdderInv ci i c carry) (bs : BitStep i c carry c3 c4) :
    ∀ x, x ∈ c4.inputs ↔
      (∃ j, j < i + 1 ∧ (x = "a_" ++ toString j ∨ x = "b_" ++ toString j)) ∨ (ci = true ∧ x = "cin") := by
  intro x
  have e3 : c3.inputs = c.inputs ++ ["a_" ++ toString i, "b_" ++ toString i] := by
    unfold Circuit.inputs Circuit.filterType
    rw [bs.nodes3, List.filter_append, List.map_append]
    simp [bitNodes]
  rw [bs.facts.io.1, e3, List.mem_append, h.inputs]
  simp only [List.mem_cons, List.not_mem_nil, or_false]
  constructor
  · rintro ((⟨j, hj, hx⟩ | hx) | hx)
    · exact Or.inl ⟨j, by omega, hx⟩
    · exact Or.inr hx
    · exact Or.inl ⟨i, by omega, hx⟩
  · rintro (⟨j, hj, hx⟩ | hx)
    · by_cases hji : j = i
      · subst hji; exact Or.inr hx
      · exact Or.inl (Or.inl ⟨j, by omega, hx⟩)
    · exact Or.inl (Or.inr hx)

theorem BitStep.carryTy (bs : BitStep i c carry c3 c4) :
    c4.ty? (pref ("fa_" ++ toString i) "cout") = some "or" := by
  rw [bs.facts.ty_child (m := "cout") (a := { ty := some "or", out := some true }) (by decide)]
  rfl

theorem BitStep.sem (h : AdderInv ci i c carry) (bs : BitStep i c carry c3 c4) (v : Val)
    (hv : Consistent c4 v) :
    Consistent c v ∧
    b2n (v ("out_" ++ toString i)) + 2 * b2n (v (pref ("fa_" ++ toString i) "cout")) =
      b2n (v ("a_" ++ toString i)) + b2n (v ("b_" ++ toString i)) + b2n (v carry) := by
  have hwf := wf_of_inv h.inv
  obtain ⟨s1, s2, s3⟩ := bs.facts.sem bs.wf3 FA_wf v hv
  have hs1 : "s" ∉ FA.inputs := by decide
  have hx : "x" ∈ FA.inputs := by decide
  have hy : "y" ∈ FA.inputs := by decide
  have hcin : "cin" ∈ FA.inputs := by decide
  have hfresh : c.has ("out_" ++ toString i) = false := not_has_of h.names (not_AName_out i)
  constructor
  · intro p hp t ht
    have hp3 : p ∈ c3.nodes := by rw [bs.nodes3]; exact List.mem_append.2 (Or.inl hp)
    have := s3 p hp3 t ht (by
      intro q hq hqi hm
      simp only [adderConns, List.mem_cons, List.not_mem_nil, or_false] at hq
      rcases hq with rfl | rfl | rfl | rfl
      · exact hqi hx
      · exact hqi hy
      · exact hqi hcin
      · simp only [List.mem_singleton] at hm
        have : c.has p.1 = true := (has_iff_mem c p.1).2 (List.mem_map.2 ⟨p, hp, rfl⟩)
        rw [hm, hfresh] at this
        cases this)
    intro b hb
    apply this b
    have : c3.fanin p.1 = c.fanin p.1 := by unfold Circuit.fanin; rw [bs.edges3]
    rw [this]
    exact hb
  · have hFA : Consistent FA (fun n => v (pref ("fa_" ++ toString i) n)) := by
      intro p hp t ht
      by_cases hin : t = "input"
      · subst hin; intro b hb; rw [gate_input] at hb; cases hb
      · apply s1 p hp t ht hin
        intro q hq hqi hm
        simp only [adderConns, List.mem_cons, List.not_mem_nil, or_false] at hq
        rcases hq with rfl | rfl | rfl | rfl
        · exact hqi hx
        · exact hqi hy
        · exact hqi hcin
        · simp only [List.mem_singleton] at hm
          revert hm; unfold pref; name_ne
    have e := FA_sem _ hFA
    have ex := s2 ("x", ["a_" ++ toString i]) (by simp [adderConns]) hx _ (List.mem_singleton.2 rfl)
    have ey := s2 ("y", ["b_" ++ toString i]) (by simp [adderConns]) hy _ (List.mem_singleton.2 rfl)
    have ec := s2 ("cin", [carry]) (by simp [adderConns]) hcin _ (List.mem_singleton.2 rfl)
    simp only [] at ex ey ec
    have eo : v ("out_" ++ toString i) = v (pref ("fa_" ++ toString i) "s") := by
      apply buf_val hv bs.facts.edgesNodup (a := { ty := some "buf", out := some true })
      · rw [bs.facts.nodes, bs.nodes3]
        simp [bitNodes]
      · rfl
      · intro u
        rw [bs.facts.mem]
        constructor
        · rintro (h0 | h0 | ⟨q, hq, h0 | h0⟩)
          · rw [bs.edges3] at h0
            have := (hwf.closed _ h0).2
            rw [hfresh] at this; cases this
          · obtain ⟨e0, _, he0⟩ := List.mem_map.1 h0
            injection he0 with _ he0
            revert he0; unfold pref; name_ne
          · obtain ⟨_, _, h2⟩ := h0
            simp only [] at h2
            revert h2; unfold pref; name_ne
          · obtain ⟨h1, h2, _⟩ := h0
            simp only [adderConns, List.mem_cons, List.not_mem_nil, or_false] at hq
            rcases hq with rfl | rfl | rfl | rfl
            · exact absurd hx h1
            · exact absurd hy h1
            · exact absurd hcin h1
            · exact h2
        · rintro rfl
          exact Or.inr (Or.inr ⟨("s", ["out_" ++ toString i]), by simp [adderConns], Or.inr ⟨hs1, rfl, by simp⟩⟩)
    rw [eo, ← ex, ← ey, ← ec]
    exact e

end step

theorem step_arith (P O A B C o a b k k' : Nat) (ih : O + P * k = A + B + C) (e : o + 2 * k' = a + b + k) :
    O + o * P + P * 2 * k' = A + a * P + (B + b * P) + C := by
  have h2 : P * (o + 2 * k') = P * (a + b + k) := by rw [e]
  simp only [Nat.mul_add] at h2
  rw [Nat.mul_comm o P, Nat.mul_comm a P, Nat.mul_comm b P, Nat.mul_assoc P 2 k']
  omega

theorem adderBit_step {ci : Bool} {i : Nat} {c : Circuit} {carry : Name} (h : AdderInv ci i c carry) :
    ∃ c', adderBit FA (c, carry) i = .ok (c', pref ("fa_" ++ toString i) "cout") ∧
      AdderInv ci (i + 1) c' (pref ("fa_" ++ toString i) "cout") := by
  obtain ⟨c3, c4, e, bs⟩ := adderBit_struct h
  refine ⟨c4, e, ⟨bs.inv4, ?_, bs.driven h, bs.plain h, bs.names h, ⟨"or", bs.carryTy, Or.inr (Or.inr rfl)⟩,
    bs.outputs h, bs.inputs h, ?_⟩⟩
  · rw [bs.facts.bbs (by decide), bs.bbs3, h.bbs]
    rfl
  · intro v hv
    obtain ⟨hc, e⟩ := bs.sem h v hv
    have ih := h.sem v hc
    rw [bitsVal_succ, bitsVal_succ, bitsVal_succ, Nat.pow_succ]
    exact step_arith _ _ _ _ _ _ _ _ _ _ ih e

theorem adder_loop (ci : Bool) (c0 : Circuit) (h0 : AdderInv ci 0 c0 "cin") : ∀ w,
    ∃ c carry, (List.range w).foldlM (adderBit FA) (c0, "cin") = .ok (c, carry) ∧ AdderInv ci w c carry
  | 0 => ⟨c0, "cin", rfl, h0⟩
  | w + 1 => by
    obtain ⟨c, carry, e, h⟩ := adder_loop ci c0 h0 w
    obtain ⟨c', e', h'⟩ := adderBit_step h
    refine ⟨c', _, ?_, h'⟩
    rw [foldlM_range_succ, e, bind_ok, e']

/-! ### the whole adder -/

structure AdderSpec (w : Nat) (ci co : Bool) (c : Circuit) : Prop where
  lint : LintClean c
  bbs : c.bbs = []
  plain : ∀ n t, c.ty? n = some t → t ∈ genTypes
  names : ∀ x, c.has x = true → AName w x ∨ (co = true ∧ x = "cout")
  outputs : ∀ x, x ∈ c.outputs ↔ ((∃ i, i < w ∧ x = "out_" ++ toString i) ∨ (co = true ∧ x = "cout"))
  inputs : ∀ x, x ∈ c.inputs ↔
    ((∃ i, i < w ∧ (x = "a_" ++ toString i ∨ x = "b_" ++ toString i)) ∨ (ci = true ∧ x = "cin"))
  semRaw : ∀ v, Consistent c v → co = true → bitsVal v "out_" w + 2 ^ w * b2n (v "cout") =
      bitsVal v "a_" w + bitsVal v "b_" w + (if ci then b2n (v "cin") else 0)
  sem : ∀ v, Consistent c v →
      bitsVal v "out_" w = (bitsVal v "a_" w + bitsVal v "b_" w + (if ci then b2n (v "cin") else 0)) % 2 ^ w ∧
      (co = true → b2n (v "cout") =
        (bitsVal v "a_" w + bitsVal v "b_" w + (if ci then b2n (v "cin") else 0)) / 2 ^ w)

theorem final_arith (O P k T : Nat) (h : O + P * k = T) (hlt : O < P) : O = T % P ∧ k = T / P := by
  have hP : 0 < P := by omega
  subst h
  constructor
  · rw [Nat.add_comm, Nat.mul_add_mod, Nat.mod_eq_of_lt hlt]
  · rw [Nat.add_comm, Nat.mul_add_div hP, Nat.div_eq_of_lt hlt, Nat.add_zero]

theorem adder_base (ci : Bool) :
    ∃ c0, addE { name := "adder" } { n := "cin", ty := if ci then "input" else "0" } = .ok (c0, "cin") ∧
      AdderInv ci 0 c0 "cin" := by
  have hE : Inv' ({ name := "adder" } : Circuit) [] := empty_Inv "adder"
  obtain ⟨c0, _, e0, r⟩ := add_spec { name := "adder" } hE "cin" (if ci then "input" else "0") [] [] false
    rfl (nameOK_lit "cin" 'c' ['i', 'n'] rfl (by decide) "") (by cases ci <;> decide) (fun _ => rfl) (fun _ => by simp)
    (fun u hu => by cases hu) (fun u hu => by cases hu)
  have hE' : WF ({ name := "adder" } : Circuit) := wf_of_inv hE
  have hty : c0.ty? "cin" = some (if ci then "input" else "0") := ext_ty_new r.nodes rfl
  refine ⟨c0, e0, ⟨r.inv, by rw [r.bbs], ?_, ?_, ?_, ?_, ?_, ?_, ?_⟩⟩
  · apply r.driven (fun n t ht => by cases ht) hE' rfl
    intro t ht hs
    exfalso
    injection ht with ht
    subst ht
    revert hs
    cases ci <;> decide
  · intro n t ht
    rcases ext_ty_cases r.nodes rfl ht with ⟨hn, _⟩ | ⟨_, ht'⟩
    · cases hn
    · injection ht' with ht'
      subst ht'
      cases ci <;> decide
  · intro x hx
    rcases (r.has x).1 hx with h | h
    · cases h
    · exact Or.inl h
  · exact ⟨_, hty, by cases ci <;> simp⟩
  · intro x
    rw [r.outputs]
    constructor
    · intro h; simp [Circuit.outputs] at h
    · rintro ⟨j, hj, _⟩; omega
  · intro x
    rw [r.inputs]
    cases ci
    · simp [Circuit.inputs, Circuit.filterType]
    · simp [Circuit.inputs, Circuit.filterType]
  · intro v hv
    simp only [bitsVal_zero, Nat.pow_zero, Nat.one_mul, Nat.zero_add]
    cases ci
    · simp only [Bool.false_eq_true, if_false]
      have : v "cin" = false :=
        zero_val hv (a := { ty := some "0", out := some false }) (by rw [r.nodes]; simp) rfl
      rw [this]; rfl
    · simp only [if_true]

theorem adder_full (w : Nat) (ci co : Bool) : ∃ c, adder w ci co = .ok c ∧ AdderSpec w ci co c := by
  obtain ⟨c0, e0, h0⟩ := adder_base ci
  obtain ⟨c, carry, el, h⟩ := adder_loop ci c0 h0 w
  have hwf := wf_of_inv h.inv
  have hunf : adder w ci co = (if co then addC c { n := "cout", ty := "buf", fanin := [carry], output := true }
      else pure c) := by
    unfold adder
    rw [fullAdder_eq, bind_ok, e0, bind_ok]
    simp only []
    rw [el, bind_ok]
  cases co
  · refine ⟨c, by rw [hunf]; rfl, ⟨lintClean_of_WS h.inv.1 h.driven, h.bbs, h.plain, fun x hx => Or.inl (h.names x hx),
      ?_, ?_, fun v hv hco => (by cases hco), ?_⟩⟩
    · intro x; rw [h.outputs]; simp
    · intro x; rw [h.inputs]
    · intro v hv
      have := final_arith _ _ _ _ (h.sem v hv) (bitsVal_lt v "out_" w)
      exact ⟨this.1, fun hco => by cases hco⟩
  · obtain ⟨tc, htc, htc'⟩ := h.carryTy
    have hfresh : c.has "cout" = false := not_has_of h.names (not_AName_cout w)
    obtain ⟨c', e', _, r⟩ := add_spec c h.inv "cout" "buf" [carry] [] true hfresh
      (nameOK_lit "cout" 'c' ['o', 'u', 't'] rfl (by decide) "") (by decide)
      (fun h => by rcases h with h | h <;> exact absurd h (by decide)) (fun _ => by simp)
      (by
        intro u hu
        simp only [List.mem_singleton] at hu
        subst hu
        refine ⟨tc, htc, ?_, ?_⟩ <;> rcases htc' with rfl | rfl | rfl <;> decide)
      (fun u hu => by cases hu)
    have hsem : ∀ v, Consistent c' v → bitsVal v "out_" w + 2 ^ w * b2n (v "cout") =
        bitsVal v "a_" w + bitsVal v "b_" w + (if ci then b2n (v "cin") else 0) := by
      intro v hv
      have hc : Consistent c v := by
        apply consistent_sub v hwf r.wf.edgesNodup ?_ ?_ hv
        · intro p hp; rw [r.nodes]; exact List.mem_append.2 (Or.inl hp)
        · intro p hp t ht _ u
          rw [r.edges]
          simp only [List.not_mem_nil, and_false, false_or, List.mem_singleton]
          constructor
          · rintro (h1 | ⟨_, h1⟩)
            · exact h1
            · have : c.has p.1 = true := (has_iff_mem c p.1).2 (List.mem_map.2 ⟨p, hp, rfl⟩)
              rw [h1, hfresh] at this; cases this
          · exact Or.inl
      have ec : v "cout" = v carry := by
        apply buf_val hv r.wf.edgesNodup (a := { ty := some "buf", out := some true })
        · rw [r.nodes]; simp
        · rfl
        · intro u
          rw [r.edges]
          simp only [List.not_mem_nil, and_false, false_or, List.mem_singleton, and_true]
          constructor
          · rintro (h1 | h1)
            · have := (hwf.closed _ h1).2
              rw [hfresh] at this; cases this
            · exact h1
          · exact Or.inr
      rw [ec]
      exact h.sem v hc
    refine ⟨c', by rw [hunf]; exact e', ⟨lintClean_of_WS r.ws ?_, by rw [r.bbs, h.bbs], ?_, ?_, ?_, ?_,
      fun v hv _ => hsem v hv, ?_⟩⟩
    · apply r.driven h.driven hwf hfresh
      intro t _ _
      simp
    · intro n t ht
      rcases ext_ty_cases r.nodes hfresh ht with ⟨_, h1⟩ | ⟨_, h1⟩
      · exact h.plain n t h1
      · injection h1 with h1; subst h1; decide
    · intro x hx
      rcases (r.has x).1 hx with h1 | h1
      · exact Or.inl (h.names x h1)
      · exact Or.inr ⟨rfl, h1⟩
    · intro x
      rw [r.outputs, List.mem_append, h.outputs]
      simp
    · intro x
      rw [r.inputs, List.mem_append, h.inputs]
      simp
    · intro v hv
      have := final_arith _ _ _ _ (hsem v hv) (bitsVal_lt v "out_" w)
      exact ⟨this.1, fun _ => this.2⟩

end Arith
end CG
