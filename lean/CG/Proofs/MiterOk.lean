/- helper lemmas for C04 (miter): the construction succeeds when the synthesised names do not collide -/
import CG.Proofs.MiterClean
set_option linter.unusedSimpArgs false
set_option linter.unusedVariables false
namespace CG
namespace Miter
open Circuit

theorem addSub_ok_nil (P sc : Circuit) (name : Name) (hbb : sc.bbs = [])
    (hclash : ∀ n ∈ sc.nodeNames, P.has (pref name n) = false)
    (htyped : ∀ p ∈ sc.nodes, p.2.ty.isNone = false) :
    ∃ P', P.addSubcircuit sc name [] true = (P', .ok) := by
  have a1 : sc.nodeNames.any (fun n => P.has (pref name n)) = false := by
    rw [List.any_eq_false]; intro n hn; rw [hclash n hn]; simp
  have a2 : sc.nodes.any (fun p => p.2.ty.isNone) = false := by
    rw [List.any_eq_false]; intro p hp; rw [htyped p hp]; simp
  unfold addSubcircuit
  simp only [hbb, List.any_nil, a1, a2, Bool.false_eq_true, if_false, List.map_nil, connectAll, if_true,
    List.foldl_nil]
  exact ⟨_, rfl⟩

theorem connect_of_check (c : Circuit) (us vs : List Name)
    (h : us ≠ [] → vs ≠ [] → c.connectCheck us vs = none) : c.connect us vs = (c.addEdges us vs, .ok) := by
  unfold connect
  by_cases he : (us.isEmpty || vs.isEmpty) = true
  · rw [if_pos he]
    rw [Bool.or_eq_true, List.isEmpty_iff, List.isEmpty_iff] at he
    rcases he with he | he
    · subst he; rfl
    · subst he; rw [addEdges_nil_right]
  · rw [if_neg he]
    have h1 : us ≠ [] := fun e => he (by simp [e])
    have h2 : vs ≠ [] := fun e => he (by simp [e])
    rw [h h1 h2]

theorem addC_ok_of (c : Circuit) (a : AddArgs) (hp : Plain a) (hfresh : c.has a.n = false)
    (hsup : T.supported.contains a.ty = true)
    (h0 : ¬ (1 < a.fanin.length ∧ a.ty ∈ T.addL 0)) (h1 : ¬ (¬ a.fanin = [] ∧ a.ty ∈ T.addL 1))
    (hname : Limit.NameOK a.n)
    (hk1 : a.fanout ≠ [] → (c.addNodeAttr a.n (newAttr a)).connectCheck [a.n] a.fanout = none)
    (hk2 : a.fanin ≠ [] →
      ((c.addNodeAttr a.n (newAttr a)).addEdges [a.n] a.fanout).connectCheck a.fanin [a.n] = none) :
    ∃ c', Tx.addC c a = .ok c' := by
  have e1 := connect_of_check (c.addNodeAttr a.n (newAttr a)) [a.n] a.fanout (fun _ h => hk1 h)
  have e2 := connect_of_check ((c.addNodeAttr a.n (newAttr a)).addEdges [a.n] a.fanout) a.fanin [a.n]
    (fun h _ => hk2 h)
  have hadd : c.add a = (((c.addNodeAttr a.n (newAttr a)).addEdges [a.n] a.fanout).addEdges a.fanin [a.n], .ok, a.n) := by
    unfold Circuit.add
    simp only [hp.uid, Bool.false_eq_true, if_false]
    unfold newAttr at e1 e2 ⊢
    have hsup' : a.ty ∈ T.supported := List.contains_iff_mem.1 hsup
    simp [hfresh, hsup', h0, h1, hname.1, hname.2, hp.conn, e1, e2]
  refine ⟨((c.addNodeAttr a.n (newAttr a)).addEdges [a.n] a.fanout).addEdges a.fanin [a.n], ?_⟩
  unfold Tx.addC addE
  rw [hadd]
  rfl


/-! ### partially built miters -/

/-- the miter after tying `sp`, adding `satL` (nothing or the `sat` node) and the comparators of `ep` -/
structure PView (c0 c1 : Circuit) (sp : List Name) (satL : List (Name × Attr)) (ep : List Name) (mm : Circuit) :
    Prop where
  nodes : mm.nodes = nodesOf c0 "c0" ++ nodesOf c1 "c1" ++ tieNodes sp ++ satL ++ difNodes ep
  edges : EdgesAre c0 c1 sp ep mm
  wf : WF mm

section pview
variable {c0 c1 mm : Circuit} {sp ep : List Name} {satL : List (Name × Attr)}

theorem PView.has_iff (V : PView c0 c1 sp satL ep mm) (x : Name) :
    mm.has x = true ↔ (∃ n, c0.has n = true ∧ x = pref "c0" n) ∨ (∃ n, c1.has n = true ∧ x = pref "c1" n) ∨
      x ∈ sp ∨ x ∈ satL.map (·.1) ∨ ∃ e ∈ ep, x = dif e := by
  rw [has_iff_mem]
  unfold Circuit.nodeNames
  rw [V.nodes]
  simp only [List.map_append, List.mem_append, nodesOf, tieNodes, difNodes, List.map_map, List.mem_map,
    Function.comp_def]
  constructor
  · rintro ((((⟨q, hq, rfl⟩ | ⟨q, hq, rfl⟩) | ⟨s, hs, rfl⟩) | h) | ⟨e, he, rfl⟩)
    · exact Or.inl ⟨q.1, has_of_mem hq, rfl⟩
    · exact Or.inr (Or.inl ⟨q.1, has_of_mem hq, rfl⟩)
    · exact Or.inr (Or.inr (Or.inl hs))
    · exact Or.inr (Or.inr (Or.inr (Or.inl h)))
    · exact Or.inr (Or.inr (Or.inr (Or.inr ⟨e, he, rfl⟩)))
  · rintro (⟨n, hn, rfl⟩ | ⟨n, hn, rfl⟩ | hs | h | ⟨e, he, rfl⟩)
    · obtain ⟨a, ha⟩ := has_exists hn
      exact Or.inl (Or.inl (Or.inl (Or.inl ⟨(n, a), ha, rfl⟩)))
    · obtain ⟨a, ha⟩ := has_exists hn
      exact Or.inl (Or.inl (Or.inl (Or.inr ⟨(n, a), ha, rfl⟩)))
    · exact Or.inl (Or.inl (Or.inr ⟨x, hs, rfl⟩))
    · exact Or.inl (Or.inr h)
    · exact Or.inr ⟨e, he, rfl⟩

theorem PView.ty_c0 (V : PView c0 c1 sp satL ep mm) {n : Name} {a : Attr} (h : (n, a) ∈ c0.nodes) :
    mm.ty? (pref "c0" n) = (stripA a).ty := by
  have hm : (pref "c0" n, stripA a) ∈ mm.nodes := by
    rw [V.nodes]
    simp only [List.mem_append]
    exact Or.inl (Or.inl (Or.inl (Or.inl (List.mem_map.2 ⟨(n, a), h, rfl⟩))))
  rw [ty?, attr?_of_mem V.wf.nodup hm]
  rfl

theorem PView.ty_c1 (V : PView c0 c1 sp satL ep mm) {n : Name} {a : Attr} (h : (n, a) ∈ c1.nodes) :
    mm.ty? (pref "c1" n) = (stripA a).ty := by
  have hm : (pref "c1" n, stripA a) ∈ mm.nodes := by
    rw [V.nodes]
    simp only [List.mem_append]
    exact Or.inl (Or.inl (Or.inl (Or.inr (List.mem_map.2 ⟨(n, a), h, rfl⟩))))
  rw [ty?, attr?_of_mem V.wf.nodup hm]
  rfl

theorem PView.ty_sat {ep' : List Name} (V : PView c0 c1 sp [satNode ep'] ep mm) :
    mm.ty? "sat" = some (satTy ep') := by
  have hm : satNode ep' ∈ mm.nodes := by
    rw [V.nodes]
    simp only [List.mem_append]
    exact Or.inl (Or.inr (by simp))
  exact ty?_of_mem V.wf.nodup hm rfl

end pview

/-! ### the hypotheses of `miter_ok` -/

structure OkHyps (c0 c1 : Circuit) (sp ep : List Name) : Prop where
  clean0 : LintClean c0
  clean1 : LintClean c1
  spNodup : sp.Nodup
  epNodup : ep.Nodup
  sp0 : ∀ s ∈ sp, s ∈ c0.inputs ∧ s ∈ c1.inputs
  ep0 : ∀ e ∈ ep, c0.has e = true ∧ c1.has e = true
  names : ∀ s ∈ sp, Limit.NameOK s
  clash : ∀ s ∈ sp, s ≠ "sat" ∧ (∀ n, s ≠ pref "c0" n) ∧ (∀ n, s ≠ pref "c1" n) ∧ (∀ n, s ≠ dif n)
  epTy : ∀ e ∈ ep, ∀ t, (c0.ty? e = some t ∨ c1.ty? e = some t) → t ≠ "bb_input" ∧ t ≠ "bb_output"

/-! ### connect preconditions -/

theorem hV_buf (c : Circuit) (v : Name) (us : List Name) (hty : c.ty? v = some "buf") (hf : c.fanin v = [])
    (hus : us.length = 1) :
    ∃ t, c.ty? v = some t ∧ (T.connectL 0).contains t = false ∧
      ((T.connectL 1).contains t = true → (c.fanin v).length + us.length ≤ 1) :=
  ⟨"buf", hty, Limit.buf_facts.2.2.1, fun _ => by rw [hf, hus]; simp⟩

theorem fanin_congr {c c' : Circuit} (h : c'.edges = c.edges) (x : Name) : c'.fanin x = c.fanin x := by
  unfold Circuit.fanin; rw [h]

theorem tie_fanout (s : Name) : (tieArgs s).fanout = [pref "c0" s, pref "c1" s] := by
  rw [pref_c0, pref_c1]; rfl

theorem dif_fanin (e : Name) : (difArgs e).fanin = [pref "c0" e, pref "c1" e] := by
  rw [pref_c0, pref_c1]; rfl

theorem nameOK_dif (e : Name) : Limit.NameOK (dif e) := by
  rw [Limit.nameOK_iff]
  exact ⟨'d', "if_".toList ++ e.toList, by unfold dif; rw [String.toList_append]; rfl, by decide⟩

theorem nameOK_sat : Limit.NameOK "sat" := by
  rw [Limit.nameOK_iff]
  exact ⟨'s', "at".toList, rfl, by decide⟩

/-! ### tying one startpoint -/

theorem tie_step {c0 c1 mm : Circuit} {l1 : List Name} {s : Name} (h0 : LintClean c0) (h1 : LintClean c1)
    (V : PView c0 c1 l1 [] [] mm) (hl1 : l1.Nodup) (hs : s ∉ l1) (hi0 : s ∈ c0.inputs) (hi1 : s ∈ c1.inputs)
    (hname : Limit.NameOK s)
    (hcl : s ≠ "sat" ∧ (∀ n, s ≠ pref "c0" n) ∧ (∀ n, s ≠ pref "c1" n) ∧ (∀ n, s ≠ dif n)) :
    ∃ c', Tx.addC mm (tieArgs s) = .ok c' ∧ PView c0 c1 (l1 ++ [s]) [] [] c' := by
  have hfresh : mm.has s = false := by
    cases hh : mm.has s with
    | false => rfl
    | true =>
      rcases (V.has_iff s).1 hh with ⟨n, _, e⟩ | ⟨n, _, e⟩ | h | h | ⟨e, he, _⟩
      · exact absurd e (hcl.2.1 n)
      · exact absurd e (hcl.2.2.1 n)
      · exact absurd h hs
      · cases h
      · cases he
  obtain ⟨a0, ha0⟩ := has_exists (mem_inputs_has hi0)
  obtain ⟨a1, ha1⟩ := has_exists (mem_inputs_has hi1)
  have ht0 : a0.ty = some "input" := (mem_inputs_of_mem h0.nodup ha0).1 hi0
  have ht1 : a1.ty = some "input" := (mem_inputs_of_mem h1.nodup ha1).1 hi1
  have hn : (mm.addNodeAttr s (newAttr (tieArgs s))).nodes = mm.nodes ++ [(s, newAttr (tieArgs s))] := by
    rw [Limit.addNodeAttr_fresh mm s _ hfresh]
  have hed : (mm.addNodeAttr s (newAttr (tieArgs s))).edges = mm.edges := addNodeAttr_edges _ _ _
  have hhas0 : mm.has (pref "c0" s) = true := (V.has_iff _).2 (Or.inl ⟨s, mem_inputs_has hi0, rfl⟩)
  have hhas1 : mm.has (pref "c1" s) = true := (V.has_iff _).2 (Or.inr (Or.inl ⟨s, mem_inputs_has hi1, rfl⟩))
  have hk1 : (tieArgs s).fanout ≠ [] →
      (mm.addNodeAttr s (newAttr (tieArgs s))).connectCheck [(tieArgs s).n] (tieArgs s).fanout = none := by
    intro _
    rw [tie_fanout]
    apply Limit.connectCheck_none
    · intro u hu
      simp only [List.mem_singleton] at hu
      subst hu
      exact (Limit.ext_has hn _).2 (Or.inr rfl)
    · intro v hv
      simp only [List.mem_cons, List.not_mem_nil, or_false] at hv
      rcases hv with rfl | rfl
      · exact (Limit.ext_has hn _).2 (Or.inl hhas0)
      · exact (Limit.ext_has hn _).2 (Or.inl hhas1)
    · intro v hv
      simp only [List.mem_cons, List.not_mem_nil, or_false] at hv
      rcases hv with rfl | rfl
      · apply hV_buf _ _ _ _ _ rfl
        · rw [Limit.ext_ty_old hn hhas0, V.ty_c0 ha0, stripA_input ht0]
        · rw [fanin_congr hed, V.edges.fanin_c0 hl1, if_neg hs, noFanin_inputs h0 s hi0]; rfl
      · apply hV_buf _ _ _ _ _ rfl
        · rw [Limit.ext_ty_old hn hhas1, V.ty_c1 ha1, stripA_input ht1]
        · rw [fanin_congr hed, V.edges.fanin_c1 hl1, if_neg hs, noFanin_inputs h1 s hi1]; rfl
    · intro u hu
      simp only [List.mem_singleton] at hu
      subst hu
      refine ⟨"input", Limit.ext_ty_new hn hfresh, ?_, ?_⟩
      · rw [Limit.T_connectL2]; decide
      · rw [Limit.T_connectL3]; decide
  obtain ⟨c', hc'⟩ := addC_ok_of mm (tieArgs s) (plain_tie s) hfresh
    (show T.supported.contains "input" = true by rw [Limit.T_supported]; decide)
    (fun h => absurd h.1 (by simp [tieArgs])) (fun h => h.1 rfl)
    hname hk1 (fun h => absurd rfl h)
  refine ⟨c', hc', ?_⟩
  have A := addOK_of V.wf (plain_tie s) hc'
  refine ⟨?_, ?_, A.wf⟩
  · rw [A.nodes, V.nodes]
    simp [tieNodes, difNodes, newAttr, tieArgs]
  · unfold EdgesAre
    rw [A.edges, V.edges, newEdges_tie]
    simp [tieEdges, difEdges, List.flatMap_append]

theorem tie_loop {c0 c1 : Circuit} (h0 : LintClean c0) (h1 : LintClean c1) :
    ∀ (l2 l1 : List Name) (mm : Circuit), PView c0 c1 l1 [] [] mm → (l1 ++ l2).Nodup →
      (∀ s ∈ l2, s ∈ c0.inputs ∧ s ∈ c1.inputs) → (∀ s ∈ l2, Limit.NameOK s) →
      (∀ s ∈ l2, s ≠ "sat" ∧ (∀ n, s ≠ pref "c0" n) ∧ (∀ n, s ≠ pref "c1" n) ∧ (∀ n, s ≠ dif n)) →
      ∃ m3, Tx.miterTie mm l2 = .ok m3 ∧ PView c0 c1 (l1 ++ l2) [] [] m3
  | [], l1, mm, V, _, _, _, _ => ⟨mm, rfl, by rw [List.append_nil]; exact V⟩
  | s :: l2, l1, mm, V, hnd, hi, hn, hc => by
    have hnd' : l1.Nodup ∧ s ∉ l1 := by
      rw [List.nodup_append] at hnd
      refine ⟨hnd.1, fun hs => hnd.2.2 s hs s (by simp) rfl⟩
    obtain ⟨c', hc', V'⟩ := tie_step h0 h1 V hnd'.1 hnd'.2 (hi s (by simp)).1 (hi s (by simp)).2
      (hn s (by simp)) (hc s (by simp))
    obtain ⟨m3, hm3, V3⟩ := tie_loop h0 h1 l2 (l1 ++ [s]) c' V' (by simpa using hnd)
      (fun x hx => hi x (by simp [hx])) (fun x hx => hn x (by simp [hx])) (fun x hx => hc x (by simp [hx]))
    refine ⟨m3, ?_, by simpa using V3⟩
    unfold Tx.miterTie
    rw [List.foldlM_cons]
    show (Tx.addC mm (tieArgs s) >>= fun m' => Tx.miterTie m' l2) = _
    rw [hc']
    exact hm3


/-! ### the `sat` node -/

theorem satTy_supported (ep : List Name) : T.supported.contains (satTy ep) = true := by
  rw [Limit.T_supported]
  rcases satTy_cases ep with h | h | h <;> rw [h] <;> decide

theorem sat_step {c0 c1 m3 : Circuit} {sp : List Name} (ep : List Name) (V : PView c0 c1 sp [] [] m3)
    (hcl : ∀ s ∈ sp, s ≠ "sat") :
    ∃ m4, Tx.addC m3 (satArgs ep) = .ok m4 ∧ PView c0 c1 sp [satNode ep] [] m4 := by
  have hfresh : m3.has "sat" = false := by
    cases hh : m3.has "sat" with
    | false => rfl
    | true =>
      rcases (V.has_iff "sat").1 hh with ⟨n, _, e⟩ | ⟨n, _, e⟩ | h | h | ⟨e, he, _⟩
      · exact absurd e.symm (c0_ne_sat n)
      · exact absurd e.symm (c1_ne_sat n)
      · exact absurd rfl (hcl _ h)
      · cases h
      · cases he
  obtain ⟨m4, h4⟩ := addC_ok_of m3 (satArgs ep) (plain_sat ep) hfresh (satTy_supported ep)
    (fun h => absurd h.1 (by simp [satArgs])) (fun h => h.1 rfl) nameOK_sat (fun h => absurd rfl h)
    (fun h => absurd rfl h)
  refine ⟨m4, h4, ?_⟩
  have A := addOK_of V.wf (plain_sat ep) h4
  refine ⟨?_, ?_, A.wf⟩
  · rw [A.nodes, V.nodes]
    simp [difNodes, satNode, newAttr, satArgs]
  · unfold EdgesAre
    rw [A.edges, V.edges, newEdges_sat]
    simp

/-! ### one comparator -/

theorem hU_copy {c : Circuit} (hc : LintClean c) {e : Name} {a : Attr} (h : (e, a) ∈ c.nodes)
    (hty : ∀ t, c.ty? e = some t → t ≠ "bb_input" ∧ t ≠ "bb_output") :
    ∃ t, (stripA a).ty = some t ∧ (T.connectL 2).contains t = false ∧ (T.connectL 3).contains t = false := by
  obtain ⟨t, ht, _⟩ := hc.typed (e, a) h
  rw [Limit.T_connectL2, Limit.T_connectL3]
  by_cases hi : t = "input"
  · subst hi
    exact ⟨"buf", stripA_input ht, by decide, by decide⟩
  · obtain ⟨k1, k2⟩ := hty t (ty?_of_mem hc.nodup h ht)
    refine ⟨t, stripA_ty_of_ne ht hi, ?_, ?_⟩
    · simp [k1]
    · simp [k2]

theorem dif_step {c0 c1 mm : Circuit} {sp ep k1 : List Name} {e : Name} (h0 : LintClean c0) (h1 : LintClean c1)
    (V : PView c0 c1 sp [satNode ep] k1 mm) (hk1 : k1.Nodup) (he : e ∉ k1)
    (hh0 : c0.has e = true) (hh1 : c1.has e = true) (hcl : ∀ s ∈ sp, s ≠ dif e)
    (hty : ∀ t, (c0.ty? e = some t ∨ c1.ty? e = some t) → t ≠ "bb_input" ∧ t ≠ "bb_output")
    (hbuf : satTy ep = "buf" → k1 = []) (hepne : ep ≠ []) :
    ∃ c', Tx.addC mm (difArgs e) = .ok c' ∧ PView c0 c1 sp [satNode ep] (k1 ++ [e]) c' := by
  have hfresh : mm.has (dif e) = false := by
    cases hh : mm.has (dif e) with
    | false => rfl
    | true =>
      rcases (V.has_iff (dif e)).1 hh with ⟨n, _, e'⟩ | ⟨n, _, e'⟩ | h | h | ⟨k, hk, e'⟩
      · exact absurd e'.symm (c0_ne_dif n e)
      · exact absurd e'.symm (c1_ne_dif n e)
      · exact absurd rfl (hcl _ h)
      · simp only [satNode, List.map_cons, List.map_nil, List.mem_singleton] at h
        exact absurd h (dif_ne_sat e)
      · exact absurd (dif_inj e' ▸ hk) he
  obtain ⟨a0, ha0⟩ := has_exists hh0
  obtain ⟨a1, ha1⟩ := has_exists hh1
  have hn : (mm.addNodeAttr (dif e) (newAttr (difArgs e))).nodes = mm.nodes ++ [(dif e, newAttr (difArgs e))] := by
    rw [Limit.addNodeAttr_fresh mm (dif e) _ hfresh]
  have hed : (mm.addNodeAttr (dif e) (newAttr (difArgs e))).edges = mm.edges := addNodeAttr_edges _ _ _
  have hhas0 : mm.has (pref "c0" e) = true := (V.has_iff _).2 (Or.inl ⟨e, hh0, rfl⟩)
  have hhas1 : mm.has (pref "c1" e) = true := (V.has_iff _).2 (Or.inr (Or.inl ⟨e, hh1, rfl⟩))
  have hhasS : mm.has "sat" = true := (V.has_iff _).2 (Or.inr (Or.inr (Or.inr (Or.inl (by simp [satNode])))))
  have hc1 : (difArgs e).fanout ≠ [] →
      (mm.addNodeAttr (dif e) (newAttr (difArgs e))).connectCheck [(difArgs e).n] (difArgs e).fanout = none := by
    intro _
    show (mm.addNodeAttr (dif e) (newAttr (difArgs e))).connectCheck [dif e] ["sat"] = none
    apply Limit.connectCheck_none
    · intro u hu
      simp only [List.mem_singleton] at hu
      subst hu
      exact (Limit.ext_has hn _).2 (Or.inr rfl)
    · intro v hv
      simp only [List.mem_singleton] at hv
      subst hv
      exact (Limit.ext_has hn _).2 (Or.inl hhasS)
    · intro v hv
      simp only [List.mem_singleton] at hv
      subst hv
      refine ⟨satTy ep, by rw [Limit.ext_ty_old hn hhasS, V.ty_sat], ?_, ?_⟩
      · rw [Limit.T_connectL0]
        rcases satTy_cases_ne ep hepne with h | h <;> rw [h] <;> decide
      · rw [Limit.T_connectL1]
        rcases satTy_cases_ne ep hepne with h | h
        · rw [h]; intro hc; exact absurd hc (by decide)
        · intro _
          rw [fanin_congr hed, V.edges.fanin_sat, hbuf h]
          simp
    · intro u hu
      simp only [List.mem_singleton] at hu
      subst hu
      refine ⟨"xor", Limit.ext_ty_new hn hfresh, ?_, ?_⟩
      · rw [Limit.T_connectL2]; decide
      · rw [Limit.T_connectL3]; decide
  have hn2 : ((mm.addNodeAttr (dif e) (newAttr (difArgs e))).addEdges [(difArgs e).n] (difArgs e).fanout).nodes =
      mm.nodes ++ [(dif e, newAttr (difArgs e))] := by
    rw [addEdges_nodes, hn]
  have hc2 : (difArgs e).fanin ≠ [] →
      ((mm.addNodeAttr (dif e) (newAttr (difArgs e))).addEdges [(difArgs e).n] (difArgs e).fanout).connectCheck
        (difArgs e).fanin [(difArgs e).n] = none := by
    intro _
    rw [dif_fanin]
    show Circuit.connectCheck _ [pref "c0" e, pref "c1" e] [dif e] = none
    apply Limit.connectCheck_none
    · intro u hu
      simp only [List.mem_cons, List.not_mem_nil, or_false] at hu
      rcases hu with rfl | rfl
      · exact (Limit.ext_has hn2 _).2 (Or.inl hhas0)
      · exact (Limit.ext_has hn2 _).2 (Or.inl hhas1)
    · intro v hv
      simp only [List.mem_singleton] at hv
      subst hv
      exact (Limit.ext_has hn2 _).2 (Or.inr rfl)
    · intro v hv
      simp only [List.mem_singleton] at hv
      subst hv
      refine ⟨"xor", Limit.ext_ty_new hn2 hfresh, ?_, ?_⟩
      · rw [Limit.T_connectL0]; decide
      · rw [Limit.T_connectL1]; intro hc; exact absurd hc (by decide)
    · intro u hu
      simp only [List.mem_cons, List.not_mem_nil, or_false] at hu
      rcases hu with rfl | rfl
      · obtain ⟨t, k1, k2, k3⟩ := hU_copy h0 ha0 (fun t ht => hty t (Or.inl ht))
        exact ⟨t, by rw [Limit.ext_ty_old hn2 hhas0, V.ty_c0 ha0, k1], k2, k3⟩
      · obtain ⟨t, k1, k2, k3⟩ := hU_copy h1 ha1 (fun t ht => hty t (Or.inr ht))
        exact ⟨t, by rw [Limit.ext_ty_old hn2 hhas1, V.ty_c1 ha1, k1], k2, k3⟩
  obtain ⟨c', hc'⟩ := addC_ok_of mm (difArgs e) (plain_dif e) hfresh
    (show T.supported.contains "xor" = true by rw [Limit.T_supported]; decide)
    (fun h => absurd h.2 (show "xor" ∉ T.addL 0 by rw [Limit.T_addL0]; decide))
    (fun h => absurd h.2 (show "xor" ∉ T.addL 1 by rw [Limit.T_addL1]; decide))
    (nameOK_dif e) hc1 hc2
  refine ⟨c', hc', ?_⟩
  have A := addOK_of V.wf (plain_dif e) hc'
  refine ⟨?_, ?_, A.wf⟩
  · rw [A.nodes, V.nodes]
    simp [difNodes, newAttr, difArgs, dif]
  · unfold EdgesAre
    rw [A.edges, V.edges, newEdges_dif]
    simp [difEdges, List.flatMap_append]

theorem cmp_loop {c0 c1 : Circuit} {sp ep : List Name} (h0 : LintClean c0) (h1 : LintClean c1) :
    ∀ (l2 k1 : List Name) (mm : Circuit), PView c0 c1 sp [satNode ep] k1 mm → k1 ++ l2 = ep → (k1 ++ l2).Nodup →
      (∀ e ∈ l2, c0.has e = true ∧ c1.has e = true) → (∀ e ∈ l2, ∀ s ∈ sp, s ≠ dif e) →
      (∀ e ∈ l2, ∀ t, (c0.ty? e = some t ∨ c1.ty? e = some t) → t ≠ "bb_input" ∧ t ≠ "bb_output") →
      ∃ m, Tx.miterCompare mm l2 = .ok m
  | [], k1, mm, V, _, _, _, _, _ => ⟨mm, rfl⟩
  | e :: l2, k1, mm, V, hep, hnd, hh, hc, ht => by
    have hnd' : k1.Nodup ∧ e ∉ k1 := by
      rw [List.nodup_append] at hnd
      refine ⟨hnd.1, fun hs => hnd.2.2 e hs e (by simp) rfl⟩
    have hepne : ep ≠ [] := by rw [← hep]; simp
    have hie : ¬ (ep.isEmpty = true) := by rw [List.isEmpty_iff]; exact hepne
    have hbuf : satTy ep = "buf" → k1 = [] := by
      intro hb
      unfold satTy at hb
      rw [if_neg hie] at hb
      by_cases hl : ep.length > 1
      · rw [if_pos hl] at hb; exact absurd hb (by decide)
      · rw [← hep] at hl
        simp only [List.length_append, List.length_cons] at hl
        exact List.eq_nil_of_length_eq_zero (by omega)
    obtain ⟨c', hc', V'⟩ := dif_step h0 h1 V hnd'.1 hnd'.2 (hh e (by simp)).1 (hh e (by simp)).2
      (hc e (by simp)) (ht e (by simp)) hbuf hepne
    obtain ⟨m, hm⟩ := cmp_loop h0 h1 l2 (k1 ++ [e]) c' V' (by simpa using hep) (by simpa using hnd)
      (fun x hx => hh x (by simp [hx])) (fun x hx => hc x (by simp [hx])) (fun x hx => ht x (by simp [hx]))
    refine ⟨m, ?_⟩
    unfold Tx.miterCompare
    rw [List.foldlM_cons]
    show (Tx.addC mm (difArgs e) >>= fun m' => Tx.miterCompare m' l2) = _
    rw [hc']
    exact hm

/-! ### the whole construction -/

theorem ok_bind {α β : Type} (a : α) (f : α → E β) : ((Except.ok a : E α) >>= f) = f a := rfl

theorem miter_ok_pref {c0 c1 : Circuit} {sp ep : List Name} (ord : Ord) (H : OkHyps c0 c1 sp ep)
    (hb0 : c0.bbs = []) (hb1 : c1.bbs = []) (hne : c1.nodes ≠ []) :
    ∃ m, Tx.miter c0 (some c1) (some sp) (some ep) ord = .ok m := by
  obtain ⟨m1, s1⟩ := addSub_ok_nil (m0 c0 c1) c0 "c0" hb0 (fun n _ => rfl) (typed_isNone H.clean0)
  obtain ⟨n1, e1, _, w1⟩ := sub_exact (wf_m0 c0 c1) H.clean0.toWF s1
  have hcl1 : ∀ n ∈ c1.nodeNames, m1.has (pref "c1" n) = false := by
    intro n _
    cases hh : m1.has (pref "c1" n) with
    | false => rfl
    | true =>
      rw [has_iff_mem] at hh
      unfold Circuit.nodeNames at hh
      rw [n1] at hh
      simp only [m0, List.nil_append, nodesOf, List.map_map, List.mem_map, Function.comp_def] at hh
      obtain ⟨q, _, e⟩ := hh
      exact absurd e (c0_ne_c1 q.1 n)
  obtain ⟨m2, s2⟩ := addSub_ok_nil m1 c1 "c1" hb1 hcl1 (typed_isNone H.clean1)
  obtain ⟨n2, e2, _, w2⟩ := sub_exact w1 H.clean1.toWF s2
  have V2 : PView c0 c1 [] [] [] m2 := by
    refine ⟨?_, ?_, w2⟩
    · rw [n2, n1]; simp [m0, tieNodes, difNodes]
    · unfold EdgesAre; rw [e2, e1]; simp [m0, tieEdges, difEdges]
  obtain ⟨m3, s3, V3⟩ := tie_loop H.clean0 H.clean1 sp [] m2 V2 (by simpa using H.spNodup) H.sp0 H.names H.clash
  rw [List.nil_append] at V3
  obtain ⟨m4, s4, V4⟩ := sat_step ep V3 (fun s hs => (H.clash s hs).1)
  obtain ⟨m, s5⟩ := cmp_loop H.clean0 H.clean1 ep [] m4 V4 rfl (by simpa using H.epNodup) H.ep0
    (fun e _ s hs => (H.clash s hs).2.2.2 e) H.epTy
  refine ⟨m, ?_⟩
  rw [miter_eq c0 c1 sp ep ord hb0 hb1 hne (typed_isNone H.clean0) (typed_isNone H.clean1), s1,
    liftO_of, ok_bind, s2, liftO_of, ok_bind, s3, ok_bind, s4, ok_bind, s5]

end Miter
end CG
