/- C15 (character level) helper: where the gate/DFF patterns can match inside a line -/
import CG.Proofs.BenchTextList
set_option linter.unusedSimpArgs false
set_option linter.unusedVariables false
namespace CG
namespace BenchText
open Regex

def KwsOK (kws : List (List Char)) : Prop := kws ≠ [] ∧ ∀ kw ∈ kws, AllLetter kw ∧ kw ≠ []

section
variable (ctx : Ctx) {kws : List (List Char)}

theorem gate_nil (hk : KwsOK kws) {s' : List Char} {c' : Caps} : ¬ Den ctx (rxGate kws) [] [] s' c' := by
  rw [den_rxGate ctx kws hk.1]
  rintro ⟨x, idr, w1, w2, kw, w3, y, ops, _, _, _, _, _, _, _, _, e, _⟩
  cases e

theorem gate_first (hk : KwsOK kws) {c : Char} (hc : idS.mem c = false) {r s' : List Char} {c' : Caps} :
    ¬ Den ctx (rxGate kws) (c :: r) [] s' c' := by
  rw [den_rxGate ctx kws hk.1]
  rintro ⟨x, idr, w1, w2, kw, w3, y, ops, _, _, _, _, hx, _, _, _, e, _⟩
  simp only [List.cons.injEq] at e
  rw [← e.1, hc] at hx
  cases hx

/-- after the `=` of a line (or in a line without `=`) the pattern cannot match -/
theorem gate_fail_tail (hk : KwsOK kws) {B rest s' : List Char} {c' : Caps} (hB : '=' ∉ B) :
    ¬ Den ctx (rxGate kws) (B ++ ')' :: rest) [] s' c' := by
  rw [den_rxGate ctx kws hk.1]
  rintro ⟨x, idr, w1, w2, kw, w3, y, ops, _, hw1, _, _, hx, hidr, _, _, e, _⟩
  have e' : B ++ ')' :: rest = (x :: (idr ++ w1)) ++ '=' :: (w2 ++ (kw ++ (w3 ++ '(' :: y :: (ops ++ ')' :: s')))) := by
    rw [e]; simp only [List.cons_append, List.append_assoc]
  have hno : ')' ∉ x :: (idr ++ w1) := by
    intro hm
    simp only [List.mem_cons, List.mem_append] at hm
    rcases hm with hm | hm | hm
    · rw [← hm] at hx; exact absurd hx (by decide)
    · exact (idC_ne (hidr _ hm)).2.1 rfl
    · exact (ws_ne (hw1 _ hm)).2.1 rfl
  obtain ⟨_, e1, _⟩ := split_first e' hno hB
  exact absurd e1 (by decide)

/-- a match that starts inside the name of a line `n = K'(A)` is the rest of the line, with all parts aligned -/
theorem gate_align (hk : KwsOK kws) {n K' A rest s' : List Char} {c' : Caps} (hn : AllIdC n) (hK' : AllLetter K')
    (hK'0 : K' ≠ []) (hA : AllArg A)
    (h : Den ctx (rxGate kws) (n ++ ' ' :: '=' :: ' ' :: (K' ++ '(' :: (A ++ ')' :: rest))) [] s' c') :
    K' ∈ kws ∧ s' = rest ∧ A ≠ [] ∧
      c' = [(3, ctx.s.size - (A ++ ')' :: rest).length, ctx.s.size - (')' :: rest).length),
            (2, ctx.s.size - (K' ++ '(' :: (A ++ ')' :: rest)).length, ctx.s.size - ('(' :: (A ++ ')' :: rest)).length),
            (1, ctx.s.size - (n ++ ' ' :: '=' :: ' ' :: (K' ++ '(' :: (A ++ ')' :: rest))).length,
                ctx.s.size - (' ' :: '=' :: ' ' :: (K' ++ '(' :: (A ++ ')' :: rest))).length)] := by
  rw [den_rxGate ctx kws hk.1] at h
  obtain ⟨x, idr, w1, w2, kw, w3, y, ops, hkw, hw1, hw2, hw3, hx, hidr, hy, hops, e, hc⟩ := h
  have hkl := hk.2 kw hkw
  -- align at `=`
  have e' : (n ++ [' ']) ++ '=' :: (' ' :: (K' ++ '(' :: (A ++ ')' :: rest))) =
      (x :: (idr ++ w1)) ++ '=' :: (w2 ++ (kw ++ (w3 ++ '(' :: y :: (ops ++ ')' :: s')))) := by
    simpa only [List.cons_append, List.append_assoc, List.nil_append] using e
  have hno1 : '=' ∉ x :: (idr ++ w1) := by
    intro hm
    simp only [List.mem_cons, List.mem_append] at hm
    rcases hm with hm | hm | hm
    · rw [← hm] at hx; exact absurd hx (by decide)
    · exact (idC_ne (hidr _ hm)).2.2.1 rfl
    · exact (ws_ne (hw1 _ hm)).2.2 rfl
  have hno2 : '=' ∉ n ++ [' '] := by
    intro hm
    simp only [List.mem_append, List.mem_singleton] at hm
    rcases hm with hm | hm
    · exact (idC_ne (hn _ hm)).2.2.1 rfl
    · exact absurd hm (by decide)
  obtain ⟨E1, _, E2⟩ := split_first e' hno1 hno2
  -- align at `(`
  have E2' : (' ' :: K') ++ '(' :: (A ++ ')' :: rest) = (w2 ++ (kw ++ w3)) ++ '(' :: (y :: (ops ++ ')' :: s')) := by
    rw [List.cons_append, E2]; simp only [List.append_assoc]
  have hno3 : '(' ∉ w2 ++ (kw ++ w3) := by
    intro hm
    simp only [List.mem_append] at hm
    rcases hm with hm | hm | hm
    · exact (ws_ne (hw2 _ hm)).1 rfl
    · exact absurd (hkl.1 _ hm) (by decide)
    · exact (ws_ne (hw3 _ hm)).1 rfl
  have hno4 : '(' ∉ ' ' :: K' := by
    intro hm
    rcases List.mem_cons.mp hm with hm | hm
    · exact absurd hm (by decide)
    · exact absurd (hK' _ hm) (by decide)
  obtain ⟨E3, _, E4⟩ := split_first E2' hno3 hno4
  -- align at `)`
  have E4' : A ++ ')' :: rest = (y :: ops) ++ ')' :: s' := by rw [E4]; rfl
  have hno5 : ')' ∉ y :: ops := by
    intro hm
    rcases List.mem_cons.mp hm with hm | hm
    · exact ne_of_nrp hy hm.symm
    · exact ne_of_nrp (hops _ hm) rfl
  obtain ⟨E5, _, E6⟩ := split_first E4' hno5 (hA.not_mem (Or.inr (Or.inl rfl)))
  -- the keyword
  have hw3nil : w3 = [] := by
    have : (w2 ++ kw) ++ w3 = [' '] ++ K' := by rw [List.append_assoc, ← E3]; rfl
    rcases suf_append this with ⟨X', _, e3⟩ | ⟨u', e3⟩
    · obtain ⟨z, K'', rfl⟩ := List.exists_cons_of_ne_nil hK'0
      exact absurd (hw3 z (by rw [e3]; simp)) (fun hh => not_ws_of_idC (idC_of_letter (hK' z (by simp))) hh)
    · apply eq_nil_of_forall
      intro z hz
      exact not_ws_of_idC (idC_of_letter (hK' z (mem_of_suf e3 hz))) (hw3 z hz)
  subst hw3nil
  rw [List.append_nil] at E3
  have hkwK : kw = K' ∧ w2 = [' '] := by
    have : w2 ++ kw = [' '] ++ K' := by rw [← E3]; rfl
    rcases suf_append this with ⟨X', ⟨u', hX⟩, e3⟩ | ⟨u', e3⟩
    · by_cases hne : X' = []
      · subst hne
        rw [List.nil_append] at e3
        subst e3
        exact ⟨rfl, List.append_cancel_right this⟩
      · obtain ⟨B, eB, _⟩ := suf_snoc (X := []) (by simpa using hX) hne
        have : ' ' ∈ kw := by rw [e3, eB]; simp
        exact absurd (hkl.1 _ this) (by decide)
    · have hw2eq : w2 = ' ' :: u' := by
        apply List.append_cancel_right (bs := kw)
        rw [this, ← e3]; rfl
      have hu' : u' = [] := by
        apply eq_nil_of_forall
        intro z hz
        exact not_ws_of_idC (idC_of_letter (hK' z (by rw [← e3]; simp [hz]))) (hw2 z (by rw [hw2eq]; simp [hz]))
      subst hu'
      exact ⟨by simpa using e3, hw2eq⟩
  obtain ⟨rfl, rfl⟩ := hkwK
  -- the name
  have hname : x :: idr = n ∧ w1 = [' '] := by
    have : (x :: idr) ++ w1 = n ++ [' '] := by rw [E1]; rfl
    rcases suf_append this with ⟨X', ⟨u', hX⟩, e3⟩ | ⟨u', e3⟩
    · have hX' : X' = [] := by
        apply eq_nil_of_forall
        intro z hz
        exact not_ws_of_idC (hn z (mem_of_suf hX hz)) (hw1 z (by rw [e3]; simp [hz]))
      subst hX'
      rw [List.nil_append] at e3
      subst e3
      exact ⟨List.append_cancel_right this, rfl⟩
    · cases u' with
      | nil => rw [List.nil_append] at e3; subst e3; exact ⟨List.append_cancel_right this, rfl⟩
      | cons z u' =>
        simp only [List.cons_append, List.cons.injEq, List.append_eq_nil_iff] at e3
        obtain ⟨_, _, rfl⟩ := e3
        rw [List.append_nil] at this
        have hm : ' ' ∈ x :: idr := by rw [this]; simp
        rcases List.mem_cons.mp hm with hm | hm
        · rw [← hm] at hx; exact absurd hx (by decide)
        · exact absurd (idC_ne (hidr _ hm)).2.2.2.1 (by simp)
  obtain ⟨rfl, rfl⟩ := hname
  refine ⟨hkw, E6.symm, by rw [E5]; simp, ?_⟩
  subst E5 E6
  rw [hc]
  simp

end

end BenchText
end CG
