/- C17 (super-circuit): `SGSuper.facts_of_algo` needs the single-output hypothesis.  With two outputs, every node of the
   supergate headed by an output (A) or by a frontier node (B) can be internal to a supergate of the *other* cone
   (constants are internal), so the minimal cover drops it: the output / the supergate input is then neither a primary
   input nor the head of a kept supergate.  All other hypotheses of `facts_of_algo` hold. -/
import CG.Props.C20
import CG.Proofs.SGSuperDefs
set_option linter.unusedSectionVars false
set_option linter.unusedVariables false
set_option linter.unusedSimpArgs false
namespace CG
namespace SGSuperFactsCex
open Supergates SGSuper

theorem fanin_le (c : Circuit) (hk : ∀ m ∈ c.edges.map (·.2), (c.fanin m).length ≤ 2) (n : Name) :
    (c.fanin n).length ≤ 2 := by
  by_cases h : n ∈ c.edges.map (·.2)
  · exact hk n h
  · have : c.fanin n = [] := by
      unfold Circuit.fanin
      rw [List.map_eq_nil_iff, List.filter_eq_nil_iff]
      intro e he h2
      rw [beq_iff_eq] at h2
      exact h (h2 ▸ List.mem_map_of_mem he)
    rw [this]; decide

theorem ty_of_nodes (c : Circuit) (hk : ∀ p ∈ c.nodes, p.2.ty ≠ some "bb_output") (n : Name) :
    c.ty? n ≠ some "bb_output" := by
  intro h
  unfold Circuit.ty? Circuit.attr? at h
  match hl : c.nodes.lookup n with
  | none => rw [hl] at h; cases h
  | some a =>
    rw [hl] at h
    have hm : (n, a) ∈ c.nodes := by
      have : ∀ (l : List (Name × Attr)), l.lookup n = some a → (n, a) ∈ l := by
        intro l
        induction l with
        | nil => intro h; simp [List.lookup] at h
        | cons x xs ih =>
          obtain ⟨k, b⟩ := x
          intro h
          rw [List.lookup_cons] at h
          by_cases hk : n == k
          · rw [hk] at h
            rw [beq_iff_eq] at hk
            injection h with h
            rw [hk, h]; exact List.mem_cons_self
          · have hk' : (n == k) = false := by simpa using hk
            rw [hk'] at h
            exact List.mem_cons_of_mem _ (ih h)
      exact this _ hl
    exact hk (n, a) hm h

/-! ### (A) an output that is absorbed into the supergate of another output -/

/-- `o = not(k)`, `o2 = not(o)`, `k` the constant 0, both `o` and `o2` outputs -/
def cexA : Circuit :=
  { nodes := [("k", { ty := some "0", out := some false }), ("o", { ty := some "not", out := some true }),
              ("o2", { ty := some "not", out := some true })],
    edges := [("k", "o"), ("o", "o2")] }

theorem cexA_clean : LintClean cexA :=
  (C20.lintClean_of_lint_ok cexA id (fun l => List.Perm.refl l) ⟨by decide, by decide, by decide⟩ (by decide)
    (by decide)).1

theorem cexA_acyclic : Acyclic cexA :=
  ⟨fun n => if n = "k" then 0 else if n = "o" then 1 else 2, by decide⟩

theorem cexA_fanin2 : ∀ n, (cexA.fanin n).length ≤ 2 := fanin_le cexA (by decide)

theorem cexA_nobbo : ∀ n, cexA.ty? n ≠ some "bb_output" := ty_of_nodes cexA (by decide)

theorem cexA_outs : (["o", "o2"] : List Name).Perm cexA.outputs := by
  have : cexA.outputs = ["o", "o2"] := by decide
  rw [this]

theorem cexA_heads : (algo cexA ["o", "o2"]).headsDistinct = true := by decide +kernel

theorem cexA_not_outputsDriven :
    "o" ∈ cexA.outputs ∧ ¬ ("o" ∈ cexA.inputs ∨ ∃ q ∈ kept (algo cexA ["o", "o2"]).sgs, q.1.head = "o") := by
  decide +kernel

/-- all hypotheses of `facts_of_algo` except `c2.outputs.length = 1` hold, the conclusion fails -/
theorem cexA_not_facts : ¬ SGFacts cexA (kept (algo cexA ["o", "o2"]).sgs) :=
  fun h => cexA_not_outputsDriven.2 (h.outputsDriven "o" cexA_not_outputsDriven.1)

/-! ### (B) a frontier node whose supergate is absorbed into the supergate of another output -/

/-- `i = and(k0, k1)`, `o1 = not(i)`, `o2 = and(i, k0)`; in the cone of `o1` the node `i` is a frontier node (an input of
    the supergate `{o1, i}`), in the cone of `o2` it is absorbed together with both constants -/
def cexB : Circuit :=
  { nodes := [("k0", { ty := some "0", out := some false }), ("k1", { ty := some "1", out := some false }),
              ("i", { ty := some "and", out := some false }),
              ("o1", { ty := some "not", out := some true }), ("o2", { ty := some "and", out := some true })],
    edges := [("k0", "i"), ("k1", "i"), ("i", "o1"), ("i", "o2"), ("k0", "o2")] }

theorem cexB_clean : LintClean cexB :=
  (C20.lintClean_of_lint_ok cexB id (fun l => List.Perm.refl l) ⟨by decide, by decide, by decide⟩ (by decide)
    (by decide)).1

theorem cexB_acyclic : Acyclic cexB :=
  ⟨fun n => if n = "k0" then 0 else if n = "k1" then 0 else if n = "i" then 1 else 2, by decide⟩

theorem cexB_fanin2 : ∀ n, (cexB.fanin n).length ≤ 2 := fanin_le cexB (by decide)

theorem cexB_nobbo : ∀ n, cexB.ty? n ≠ some "bb_output" := ty_of_nodes cexB (by decide)

theorem cexB_outs : (["o1", "o2"] : List Name).Perm cexB.outputs := by
  have : cexB.outputs = ["o1", "o2"] := by decide
  rw [this]

theorem cexB_heads : (algo cexB ["o1", "o2"]).headsDistinct = true := by decide +kernel

theorem cexB_not_inputsDriven :
    ∃ p ∈ kept (algo cexB ["o1", "o2"]).sgs, "i" ∈ p.2.inputs ∧
      ¬ ("i" ∈ cexB.inputs ∨ ∃ q ∈ kept (algo cexB ["o1", "o2"]).sgs, q.1.head = "i") := by
  decide +kernel

/-- the outputs of `cexB` are both heads of kept supergates: only `inputsDriven` fails here -/
theorem cexB_not_facts : ¬ SGFacts cexB (kept (algo cexB ["o1", "o2"]).sgs) := by
  intro h
  obtain ⟨p, hp, hi, hn⟩ := cexB_not_inputsDriven
  exact hn (h.inputsDriven p hp "i" hi)

end SGSuperFactsCex
end CG

#print axioms CG.SGSuperFactsCex.cexA_not_facts
#print axioms CG.SGSuperFactsCex.cexB_not_facts
