/- C15 (character level, free layout) helper: `Bench.parse` on a text made of statements in free layout -/
import CG.Proofs.BenchFreeSpec
import CG.Proofs.BenchTextCanon
set_option linter.unusedSimpArgs false
set_option linter.unusedVariables false
namespace CG
namespace BenchText
open Regex Bench

/-- keyword in upper or lower case -/
def kwF (up : Bool) (s : String) : String := if up then upper s else s
/-- a `buf` gate may be spelled `buff` -/
def gateKw (ff : Bool) (t : String) : String := if ff && t == "buf" then "buff" else t

/-- the layout of one statement, on character lists -/
structure LayL where
  up : Bool
  ff : Bool
  a : List Char
  b : List Char
  c : List Char
  ops : Nat → List Char × List Char

def LayL.ok (L : LayL) : Prop := AllWs L.a ∧ AllWs L.b ∧ AllWs L.c ∧ ∀ i, AllWs (L.ops i).1 ∧ AllWs (L.ops i).2

/-- the operands from the `i`-th on, each between its white space -/
def opsL (ops : Nat → List Char × List Char) : Nat → List Name → List (List Char)
  | _, [] => []
  | i, x :: xs => ((ops i).1 ++ (x.toList ++ (ops i).2)) :: opsL ops (i + 1) xs

def flOf : Stmt → LayL → FL
  | .input n, L => .io true (kwF L.up "input").toList L.a L.b n.toList L.c
  | .output n, L => .io false (kwF L.up "output").toList L.a L.b n.toList L.c
  | .gate n t ins, L => .gate n.toList L.a L.b (kwF L.up (gateKw L.ff t)).toList L.c ([','].intercalate (opsL L.ops 0 ins))
  | .dff q d, L => .gate q.toList L.a L.b (kwF L.up "dff").toList L.c ((L.ops 0).1 ++ (d.toList ++ (L.ops 0).2))
  | .dffNet _, _ => .blank

theorem kw_gate_facts : ∀ t ∈ gTys, ∀ up ff : Bool, (kwF up (gateKw ff t)).toList ∈ gateKws ∧
    (if kwF up (gateKw ff t) == "buff" || kwF up (gateKw ff t) == "BUFF" then "buf" else lower (kwF up (gateKw ff t))) = t := by
  decide

theorem kw_io_facts (up : Bool) : ((kwF up "input").toList = Kof true ∨ (kwF up "input").toList = kof true) ∧
    ((kwF up "output").toList = Kof false ∨ (kwF up "output").toList = kof false) ∧
    (kwF up "dff").toList ∈ dffKws := by
  cases up <;> decide

theorem mem_opsL {ops : Nat → List Char × List Char} : ∀ {ins : List Name} {i : Nat} {l : List Char}, l ∈ opsL ops i ins →
    ∃ j x, x ∈ ins ∧ l = (ops j).1 ++ (x.toList ++ (ops j).2)
  | [], _, _, h => by simp [opsL] at h
  | y :: ins, i, l, h => by
    simp only [opsL, List.mem_cons] at h
    rcases h with rfl | h
    · exact ⟨i, y, by simp, rfl⟩
    · obtain ⟨j, x, hx, e⟩ := mem_opsL h
      exact ⟨j, x, by simp [hx], e⟩

theorem flOf_ok {s : Stmt} {L : LayL} (h : StOK s) (hL : L.ok) : (flOf s L).ok := by
  obtain ⟨ha, hb, hc, hops⟩ := hL
  cases s with
  | input n => exact ⟨(kw_io_facts L.up).1, ha, hb, hc, h⟩
  | output n => exact ⟨(kw_io_facts L.up).2.1, ha, hb, hc, h⟩
  | dffNet n => trivial
  | dff q d =>
    refine ⟨h.1, ha, hb, hc, Or.inr (kw_io_facts L.up).2.2, ?_, ?_⟩
    · intro x hx
      simp only [List.mem_append] at hx
      rcases hx with hx | hx | hx
      · exact Or.inr (Or.inr ((hops 0).1 x hx))
      · exact Or.inl (h.2.all x hx)
      · exact Or.inr (Or.inr ((hops 0).2 x hx))
    · obtain ⟨x, r, hx, _⟩ := h.2
      rw [hx]; simp
  | gate n t ins =>
    obtain ⟨hn, ht, hne, hins⟩ := h
    refine ⟨hn, ha, hb, hc, Or.inl (kw_gate_facts t ht L.up L.ff).1, ?_, ?_⟩
    · intro x hx
      rcases mem_intercalate hx with hx | ⟨l, hl, hx⟩
      · rw [List.mem_singleton.mp hx]; exact Or.inr (Or.inl rfl)
      · obtain ⟨j, y, hy, rfl⟩ := mem_opsL hl
        simp only [List.mem_append] at hx
        rcases hx with hx | hx | hx
        · exact Or.inr (Or.inr ((hops j).1 x hx))
        · exact Or.inl ((hins y hy).all x hx)
        · exact Or.inr (Or.inr ((hops j).2 x hx))
    · obtain ⟨i, ins', rfl⟩ := List.exists_cons_of_ne_nil hne
      obtain ⟨x, r, hx, _⟩ := hins i (by simp)
      intro hnil
      have : x ∈ [','].intercalate (opsL L.ops 0 (i :: ins')) := by
        cases ins' with
        | nil => simp [opsL, List.intercalate, hx]
        | cons j ins'' => simp [opsL, List.intercalate, hx]
      rw [hnil] at this
      cases this

/-! ### cleaning the operand list -/

theorem filter_ws {w : List Char} (h : AllWs w) : w.filter (fun c => !pySpace c) = [] := by
  rw [List.filter_eq_nil_iff]
  intro x hx
  simp [pySpace_of_ws (h x hx)]

theorem filter_opsL {ops : Nat → List Char × List Char} (hops : ∀ i, AllWs (ops i).1 ∧ AllWs (ops i).2) :
    ∀ (ins : List Name) (i : Nat), (∀ x ∈ ins, Solid x.toList) →
    ([','].intercalate (opsL ops i ins)).filter (fun c => !pySpace c) = [','].intercalate (ins.map String.toList)
  | [], _, _ => rfl
  | [x], i, h => by
    simp only [opsL, List.intercalate, List.intersperse_singleton, List.flatten_cons, List.flatten_nil, List.append_nil,
      List.map_cons, List.map_nil, List.filter_append]
    rw [filter_ws (hops i).1, filter_ws (hops i).2, filter_solid (h x (by simp))]
    simp
  | x :: y :: ins, i, h => by
    have ih := filter_opsL hops (y :: ins) (i + 1) (fun z hz => h z (by simp [hz]))
    simp only [opsL, List.map_cons, List.intercalate] at ih ⊢
    simp only [List.intersperse_cons_cons, List.flatten_cons, List.filter_append] at ih ⊢
    rw [ih, filter_ws (hops i).1, filter_ws (hops i).2, filter_solid (h x (by simp))]
    have e : List.filter (fun c => !pySpace c) [','] = [','] := by decide
    rw [e]
    simp

theorem split_operandsF {ops : Nat → List Char × List Char} (hops : ∀ i, AllWs (ops i).1 ∧ AllWs (ops i).2)
    (ins : List Name) (hne : ins ≠ []) (h : ∀ i ∈ ins, Solid i.toList) :
    (squeeze (String.ofList ([','].intercalate (opsL ops 0 ins)))).splitOn "," = ins := by
  have e1 : ("," : String) = String.singleton ',' := rfl
  rw [e1, splitOn_single, squeeze_toList, String.toList_ofList, filter_opsL hops ins 0 h]
  rw [List.splitOn_intercalate]
  · rw [List.map_map]
    have : String.ofList ∘ String.toList = id := by funext x; simp
    rw [this, List.map_id]
  · intro l hl
    obtain ⟨i, hi, rfl⟩ := List.mem_map.mp hl
    intro hm
    exact (h i hi _ hm).2 rfl
  · simpa using hne

theorem squeeze_padded {a b : List Char} (ha : AllWs a) (hb : AllWs b) {d : String} (hd : Solid d.toList) :
    squeeze (String.ofList (a ++ (d.toList ++ b))) = d := by
  rw [← String.toList_inj, squeeze_toList, String.toList_ofList, List.filter_append, List.filter_append, filter_ws ha,
    filter_ws hb, filter_solid hd]
  simp

/-! ### the four passes -/

abbrev SL := Stmt × LayL
def fl (x : SL) : FL := flOf x.1 x.2

theorem passF_in (L : List SL) (hok : ∀ s ∈ L, StOK s.1) :
    (L.filterMap (fun s => hitIOF true (fl s))).flatMap
      (fun g => ((squeeze (g.getD 0 "")).splitOn ",").map Stmt.input) = L.filterMap (fun s => selIn s.1) := by
  apply filterMap_flatMap
  intro s hs
  have h := hok s hs
  obtain ⟨s, Ly⟩ := s
  cases s with
  | input n =>
    show List.map Stmt.input ((squeeze (String.ofList n.toList)).splitOn ",") = [Stmt.input n]
    rw [String.ofList_toList, split_one n (NameOK.solid h)]
    rfl
  | output n => rfl
  | gate n t ins => rfl
  | dff q d => rfl
  | dffNet n => rfl

theorem passF_out (L : List SL) (hok : ∀ s ∈ L, StOK s.1) :
    (L.filterMap (fun s => hitIOF false (fl s))).flatMap
      (fun g => ((squeeze (g.getD 0 "")).splitOn ",").map Stmt.output) = L.filterMap (fun s => selOut s.1) := by
  apply filterMap_flatMap
  intro s hs
  have h := hok s hs
  obtain ⟨s, Ly⟩ := s
  cases s with
  | output n =>
    show List.map Stmt.output ((squeeze (String.ofList n.toList)).splitOn ",") = [Stmt.output n]
    rw [String.ofList_toList, split_one n (NameOK.solid h)]
    rfl
  | input n => rfl
  | gate n t ins => rfl
  | dff q d => rfl
  | dffNet n => rfl

theorem dff_not_gate (up : Bool) : (kwF up "dff").toList ∉ kwsOf true ∧ (kwF up "dff").toList ∈ kwsOf false := by
  cases up <;> decide
theorem gate_not_dff : ∀ t ∈ gTys, ∀ up ff : Bool, (kwF up (gateKw ff t)).toList ∈ kwsOf true ∧
    (kwF up (gateKw ff t)).toList ∉ kwsOf false := by decide

theorem passF_gate (L : List SL) (hok : ∀ s ∈ L, StOK s.1) (hlay : ∀ s ∈ L, s.2.ok) :
    (L.filterMap (fun s => hitGF true (fl s))).map (fun g =>
      let gate := g.getD 1 ""
      let ty := if gate == "buff" || gate == "BUFF" then "buf" else lower gate
      Stmt.gate (g.getD 0 "") ty ((squeeze (g.getD 2 "")).splitOn ",")) = L.filterMap (fun s => selGate s.1) := by
  apply filterMap_map'
  intro s hs
  have h := hok s hs
  have hl := hlay s hs
  obtain ⟨s, Ly⟩ := s
  cases s with
  | gate n t ins =>
    obtain ⟨hn, ht, hne, hins⟩ := h
    have hk := (gate_not_dff t ht Ly.up Ly.ff).1
    simp only [fl, flOf, hitGF, hk, if_true, Option.map_some, selGate]
    show some (Stmt.gate (String.ofList n.toList)
      (if String.ofList (kwF Ly.up (gateKw Ly.ff t)).toList == "buff" ||
          String.ofList (kwF Ly.up (gateKw Ly.ff t)).toList == "BUFF" then "buf"
        else lower (String.ofList (kwF Ly.up (gateKw Ly.ff t)).toList))
      ((squeeze (String.ofList ([','].intercalate (opsL Ly.ops 0 ins)))).splitOn ",")) = some (Stmt.gate n t ins)
    rw [String.ofList_toList, String.ofList_toList,
      split_operandsF hl.2.2.2 ins hne (fun i hi => NameOK.solid (hins i hi)), (kw_gate_facts t ht Ly.up Ly.ff).2]
  | input n => rfl
  | output n => rfl
  | dff q d =>
    have hk := (dff_not_gate Ly.up).1
    simp only [fl, flOf, hitGF, hk, if_false, Option.map_none, selGate]
  | dffNet n => rfl

theorem passF_dffNet (L : List SL) (hok : ∀ s ∈ L, StOK s.1) :
    (L.filterMap (fun s => hitGF false (fl s))).map (fun g => Stmt.dffNet (g.getD 0 "")) =
      L.filterMap (fun s => selDffNet s.1) := by
  apply filterMap_map'
  intro s hs
  have h := hok s hs
  obtain ⟨s, Ly⟩ := s
  cases s with
  | dff q d =>
    have hk := (dff_not_gate Ly.up).2
    simp only [fl, flOf, hitGF, hk, if_true, Option.map_some, selDffNet]
    show some (Stmt.dffNet (String.ofList q.toList)) = some (Stmt.dffNet q)
    rw [String.ofList_toList]
  | input n => rfl
  | output n => rfl
  | gate n t ins =>
    have hk := (gate_not_dff t h.2.1 Ly.up Ly.ff).2
    simp only [fl, flOf, hitGF, hk, if_false, Option.map_none, selDffNet]
  | dffNet n => rfl

theorem passF_dff (L : List SL) (hok : ∀ s ∈ L, StOK s.1) (hlay : ∀ s ∈ L, s.2.ok) :
    (L.filterMap (fun s => hitGF false (fl s))).map (fun g => Stmt.dff (g.getD 0 "") (squeeze (g.getD 2 ""))) =
      L.filterMap (fun s => selDff s.1) := by
  apply filterMap_map'
  intro s hs
  have h := hok s hs
  have hl := hlay s hs
  obtain ⟨s, Ly⟩ := s
  cases s with
  | dff q d =>
    have hk := (dff_not_gate Ly.up).2
    simp only [fl, flOf, hitGF, hk, if_true, Option.map_some, selDff]
    show some (Stmt.dff (String.ofList q.toList)
      (squeeze (String.ofList ((Ly.ops 0).1 ++ (d.toList ++ (Ly.ops 0).2))))) = some (Stmt.dff q d)
    rw [String.ofList_toList, squeeze_padded (hl.2.2.2 0).1 (hl.2.2.2 0).2 (NameOK.solid h.2)]
  | input n => rfl
  | output n => rfl
  | gate n t ins =>
    have hk := (gate_not_dff t h.2.1 Ly.up Ly.ff).2
    simp only [fl, flOf, hitGF, hk, if_false, Option.map_none, selDff]
  | dffNet n => rfl

/-! ### `findall` for the four patterns -/

theorem findall_linesF (text : String) (L : List SL) (hL : L ≠ []) (hok : ∀ s ∈ L, StOK s.1) (hlay : ∀ s ∈ L, s.2.ok)
    (h : text.toList = ['\n'].intercalate (L.map (fun s => (fl s).chars))) :
    Regex.findall (rx 0).1 text (rx 0).2 = some (L.filterMap (fun s => hitIOF true (fl s))) ∧
    Regex.findall (rx 1).1 text (rx 1).2 = some (L.filterMap (fun s => hitGF true (fl s))) ∧
    Regex.findall (rx 2).1 text (rx 2).2 = some (L.filterMap (fun s => hitGF false (fl s))) ∧
    Regex.findall (rx 3).1 text (rx 3).2 = some (L.filterMap (fun s => hitIOF false (fl s))) := by
  obtain ⟨s0, L', rfl⟩ := List.exists_cons_of_ne_nil hL
  have hok' : ∀ x ∈ (s0 :: L').map fl, x.ok := by
    intro x hx
    obtain ⟨s, hs, rfl⟩ := List.mem_map.mp hx
    exact flOf_ok (hok s hs) (hlay s hs)
  have key : ∀ (dotall : Bool) (r : Re) (ng : Nat) (hit : FL → Option (List String)), ng ≠ 0 →
      (∀ ctx : Ctx, need ctx.s.size r ≤ fuelFor ctx.s → LineSpec FL.chars ctx r ng FL.ok hit) →
      (∀ s : Array Char, need s.size r ≤ fuelFor s) →
      (allMatches { s := text.toList.toArray, dotall := dotall } r ng (text.toList.toArray.size + 2) 0).map
        (fun mt => if ng == 0 then [slice text.toList.toArray mt.start mt.stop] else mt.groups.map (·.getD "")) =
        (s0 :: L').filterMap (fun s => hit (fl s)) := by
    intro dotall r ng hit hng hspec hneed
    have hng' : (ng == 0) = false := by rw [beq_eq_false_iff_ne]; exact hng
    simp only [hng', Bool.false_eq_true, if_false]
    have S := hspec { s := text.toList.toArray, dotall := dotall } (hneed _)
    have := S.scan (fl s0) (L'.map fl) (by simpa using hok') (by
      show text.toList.toArray.toList = _
      rw [List.toList_toArray, h]
      simp only [List.map_cons, List.map_map]
      rfl)
    rw [this, ← List.map_cons, List.filterMap_map]
    rfl
  refine ⟨?_, ?_, ?_, ?_⟩
  · rw [parse_rx0.2, findall_eq parse_rx0.1]
    exact congrArg some (key true rx0 1 _ (by decide) (fun ctx hn => specIOF ctx true hn) need_rx0)
  · rw [parse_rx1.2, findall_eq parse_rx1.1]
    exact congrArg some (key false rx1 3 _ (by decide) (fun ctx hn => specGF ctx true hn) need_rx1)
  · rw [parse_rx2.2, findall_eq parse_rx2.1]
    exact congrArg some (key false rx2 3 _ (by decide) (fun ctx hn => specGF ctx false hn) need_rx2)
  · rw [parse_rx3.2, findall_eq parse_rx3.1]
    exact congrArg some (key true rx3 1 _ (by decide) (fun ctx hn => specIOF ctx false hn) need_rx3)

/-! ### comments -/

theorem mem_intercalate_of {sep : List Char} : ∀ {ls : List (List Char)} {l : List Char} {x : Char}, l ∈ ls → x ∈ l →
    x ∈ sep.intercalate ls
  | [], _, _, h, _ => by cases h
  | [l0], l, x, h, hx => by
    rw [List.mem_singleton.mp h] at hx
    simpa [List.intercalate] using hx
  | l0 :: l1 :: ls, l, x, h, hx => by
    have ih := @mem_intercalate_of sep (l1 :: ls)
    simp only [List.intercalate] at ih ⊢
    simp only [List.intersperse_cons_cons, List.flatten_cons, List.mem_append]
    rcases List.mem_cons.mp h with rfl | h
    · exact Or.inl hx
    · exact Or.inr (Or.inr (ih h hx))

/-- a text without `#` has no comments -/
theorem stripComments_nohash (s : String) (h : '#' ∉ s.toList) : stripComments s = s := by
  rw [← String.toList_inj, stripComments_toList]
  have : (s.toList.splitOn '\n').map stripLine = s.toList.splitOn '\n' := by
    conv => rhs; rw [← List.map_id (s.toList.splitOn '\n')]
    apply List.map_congr_left
    intro l hl
    apply stripLine_of_not_mem
    intro hm
    apply h
    have := mem_intercalate_of (sep := ['\n']) hl hm
    rw [List.intercalate_splitOn] at this
    exact this
  rw [this, List.intercalate_splitOn]

theorem fl_no_hash {x : FL} (h : x.ok) : '#' ∉ x.chars := by
  have hK : ∀ K : List Char, AllLetter K → '#' ∉ K := fun K hK hm => absurd (hK _ hm) (by decide)
  have hW : ∀ w : List Char, AllWs w → '#' ∉ w := fun w hw hm => (ws_ne' (hw _ hm)).2.1 rfl
  have hI : ∀ w : List Char, AllIdC w → '#' ∉ w := fun w hw hm => (idC_ne (hw _ hm)).2.2.2.2.2.2.2 rfl
  cases x with
  | blank => simp [FL.chars]
  | io b K w1 w2 n w3 =>
    obtain ⟨hKK, hw1, hw2, hw3, hn⟩ := h
    have hKl : AllLetter K := by
      obtain ⟨h1, h2, _⟩ := KofF_facts b
      rcases hKK with rfl | rfl
      · exact h1
      · exact h2
    intro hm
    simp only [FL.chars, List.mem_append, List.mem_cons, List.not_mem_nil, or_false] at hm
    rcases hm with hm | hm | hm | hm | hm | hm | hm
    · exact hK K hKl hm
    · exact hW _ hw1 hm
    · exact absurd hm (by decide)
    · exact hW _ hw2 hm
    · exact hI _ hn.all hm
    · exact hW _ hw3 hm
    · exact absurd hm (by decide)
  | gate n w1 w2 K w3 A =>
    obtain ⟨hn, hw1, hw2, hw3, hKK, hA, _⟩ := h
    intro hm
    simp only [FL.chars, List.mem_append, List.mem_cons, List.not_mem_nil, or_false] at hm
    rcases hm with hm | hm | hm | hm | hm | hm | hm | hm | hm
    · exact hI _ hn.all hm
    · exact hW _ hw1 hm
    · exact absurd hm (by decide)
    · exact hW _ hw2 hm
    · exact hK K (allKws_letters hKK).1 hm
    · exact hW _ hw3 hm
    · exact absurd hm (by decide)
    · rcases hA _ hm with h1 | h1 | h1
      · exact (idC_ne h1).2.2.2.2.2.2.2 rfl
      · exact absurd h1 (by decide)
      · exact (ws_ne' h1).2.1 rfl
    · exact absurd hm (by decide)

/-- **the reader on a text made of statements in free layout** -/
theorem parse_linesF (text : String) (L : List SL) (hL : L ≠ []) (hok : ∀ s ∈ L, StOK s.1) (hlay : ∀ s ∈ L, s.2.ok)
    (h : text.toList = ['\n'].intercalate (L.map (fun s => (fl s).chars))) :
    Bench.parse text = some (collect (L.map (·.1))) := by
  have hs : stripComments text = text := by
    apply stripComments_nohash
    rw [h]
    intro hm
    rcases mem_intercalate hm with hm | ⟨l, hl, hm⟩
    · exact absurd hm (by decide)
    · obtain ⟨s, hs, rfl⟩ := List.mem_map.mp hl
      exact fl_no_hash (flOf_ok (hok s hs) (hlay s hs)) hm
  obtain ⟨h0, h1, h2, h3⟩ := findall_linesF text L hL hok hlay h
  unfold Bench.parse
  simp only [hs, h0, h1, h2, h3, bind, Option.bind, pure]
  rw [passF_in L hok, passF_gate L hok hlay, passF_dffNet L hok, passF_dff L hok hlay, passF_out L hok]
  simp only [collect, List.filterMap_map, Function.comp_def]

end BenchText
end CG
