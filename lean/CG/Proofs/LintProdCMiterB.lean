/- helper lemmas for C20 (tied miter passes lint): the miter with every input tied is `LintClean` and dot-free -/
import CG.Proofs.LintProdCMiterA
set_option linter.unusedSimpArgs false
set_option linter.unusedVariables false
namespace CG
namespace LintProd
open Circuit Miter

section view
variable {c0 c1 m : Circuit} {sp ep : List Name}

/-! ### one copy (`c`, `name`) inside the miter -/

theorem not_sp_of_ne_input {c : Circuit} (hc : LintClean c) (hin : ∀ s ∈ sp, s ∈ c.inputs)
    {q : Name × Attr} (hq : q ∈ c.nodes) {t : String} (hty : q.2.ty = some t) (hne : t ≠ "input") : q.1 ∉ sp := by
  intro hs
  have := (mem_inputs_of_mem hc.nodup (a := q.2) hq).1 (hin _ hs)
  rw [hty] at this
  injection this with this
  exact hne this

theorem copy_noFanin {c : Circuit} {name : Name} (hc : LintClean c) (hin : ∀ s ∈ sp, s ∈ c.inputs)
    {q : Name × Attr} (hq : q ∈ c.nodes) {t : String} (ht : (stripA q.2).ty = some t) (hs : t ∈ sourceTypes)
    (fan : m.fanin (pref name q.1) = (c.fanin q.1).map (pref name) ++ (if q.1 ∈ sp then [q.1] else [])) :
    m.fanin (pref name q.1) = [] := by
  rcases stripA_cases q.2 ht with ⟨_, rfl⟩ | ⟨hty, hne⟩
  · exact absurd hs (by decide)
  · rw [fan, if_neg (not_sp_of_ne_input hc hin hq hty hne),
      hc.noFanin q.1 t (Miter.ty?_of_mem hc.nodup hq hty) hs]
    rfl

theorem copy_single_eq {c : Circuit} {name : Name} (hc : LintClean c) (hin : ∀ s ∈ sp, s ∈ c.inputs)
    (hall : ∀ i ∈ c.inputs, i ∈ sp)
    {q : Name × Attr} (hq : q ∈ c.nodes) {t : String} (ht : (stripA q.2).ty = some t) (hs : t ∈ singleTypes)
    (fan : m.fanin (pref name q.1) = (c.fanin q.1).map (pref name) ++ (if q.1 ∈ sp then [q.1] else [])) :
    (m.fanin (pref name q.1)).length = 1 := by
  rw [fan]
  rcases stripA_cases q.2 ht with ⟨hi, rfl⟩ | ⟨hty, hne⟩
  · have hinp : q.1 ∈ c.inputs := (mem_inputs_of_mem hc.nodup (a := q.2) hq).2 hi
    rw [noFanin_inputs hc _ hinp, if_pos (hall _ hinp)]
    rfl
  · rw [if_neg (not_sp_of_ne_input hc hin hq hty hne), List.append_nil, List.length_map,
      hc.single q.1 t (Miter.ty?_of_mem hc.nodup hq hty) hs]

/-- the loads of a copied `bb_output` node -/
theorem copy_bbOut {c : Circuit} {name : Name} (hc : LintClean c)
    (tyc : ∀ q ∈ c.nodes, m.ty? (pref name q.1) = (stripA q.2).ty)
    (fo : ∀ u, c.has u = true → ∀ y ∈ m.fanout (pref name u),
      (∃ v, (u, v) ∈ c.edges ∧ y = pref name v) ∨ (u ∈ ep ∧ y = dif u))
    (ept : ∀ e ∈ ep, ∀ a, (e, a) ∈ c.nodes → a.ty ≠ some "bb_input" ∧ a.ty ≠ some "bb_output")
    (hnd : m.edges.Nodup) {e0 : Name × Name} (h0 : e0 ∈ c.edges)
    (hty : m.ty? (pref name e0.1) = some "bb_output") :
    m.ty? (pref name e0.2) = some "buf" ∧ (m.fanout (pref name e0.1)).length ≤ 1 := by
  have hu := (hc.closed e0 h0).1
  obtain ⟨a, ha⟩ := has_exists hu
  have h1 := tyc _ ha
  simp only [] at h1
  rw [hty] at h1
  have hat : a.ty = some "bb_output" := stripA_bb h1.symm (Or.inl rfl)
  have hcty : c.ty? e0.1 = some "bb_output" := Miter.ty?_of_mem hc.nodup ha hat
  obtain ⟨k1, k2⟩ := hc.bbOut e0 h0 hcty
  constructor
  · obtain ⟨p, hp, hp1, hp2⟩ := Tseitin.mem_of_ty c _ _ k1
    rw [← hp1, tyc p hp]
    exact stripA_ty_of_ne hp2 (by decide)
  · apply length_le_one_of_all_eq (a := pref name e0.2) (fanout_nodup hnd _)
    intro y hy
    rcases fo e0.1 hu y hy with ⟨v, hv, rfl⟩ | ⟨hep, _⟩
    · have : v = e0.2 := eq_of_length_le_one k2 (mem_fanout.2 hv) (mem_fanout.2 h0)
      rw [this]
    · exact absurd hat (ept _ hep a ha).2

theorem copy_noBBIn {c : Circuit} {name : Name} (hc : LintClean c)
    (tyc : ∀ q ∈ c.nodes, m.ty? (pref name q.1) = (stripA q.2).ty)
    {e0 : Name × Name} (h0 : e0 ∈ c.edges) : m.ty? (pref name e0.1) ≠ some "bb_input" := by
  intro hty
  obtain ⟨a, ha⟩ := has_exists (hc.closed e0 h0).1
  have h1 := tyc _ ha
  simp only [] at h1
  rw [hty] at h1
  have hat : a.ty = some "bb_input" := stripA_bb h1.symm (Or.inr rfl)
  exact hc.noBBInFanout e0 h0 (Miter.ty?_of_mem hc.nodup ha hat)

/-- a compared endpoint copy is not a blackbox pin -/
theorem ep_copy_not_bb {c : Circuit} {name : Name}
    (tyc : ∀ q ∈ c.nodes, m.ty? (pref name q.1) = (stripA q.2).ty)
    (ept : ∀ e ∈ ep, ∀ a, (e, a) ∈ c.nodes → a.ty ≠ some "bb_input" ∧ a.ty ≠ some "bb_output")
    {x : Name} (hx : x ∈ ep) (hhas : c.has x = true) :
    m.ty? (pref name x) ≠ some "bb_output" ∧ m.ty? (pref name x) ≠ some "bb_input" := by
  obtain ⟨a, ha⟩ := has_exists hhas
  have h1 := tyc _ ha
  simp only [] at h1
  constructor
  · intro hty
    rw [hty] at h1
    exact (ept x hx a ha).2 (stripA_bb h1.symm (Or.inl rfl))
  · intro hty
    rw [hty] at h1
    exact (ept x hx a ha).1 (stripA_bb h1.symm (Or.inr rfl))

/-! ### fan-out of the copies -/

theorem mv_fanout_c0 (V : MView c0 c1 sp ep m) {u : Name} (hu : c0.has u = true) :
    ∀ y ∈ m.fanout (pref "c0" u), (∃ v, (u, v) ∈ c0.edges ∧ y = pref "c0" v) ∨ (u ∈ ep ∧ y = dif u) := by
  intro y hy
  rcases (mv_edges V _).1 (mem_fanout.1 hy) with ⟨e0, h0, e⟩ | ⟨e0, h0, e⟩ | ⟨s, hs, e | e⟩ | ⟨x, hx, e | e | e⟩
  · injection e with e1 e2
    have := pref_inj "c0" e1
    subst this
    exact Or.inl ⟨e0.2, h0, e2⟩
  · injection e with e1 _
    exact absurd e1 (c0_ne_c1 u e0.1)
  · injection e with e1 _
    exact absurd e1.symm (tie_ne_c0 V hs hu)
  · injection e with e1 _
    exact absurd e1.symm (tie_ne_c0 V hs hu)
  · injection e with e1 _
    exact absurd e1 (c0_ne_dif u x)
  · injection e with e1 e2
    have := pref_inj "c0" e1
    subst this
    exact Or.inr ⟨hx, e2⟩
  · injection e with e1 _
    exact absurd e1 (c0_ne_c1 u x)

theorem mv_fanout_c1 (V : MView c0 c1 sp ep m) {u : Name} (hu : c1.has u = true) :
    ∀ y ∈ m.fanout (pref "c1" u), (∃ v, (u, v) ∈ c1.edges ∧ y = pref "c1" v) ∨ (u ∈ ep ∧ y = dif u) := by
  intro y hy
  rcases (mv_edges V _).1 (mem_fanout.1 hy) with ⟨e0, h0, e⟩ | ⟨e0, h0, e⟩ | ⟨s, hs, e | e⟩ | ⟨x, hx, e | e | e⟩
  · injection e with e1 _
    exact absurd e1.symm (c0_ne_c1 e0.1 u)
  · injection e with e1 e2
    have := pref_inj "c1" e1
    subst this
    exact Or.inl ⟨e0.2, h0, e2⟩
  · injection e with e1 _
    exact absurd e1.symm (tie_ne_c1 V hs hu)
  · injection e with e1 _
    exact absurd e1.symm (tie_ne_c1 V hs hu)
  · injection e with e1 _
    exact absurd e1 (c1_ne_dif u x)
  · injection e with e1 _
    exact absurd e1.symm (c0_ne_c1 x u)
  · injection e with e1 e2
    have := pref_inj "c1" e1
    subst this
    exact Or.inr ⟨hx, e2⟩

/-! ### the tied miter is lint-clean -/

/-- hypotheses of the tied-miter theorem, as used by the helper lemmas -/
structure TiedHyp (c0 c1 : Circuit) (sp ep : List Name) : Prop where
  l0 : LintClean c0
  l1 : LintClean c1
  spnd : sp.Nodup
  epnd : ep.Nodup
  in0 : ∀ s ∈ sp, s ∈ c0.inputs
  in1 : ∀ s ∈ sp, s ∈ c1.inputs
  all0 : ∀ i ∈ c0.inputs, i ∈ sp
  all1 : ∀ i ∈ c1.inputs, i ∈ sp
  ep0 : ∀ e ∈ ep, c0.has e = true
  ep1 : ∀ e ∈ ep, c1.has e = true
  ept0 : ∀ e ∈ ep, ∀ a, (e, a) ∈ c0.nodes → a.ty ≠ some "bb_input" ∧ a.ty ≠ some "bb_output"
  ept1 : ∀ e ∈ ep, ∀ a, (e, a) ∈ c1.nodes → a.ty ≠ some "bb_input" ∧ a.ty ≠ some "bb_output"

theorem satTy_not_source (ep : List Name) (hne : ep ≠ []) : satTy ep ∉ sourceTypes := by
  rcases satTy_cases_ne ep hne with h | h <;> rw [h] <;> decide

theorem mv_lintClean (V : MView c0 c1 sp ep m) (H : TiedHyp c0 c1 sp ep) : LintClean m := by
  have tyc0 : ∀ q ∈ c0.nodes, m.ty? (pref "c0" q.1) = (stripA q.2).ty := fun q hq => mv_ty_c0 V hq
  have tyc1 : ∀ q ∈ c1.nodes, m.ty? (pref "c1" q.1) = (stripA q.2).ty := fun q hq => mv_ty_c1 V hq
  refine { toWF := V.wf, typed := ?_, noFanin := ?_, single := ?_, multi := ?_, bbOut := ?_, noBBInFanout := ?_ }
  · intro p hp
    rcases V.cases hp with ⟨q, hq, rfl⟩ | ⟨q, hq, rfl⟩ | ⟨s, hs, rfl⟩ | rfl | ⟨e, he, rfl⟩
    · exact strip_typed H.l0 hq
    · exact strip_typed H.l1 hq
    · exact ⟨"input", rfl, by decide⟩
    · refine ⟨satTy ep, rfl, ?_⟩
      rcases satTy_cases ep with h | h | h <;> rw [h] <;> decide
    · exact ⟨"xor", rfl, by decide⟩
  · intro n t hty hs
    rcases mv_ty_cases V hty with ⟨q, hq, rfl, ht⟩ | ⟨q, hq, rfl, ht⟩ | ⟨hsp, rfl⟩ | ⟨rfl, rfl⟩ | ⟨e, he, rfl, rfl⟩
    · exact copy_noFanin H.l0 H.in0 hq ht hs (V.fanin_c0 H.spnd q.1)
    · exact copy_noFanin H.l1 H.in1 hq ht hs (V.fanin_c1 H.spnd q.1)
    · exact mv_fanin_tie V H.l0.toWF H.l1.toWF H.in0 H.in1 hsp
    · by_cases hne : ep = []
      · rw [V.fanin_sat, hne]; rfl
      · exact absurd hs (satTy_not_source ep hne)
    · exact absurd hs (by decide)
  · intro n t hty hs
    rcases mv_ty_cases V hty with ⟨q, hq, rfl, ht⟩ | ⟨q, hq, rfl, ht⟩ | ⟨hsp, rfl⟩ | ⟨rfl, rfl⟩ | ⟨e, he, rfl, rfl⟩
    · exact copy_single_eq H.l0 H.in0 H.all0 hq ht hs (V.fanin_c0 H.spnd q.1)
    · exact copy_single_eq H.l1 H.in1 H.all1 hq ht hs (V.fanin_c1 H.spnd q.1)
    · exact absurd hs (by decide)
    · rw [V.fanin_sat, List.length_map]
      cases ep with
      | nil => rw [satTy_nil] at hs; exact absurd hs (by decide)
      | cons a l =>
        cases l with
        | nil => rfl
        | cons b l => rw [satTy_two] at hs; exact absurd hs (by decide)
    · exact absurd hs (by decide)
  · intro n t hty hs
    rcases mv_ty_cases V hty with ⟨q, hq, rfl, ht⟩ | ⟨q, hq, rfl, ht⟩ | ⟨hsp, rfl⟩ | ⟨rfl, rfl⟩ | ⟨e, he, rfl, rfl⟩
    · exact copy_multi H.l0 hq ht hs (V.fanin_c0 H.spnd q.1)
    · exact copy_multi H.l1 hq ht hs (V.fanin_c1 H.spnd q.1)
    · exact absurd hs (by decide)
    · rw [V.fanin_sat, List.length_map]
      cases ep with
      | nil => rw [satTy_nil] at hs; exact absurd hs (by decide)
      | cons a l => simp
    · rw [V.fanin_dif H.epnd he]
      simp
  · intro e he hty
    rcases (mv_edges V _).1 he with ⟨e0, h0, rfl⟩ | ⟨e0, h0, rfl⟩ | ⟨s, hs, rfl | rfl⟩ | ⟨x, hx, rfl | rfl | rfl⟩
    · exact copy_bbOut H.l0 tyc0 (fun u hu => mv_fanout_c0 V hu) H.ept0 V.wf.edgesNodup h0 hty
    · exact copy_bbOut H.l1 tyc1 (fun u hu => mv_fanout_c1 V hu) H.ept1 V.wf.edgesNodup h0 hty
    · rw [mv_ty_tie V hs] at hty
      exact absurd hty (by decide)
    · rw [mv_ty_tie V hs] at hty
      exact absurd hty (by decide)
    · rw [mv_ty_dif V hx] at hty
      exact absurd hty (by decide)
    · exact absurd hty (ep_copy_not_bb tyc0 H.ept0 hx (H.ep0 x hx)).1
    · exact absurd hty (ep_copy_not_bb tyc1 H.ept1 hx (H.ep1 x hx)).1
  · intro e he hty
    rcases (mv_edges V _).1 he with ⟨e0, h0, rfl⟩ | ⟨e0, h0, rfl⟩ | ⟨s, hs, rfl | rfl⟩ | ⟨x, hx, rfl | rfl | rfl⟩
    · exact copy_noBBIn H.l0 tyc0 h0 hty
    · exact copy_noBBIn H.l1 tyc1 h0 hty
    · rw [mv_ty_tie V hs] at hty
      exact absurd hty (by decide)
    · rw [mv_ty_tie V hs] at hty
      exact absurd hty (by decide)
    · rw [mv_ty_dif V hx] at hty
      exact absurd hty (by decide)
    · exact absurd hty (ep_copy_not_bb tyc0 H.ept0 hx (H.ep0 x hx)).2
    · exact absurd hty (ep_copy_not_bb tyc1 H.ept1 hx (H.ep1 x hx)).2

/-! ### the miter has no dotted name -/

theorem mv_noDots (V : MView c0 c1 sp ep m) (d0 : LintLink.NoDots c0) (d1 : LintLink.NoDots c1)
    (hin0 : ∀ s ∈ sp, s ∈ c0.inputs) (hep0 : ∀ e ∈ ep, c0.has e = true) : LintLink.NoDots m := by
  refine ⟨V.bbs, fun g hg => ?_⟩
  obtain ⟨p, hp, rfl⟩ := List.mem_map.1 ((has_iff_mem m g).1 hg)
  rcases V.cases hp with ⟨q, hq, rfl⟩ | ⟨q, hq, rfl⟩ | ⟨s, hs, rfl⟩ | rfl | ⟨e, he, rfl⟩
  · show hasDot (pref "c0" q.1) = false
    rw [LintLink.hasDot_pref, d0.names _ (Miter.has_of_mem hq)]
    rfl
  · show hasDot (pref "c1" q.1) = false
    rw [LintLink.hasDot_pref, d1.names _ (Miter.has_of_mem hq)]
    rfl
  · exact d0.names _ (mem_inputs_has (hin0 s hs))
  · show hasDot "sat" = false
    decide
  · show hasDot (dif e) = false
    unfold dif
    rw [LintLink.hasDot_append, d0.names _ (hep0 e he)]
    rfl

end view

/-- the tied miter is lint-clean and dot-free -/
theorem miter_tied_clean {c0 c1 m : Circuit} {sp ep : List Name} {ord : Ord}
    (h0 : LintClean c0) (h1 : LintClean c1) (hb0 : c0.bbs = []) (hb1 : c1.bbs = [])
    (hr0 : LintLink.DotsRegistered c0) (hr1 : LintLink.DotsRegistered c1) (hne : c1.nodes ≠ [])
    (spnd : sp.Nodup) (epnd : ep.Nodup)
    (sp0 : ∀ s ∈ sp, s ∈ c0.inputs ∧ s ∈ c1.inputs) (ep0 : ∀ e ∈ ep, c0.has e = true ∧ c1.has e = true)
    (hall0 : ∀ i ∈ c0.inputs, i ∈ sp) (hall1 : ∀ i ∈ c1.inputs, i ∈ sp)
    (h : Tx.miter c0 (some c1) (some sp) (some ep) ord = .ok m) :
    LintClean m ∧ LintLink.NoDots m := by
  have V := mview_of_ok h0 h1 hb0 hb1 hne h
  have T := miter_ep_types h0 h1 hb0 hb1 hne h
  have H : TiedHyp c0 c1 sp ep :=
    ⟨h0, h1, spnd, epnd, fun s hs => (sp0 s hs).1, fun s hs => (sp0 s hs).2, hall0, hall1,
      fun e he => (ep0 e he).1, fun e he => (ep0 e he).2, fun e he => (T e he).1, fun e he => (T e he).2⟩
  exact ⟨mv_lintClean V H, mv_noDots V (noDots_of_registered hb0 hr0) (noDots_of_registered hb1 hr1)
    H.in0 H.ep0⟩

end LintProd
end CG
