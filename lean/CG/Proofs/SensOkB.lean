/- helper lemmas for C11 (total correctness of `sensitivity_transform`): generic success lemmas
   (monadic folds, single connections) and the disjointness of the synthesised names -/
import CG.Proofs.SensSetup
import CG.Proofs.SensEOk
set_option linter.unusedSimpArgs false
set_option linter.unusedVariables false
namespace CG
namespace SensOk
open Circuit Miter Sens
open Tx (addC)

/-! ### monadic folds succeed when every step succeeds on the result of the preceding prefix -/

theorem foldlM_append_ok {α β : Type} (f : α → β → E α) (l1 : List β) (b : β) (a0 a a' : α)
    (h1 : l1.foldlM f a0 = .ok a) (h2 : f a b = .ok a') : (l1 ++ [b]).foldlM f a0 = .ok a' := by
  rw [List.foldlM_append, h1]
  show (f a b >>= fun x => ([] : List β).foldlM f x) = _
  rw [h2]
  rfl

theorem foldlM_ok_aux {α β : Type} (f : α → β → E α) (L : List β) (a0 : α)
    (step : ∀ l1 b l2 a, L = l1 ++ b :: l2 → l1.foldlM f a0 = .ok a → ∃ a', f a b = .ok a') :
    ∀ (l2 l1 : List β) (a : α), L = l1 ++ l2 → l1.foldlM f a0 = .ok a → ∃ a', L.foldlM f a0 = .ok a'
  | [], l1, a, hL, h => by
    rw [List.append_nil] at hL
    rw [hL]
    exact ⟨a, h⟩
  | b :: l2, l1, a, hL, h => by
    obtain ⟨a', ha'⟩ := step l1 b l2 a hL h
    exact foldlM_ok_aux f L a0 step l2 (l1 ++ [b]) a' (by rw [hL]; simp)
      (foldlM_append_ok f l1 b a0 a a' h ha')

theorem foldlM_ok_prefix {α β : Type} (f : α → β → E α) (L : List β) (a0 : α)
    (step : ∀ l1 b l2 a, L = l1 ++ b :: l2 → l1.foldlM f a0 = .ok a → ∃ a', f a b = .ok a') :
    ∃ a', L.foldlM f a0 = .ok a' :=
  foldlM_ok_aux f L a0 step L [] a0 rfl rfl

/-- an element of a duplicate-free list is not in the prefix preceding it -/
theorem not_mem_prefix {β : Type} {L l1 l2 : List β} {b : β} (hnd : L.Nodup) (hL : L = l1 ++ b :: l2) : b ∉ l1 := by
  intro hb
  rw [hL, List.nodup_append] at hnd
  exact hnd.2.2 b hb b (by simp) rfl

theorem mem_of_prefix {β : Type} {L l1 l2 : List β} {b : β} (hL : L = l1 ++ b :: l2) {x : β} (hx : x ∈ l1) : x ∈ L := by
  rw [hL]; exact List.mem_append.2 (Or.inl hx)

theorem mem_mid {β : Type} {L l1 l2 : List β} {b : β} (hL : L = l1 ++ b :: l2) : b ∈ L := by
  rw [hL]; simp

/-! ### fan-in of nodes -/

theorem fanin_nil_of_edges {A : Circuit} {x : Name} (h : ∀ e ∈ A.edges, e.2 ≠ x) : A.fanin x = [] := by
  rw [fanin_eq_faninL]
  exact faninL_nil_of h

theorem fanin_nil_of_fresh {A : Circuit} (w : WF A) {x : Name} (h : A.has x = false) : A.fanin x = [] := by
  apply fanin_nil_of_edges
  intro e he e2
  have := (w.closed e he).2
  rw [e2, h] at this
  cases this

/-! ### a single connection `u → v` onto a still undriven buffer / inverter -/

theorem check1_none {A : Circuit} {u v : Name} {t tu : String} (hu : A.has u = true) (hv : A.has v = true)
    (htv : A.ty? v = some t) (ht : t = "buf" ∨ t = "not") (hf : A.fanin v = [])
    (htu : A.ty? u = some tu) (hbi : tu ≠ "bb_input") (hbo : tu ≠ "bb_output") :
    A.connectCheck [u] [v] = none := by
  apply Limit.connectCheck_none
  · intro x hx
    simp only [List.mem_singleton] at hx
    subst hx; exact hu
  · intro x hx
    simp only [List.mem_singleton] at hx
    subst hx; exact hv
  · intro x hx
    simp only [List.mem_singleton] at hx
    subst hx
    refine ⟨t, htv, ?_, ?_⟩
    · rw [Limit.T_connectL0]
      rcases ht with rfl | rfl <;> decide
    · intro _
      rw [hf]; simp
  · intro x hx
    simp only [List.mem_singleton] at hx
    subst hx
    refine ⟨tu, htu, ?_, ?_⟩
    · rw [Limit.T_connectL2]; simp [hbi]
    · rw [Limit.T_connectL3]; simp [hbo]

theorem connect1_ok {A : Circuit} {u v : Name} {t tu : String} (hu : A.has u = true) (hv : A.has v = true)
    (htv : A.ty? v = some t) (ht : t = "buf" ∨ t = "not") (hf : A.fanin v = [])
    (htu : A.ty? u = some tu) (hbi : tu ≠ "bb_input") (hbo : tu ≠ "bb_output") :
    A.connect [u] [v] = (A.addEdges [u] [v], .ok) :=
  Miter.connect_of_check _ _ _ (fun _ _ => check1_none hu hv htv ht hf htu hbi hbo)

theorem setType_not_ok {A : Circuit} {x : Name} (hx : A.has x = true) :
    A.setType [x] "not" = (A.setTyRaw x "not", .ok) := by
  unfold Circuit.setType
  rw [if_neg (by decide)]
  rw [setType.go, if_pos hx, setType.go]

/-! ### the synthesised names -/

theorem pref_inv (s0 y : Name) : pref ("inv_" ++ s0) y = "inv_" ++ s0 ++ "_" ++ y := rfl

theorem orig_ne_pc (a b : Name) : pref "orig" a ≠ pref "pc" b := by
  rw [pref_orig, pref_pc]; name_ne
theorem orig_ne_inv (a s0 b : Name) : pref "orig" a ≠ pref ("inv_" ++ s0) b := by
  rw [pref_orig]; unfold pref; name_ne
theorem orig_ne_dif (a s0 : Name) : pref "orig" a ≠ "dif_out_" ++ s0 := by
  rw [pref_orig]; name_ne
theorem orig_ne_out (a : Name) (o : Nat) : pref "orig" a ≠ "sen_out_" ++ toString o := by
  rw [pref_orig]; name_ne
theorem pc_ne_inv (a s0 b : Name) : pref "pc" a ≠ pref ("inv_" ++ s0) b := by
  rw [pref_pc]; unfold pref; name_ne
theorem pc_ne_dif (a s0 : Name) : pref "pc" a ≠ "dif_out_" ++ s0 := by
  rw [pref_pc]; name_ne
theorem pc_ne_out (a : Name) (o : Nat) : pref "pc" a ≠ "sen_out_" ++ toString o := by
  rw [pref_pc]; name_ne
theorem inv_ne_dif (s0 b s1 : Name) : pref ("inv_" ++ s0) b ≠ "dif_out_" ++ s1 := by
  unfold pref; name_ne
theorem inv_ne_out (s0 b : Name) (o : Nat) : pref ("inv_" ++ s0) b ≠ "sen_out_" ++ toString o := by
  unfold pref; name_ne
theorem dif_ne_out (s0 : Name) (o : Nat) : "dif_out_" ++ s0 ≠ "sen_out_" ++ toString o := by
  name_ne

theorem dif_inj {a b : Name} (h : "dif_out_" ++ a = "dif_out_" ++ b) : a = b :=
  (String.append_right_inj _).1 h

theorem out_inj {a b : Nat} (h : "sen_out_" ++ toString a = "sen_out_" ++ toString b) : a = b :=
  (Arith.idx_inj _).1 h

theorem nameOK_dif_out (s0 : Name) : Limit.NameOK ("dif_out_" ++ s0) :=
  Arith.nameOK_lit "dif_out_" 'd' "if_out_".toList rfl (by decide) s0

theorem nameOK_sen_out (o : Nat) : Limit.NameOK ("sen_out_" ++ toString o) :=
  Arith.nameOK_lit "sen_out_" 's' "en_out_".toList rfl (by decide) (toString o)

/-! ### types of spliced nodes -/

/-- a node of a spliced copy is never a blackbox pin when the original is not -/
theorem strip_nobb {c : Circuit} (hc : LintClean c) {p : Name × Attr} (h : p ∈ c.nodes)
    (hty : ∀ t, c.ty? p.1 = some t → t ≠ "bb_input" ∧ t ≠ "bb_output") :
    ∃ t, (stripA p.2).ty = some t ∧ t ≠ "bb_input" ∧ t ≠ "bb_output" := by
  obtain ⟨t, ht, _⟩ := hc.typed p h
  by_cases hi : t = "input"
  · subst hi
    exact ⟨"buf", Miter.stripA_input ht, by decide, by decide⟩
  · obtain ⟨k1, k2⟩ := hty t (Miter.ty?_of_mem hc.nodup h ht)
    exact ⟨t, stripA_ty_of_ne ht hi, k1, k2⟩

end SensOk
end CG
