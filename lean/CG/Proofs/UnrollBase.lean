/- helper lemmas for C09 (unroll): the `Except` plumbing and the single operations, read off a successful call -/
import CG.Tx
import CG.Tx3
import CG.Spec
import CG.Props.C06
import CG.Proofs.LimitAdd
set_option linter.unusedSimpArgs false
set_option linter.unusedVariables false
namespace CG
namespace Unroll
open Circuit

/-! ### Except plumbing -/

theorem bind_ok {α β} {x : E α} {f : α → E β} {b : β} (h : (x >>= f) = .ok b) :
    ∃ a, x = .ok a ∧ f a = .ok b := by
  cases x with
  | error e => cases h
  | ok a => exact ⟨a, rfl, h⟩

theorem liftO_ok {r : Circuit × Outcome} {c' : Circuit} (h : liftO r = .ok c') : r = (c', .ok) := by
  obtain ⟨c, o⟩ := r
  unfold liftO at h
  cases o <;> simp at h
  rw [h]

theorem foldlM_nil_ok {α β} (f : β → α → E β) (b b' : β) (h : ([] : List α).foldlM f b = .ok b') : b' = b := by
  simp only [List.foldlM_nil] at h
  cases h
  rfl

theorem foldlM_cons_ok {α β} (f : β → α → E β) (a : α) (l : List α) (b b' : β)
    (h : (a :: l).foldlM f b = .ok b') : ∃ b1, f b a = .ok b1 ∧ l.foldlM f b1 = .ok b' := by
  rw [List.foldlM_cons] at h
  exact bind_ok h

/-- generic invariant rule for a successful `foldlM` -/
theorem foldlM_inv {α β} (f : β → α → E β) (I : List α → β → Prop) :
    ∀ (done todo : List α) (b b' : β), I done b →
      (∀ d a r s s', done ++ todo = d ++ a :: r → I d s → f s a = .ok s' → I (d ++ [a]) s') →
      todo.foldlM f b = .ok b' → I (done ++ todo) b' := by
  intro done todo
  induction todo generalizing done with
  | nil =>
    intro b b' hI _ h
    rw [foldlM_nil_ok f b b' h, List.append_nil]
    exact hI
  | cons a l ih =>
    intro b b' hI hstep h
    obtain ⟨b1, h1, h2⟩ := foldlM_cons_ok f a l b b' h
    have := ih (done ++ [a]) b1 b' (hstep done a l b b1 rfl hI h1)
      (fun d a' r s s' e => hstep d a' r s s' (by rw [← e]; simp)) h2
    simpa using this

/-! ### single operations -/

/-- `add` with default flags: succeeds only on a new name and appends exactly one node -/
theorem addC_plain {uc uc' : Circuit} {r t : String} {o : Bool}
    (h : Tx.addC uc { n := r, ty := t, output := o } = .ok uc') :
    uc.has r = false ∧ uc'.nodes = uc.nodes ++ [(r, { ty := some t, out := some o })] ∧
    uc'.edges = uc.edges ∧ uc'.bbs = uc.bbs ∧ uc'.name = uc.name := by
  unfold Tx.addC addE at h
  cases hh : uc.has r with
  | true =>
    exfalso
    unfold Circuit.add at h
    simp [hh] at h
    cases h
  | false =>
    refine ⟨rfl, ?_⟩
    unfold Circuit.add at h
    simp only [hh, Bool.false_eq_true, if_false, Bool.not_false, Bool.true_and, Bool.false_and, Bool.and_false] at h
    simp only [connect_empty_right, connect_empty_left, bne_self_eq_false, Bool.false_eq_true, if_false] at h
    split at h
    · rename_i c1 n1 heq
      simp only [Except.map] at h
      injection h with h
      subst h
      repeat (split at heq <;> try (simp at heq; done))
      injection heq with h1 _
      subst h1
      rw [Limit.addNodeAttr_fresh uc r _ hh]
      exact ⟨rfl, rfl, rfl, rfl⟩
    · cases h

theorem setType1_ok {c c' : Circuit} {y t : String} (h : c.setType [y] t = (c', .ok)) :
    c.has y = true ∧ c' = c.setTyRaw y t := by
  unfold Circuit.setType at h
  split at h
  · injection h with _ h; cases h
  · simp only [Circuit.setType.go] at h
    by_cases hy : c.has y = true
    · rw [if_pos hy] at h
      injection h with h _
      exact ⟨hy, h.symm⟩
    · rw [if_neg hy] at h
      injection h with _ h; cases h

theorem uidE_ok {c : Circuit} {b r : Name} (h : uidE c b = .ok r) : c.uid b = some r := by
  unfold uidE at h
  cases hu : c.uid b with
  | none => rw [hu] at h; cases h
  | some r' => rw [hu] at h; injection h with h; rw [h]

/-! ### lists -/

theorem inj_of_nodup_map {α β} {f : α → β} : ∀ {l : List α}, (l.map f).Nodup → ∀ a ∈ l, ∀ b ∈ l, f a = f b → a = b
  | [], _, _, ha, _, _, _ => by cases ha
  | x :: l, h, a, ha, b, hb, e => by
    rw [List.map_cons, List.nodup_cons] at h
    rcases List.mem_cons.1 ha with rfl | ha'
    · rcases List.mem_cons.1 hb with rfl | hb'
      · rfl
      · exact absurd (e ▸ List.mem_map.2 ⟨b, hb', rfl⟩) h.1
    · rcases List.mem_cons.1 hb with rfl | hb'
      · exact absurd (e ▸ List.mem_map.2 ⟨a, ha', rfl⟩ : f b ∈ l.map f) h.1
      · exact inj_of_nodup_map h.2 a ha' b hb' e

theorem lookup_map_key {β} (f : Name → β) : ∀ (l : List Name) (x : Name), x ∈ l →
    (l.map (fun x => (x, f x))).lookup x = some (f x)
  | [], _, h => by cases h
  | a :: l, x, h => by
    rw [List.map_cons, List.lookup_cons]
    by_cases e : x = a
    · subst e; simp
    · have : (x == a) = false := by simpa using e
      rw [this]
      rcases List.mem_cons.1 h with h | h
      · exact absurd h e
      · exact lookup_map_key f l x h

/-! ### names -/

/-- the copy of node `x` for step `t` -/
def U (t : Nat) (x : Name) : Name := pref ("unrolled_" ++ toString t) x

/-- the io node created for `x` at step `t` -/
def N (c : Circuit) (pfx : String) (x : Name) (t : Nat) : Name :=
  (c.uid (x ++ "_" ++ pfx ++ "_" ++ toString t)).getD ""

/-- the io map after `k` iterations -/
def mapAt (c : Circuit) (pfx : String) (io : List Name) (k : Nat) : List (Name × List Name) :=
  io.map (fun x => (x, (List.range k).map (N c pfx x)))

theorem ioName_mapAt (c : Circuit) (pfx : String) (io : List Name) (k : Nat) {x : Name} (hx : x ∈ io) {t : Nat}
    (ht : t < k) : Tx.ioName (mapAt c pfx io k) x t = N c pfx x t := by
  unfold Tx.ioName mapAt
  rw [lookup_map_key (fun x => (List.range k).map (N c pfx x)) io x hx]
  simp [List.getD_eq_getElem?_getD, ht]

theorem U_inj (t : Nat) {a b : Name} (h : U t a = U t b) : a = b := pref_inj _ h

end Unroll
end CG
