/- the loops of limit_fanin (C05 helper) -/
import CG.Proofs.LimitFaninInv
namespace CG
namespace Limit
open Circuit

/-- what one (or several) grouping steps guarantee about the new circuit relative to the old one -/
structure FiRel (c c' : Circuit) : Prop where
  lc : LintClean c'
  ref : Refines c c' id
  attr : ∀ m, c.has m = true → c'.attr? m = c.attr? m
  ins : c'.inputs = c.inputs
  outs : c'.outputs = c.outputs
  fanin : ∀ m, (c'.fanin m).length ≤ max 2 (c.fanin m).length

theorem FiRel.refl {c : Circuit} (hc : LintClean c) : FiRel c c :=
  ⟨hc, refines_refl c, fun _ _ => rfl, rfl, rfl, fun _ => Nat.le_max_right _ _⟩

theorem FiRel.has {c c' : Circuit} (h : FiRel c c') {m : Name} (hm : c.has m = true) : c'.has m = true := by
  obtain ⟨a, ha⟩ := attr_of_has hm
  exact has_of_attr ((h.attr m hm).trans ha)

theorem FiRel.trans {c1 c2 c3 : Circuit} (h12 : FiRel c1 c2) (h23 : FiRel c2 c3) : FiRel c1 c3 where
  lc := h23.lc
  ref := refines_trans h12.ref h23.ref (fun _ hn => h12.has hn)
  attr := fun m hm => (h23.attr m (h12.has hm)).trans (h12.attr m hm)
  ins := h23.ins.trans h12.ins
  outs := h23.outs.trans h12.outs
  fanin := fun m => by
    have h1 := h12.fanin m
    have h2 := h23.fanin m
    omega

namespace FaninPre
variable {c : Circuit} {n f0 f1 r : Name} {t g : String} (h : FaninPre c n f0 f1 r t g)
include h

theorem fanin_n_length : ((faninStep c n f0 f1 r g).fanin n).length + 1 = (c.fanin n).length := by
  rw [h.fanin_n, h.fanin_perm.length_eq]
  simp

theorem step_rel : FiRel c (faninStep c n f0 f1 r g) where
  lc := h.step_lintClean
  ref := h.step_refines
  attr := fun _ hm => ext_attr_old h.hn hm
  ins := ext_inputs h.hn (by
    have := (gate_facts h.gg).2.2.2.2.2.2.1
    simp [gateAttr, this])
  outs := ext_outputs h.hn rfl
  fanin := fun m => by
    by_cases hmn : m = n
    · subst hmn
      have := h.fanin_n_length
      omega
    · by_cases hmr : m = r
      · subst hmr
        rw [h.fanin_r]
        exact Nat.le_max_left 2 _
      · rw [faninStep_fanin_other c n f0 f1 r g hmn hmr]
        exact Nat.le_max_right _ _

end FaninPre

theorem fanin_length_le_edges (c : Circuit) (n : Name) : (c.fanin n).length ≤ c.edges.length := by
  unfold Circuit.fanin
  rw [List.length_map]
  exact List.length_filter_le _ _

theorem has_of_fanin_pos {c : Circuit} (hc : WF c) {n : Name} (h : 0 < (c.fanin n).length) : c.has n = true := by
  obtain ⟨x, hx⟩ := List.exists_mem_of_length_pos h
  exact (hc.closed _ ((RU.mem_fanin c x n).mp hx)).2

/-- the inner `while` loop of `limit_fanin` for node `n` -/
theorem limitFaninNode_ok (k : Nat) (hk : 2 ≤ k) (ord : Ord) (hord : OrdOK ord) (n : Name) :
    ∀ (fuel i : Nat) (ck : Circuit), LintClean ck → (ck.fanin n).length + 1 ≤ fuel →
      (k < (ck.fanin n).length → isDigit0 n = false) →
      ∃ ck', Tx.limitFaninNode k ord n fuel i ck = .ok ck' ∧ FiRel ck ck' ∧ (ck'.fanin n).length ≤ k
  | 0, _, _, _, hf, _ => by omega
  | fuel + 1, i, ck, hc, hf, hd => by
    by_cases hgt : (ck.fanin n).length > k
    · have hperm := hord (ck.fanin n)
      have hlen := hperm.length_eq
      match hl : ord (ck.fanin n), hlen with
      | [], hlen => simp at hlen; omega
      | [x], hlen => simp at hlen; omega
      | f0 :: f1 :: rest, _ =>
        rw [hl] at hperm
        have hnd : (f0 :: f1 :: rest).Nodup := (hperm.nodup_iff).mpr (RU.fanin_nodup ck hc.edgesNodup n)
        have hne : f0 ≠ f1 := by
          intro he
          rw [he] at hnd
          simp at hnd
        have e0 : (f0, n) ∈ ck.edges := (RU.mem_fanin ck f0 n).mp (hperm.subset (by simp))
        have e1 : (f1, n) ∈ ck.edges := (RU.mem_fanin ck f1 n).mp (hperm.subset (by simp))
        have hhas : ck.has n = true := (hc.closed _ e0).2
        obtain ⟨t, hty, htm⟩ := multi_of_fanin hc hhas (by omega)
        obtain ⟨g, hlook, hgm⟩ := gatemapLookup_multi htm
        have hsome := uid_isSome ck (n ++ "_limit_fanin_" ++ toString i) []
        obtain ⟨r, hr⟩ := Option.isSome_iff_exists.mp hsome
        have hfresh := (uid_spec ck _ r hr).1
        have hok : NameOK r := nameOK_uid ck n "_limit_fanin_" (toString i) r "limit_fanin_".toList (by decide) (hd hgt) hr
        have hpre : FaninPre ck n f0 f1 r t g := ⟨hc, e0, e1, hne, hty, hgm, hfresh⟩
        have hadd := hpre.addE_eq _ hr hok
        have hty' : (ck.disconnect [f0, f1] [n]).ty? n = some t := hty
        have hm := hpre.fanin_n_length
        obtain ⟨ck', hrun, hrel, hfin⟩ := limitFaninNode_ok k hk ord hord n fuel (i + 1)
          (faninStep ck n f0 f1 r g) hpre.step_lintClean (by omega) (fun _ => hd hgt)
        refine ⟨ck', ?_, hpre.step_rel.trans hrel, hfin⟩
        unfold Tx.limitFaninNode
        simp only [hgt, if_true, hl, hty', hlook, hadd]
        exact hrun
    · refine ⟨ck, ?_, FiRel.refl hc, by omega⟩
      unfold Tx.limitFaninNode
      simp only [hgt, if_false]

/-- the outer loop of `limit_fanin` -/
theorem limitFanin_fold (c : Circuit) (k : Nat) (hk : 2 ≤ k) (ord : Ord) (hord : OrdOK ord)
    (hname : ∀ n, k < (c.fanin n).length → isDigit0 n = false) :
    ∀ (L : List Name) (D : Name → Prop) (ck : Circuit), FiRel c ck → (∀ m, D m → (ck.fanin m).length ≤ k) →
      ∃ c', L.foldlM (fun ck n => Tx.limitFaninNode k ord n (ck.edges.length + 2) 0 ck) ck = .ok c' ∧
        FiRel c c' ∧ ∀ m, (D m ∨ m ∈ L) → (c'.fanin m).length ≤ k
  | [], D, ck, hrel, hD => ⟨ck, rfl, hrel, fun m hm => by
      rcases hm with hm | hm
      · exact hD m hm
      · simp at hm⟩
  | n :: L, D, ck, hrel, hD => by
    have hfuel : (ck.fanin n).length + 1 ≤ ck.edges.length + 2 := by
      have := fanin_length_le_edges ck n
      omega
    have hdig : k < (ck.fanin n).length → isDigit0 n = false := by
      intro hlt
      apply hname
      have := hrel.fanin n
      omega
    obtain ⟨ck1, hrun, hrel1, hfin⟩ := limitFaninNode_ok k hk ord hord n _ 0 ck hrel.lc hfuel hdig
    obtain ⟨c', hrun', hrel', hall⟩ := limitFanin_fold c k hk ord hord hname L (fun m => D m ∨ m = n) ck1
      (hrel.trans hrel1) (by
        intro m hm
        rcases hm with hm | rfl
        · have h1 := hD m hm
          have h2 := hrel1.fanin m
          omega
        · exact hfin)
    refine ⟨c', ?_, hrel', ?_⟩
    · rw [List.foldlM_cons, hrun]
      exact hrun'
    · intro m hm
      apply hall
      rcases hm with hm | hm
      · exact Or.inl (Or.inl hm)
      · rcases List.mem_cons.mp hm with rfl | hm
        · exact Or.inl (Or.inr rfl)
        · exact Or.inr hm

theorem limit_fanin_main (c : Circuit) (k : Nat) (hk : 2 ≤ k) (ord : Ord) (hord : OrdOK ord) (hc : LintClean c)
    (hname : ∀ n, k < (c.fanin n).length → isDigit0 n = false) :
    ∃ c', Tx.limitFanin c k ord = .ok c' ∧
      (∀ n, (c'.fanin n).length ≤ k) ∧
      c'.inputs = c.inputs ∧ c'.outputs = c.outputs ∧
      (∀ n, c.has n = true → c'.attr? n = c.attr? n) ∧
      LintClean c' ∧ Refines c c' id := by
  obtain ⟨c', hrun, hrel, hall⟩ := limitFanin_fold c k hk ord hord hname (ord c.nodeNames) (fun _ => False) c
    (FiRel.refl hc) (fun _ hm => hm.elim)
  refine ⟨c', ?_, ?_, hrel.ins, hrel.outs, hrel.attr, hrel.lc, hrel.ref⟩
  · unfold Tx.limitFanin
    rw [if_neg (by omega)]
    exact hrun
  · intro m
    by_cases hm : c.has m = true
    · apply hall
      right
      exact (hord c.nodeNames).mem_iff.mpr ((RU.has_iff c m).mp hm)
    · have hnil : (c.fanin m).length = 0 := by
        cases hlen : (c.fanin m).length with
        | zero => rfl
        | succ j => exact absurd (has_of_fanin_pos hc.toWF (by omega)) hm
      have := hrel.fanin m
      omega

end Limit
end CG
