/- C09 (unroll): what the invariant says about valuations (soundness, io bookkeeping) -/
import CG.Proofs.UnrollLoop
set_option linter.unusedSimpArgs false
set_option linter.unusedVariables false
namespace CG
namespace Unroll
open Circuit

theorem gateFn_input (l : List Bool) : gateFn "input" l = none := by
  simp [gateFn]

theorem gateFn_buf {l : List Bool} {b : Bool} (h : gateFn "buf" l = some b) : l = [b] := by
  simp only [gateFn, String.reduceEq, if_false, true_or, if_true] at h
  split at h
  · injection h with h; rw [h]
  · cases h

theorem gateFn_buf_one (a : Bool) : gateFn "buf" [a] = some a := by
  simp [gateFn]

/-- a driven buffer carries the value of its driver -/
theorem buf_val {uc : Circuit} {v : Val} (hv : Consistent uc v) {y u : Name} {a : Attr} (hm : (y, a) ∈ uc.nodes)
    (hty : a.ty = some "buf") (hf : uc.fanin y = [u]) : v y = v u := by
  have := hv (y, a) hm "buf" hty (v u)
  apply this
  rw [hf]
  exact gateFn_buf_one _

theorem stripA_ty_input {a : Attr} (h : a.ty = some "input") : (stripA a).ty = some "buf" := by
  unfold stripA
  show (if a.ty = some "input" then some "buf" else a.ty) = some "buf"
  rw [if_pos h]

theorem ioTy_cases (c : Circuit) (stateIO : List (Name × Name)) (x : Name) (t : Nat) :
    ioTy c stateIO x t = "input" ∨ ioTy c stateIO x t = "buf" := by
  unfold ioTy ioTy0
  split
  · exact Or.inl rfl
  · split
    · exact Or.inr rfl
    · split
      · exact Or.inl rfl
      · exact Or.inr rfl

theorem ioTy0_notin {c : Circuit} {stateIO : List (Name × Name)} {x : Name} (h : x ∉ c.inputs) :
    ioTy0 c stateIO x = "buf" := by
  unfold ioTy0
  have hc' : c.inputs.contains x = false := by
    cases hh : c.inputs.contains x with
    | false => rfl
    | true => exact absurd (List.contains_iff_mem.1 hh) h
  rw [hc']
  simp

section
variable {c : Circuit} {stateIO : List (Name × Name)} {pfx : String} {io : List Name}

theorem ioTy_notin (C : Ctx c stateIO io) {x : Name} (h : x ∉ c.inputs) (t : Nat) :
    ioTy c stateIO x t = "buf" := by
  unfold ioTy
  rw [if_neg, ioTy0_notin h]
  rintro ⟨_, hv⟩
  obtain ⟨p, hp, e⟩ := (isVal_iff stateIO x).1 hv
  exact h (e ▸ C.valsIn p hp)

theorem ioTy_val_succ {p : Name × Name} (hp : p ∈ stateIO) (t : Nat) : ioTy c stateIO p.2 (t + 1) = "buf" := by
  unfold ioTy
  rw [if_neg (by omega), (ioTy0_state hp).1]

/-- io nodes carry the value of the node they stand for -/
theorem Inv.ioVal (C : Ctx c stateIO io) {n : Nat} {s : Tx.UState} (I : Inv c stateIO pfx io n s) {v : Val}
    (hv : Consistent s.1 v) {x : Name} (hx : x ∈ io) {t : Nat} (ht : t < n) :
    v (N c pfx x t) = v (U t x) := by
  by_cases hi : x ∈ c.inputs
  · obtain ⟨a, ha⟩ := has_exists (mem_inputs_has hi)
    have hty := (mem_inputs_of_mem C.wf.nodup ha).1 hi
    exact (buf_val hv (I.memU ht ha) (stripA_ty_input hty) (I.faninIn t ht x hi)).symm
  · refine buf_val hv (I.memN ht hx) ?_ (I.faninOut t ht x hx hi)
    show some (ioTy c stateIO x t) = some "buf"
    rw [ioTy_notin C hi]

theorem Inv.sem (C : Ctx c stateIO io) {n : Nat} {s : Tx.UState} (I : Inv c stateIO pfx io n s) {v : Val}
    (hv : Consistent s.1 v) :
    (∀ t, t < n → Consistent c (fun x => v (U t x))) ∧
    (∀ t, t + 1 < n → ∀ p ∈ stateIO, v (U (t + 1) p.2) = v (U t p.1)) ∧
    (∀ x ∈ io, ∀ t, t < n → v (N c pfx x t) = v (U t x)) := by
  have h3 : ∀ x ∈ io, ∀ t, t < n → v (N c pfx x t) = v (U t x) := fun x hx t ht => I.ioVal C hv hx ht
  refine ⟨?_, ?_, h3⟩
  · intro t ht p hp t' hty
    by_cases hin : t' = "input"
    · subst hin
      intro b hb
      rw [gateFn_input] at hb
      cases hb
    · have hni : p.1 ∉ c.inputs := by
        intro hm
        have := (mem_inputs_of_mem C.wf.nodup (n := p.1) (a := p.2) hp).1 hm
        rw [hty] at this
        injection this with this
        exact hin this
      have hf := I.faninCopy t ht p.1 (has_of_mem_nodes (a := p.2) hp) hni
      have hN := hv _ (I.memU ht hp) t' (stripA_ty_of_ne hty hin)
      intro b hb
      apply hN b
      show gateFn t' ((s.1.fanin (U t p.1)).map v) = some b
      rw [hf, gate_map_pref]
      exact hb
  · intro t ht p hp
    have hv2 : p.2 ∈ io := C.ioIn _ (C.valsIn p hp)
    rw [← h3 p.2 hv2 (t + 1) ht, ← h3 p.1 (C.keysIO p hp) t (by omega)]
    refine buf_val hv (I.memN ht hv2) ?_ (I.faninVal t ht p hp)
    show some (ioTy c stateIO p.2 (t + 1)) = some "buf"
    rw [ioTy_val_succ hp]

end
end Unroll
end CG
