/- C09 (unroll succeeds), phase A of an iteration: the per-step io nodes can be created -/
import CG.Proofs.UnrollMap
import CG.Proofs.ArithSub
set_option linter.unusedSimpArgs false
set_option linter.unusedVariables false
namespace CG
namespace UnrollOk
open Circuit Unroll

/-- `uid` always finds a name: the `uidE` of phase A returns the name `N` of the partial-correctness development -/
theorem uidE_N (c : Circuit) (pfx : String) (x : Name) (k : Nat) :
    uidE c (x ++ "_" ++ pfx ++ "_" ++ toString k) = .ok (N c pfx x k) := by
  unfold uidE N
  have h := Limit.uid_isSome c (x ++ "_" ++ pfx ++ "_" ++ toString k) []
  cases hu : c.uid (x ++ "_" ++ pfx ++ "_" ++ toString k) with
  | none => rw [hu] at h; cases h
  | some r => rfl

theorem uid_N (c : Circuit) (pfx : String) (x : Name) (k : Nat) :
    c.uid (x ++ "_" ++ pfx ++ "_" ++ toString k) = some (N c pfx x k) := uidE_ok (uidE_N c pfx x k)

/-- the per-step io names are accepted by `add` as soon as the io node does not start with a digit -/
theorem nameOK_N (c : Circuit) (pfx : String) {x : Name} (k : Nat) (hx : isDigit0 x = false) :
    Limit.NameOK (N c pfx x k) := by
  have h := uid_N c pfx x k
  have e : x ++ "_" ++ pfx ++ "_" ++ toString k = x ++ "_" ++ (pfx ++ "_" ++ toString k) := by
    simp only [String.append_assoc]
  rw [e] at h
  exact Limit.nameOK_uid c x "_" (pfx ++ "_" ++ toString k) _ [] rfl hx h

/-- the per-step io name is not a node of `c` -/
theorem N_fresh (c : Circuit) (pfx : String) (x : Name) (k : Nat) : c.has (N c pfx x k) = false :=
  (Limit.uid_spec c _ _ (uid_N c pfx x k)).1

theorem supported_buf : "buf" ∈ T.supported := by rw [Limit.T_supported]; decide
theorem supported_input : "input" ∈ T.supported := by rw [Limit.T_supported]; decide

theorem ioTy0_cases (c : Circuit) (stateIO : List (Name × Name)) (x : Name) :
    ioTy0 c stateIO x = "buf" ∨ ioTy0 c stateIO x = "input" := by
  unfold ioTy0
  split
  · exact Or.inl rfl
  · split
    · exact Or.inr rfl
    · exact Or.inl rfl

theorem ioTy0_not_input {c : Circuit} {stateIO : List (Name × Name)} {x : Name} (h : x ∉ c.inputs) :
    ioTy0 c stateIO x = "buf" := by
  have hc' : c.inputs.contains x = false := by
    cases hh : c.inputs.contains x with
    | false => rfl
    | true => exact absurd (List.contains_iff_mem.1 hh) h
  unfold ioTy0
  rw [hc']
  simp

theorem ioTy_cases (c : Circuit) (stateIO : List (Name × Name)) (x : Name) (t : Nat) :
    ioTy c stateIO x t = "buf" ∨ ioTy c stateIO x t = "input" := by
  unfold ioTy
  split
  · exact Or.inr rfl
  · exact ioTy0_cases c stateIO x

/-- `add` with default flags succeeds on a fresh, well-formed name -/
theorem addC_plain_succeeds {uc : Circuit} {r t : String} {o : Bool} (hfresh : uc.has r = false)
    (hok : Limit.NameOK r) (ht : t ∈ T.supported) :
    ∃ uc', Tx.addC uc { n := r, ty := t, output := o } = .ok uc' := by
  have h := Arith.add_eq_of_connects uc (uc.addNodeAttr r { ty := some t, out := some o })
    (uc.addNodeAttr r { ty := some t, out := some o }) r t [] [] o hfresh hok ht
    (by rintro ⟨h, _⟩; simp at h) (by rintro ⟨h, _⟩; simp at h)
    (connect_empty_right _ _) (connect_empty_left _ _)
  refine ⟨uc.addNodeAttr r { ty := some t, out := some o }, ?_⟩
  unfold Tx.addC addE
  rw [h]
  rfl

/-- one `unrollIO` call succeeds -/
theorem unrollIO_succeeds {c : Circuit} {stateIO : List (Name × Name)} {pfx : String} {k : Nat} {s : Tx.UState}
    {x : Name} (hx : isDigit0 x = false) (hfresh : s.1.has (N c pfx x k) = false) :
    ∃ s', Tx.unrollIO c stateIO pfx k s x = .ok s' := by
  have hsup : ioTy0 c stateIO x ∈ T.supported := by
    rcases ioTy0_cases c stateIO x with h | h <;> rw [h]
    · exact supported_buf
    · exact supported_input
  obtain ⟨uc, huc⟩ := addC_plain_succeeds (o := c.isOut x) hfresh (nameOK_N c pfx k hx) hsup
  refine ⟨(uc, s.2.map (fun p => if p.1 == x then (p.1, p.2 ++ [N c pfx x k]) else p)), ?_⟩
  unfold Tx.unrollIO
  rw [uidE_N]
  show (Tx.addC s.1 { n := N c pfx x k, ty := ioTy0 c stateIO x, output := c.isOut x } >>= fun uc =>
    pure (uc, s.2.map (fun p => if p.1 == x then (p.1, p.2 ++ [N c pfx x k]) else p))) = _
  rw [huc]
  rfl

/-- phase A succeeds when the new names are fresh and pairwise distinct -/
theorem ioPhase_succeeds {c : Circuit} {stateIO : List (Name × Name)} {pfx : String} {k : Nat} :
    ∀ (io : List Name) (s : Tx.UState), (∀ x ∈ io, isDigit0 x = false) →
    (∀ x ∈ io, s.1.has (N c pfx x k) = false) → (io.map (fun x => N c pfx x k)).Nodup →
    ∃ s', io.foldlM (Tx.unrollIO c stateIO pfx k) s = .ok s'
  | [], s, _, _, _ => ⟨s, rfl⟩
  | x :: io, s, hd, hf, hnd => by
    obtain ⟨s1, h1⟩ := unrollIO_succeeds (c := c) (stateIO := stateIO) (pfx := pfx) (k := k) (s := s)
      (hd x (by simp)) (hf x (by simp))
    obtain ⟨_, a2, _, _⟩ := unrollIO_ok h1
    rw [List.map_cons, List.nodup_cons] at hnd
    obtain ⟨s', h2⟩ := ioPhase_succeeds io s1 (fun y hy => hd y (List.mem_cons_of_mem _ hy))
      (by
        intro y hy
        cases hh : s1.1.has (N c pfx y k) with
        | false => rfl
        | true =>
          rcases (Limit.ext_has a2 _).1 hh with h | h
          · rw [hf y (List.mem_cons_of_mem _ hy)] at h; cases h
          · exact absurd (h ▸ List.mem_map.2 ⟨y, hy, rfl⟩ : N c pfx x k ∈ io.map (fun x => N c pfx x k)) hnd.1)
      hnd.2
    refine ⟨s', ?_⟩
    rw [List.foldlM_cons, h1]
    exact h2

end UnrollOk
end CG
