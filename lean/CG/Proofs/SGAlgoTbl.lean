/- C17 (algorithm) helpers, part 7: the child table `domChildren` is the child table of the dominator tree -/
import CG.Proofs.SGAlgoSD
import CG.Proofs.SGAlgoHeads
set_option linter.unusedSectionVars false
set_option linter.unusedVariables false
set_option linter.unusedSimpArgs false
namespace CG
namespace SGA
open Query Supergates Q

theorem lookup_map_self {β} (F : Name → β) (v : Name) : ∀ l : List Name,
    (l.map (fun x => (x, F x))).lookup v = if v ∈ l then some (F v) else none
  | [] => by simp [List.lookup]
  | y :: ys => by
    rw [List.map_cons, List.lookup_cons, lookup_map_self F v ys]
    by_cases hvy : v = y
    · subst hvy; simp
    · have : (v == y) = false := by simpa using hvy
      rw [this]
      simp [hvy]

theorem childrenOf_dom (c2 : Circuit) (o v : Name) :
    childrenOf (domChildren c2 o) v =
      if v ∈ coneOf c2 o then (coneOf c2 o).filter (fun x => par c2 o x == some v) else [] := by
  unfold childrenOf domChildren
  simp only
  rw [lookup_map_self]
  by_cases hv : v ∈ coneOf c2 o
  · rw [if_pos hv, if_pos hv, Option.getD_some, List.filter_map, List.map_map]
    have : ((fun p : Name × Option Name => p.1) ∘ fun x => (x, idom (gSucc c2 (coneOf c2 o) o) (coneOf c2 o) o x)) = id := rfl
    rw [this, List.map_id]
    rfl
  · rw [if_neg hv, if_neg hv, Option.getD_none]

theorem mem_childrenOf (c2 : Circuit) (hwf : WF c2) (hac : Acyclic c2) (o v k : Name) :
    k ∈ childrenOf (domChildren c2 o) v ↔ k ∈ coneOf c2 o ∧ par c2 o k = some v := by
  rw [childrenOf_dom]
  by_cases hv : v ∈ coneOf c2 o
  · rw [if_pos hv, List.mem_filter, beq_iff_eq]
  · rw [if_neg hv]
    constructor
    · intro h; exact absurd h List.not_mem_nil
    · rintro ⟨hk, hp⟩
      exact absurd (par_SD c2 hwf hac hk hp).1 hv

theorem treeOK (c2 : Circuit) (hwf : WF c2) (hac : Acyclic c2) (o : Name) :
    TreeOK (domChildren c2 o) (coneOf c2 o) o (par c2 o) (depthOf c2 o) where
  len := by unfold domChildren; simp
  cnd := cone_nodup c2 hwf o
  root_mem := root_mem_cone c2 o
  par_root := par_root c2 o
  par_some := by
    intro k hk hko
    obtain ⟨m, h1, h2⟩ := par_spec c2 hwf hac hk hko
    exact ⟨m, h2.1.1, h1⟩
  ch_par := fun v k h => (mem_childrenOf c2 hwf hac o v k).mp h
  par_ch := fun v k hk hp => (mem_childrenOf c2 hwf hac o v k).mpr ⟨hk, hp⟩
  ch_nd := by
    intro v
    rw [childrenOf_dom]
    split
    · exact (cone_nodup c2 hwf o).filter _
    · exact List.nodup_nil
  dep := fun v k hk hp => depth_lt c2 hwf hac (par_SD c2 hwf hac hk hp) hk

end SGA
end CG
