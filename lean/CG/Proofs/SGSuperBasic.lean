/- C17 (super-circuit) helpers, part 1: the argument checks of `runSuper` -/
import CG.SuperCircuit
namespace CG
namespace SGSuper
open Supergates

theorem runSuper_rejects (c : Circuit) (ord : Ord) :
    (1 < c.outputs.length → runSuper c ord = .error .valueError) ∧
    (c.outputs.length ≤ 1 → c.bbs ≠ [] → runSuper c ord = .error .notImplemented) := by
  refine ⟨fun h => ?_, fun h hb => ?_⟩
  · unfold runSuper
    rw [if_pos h]
  · unfold runSuper
    rw [if_neg (Nat.not_lt.mpr h)]
    have : c.bbs.isEmpty = false := by
      cases hb' : c.bbs with
      | nil => exact absurd hb' hb
      | cons _ _ => rfl
    rw [this]
    rfl

end SGSuper
end CG
